//! slcov <op> <secret-index> <tier>[:<keybits>]
//!
//! Runs ONE listed operation of property C18 once, on inputs derived deterministically from (op, secret-index):
//! the PUBLIC inputs (session id, sizes, key size; for the public-key operations the key) depend on `op` only, the SECRET
//! inputs (plaintexts, exponents, randomness, ciphertexts, the secret key among keys of one bit-length class, choice
//! bits, seeds, punctured indices, VOLE inputs) depend on the secret index.  Input generation happens BEFORE the
//! coverage counters are reset, the counters are written right after the operation returns and the process exits
//! without running the at-exit writer — so the profile contains exactly one execution of the operation.
//! Built with `-C instrument-coverage` (see .cargo/config.toml); driven by tools/ct_measure.py.
mod primes;

use crypto_bigint::{Encoding, NonZero, RandomMod, Split, Uint, U1024, U2048, U256, U4096, U512};
use k256::elliptic_curve::ops::Reduce;
use k256::{Scalar, U256 as KU256};
use rand::{CryptoRng, Rng, RngCore, SeedableRng};
use rand_chacha::ChaCha20Rng;
use sl_oblivious::endemic_ot::{ReceiverOutput, SenderOutput};
use sl_oblivious::params::consts::*;
use sl_oblivious::rvole::{RVOLEOutput, RVOLEReceiver, RVOLESender};
use sl_oblivious::soft_spoken::{
    build_pprf, eval_pprf, PPRFOutput, ReceiverExtendedOutput, ReceiverOTSeed, Round1Output, SenderOTSeed, SoftSpokenOTReceiver,
    SoftSpokenOTSender,
};
use sl_paillier::{RawCiphertext, RawPlaintext, PK, SK};

extern "C" {
    fn __llvm_profile_reset_counters();
    fn __llvm_profile_write_file() -> i32;
    fn _exit(code: i32) -> !;
}

/// run `f` with fresh counters and write the profile immediately afterwards
fn measured<T>(f: impl FnOnce() -> T) -> T {
    unsafe { __llvm_profile_reset_counters() };
    let r = f();
    let rc = unsafe { __llvm_profile_write_file() };
    if rc != 0 {
        eprintln!("slcov: profile could not be written (rc={rc})");
        unsafe { _exit(4) }
    }
    r
}

fn finish(op: &str, idx: u64, desc: &str, out: &[u8]) -> ! {
    let mut h: u64 = 0xcbf29ce484222325;
    for b in out {
        h ^= *b as u64;
        h = h.wrapping_mul(0x100000001b3);
    }
    println!("ok op={op} idx={idx} out={h:016x} inputs=[{desc}]");
    unsafe { _exit(0) }
}

fn seed_rng(tag: &str, a: &str, b: u64) -> ChaCha20Rng {
    let mut seed = [0u8; 32];
    let mut h: u64 = 0x9e3779b97f4a7c15;
    for (k, c) in tag.bytes().chain([0u8]).chain(a.bytes()).chain(b.to_le_bytes()).enumerate() {
        h = (h ^ c as u64).wrapping_mul(0x100000001b3).rotate_left(13);
        seed[k % 32] ^= (h >> 24) as u8;
    }
    ChaCha20Rng::from_seed(seed)
}

/// an RNG whose first bytes are prescribed (used to force `beta` of the VOLE receiver)
struct ForcedRng {
    prefix: Vec<u8>,
    at: usize,
    inner: ChaCha20Rng,
}
impl RngCore for ForcedRng {
    fn next_u32(&mut self) -> u32 { let mut b = [0u8; 4]; self.fill_bytes(&mut b); u32::from_le_bytes(b) }
    fn next_u64(&mut self) -> u64 { let mut b = [0u8; 8]; self.fill_bytes(&mut b); u64::from_le_bytes(b) }
    fn fill_bytes(&mut self, dest: &mut [u8]) {
        for d in dest.iter_mut() {
            if self.at < self.prefix.len() { *d = self.prefix[self.at]; self.at += 1; } else { let mut b = [0u8; 1]; self.inner.fill_bytes(&mut b); *d = b[0]; }
        }
    }
    fn try_fill_bytes(&mut self, dest: &mut [u8]) -> Result<(), rand::Error> { self.fill_bytes(dest); Ok(()) }
}
impl CryptoRng for ForcedRng {}

// ------------------------------------------------------------------------------------------------ Paillier

fn paillier<const C: usize, const M: usize, const P: usize>(op: &str, idx: u64, table: &[&str]) -> !
where
    Uint<C>: Split<Output = Uint<M>> + From<(Uint<M>, Uint<M>)> + Encoding,
    Uint<M>: From<(Uint<P>, Uint<P>)> + Encoding + Split<Output = Uint<P>>,
    Uint<P>: Encoding,
{
    let key = |k: usize| -> SK<C, M, P> {
        let a = Uint::<P>::from_be_hex(table[2 * k]);
        let b = Uint::<P>::from_be_hex(table[2 * k + 1]);
        let (lo, hi) = if a < b { (a, b) } else { (b, a) };
        // even k: p < q, odd k: p > q
        if k % 2 == 0 { SK::from_pq(&lo, &hi) } else { SK::from_pq(&hi, &lo) }
    };
    let nkeys = table.len() / 2;
    let is_pk_op = op == "encrypt_with_r" || op == "mul";
    // PUBLIC: for the public-key operations the key itself; for the secret-key operations only its bit-length class
    let kix = if is_pk_op { 0 } else { (idx as usize) % nkeys };
    let sk = key(kix);
    let pk: PK<C, M> = sk.public_key();
    let n: NonZero<Uint<M>> = *pk.get_n();
    let mut rs = seed_rng("secret", op, idx);
    let bits = Uint::<M>::BITS;
    let mclass = idx % 8;
    // classes 5..7: plaintexts placed relative to the key, m = -N^-1 mod 2^w — the low w bits of m*N are all ones (carry chains)
    let key_relative = |w: usize| -> Uint<M> { let mask = Uint::<M>::ONE.shl_vartime(w).wrapping_sub(&Uint::ONE); n.inv_mod2k(w).wrapping_neg().bitand(&mask) };
    let m: Uint<M> = match mclass {
        0 => Uint::ZERO,
        1 => Uint::ONE,
        2 => Uint::ONE.shl_vartime(((7 * idx as usize + 3) % (bits - 2)) as usize),
        3 => n.wrapping_sub(&Uint::ONE),
        5 => key_relative(64),
        6 => key_relative(bits - 64),
        7 => key_relative(bits / 2),
        _ => Uint::random_mod(&mut rs, &n),
    };
    let rclass = (idx / 5) % 3;
    let r: Uint<M> = match rclass {
        0 => loop { let r = Uint::random_mod(&mut rs, &n); if r != Uint::ZERO { break r } },
        1 => Uint::from(2u8),
        _ => n.wrapping_sub(&Uint::ONE),
    };
    let mut desc = format!("bits={bits} key#{kix}({}) m-class={} r-class={}", if kix % 2 == 0 { "p<q" } else { "p>q" },
                           ["0", "1", "2^k", "N-1", "random", "-1/N mod 2^64", "-1/N mod 2^(bits-64)", "-1/N mod 2^(bits/2)"][mclass as usize], ["random", "2", "N-1"][rclass as usize]);
    let pm: RawPlaintext<M> = pk.into_message(&m).expect("m < N");
    match op {
        "encrypt_with_r" => {
            let c = measured(|| pk.encrypt_with_r(&pm, &r));
            finish(op, idx, &desc, c.to_be_bytes().as_ref())
        }
        "mul" => {
            let m0 = Uint::random_mod(&mut rs, &n);
            let r0 = Uint::random_mod(&mut rs, &n);
            let c0 = pk.encrypt_with_r(&pk.into_message(&m0).unwrap(), &r0);
            let c = measured(|| pk.mul(&c0, &pm));
            finish(op, idx, &desc, c.to_be_bytes().as_ref())
        }
        "mul_vartime" => {
            let m0 = Uint::random_mod(&mut rs, &n);
            let r0 = Uint::random_mod(&mut rs, &n);
            let c0 = pk.encrypt_with_r(&pk.into_message(&m0).unwrap(), &r0);
            let c = measured(|| pk.mul_vartime(&c0, &pm));
            finish(op, idx, &desc, c.to_be_bytes().as_ref())
        }
        "decrypt" | "decrypt_fast" => {
            // ciphertexts that are NOT units modulo N (a multiple of one prime, of N, zero): decryption is defined on every element of
            // Z_{N^2} and its control flow must not tell these apart from honest ciphertexts
            let prime = |which: usize| -> Uint<M> {
                let a = Uint::<P>::from_be_hex(table[2 * kix]); let b = Uint::<P>::from_be_hex(table[2 * kix + 1]);
                let x = if which == 0 { a } else { b };
                Uint::<M>::from((x, Uint::<P>::ZERO))
            };
            let nonunit = |f: Uint<M>, rs: &mut ChaCha20Rng| -> RawCiphertext<C> {
                let t = Uint::<M>::random_mod(rs, &n);
                let (lo, hi) = f.mul_wide(&t);
                RawCiphertext::from_uint(Uint::<C>::from((lo, hi)).rem(&NonZero::new(*pk.get_nn()).unwrap()))
            };
            let c: RawCiphertext<C> = if idx % 16 == 9 {
                desc.push_str(" ciphertext=multiple of one prime"); nonunit(prime(0), &mut rs)
            } else if idx % 16 == 10 {
                desc.push_str(" ciphertext=multiple of the other prime"); nonunit(prime(1), &mut rs)
            } else if idx % 16 == 11 {
                desc.push_str(" ciphertext=multiple of N"); nonunit(*n, &mut rs)
            } else if idx % 16 == 12 {
                desc.push_str(" ciphertext=0"); RawCiphertext::from_uint(Uint::<C>::ZERO)
            } else if idx % 7 == 6 {
                desc.push_str(" ciphertext=random element of Z_{N^2}");
                RawCiphertext::from_uint(Uint::<C>::random_mod(&mut rs, &NonZero::new(*pk.get_nn()).unwrap()))
            } else {
                pk.encrypt_with_r(&pm, &r)
            };
            let d = if op == "decrypt" { measured(|| sk.decrypt(&c)) } else { measured(|| sk.decrypt_fast(&c)) };
            if idx % 7 != 6 && !(9..=12).contains(&(idx % 16)) && d.to_uint() != m {
                eprintln!("slcov: {op} returned a wrong plaintext");
                unsafe { _exit(3) }
            }
            finish(op, idx, &desc, d.to_uint().to_be_bytes().as_ref())
        }
        "extract_n_root" => {
            let ip = sk.extract_n_root_init_params();
            let z: Uint<M> = match idx % 4 {
                3 => { desc.push_str(" z=1"); Uint::ONE }
                2 => { desc.push_str(" z=random mod N"); Uint::random_mod(&mut rs, &n) }
                _ => {
                    desc.push_str(" z=low half of Enc(0;r)");
                    let c0 = pk.encrypt_with_r(&pk.into_message(&Uint::ZERO).unwrap(), &r);
                    let (_hi, lo) = c0.to_uint().split();
                    lo
                }
            };
            let root = measured(|| sk.extract_n_root(&z, &ip));
            finish(op, idx, &desc, root.to_be_bytes().as_ref())
        }
        _ => {
            eprintln!("slcov: unknown Paillier op {op}");
            unsafe { _exit(2) }
        }
    }
}

// ------------------------------------------------------------------------------------------------ OT / VOLE

const NB: usize = LAMBDA_C_DIV_SOFT_SPOKEN_K;

fn fill_class(buf: &mut [u8], class: u64, rng: &mut impl RngCore) -> &'static str {
    match class % 3 {
        0 => { buf.fill(0x00); "all-0" }
        1 => { buf.fill(0xff); "all-1" }
        _ => { rng.fill_bytes(buf); "random" }
    }
}

/// honest all-but-one seeds with the punctured indices of the given class (0 / 15 / random)
fn ot_seeds(class: u64, rng: &mut impl RngCore) -> (Box<SenderOTSeed>, Box<ReceiverOTSeed>, &'static str) {
    let mut s = Box::new(SenderOTSeed::default());
    let mut r = Box::new(ReceiverOTSeed::default());
    for i in 0..NB {
        for j in 0..SOFT_SPOKEN_Q {
            rng.fill_bytes(&mut s.otp_enc_keys[i][j]);
        }
        r.otp_dec_keys[i] = s.otp_enc_keys[i];
    }
    let name = match class % 3 { 0 => "all-0", 1 => "all-15", _ => "random" };
    for i in 0..NB {
        let d = match class % 3 { 0 => 0u8, 1 => (SOFT_SPOKEN_Q - 1) as u8, _ => rng.gen_range(0..SOFT_SPOKEN_Q) as u8 };
        r.random_choices[i] = d;
        r.otp_dec_keys[i][d as usize] = [0u8; LAMBDA_C_BYTES];
    }
    (s, r, name)
}

fn scalar_class(class: u64, rng: &mut (impl RngCore + CryptoRng)) -> (Scalar, &'static str) {
    match class % 4 {
        0 => (Scalar::ZERO, "0"),
        1 => (Scalar::ONE, "1"),
        2 => (-Scalar::ONE, "q-1"),
        _ => (Scalar::generate_biased(rng), "random"),
    }
}

fn oblivious(op: &str, idx: u64) -> ! {
    // PUBLIC: the session id
    let mut rp = seed_rng("public", op, 0);
    let mut sid = [0u8; 32];
    rp.fill_bytes(&mut sid);
    let mut rs = seed_rng("secret", op, idx);
    match op {
        "eval_pprf" => {
            // base-OT outputs: sender key pairs random; receiver choice bits all-0 / all-1 / random
            let keys: Vec<([u8; LAMBDA_C_BYTES], [u8; LAMBDA_C_BYTES])> = (0..LAMBDA_C).map(|_| (rs.gen(), rs.gen())).collect();
            let so = SenderOutput::verif_new(&keys);
            let mut bits = [0u8; LAMBDA_C_BYTES];
            let cname = fill_class(&mut bits, idx, &mut rs);
            let dks: Vec<[u8; LAMBDA_C_BYTES]> = (0..LAMBDA_C).map(|i| if (bits[i >> 3] >> (i & 7)) & 1 == 0 { keys[i].0 } else { keys[i].1 }).collect();
            let ro = ReceiverOutput::new(bits, dks.try_into().unwrap());
            let mut sseed = Box::new(SenderOTSeed::default());
            let mut out = Box::new(PPRFOutput::default());
            build_pprf(&sid, &so, &mut sseed, &mut out);
            let mut rseed = Box::new(ReceiverOTSeed::default());
            let res = measured(|| eval_pprf(&sid, &ro, &out, &mut rseed));
            if res.is_err() {
                eprintln!("slcov: eval_pprf rejected an honest message");
                unsafe { _exit(3) }
            }
            finish(op, idx, &format!("choice-bits={cname} seeds=random"), bytemuck::bytes_of(&*rseed))
        }
        "ot_sender_process" => {
            let (s, r, dname) = ot_seeds(idx, &mut rs);
            let mut round1 = Box::new(Round1Output::default());
            let mut ext = bytemuck::allocation::zeroed_box::<ReceiverExtendedOutput>();
            let cname = fill_class(&mut ext.choices, idx / 3, &mut rs);
            SoftSpokenOTReceiver::process(&sid, &s, &mut round1, &mut ext, &mut rs);
            let res = measured(|| SoftSpokenOTSender::process(&sid, &r, &round1));
            match res {
                Ok(o) => finish(op, idx, &format!("punctured-indices={dname} receiver-choices={cname} seeds=random"), bytemuck::bytes_of(&*o)),
                Err(_) => {
                    eprintln!("slcov: SoftSpokenOTSender::process rejected an honest message");
                    unsafe { _exit(3) }
                }
            }
        }
        "rvole_sender_process" | "rvole_receiver_process" => {
            let (s, r, dname) = ot_seeds(idx, &mut rs);
            let mut beta = [0u8; L_BYTES];
            let bname = fill_class(&mut beta, idx / 3, &mut rs);
            let mut frng = ForcedRng { prefix: beta.to_vec(), at: 0, inner: seed_rng("recv-rng", op, idx) };
            let mut round1 = Box::new(Round1Output::default());
            let (receiver, _b) = RVOLEReceiver::new(sid, &s, &mut round1, &mut frng);
            let (a0, an0) = scalar_class(idx, &mut rs);
            let (a1, an1) = scalar_class(idx / 4 + 1, &mut rs);
            let a = [a0, a1];
            let mut output = Box::new(RVOLEOutput::default());
            let desc = format!("punctured-indices={dname} beta={bname} a=[{an0},{an1}] eta-randomness=seeded seeds=random");
            // the operation's own RNG is a FRESH generator (seeded per secret index): its buffer position does not depend on
            // how much randomness input generation consumed
            let mut op_rng = seed_rng("op-rng", op, idx);
            if op == "rvole_sender_process" {
                let res = measured(|| RVOLESender::process(&sid, &r, &a, &round1, &mut output, &mut op_rng));
                match res {
                    Ok(c) => {
                        let mut bytes = bytemuck::bytes_of(&*output).to_vec();
                        for x in c { bytes.extend_from_slice(&x.to_bytes()); }
                        finish(op, idx, &desc, &bytes)
                    }
                    Err(_) => { eprintln!("slcov: RVOLESender::process rejected an honest message"); unsafe { _exit(3) } }
                }
            } else {
                let c = match RVOLESender::process(&sid, &r, &a, &round1, &mut output, &mut op_rng) {
                    Ok(c) => c,
                    Err(_) => { eprintln!("slcov: RVOLESender::process rejected an honest message"); unsafe { _exit(3) } }
                };
                let res = measured(|| receiver.process(&output));
                match res {
                    Ok(d) => {
                        let _ = c;
                        let mut bytes = vec![];
                        for x in d { bytes.extend_from_slice(&x.to_bytes()); }
                        finish(op, idx, &desc, &bytes)
                    }
                    Err(_) => { eprintln!("slcov: RVOLEReceiver::process rejected an honest message"); unsafe { _exit(3) } }
                }
            }
        }
        _ => {
            eprintln!("slcov: unknown op {op}");
            unsafe { _exit(2) }
        }
    }
}

fn main() {
    let a: Vec<String> = std::env::args().collect();
    if a.len() < 4 {
        eprintln!("usage: slcov <op> <secret-index> <tier>[:<keybits>]");
        std::process::exit(2);
    }
    let op = a[1].as_str();
    let idx: u64 = a[2].parse().unwrap_or(0);
    let keybits = a[3].split(':').nth(1).unwrap_or("2048");
    let _ = Scalar::reduce(KU256::ZERO);
    match op {
        "encrypt_with_r" | "decrypt" | "decrypt_fast" | "mul" | "mul_vartime" | "extract_n_root" => match keybits {
            "2048" => paillier::<{ U4096::LIMBS }, { U2048::LIMBS }, { U1024::LIMBS }>(op, idx, &primes::P1024),
            "1024" => paillier::<{ U2048::LIMBS }, { U1024::LIMBS }, { U512::LIMBS }>(op, idx, &primes::P512),
            "512" => paillier::<{ U1024::LIMBS }, { U512::LIMBS }, { U256::LIMBS }>(op, idx, &primes::P256),
            k => {
                eprintln!("slcov: unsupported key size {k}");
                std::process::exit(2)
            }
        },
        _ => oblivious(op, idx),
    }
}
