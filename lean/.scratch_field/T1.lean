import SlVerif.Model.Field
import Mathlib.NumberTheory.LucasPrimality
import Mathlib.Data.List.Prime
import Mathlib.Tactic.NormNum.Prime
namespace SlVerif.Primes
open SlVerif

theorem powMod_eq (m : Nat) : ∀ (fuel b e : Nat), e < 2 ^ fuel → powMod m fuel b e = b ^ e % m := by
  intro fuel
  induction fuel with
  | zero =>
      intro b e he
      have : e = 0 := by simpa using he
      subst this; simp [powMod]
  | succ k ih =>
      intro b e he
      unfold powMod
      by_cases h0 : e = 0
      · subst h0; simp
      · simp only [h0, if_false]
        have hlt : e / 2 < 2 ^ k := by
          rw [Nat.div_lt_iff_lt_mul (by norm_num)]; rw [pow_succ] at he; exact he
        rw [ih _ _ hlt]
        have hbb : (b * b % m) ^ (e / 2) % m = (b ^ 2) ^ (e / 2) % m := by
          rw [← Nat.pow_mod, pow_two]
        rw [hbb, ← pow_mul]
        by_cases hodd : e % 2 = 1
        · simp only [hodd, if_true]
          rw [Nat.mod_mul_mod]
          have : e = 2 * (e / 2) + 1 := by omega
          conv_rhs => rw [this, pow_succ]
        · simp only [hodd, if_false]
          have : e = 2 * (e / 2) := by omega
          conv_rhs => rw [this]

theorem natCast_pow_eq_one_iff {p a e : ℕ} (hp : 1 < p) : ((a : ZMod p) ^ e = 1) ↔ a ^ e % p = 1 := by
  rw [← Nat.cast_pow, ← Nat.cast_one (R := ZMod p), ZMod.natCast_eq_natCast_iff', Nat.mod_eq_of_lt hp]

/-- Pratt certificate checker -/
theorem pratt (p a fuel : ℕ) (fs : List (ℕ × ℕ)) (hp : 1 < p) (hlt : p ≤ 2 ^ fuel)
    (hfs : ∀ x ∈ fs, x.1.Prime)
    (hprod : (fs.map fun x => x.1 ^ x.2).prod = p - 1)
    (h1 : powMod p fuel a (p - 1) = 1)
    (h2 : ∀ x ∈ fs, powMod p fuel a ((p - 1) / x.1) ≠ 1) : p.Prime := by
  refine lucas_primality p (a : ZMod p) ?_ ?_
  · rw [natCast_pow_eq_one_iff hp, ← powMod_eq p fuel a (p - 1) (by omega)]; exact h1
  · intro r hr hdvd
    rw [← hprod] at hdvd
    obtain ⟨y, hy, hry⟩ := (Prime.dvd_prod_iff hr.prime).1 hdvd
    obtain ⟨x, hx, rfl⟩ := List.mem_map.1 hy
    have hrx : r = x.1 := (Nat.prime_dvd_prime_iff_eq hr (hfs x hx)).1 (hr.dvd_of_dvd_pow hry)
    subst hrx
    rw [natCast_pow_eq_one_iff hp, ← powMod_eq p fuel a _ (lt_of_le_of_lt (Nat.div_le_self _ _) (by omega))]
    exact h2 x hx

theorem prime_545358713 : Nat.Prime 545358713 := by norm_num
set_option trace.profiler true in
theorem prime_107361793816595537 : Nat.Prime 107361793816595537 :=
  pratt 107361793816595537 3 57 [(2,4),(16699,1),(85831,1),(4681609,1)] (by decide) (by decide +kernel)
    (by simp only [List.forall_mem_cons, List.not_mem_nil, false_imp_iff, implies_true, and_true]; norm_num)
    (by decide +kernel) (by decide +kernel) (by decide +kernel)

end SlVerif.Primes
