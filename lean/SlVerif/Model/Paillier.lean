import SlVerif.Model.Basic
/-
  Executable model of `/repo/crates/sl-paillier/src/lib.rs` (everything above `mod tests`).

  `Uint<L>` is a `Nat`; every place where crypto-bigint wraps or truncates (`wrapping_sub`, `wrapping_add`,
  `sub_mod`, `resize` to a smaller width) has an explicit `% 2^w`.  Widths (in bits) are derived from the single
  parameter `P` = `Uint::<P>::BITS`:  `Uint<M>` has `2*P` bits, `Uint<C>` has `4*P` bits.

  Abstractions (the only ones; each is exercised by the differential harness):
  * `DynResidue` (Montgomery form) is modelled by its canonical value:  `DynResidue::new(x, params)` is `x % modulus`
    (crypto-bigint's `new` accepts any `x < 2^w` and `retrieve` is always `< modulus`), `mul` is `a*b % modulus`,
    `pow_bounded_exp(e, bits)` is `b^(e mod 2^bits) % modulus` computed by square-and-multiply (`powBounded`).
  * `inv_odd_mod`, `inv_odd_mod_bounded`, `inv_mod` are modelled by `invMod` (extended Euclid, canonical
    representative in `[0, modulus)`), which is what the constant-time algorithms return whenever the inverse exists.
  * `const_rem`, `const_rem_wide`, `%`, `wrapping_div` with a non-zero right-hand side are `%` and `/`.
  * `mul_wide`/`square_wide` followed by `.into()` the double-width type is the exact product.

  Imports nothing outside core / `SlVerif.Model.Basic` (linked into `sldriver`).
-/
namespace SlVerif.Paillier

/-! ### fixed-width primitives -/

/-- `Uint<w bits>::wrapping_sub` (operands `< 2^w`) -/
def wrappingSub (w a b : Nat) : Nat := (a + 2 ^ w - b) % 2 ^ w

/-- `Uint<w bits>::wrapping_add` -/
def wrappingAdd (w a b : Nat) : Nat := (a + b) % 2 ^ w

/-- `Uint::resize` to a `w`-bit type (only written where the target is not wider than the source) -/
def resize (w a : Nat) : Nat := a % 2 ^ w

/-- `Uint<w bits>::sub_mod(a, b, p)`:  `sbb`, then add `p` masked by the borrow, wrapping. -/
def subMod (w a b p : Nat) : Nat :=
  let out := wrappingSub w a b
  let borrow := decide (a < b)
  wrappingAdd w out (if borrow then p else 0)

/-- `Uint::bits_vartime`: bit length, `0 ↦ 0` -/
def bitsVartime (n : Nat) : Nat := if n = 0 then 0 else n.log2 + 1

/-- square-and-multiply; `fuel` ≥ bit length of `e` -/
def powMod (m : Nat) : Nat → Nat → Nat → Nat
  | 0, _, _ => 1 % m
  | fuel+1, b, e =>
      if e = 0 then 1 % m
      else
        let h := powMod m fuel (b * b % m) (e / 2)
        if e % 2 = 1 then h * b % m else h

/-- `DynResidue::new(b, params(m)).pow_bounded_exp(e, bits).retrieve()`:
    only the low `bits` bits of the exponent are used; `bits = 0` gives `1`. -/
def powBounded (m b e bits : Nat) : Nat := powMod m bits (b % m) (e % 2 ^ bits)

/-- `DynResidue::new(a).mul(DynResidue::new(b)).retrieve()` -/
def mulRes (m a b : Nat) : Nat := (a % m) * (b % m) % m

/-- extended Euclid: invariant `r0 ≡ s0 * a`, `r1 ≡ s1 * a (mod m)`; returns the coefficient of the gcd -/
def xgcdAux : Nat → Nat → Nat → Int → Int → Int
  | 0, _, _, s0, _ => s0
  | fuel+1, r0, r1, s0, s1 =>
      if r1 = 0 then s0 else xgcdAux fuel r1 (r0 % r1) s1 (s0 - (r0 / r1 : Nat) * s1)

/-- canonical `a⁻¹ mod m` in `[0, m)` when `gcd a m = 1` (result of `inv_odd_mod`, `inv_odd_mod_bounded`, `inv_mod`) -/
def invMod (a m : Nat) : Nat := (xgcdAux m m (a % m) 0 1 % (m : Int)).toNat

/-! ### keys -/

/-- `SK<C, M, P>`; `n`, `nn` are `pk.n`, `pk.params.modulus()`; `pp`, `qq` are `pp_params.modulus()`, `qq_params.modulus()` -/
structure SK where
  n : Nat
  nn : Nat
  phi : Nat
  inv_phi : Nat
  p : Nat
  hp : Nat
  q : Nat
  hq : Nat
  pinv_q : Nat
  pp : Nat
  qq : Nat
deriving DecidableEq, Repr

/-- `MinimalSK<P>` -/
structure MinimalSK where
  p : Nat
  q : Nat
deriving DecidableEq, Repr

/-- `SK::h(p, pp, n)` -/
def h (P p pp n : Nat) : Nat :=
  let n_mod_pp := n % pp                                  -- n.const_rem(pp)
  let x := subMod (2*P) 1 n_mod_pp pp                     -- Uint::ONE.sub_mod(&n_mod_pp, pp)
  let x := wrappingSub (2*P) x 1                          -- .wrapping_sub(&Uint::ONE)
  let x := x / p                                          -- .wrapping_div(&p.resize())
  let x := invMod x p                                     -- .inv_odd_mod_bounded(&p.resize(), M::BITS, P::BITS).0
  resize P x                                              -- .resize()  (drop top half)

/-- `SK::from_pq(p, q)` -/
def fromPQ (P p q : Nat) : SK :=
  let n := q * p                                          -- q.mul_wide(p).into()
  let nn := n * n                                         -- PK::from_n: n.square_wide().into()
  let phi := wrappingSub P q 1 * wrappingSub P p 1        -- q.wrapping_sub(1).mul_wide(&p.wrapping_sub(1)).into()
  let inv_phi := invMod phi n                             -- phi.inv_odd_mod(&pk.n).0
  let pinv_q := invMod p q                                -- p.inv_odd_mod(q).0
  let pp := p * p                                         -- p.square_wide().into()
  let hp := h P p pp n
  let qq := q * q
  let hq := h P q qq n
  { n, nn, phi, inv_phi, p, hp, q, hq, pinv_q, pp, qq }

/-- `SK::to_minimal` -/
def toMinimal (sk : SK) : MinimalSK := { p := sk.p, q := sk.q }

/-- `impl From<MinimalSK<P>> for SK<C, M, P>` -/
def fromMinimal (P : Nat) (m : MinimalSK) : SK := fromPQ P m.p m.q

/-! ### public-key operations -/

/-- `Uint::<M>::BYTES` (`= 2*P/8` for every instantiable width; rounded up so that `2^(2P) ≤ 256^BYTES` always) -/
def mBytes (P : Nat) : Nat := (2 * P + 7) / 8

/-- `PK::into_message` -/
def intoMessage (sk : SK) (m : Nat) : Option Nat := if m < sk.n then some m else none

/-- `PK::message` AFTER the pending fix: the first `BYTES` bytes are the little-endian value, any later byte must be 0. -/
def message (P : Nat) (sk : SK) (bytes : List Nat) : Option Nat :=
  let head := bytes.take (mBytes P)
  let tail := bytes.drop (mBytes P)
  if tail.any (· != 0) then none
  else intoMessage sk (leToNat head)

/-- `PK::encrypt_with_r` -/
def encryptWithR (P : Nat) (sk : SK) (m r : Nat) : Nat :=
  let r_pow_n := powBounded sk.nn r sk.n (bitsVartime sk.n)      -- r.pow_bounded_exp(&self.n, self.n.bits_vartime())
  let g_pow_m := wrappingAdd (4*P) (m * sk.n) 1                  -- Uint::<C>::from(m.mul_wide(&n)).wrapping_add(&ONE)
  mulRes sk.nn g_pow_m r_pow_n                                   -- DynResidue::new(g_pow_m).mul(&r_pow_n).retrieve()

/-- `PK::add` -/
def add (sk : SK) (c1 c2 : Nat) : Nat := mulRes sk.nn c1 c2

/-- `PK::mul`:  `DynResidue::pow(&m)` = `pow_bounded_exp(m, Uint::<M>::BITS)` -/
def mul (P : Nat) (sk : SK) (c k : Nat) : Nat := powBounded sk.nn c k (2*P)

/-- `PK::mul_vartime` -/
def mulVartime (P : Nat) (sk : SK) (c k : Nat) : Nat :=
  let bits := bitsVartime k
  powBounded sk.nn c (resize (2*P) k) bits

/-! ### secret-key operations -/

/-- `SK::decrypt` -/
def decrypt (P : Nat) (sk : SK) (c : Nat) : Nat :=
  let x := powBounded sk.nn c (resize (2*P) sk.phi) (2*P)  -- c.pow_bounded_exp(&phi.resize::<M>(), M::BITS).retrieve()
  let x := wrappingSub (4*P) x 1                           -- .wrapping_sub(&Uint::ONE)
  let x := x / sk.n                                        -- .wrapping_div(&self.n.resize::<C>())
  let m := resize (2*P) x                                  -- .resize()  (drop top half)
  let m_mod_n := m % sk.n                                  -- m.const_rem(&self.n)
  (m_mod_n * sk.inv_phi) % sk.n                            -- const_rem_wide(m_mod_n.mul_wide(&inv_phi), &n)

/-- `decompose(c, p, q)` -/
def decompose (c p q : Nat) : Nat × Nat := (c % p, c % q)

/-- `recombine(p_inv_q, v1, v2, p, q)` (HAC 14.71) -/
def recombine (P pinv_q v1 v2 p q : Nat) : Nat :=
  let v1_less_q := v1 % q                                  -- v1 % non_zero_q
  let d := subMod P v2 v1_less_q q                         -- v2.sub_mod(&v1_less_q, q)
  let u := (d * pinv_q) % q                                -- const_rem_wide(d.mul_wide(p_inv_q), q)
  wrappingAdd (2*P) (u * p) v1                             -- Uint::from(u.mul_wide(p)).wrapping_add(&v1.resize())

/-- `SK::mp(cp, p, hp, params(pp))` -/
def mp (P cp p hp pp : Nat) : Nat :=
  let e := resize P (wrappingSub P p 1)                    -- p.wrapping_sub(&ONE).resize::<P>()
  let x := powBounded pp cp e P                            -- .pow_bounded_exp(e, P::BITS).retrieve()
  let x := wrappingSub (2*P) x 1                           -- .wrapping_sub(&Uint::ONE)
  let x := x / p                                           -- .wrapping_div(&p.resize())
  let m := resize P x                                      -- .resize()
  let x := m % p                                           -- mp.const_rem(p)
  (x * hp) % p                                             -- const_rem_wide(x.mul_wide(hp), p)

/-- `SK::decrypt_fast` -/
def decryptFast (P : Nat) (sk : SK) (c : Nat) : Nat :=
  let (cp, cq) := decompose c sk.pp sk.qq
  let m_p := mp P cp sk.p sk.hp sk.pp
  let m_q := mp P cq sk.q sk.hq sk.qq
  recombine P sk.pinv_q m_p m_q sk.p sk.q

/-- result of `extract_n_root_init_params`: `(dk_dp, dk_dq, p_params.modulus, q_params.modulus)` -/
structure NRootParams where
  dp : Nat
  dq : Nat
  pmod : Nat
  qmod : Nat
deriving DecidableEq, Repr

/-- `SK::extract_n_root_init_params` -/
def extractNRootInitParams (P : Nat) (sk : SK) : NRootParams :=
  let dk_qminusone := wrappingSub P sk.q 1
  let dk_pminusone := wrappingSub P sk.p 1
  let dk_dn := invMod sk.n sk.phi                          -- self.n.inv_mod(&self.phi).0
  let (dk_dp, dk_dq) := decompose dk_dn dk_pminusone dk_qminusone
  { dp := dk_dp, dq := dk_dq, pmod := sk.p, qmod := sk.q }

/-- `SK::extract_n_root(z, init_params)`; `DynResidue::pow(&e)` = `pow_bounded_exp(e, Uint::<P>::BITS)` -/
def extractNRoot (P : Nat) (sk : SK) (z : Nat) (ip : NRootParams) : Nat :=
  let (zp, zq) := decompose z sk.p sk.q
  let rp := powBounded ip.pmod zp ip.dp P
  let rq := powBounded ip.qmod zq ip.dq P
  recombine P sk.pinv_q rp rq sk.p sk.q

/-! ### independent specification (conclusion predicates evaluated on the implementation's outputs) -/

/-- right-to-left binary exponentiation with an accumulator (deliberately a different algorithm from `powMod`) -/
def specPowLoop (m : Nat) : Nat → Nat → Nat → Nat → Nat
  | 0, acc, _, _ => acc
  | fuel+1, acc, b, e =>
      if e = 0 then acc
      else specPowLoop m fuel (if e % 2 = 1 then acc * b % m else acc) (b * b % m) (e / 2)

def specPowMod (b e m : Nat) : Nat := specPowLoop m (e.log2 + 1) (1 % m) (b % m) e

/-- `(1 + m N) r^N mod N²` -/
def specEnc (N m r : Nat) : Nat := (1 + m * N) * specPowMod r N (N * N) % (N * N)
/-- `c1 c2 mod N²` -/
def specAdd (N c1 c2 : Nat) : Nat := c1 * c2 % (N * N)
/-- `c^k mod N²` -/
def specMul (N c k : Nat) : Nat := specPowMod c k (N * N)

end SlVerif.Paillier
