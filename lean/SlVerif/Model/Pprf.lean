import SlVerif.Model.Oracle
import SlVerif.Generated.Params
/-
  C06 model: crates/sl-oblivious/src/soft_spoken/all_but_one.rs  (build_pprf, eval_pprf)
  One GGM tree of depth SOFT_SPOKEN_K per group of SOFT_SPOKEN_K base OTs (LAMBDA_C / SOFT_SPOKEN_K trees).
  Arrays are lists; level i of a tree has exactly 2^i entries (the Rust keeps them in the first 2^i slots of a
  SOFT_SPOKEN_Q array, the rest is zero and never read).  merlin is the oracle; challenge buffers have a fixed size in
  the Rust, so oracle answers are normalised to that size (`fixLen`).
  The output buffer of build_pprf is NOT reset by the Rust: `out.t_tilda ^= …` accumulates onto whatever the caller
  passed (`PPRFOutput::default()` = zeros everywhere in the repository); the model takes that initial value as a parameter.
-/
namespace SlVerif.Pprf
open SlVerif

variable {m : Type → Type} [Monad m]

def mapSeq {α β : Type} (f : α → m β) : List α → m (List β)
  | [] => pure []
  | a :: as => do
      let b ← f a
      let bs ← mapSeq f as
      pure (b :: bs)

abbrev KB : Nat := Generated.LAMBDA_C_BYTES
abbrev K : Nat := Generated.SOFT_SPOKEN_K
abbrev Q : Nat := Generated.SOFT_SPOKEN_Q
abbrev NT : Nat := Generated.LAMBDA_C / Generated.SOFT_SPOKEN_K

def zeros (n : Nat) : Bytes := List.replicate n 0

/-- a fixed-size buffer filled from an oracle answer -/
def fixLen (n : Nat) (b : Bytes) : Bytes := (b ++ zeros n).take n

def xorBytes (a b : Bytes) : Bytes := List.zipWith (· ^^^ ·) a b

/-- `ExtractBit::extract_bit`, as 0/1 -/
def extractBit (bits : Bytes) (idx : Nat) : Nat := (bits.getD (idx / 8) 0 >>> (idx % 8)) % 2

/-- `Transcript::new(&ALL_BUT_ONE_LABEL); append_message(b"session-id", session_id)` -/
def baseT (sid : Bytes) : Transcript :=
  (Transcript.new (labelBytes Generated.ALL_BUT_ONE_LABEL)).appendMessage (ascii "session-id") sid

/-- the length-doubling PRG of the tree: two successive challenges on one transcript -/
def prg (O : Query → m Bytes) (sid seed : Bytes) : m (Bytes × Bytes) := do
  let t := (baseT sid).appendMessage (labelBytes Generated.ALL_BUT_ONE_PPRF_LABEL) seed
  let (a, t) ← challenge O t [] KB
  let (b, _) ← challenge O t [] KB
  pure (fixLen KB a, fixLen KB b)

/-- the proof hash of one leaf (2·LAMBDA_C_BYTES bytes) -/
def proofPrg (O : Query → m Bytes) (sid leaf : Bytes) : m Bytes := do
  let t := (baseT sid).appendMessage (labelBytes Generated.ALL_BUT_ONE_PPRF_PROOF_LABEL) leaf
  let (a, _) ← challenge O t [] (2*KB)
  pure (fixLen (2*KB) a)

/-- `s_tilda_hash`: all per-leaf proof values appended with the empty label, then one challenge -/
def proofHashT (sid : Bytes) (v : List Bytes) : Transcript :=
  v.foldl (fun t x => t.appendMessage [] x) (baseT sid)

def proofHash (O : Query → m Bytes) (sid : Bytes) (v : List Bytes) : m Bytes := do
  let (d, _) ← challenge O (proofHashT sid v) (labelBytes Generated.ALL_BUT_ONE_PPRF_HASH_LABEL) (2*KB)
  pure (fixLen (2*KB) d)

/-- children pairs → next level: entry 2y = left child of y, entry 2y+1 = right child -/
def interleave (ch : List (Bytes × Bytes)) : List Bytes :=
  (List.range (2 * ch.length)).map fun z =>
    let c := ch.getD (z / 2) ([], [])
    if z % 2 = 0 then c.1 else c.2

/-- `struct PPRF` -/
structure TreeMsg where
  t : List (Bytes × Bytes)
  sTilda : Bytes
  tTilda : Bytes
deriving DecidableEq, Repr

/-- the levels that carry a correction word: `for i in 1..SOFT_SPOKEN_K` -/
def levels : List Nat := List.range' 1 (K - 1)

/-! ### sender -/

/-- levels `i ∈ is` of `build_pprf` for one tree; `keys i` = `(rho_0, rho_1)` of base OT `j*K + i`.
    Returns the leaves and the correction words. -/
def buildLevels (O : Query → m Bytes) (sid : Bytes) (keys : Nat → Bytes × Bytes) :
    List Nat → List Bytes → m (List Bytes × List (Bytes × Bytes))
  | [], s => pure (s, [])
  | i :: is, s => do
      let ch ← mapSeq (prg O sid) s
      let f := keys i
      -- t[i-1][0] = rho_0 ^ XOR_y s_{i+1}[2y],  t[i-1][1] = rho_1 ^ XOR_y s_{i+1}[2y+1]
      let w0 := ch.foldl (fun acc c => xorBytes acc c.1) f.1
      let w1 := ch.foldl (fun acc c => xorBytes acc c.2) f.2
      let (leaves, ws) ← buildLevels O sid keys is (interleave ch)
      pure (leaves, (w0, w1) :: ws)

/-- the "Prove" part: t_tilda (accumulated onto `tTilda0`) and s_tilda from the leaves -/
def proveLeaves (O : Query → m Bytes) (sid : Bytes) (leaves : List Bytes) (tTilda0 : Bytes) : m (Bytes × Bytes) := do
  let ps ← mapSeq (proofPrg O sid) leaves
  let tTilda := ps.foldl xorBytes tTilda0
  let sTilda ← proofHash O sid ps
  pure (sTilda, tTilda)

/-- one iteration of the outer loop of `build_pprf`: (leaves = `all_but_one_sender_seed.otp_enc_keys[j]`, message) -/
def buildTree (O : Query → m Bytes) (sid : Bytes) (keys : Nat → Bytes × Bytes) (tTilda0 : Bytes := zeros (2*KB)) :
    m (List Bytes × TreeMsg) := do
  let k0 := keys 0
  let (leaves, ws) ← buildLevels O sid keys levels [k0.1, k0.2]
  let (sTilda, tTilda) ← proveLeaves O sid leaves tTilda0
  pure (leaves, { t := ws, sTilda, tTilda })

/-- the keys of tree j -/
def treeKeys (keys : List (Bytes × Bytes)) (j : Nat) : Nat → Bytes × Bytes :=
  fun i => keys.getD (j * K + i) ([], [])

/-- `build_pprf(session_id, sender_ot_seed, &mut all_but_one_sender_seed, &mut output)`;
    `init` = the t_tilda fields of the output buffer on entry (missing entries = zeros) -/
def buildPprf (O : Query → m Bytes) (sid : Bytes) (keys : List (Bytes × Bytes)) (init : List Bytes := []) :
    m (List (List Bytes) × List TreeMsg) := do
  let r ← mapSeq (fun j => buildTree O sid (treeKeys keys j) (init.getD j (zeros (2*KB)))) (List.range NT)
  pure (r.map (·.1), r.map (·.2))

/-! ### receiver -/

/-- `x.1` or `x.2` by a bit (index into a `[_; 2]`) -/
def sel {α : Type} (b : Nat) (x : α × α) : α := if b = 0 then x.1 else x.2

/-- the children computed at one level: everything except the punctured node is expanded
    (the PRG is evaluated on the punctured slot too and its result dropped by `conditional_assign`) -/
def maskAt {α : Type} (ystar : Nat) (z : α) (l : List α) : List α :=
  l.mapIdx fun y c => if y ≠ ystar then c else z

/-- XOR of the entries `y ≠ ystar` onto `init` (the `conditional_assign` loops) -/
def xorOthers (ystar : Nat) (init : Bytes) (l : List Bytes) : Bytes :=
  (List.range l.length).foldl (fun acc y => if y ≠ ystar then xorBytes acc (l.getD y []) else acc) init

/-- levels `i ∈ is` of `eval_pprf` for one tree: `bit i` = choice bit of base OT `j*K+i`, `dk i` its key,
    `ws` the correction words from level `i` on, `ystar` the current punctured index, `s` the current level -/
def evalLevels (O : Query → m Bytes) (sid : Bytes) (bit : Nat → Nat) (dk : Nat → Bytes) :
    List Nat → List (Bytes × Bytes) → Nat → List Bytes → m (Nat × List Bytes)
  | [], _, ystar, s => pure (ystar, s)
  | i :: is, ws, ystar, s => do
      let w := ws.headD ([], [])
      let ch ← mapSeq (prg O sid) s
      let chm := maskAt ystar (zeros KB, zeros KB) ch
      let ctx := bit i                 -- ct_x = x_star_i ^ 1
      let xstar := 1 ^^^ ctx           -- x_star_i
      let corr := xorOthers ystar (xorBytes (sel ctx w) (dk i)) (chm.map (sel ctx))
      let s' := (interleave chm).set (2 * ystar + ctx) corr
      evalLevels O sid bit dk is ws.tail (2 * ystar + xstar) s'

/-- level 0 of `eval_pprf`: `s_star[x_star_0] = key`, `y_star = x_star_0 ^ 1` -/
def evalInit (bit0 : Nat) (dk0 : Bytes) : Nat × List Bytes :=
  (bit0 ^^^ 1, if bit0 = 0 then [dk0, zeros KB] else [zeros KB, dk0])

/-- the "Verify" part: the vector hashed by the receiver -/
def verifyVector (O : Query → m Bytes) (sid : Bytes) (ystar : Nat) (s : List Bytes) (tTilda : Bytes) : m (List Bytes) := do
  let ps ← mapSeq (proofPrg O sid) s
  let psm := maskAt ystar (zeros (2*KB)) ps
  let acc := xorOthers ystar tTilda psm
  pure (psm.set ystar acc)

/-- one iteration of the outer loop of `eval_pprf`: `none` = "Invalid proof", else `(y_star, s_star)` -/
def evalTree (O : Query → m Bytes) (sid : Bytes) (bit : Nat → Nat) (dk : Nat → Bytes) (msg : TreeMsg) :
    m (Option (Nat × List Bytes)) := do
  let (y0, s0) := evalInit (bit 0) (dk 0)
  let (ystar, s) ← evalLevels O sid bit dk levels msg.t y0 s0
  let v ← verifyVector O sid ystar s msg.tTilda
  let d ← proofHash O sid v
  if d ≠ msg.sTilda then pure none else pure (some (ystar, s))

def treeBit (bits : Bytes) (j : Nat) : Nat → Nat := fun i => extractBit bits (j * K + i)
def treeDk (dks : List Bytes) (j : Nat) : Nat → Bytes := fun i => dks.getD (j * K + i) []

/-- trees in order, stopping at the first invalid proof -/
def evalTrees (O : Query → m Bytes) (sid : Bytes) (bits : Bytes) (dks : List Bytes) :
    List (Nat × TreeMsg) → m (Except String (List (Nat × List Bytes)))
  | [] => pure (.ok [])
  | (j, msg) :: rest => do
      match ← evalTree O sid (treeBit bits j) (treeDk dks j) msg with
      | none => pure (.error "Invalid proof")
      | some r =>
          match ← evalTrees O sid bits dks rest with
          | .ok rs => pure (.ok (r :: rs))
          | .error e => pure (.error e)

/-- `eval_pprf(session_id, receiver_ot_seed, &output, &mut all_but_one_receiver_seed)`:
    `.ok [(random_choices[j], otp_dec_keys[j])]` or `.error "Invalid proof"`
    (on error the Rust has already written the entries of the trees before the failing one) -/
def evalPprf (O : Query → m Bytes) (sid : Bytes) (bits : Bytes) (dks : List Bytes) (out : List TreeMsg) :
    m (Except String (List (Nat × List Bytes))) :=
  evalTrees O sid bits dks ((List.range NT).map fun j => (j, out.getD j { t := [], sTilda := [], tTilda := [] }))

/-! ### adversarial sender (C06, selective failure) -/

/-- XOR `delta` onto correction word `t[level-1][side]` -/
def corruptWord (ws : List (Bytes × Bytes)) (level side : Nat) (delta : Bytes) : List (Bytes × Bytes) :=
  let w := ws.getD (level - 1) ([], [])
  ws.set (level - 1) (if side = 0 then (xorBytes w.1 delta, w.2) else (w.1, xorBytes w.2 delta))

/-- Honest tree, then correction word `t[level-1][side]` is XORed with `delta`, and `t_tilda`, `s_tilda` are
    re-derived from the leaves that a receiver with choice bits `guess` (and the matching base-OT keys) computes from
    the corrupted message — its punctured slot filled with the honest leaf — so that the message is self-consistent
    for that receiver. -/
def advTree (O : Query → m Bytes) (sid : Bytes) (keys : Nat → Bytes × Bytes) (level side : Nat) (delta : Bytes)
    (guess : Nat → Nat) : m TreeMsg := do
  let (leaves, msg) ← buildTree O sid keys
  let ws := corruptWord msg.t level side delta
  let dk : Nat → Bytes := fun i => sel (guess i) (keys i)
  let (y0, s0) := evalInit (guess 0) (dk 0)
  let (ystar, s) ← evalLevels O sid guess dk levels ws y0 s0
  let l' := s.set ystar (leaves.getD ystar [])
  let (sTilda, tTilda) ← proveLeaves O sid l' (zeros (2*KB))
  pure { t := ws, sTilda, tTilda }

/-- `advTree` for tree `j` spliced into the honest message -/
def advPprfSender (O : Query → m Bytes) (sid : Bytes) (keys : List (Bytes × Bytes)) (j level side : Nat) (delta : Bytes)
    (guess : Nat → Nat) : m (List TreeMsg) := do
  let (_, out) ← buildPprf O sid keys
  let tr ← advTree O sid (treeKeys keys j) level side delta guess
  pure (out.set j tr)

/-- the acceptance condition of `advTree`'s message worked out from the code (up to collisions of the hashes):
    * a guess that avoids the corrupted word (`guess level ≠ side`) leaves the proof honest, and the receiver accepts
      iff its own bit at that level avoids the corrupted side as well;
    * a guess that uses the corrupted word is accepted iff the receiver's whole path is the guessed one — except at
      the last level, where the only wrong leaf is either used by the receiver (its last bit = guess) or is exactly
      its punctured leaf (last bit ≠ guess), which it never computes: there only the first K-1 path bits matter. -/
def advAccepts (level side : Nat) (guess bit : Nat → Nat) : Bool :=
  if guess level ≠ side then bit level ≠ side
  else (List.range K).all fun i => (level = K - 1 ∧ i = K - 1) ∨ bit i = guess i

/-! ### tampering in transit, wire format (`#[repr(C)] struct PPRF`, `PPRFOutput`) -/

def TreeMsg.toBytes (x : TreeMsg) : Bytes := (x.t.flatMap fun w => w.1 ++ w.2) ++ x.sTilda ++ x.tTilda

def treeMsgSize : Nat := (K - 1) * 2 * KB + 2 * KB + 2 * KB

def TreeMsg.ofBytes (b : Bytes) : TreeMsg :=
  { t := (List.range (K - 1)).map fun i => ((b.drop (2*KB*i)).take KB, (b.drop (2*KB*i + KB)).take KB)
    sTilda := (b.drop ((K-1)*2*KB)).take (2*KB)
    tTilda := (b.drop ((K-1)*2*KB + 2*KB)).take (2*KB) }

def outBytes (out : List TreeMsg) : Bytes := out.flatMap TreeMsg.toBytes

def outOfBytes (b : Bytes) : List TreeMsg :=
  (List.range NT).map fun j => TreeMsg.ofBytes ((b.drop (treeMsgSize * j)).take treeMsgSize)

/-- flip bit `k` (bit `k % 8` of byte `k / 8`) of a byte string -/
def flipBit (b : Bytes) (k : Nat) : Bytes := b.set (k / 8) (b.getD (k / 8) 0 ^^^ (1 <<< (k % 8)))

/-- single-bit corruption of the whole PPRF message -/
def tamperBit (out : List TreeMsg) (k : Nat) : List TreeMsg := outOfBytes (flipBit (outBytes out) k)

/-- the y_star defined by the choice bits of tree j: the path of complemented choice bits, most significant first -/
def ystarOf (bit : Nat → Nat) : Nat := (List.range K).foldl (fun acc i => 2 * acc + (1 ^^^ bit i)) 0

end SlVerif.Pprf
