/-
  Shared executable helpers for all models: hex <-> Nat / bytes, little-endian codecs.
  Imports nothing outside core so that `sldriver` links.
-/
namespace SlVerif

abbrev Bytes := List Nat   -- each element < 256 (kept by construction)

def hexDigit? (c : Char) : Option Nat :=
  if '0' ≤ c ∧ c ≤ '9' then some (c.toNat - '0'.toNat)
  else if 'a' ≤ c ∧ c ≤ 'f' then some (c.toNat - 'a'.toNat + 10)
  else if 'A' ≤ c ∧ c ≤ 'F' then some (c.toNat - 'A'.toNat + 10)
  else none

/-- big-endian hex number, e.g. "ff" = 255. Empty string = 0. -/
def parseHexNat? (s : String) : Option Nat :=
  s.toList.foldlM (fun n c => (hexDigit? c).map (fun d => n * 16 + d)) 0

def hexChar (d : Nat) : Char :=
  if d < 10 then Char.ofNat ('0'.toNat + d) else Char.ofNat ('a'.toNat + (d - 10))

def byteHex (b : Nat) : List Char := [hexChar (b / 16 % 16), hexChar (b % 16)]

/-- bytes -> hex string (byte order preserved) -/
def bytesToHex (bs : Bytes) : String := String.ofList (bs.flatMap byteHex)

def hexToBytesAux : List Char → Option Bytes
  | [] => some []
  | [_] => none
  | a :: b :: rest => do
      let x ← hexDigit? a
      let y ← hexDigit? b
      let r ← hexToBytesAux rest
      pure ((x * 16 + y) :: r)

/-- "-" denotes the empty byte string on the wire -/
def hexToBytes? (s : String) : Option Bytes :=
  if s = "-" then some [] else hexToBytesAux s.toList

def bytesToHexW (bs : Bytes) : String := if bs.isEmpty then "-" else bytesToHex bs

/-- little-endian bytes -> Nat -/
def leToNat : Bytes → Nat
  | [] => 0
  | b :: bs => b + 256 * leToNat bs

/-- big-endian bytes -> Nat -/
def beToNat (bs : Bytes) : Nat := bs.foldl (fun n b => n * 256 + b) 0

/-- Nat -> `len` little-endian bytes (truncating) -/
def natToLe : Nat → Nat → Bytes
  | 0, _ => []
  | len+1, n => (n % 256) :: natToLe len (n / 256)

def natToBe (len n : Nat) : Bytes := (natToLe len n).reverse

def natHex (n : Nat) : String := String.ofList (Nat.toDigits 16 n)

theorem natToLe_length (len n : Nat) : (natToLe len n).length = len := by
  induction len generalizing n with
  | zero => rfl
  | succ k ih => simp [natToLe, ih]

end SlVerif
