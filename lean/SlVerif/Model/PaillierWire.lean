import SlVerif.Model.Basic
/-
  C11 model of the deserialisation guards of `crates/sl-paillier/src/lib.rs`, `mod serialize` (feature `serde`), as
  OUTCOMES only (`ok` | `err` | `panic`): which byte strings / integers are admitted as `PK2048`, `SK2048`,
  `RawCiphertext<U4096>`, which are refused with a serde error, and where the code behind the guard would panic.

  What is modelled, step by step:
    * `Uint<L>::deserialize` (crypto-bigint 0.5.5 + serdect 0.2.0): binary formats read EXACTLY `Uint::BYTES` bytes as a
      tuple of `u8` (no length prefix), little-endian; human-readable formats read ONE string of exactly
      `2 * Uint::BYTES` hex digits (upper or lower case, `base16ct::mixed`), little-endian bytes.
      `bincode::deserialize` ignores trailing bytes (`allow_trailing_bytes`).
    * `NonZero<Uint<L>>::deserialize`: value 0 is an error.
    * `Deserialize for PK2048`: N even ⇒ error (fix commit "deserialising a Paillier key with an even modulus … panicked"),
      then `MinimalPK → PK`: `DynResidueParams::new(N²)` which PANICS for an even modulus.
    * `Deserialize for SK2048`: p or q even (incl. 0) ⇒ error, then `SK::from_pq(p, q)` whose panic sites are, in program
      order: `DynResidueParams::new(N²)` (even), `NonZero::new(N).unwrap()` (N = 0), `DynResidueParams::new(p²)`,
      `wrapping_div(p)` inside `h` (p = 0), `DynResidueParams::new(q²)`, `wrapping_div(q)`.
      (`inv_odd_mod`, `const_rem`, `sub_mod` never panic.)
    * `Deserialize for RawCiphertext<U4096>`: any 512 bytes.
  Core Lean only (linked into `sldriver`).
-/
namespace SlVerif.PaillierWire
open SlVerif

inductive Outcome where
  | ok
  | err (why : String)
  | panic (why : String)
deriving DecidableEq, Repr

def Outcome.cls : Outcome → String
  | .ok => "ok"
  | .err _ => "err"
  | .panic _ => "panic"

/-- `Uint::<U2048>::BYTES`, `Uint::<U1024>::BYTES`, `Uint::<U4096>::BYTES` -/
def N_BYTES : Nat := 256
def P_BYTES : Nat := 128
def C_BYTES : Nat := 512

/-- `DynResidueParams::new(&modulus)`: "modulus must be odd" -/
def montParams (modulus : Nat) : Outcome :=
  if modulus % 2 = 1 then .ok else .panic "modulus must be odd"

/-- `impl From<MinimalPK> for PK`: `nn = n.square_wide()`, `DynResidueParams::new(&nn)` -/
def pkFromMinimal (n : Nat) : Outcome := montParams (n * n)

/-- `Deserialize for PK2048`, once the integer `n` has been read -/
def pkAdmit (n : Nat) : Outcome :=
  if n = 0 then .err "invalid value: zero, expected a non-zero value"
  else if n % 2 = 0 then .err "invalid Paillier public key: N must be odd"
  else pkFromMinimal n

/-- `SK::from_pq(p, q)` as an outcome: the first panic site reached in program order -/
def fromPq (p q : Nat) : Outcome :=
  match montParams ((q * p) * (q * p)) with                     -- PK::from_n: DynResidueParams::new(&nn)
  | .ok =>
    if q * p = 0 then .panic "NonZero::new(n).unwrap()" else     -- PK::from_n
    match montParams (p * p) with                               -- pp_params
    | .ok =>
      if p = 0 then .panic "divide by zero" else                -- h(p, pp, n): wrapping_div(&p.resize())
      match montParams (q * q) with                             -- qq_params
      | .ok => if q = 0 then .panic "divide by zero" else .ok   -- h(q, qq, n)
      | o => o
    | o => o
  | o => o

/-- `Deserialize for SK2048`, once `p`, `q` have been read -/
def skAdmit (p q : Nat) : Outcome :=
  if p % 2 = 1 ∧ q % 2 = 1 ∧ p ≠ 1 ∧ q ≠ 1 then fromPq p q
  else .err "invalid Paillier secret key: p and q must be odd and greater than one"

/-! ### binary form (bincode: fixed-size tuples of bytes, trailing bytes ignored) -/

def pkAdmitBin (b : Bytes) : Outcome :=
  if b.length < N_BYTES then .err "unexpected end of input" else pkAdmit (leToNat (b.take N_BYTES))

def skAdmitBin (b : Bytes) : Outcome :=
  if b.length < 2 * P_BYTES then .err "unexpected end of input"
  else skAdmit (leToNat (b.take P_BYTES)) (leToNat ((b.drop P_BYTES).take P_BYTES))

def ctAdmitBin (b : Bytes) : Outcome :=
  if b.length < C_BYTES then .err "unexpected end of input" else .ok

/-! ### human-readable form: the string inside the JSON envelope (`{"n":"…"}`, `{"p":"…","q":"…"}`, `"…"`) -/

/-- `serdect::array::deserialize_hex_or_bin`, string branch: exact length, mixed-case hex; `none` = error -/
def hexField (nbytes : Nat) (s : List Char) : Option Nat :=
  if s.length ≠ 2 * nbytes then none else (hexToBytesAux s).map leToNat

def pkAdmitHex (s : List Char) : Outcome :=
  match hexField N_BYTES s with
  | none => .err "invalid hex field"
  | some n => pkAdmit n

def skAdmitHex (sp sq : List Char) : Outcome :=
  match hexField P_BYTES sp, hexField P_BYTES sq with
  | some p, some q => skAdmit p q
  | _, _ => .err "invalid hex field"

def ctAdmitHex (s : List Char) : Outcome :=
  match hexField C_BYTES s with
  | none => .err "invalid hex field"
  | some _ => .ok

/-! ### fixed-layout messages of sl-oblivious / sl-mpc-mate as byte slices -/

/-- `bytemuck::try_from_bytes::<T>(bytes)` for a `#[repr(C)]` struct of `u8` arrays (alignment 1): size must match -/
def podAdmit (size len : Nat) : Outcome := if len = size then .ok else .err "SizeMismatch"

/-- `<&MsgId>::try_from(&[u8])`: at least 32 bytes -/
def msgIdAdmit (len : Nat) : Outcome := if len < 32 then .err "()" else .ok

end SlVerif.PaillierWire
