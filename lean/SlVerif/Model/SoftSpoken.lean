import SlVerif.Model.Oracle
import SlVerif.Model.Gf128
import SlVerif.Generated.Params
/-
  C03 / C04 model: crates/sl-oblivious/src/soft_spoken/soft_spoken_ot.rs
    SoftSpokenOTReceiver::process, SoftSpokenOTSender::process, transpose_bool_matrix.

  Representation.  A byte row `[u8; n]` of a bit matrix is the little-endian integer of the row
  (`leToNat`): bit `k` of the row in the code's `extract_bit` convention (byte k/8, bit k%8) is
  `Nat.testBit row k`.  `a ^ b` on rows is `^^^`; `bit_to_bit_mask(bit) & row` is `mask bit row`.
  Rows become bytes again only where the code hands them to merlin or to the caller (`natToLe`).
  merlin is the oracle (`Query.merlin`); an answer is read into the `n`-byte buffer the code passes to
  `challenge_bytes` (`rowOf n`, identical to `leToNat` on an n-byte answer).

  The code accumulates into caller-provided / zero-initialised buffers with `^=`; the model takes the
  buffers zero-initialised (`Round1Output::default()`, as every caller in /repo does) and, XOR being
  associative and commutative on bytes, does not follow the order of accumulation inside one loop nest.

  Structure: every entry point is   oracle batch → PURE core → oracle batch → PURE core …
  so that at `m := Id` the proofs are about the pure cores `recvU`, `recvV`, `sendW`, `checkRow`,
  `transpose`, `packedNabla`.
-/
namespace SlVerif.SoftSpoken
open SlVerif SlVerif.Generated

variable {m : Type → Type} [Monad m]

/-! ### pure cores -/

def xorAll (l : List Nat) : Nat := l.foldl (· ^^^ ·) 0

/-- `bit_to_bit_mask(b) & r` on a whole row -/
def mask (b : Bool) (r : Nat) : Nat := if b then r else 0

/-- an oracle answer read into an `n`-byte buffer, as the little-endian integer of the buffer -/
def rowOf (n : Nat) (bs : Bytes) : Nat := leToNat bs % 2 ^ (8 * n)

/-- `row[j * S_BYTES ..][.. S_BYTES]` as a field element -/
def seg (row j : Nat) : Nat := (row >>> (S * j)) % 2 ^ S

/-- bits (least significant first) → integer -/
def ofBits : List Bool → Nat
  | [] => 0
  | b :: bs => b.toNat + 2 * ofBits bs

/-- receiver, block i: `u[i] = ⊕_j r_x[j][i] ⊕ extended_packed_choices` -/
def recvU (r : Nat → Nat) (c : Nat) : Nat := xorAll ((List.range SOFT_SPOKEN_Q).map r) ^^^ c

/-- receiver, block i, bit b: `v[i*K+b] = ⊕_j mask((j >> b) & 1) & r_x[j][i]` -/
def recvV (r : Nat → Nat) (b : Nat) : Nat :=
  xorAll ((List.range SOFT_SPOKEN_Q).map fun j => mask (j.testBit b) (r j))

/-- sender, block i, bit b (the row `r δ` has been zeroed by the caller):
    `w[i*K+b] = ⊕_j mask(((δ ^ j) >> b) & 1) & r_x[j][i]  ⊕  mask((δ >> b) & 1) & u[i]` -/
def sendW (r : Nat → Nat) (δ u b : Nat) : Nat :=
  xorAll ((List.range SOFT_SPOKEN_Q).map fun j => mask ((δ ^^^ j).testBit b) (r j)) ^^^ mask (δ.testBit b) u

/-- the check value of one row: `⊕_{j<M} roŵ_j · χ_j  ⊕  roŵ_M`  in GF(2^128) -/
def checkRow (chi : List Nat) (row : Nat) : Nat :=
  xorAll ((List.range SOFT_SPOKEN_M).map fun j => Gf.mul (seg row j) (chi.getD j 0)) ^^^ seg row SOFT_SPOKEN_M

/-- `transpose_bool_matrix`: output row j has bit i = bit j of input row i -/
def transposeRow (rows : List Nat) (j : Nat) : Nat := ofBits (rows.map (·.testBit j))
def transpose (rows : List Nat) : List Nat := (List.range L_PRIME).map (transposeRow rows)

/-- `packed_nabla`: bit `i*K+b` = bit b of `random_choices[i]` -/
def packedNabla (rc : List Nat) : Nat :=
  ofBits ((List.range LAMBDA_C).map fun k => (rc.getD (k / SOFT_SPOKEN_K) 0).testBit (k % SOFT_SPOKEN_K))

/-! ### messages -/

inductive SsError where
  | abortProtocolAndBanReceiver
deriving DecidableEq, Repr

/-- `Round1Output` (#[repr(C)]: u, x, t) with rows as integers -/
structure Round1Output where
  u : List Nat      -- LAMBDA_C_DIV_SOFT_SPOKEN_K rows of L_PRIME_BYTES bytes
  x : Nat           -- S_BYTES bytes
  t : List Nat      -- LAMBDA_C rows of S_BYTES bytes
deriving DecidableEq, Repr

structure ReceiverExtendedOutput where
  choices : Bytes                 -- L_BYTES bytes, input field left untouched by `process`
  v_x : List (List Bytes)         -- L × OT_WIDTH × KAPPA_BYTES
deriving DecidableEq, Repr

structure SenderExtendedOutput where
  v_0 : List (List Bytes)
  v_1 : List (List Bytes)
deriving DecidableEq, Repr

/-- `bytemuck::bytes_of(&Round1Output)` -/
def Round1Output.serialize (o : Round1Output) : Bytes :=
  (o.u.flatMap (natToLe L_PRIME_BYTES)) ++ natToLe S_BYTES o.x ++ (o.t.flatMap (natToLe S_BYTES))

def chunkRows (w : Nat) : Nat → Bytes → List Nat
  | 0, _ => []
  | n+1, bs => leToNat (bs.take w) :: chunkRows w n (bs.drop w)

def R1_BYTES : Nat := LAMBDA_C_DIV_SOFT_SPOKEN_K * L_PRIME_BYTES + S_BYTES + LAMBDA_C * S_BYTES

/-- `bytemuck::from_bytes::<Round1Output>` -/
def Round1Output.parse (bs : Bytes) : Round1Output :=
  let nu := LAMBDA_C_DIV_SOFT_SPOKEN_K * L_PRIME_BYTES
  { u := chunkRows L_PRIME_BYTES LAMBDA_C_DIV_SOFT_SPOKEN_K bs
    x := leToNat ((bs.drop nu).take S_BYTES)
    t := chunkRows S_BYTES LAMBDA_C (bs.drop (nu + S_BYTES)) }

/-! ### transcripts (exact labels and framing of the code) -/

def ssLabel : Bytes := labelBytes SOFT_SPOKEN_LABEL

def chalQ (t : Transcript) (label : Bytes) (n : Nat) : Query :=
  .merlin { t with ops := t.ops ++ [.chal label n] }

/-- seed expansion:
    `Transcript::new(&SOFT_SPOKEN_LABEL); append_message(b"", sid); append_message(b"", key);
     challenge_bytes(&SOFT_SPOKEN_EXPAND_LABEL, [0; L_PRIME_BYTES])` -/
def expandQ (sid key : Bytes) : Query :=
  chalQ (((Transcript.new ssLabel).appendMessage [] sid).appendMessage [] key)
    (labelBytes SOFT_SPOKEN_EXPAND_LABEL) L_PRIME_BYTES

/-- matrix hash: `new(&SOFT_SPOKEN_LABEL); append_message(b"session-id", sid); append_message(b"", &u[i]) ∀i;
    challenge_bytes(&SOFT_SPOKEN_MATRIX_HASH_LABEL, [0; 32])` -/
def matrixHashQ (sid : Bytes) (u : List Nat) : Query :=
  chalQ (u.foldl (fun t ui => t.appendMessage [] (natToLe L_PRIME_BYTES ui))
          ((Transcript.new ssLabel).appendMessage (ascii "session-id") sid))
    (labelBytes SOFT_SPOKEN_MATRIX_HASH_LABEL) 32

/-- `new(b""); append_u64(b"index", j); append_message(b"", &digest); challenge_bytes(b"", [0; S_BYTES])` -/
def chiQ (digest : Bytes) (j : Nat) : Query :=
  chalQ (((Transcript.new []).appendU64 (ascii "index") j).appendMessage [] digest) [] S_BYTES

/-- randomisation transcript of extended OT j over the transposed row:
    `new(&SOFT_SPOKEN_LABEL); append_message(b"session-id", sid); append_u64(b"index", j);
     append_message(&SOFT_SPOKEN_RANDOMIZE_LABEL, &row)` -/
def randT (sid : Bytes) (j row : Nat) : Transcript :=
  (((Transcript.new ssLabel).appendMessage (ascii "session-id") sid).appendU64 (ascii "index") j).appendMessage
    (labelBytes SOFT_SPOKEN_RANDOMIZE_LABEL) (natToLe LAMBDA_C_BYTES row)

/-- `k` successive `challenge_bytes(label, [0; n])` on ONE transcript -/
def challenges (O : Query → m Bytes) (label : Bytes) (n : Nat) : Nat → Transcript → m (List Bytes)
  | 0, _ => pure []
  | k+1, t => do
      let (b, t') ← challenge O t label n
      let rest ← challenges O label n k t'
      pure (b :: rest)

/-- `(List.range n).mapM f` -/
def tabulateM {α : Type} (n : Nat) (f : Nat → m α) : m (List α) := (List.range n).mapM f

def keyAt (keys : List (List Bytes)) (i j : Nat) : Bytes := (keys.getD i []).getD j []
def at2 (rs : List (List Nat)) (i j : Nat) : Nat := (rs.getD i []).getD j 0

/-- receiver: all `LAMBDA_C/K × Q` expansions `r_x[j][i]` -/
def recvExpand (O : Query → m Bytes) (sid : Bytes) (encKeys : List (List Bytes)) : m (List (List Nat)) :=
  tabulateM LAMBDA_C_DIV_SOFT_SPOKEN_K fun i => tabulateM SOFT_SPOKEN_Q fun j => do
    let out ← O (expandQ sid (keyAt encKeys i j))
    pure (rowOf L_PRIME_BYTES out)

/-- sender: the same, with the punctured row zeroed: `if j == random_choices[i] { fill(0) } else { expand }` -/
def sendExpand (O : Query → m Bytes) (sid : Bytes) (rc : List Nat) (decKeys : List (List Bytes)) :
    m (List (List Nat)) :=
  tabulateM LAMBDA_C_DIV_SOFT_SPOKEN_K fun i => tabulateM SOFT_SPOKEN_Q fun j =>
    if j = rc.getD i 0 then pure 0 else do
      let out ← O (expandQ sid (keyAt decKeys i j))
      pure (rowOf L_PRIME_BYTES out)

/-- the M challenge field elements χ_j derived from the hash of the matrix U -/
def chiAll (O : Query → m Bytes) (sid : Bytes) (u : List Nat) : m (List Nat) := do
  let digest ← O (matrixHashQ sid u)
  tabulateM SOFT_SPOKEN_M fun j => do
    let out ← O (chiQ digest j)
    pure (rowOf S_BYTES out)

/-- the OT_WIDTH output strings of every extended OT `j < rows.length` -/
def randomizeAll (O : Query → m Bytes) (sid : Bytes) (rows : List Nat) : m (List (List Bytes)) :=
  tabulateM rows.length fun j => challenges O [] KAPPA_BYTES OT_WIDTH (randT sid j (rows.getD j 0))

/-! ### receiver -/

/-- `extended_packed_choices`: the choice bytes followed by `L_PRIME_BYTES - L_BYTES` bytes of the rng -/
def extChoices (choices : Bytes) (tape : Tape) : Nat × Tape :=
  let (pad, tape') := Tape.take tape (L_PRIME_BYTES - L_BYTES)
  (rowOf L_PRIME_BYTES (choices ++ pad), tape')

/-- matrix V of the receiver: row `i*K+b` -/
def recvVRows (rs : List (List Nat)) : List Nat :=
  (List.range LAMBDA_C).map fun k => recvV (at2 rs (k / SOFT_SPOKEN_K)) (k % SOFT_SPOKEN_K)

/-- `SoftSpokenOTReceiver::process(session_id, seed_ot_results, &mut Round1Output::default(),
      &mut ReceiverExtendedOutput{choices, ..}, rng)` -/
def receiverProcess (O : Query → m Bytes) (sid : Bytes) (encKeys : List (List Bytes)) (choices : Bytes)
    (tape : Tape) : m (Round1Output × ReceiverExtendedOutput × Tape) := do
  let (c, tape') := extChoices choices tape
  let rs ← recvExpand O sid encKeys
  let u := (List.range LAMBDA_C_DIV_SOFT_SPOKEN_K).map fun i => recvU (at2 rs i) c
  let v := recvVRows rs
  let chi ← chiAll O sid u
  let x := checkRow chi c
  let t := v.map (checkRow chi)
  let psi := (transpose v).take L
  let vx ← randomizeAll O sid psi
  pure ({ u, x, t }, { choices, v_x := vx }, tape')

/-! ### sender -/

/-- matrix W of the sender: row `i*K+b` -/
def sendWRows (rs : List (List Nat)) (rc : List Nat) (u : List Nat) : List Nat :=
  (List.range LAMBDA_C).map fun k =>
    sendW (at2 rs (k / SOFT_SPOKEN_K)) (rc.getD (k / SOFT_SPOKEN_K) 0) (u.getD (k / SOFT_SPOKEN_K) 0)
      (k % SOFT_SPOKEN_K)

/-- the consistency check, row by row (the code returns at the first failing row):
    `q_row == t[i] ^ (mask(nabla bit i) & x)` -/
def checkAll (chi : List Nat) (w : List Nat) (nabla : Nat) (msg : Round1Output) : Bool :=
  (List.range LAMBDA_C).all fun i =>
    checkRow chi (w.getD i 0) == (msg.t.getD i 0 ^^^ mask (nabla.testBit i) msg.x)

/-- everything after the seed expansion (which does not depend on the message) -/
def senderAfterExpand (O : Query → m Bytes) (sid : Bytes) (rc : List Nat) (rs : List (List Nat))
    (msg : Round1Output) : m (Except SsError SenderExtendedOutput) := do
  let w := sendWRows rs rc msg.u
  let nabla := packedNabla rc
  let chi ← chiAll O sid msg.u
  if checkAll chi w nabla msg then
    let zeta := (transpose w).take L
    let v0 ← randomizeAll O sid zeta
    let v1 ← randomizeAll O sid (zeta.map (· ^^^ nabla))
    pure (.ok { v_0 := v0, v_1 := v1 })
  else
    pure (.error .abortProtocolAndBanReceiver)

/-- the verdict only (no output strings): used for the exhaustive tamper stream -/
def senderVerdict (O : Query → m Bytes) (sid : Bytes) (rc : List Nat) (rs : List (List Nat))
    (msg : Round1Output) : m Bool := do
  let chi ← chiAll O sid msg.u
  pure (checkAll chi (sendWRows rs rc msg.u) (packedNabla rc) msg)

/-- `checkAll` with the row check values `q_i = checkRow chi w_i` given (they depend on the message only through `u`);
    used by the driver to judge many messages that share `u` (flips of x / t) without recomputing the products -/
def checkAllQ (q : List Nat) (nabla : Nat) (msg : Round1Output) : Bool :=
  (List.range LAMBDA_C).all fun i => q.getD i 0 == (msg.t.getD i 0 ^^^ mask (nabla.testBit i) msg.x)

/-- `SoftSpokenOTSender::process(session_id, seed_ot_results{random_choices, otp_dec_keys}, message)` -/
def senderProcess (O : Query → m Bytes) (sid : Bytes) (rc : List Nat) (decKeys : List (List Bytes))
    (msg : Round1Output) : m (Except SsError SenderExtendedOutput) := do
  let rs ← sendExpand O sid rc decKeys
  senderAfterExpand O sid rc rs msg

/-! ### C04: adversarial receiver and tamper operators -/

/-- A receiver that deviates in chosen seed blocks and re-derives a self-consistent message:
    in block `i` it forms `u_i` with the choice vector `c ⊕ dev i` (`dev i = 0`: honest block) and compensates the
    check values `t` of the block's K rows under the guess `guess i` of the sender's punctured index δ_i:
        t[i*K+b] = check(v[i*K+b]) ⊕ mask(bit b of guess i) · check(dev i),      x = check(c)   (χ = H(u) re-derived).
    The sender's row check then reads  mask(δ_ib)·check(dev i) = mask(guess_ib)·check(dev i). -/
def advAfterExpand (O : Query → m Bytes) (sid : Bytes) (rs : List (List Nat)) (c : Nat) (dev guess : Nat → Nat) :
    m Round1Output := do
  let u := (List.range LAMBDA_C_DIV_SOFT_SPOKEN_K).map fun i => recvU (at2 rs i) (c ^^^ dev i)
  let v := recvVRows rs
  let chi ← chiAll O sid u
  let x := checkRow chi c
  let t := (List.range LAMBDA_C).map fun k =>
    checkRow chi (v.getD k 0) ^^^
      mask ((guess (k / SOFT_SPOKEN_K)).testBit (k % SOFT_SPOKEN_K)) (checkRow chi (dev (k / SOFT_SPOKEN_K)))
  pure { u, x, t }

def advReceiver (O : Query → m Bytes) (sid : Bytes) (encKeys : List (List Bytes)) (choices : Bytes)
    (tape : Tape) (dev guess : Nat → Nat) : m Round1Output := do
  let (c, _) := extChoices choices tape
  let rs ← recvExpand O sid encKeys
  advAfterExpand O sid rs c dev guess

/-- association list `(block, value)` → total function (first match, default 0) -/
def lookupD (l : List (Nat × Nat)) (i : Nat) : Nat :=
  match l.find? (·.1 == i) with
  | some p => p.2
  | none => 0

/-- flip bit `pos` (absolute position, byte pos/8, bit pos%8) of a byte string -/
def flipBit (bs : Bytes) (pos : Nat) : Bytes :=
  bs.modify (pos / 8) (· ^^^ (1 <<< (pos % 8)))

/-- tamper: flip one bit of the serialized message -/
def tamperBit (msg : Round1Output) (pos : Nat) : Round1Output :=
  Round1Output.parse (flipBit msg.serialize pos)

/-- the same flip computed on the parsed message (used by the batched verdict op of the driver; agrees with
    `tamperBit` on well-formed messages, and the harness flips the real bytes independently) -/
def tamperBitFast (msg : Round1Output) (pos : Nat) : Round1Output :=
  let nu := 8 * (LAMBDA_C_DIV_SOFT_SPOKEN_K * L_PRIME_BYTES)
  if pos < nu then
    let i := pos / (8 * L_PRIME_BYTES)
    { msg with u := msg.u.set i (msg.u.getD i 0 ^^^ (1 <<< (pos % (8 * L_PRIME_BYTES)))) }
  else if pos < nu + 8 * S_BYTES then
    { msg with x := msg.x ^^^ (1 <<< (pos - nu)) }
  else
    let q := pos - nu - 8 * S_BYTES
    let i := q / (8 * S_BYTES)
    { msg with t := msg.t.set i (msg.t.getD i 0 ^^^ (1 <<< (q % (8 * S_BYTES)))) }

def swapAt (l : List Nat) (i j : Nat) : List Nat :=
  (l.set i (l.getD j 0)).set j (l.getD i 0)

def tamperSetU (msg : Round1Output) (i row : Nat) : Round1Output := { msg with u := msg.u.set i row }
def tamperSetX (msg : Round1Output) (x : Nat) : Round1Output := { msg with x }
def tamperSetT (msg : Round1Output) (i v : Nat) : Round1Output := { msg with t := msg.t.set i v }
def tamperSwapU (msg : Round1Output) (i j : Nat) : Round1Output := { msg with u := swapAt msg.u i j }
def tamperSwapT (msg : Round1Output) (i j : Nat) : Round1Output := { msg with t := swapAt msg.t i j }
/-- splice: fields taken from another message (another session / seed set / choice vector) -/
def tamperSplice (msg other : Round1Output) (takeU takeX takeT : Bool) : Round1Output :=
  { u := if takeU then other.u else msg.u, x := if takeX then other.x else msg.x,
    t := if takeT then other.t else msg.t }

end SlVerif.SoftSpoken
