/-
  C18 — control-flow skeletons and their counting semantics (core Lean only).

  A `Stmt` is the control-flow skeleton of one Rust function as extracted from the CURRENT source by
  `tools/ctskel` (→ `Generated/CtSkel.lean`).  `exec I p σ` counts, for every *site* (function body, loop body,
  closure body, branch arm — one per source-level branch arm and loop body), how often it is executed when `p`
  runs in state `σ = (public part, secret part)` under an arbitrary interpretation `I` of the loop trip counts and
  conditions.  `check p` is the static acceptance test: `true` iff nothing in `p` (recursively through `call`)
  lets a secret influence a trip count, a branch, an early exit or a known variable-time external.

  Accepted nodes
    site n            marker: one execution of the block that starts at site `n`
    seq a b / skip
    loopPub l b       loop whose trip count `I.trip l ρ` is a function of the PUBLIC state only; the body runs with the
                      loop index bound in the public state (`ρ[l ↦ j]`), so inner trip counts may depend on it
    ifPub c t e       branch whose condition `I.cond c ρ` is a function of the public state only
    oneHot c l k t e  `if j == <secret k> {t} else {e}` directly in the body of public loop `l` over `j`; the secret is
                      evaluated in the state *outside* the loop (`σ[l ↦ 0]`: it cannot mention `j`), `t`,`e` are
                      straight-line.  Taken exactly once per loop instance when the secret is in range.
    abortIf c b       declassified consistency-check exit (`if digest.ct_ne(..).into() { return Err }`, `listed_op(..)?`):
                      evaluated every time, body `b` assumed not taken (hypothesis `NoAbort`)
    call f b          call of another analysed function of the repo; `b` is that function's skeleton
    ext f             call into an external crate (opaque; no source-level sites of ours)
  Rejected nodes (their presence makes `check` false)
    extVartime f      known variable-time external applied to secret data
    secArg f          secret argument passed for a parameter that the callee's analysis assumed public
    ifSec / loopSec / whileSec / matchSec / exitSec   branch, trip count, scrutinee or early exit under secret control
-/
namespace SlVerif.Ct

abbrev Site := Nat
abbrev LoopId := Nat
abbrev CondId := Nat
abbrev SecretId := Nat

/-- execution counts: site ↦ number of executions (compared extensionally) -/
abbrev Counts := Site → Nat

namespace Counts
def zero : Counts := fun _ => 0
def add (a b : Counts) : Counts := fun s => a s + b s
def smul (n : Nat) (a : Counts) : Counts := fun s => n * a s
def one (s : Site) : Counts := fun t => if t = s then 1 else 0
end Counts

/-- Σ_{j<n} f j -/
def sumRange (n : Nat) (f : Nat → Counts) : Counts :=
  (List.range n).foldl (fun c j => c.add (f j)) Counts.zero

/-- public state: public variables by number; the current index of public loop `l` is stored at key `l` -/
abbrev PubState := Nat → Nat

def PubState.bind (ρ : PubState) (l : LoopId) (j : Nat) : PubState := fun x => if x = l then j else ρ x

/-- a state = public part + arbitrary secret part -/
structure State (S : Type) where
  pub : PubState
  sec : S

def State.bind {S : Type} (σ : State S) (l : LoopId) (j : Nat) : State S := { σ with pub := σ.pub.bind l j }

/-- abstract interpretation of the skeleton's identifiers -/
structure Interp (S : Type) where
  /-- trip count of a public loop: a function of the public state only -/
  trip : LoopId → PubState → Nat
  /-- public branch condition -/
  cond : CondId → PubState → Bool
  /-- value of the secret expression of a one-hot comparison -/
  secretIdx : SecretId → State S → Nat
  /-- condition of a rejected (secret) branch -/
  secCond : CondId → State S → Bool
  /-- trip count of a rejected (secret) loop -/
  secTrip : LoopId → State S → Nat
  /-- is the declassified abort `c` taken? -/
  abortCond : CondId → State S → Bool

inductive Stmt where
  | skip
  | site (s : Site)
  | seq (a b : Stmt)
  | loopPub (l : LoopId) (body : Stmt)
  | ifPub (c : CondId) (t e : Stmt)
  | oneHot (c : CondId) (l : LoopId) (k : SecretId) (t e : Stmt)
  | abortIf (c : CondId) (body : Stmt)
  | call (name : String) (body : Stmt)
  | ext (name : String)
  | extVartime (name : String)
  | secArg (name : String)
  | ifSec (c : CondId) (t e : Stmt)
  | loopSec (l : LoopId) (body : Stmt)
  | whileSec (l : LoopId) (body : Stmt)
  | matchSec (c : CondId) (arm rest : Stmt)
  | exitSec (c : CondId)

/-- `block [a, b, c] = seq a (seq b (seq c skip))` (what the translator emits for a statement list) -/
def Stmt.block : List Stmt → Stmt
  | [] => .skip
  | a :: r => .seq a (Stmt.block r)

/-- counting semantics.  (Early termination by an abort is not modelled: the theorems assume `NoAbort`.) -/
def exec {S : Type} (I : Interp S) : Stmt → State S → Counts
  | .skip, _ => Counts.zero
  | .site s, _ => Counts.one s
  | .seq a b, σ => (exec I a σ).add (exec I b σ)
  | .loopPub l b, σ => sumRange (I.trip l σ.pub) (fun j => exec I b (σ.bind l j))
  | .ifPub c t e, σ => if I.cond c σ.pub then exec I t σ else exec I e σ
  | .oneHot _ l k t e, σ => if σ.pub l = I.secretIdx k (σ.bind l 0) then exec I t σ else exec I e σ
  | .abortIf c b, σ => if I.abortCond c σ then exec I b σ else Counts.zero
  | .call _ b, σ => exec I b σ
  | .ext _, _ => Counts.zero
  | .extVartime _, _ => Counts.zero
  | .secArg _, _ => Counts.zero
  | .ifSec c t e, σ => if I.secCond c σ then exec I t σ else exec I e σ
  | .loopSec l b, σ => sumRange (I.secTrip l σ) (fun j => exec I b (σ.bind l j))
  | .whileSec l b, σ => sumRange (I.secTrip l σ) (fun j => exec I b (σ.bind l j))
  | .matchSec c a r, σ => if I.secCond c σ then exec I a σ else exec I r σ
  | .exitSec _, _ => Counts.zero

/-- straight-line: sites, external calls and calls of straight-line functions only -/
def straight : Stmt → Bool
  | .skip => true
  | .site _ => true
  | .seq a b => straight a && straight b
  | .call _ b => straight b
  | .ext _ => true
  | _ => false

/-- the acceptance test; the first argument is `some l` exactly at the top level of the body of public loop `l`
    (the only place where a `oneHot` on `l` is accepted) -/
def chk : Option LoopId → Stmt → Bool
  | _, .skip => true
  | _, .site _ => true
  | o, .seq a b => chk o a && chk o b
  | _, .loopPub l b => chk (some l) b
  | _, .ifPub _ t e => chk none t && chk none e
  | some l, .oneHot _ l' _ t e => l == l' && straight t && straight e
  | none, .oneHot _ _ _ _ _ => false
  | _, .abortIf _ b => chk none b
  | _, .call _ b => chk none b
  | _, .ext _ => true
  | _, _ => false

/-- static checker: no secret-dependent node anywhere, recursively through `call` -/
def check (p : Stmt) : Bool := chk none p

/-- secrets compared against the index of loop `l` at the top level of its body -/
def hotIds (l : LoopId) : Stmt → List SecretId
  | .seq a b => hotIds l a ++ hotIds l b
  | .oneHot _ l' k _ _ => if l' = l then [k] else []
  | _ => []

/-- range hypothesis collected from the program: every one-hot secret is a valid index of its loop, at every
    reached instance of the loop -/
def InRange {S : Type} (I : Interp S) : Stmt → State S → Prop
  | .seq a b, σ => InRange I a σ ∧ InRange I b σ
  | .loopPub l b, σ =>
      (∀ k, k ∈ hotIds l b → I.secretIdx k (σ.bind l 0) < I.trip l σ.pub) ∧
      (∀ j, j < I.trip l σ.pub → InRange I b (σ.bind l j))
  | .ifPub c t e, σ => if I.cond c σ.pub then InRange I t σ else InRange I e σ
  | .abortIf _ _, _ => True
  | .call _ b, σ => InRange I b σ
  | _, _ => True

/-- honest-run hypothesis: no declassified abort is taken at any reached instance -/
def NoAbort {S : Type} (I : Interp S) : Stmt → State S → Prop
  | .seq a b, σ => NoAbort I a σ ∧ NoAbort I b σ
  | .loopPub l b, σ => ∀ j, j < I.trip l σ.pub → NoAbort I b (σ.bind l j)
  | .ifPub c t e, σ => if I.cond c σ.pub then NoAbort I t σ else NoAbort I e σ
  | .abortIf c _, σ => I.abortCond c σ = false
  | .call _ b, σ => NoAbort I b σ
  | _, _ => True

/-- all (loop, secret) pairs of one-hot comparisons in `p`, through calls -/
def hotPairs : Stmt → List (LoopId × SecretId)
  | .seq a b => hotPairs a ++ hotPairs b
  | .loopPub _ b => hotPairs b
  | .ifPub _ t e => hotPairs t ++ hotPairs e
  | .oneHot _ l k _ _ => [(l, k)]
  | .abortIf _ b => hotPairs b
  | .call _ b => hotPairs b
  | _ => []

/-- all abort points of `p`, through calls -/
def abortIds : Stmt → List CondId
  | .seq a b => abortIds a ++ abortIds b
  | .loopPub _ b => abortIds b
  | .ifPub _ t e => abortIds t ++ abortIds e
  | .abortIf c _ => [c]
  | .call _ b => abortIds b
  | _ => []

/-- the sites mentioned by a skeleton (for the site table check) -/
def sites : Stmt → List Site
  | .site s => [s]
  | .seq a b => sites a ++ sites b
  | .loopPub _ b => sites b
  | .ifPub _ t e => sites t ++ sites e
  | .oneHot _ _ _ t e => sites t ++ sites e
  | .abortIf _ b => sites b
  | .call _ b => sites b
  | .ifSec _ t e => sites t ++ sites e
  | .loopSec _ b => sites b
  | .whileSec _ b => sites b
  | .matchSec _ a r => sites a ++ sites r
  | _ => []

end SlVerif.Ct
