import SlVerif.Model.Oracle
/-
  C09 / C10 model: crates/sl-verifiable-enc/src/lib.rs (`VerifiableRsaEncryption<G>`), generic in the group through
  `CurveParams` (k256 `ProjectivePoint` and curve25519-dalek `EdwardsPoint`).

  What is MODEL code (Nat arithmetic, verified): the label integer `BigUint::from_bytes_be(SHA-256("SL-label-for-RSA" ‖ label))`,
  `(m_int * label_int) % n`, the modular inverse of the label (`num-bigint-dig::mod_inverse`), `BigUint::to_bytes_be`
  (minimal big-endian encoding, `[0]` for zero), scalar (de)serialisation (`to_repr` / `from_repr`; the crate feeds the
  repr bytes to `BigUint::from_bytes_be` on BOTH curves, i.e. for edwards25519 the little-endian repr is READ big-endian),
  the wire format (`to_bytes` / `from_bytes` with every check), the cut-and-choose logic and `ExtractBit`.
  What is ORACLE: SHA-256, the group (`ecMulGen`, `ecAdd`, `ecValid`), raw PKCS#1 v1.5 encryption with the padding
  stream ChaCha20(seed) (`rsaEnc`, empty answer = `Err`) and PKCS#1 v1.5 decryption (`rsaDec`, `1 :: plaintext` | `[0]`).
  RSA keys travel as a short key-id byte string; the modulus `n` is an explicit argument.

  The model describes the code AFTER the three repairs D7–D9 (see `fromBytes`, `decrypt`): `from_bytes` refuses
  `security_param > 256`; `decrypt` SKIPS a slot whose RSA decryption / label inversion / scalar decoding fails and
  left-pads the decrypted integer with zeros to the scalar width before decoding.
-/
namespace SlVerif

/-- `curve25519_dalek::Scalar::random(rng)`: 64 tape bytes, read little-endian, reduced mod ℓ
    (`from_bytes_mod_order_wide`) -/
def Tape.scalarWideEd (t : Tape) : Nat × Tape :=
  let (b, t') := Tape.take t 64
  (leToNat b % edL, t')

namespace VerEnc

/-- what the code needs to know about `G` -/
structure CurveParams where
  curve : Curve
  /-- `size_of::<G::Repr>()` -/
  pointLen : Nat
  /-- `size_of::<<G::Scalar as PrimeField>::Repr>()` -/
  scalarLen : Nat := 32
  order : Nat
  /-- byte order of `Scalar::to_repr()` : k256 big-endian, curve25519-dalek little-endian -/
  scalarBE : Bool
deriving Repr

def secp : CurveParams := { curve := .secp256k1, pointLen := 33, order := secpQ, scalarBE := true }
def ed : CurveParams := { curve := .ed25519, pointLen := 32, order := edL, scalarBE := false }

inductive Err where
  | encError | decError | invalidLabel | verificationFailed | invalidSizeParam
  | serde (msg : String)
  | invalidSecurityParam
deriving DecidableEq, Repr

def Err.name : Err → String
  | .encError => "EncError" | .decError => "DecError" | .invalidLabel => "InvalidLabel"
  | .verificationFailed => "VerificationFailed" | .invalidSizeParam => "InvalidSizeParam"
  | .serde m => "SerdeError:" ++ m | .invalidSecurityParam => "InvalidSecurityParam"

/-- result of a Rust entry point: `Ok`, `Err(RsaError)`, or a panic -/
inductive Res (α : Type) where
  | ok (v : α)
  | err (e : Err)
  | panic (why : String)
deriving DecidableEq, Repr

def SECURITY_PARAM : Nat := 128

/-! ### scalars and integers -/

/-- `Scalar::to_repr()` of a reduced scalar -/
def CurveParams.repr (cp : CurveParams) (s : Nat) : Bytes :=
  if cp.scalarBE then natToBe cp.scalarLen s else natToLe cp.scalarLen s

/-- integer value of repr bytes in the scalar's own byte order -/
def CurveParams.reprVal (cp : CurveParams) (b : Bytes) : Nat :=
  if cp.scalarBE then beToNat b else leToNat b

/-- `Scalar::from_repr` : canonical encodings only (k256: value < q; dalek `from_canonical_bytes`: high bit clear and
    value < ℓ, which is `value < ℓ` because ℓ < 2^253) -/
def CurveParams.fromRepr? (cp : CurveParams) (b : Bytes) : Option Nat :=
  if cp.reprVal b < cp.order then some (cp.reprVal b) else none

/-- `decode_scalar::<S>(bytes)` -/
def decodeScalar (cp : CurveParams) (b : Bytes) : Option Nat :=
  if b.length ≠ cp.scalarLen then none else cp.fromRepr? b

/-- `BigUint::to_bytes_be()` : minimal big-endian encoding, `[0]` for zero -/
def toBytesBE (n : Nat) : Bytes := natToBe (Nat.log2 n / 8 + 1) n

/-- left-pad with zero bytes up to `len` (repair of D9) -/
def padLeft (len : Nat) (b : Bytes) : Bytes := List.replicate (len - b.length) 0 ++ b

/-- extended Euclid (the recursion of Mathlib's `Nat.xgcdAux`, restated here because models are Mathlib-free) -/
def xgcdAux : Nat → Int → Int → Nat → Int → Int → Nat × Int × Int
  | 0, _, _, r', s', t' => (r', s', t')
  | k+1, s, t, r', s', t' =>
      xgcdAux (r' % (k+1)) (s' - (r' / (k+1) : Nat) * s) (t' - (r' / (k+1) : Nat) * t) (k+1) s t
termination_by k => k
decreasing_by exact Nat.mod_lt _ (Nat.succ_pos _)

/-- `a.mod_inverse(n).and_then(|v| v.to_biguint())` : `None` unless gcd(a, n) = 1; otherwise the inverse in `[0, n)`.
    (num-bigint-dig returns some representative of the inverse; it is only ever used as `(· * inv) % n`, which does not
    depend on the representative.) -/
def modInv? (a n : Nat) : Option Nat :=
  let (g, s, _) := xgcdAux a 1 0 n 0 1
  if g = 1 then some (Int.toNat (s % (n : Int))) else none

/-! ### oracle helpers -/
section
variable {m : Type → Type} [Monad m]

/-- `label_int_from_bytes(label)` -/
def labelInt (O : Query → m Bytes) (label : Bytes) : m Nat := do
  let d ← O (.sha256 (ascii "SL-label-for-RSA" ++ label))
  pure (beToNat d)

/-- `rsa_encrypt_with_label(m, label, pk, seed)` with `L = label_int_from_bytes(label)`; `none` = `Err(EncError)` -/
def rsaEncryptWithLabel (O : Query → m Bytes) (key : Bytes) (n L : Nat) (seed msg : Bytes) : m (Option Bytes) := do
  let pt := (beToNat msg * L) % n
  let ct ← O (.rsaEnc key seed (toBytesBE pt))
  pure (if ct.isEmpty then none else some ct)

/-- `rsa_decrypt_with_label(ct, label, sk)` -/
def rsaDecryptWithLabel (O : Query → m Bytes) (key : Bytes) (n L : Nat) (ct : Bytes) : m (Res Bytes) := do
  let a ← O (.rsaDec key ct)
  match a with
  | 1 :: pt =>
      match modInv? L n with
      | none => pure (.err .invalidLabel)
      | some inv => pure (.ok (toBytesBE (beToNat pt * inv % n)))
  | _ => pure (.err .decError)

def mulGen (O : Query → m Bytes) (cp : CurveParams) (k : Nat) : m Bytes := O (.ecMulGen cp.curve k)

/-- the identity's canonical encoding -/
def identityEnc (cp : CurveParams) : Bytes :=
  match cp.curve with
  | .secp256k1 => List.replicate 33 0
  | .ed25519 => 1 :: List.replicate 31 0

/-- canonical encoding of a point given by a VALID encoding.  secp256k1 encodings are canonical; `EdwardsPoint::from_bytes`
    accepts non-canonical y and a set sign bit on x = 0, and the Rust compares decoded points, not bytes -/
def canon (O : Query → m Bytes) (cp : CurveParams) (p : Bytes) : m Bytes :=
  match cp.curve with
  | .secp256k1 => pure p
  | .ed25519 => O (.ecAdd cp.curve p (identityEnc cp))

end

/-! ### the proof object -/

/-- `ProofData<G>` -/
structure Slot where
  gR : Bytes
  encXR : Bytes
  encR : Bytes
deriving DecidableEq, Repr

/-- `VerifiableRsaEncryption<G>`; `opens` are reduced scalars -/
structure Proof where
  seed : Bytes
  slots : List Slot
  opens : List Nat
  param : Nat
deriving DecidableEq, Repr

def Slot.bytes (s : Slot) : Bytes := s.gR ++ s.encXR ++ s.encR

/-- `ExtractBit::extract_bit(idx)` on a `[u8; 32]`: `none` = index-out-of-bounds panic -/
def extractBit (ch : Bytes) (idx : Nat) : Option Bool :=
  if idx / 8 < 32 then some ((ch.getD (idx / 8) 0 / 2 ^ (idx % 8)) % 2 == 1) else none

section
variable {m : Type → Type} [Monad m]

/-- `Self::challenge(q_point, label, proofs)` -/
def challenge (O : Query → m Bytes) (q : Bytes) (label : Bytes) (slots : List Slot) : m Bytes :=
  O (.sha256 (ascii "Verified-RSA-encryption" ++ q ++ slots.flatMap Slot.bytes ++ label))

/-- `G::Scalar::random(rng)` -/
def scalarRandom (cp : CurveParams) (t : Tape) : Nat × Tape :=
  match cp.curve with
  | .secp256k1 => Tape.scalarRandom 64 t
  | .ed25519 => Tape.scalarWideEd t

/-- one honest slot: `(slot, r, x + r)` -/
structure Made where
  slot : Slot
  r : Nat
  xr : Nat
deriving Repr

/-- the first loop of `encrypt_with_proof` (`k` slots still to make); `none` = `Err(EncError)` -/
def makeSlots (O : Query → m Bytes) (cp : CurveParams) (x : Nat) (key : Bytes) (n L : Nat) (seed : Bytes) :
    Nat → Tape → m (Option (List Made × Tape))
  | 0, tape => pure (some ([], tape))
  | k+1, tape => do
      let (r, tape) := scalarRandom cp tape
      let gR ← mulGen O cp r
      let xr := (x + r) % cp.order
      match ← rsaEncryptWithLabel O key n L seed (cp.repr r) with
      | none => pure none
      | some encR =>
        match ← rsaEncryptWithLabel O key n L seed (cp.repr xr) with
        | none => pure none
        | some encXR =>
          match ← makeSlots O cp x key n L seed k tape with
          | none => pure none
          | some (rest, tape) => pure (some ({ slot := { gR, encXR, encR }, r, xr } :: rest, tape))

/-- the second loop: `conditional_select(&r, &x_plus_r, bit i)`; `none` = panic in `extract_bit` -/
def selectOpens (ch : Bytes) : Nat → List Made → Option (List Nat)
  | _, [] => some []
  | i, md :: rest =>
      match extractBit ch i with
      | none => none
      | some b => (selectOpens ch (i+1) rest).map ((if b then md.xr else md.r) :: ·)

/-- `encrypt_with_proof(x, pk, label, security_param, rng)`; also returns the unused tape -/
def encryptWithProof (O : Query → m Bytes) (cp : CurveParams) (x : Nat) (key : Bytes) (n : Nat) (label : Bytes)
    (param : Option Nat) (tape : Tape) : m (Res (Proof × Tape)) := do
  let (seed, tape) := Tape.genArray tape 32
  let sp := param.getD SECURITY_PARAM
  if sp < SECURITY_PARAM ∨ 256 < sp then pure (.err .invalidSizeParam) else
  let q ← mulGen O cp x
  let L ← labelInt O label
  match ← makeSlots O cp x key n L seed sp tape with
  | none => pure (.err .encError)
  | some (made, tape) =>
    let slots := made.map Made.slot
    let ch ← challenge O q label slots
    match selectOpens ch 0 made with
    | none => pure (.panic "extract_bit: index out of bounds")
    | some opens => pure (.ok ({ seed, slots, opens, param := sp }, tape))

/-- body of the loop of `verify` for slot `i` -/
def verifySlot (O : Query → m Bytes) (cp : CurveParams) (p : Proof) (q : Bytes) (key : Bytes) (n L : Nat) (ch : Bytes)
    (i : Nat) : m (Res Unit) := do
  match p.slots[i]? with
  | none => pure (.panic "proofs[i]: index out of bounds")
  | some slot =>
    match p.opens[i]? with
    | none => pure (.panic "open_scalars[i]: index out of bounds")
    | some s =>
      let sG ← mulGen O cp s
      match extractBit ch i with
      | none => pure (.panic "extract_bit: index out of bounds")
      | some bit =>
        match ← rsaEncryptWithLabel O key n L p.seed (cp.repr s) with
        | none => pure (.err .encError)
        | some e =>
          let v ← O (.ecValid cp.curve slot.gR)
          if v != [1] then pure (.err .verificationFailed) else
          if bit then do
            let t ← O (.ecAdd cp.curve q slot.gR)
            if t == sG && slot.encXR == e then pure (.ok ()) else pure (.err .verificationFailed)
          else do
            let g ← canon O cp slot.gR
            if g == sG && slot.encR == e then pure (.ok ()) else pure (.err .verificationFailed)

/-- slots `i, i+1, …, i+k-1` -/
def verifyFrom (O : Query → m Bytes) (cp : CurveParams) (p : Proof) (q : Bytes) (key : Bytes) (n L : Nat) (ch : Bytes) :
    Nat → Nat → m (Res Unit)
  | 0, _ => pure (.ok ())
  | k+1, i => do
      match ← verifySlot O cp p q key n L ch i with
      | .ok () => verifyFrom O cp p q key n L ch k (i+1)
      | .err e => pure (.err e)
      | .panic w => pure (.panic w)

/-- `verify(&self, q_point, pk, label)`; `q` is the canonical encoding of the point -/
def verify (O : Query → m Bytes) (cp : CurveParams) (p : Proof) (q : Bytes) (key : Bytes) (n : Nat) (label : Bytes) :
    m (Res Unit) := do
  let ch ← challenge O q label p.slots
  let L ← labelInt O label
  verifyFrom O cp p q key n L ch p.param 0

/-- decrypt one ciphertext to a scalar: RSA decryption, label removal, zero padding (repair D9), `decode_scalar`;
    `none` = this slot is skipped (repair D8: also when the RSA decryption or the label inversion fails) -/
def decryptValue (O : Query → m Bytes) (cp : CurveParams) (key : Bytes) (n L : Nat) (ct : Bytes) : m (Option Nat) := do
  match ← rsaDecryptWithLabel O key n L ct with
  | .ok b => pure (decodeScalar cp (padLeft cp.scalarLen b))
  | .err _ => pure none
  | .panic _ => pure none

/-- the loop of `decrypt` -/
def decryptSlots (O : Query → m Bytes) (cp : CurveParams) (q : Bytes) (key : Bytes) (n L : Nat) :
    List Slot → m (Res Nat)
  | [] => pure (.err .decError)
  | s :: rest => do
      match ← decryptValue O cp key n L s.encR with
      | none => decryptSlots O cp q key n L rest
      | some r =>
        match ← decryptValue O cp key n L s.encXR with
        | none => decryptSlots O cp q key n L rest
        | some xr =>
          let x := (xr + (cp.order - r)) % cp.order
          let pt ← mulGen O cp x
          if pt == q then pure (.ok x) else decryptSlots O cp q key n L rest

/-- `decrypt(&self, q_point, sk, label)` -/
def decrypt (O : Query → m Bytes) (cp : CurveParams) (p : Proof) (q : Bytes) (key : Bytes) (n : Nat) (label : Bytes) :
    m (Res Nat) := do
  if p.slots.length ≠ p.param then pure (.err .verificationFailed) else
  let L ← labelInt O label
  decryptSlots O cp q key n L p.slots

end

/-! ### wire format (pure) -/

/-- `(v as u16).to_be_bytes()` -/
def be16 (v : Nat) : Bytes := natToBe 2 v

/-- `to_bytes()`; panics on `self.proofs[0]` when there is no slot -/
def toBytes (cp : CurveParams) (p : Proof) : Res Bytes :=
  match p.slots with
  | [] => .panic "proofs[0]: index out of bounds"
  | s0 :: _ =>
    .ok (p.seed ++ be16 p.param ++ be16 s0.gR.length ++ be16 s0.encXR.length ++ be16 cp.scalarLen
          ++ p.slots.flatMap Slot.bytes ++ p.opens.flatMap cp.repr)

/-- read `k` slots from the front of `d` -/
def readSlots (gsz esz : Nat) : Nat → Bytes → Res (List Slot × Bytes)
  | 0, d => .ok ([], d)
  | k+1, d =>
      if d.length < gsz + 2 * esz then .err (.serde "Unexpected end of data while reading proofs") else
      let slot : Slot := { gR := d.take gsz, encXR := (d.drop gsz).take esz, encR := (d.drop (gsz + esz)).take esz }
      match readSlots gsz esz k (d.drop (gsz + 2 * esz)) with
      | .ok (rest, d') => .ok (slot :: rest, d')
      | .err e => .err e
      | .panic w => .panic w

/-- read `k` scalars from the front of `d` -/
def readScalars (cp : CurveParams) : Nat → Bytes → Res (List Nat)
  | 0, _ => .ok []
  | k+1, d =>
      if d.length < cp.scalarLen then .err (.serde "Unexpected end of data while reading scalars") else
      match decodeScalar cp (d.take cp.scalarLen) with
      | none => .err (.serde "Invalid scalar")
      | some s =>
        match readScalars cp k (d.drop cp.scalarLen) with
        | .ok rest => .ok (s :: rest)
        | .err e => .err e
        | .panic w => .panic w

/-- `from_bytes(data)` (with the repair of D7: `security_param > 256` is refused) -/
def fromBytes (cp : CurveParams) (data : Bytes) : Res Proof :=
  if data.length < 32 + 8 then .err (.serde "Input data too short") else
  let seed := data.take 32
  let sp := beToNat ((data.drop 32).take 2)
  let gsz := beToNat ((data.drop 34).take 2)
  let esz := beToNat ((data.drop 36).take 2)
  let ssz := beToNat ((data.drop 38).take 2)
  if ssz ≠ cp.scalarLen then .err (.serde "Inconsistent scalar size") else
  if gsz ≠ cp.pointLen then .err (.serde "Inconsistent g_r size") else
  let proofSize := gsz + 2 * esz
  let remaining := data.length - 40
  let num := remaining / (proofSize + ssz)
  if sp < SECURITY_PARAM then .err (.serde "Security param must at least be 128") else
  if 256 < sp then .err (.serde "Security param must at most be 256") else
  if num ≠ sp then .err (.serde "Inconsistent number of proofs, must be equal to the security parameter") else
  if remaining % (proofSize + ssz) ≠ 0 then .err (.serde "Inconsistent data length") else
  match readSlots gsz esz num (data.drop 40) with
  | .err e => .err e
  | .panic w => .panic w
  | .ok (slots, rest) =>
    match readScalars cp num rest with
    | .err e => .err e
    | .panic w => .panic w
    | .ok opens => .ok { seed, slots, opens, param := sp }

/-! ### the adversarial prover (knows x, controls its randomness) -/

inductive Garbage where
  /-- a byte string that is not a ciphertext: `00 5a 5a …` with a counter in the tail -/
  | raw
  /-- a valid encryption of an unrelated scalar -/
  | wrongValue
  /-- a valid encryption of 32 bytes `ff` (not a canonical scalar) -/
  | nonScalar
deriving DecidableEq, Repr

inductive Strategy where
  /-- honest-looking proof with `slots` slots (any number: 257 reproduces D7) -/
  | plain
  /-- the listed slots carry a garbage ciphertext on one side (side chosen by the tape); the content of the first
      listed slot's garbage is re-drawn (challenge grinding, at most `fuel` attempts) until every garbage side stays
      UNOPENED -/
  | garbage (kind : Garbage) (which : List Nat) (fuel : Nat)
  /-- as `garbage` but without grinding: some garbage side may be opened (then verification must fail) -/
  | garbageNoGrind (kind : Garbage) (which : List Nat)
  /-- the listed slots commit to `(r+1)·G` instead of `r·G` -/
  | wrongCommit (which : List Nat)
  /-- the listed slots open the side the challenge did NOT ask for -/
  | wrongSide (which : List Nat)
  /-- every nonce `r` has (at least) `k` zero bytes at the front of its repr, i.e. its integer encoding — the repr read
      big-endian, on both curves — is `k` bytes short (`k = 32`: every nonce is 0) -/
  | shortR (k : Nat)
  /-- every `x + r` has `k` zero bytes at the front of its repr -/
  | shortXR (k : Nat)
  /-- ADAPTIVE forger against a verifier whose challenge hash omits the commitments `g_r`: it uses only the ENCODING of `Q`
      (never `x`), fixes `enc_r = Enc(a)`, `enc_x_r = Enc(b)` for arbitrary `a, b`, computes the challenge over everything
      except the `g_r`, and only then chooses `g_r = a·G` (bit 0, opens `a`) resp. `g_r = b·G − Q` (bit 1, opens `b`).
      Such a verifier accepts every slot and `b − a` is not the discrete logarithm of `Q`.  The real `verify` (and this
      model) hashes the `g_r`, so the forgery is rejected.
      The other component classes have no adaptive attack of this kind (so there is no strategy for them):
      `enc_x_r` / `enc_r` — the commitment `g_r` and the OTHER ciphertext are still hashed, so whichever side the bit opens
      must have been fixed honestly in advance; leaving the unhashed unopened ciphertext as garbage keeps every slot of the
      other bit value good, the proof stays decryptable (and a byte change there is what the tamper stream reports);
      `label` — the label also keys every ciphertext (`m·L mod n`), and the ciphertexts are hashed;
      `Q` — a slot opened on the `x + r` side forces `Q = s·G − g_r` with `g_r` and `Enc(s)` hashed. -/
  | adaptiveGR
  /- The next four violate exactly ONE conjunct of the per-slot acceptance condition (`SlotOK`: for bit `b`, commitment
      relation of side `b` ∧ re-encryption of the opened scalar = ciphertext of side `b`) in the listed slots; everything
      else is honest, the challenge is computed on the final slots (no grinding), and the real `verify` rejects. -/
  /-- the two ciphertexts of the listed slots exchanged (`Enc(r)` in the `enc_x_r` position, `Enc(x+r)` in the `enc_r`
      position), commitment and opening honest: ONLY the ciphertext conjunct fails.  With all slots swapped every slot
      decrypts to `-x`. -/
  | swapEnc (which : List Nat)
  /-- slot `i` carries both ciphertexts of slot `j`, commitment and opening of slot `i` honest: ONLY the ciphertext conjunct
      fails (the opened scalar re-encrypts to a ciphertext of ANOTHER slot) -/
  | cross (i j : Nat)
  /-- ciphertexts exchanged AND the other side opened in the listed slots: the opened scalar re-encrypts to the ciphertext
      of the side the bit selects, but it satisfies the commitment relation of the side NOT selected: ONLY the commitment
      conjunct fails -/
  | commitOtherSide (which : List Nat)
  /-- the opened scalar of the listed slots replaced by `s + order` (the same group element): its 32-byte encoding, when it
      exists, is not canonical and `from_bytes` refuses it; otherwise the truncated bytes are another scalar -/
  | openPlusOrder (which : List Nat)
deriving DecidableEq, Repr

/-- a scalar whose repr starts with `k ≥ 1` zero bytes (and is canonical): 32 tape bytes, the first `k` forced to 0, and
    for the little-endian curve the top nibble cleared (so the value is below 2^252 < ℓ) -/
def shortScalar (cp : CurveParams) (k : Nat) (t : Tape) : Nat × Tape :=
  let (b, t') := Tape.take t 32
  let b := b ++ List.replicate (32 - b.length) 0
  let b := List.replicate (min k 32) 0 ++ b.drop (min k 32)
  let b := if cp.scalarBE then b else b.set 31 (b.getD 31 0 % 16)
  (cp.reprVal b % cp.order, t')

section
variable {m : Type → Type} [Monad m]

def encOrEmpty (O : Query → m Bytes) (key : Bytes) (n L : Nat) (seed msg : Bytes) : m Bytes := do
  match ← rsaEncryptWithLabel O key n L seed msg with
  | none => pure []
  | some c => pure c

/-- garbage of `len` bytes for attempt `ctr` -/
def garbageCt (O : Query → m Bytes) (cp : CurveParams) (key : Bytes) (n L : Nat) (seed : Bytes) (len : Nat)
    (kind : Garbage) (salt ctr : Nat) : m Bytes :=
  match kind with
  | .raw => pure (0 :: (List.replicate (len - 9) 0x5a ++ natToBe 8 (salt * 65536 + ctr)))
  | .wrongValue => encOrEmpty O key n L seed (cp.repr ((salt * 65536 + ctr + 2) % cp.order))
  | .nonScalar => encOrEmpty O key n L seed
      (List.replicate 16 0xff ++ natToBe 8 (salt * 65536 + ctr) ++ List.replicate (cp.scalarLen - 24) 0xff)

/-- honest-looking slots with per-slot tweaks decided by the strategy -/
def advSlots (O : Query → m Bytes) (cp : CurveParams) (x : Nat) (key : Bytes) (n L : Nat) (seed : Bytes) (st : Strategy) :
    Nat → Nat → Tape → m (List Made × Tape)
  | 0, _, tape => pure ([], tape)
  | k+1, i, tape => do
      let (r, tape) :=
        match st with
        | .shortR k => shortScalar cp k tape
        | .shortXR k => let (t, tp) := shortScalar cp k tape; ((t + (cp.order - x % cp.order)) % cp.order, tp)
        | _ => scalarRandom cp tape
      let rc := match st with
        | .wrongCommit which => if which.contains i then (r + 1) % cp.order else r
        | _ => r
      let gR ← mulGen O cp rc
      let xr := (x + r) % cp.order
      let encR ← encOrEmpty O key n L seed (cp.repr r)
      let encXR ← encOrEmpty O key n L seed (cp.repr xr)
      let (rest, tape) ← advSlots O cp x key n L seed st k (i+1) tape
      pure ({ slot := { gR, encXR, encR }, r, xr } :: rest, tape)

/-- challenge bit with the convention of the probe for slots beyond 255 (the prover just needs SOME opening) -/
def bitOr0 (ch : Bytes) (i : Nat) : Bool := (extractBit ch i).getD false

/-- replace the garbage side of the listed slots; `sides[j]` = the side of `which[j]` (true = `enc_x_r`) -/
def plantGarbage (O : Query → m Bytes) (cp : CurveParams) (key : Bytes) (n L : Nat) (seed : Bytes) (kind : Garbage)
    (made : List Made) (ctr : Nat) : List (Nat × Bool) → m (List Made)
  | [] => pure made
  | (i, side) :: rest => do
      match made[i]? with
      | none => plantGarbage O cp key n L seed kind made ctr rest
      | some md =>
        let len := md.slot.encR.length
        -- only the first listed slot depends on the attempt counter (the recursive call passes 0)
        let g ← garbageCt O cp key n L seed len kind i ctr
        let slot := if side then { md.slot with encXR := g } else { md.slot with encR := g }
        plantGarbage O cp key n L seed kind (made.set i { md with slot }) 0 rest

/-- all garbage sides unopened under challenge `ch`? -/
def garbageUnopened (ch : Bytes) (ws : List (Nat × Bool)) : Bool :=
  ws.all fun (i, side) => bitOr0 ch i != side

/-- grinding loop: returns the slots, the challenge and the number of attempts used (0 = fuel exhausted) -/
def grind (O : Query → m Bytes) (cp : CurveParams) (q label : Bytes) (key : Bytes) (n L : Nat) (seed : Bytes)
    (kind : Garbage) (made : List Made) (ws : List (Nat × Bool)) : Nat → Nat → m (List Made × Bytes × Nat)
  | 0, _ => do
      let ch ← challenge O q label (made.map Made.slot)
      pure (made, ch, 0)
  | fuel+1, ctr => do
      let made' ← plantGarbage O cp key n L seed kind made ctr ws
      let ch ← challenge O q label (made'.map Made.slot)
      if garbageUnopened ch ws then pure (made', ch, ctr + 1)
      else grind O cp q label key n L seed kind made ws fuel (ctr + 1)

/-- the openings the (possibly cheating) prover publishes -/
def advOpens (ch : Bytes) (wrongSide : List Nat) : Nat → List Made → List Nat
  | _, [] => []
  | i, md :: rest =>
      let b := bitOr0 ch i
      let b := if wrongSide.contains i then !b else b
      (if b then md.xr else md.r) :: advOpens ch wrongSide (i+1) rest

/-- exchange `enc_x_r` and `enc_r` in the listed slots -/
def swapCiphertexts (which : List Nat) : Nat → List Made → List Made
  | _, [] => []
  | i, md :: rest =>
      (if which.contains i then { md with slot := { md.slot with encXR := md.slot.encR, encR := md.slot.encXR } } else md)
        :: swapCiphertexts which (i+1) rest

/-- the slots of `Strategy.adaptiveGR` before the commitments are chosen: `(a, b, Enc(b), Enc(a))` -/
def adaptivePairs (O : Query → m Bytes) (cp : CurveParams) (key : Bytes) (n L : Nat) (seed : Bytes) :
    Nat → Tape → m (List (Nat × Nat × Bytes × Bytes) × Tape)
  | 0, tape => pure ([], tape)
  | k+1, tape => do
      let (a, tape) := scalarRandom cp tape
      let (b, tape) := scalarRandom cp tape
      let encR ← encOrEmpty O key n L seed (cp.repr a)
      let encXR ← encOrEmpty O key n L seed (cp.repr b)
      let (rest, tape) ← adaptivePairs O cp key n L seed k tape
      pure ((a, b, encXR, encR) :: rest, tape)

/-- choose the commitments after the (weakened) challenge `ch` is known; `nq` = encoding of `−Q` -/
def adaptiveCommit (O : Query → m Bytes) (cp : CurveParams) (nq ch : Bytes) :
    Nat → List (Nat × Nat × Bytes × Bytes) → m (List Slot × List Nat)
  | _, [] => pure ([], [])
  | i, (a, b, encXR, encR) :: rest => do
      let (slots, opens) ← adaptiveCommit O cp nq ch (i+1) rest
      if bitOr0 ch i then do
        let bG ← mulGen O cp b
        let gR ← O (.ecAdd cp.curve bG nq)
        pure ({ gR, encXR, encR } :: slots, b :: opens)
      else do
        let gR ← mulGen O cp a
        pure ({ gR, encXR, encR } :: slots, a :: opens)

/-- `Strategy.adaptiveGR`: `q` is all the forger knows about the secret -/
def adaptiveGR (O : Query → m Bytes) (cp : CurveParams) (q : Bytes) (key : Bytes) (n : Nat) (label : Bytes)
    (nslots : Nat) (seed : Bytes) (tape : Tape) : m Proof := do
  let L ← labelInt O label
  let nq ← O (.ecNeg cp.curve q)
  let (pairs, _) ← adaptivePairs O cp key n L seed nslots tape
  -- the challenge a verifier computes when it forgets to hash the commitments
  let ch ← O (.sha256 (ascii "Verified-RSA-encryption" ++ q ++ pairs.flatMap (fun p => p.2.2.1 ++ p.2.2.2) ++ label))
  let (slots, opens) ← adaptiveCommit O cp nq ch 0 pairs
  pure { seed, slots, opens, param := nslots }

/-- `advProver`: a forged proof with `nslots` slots and the number of grinding attempts (0 = none / exhausted) -/
def advProver (O : Query → m Bytes) (cp : CurveParams) (x : Nat) (key : Bytes) (n : Nat) (label : Bytes)
    (nslots : Nat) (st : Strategy) (tape : Tape) : m (Proof × Nat) := do
  let (seed, tape) := Tape.take tape 32
  let seed := seed ++ List.replicate (32 - seed.length) 0
  let q ← mulGen O cp x
  if st = .adaptiveGR then do
    -- from here on only the encoding `q` is used, not `x`
    let p ← adaptiveGR O cp q key n label nslots seed tape
    pure (p, 0)
  else
  let L ← labelInt O label
  let (made, tape) ← advSlots O cp x key n L seed st nslots 0 tape
  let sidesOf (which : List Nat) : List (Nat × Bool) :=
    (which.zip (List.range which.length)).map fun (i, j) => (i, tape.getD j 0 % 2 == 1)
  match st with
  | .garbage kind which fuel => do
      let (made, ch, tries) ← grind O cp q label key n L seed kind made (sidesOf which) fuel 0
      pure ({ seed, slots := made.map Made.slot, opens := advOpens ch [] 0 made, param := nslots }, tries)
  | .garbageNoGrind kind which => do
      let made ← plantGarbage O cp key n L seed kind made 0 (sidesOf which)
      let ch ← challenge O q label (made.map Made.slot)
      pure ({ seed, slots := made.map Made.slot, opens := advOpens ch [] 0 made, param := nslots }, 0)
  | .wrongSide which => do
      let ch ← challenge O q label (made.map Made.slot)
      pure ({ seed, slots := made.map Made.slot, opens := advOpens ch which 0 made, param := nslots }, 0)
  | .swapEnc which => do
      let made := swapCiphertexts which 0 made
      let ch ← challenge O q label (made.map Made.slot)
      pure ({ seed, slots := made.map Made.slot, opens := advOpens ch [] 0 made, param := nslots }, 0)
  | .commitOtherSide which => do
      let made := swapCiphertexts which 0 made
      let ch ← challenge O q label (made.map Made.slot)
      pure ({ seed, slots := made.map Made.slot, opens := advOpens ch which 0 made, param := nslots }, 0)
  | .cross i j => do
      let made := match made[i]?, made[j]? with
        | some mi, some mj => made.set i { mi with slot := { mi.slot with encXR := mj.slot.encXR, encR := mj.slot.encR } }
        | _, _ => made
      let ch ← challenge O q label (made.map Made.slot)
      pure ({ seed, slots := made.map Made.slot, opens := advOpens ch [] 0 made, param := nslots }, 0)
  | .openPlusOrder which => do
      let ch ← challenge O q label (made.map Made.slot)
      let opens := (advOpens ch [] 0 made).zipIdx.map fun (s, k) => if which.contains k then s + cp.order else s
      pure ({ seed, slots := made.map Made.slot, opens, param := nslots }, 0)
  | _ => do
      let ch ← challenge O q label (made.map Made.slot)
      pure ({ seed, slots := made.map Made.slot, opens := advOpens ch [] 0 made, param := nslots }, 0)

end

end VerEnc
end SlVerif
