import SlVerif.Model.SoftSpoken
import SlVerif.Model.Endemic
import SlVerif.Model.Pprf
/-
  C01 / C02 model: crates/sl-oblivious/src/rvole.rs (OT-extension variant) and rvole_ot_variant.rs (base-OT variant)
    generate_gadget_vec, RVOLEReceiver::{new, process}, RVOLESender::process, RVOLEOutput / RVOLEMsg1 / RVOLEMsg2.

  Scalars are their canonical representative `< secpQ` (`Scalar::reduce(U256::from_be_bytes(x)) = beToNat x % secpQ`,
  `to_bytes()` = 32 bytes big-endian); scalar arithmetic is `addq / subq / mulq / negq / sumq` below.  The message keeps
  the RAW bytes of every field: the receiver hashes the raw bytes into the theta transcript and only reduces them for the
  arithmetic (`get_a_tilde`), so a non-canonical encoding (value ≥ q) is a different message with the same scalars.

  Structure: oracle batch (gadget vector, OT layer, theta) → PURE core → oracle (mu hash) → PURE core.  Everything from
  the OT outputs `v_0, v_1` (sender) / `v_x` (receiver) onwards is textually the same in the two Rust files and is shared
  here (`senderCore`, `receiverCore`); the variants differ in how the OT outputs are produced:
    extension variant : `SoftSpoken.receiverProcess` / `SoftSpoken.senderProcess` on all-but-one seeds,
    base-OT variant   : two `Endemic` base OTs (256 instances each) under two derived session ids, each key expanded to
                        OT_WIDTH strings with the SoftSpoken "randomize" transcript.
  The receiver's final check is  `mu_hash == mu_prime_hash  &&  every eta[k] is a canonical scalar encoding`
  (`checkOk`; the second conjunct was added to both receivers by the repair of finding D10).
  rng consumption (byte tape) in the order of the Rust:
    RVOLEReceiver::new (ext)   beta = fill_bytes(L_BYTES), then SoftSpoken's padding bytes;
    RVOLESender::process (ext) RHO × Scalar::generate_biased (eta), nothing else;
    base-OT variant            receiver: Endemic receiver a, then b; sender: Endemic sender a, then b, then eta.
-/
namespace SlVerif.Rvole
open SlVerif SlVerif.Generated

variable {m : Type → Type} [Monad m]

/-! ### scalars modulo the group order -/

def addq (a b : Nat) : Nat := (a + b) % secpQ
def subq (a b : Nat) : Nat := (a + (secpQ - b % secpQ)) % secpQ
def mulq (a b : Nat) : Nat := (a * b) % secpQ
def negq (a : Nat) : Nat := (secpQ - a % secpQ) % secpQ
/-- `iter.sum::<Scalar>()` -/
def sumq (l : List Nat) : Nat := l.foldl addq 0

/-- `Scalar::reduce(U256::from_be_bytes(x))` -/
def ofBe (b : Bytes) : Nat := beToNat b % secpQ
/-- `scalar.to_bytes()` -/
def toBe (x : Nat) : Bytes := natToBe KAPPA_BYTES x

/-- an oracle answer read into an `n`-byte buffer -/
def fixLen (n : Nat) (b : Bytes) : Bytes := (b ++ List.replicate n 0).take n

/-- `ExtractBit::extract_bit` -/
def bitAt (bits : Bytes) (i : Nat) : Bool := (bits.getD (i / 8) 0).testBit (i % 8)

/-- `XI = L` -/
abbrev XI : Nat := L

/-- entry `[j][i]` of an `XI × OT_WIDTH` table of byte strings -/
def at3 (v : List (List Bytes)) (j i : Nat) : Bytes := (v.getD j []).getD i []

/-- every entry of an `XI × OT_WIDTH` table of byte strings as a scalar: `Scalar::reduce(U256::from_be_bytes(v[j][i]))`
    (the Rust decodes an entry each time it is used; the model decodes the table once) -/
def decodeTable (v : List (List Bytes)) : List (List Nat) := v.map (·.map ofBe)

/-- entry `[j][i]` of a table of scalars -/
def sAt (t : List (List Nat)) (j i : Nat) : Nat := (t.getD j []).getD i 0

/-! ### gadget vector -/

def gadgetT (sid : Bytes) : Transcript :=
  (Transcript.new (labelBytes RANDOM_VOLE_GADGET_VECTOR_LABEL)).appendMessage (ascii "session-id") sid

/-- `n` more elements of the iterator of `generate_gadget_vec`, the next index being `i`:
    `t.append_u64(b"index", i); t.challenge_bytes(b"next value", &mut [0; KAPPA_BYTES])` on ONE transcript -/
def gadgetLoop (O : Query → m Bytes) : Nat → Nat → Transcript → m (List Nat)
  | 0, _, _ => pure []
  | n+1, i, t => do
      let (b, t') ← challenge O (t.appendU64 (ascii "index") i) (ascii "next value") KAPPA_BYTES
      let rest ← gadgetLoop O n (i+1) t'
      pure (ofBe b :: rest)

/-- `generate_gadget_vec(session_id).collect()` -/
def gadgetVec (O : Query → m Bytes) (sid : Bytes) : m (List Nat) := gadgetLoop O XI 0 (gadgetT sid)

/-- `b = <g, β>`: the fold with `conditional_select(option_0, option_0 + gv, β_i)` -/
def gadgetDot (g : List Nat) (beta : Bytes) : Nat :=
  (List.range XI).foldl (fun acc i => if bitAt beta i then addq acc (g.getD i 0) else acc) 0

/-! ### the round-two message (`RVOLEOutput`; tail of `RVOLEMsg2`) -/

structure Msg2 where
  aTilde : List (List Bytes)     -- XI × L_BATCH_PLUS_RHO × KAPPA_BYTES
  eta : List Bytes               -- RHO × KAPPA_BYTES
  muHash : Bytes                 -- 64
deriving DecidableEq, Repr

def MSG2_BYTES : Nat := XI * L_BATCH_PLUS_RHO * KAPPA_BYTES + RHO * KAPPA_BYTES + 64

/-- `bytemuck::bytes_of(&RVOLEOutput)` -/
def Msg2.serialize (x : Msg2) : Bytes := x.aTilde.flatMap (fun r => r.flatMap id) ++ x.eta.flatMap id ++ x.muHash

/-- `n` consecutive chunks of `w` bytes -/
def chunks (w : Nat) : Nat → Bytes → List Bytes
  | 0, _ => []
  | n+1, bs => bs.take w :: chunks w n (bs.drop w)

/-- `[[[u8; KAPPA_BYTES]; OT_WIDTH]; XI]` from its bytes -/
def parseTable (bs : Bytes) : List (List Bytes) :=
  (chunks (L_BATCH_PLUS_RHO * KAPPA_BYTES) XI bs).map (chunks KAPPA_BYTES L_BATCH_PLUS_RHO)

/-- `bytemuck::from_bytes::<RVOLEOutput>` -/
def Msg2.parse (bs : Bytes) : Msg2 :=
  let na := XI * L_BATCH_PLUS_RHO * KAPPA_BYTES
  { aTilde := parseTable bs
    eta := chunks KAPPA_BYTES RHO (bs.drop na)
    muHash := (bs.drop (na + RHO * KAPPA_BYTES)).take 64 }

/-! ### transcripts (exact labels and framing of the code) -/

/-- `Transcript::new(&RANDOM_VOLE_THETA_LABEL); append_message(b"session-id", sid);
     for j { append_u64(b"row of a tilde", j); for i { append_message(b"", &a_tilde[j][i]) } }` -/
def thetaT (sid : Bytes) (aTilde : List (List Bytes)) : Transcript :=
  { init := labelBytes RANDOM_VOLE_THETA_LABEL
    ops := TOp.msg (ascii "session-id") sid ::
      (List.range XI).flatMap fun j =>
        TOp.u64 (ascii "row of a tilde") j :: (List.range L_BATCH_PLUS_RHO).map fun i => TOp.msg [] (at3 aTilde j i) }

/-- the `(k, i)` of the theta loop nest, in order -/
def thetaIdx : List (Nat × Nat) := (List.range RHO).flatMap fun k => (List.range L_BATCH).map fun i => (k, i)

/-- `append_u64(b"theta k", k); append_u64(b"theta i", i); challenge_bytes(b"theta", [0; 32])`, all on ONE transcript -/
def thetaLoop (O : Query → m Bytes) : List (Nat × Nat) → Transcript → m (List Nat)
  | [], _ => pure []
  | (k, i) :: rest, t => do
      let (d, t') ← challenge O ((t.appendU64 (ascii "theta k") k).appendU64 (ascii "theta i") i) (ascii "theta") KAPPA_BYTES
      let r ← thetaLoop O rest t'
      pure (ofBe d :: r)

/-- `theta[k][i]`, flattened (`k * L_BATCH + i`) -/
def thetaAll (O : Query → m Bytes) (sid : Bytes) (aTilde : List (List Bytes)) : m (List Nat) :=
  thetaLoop O thetaIdx (thetaT sid aTilde)

def th (theta : List Nat) (k i : Nat) : Nat := theta.getD (k * L_BATCH + i) 0

/-- `Transcript::new(&RANDOM_VOLE_MU_LABEL); append_message(b"session-id", sid);
     for j, k { append_message(b"chosen", &v.to_bytes()) }` -/
def muT (sid : Bytes) (vals : List Nat) : Transcript :=
  { init := labelBytes RANDOM_VOLE_MU_LABEL
    ops := TOp.msg (ascii "session-id") sid :: vals.map fun v => TOp.msg (ascii "chosen") (toBe v) }

/-- `t.challenge_bytes(b"mu-hash", &mut [0; 64])` -/
def muHashOf (O : Query → m Bytes) (sid : Bytes) (vals : List Nat) : m Bytes := do
  let (d, _) ← challenge O (muT sid vals) (ascii "mu-hash") 64
  pure (fixLen 64 d)

/-- the `(j, k)` of the mu loop nest, in order -/
def muIdx : List (Nat × Nat) := (List.range XI).flatMap fun j => (List.range RHO).map fun k => (j, k)

/-! ### PURE cores -/

/-- `let mut v = init; for i in 0..L_BATCH { v += theta[i] * x[i] }` -/
def linComb (init : Nat) (theta x : Nat → Nat) : Nat :=
  (List.range L_BATCH).foldl (fun v i => addq v (mulq (theta i) (x i))) init

/-- sender: `c[i] = -Σ_j g_j · α0[j][i]` -/
def senderC (g : List Nat) (A0 : List (List Nat)) : List Nat :=
  (List.range L_BATCH).map fun i => negq (sumq ((List.range XI).map fun j => mulq (g.getD j 0) (sAt A0 j i)))

/-- sender: row j of `a_tilde` as scalars: `α0 − α1 + a_i` in the batch columns, `α0 − α1 + eta_k` in the check columns -/
def aTildeRow (A0 A1 : List (List Nat)) (a eta0 : List Nat) (j : Nat) : List Nat :=
  ((List.range L_BATCH).map fun i => addq (subq (sAt A0 j i) (sAt A1 j i)) (a.getD i 0)) ++
  ((List.range RHO).map fun k => addq (subq (sAt A0 j (L_BATCH + k)) (sAt A1 j (L_BATCH + k))) (eta0.getD k 0))

/-- sender: `eta[k] += Σ_i theta[k][i] · a_i` -/
def etaFinal (theta a eta0 : List Nat) : List Nat :=
  (List.range RHO).map fun k =>
    addq (eta0.getD k 0) (sumq ((List.range L_BATCH).map fun i => mulq (th theta k i) (a.getD i 0)))

/-- sender: the values hashed into mu: `α0[j][L_BATCH+k] + Σ_i theta[k][i] · α0[j][i]` -/
def muSender (theta : List Nat) (A0 : List (List Nat)) : List Nat :=
  muIdx.map fun (j, k) => linComb (sAt A0 j (L_BATCH + k)) (th theta k) (sAt A0 j)

/-- receiver: `conditional_select(v_x[j][i], v_x[j][i] + a_tilde[j][i], β_j)` (`d_dot` for i < L_BATCH, `d_hat` beyond) -/
def dSel (beta : Bytes) (VX AT : List (List Nat)) (j i : Nat) : Nat :=
  if bitAt beta j then addq (sAt VX j i) (sAt AT j i) else sAt VX j i

/-- receiver: the values hashed into mu':
    `conditional_select(v, v − eta[k], β_j)` with `v = d_hat[j][k] + Σ_i theta[k][i] · d_dot[j][i]` -/
def muReceiver (theta : List Nat) (beta : Bytes) (VX AT : List (List Nat)) (eta : List Nat) : List Nat :=
  muIdx.map fun (j, k) =>
    let v := linComb (dSel beta VX AT j (L_BATCH + k)) (th theta k) (dSel beta VX AT j)
    if bitAt beta j then subq v (eta.getD k 0) else v

/-- receiver: `d[i] = Σ_j g_j · d_dot[j][i]` -/
def receiverD (g : List Nat) (beta : Bytes) (VX AT : List (List Nat)) : List Nat :=
  (List.range L_BATCH).map fun i =>
    (List.range XI).foldl (fun acc j => addq acc (mulq (g.getD j 0) (dSel beta VX AT j i))) 0

/-- `RHO` successive `Scalar::generate_biased(rng)` -/
def drawEta : Nat → Tape → List Nat × Tape
  | 0, t => ([], t)
  | n+1, t =>
      let (x, t') := Tape.scalarBiased t
      let (xs, t'') := drawEta n t'
      (x :: xs, t'')

/-! ### the part shared by both variants -/

/-- `RVOLESender::process` from `let c = …` on: `(c, output, rest of the tape)` -/
def senderCore (O : Query → m Bytes) (sid : Bytes) (g : List Nat) (v0 v1 : List (List Bytes)) (a : List Nat)
    (tape : Tape) : m (List Nat × Msg2 × Tape) := do
  let A0 := decodeTable v0
  let A1 := decodeTable v1
  let c := senderC g A0
  let (eta0, tape') := drawEta RHO tape
  let aTilde := (List.range XI).map fun j => (aTildeRow A0 A1 a eta0 j).map toBe
  let theta ← thetaAll O sid aTilde
  let eta := etaFinal theta a eta0
  let muHash ← muHashOf O sid (muSender theta A0)
  pure (c, { aTilde, eta := eta.map toBe, muHash }, tape')

def checkFailed : String := "Consistency check failed"

/-- the receiver's check value: the digest of mu' (`VX` = the decoded `v_x`) -/
def receiverMu (O : Query → m Bytes) (sid beta : Bytes) (VX : List (List Nat)) (msg : Msg2) : m Bytes := do
  let theta ← thetaAll O sid msg.aTilde
  muHashOf O sid (muReceiver theta beta VX (decodeTable msg.aTilde) (msg.eta.map ofBe))

/-- `eta_is_canonical`: every `eta[k]` is the canonical encoding of a scalar (`Scalar::from_repr(eta[k]).is_some()`, i.e.
    the big-endian value is below the group order) -/
def etaCanonical (eta : List Bytes) : Bool := eta.all fun e => decide (beToNat e < secpQ)

/-- the receiver's final check: NOT (`mu_hash.ct_ne(&mu_prime_hash) | !eta_is_canonical`) -/
def checkOk (msg : Msg2) (muHash' : Bytes) : Bool := decide (msg.muHash = muHash') && etaCanonical msg.eta

/-- `RVOLEReceiver::process` from the theta transcript on (the gadget vector is only generated after the check) -/
def receiverCore (O : Query → m Bytes) (sid beta : Bytes) (vx : List (List Bytes)) (msg : Msg2) :
    m (Except String (List Nat)) := do
  let VX := decodeTable vx
  let muHash' ← receiverMu O sid beta VX msg
  if checkOk msg muHash' = false then pure (.error checkFailed) else do
    let g ← gadgetVec O sid
    pure (.ok (receiverD g beta VX (decodeTable msg.aTilde)))

/-! ### OT-extension variant (rvole.rs) -/

/-- `RVOLEReceiver` (`receiver_extended_output.choices` is a copy of `beta`) -/
structure RecvState where
  sid : Bytes
  beta : Bytes
  vx : List (List Bytes)
deriving DecidableEq, Repr

/-- `RVOLEReceiver::new(session_id, seed_ot_results, &mut Round1Output::default(), rng)`:
    `(state, round-one message, b, rest of the tape)` -/
def receiverNew (O : Query → m Bytes) (sid : Bytes) (encKeys : List (List Bytes)) (tape : Tape) :
    m (RecvState × SoftSpoken.Round1Output × Nat × Tape) := do
  let (beta, tape) := Tape.take tape L_BYTES
  let g ← gadgetVec O sid
  let b := gadgetDot g beta
  let (r1, ext, tape) ← SoftSpoken.receiverProcess O sid encKeys beta tape
  pure ({ sid, beta, vx := ext.v_x }, r1, b, tape)

/-- `RVOLEReceiver::process(&self, &rvole_output)` -/
def receiverProcess (O : Query → m Bytes) (st : RecvState) (msg : Msg2) : m (Except String (List Nat)) :=
  receiverCore O st.sid st.beta st.vx msg

/-- `RVOLESender::process(session_id, seed_ot_results, a, round1_output, &mut output, rng)`;
    on `Err` neither the output buffer nor the rng has been touched -/
def senderProcess (O : Query → m Bytes) (sid : Bytes) (rc : List Nat) (decKeys : List (List Bytes)) (a : List Nat)
    (r1 : SoftSpoken.Round1Output) (tape : Tape) : m (Except SoftSpoken.SsError (List Nat × Msg2 × Tape)) := do
  match ← SoftSpoken.senderProcess O sid rc decKeys r1 with
  | .error e => pure (.error e)
  | .ok so => do
      let g ← gadgetVec O sid
      let r ← senderCore O sid g so.v_0 so.v_1 a tape
      pure (.ok r)

/-! ### base-OT variant (rvole_ot_variant.rs) -/

/-- `Transcript::new(&RANDOM_VOLE_BASE_OT); append_message(b"session-id", sid);
     challenge_bytes(b"session-id-a", [0; 32]); challenge_bytes(b"session-id-b", [0; 32])` -/
def otSids (O : Query → m Bytes) (sid : Bytes) : m (Bytes × Bytes) := do
  let t := (Transcript.new (labelBytes RANDOM_VOLE_BASE_OT)).appendMessage (ascii "session-id") sid
  let (a, t) ← challenge O t (ascii "session-id-a") 32
  let (b, _) ← challenge O t (ascii "session-id-b") 32
  pure (fixLen 32 a, fixLen 32 b)

/-- `Transcript::new(&SOFT_SPOKEN_LABEL); append_message(b"session-id", sid); append_u64(b"index", j);
     append_message(&SOFT_SPOKEN_RANDOMIZE_LABEL, key)` -/
def otRandT (sid : Bytes) (j : Nat) (key : Bytes) : Transcript :=
  (((Transcript.new SoftSpoken.ssLabel).appendMessage (ascii "session-id") sid).appendU64 (ascii "index") j).appendMessage
    (labelBytes SOFT_SPOKEN_RANDOMIZE_LABEL) key

/-- `for k in &mut v[j] { t.challenge_bytes(b"", k) }` for every `j`: row j from `keys[j]` -/
def otExpand (O : Query → m Bytes) (sid : Bytes) (keys : List Bytes) : m (List (List Bytes)) :=
  SoftSpoken.tabulateM keys.length fun j =>
    SoftSpoken.challenges O [] KAPPA_BYTES OT_WIDTH (otRandT sid j (keys.getD j []))

/-- `RVOLEMsg1` -/
structure Msg1 where
  a : List (Bytes × Bytes)
  b : List (Bytes × Bytes)
deriving Repr

/-- `RVOLEMsg2` -/
structure Msg2Ot where
  otA : List (Bytes × Bytes)
  otB : List (Bytes × Bytes)
  core : Msg2
deriving Repr

def OT_MSG_BYTES : Nat := LAMBDA_C * 66
def MSG2OT_BYTES : Nat := 2 * OT_MSG_BYTES + MSG2_BYTES

def Msg1.serialize (x : Msg1) : Bytes := Endemic.msgBytes x.a ++ Endemic.msgBytes x.b
def Msg1.parse (bs : Bytes) : Msg1 :=
  { a := Endemic.msgOfBytes (bs.take OT_MSG_BYTES), b := Endemic.msgOfBytes ((bs.drop OT_MSG_BYTES).take OT_MSG_BYTES) }
def Msg2Ot.serialize (x : Msg2Ot) : Bytes := Endemic.msgBytes x.otA ++ Endemic.msgBytes x.otB ++ x.core.serialize
def Msg2Ot.parse (bs : Bytes) : Msg2Ot :=
  { otA := Endemic.msgOfBytes (bs.take OT_MSG_BYTES)
    otB := Endemic.msgOfBytes ((bs.drop OT_MSG_BYTES).take OT_MSG_BYTES)
    core := Msg2.parse (bs.drop (2 * OT_MSG_BYTES)) }

/-- `RVOLEReceiver` of the variant together with the two boxed `EndemicOTReceiver`s -/
structure OtRecvState where
  sid : Bytes
  beta : Bytes
  stA : Endemic.RecvState
  stB : Endemic.RecvState
deriving Repr

/-- `RVOLEReceiver::new(session_id, &mut RVOLEMsg1::default(), rng)`: `(state, message 1, b, rest of the tape)` -/
def receiverNewOt (O : Query → m Bytes) (sid : Bytes) (tape : Tape) : m (OtRecvState × Msg1 × Nat × Tape) := do
  let sids ← otSids O sid
  -- results are taken apart with projections (`(state, message 1, rest of the tape)`), which keeps the definition
  -- transparent to the proofs at `m := Id`
  let ra ← Endemic.recvNew O sids.1 tape
  let rb ← Endemic.recvNew O sids.2 ra.2.2
  let beta := ra.1.choiceBits ++ rb.1.choiceBits
  let g ← gadgetVec O sid
  pure ({ sid, beta, stA := ra.1, stB := rb.1 }, { a := ra.2.1, b := rb.2.1 }, gadgetDot g beta, rb.2.2)

def decodeError : String := "Decode error"
def baseOtError : String := "Base OT error"

/-- the receiver's `v_x`: `none` = one of the two `EndemicOTReceiver::process` returned `Err("Decode error")` -/
def receiverVxOt (O : Query → m Bytes) (st : OtRecvState) (otA otB : List (Bytes × Bytes)) :
    m (Option (List (List Bytes))) := do
  match ← Endemic.recvProcess O st.stA otA with
  | none => pure none
  | some ka =>
      match ← Endemic.recvProcess O st.stB otB with
      | none => pure none
      | some kb =>
          let vx ← otExpand O st.sid (ka ++ kb)
          pure (some vx)

/-- `RVOLEReceiver::process(&self, &rvole_output_2, receiver_a, receiver_b)` -/
def receiverProcessOt (O : Query → m Bytes) (st : OtRecvState) (msg : Msg2Ot) : m (Except String (List Nat)) := do
  match ← receiverVxOt O st msg.otA msg.otB with
  | none => pure (.error decodeError)
  | some vx => receiverCore O st.sid st.beta vx msg.core

/-- result of the variant's sender: on `Err` the base-OT messages written so far stay in the output buffer -/
structure SendOtResult where
  err : Option String
  c : List Nat
  msg : Msg2Ot
  tape : Tape
deriving Repr

def zeroMsg2 : Msg2 :=
  { aTilde := List.replicate XI (List.replicate L_BATCH_PLUS_RHO (List.replicate KAPPA_BYTES 0))
    eta := List.replicate RHO (List.replicate KAPPA_BYTES 0), muHash := List.replicate 64 0 }
def zeroOtMsg : List (Bytes × Bytes) := List.replicate LAMBDA_C (Endemic.identity33, Endemic.identity33)

/-- the sender's OT layer: `(v_0, v_1)` from the keys of the two base OTs -/
def senderVOt (O : Query → m Bytes) (sid : Bytes) (keys : List (Bytes × Bytes)) :
    m (List (List Bytes) × List (List Bytes)) := do
  -- per j the Rust expands rho_0 then rho_1; the oracle is a function, so the order between rows is immaterial
  let v0 ← otExpand O sid (keys.map (·.1))
  let v1 ← otExpand O sid (keys.map (·.2))
  pure (v0, v1)

/-- `RVOLESender::process(session_id, a, &rvole_output_1, &mut RVOLEMsg2::default(), rng)` -/
def senderProcessOt (O : Query → m Bytes) (sid : Bytes) (a : List Nat) (msg1 : Msg1) (tape : Tape) : m SendOtResult := do
  let sids ← otSids O sid
  let ra ← Endemic.sendProcess O sids.1 msg1.a tape
  if ra.1.err then
    pure { err := some baseOtError, c := [], msg := { otA := ra.1.msg2, otB := zeroOtMsg, core := zeroMsg2 }, tape := ra.2 }
  else do
    let rb ← Endemic.sendProcess O sids.2 msg1.b ra.2
    if rb.1.err then
      pure { err := some baseOtError, c := [], msg := { otA := ra.1.msg2, otB := rb.1.msg2, core := zeroMsg2 }, tape := rb.2 }
    else do
      let v ← senderVOt O sid (ra.1.keys ++ rb.1.keys)
      let g ← gadgetVec O sid
      let r ← senderCore O sid g v.1 v.2 a rb.2
      pure { err := none, c := r.1, msg := { otA := ra.1.msg2, otB := rb.1.msg2, core := r.2.1 }, tape := r.2.2 }

/-! ### C02: the calibrated adversarial sender -/

/-- one deviation: at gadget position `j` the sender uses the input vector `a'` instead of `a`, under the guess `guess`
    of the receiver's choice bit `β_j` -/
structure Dev where
  j : Nat
  a' : List Nat
  guess : Bool
deriving DecidableEq, Repr

def devAt (devs : List Dev) (j : Nat) : Option Dev := devs.find? (·.j == j)

/-- the input vector used in row `j` -/
def devInput (devs : List Dev) (a : List Nat) (j : Nat) : List Nat :=
  match devAt devs j with
  | some d => d.a'
  | none => a

/-- `Σ_i theta[k][i] · (a'_i − a_i)`: what the deviation in row `j` adds to the receiver's `mu'_{j,k}` when `β_j = 1` -/
def devShift (theta a a' : List Nat) (k : Nat) : Nat :=
  sumq ((List.range L_BATCH).map fun i => mulq (th theta k i) (subq (a'.getD i 0) (a.getD i 0)))

/-- A sender that runs the honest protocol except that in the rows `j` of `devs` it masks the input `a'_j` instead of
    `a` (eprint 2023/765 §5.2: inconsistent inputs across the ξ OT instances), and then re-derives everything that
    depends on it so that the message is self-consistent under its guesses:
      a_tilde[j][i] = α0 − α1 + a'_{j,i}                 (rows of `devs`; all other rows and the check column honest)
      theta         = H(a_tilde)                         re-derived from the deviating rows
      eta           = eta0 + Σ_i theta_i · a_i           as for the honest input
      mu_{j,k}      = α0[j][L_BATCH+k] + Σ_i theta[k][i]·α0[j][i]  +  (guess_j ? Σ_i theta[k][i]·(a'_{j,i} − a_i) : 0)
    The receiver computes mu'_{j,k} = (honest value) + β_j · Σ_i theta[k][i]·(a'_{j,i} − a_i): the digests agree iff
    β_j = guess_j in every deviating row (up to theta·(a'_j − a) = 0 and collisions of the mu hash). -/
def advCore (O : Query → m Bytes) (sid : Bytes) (g : List Nat) (v0 v1 : List (List Bytes)) (a : List Nat) (tape : Tape)
    (devs : List Dev) : m (List Nat × Msg2 × Tape) := do
  let A0 := decodeTable v0
  let A1 := decodeTable v1
  let c := senderC g A0
  let (eta0, tape') := drawEta RHO tape
  let aTilde := (List.range XI).map fun j => (aTildeRow A0 A1 (devInput devs a j) eta0 j).map toBe
  let theta ← thetaAll O sid aTilde
  let eta := etaFinal theta a eta0
  let mu := muIdx.map fun (j, k) =>
    let v := linComb (sAt A0 j (L_BATCH + k)) (th theta k) (sAt A0 j)
    match devAt devs j with
    | some d => if d.guess then addq v (devShift theta a d.a' k) else v
    | none => v
  let muHash ← muHashOf O sid mu
  pure (c, { aTilde, eta := eta.map toBe, muHash }, tape')

/-- the adversarial sender of the extension variant (`none`: the honest OT-extension layer rejected round one) -/
def advSender (O : Query → m Bytes) (sid : Bytes) (rc : List Nat) (decKeys : List (List Bytes)) (a : List Nat)
    (r1 : SoftSpoken.Round1Output) (tape : Tape) (devs : List Dev) : m (Option (List Nat × Msg2 × Tape)) := do
  match ← SoftSpoken.senderProcess O sid rc decKeys r1 with
  | .error _ => pure none
  | .ok so => do
      let g ← gadgetVec O sid
      let r ← advCore O sid g so.v_0 so.v_1 a tape devs
      pure (some r)

/-- the adversarial sender of the base-OT variant (honest base OTs; `none`: message 1 did not decode) -/
def advSenderOt (O : Query → m Bytes) (sid : Bytes) (a : List Nat) (msg1 : Msg1) (tape : Tape) (devs : List Dev) :
    m (Option (List Nat × Msg2Ot × Tape)) := do
  let sids ← otSids O sid
  let ra ← Endemic.sendProcess O sids.1 msg1.a tape
  let rb ← Endemic.sendProcess O sids.2 msg1.b ra.2
  if ra.1.err || rb.1.err then pure none else do
    let v ← senderVOt O sid (ra.1.keys ++ rb.1.keys)
    let g ← gadgetVec O sid
    let r ← advCore O sid g v.1 v.2 a rb.2 devs
    pure (some (r.1, { otA := ra.1.msg2, otB := rb.1.msg2, core := r.2.1 }, r.2.2))

/-! ### C02: tampering in transit, on the serialised message -/

/-- flip bit `pos` (byte `pos / 8`, bit `pos % 8`) -/
def flipBit (bs : Bytes) (pos : Nat) : Bytes := bs.modify (pos / 8) (· ^^^ (1 <<< (pos % 8)))

/-- overwrite the bytes from offset `off` with `data` (clipped to the message) -/
def overwrite (bs : Bytes) (off : Nat) (data : Bytes) : Bytes :=
  bs.take off ++ (data.take (bs.length - off)) ++ bs.drop (off + data.length)

/-- exchange the `len`-byte fields at offsets `o1` and `o2` -/
def swapFields (bs : Bytes) (o1 o2 len : Nat) : Bytes :=
  overwrite (overwrite bs o1 ((bs.drop o2).take len)) o2 ((bs.drop o1).take len)

/-- the `len` bytes at `off` taken from another message (another session / run / input) -/
def splice (bs other : Bytes) (off len : Nat) : Bytes := overwrite bs off ((other.drop off).take len)

def tamperBit (x : Msg2) (pos : Nat) : Msg2 := Msg2.parse (flipBit x.serialize pos)
def tamperSet (x : Msg2) (off : Nat) (data : Bytes) : Msg2 := Msg2.parse (overwrite x.serialize off data)
def tamperSwap (x : Msg2) (o1 o2 len : Nat) : Msg2 := Msg2.parse (swapFields x.serialize o1 o2 len)
def tamperSplice (x other : Msg2) (off len : Nat) : Msg2 := Msg2.parse (splice x.serialize other.serialize off len)

/-- the same flip computed on the parsed message (used by the batched verdict op of the driver; agrees with `tamperBit` on
    well-formed messages, and the harness flips the real bytes independently) -/
def tamperBitFast (x : Msg2) (pos : Nat) : Msg2 :=
  let ab := 8 * (XI * L_BATCH_PLUS_RHO * KAPPA_BYTES)
  if pos < ab then
    let e := pos / (8 * KAPPA_BYTES)
    { x with aTilde := x.aTilde.modify (e / L_BATCH_PLUS_RHO) fun r =>
        r.modify (e % L_BATCH_PLUS_RHO) fun bs => flipBit bs (pos % (8 * KAPPA_BYTES)) }
  else
    let tail := flipBit (x.eta.flatMap id ++ x.muHash) (pos - ab)
    { x with eta := chunks KAPPA_BYTES RHO tail, muHash := (tail.drop (RHO * KAPPA_BYTES)).take 64 }

def tamperBitOt (x : Msg2Ot) (pos : Nat) : Msg2Ot := Msg2Ot.parse (flipBit x.serialize pos)

/-! ### C01: the real seed pipeline (base OT → all-but-one PPRF), as composed by `keygen` and by the harness -/

/-- Endemic base OT under `sid`, then `build_pprf` / `eval_pprf` under the same `sid`:
    `(SenderOTSeed.otp_enc_keys, ReceiverOTSeed.random_choices, ReceiverOTSeed.otp_dec_keys)`;
    `none` when one of the steps returns `Err` -/
def pipelineSeeds (O : Query → m Bytes) (sid : Bytes) (tapeR tapeS : Tape) :
    m (Option (List (List Bytes) × List Nat × List (List Bytes))) := do
  let (st, msg1, _) ← Endemic.recvNew O sid tapeR
  let (sr, _) ← Endemic.sendProcess O sid msg1 tapeS
  if sr.err then pure none else
  match ← Endemic.recvProcess O st sr.msg2 with
  | none => pure none
  | some dks => do
      let (enc, out) ← Pprf.buildPprf O sid sr.keys
      match ← Pprf.evalPprf O sid st.choiceBits dks out with
      | .error _ => pure none
      | .ok rs => pure (some (enc, rs.map (·.1), rs.map (·.2)))

end SlVerif.Rvole
