import SlVerif.Model.Basic
import SlVerif.Model.Field
/-
  External primitives as an oracle (DESIGN §2.2).  Everything sl-crypto delegates to another crate and that no
  property is about — merlin/STROBE transcripts, secp256k1 / edwards25519 group arithmetic and point encodings,
  SHA-2, HMAC, RIPEMD-160, RSA — is one constructor of `Query`.  Models are written against an abstract
  `O : Query → m Bytes`:
    * proofs take `m := Id` and an arbitrary pure `h : Query → Bytes` (so theorems hold for EVERY behaviour of the
      primitives, or under hypotheses on `h` that are written out);
    * the driver takes `m := IO` and forwards each query to the Rust harness, which answers with the very
      libraries sl-crypto links.
  "Which parts of the code are modelled rather than verified" is therefore exactly this type.
-/
namespace SlVerif

/-- one operation on a merlin transcript -/
inductive TOp where
  | msg (label data : Bytes)            -- append_message(label, data)
  | u64 (label : Bytes) (v : Nat)       -- append_u64(label, v)
  | chal (label : Bytes) (n : Nat)      -- challenge_bytes(label, &mut [0; n])
deriving DecidableEq, Repr

/-- a merlin transcript = `Transcript::new(init)` followed by its operations, oldest first -/
structure Transcript where
  init : Bytes
  ops : List TOp := []
deriving DecidableEq, Repr

namespace Transcript
def new (label : Bytes) : Transcript := { init := label }
def appendMessage (t : Transcript) (label data : Bytes) : Transcript := { t with ops := t.ops ++ [.msg label data] }
def appendU64 (t : Transcript) (label : Bytes) (v : Nat) : Transcript := { t with ops := t.ops ++ [.u64 label v] }
end Transcript

/-- curves the group queries can refer to -/
inductive Curve where
  | secp256k1 | ed25519
deriving DecidableEq, Repr

inductive Query where
  /-- the bytes produced by the LAST operation of the transcript, which must be a `chal` -/
  | merlin (t : Transcript)
  /-- group operations on canonical point encodings (secp256k1: 33-byte compressed SEC1, identity = 33 zero bytes;
      ed25519: 32-byte compressed Edwards y); scalars are integers already reduced by the caller -/
  | ecMulGen (c : Curve) (k : Nat)
  | ecMul (c : Curve) (p : Bytes) (k : Nat)
  | ecAdd (c : Curve) (p q : Bytes)
  | ecNeg (c : Curve) (p : Bytes)
  /-- `[1]` if the bytes decode to a point (`GroupEncoding::from_bytes`), `[0]` otherwise -/
  | ecValid (c : Curve) (p : Bytes)
  | sha256 (data : Bytes)
  | hmacSha512 (key data : Bytes)
  | ripemd160 (data : Bytes)
  /-- RSA PKCS#1 v1.5 encryption with the padding bytes drawn from ChaCha20Rng::from_seed(seed); key = DER public key -/
  | rsaEnc (key seed msg : Bytes)
  /-- RSA PKCS#1 v1.5 decryption; answer = `1 :: plaintext` or `[0]` on failure; key = DER private key -/
  | rsaDec (key ct : Bytes)
  /-- size in bytes of the RSA modulus of a DER public key (2 bytes big-endian) -/
  | rsaSize (key : Bytes)
deriving DecidableEq, Repr

/-- ASCII label -/
def ascii (s : String) : Bytes := s.toList.map Char.toNat

/-- 8-byte big-endian domain label (label.rs) -/
def labelBytes (v : Nat) : Bytes := natToBe 8 v

namespace Query

def curveStr : Curve → String
  | .secp256k1 => "k" | .ed25519 => "e"

def topStr : TOp → String
  | .msg l d => s!"m:{bytesToHexW l}:{bytesToHexW d}"
  | .u64 l v => s!"u:{bytesToHexW l}:{v}"
  | .chal l n => s!"c:{bytesToHexW l}:{n}"

/-- wire form of a query (one line, no leading `?`) -/
def toLine : Query → String
  | .merlin t => s!"merlin {bytesToHexW t.init} {String.intercalate ";" (t.ops.map topStr)}"
  | .ecMulGen c k => s!"ecmulgen {curveStr c} {natHex k}"
  | .ecMul c p k => s!"ecmul {curveStr c} {bytesToHexW p} {natHex k}"
  | .ecAdd c p q => s!"ecadd {curveStr c} {bytesToHexW p} {bytesToHexW q}"
  | .ecNeg c p => s!"ecneg {curveStr c} {bytesToHexW p}"
  | .ecValid c p => s!"ecvalid {curveStr c} {bytesToHexW p}"
  | .sha256 d => s!"sha256 {bytesToHexW d}"
  | .hmacSha512 k d => s!"hmacsha512 {bytesToHexW k} {bytesToHexW d}"
  | .ripemd160 d => s!"ripemd160 {bytesToHexW d}"
  | .rsaEnc k s m => s!"rsaenc {bytesToHexW k} {bytesToHexW s} {bytesToHexW m}"
  | .rsaDec k c => s!"rsadec {bytesToHexW k} {bytesToHexW c}"
  | .rsaSize k => s!"rsasize {bytesToHexW k}"

end Query

/-- challenge on a transcript: returns the bytes and the transcript extended by the challenge operation
    (merlin's challenge also mutates the transcript state) -/
def challenge {m : Type → Type} [Monad m] (O : Query → m Bytes) (t : Transcript) (label : Bytes) (n : Nat) :
    m (Bytes × Transcript) := do
  let t' : Transcript := { t with ops := t.ops ++ [.chal label n] }
  let out ← O (.merlin t')
  pure (out, t')

/-- the byte tape of a `TapeRng`: `fill_bytes(n)` = next n bytes; `next_u32` = next 4 bytes LE -/
abbrev Tape := Bytes

def Tape.take (t : Tape) (n : Nat) : Bytes × Tape := (List.take n t, List.drop n t)

/-- `rng.gen::<[u8; n]>()` of rand 0.8: one `next_u32()` per byte, truncated to its low byte -/
def Tape.genArray (t : Tape) (n : Nat) : Bytes × Tape :=
  let raw := List.take (4*n) t
  ((List.range n).map (fun i => raw.getD (4*i) 0), List.drop (4*n) t)

/-- `Scalar::random(rng)` of k256 (rejection sampling of 32 big-endian bytes below q); `fuel` bounds the retries -/
def Tape.scalarRandom : Nat → Tape → Nat × Tape
  | 0, t => (0, t)
  | fuel+1, t =>
      let (b, t') := Tape.take t 32
      let v := beToNat b
      if v < secpQ then (v, t') else Tape.scalarRandom fuel t'

/-- `Scalar::generate_biased(rng)` of k256: 64 bytes, big-endian, reduced mod q -/
def Tape.scalarBiased (t : Tape) : Nat × Tape :=
  let (b, t') := Tape.take t 64
  (beToNat b % secpQ, t')

end SlVerif
