import SlVerif.Model.Oracle
import SlVerif.Generated.Params
/-
  C05 model: crates/sl-oblivious/src/endemic_ot.rs
    h_function (hash-to-curve by rejection on ONE transcript), h_function_2, decode_point / encode_point,
    EndemicOTReceiver::new, EndemicOTSender::process, EndemicOTReceiver::process.
  Points are their 33-byte GroupEncoding (identity = 33 zero bytes); group arithmetic, point validity and merlin are
  oracle queries.  Random draws are taken from the byte tape in exactly the order of the Rust:
    receiver: packed_choice_bits = rng.gen::<[u8;32]>()  (struct fields are evaluated in source order),
              then 256 × Scalar::random (t_a_list, array::from_fn in index order),
              then per instance ONE Scalar::random for `ProjectivePoint::random` (k256: GENERATOR * Scalar::random(rng));
              h_function draws nothing, so the 256 `r_other` scalars are consecutive on the tape.
    sender:   per instance t_b_0 then t_b_1 (two Scalar::random), nothing else.
  `decode_point` accepts, besides tags 02/03, the all-zero encoding (identity) and the SEC1 "compact" tag 05
  (decoded as the even-y point): accepted encodings are therefore NOT canonical, and the model re-encodes a decoded
  point (`ecMul p 1`) before it is hashed into a transcript, as `pk.to_affine().to_bytes()` does.
-/
namespace SlVerif.Endemic
open SlVerif

variable {m : Type → Type} [Monad m]

/-- sequential monadic map, left to right (`array::from_fn` / `iter_mut().enumerate().for_each`) -/
def mapSeq {α β : Type} (f : α → m β) : List α → m (List β)
  | [] => pure []
  | a :: as => do
      let b ← f a
      let bs ← mapSeq f as
      pure (b :: bs)

abbrev K1 : Curve := .secp256k1

def identity33 : Bytes := List.replicate 33 0

/-- `(v as u16).to_be_bytes()` -/
def u16be (v : Nat) : Bytes := natToBe 2 (v % 65536)

/-- `ExtractBit::extract_bit` (little-endian bit order inside each byte), as 0/1 -/
def extractBit (bits : Bytes) (idx : Nat) : Nat := (bits.getD (idx / 8) 0 >>> (idx % 8)) % 2

/-- fuel of the hash-to-curve loop (each round succeeds with probability ~1/2; the Rust loops for ever) -/
def hFuel : Nat := 64

/-- transcript of `h_function` before the first challenge -/
def hTranscript (roIndex batchIndex : Nat) (sid pk : Bytes) : Transcript :=
  ((((Transcript.new (labelBytes Generated.ENDEMIC_OT_LABEL)).appendMessage (ascii "session-id") sid).appendMessage
    (ascii "ro-index") (u16be roIndex)).appendMessage (ascii "batch-index") (u16be batchIndex)).appendMessage (ascii "pk") pk

/-- `compressed_point[0] &= 0x01; compressed_point[0] ^= 0x02` -/
def maskTag : Bytes → Bytes
  | [] => []
  | b :: rest => ((b &&& 1) ^^^ 2) :: rest

/-- the rejection loop: one more `challenge_bytes(b"compressed-point", 33)` on the SAME transcript per round -/
def hLoop (O : Query → m Bytes) : Nat → Transcript → m Bytes
  | 0, _ => pure identity33
  | fuel+1, t => do
      let (buf, t') ← challenge O t (ascii "compressed-point") 33
      let cand := maskTag buf
      let v ← O (.ecValid K1 cand)
      if v = [1] then pure cand else hLoop O fuel t'

/-- `h_function(ro_index, batch_index, session_id, pk)`; `pk` is the canonical encoding of the point -/
def hFunction (O : Query → m Bytes) (roIndex batchIndex : Nat) (sid pk : Bytes) : m Bytes :=
  hLoop O hFuel (hTranscript roIndex batchIndex sid pk)

/-- transcript of `h_function_2` -/
def h2Transcript (batchIndex : Nat) (pk : Bytes) : Transcript :=
  ((Transcript.new (labelBytes Generated.ENDEMIC_OT_LABEL)).appendMessage (ascii "batch_index") (u16be batchIndex)).appendMessage
    (ascii "pk") pk

/-- `h_function_2(batch_index, pk)` -/
def hFunction2 (O : Query → m Bytes) (batchIndex : Nat) (pk : Bytes) : m Bytes := do
  let (out, _) ← challenge O (h2Transcript batchIndex pk) (ascii "ot-seed") Generated.LAMBDA_C_BYTES
  pure out

/-- `decode_point`: `(true, canonical encoding)` or `(false, identity)` — the caller of the Rust substitutes the
    identity and raises its error flag -/
def decodePoint (O : Query → m Bytes) (p : Bytes) : m (Bool × Bytes) := do
  let v ← O (.ecValid K1 p)
  if v = [1] then do
    let c ← O (.ecMul K1 p 1)
    pure (true, c)
  else pure (false, identity33)

/-- n consecutive `Scalar::random` -/
def drawScalars : Nat → Tape → List Nat × Tape
  | 0, t => ([], t)
  | n+1, t =>
      let (x, t') := Tape.scalarRandom 64 t
      let (xs, t'') := drawScalars n t'
      (x :: xs, t'')

/-! ### receiver, message 1 -/

/-- one iteration of the `for_each` of `EndemicOTReceiver::new`: `[r_0, r_1]` -/
def recvInst (O : Query → m Bytes) (sid : Bytes) (idx bit tA rO : Nat) : m (Bytes × Bytes) := do
  let rOther ← O (.ecMulGen K1 rO)
  let hChoice ← hFunction O bit idx sid rOther
  let gta ← O (.ecMulGen K1 tA)
  let nh ← O (.ecNeg K1 hChoice)
  let rChoice ← O (.ecAdd K1 gta nh)
  -- black_box(h_function(bit ^ 1, idx, sid, r_choice)): result unused
  let _ ← hFunction O (bit ^^^ 1) idx sid rChoice
  pure (if bit = 0 then (rChoice, rOther) else (rOther, rChoice))

structure RecvState where
  choiceBits : Bytes
  tA : List Nat
deriving Repr

/-- the instances of message 1 from explicit randomness -/
def recvMsg1 (O : Query → m Bytes) (sid : Bytes) (bits : Bytes) (tA rO : List Nat) : m (List (Bytes × Bytes)) :=
  mapSeq (fun idx => recvInst O sid idx (extractBit bits idx) (tA.getD idx 0) (rO.getD idx 0)) (List.range Generated.LAMBDA_C)

/-- `EndemicOTReceiver::new(session_id, &mut msg1, rng)` : (state, msg1, rest of the tape) -/
def recvNew (O : Query → m Bytes) (sid : Bytes) (tape : Tape) : m (RecvState × List (Bytes × Bytes) × Tape) := do
  let (bits, tape) := Tape.genArray tape Generated.LAMBDA_C_BYTES
  let (tA, tape) := drawScalars Generated.LAMBDA_C tape
  let (rO, tape) := drawScalars Generated.LAMBDA_C tape
  let msg1 ← recvMsg1 O sid bits tA rO
  pure ({ choiceBits := bits, tA }, msg1, tape)

/-! ### sender -/

structure SendInst where
  err : Bool
  mb : Bytes × Bytes
  rho : Bytes × Bytes
deriving Repr

/-- one iteration of the `array::from_fn` of `EndemicOTSender::process` -/
def sendInst (O : Query → m Bytes) (sid : Bytes) (idx : Nat) (r : Bytes × Bytes) (tb0 tb1 : Nat) : m SendInst := do
  let (ok0, p0) ← decodePoint O r.1
  let (ok1, p1) ← decodePoint O r.2
  let h0 ← hFunction O 0 idx sid p1
  let ma0 ← O (.ecAdd K1 p0 h0)
  let h1 ← hFunction O 1 idx sid p0
  let ma1 ← O (.ecAdd K1 p1 h1)
  let mb0 ← O (.ecMulGen K1 tb0)
  let mb1 ← O (.ecMulGen K1 tb1)
  let k0 ← O (.ecMul K1 ma0 tb0)
  let rho0 ← hFunction2 O idx k0
  let k1 ← O (.ecMul K1 ma1 tb1)
  let rho1 ← hFunction2 O idx k1
  pure { err := !(ok0 && ok1), mb := (mb0, mb1), rho := (rho0, rho1) }

structure SendResult where
  /-- `Err("Decode error")` (message 2 has been written all the same) -/
  err : Bool
  msg2 : List (Bytes × Bytes)
  keys : List (Bytes × Bytes)
deriving Repr

def sendWith (O : Query → m Bytes) (sid : Bytes) (msg1 : List (Bytes × Bytes)) (tb : List Nat) : m SendResult := do
  let insts ← mapSeq (fun idx => sendInst O sid idx (msg1.getD idx (identity33, identity33)) (tb.getD (2*idx) 0) (tb.getD (2*idx+1) 0))
    (List.range Generated.LAMBDA_C)
  pure { err := insts.any (·.err), msg2 := insts.map (·.mb), keys := insts.map (·.rho) }

/-- `EndemicOTSender::process(session_id, &msg1, &mut msg2, rng)` -/
def sendProcess (O : Query → m Bytes) (sid : Bytes) (msg1 : List (Bytes × Bytes)) (tape : Tape) : m (SendResult × Tape) := do
  let (tb, tape) := drawScalars (2 * Generated.LAMBDA_C) tape
  let r ← sendWith O sid msg1 tb
  pure (r, tape)

/-! ### receiver, message 2 -/

/-- one iteration of the `array::from_fn` of `EndemicOTReceiver::process`: (error flag, rho_w) -/
def recvProcInst (O : Query → m Bytes) (idx bit tA : Nat) (mb : Bytes × Bytes) : m (Bool × Bytes) := do
  let (ok, p) ← decodePoint O (if bit = 0 then mb.1 else mb.2)
  let res ← O (.ecMul K1 p tA)
  let rho ← hFunction2 O idx res
  pure (!ok, rho)

/-- `EndemicOTReceiver::process(self, &msg2)` : `none` = `Err("Decode error")` -/
def recvProcess (O : Query → m Bytes) (st : RecvState) (msg2 : List (Bytes × Bytes)) : m (Option (List Bytes)) := do
  let rs ← mapSeq (fun idx => recvProcInst O idx (extractBit st.choiceBits idx) (st.tA.getD idx 0) (msg2.getD idx (identity33, identity33)))
    (List.range Generated.LAMBDA_C)
  pure (if rs.any (·.1) then none else some (rs.map (·.2)))

/-! ### wire helpers (Pod layout `[[PointBytes; 2]; LAMBDA_C]`) -/

def msgBytes (msg : List (Bytes × Bytes)) : Bytes := msg.flatMap fun p => p.1 ++ p.2

def msgOfBytes (b : Bytes) : List (Bytes × Bytes) :=
  (List.range Generated.LAMBDA_C).map fun i => ((b.drop (66*i)).take 33, (b.drop (66*i+33)).take 33)

def keysBytes (keys : List (Bytes × Bytes)) : Bytes := keys.flatMap fun p => p.1 ++ p.2

end SlVerif.Endemic
