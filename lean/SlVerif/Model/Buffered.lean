import SlVerif.Model.Basic
import SlVerif.Model.Relay
/-
  C17 model: crates/sl-mpc-mate/src/coord/buffered.rs  (BufferedMsgRelay::{wait_for, recv}, Stream::poll_next)
  over an arbitrary underlying relay, represented by the script of results its `poll_next` will produce.

  The async fns are modelled at the level of `Future::poll`: one `poll*` function = one call of `poll`, returning
  `ready v` or `pending` together with the suspended phase; dropping the future between two polls (cancellation) is
  "never poll that phase again".  `in_buf: Vec<Vec<u8>>` is a list; `push` appends, `pop` takes the last,
  `swap_remove(i)` moves the last element into position i.
-/
namespace SlVerif.Buffered
open SlVerif.Relay (decodeHdr? Id MESSAGE_HEADER_SIZE)

/-- what the underlying relay's `poll_next` returns next -/
inductive Ev where
  | msg (b : Bytes)     -- Poll::Ready(Some(b))
  | pending             -- Poll::Pending
  | closed              -- Poll::Ready(None)
deriving DecidableEq, Repr

structure State where
  buf : List Bytes := []
  script : List Ev := []
  /-- ASK frames fed into the underlying sink, in order -/
  asks : List (Id × Nat) := []
deriving DecidableEq, Repr

inductive Poll (α : Type) where
  | ready (v : α)
  | pending
deriving DecidableEq, Repr

/-- underlying `relay.poll_next`: consumes one script event; an exhausted script behaves as `Pending` forever -/
def pollUnder (s : State) : State × Poll (Option Bytes) :=
  match s.script with
  | [] => (s, .pending)
  | .msg b :: rest => ({ s with script := rest }, .ready (some b))
  | .pending :: rest => ({ s with script := rest }, .pending)
  | .closed :: rest => ({ s with script := rest }, .ready none)

/-- `Vec::swap_remove(i)` -/
def swapRemove (l : List Bytes) (i : Nat) : List Bytes :=
  if i + 1 = l.length then l.dropLast
  else match l.getLast? with
    | some last => (l.dropLast).set i last
    | none => l

/-- does the frame carry a parseable header whose id satisfies the predicate? -/
def matches_ (pred : Id → Bool) (frame : Bytes) : Bool :=
  match decodeHdr? frame with
  | some h => pred h.id
  | none => false

def findIdx (pred : Id → Bool) : List Bytes → Nat → Option Nat
  | [], _ => none
  | f :: rest, i => if matches_ pred f then some i else findIdx pred rest (i+1)

/-- the pull loop of `wait_for` within ONE poll: keeps taking ready messages until one matches, the stream ends
    or the underlying relay is pending.  `fuel` bounds the loop by the script length. -/
def pullLoop (pred : Id → Bool) : Nat → State → State × Poll (Option Bytes)
  | 0, s => (s, .pending)
  | fuel+1, s =>
      match pollUnder s with
      | (s', .pending) => (s', .pending)
      | (s', .ready none) => (s', .ready none)
      | (s', .ready (some m)) =>
          match decodeHdr? m with
          | none => pullLoop pred fuel s'                            -- malformed frame: dropped
          | some h =>
              if pred h.id then (s', .ready (some m))
              else pullLoop pred fuel { s' with buf := s'.buf ++ [m] }

/-- phases of the `wait_for` future -/
inductive Phase where
  | start       -- not polled yet: scan the buffer first
  | pulling     -- suspended inside `self.relay.next().await`
deriving DecidableEq, Repr

/-- one `poll` of the `wait_for(pred)` future (the mock relay's flush is always ready) -/
def pollWaitFor (pred : Id → Bool) (ph : Phase) (s : State) : State × Poll (Option Bytes) :=
  match ph with
  | .start =>
      match findIdx pred s.buf 0 with
      | some i => ({ s with buf := swapRemove s.buf i }, .ready (s.buf[i]?))
      | none => pullLoop pred (s.script.length + 1) s
  | .pulling => pullLoop pred (s.script.length + 1) s

/-- phases of the `recv(id, ttl)` future -/
inductive RPhase where
  | start                 -- not polled yet: feed the ASK, then wait_for
  | waiting (ph : Phase)
deriving DecidableEq, Repr

/-- one `poll` of the `recv(id, ttl)` future (the mock sink is always ready and never fails) -/
def pollRecv (id : Id) (ttl : Nat) (ph : RPhase) (s : State) : State × Poll (Option Bytes) × RPhase :=
  match ph with
  | .start =>
      let s := { s with asks := s.asks ++ [(id, ttl)] }
      let (s', r) := pollWaitFor (fun x => x == id) .start s
      (s', r, .waiting .pulling)
  | .waiting p =>
      let (s', r) := pollWaitFor (fun x => x == id) p s
      (s', r, .waiting .pulling)

/-- `Stream::poll_next` of the wrapper -/
def pollNext (s : State) : State × Poll (Option Bytes) :=
  match s.buf.getLast? with
  | some m => ({ s with buf := s.buf.dropLast }, .ready (some m))
  | none => pollUnder s

/-! ### call level: a future is polled up to `polls` times and then dropped (cancelled) if still pending -/

inductive Call where
  | recv (id : Id) (ttl : Nat) (polls : Nat)
  | waitFor (ids : List Id) (polls : Nat)       -- predicate: id ∈ ids
  | next                                         -- one poll of the stream interface
deriving DecidableEq, Repr

inductive Outcome where
  | got (m : Bytes)
  | none_          -- the call returned None
  | cancelled      -- still pending when dropped
deriving DecidableEq, Repr

def runWaitFor (pred : Id → Bool) : Nat → Phase → State → State × Outcome
  | 0, _, s => (s, .cancelled)
  | k+1, ph, s =>
      match pollWaitFor pred ph s with
      | (s', .ready (some m)) => (s', .got m)
      | (s', .ready none) => (s', .none_)
      | (s', .pending) => runWaitFor pred k .pulling s'

def runRecv (id : Id) (ttl : Nat) : Nat → RPhase → State → State × Outcome
  | 0, _, s => (s, .cancelled)
  | k+1, ph, s =>
      match pollRecv id ttl ph s with
      | (s', .ready (some m), _) => (s', .got m)
      | (s', .ready none, _) => (s', .none_)
      | (s', .pending, ph') => runRecv id ttl k ph' s'

def call (s : State) : Call → State × Outcome
  | .recv id ttl polls => runRecv id ttl polls .start s
  | .waitFor ids polls => runWaitFor (fun x => ids.contains x) polls .start s
  | .next =>
      match pollNext s with
      | (s', .ready (some m)) => (s', .got m)
      | (s', .ready none) => (s', .none_)
      | (s', .pending) => (s', .cancelled)

def runCalls (s : State) : List Call → State × List Outcome
  | [] => (s, [])
  | c :: cs =>
      let (s', o) := call s c
      let (s'', os) := runCalls s' cs
      (s'', o :: os)

end SlVerif.Buffered
