import SlVerif.Model.Basic
import SlVerif.Model.Relay
/-
  C17 model: crates/sl-mpc-mate/src/coord/buffered.rs  (BufferedMsgRelay::{wait_for, recv}, Stream::poll_next)
  over an arbitrary underlying relay, represented by
    * the script of results its `Stream::poll_next` will produce (`script`),
    * the script of results its `Sink::poll_ready` / `Sink::poll_flush` calls will produce (`sink`, one entry per call,
      whichever of the two is called; an exhausted script behaves as `Ready(Ok(()))` for ever),
    * the script of results of its `Sink::start_send` calls (`sends`; exhausted = `Ok(())`).

  The async fns are modelled at the level of `Future::poll`: one `poll*` function = one call of `poll`, returning
  `ready v` or `pending` together with the suspended phase; dropping the future between two polls (cancellation) is
  "never poll that phase again".  `in_buf: Vec<Vec<u8>>` is a list; `push` appends, `pop` takes the last,
  `swap_remove(i)` moves the last element into position i.

  Order of effects, as in the Rust:
    wait_for:  scan `in_buf` (a hit returns at once and never touches the sink)  →  `self.relay.flush().await.ok()?`
               (futures-util `Flush::poll` = one `poll_flush` per poll; `Pending` suspends there and a re-poll resumes
               there, WITHOUT a new buffer scan; `Err` makes wait_for return `None`)  →  the pull loop.
    recv:      `self.relay.ask(id, ttl).await.ok()?` (= `feed(AskMsg)`; futures-util `Feed::poll` = `poll_ready`, and
               when that is `Ready(Ok)`, `start_send(item)`; no flush; `Pending` suspends in `poll_ready` and the item
               is kept; an `Err` of either makes recv return `None`)  →  `wait_for(|m| m == id)`.
-/
namespace SlVerif.Buffered
open SlVerif.Relay (decodeHdr? Id MESSAGE_HEADER_SIZE)

/-- what the underlying relay's `poll_next` returns next -/
inductive Ev where
  | msg (b : Bytes)     -- Poll::Ready(Some(b))
  | pending             -- Poll::Pending
  | closed              -- Poll::Ready(None)
deriving DecidableEq, Repr

/-- what the underlying relay's `poll_ready` / `poll_flush` returns next -/
inductive SinkEv where
  | ok                  -- Poll::Ready(Ok(()))
  | pending             -- Poll::Pending
  | err                 -- Poll::Ready(Err(MessageSendError))
deriving DecidableEq, Repr

structure State where
  buf : List Bytes := []
  script : List Ev := []
  /-- ASK frames accepted by the underlying sink (`start_send` returned Ok), in order -/
  asks : List (Id × Nat) := []
  /-- results of the coming `poll_ready` / `poll_flush` calls of the underlying sink, in call order -/
  sink : List SinkEv := []
  /-- results of the coming `start_send` calls of the underlying sink (`true` = Ok), in call order -/
  sends : List Bool := []
deriving DecidableEq, Repr

inductive Poll (α : Type) where
  | ready (v : α)
  | pending
deriving DecidableEq, Repr

/-- underlying `relay.poll_next`: consumes one script event; an exhausted script behaves as `Pending` forever -/
def pollUnder (s : State) : State × Poll (Option Bytes) :=
  match s.script with
  | [] => (s, .pending)
  | .msg b :: rest => ({ s with script := rest }, .ready (some b))
  | .pending :: rest => ({ s with script := rest }, .pending)
  | .closed :: rest => ({ s with script := rest }, .ready none)

/-- underlying `relay.poll_ready` / `relay.poll_flush`: consumes one sink-script entry; exhausted = `Ready(Ok)` -/
def pollSink (s : State) : State × SinkEv :=
  match s.sink with
  | [] => (s, .ok)
  | e :: rest => ({ s with sink := rest }, e)

/-- underlying `relay.start_send(ASK frame)`: consumes one `sends` entry (exhausted = Ok); an accepted ASK is recorded -/
def startSend (a : Id × Nat) (s : State) : State × Bool :=
  match s.sends with
  | [] => ({ s with asks := s.asks ++ [a] }, true)
  | true :: rest => ({ s with sends := rest, asks := s.asks ++ [a] }, true)
  | false :: rest => ({ s with sends := rest }, false)

/-- `Vec::swap_remove(i)` -/
def swapRemove (l : List Bytes) (i : Nat) : List Bytes :=
  if i + 1 = l.length then l.dropLast
  else match l.getLast? with
    | some last => (l.dropLast).set i last
    | none => l

/-- does the frame carry a parseable header whose id satisfies the predicate? -/
def matches_ (pred : Id → Bool) (frame : Bytes) : Bool :=
  match decodeHdr? frame with
  | some h => pred h.id
  | none => false

def findIdx (pred : Id → Bool) : List Bytes → Nat → Option Nat
  | [], _ => none
  | f :: rest, i => if matches_ pred f then some i else findIdx pred rest (i+1)

/-- the pull loop of `wait_for` within ONE poll: keeps taking ready messages until one matches, the stream ends
    or the underlying relay is pending.  `fuel` bounds the loop by the script length. -/
def pullLoop (pred : Id → Bool) : Nat → State → State × Poll (Option Bytes)
  | 0, s => (s, .pending)
  | fuel+1, s =>
      match pollUnder s with
      | (s', .pending) => (s', .pending)
      | (s', .ready none) => (s', .ready none)
      | (s', .ready (some m)) =>
          match decodeHdr? m with
          | none => pullLoop pred fuel s'                            -- malformed frame: dropped
          | some h =>
              if pred h.id then (s', .ready (some m))
              else pullLoop pred fuel { s' with buf := s'.buf ++ [m] }

/-- phases of the `wait_for` future -/
inductive Phase where
  | start       -- not polled yet: scan the buffer first
  | flushing    -- suspended inside `self.relay.flush().await` (no buffered frame matched)
  | pulling     -- suspended inside `self.relay.next().await`
deriving DecidableEq, Repr

/-- `self.relay.flush().await.ok()?` followed by the pull loop, within one poll: one `poll_flush`;
    `Pending` suspends in the flush, `Err` returns `None`, `Ok` goes on to the pull loop -/
def pollFlush (pred : Id → Bool) (s : State) : State × Poll (Option Bytes) × Phase :=
  match pollSink s with
  | (s', .pending) => (s', .pending, .flushing)
  | (s', .err) => (s', .ready none, .flushing)
  | (s', .ok) =>
      let (s'', r) := pullLoop pred (s'.script.length + 1) s'
      (s'', r, .pulling)

/-- one `poll` of the `wait_for(pred)` future; the third component is the phase the future is suspended in when the
    result is `pending` -/
def pollWaitFor (pred : Id → Bool) (ph : Phase) (s : State) : State × Poll (Option Bytes) × Phase :=
  match ph with
  | .start =>
      match findIdx pred s.buf 0 with
      | some i => ({ s with buf := swapRemove s.buf i }, .ready (s.buf[i]?), .start)   -- the sink is not touched
      | none => pollFlush pred s
  | .flushing => pollFlush pred s
  | .pulling =>
      let (s', r) := pullLoop pred (s.script.length + 1) s
      (s', r, .pulling)

/-- phases of the `recv(id, ttl)` future -/
inductive RPhase where
  | feeding               -- not polled yet, or suspended in `poll_ready` of the `Feed` (the ASK item is kept):
                          -- both continue with `poll_ready`
  | waiting (ph : Phase)  -- the ASK was accepted; inside `wait_for`
deriving DecidableEq, Repr

/-- one `poll` of the `recv(id, ttl)` future -/
def pollRecv (id : Id) (ttl : Nat) (ph : RPhase) (s : State) : State × Poll (Option Bytes) × RPhase :=
  match ph with
  | .feeding =>
      match pollSink s with                                   -- Feed::poll: ready!(poll_ready)?
      | (s₁, .pending) => (s₁, .pending, .feeding)
      | (s₁, .err) => (s₁, .ready none, .feeding)             -- `.ok()?`
      | (s₁, .ok) =>
          match startSend (id, ttl) s₁ with                   -- start_send(item)?
          | (s₂, false) => (s₂, .ready none, .feeding)        -- `.ok()?`
          | (s₂, true) =>
              let (s₃, r, p) := pollWaitFor (fun x => x == id) .start s₂
              (s₃, r, .waiting p)
  | .waiting p =>
      let (s', r, p') := pollWaitFor (fun x => x == id) p s
      (s', r, .waiting p')

/-- `Stream::poll_next` of the wrapper -/
def pollNext (s : State) : State × Poll (Option Bytes) :=
  match s.buf.getLast? with
  | some m => ({ s with buf := s.buf.dropLast }, .ready (some m))
  | none => pollUnder s

/-! ### call level: a future is polled up to `polls` times and then dropped (cancelled) if still pending -/

inductive Call where
  | recv (id : Id) (ttl : Nat) (polls : Nat)
  | waitFor (ids : List Id) (polls : Nat)       -- predicate: id ∈ ids
  | next                                         -- one poll of the stream interface
deriving DecidableEq, Repr

inductive Outcome where
  | got (m : Bytes)
  | none_          -- the call returned None
  | cancelled      -- still pending when dropped
deriving DecidableEq, Repr

def runWaitFor (pred : Id → Bool) : Nat → Phase → State → State × Outcome
  | 0, _, s => (s, .cancelled)
  | k+1, ph, s =>
      match pollWaitFor pred ph s with
      | (s', .ready (some m), _) => (s', .got m)
      | (s', .ready none, _) => (s', .none_)
      | (s', .pending, ph') => runWaitFor pred k ph' s'

def runRecv (id : Id) (ttl : Nat) : Nat → RPhase → State → State × Outcome
  | 0, _, s => (s, .cancelled)
  | k+1, ph, s =>
      match pollRecv id ttl ph s with
      | (s', .ready (some m), _) => (s', .got m)
      | (s', .ready none, _) => (s', .none_)
      | (s', .pending, ph') => runRecv id ttl k ph' s'

def call (s : State) : Call → State × Outcome
  | .recv id ttl polls => runRecv id ttl polls .feeding s
  | .waitFor ids polls => runWaitFor (fun x => ids.contains x) polls .start s
  | .next =>
      match pollNext s with
      | (s', .ready (some m)) => (s', .got m)
      | (s', .ready none) => (s', .none_)
      | (s', .pending) => (s', .cancelled)

def runCalls (s : State) : List Call → State × List Outcome
  | [] => (s, [])
  | c :: cs =>
      let (s', o) := call s c
      let (s'', os) := runCalls s' cs
      (s'', o :: os)

end SlVerif.Buffered
