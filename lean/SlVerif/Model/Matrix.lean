import SlVerif.Model.Field
/-
  C20 model: crates/sl-mpc-mate/src/matrix.rs  (mod_bareiss_determinant, matrix_minor, transpose, matrix_inverse)

  The Rust works in place on `Vec<Vec<Scalar>>` with an index offset `i`; the model is the same arithmetic as a
  structural recursion on the trailing (n-i)×(n-i) block (loop → recursion):  at step i the code
    * looks for a pivot in column i at/below the diagonal, swaps that row up, flips `sign`;
    * returns ZERO if the column is zero;
    * replaces every trailing entry  m[j][k] ← (m[j][k]*m[i][i] − m[j][i]*m[i][k]) · (m[i-1][i-1])⁻¹   (no division for i = 0);
  and finally returns m[rows-1][rows-1]*sign.
  Domain of the model: square matrices (n and n·n entries); ragged `Vec<Vec<_>>` values are not representable.
  Panics / errors of the code are explicit `Outcome`s.
-/
namespace SlVerif

inductive Outcome (α : Type) where
  | ok (v : α)
  | err (e : String)
  | panic (why : String)
deriving Repr, DecidableEq

namespace Mat
open FieldOps
variable {F : Type} [FieldOps F]

abbrev M (F : Type) (n : Nat) := Vector (Vector F n) n

/-- entry accessor with `Fin` indices -/
@[inline] def get {n : Nat} (A : M F n) (i j : Fin n) : F := (A[i])[j]

def ofFn {n : Nat} (f : Fin n → Fin n → F) : M F n := Vector.ofFn fun i => Vector.ofFn fun j => f i j

/-- first row index `m ≥ 1` (as `Fin n`, offset by one) with a non-zero entry in column 0 — the code's
    `for m in (i+1)..rows { if !matrix[m][i].is_zero() { swap; break } }` -/
def findPivot {n : Nat} (A : M F (n+1)) : Option (Fin n) :=
  (List.finRange n).find? fun m => !(isZero (get A m.succ 0))

/-- swap rows 0 and m -/
def swapRows {n : Nat} (A : M F (n+1)) (m : Fin (n+1)) : M F (n+1) :=
  Vector.ofFn fun i => if i = 0 then A[m] else if i = m then A[(0 : Fin (n+1))] else A[i]

/-- one elimination step on the trailing block; `prev = none` for the first step (no division) -/
def step {n : Nat} (A : M F (n+2)) (prev : Option F) : M F (n+1) :=
  ofFn fun j k =>
    let v := sub (mul (get A j.succ k.succ) (get A 0 0)) (mul (get A j.succ 0) (get A 0 k.succ))
    match prev with
    | none => v
    | some p => mul v (inv p)

/-- `mod_bareiss_determinant` on the trailing (n+1)×(n+1) block -/
def bareissAux : (n : Nat) → M F (n+1) → Option F → F → Outcome F
  | 0, A, _, sign => .ok (mul (get A 0 0) sign)
  | n+1, A, prev, sign =>
      -- pivot search / row swap
      let (A, sign) :=
        if isZero (get A 0 0) then
          match findPivot A with
          | some m => (swapRows A m.succ, neg sign)
          | none => (A, sign)
        else (A, sign)
      if isZero (get A 0 0) then .ok zero
      else
        -- `matrix[i-1][i-1].invert()` is `None` ⇒ Err(..) in the code
        match prev with
        | some p => if isZero p then .err "Modular inverse does not exist while computing determinant"
                    else bareissAux n (step A prev) (some (get A 0 0)) sign
        | none => bareissAux n (step A prev) (some (get A 0 0)) sign

/-- `mod_bareiss_determinant(matrix, rows)` for a square matrix.
    rows = 0: the empty matrix has determinant ONE (fix: commit for D1; before it the code indexed `matrix[0]` and panicked). -/
def determinant : (n : Nat) → M F n → Outcome F
  | 0, _ => .ok one
  | n+1, A => bareissAux n A none one

/-- index map of `.enumerate().filter(|(idx,_)| *idx != r)` : the i-th surviving index -/
def skip {n : Nat} (r : Fin (n+1)) (i : Fin n) : Fin (n+1) :=
  if i.val < r.val then i.castSucc else i.succ

/-- `matrix_minor(matrix, r, c)` -/
def minor {n : Nat} (A : M F (n+1)) (r c : Fin (n+1)) : M F n :=
  ofFn fun i j => get A (skip r i) (skip c j)

/-- Independent reference: Laplace expansion along the first row (the executable form of the Leibniz determinant;
    proved equal to `Matrix.det` in Props/C20).  Used only as the conclusion predicate on the implementation's output. -/
def laplace : (n : Nat) → M F n → F
  | 0, _ => one
  | n+1, A => sum ((List.finRange (n+1)).map fun j =>
      mul (mul (pow (sub zero one) j.val) (get A 0 j)) (laplace n (minor A 0 j)))

def transpose {n : Nat} (A : M F n) : M F n := ofFn fun i j => get A j i

def mapM? {n : Nat} (f : Fin n → Fin n → Outcome F) : Outcome (M F n) :=
  let cells := (List.finRange n).map fun i => (List.finRange n).map fun j => f i j
  match cells.flatten.find? (fun o => match o with | .ok _ => false | _ => true) with
  | some (.err e) => .err e
  | some (.panic w) => .panic w
  | _ => .ok (ofFn fun i j => match f i j with | .ok v => v | _ => zero)

/-- `matrix_inverse(matrix, rows)`; panics of the code (`expect`, `unwrap`, indexing) are `.panic` -/
def inverse : (n : Nat) → M F n → Outcome (M F n)
  | 0, _ => .panic "transpose: index 0 of an empty matrix"
  | n+1, A =>
      match determinant (n+1) A with
      | .err e => .panic ("Error while finding det: " ++ e)
      | .panic w => .panic w
      | .ok d =>
        if isZero d then .panic "invert().unwrap() of a zero determinant"
        else
          let dinv := inv d
          let minusOne : F := sub zero one
          if h : n + 1 = 2 then
            let A2 : M F 2 := h ▸ A
            let R : M F 2 := ofFn fun i j =>
              if i = 0 ∧ j = 0 then mul (get A2 1 1) dinv
              else if i = 0 ∧ j = 1 then mul (mul minusOne (get A2 0 1)) dinv
              else if i = 1 ∧ j = 0 then mul (mul minusOne (get A2 1 0)) dinv
              else mul (get A2 0 0) dinv
            .ok (h ▸ R)
          else
            match mapM? (fun r c =>
                match determinant n (minor A r c) with
                | .ok v => Outcome.ok (mul (pow minusOne (r.val + c.val)) v)
                | .err e => .panic ("Error while finding det for minor: " ++ e)
                | .panic w => .panic w) with
            | .ok cof => .ok (ofFn fun i j => mul (get (transpose cof) i j) dinv)
            | .err e => .err e
            | .panic w => .panic w

end Mat
end SlVerif
