/-
  Field interface used by all algebraic models, and its executable instance for the secp256k1 scalar field.
  The SAME model definitions are (i) run at `Fq` in the driver and (ii) reasoned about at an arbitrary
  Mathlib `Field F` in the proof files (instance `FieldOps.ofField` there).  Imports nothing (driver links).
-/
namespace SlVerif

class FieldOps (F : Type) where
  zero : F
  one : F
  add : F → F → F
  neg : F → F
  sub : F → F → F
  mul : F → F → F
  /-- total inverse, `inv zero = zero`; places where the Rust tests `invert().is_none()` test `isZero` explicitly -/
  inv : F → F
  ofNat : Nat → F
  isZero : F → Bool

namespace FieldOps
variable {F : Type} [FieldOps F]
def pow (x : F) : Nat → F
  | 0 => one
  | n+1 => mul (pow x n) x
def sum (l : List F) : F := l.foldl add zero
end FieldOps

/-- order of the secp256k1 group (k256::Scalar modulus) -/
def secpQ : Nat := 0xFFFFFFFFFFFFFFFFFFFFFFFFFFFFFFFEBAAEDCE6AF48A03BBFD25E8CD0364141
/-- order of the prime-order subgroup of edwards25519 -/
def edL : Nat := 0x1000000000000000000000000000000014def9dea2f79cd65812631a5cf5d3ed

/-- square-and-multiply, `fuel` ≥ bit length of e -/
def powMod (m : Nat) : Nat → Nat → Nat → Nat
  | 0, _, _ => 1 % m
  | fuel+1, b, e =>
      if e = 0 then 1 % m
      else
        let h := powMod m fuel (b * b % m) (e / 2)
        if e % 2 = 1 then h * b % m else h

/-- integers modulo `secpQ`, canonical representative -/
structure Fq where
  val : Nat
deriving DecidableEq, Repr

namespace Fq
def mk' (n : Nat) : Fq := ⟨n % secpQ⟩
instance : FieldOps Fq where
  zero := ⟨0⟩
  one := ⟨1⟩
  add a b := mk' (a.val + b.val)
  neg a := mk' (secpQ - a.val % secpQ)
  sub a b := mk' (a.val + (secpQ - b.val % secpQ))
  mul a b := mk' (a.val * b.val)
  inv a := mk' (powMod secpQ 256 (a.val % secpQ) (secpQ - 2))
  ofNat n := mk' n
  isZero a := a.val % secpQ == 0
end Fq

end SlVerif
