import SlVerif.Model.Relay
/-
  Heap-free specification of the relay (C15/C16): a map  id ↦ Ready frame exp | Waiting exp conns  in which every
  operation first forgets the entries whose lifetime has ended (`exp ≤ now`) and then acts.  Short enough to read in
  a minute; Props/C15, C16 prove that the model of the Rust (Model/Relay.lean, with its expiry heap) refines it, and the
  driver evaluates it on the implementation's observable behaviour as the conclusion predicate.
-/
namespace SlVerif.RelaySpec
open SlVerif.Relay (Id Delivery decodeHdr? MESSAGE_HEADER_SIZE)

inductive SEntry where
  | ready (msg : Bytes) (exp : Nat)
  | waiting (exp : Nat) (conns : List Nat)
deriving DecidableEq, Repr

def SEntry.exp : SEntry → Nat
  | .ready _ e => e
  | .waiting e _ => e

abbrev Spec := List (Id × SEntry)

def lookup (id : Id) : Spec → Option SEntry
  | [] => none
  | (k, v) :: rest => if k = id then some v else lookup id rest

def put (id : Id) (e : SEntry) (sp : Spec) : Spec := (id, e) :: sp.filter (fun kv => kv.1 ≠ id)

/-- forget every entry whose lifetime has ended -/
def sweep (now : Nat) (sp : Spec) : Spec := sp.filter (fun kv => now < kv.2.exp)

def publish (sp : Spec) (id : Id) (ttl : Nat) (frame : Bytes) (now : Nat) : Spec × List Delivery :=
  let sp := sweep now sp
  match lookup id sp with
  | some (.waiting _ conns) => (put id (.ready frame (now + ttl)) sp, conns.map fun c => (c, frame))
  | some (.ready _ _) => (sp, [])
  | none => (put id (.ready frame (now + ttl)) sp, [])

def ask (sp : Spec) (conn : Nat) (id : Id) (ttl : Nat) (now : Nat) : Spec × List Delivery :=
  let sp := sweep now sp
  match lookup id sp with
  | some (.ready m _) => (sp, [(conn, m)])
  | some (.waiting e conns) => (put id (.waiting (max (now + ttl) e) (conns ++ [conn])) sp, [])
  | none => (put id (.waiting (now + ttl) [conn]) sp, [])

/-- one operation of `Relay.Op` on the specification -/
def step (sp : Spec) (now : Nat) : Relay.Op → Spec × Nat × List Delivery
  | .tick k => (sp, now + k, [])
  | .frame c b =>
      match decodeHdr? b with
      | none => (sp, now, [])
      | some h =>
          if b.length = MESSAGE_HEADER_SIZE then let (sp', d) := ask sp c h.id h.ttl now; (sp', now, d)
          else let (sp', d) := publish sp h.id h.ttl b now; (sp', now, d)
  | .service b =>
      match decodeHdr? b with
      | none => (sp, now, [])
      | some h =>
          if b.length ≤ MESSAGE_HEADER_SIZE then (sp, now, [])
          else let (sp', d) := publish sp h.id h.ttl b now; (sp', now, d)

end SlVerif.RelaySpec
