import SlVerif.Model.Field
import SlVerif.Model.Matrix
/-
  C13 model: crates/sl-mpc-mate/src/math.rs
    Polynomial::{commit, derivative_at, evaluate_at}, GroupPolynomial::{derivative_coeffs, evaluate_at},
    small_factorial / FACT, factorial_range, factorial, feldman_verify,
    polynomial_coeff_multipliers(_iter), birkhoff_coeffs.

  Scalars are generic over `FieldOps F` (run at `Fq`, reasoned about at a Mathlib field).
  Group elements are generic over `ModuleOps F G`; the Rust writes `point * scalar`, hence `smul : G → F → G`.
  `Vec`s are `List`s; `.iter().enumerate()` is `List.zipIdx`; `.skip(n)` is `List.drop n`; `.sum()` of scalars is the
  left fold `FieldOps.sum` (k256 implements `Sum` as `reduce(Add::add).unwrap_or(ZERO)`: the same value, without the
  leading `ZERO +`); `pow_vartime([e])` is `FieldOps.pow`.
  Imports nothing outside the model directory (driver links).
-/
namespace SlVerif

/-- group side of the model: an `F`-module written the way the Rust writes it (`point * scalar`) -/
class ModuleOps (F G : Type) where
  zero : G
  add : G → G → G
  /-- `p * a` in the Rust -/
  smul : G → F → G
  /-- `is_identity()` -/
  isZero : G → Bool
  /-- `==` on points -/
  beq : G → G → Bool

/-- Discrete-log representation used by the driver: a point `k•Generator` is represented by `k`.
    The harness knows the discrete log of every point it creates and compares `k•Generator` with the real point. -/
instance : ModuleOps Fq Fq where
  zero := FieldOps.zero
  add := FieldOps.add
  smul p a := FieldOps.mul p a
  isZero p := FieldOps.isZero p
  beq p q := p.val % secpQ == q.val % secpQ

namespace Math
open FieldOps

/-- mirrors the length of `static FACT: [u64; 21]` -/
def FACT_LEN : Nat := 21

/-- `small_factorial::<N>()`: `a = [1; N]; for j in 1..N { a[j] = j * a[j-1] }`.
    The multiplication is u64 in a `const fn`; an overflow would be a compile error, so none is modelled
    (`fact_lt_u64` in Proofs/Math proves that every entry for N = 21 is below 2^64). -/
def smallFactorialAux : Nat → Nat → Nat → List Nat
  | 0, _, _ => []
  | k+1, j, prev => (j * prev) :: smallFactorialAux k (j+1) (j * prev)

def smallFactorial (N : Nat) : List Nat :=
  match N with
  | 0 => []
  | k+1 => 1 :: smallFactorialAux k 1 1

/-- `static FACT: [u64; 21] = small_factorial();` -/
def FACT : List Nat := smallFactorial FACT_LEN

/-- `factorial_range(start, end)` — product of the range (start, end].
    GUARD: the Rust starts with `debug_assert!(start <= end)`, the harness is built with debug assertions, so
    `start > end` is a panic there; it is outside the domain of this function (no caller in math.rs does it, the
    driver answers `panic` for it).  For `start ≤ end`:
      * `end < FACT.len()`: `S::from(FACT[end] / FACT[start])`, a u64 division of two table entries;
      * otherwise `(start+1..=end).fold(S::from(1), |acc, x| acc * S::from(x))`. -/
def factorialRange {F : Type} [FieldOps F] (s e : Nat) : F :=
  if e < FACT_LEN then
    ofNat (FACT.getD e 0 / FACT.getD s 0)
  else
    (List.range' (s+1) (e - s)).foldl (fun acc x => mul acc (ofNat x)) (ofNat 1)

/-- `factorial(n) = factorial_range(0, n)` -/
def factorial {F : Type} [FieldOps F] (n : Nat) : F := factorialRange 0 n

variable {F : Type} [FieldOps F]

/-- `Polynomial::derivative_at(n, x)`:
    `coeffs.iter().enumerate().skip(n).map(|(i,c)| factorial_range(i-n,i) * c * x^(i-n)).sum()` -/
def derivativeAt (coeffs : List F) (n : Nat) (x : F) : F :=
  sum ((coeffs.zipIdx.drop n).map fun (c, i) =>
    mul (mul (factorialRange (i - n) i) c) (pow x (i - n)))

/-- `Polynomial::evaluate_at(x)`: `coeffs.iter().enumerate().map(|(i,c)| x^i * c).sum()` -/
def evaluateAt (coeffs : List F) (x : F) : F :=
  sum (coeffs.zipIdx.map fun (c, i) => mul (pow x i) c)

section Group
variable {G : Type} [ModuleOps F G]

/-- `Polynomial::commit()` with `gen = G::generator()`: `coeffs.map(|c| gen * c)` -/
def commit (gen : G) (coeffs : List F) : List G := coeffs.map fun c => ModuleOps.smul gen c

/-- the `.map(...)` of `GroupPolynomial::derivative_coeffs` applied to `coeffs[n..]` (total: `drop`) -/
def derivativeCoeffsCore (coeffs : List G) (n : Nat) : List G :=
  (coeffs.drop n).zipIdx.map fun (u, pos) => ModuleOps.smul u (factorialRange (F := F) pos (pos + n))

/-- `GroupPolynomial::derivative_coeffs(n)`; the slice `self.coeffs[n..]` panics when `n > len` -/
def derivativeCoeffs (coeffs : List G) (n : Nat) : Outcome (List G) :=
  if coeffs.length < n then .panic "range start index out of range for slice"
  else .ok (derivativeCoeffsCore (F := F) coeffs n)

/-- the fold shared by `GroupPolynomial::evaluate_at` and `feldman_verify`:
    `fold((identity, ONE), |(s, x_pow_i), coeff| (s + coeff * x_pow_i, x_pow_i * x))` -/
def evalFold (coeffs : List G) (x : F) : G × F :=
  coeffs.foldl (fun (acc : G × F) coeff => (ModuleOps.add F acc.1 (ModuleOps.smul coeff acc.2), mul acc.2 x))
    (ModuleOps.zero F, one)

/-- `GroupPolynomial::evaluate_at(x)` -/
def gEvaluateAt (coeffs : List G) (x : F) : G := (evalFold coeffs x).1

/-- `feldman_verify(u_i_k, x_i, f_i_value, g)` (`x_i : NonZeroScalar` in the Rust; the model is total in `x`) -/
def feldmanVerify (uik : List G) (x : F) (fValue : F) (g : G) : Bool :=
  let point := (evalFold uik x).1
  if ModuleOps.isZero F point then false
  else ModuleOps.beq F point (ModuleOps.smul g fValue)

end Group

/-- one entry of `polynomial_coeff_multipliers_iter(x_i, n_i, n)` -/
def multiplier (x : F) (ni idx : Nat) : F :=
  if idx < ni then zero
  else mul (factorialRange (idx - ni) idx) (pow x (idx - ni))

/-- `polynomial_coeff_multipliers(x_i, n_i, n)` = `(0..n).map(..).collect()` -/
def coeffMultipliers (x : F) (ni n : Nat) : List F := (List.range n).map (multiplier x ni)

theorem coeffMultipliers_length (x : F) (ni n : Nat) : (coeffMultipliers x ni n).length = n := by
  simp [coeffMultipliers]

/-- the `Vec<Vec<Scalar>>` built by `birkhoff_coeffs`: row i = `polynomial_coeff_multipliers(x_i, n_i, n)` -/
def birkhoffMatrix (params : List (F × Nat)) : Mat.M F params.length :=
  Vector.ofFn fun i : Fin params.length =>
    (⟨(coeffMultipliers (params[i]).1 (params[i]).2 params.length).toArray,
      by simp [coeffMultipliers]⟩ : Vector F params.length)

/-- `birkhoff_coeffs(params)` = `matrix_inverse(matrix, n).swap_remove(0)`.
    n = 0: `matrix_inverse` panics (index 0 of the empty matrix in `transpose`);
    singular matrix: `determinant.invert().unwrap()` panics;  both surface here through `Mat.inverse`. -/
def birkhoffCoeffs (params : List (F × Nat)) : Outcome (List F) :=
  match Mat.inverse params.length (birkhoffMatrix params) with
  | .ok B =>
      if h : 0 < params.length then .ok (B[0]'h).toList
      else .panic "swap_remove index (is 0) should be < len (is 0)"
  | .err e => .err e
  | .panic w => .panic w

end Math
end SlVerif
