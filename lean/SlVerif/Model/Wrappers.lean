import SlVerif.Model.Relay
import SlVerif.Model.Oracle
/-
  Relay wrappers and message identifiers: the parts of crates/sl-mpc-mate/src/{message.rs, coord.rs, coord/stats.rs,
  coord/adversary.rs} that Model/Relay.lean (relay + header codec) and Model/Buffered.lean do not cover.

  * message.rs   `MessageTag::{tag, tag1, tag2, to_bytes}`, `MsgId::{new, broadcast}`, `TryFrom<&[u8]> for MsgId`,
                 `AskMsg::allocate`
  * coord.rs     `Relay::ask` (feed of `AskMsg::allocate`), `MaybeFeed::skip`
  * stats.rs     `RelayStats<R>`: `Stream::poll_next`, `Sink::start_send` and the counters of `Stats`.  The
                 `Instant`-based durations (`wait_time`, second component of `wait_times`) are NOT modelled: the model
                 records which ids are pushed to `wait_times` and in which order.
  * adversary.rs `EvilPlay::{drop_message, inject_message, injection, poll_next, start_send}`,
                 `EvilMessageRelay::connect` (party index = connection order), `Connection` Stream / Sink.

  Representation
  * An inner connection seen from a wrapper is the script of results its `poll_next` will produce (`List Ev`; an
    exhausted script is `Pending` for ever), exactly as in Model/Buffered.lean.  The wrapper functions consume a prefix of
    that script and return the rest, so they are total by structural recursion (the `loop` of `EvilPlay::poll_next`
    ends at the first frame that is not dropped, at `Pending` or at the end of the stream).
  * `Net` = the relay of Model/Relay.lean plus, per connection, the frames its `MessageRelay` will yield, in yield
    order: an answer to the connection's own ASK is pushed on `MessageRelay::queue` (a stack that `poll_next` pops
    before it looks at the channel: front of the list); a publication that wakes a waiter goes through the
    connection's mpsc channel (end of the list).  The harness lets the spawned deliveries settle after every
    operation, so channel order = operation order.
  * `HashSet<MsgId>` (`seen_msg`) → duplicate-free list in first-insertion order; the driver prints it sorted.
  * Injection conditions (`Box<dyn FnMut(&HashSet<MsgId>, usize) -> bool>`) → pure functions `List Id → Nat → Bool`;
    the conditions the harness uses are the data type `Cond`.
  * `usize` counters cannot overflow within any run that fits in memory; they are natural numbers here.
-/
namespace SlVerif.Wrappers
open SlVerif.Relay (Id Hdr decodeHdr? allocateMessage MESSAGE_HEADER_SIZE MESSAGE_ID_SIZE Delivery SendResult Sys)

/-! ### message.rs: tags -/

/-- `MessageTag::tag(tag: u64).to_bytes()` -/
def tag (t : Nat) : Bytes := natToLe 8 (t % 2^64)

/-- `MessageTag::tag1(tag: u32, param: u32)` = `tag(tag as u64 | (param as u64) << 32)` -/
def tag1 (t p : Nat) : Bytes := tag ((t % 2^32) ||| ((p % 2^32) <<< 32))

/-- `MessageTag::tag2(tag: u32, param1: u16, param2: u16)` = `tag(tag as u64 | (p1 as u64) << 32 | (p2 as u64) << 48)` -/
def tag2 (t p1 p2 : Nat) : Bytes := tag ((t % 2^32) ||| ((p1 % 2^16) <<< 32) ||| ((p2 % 2^16) <<< 48))

/-! ### message.rs: message ids -/

/-- what `MsgId::new` feeds into SHA-256, in `chain_update` order: tag, sender, receiver (or nothing), instance -/
def msgIdPreimage (inst sender : Bytes) (receiver : Option Bytes) (tg : Bytes) : Bytes :=
  tg ++ sender ++ receiver.getD [] ++ inst

/-- `MsgId::new(instance, sender, receiver, tag)` -/
def msgIdNew {m : Type → Type} [Monad m] (O : Query → m Bytes) (inst sender : Bytes) (receiver : Option Bytes)
    (tg : Bytes) : m Bytes :=
  O (.sha256 (msgIdPreimage inst sender receiver tg))

/-- `MsgId::broadcast(instance, sender, tag)` -/
def msgIdBroadcast {m : Type → Type} [Monad m] (O : Query → m Bytes) (inst sender tg : Bytes) : m Bytes :=
  msgIdNew O inst sender none tg

/-- `MsgId::try_from(&[u8])`: the first 32 bytes of a slice of at least 32 bytes -/
def msgIdTryFrom (b : Bytes) : Option Id :=
  if b.length < MESSAGE_ID_SIZE then none else some (b.take MESSAGE_ID_SIZE)

/-- `AskMsg::allocate(id, ttl)` = `allocate_message(id, ttl, 0, &[])` -/
def askAllocate (id : Id) (ttl : Nat) : Bytes := allocateMessage id ttl 0 []

/-- the id of a frame that has a header: `<&MsgHdr>::try_from(msg).map(|h| *h.id())` -/
def hdrId? (frame : Bytes) : Option Id := (decodeHdr? frame).map (·.id)

/-! ### an inner connection as a stream -/

/-- what the inner `poll_next` returns next -/
inductive Ev where
  | msg (b : Bytes)     -- Poll::Ready(Some(b))
  | pending             -- Poll::Pending
  | closed              -- Poll::Ready(None)
deriving DecidableEq, Repr

/-- result of one `poll_next` -/
inductive Poll where
  | ready (b : Bytes)   -- Poll::Ready(Some(b))
  | closed              -- Poll::Ready(None)
  | pending             -- Poll::Pending
deriving DecidableEq, Repr

/-- inner `poll_next`: consumes one event; an exhausted script is `Pending` -/
def pollInner : List Ev → List Ev × Poll
  | [] => ([], .pending)
  | .msg b :: r => (r, .ready b)
  | .pending :: r => (r, .pending)
  | .closed :: r => (r, .closed)

/-! ### coord/stats.rs -/

/-- `Stats` without the durations; `waitIds` = first components of `wait_times`, in push order -/
structure Stats where
  sendCount : Nat := 0
  sendSize : Nat := 0
  recvSize : Nat := 0
  recvCount : Nat := 0
  waitIds : List Id := []
deriving DecidableEq, Repr

/-- the `Poll::Ready(Some(msg))` arm of `RelayStats::poll_next` -/
def Stats.onRecv (st : Stats) (msg : Bytes) : Stats :=
  { st with
    recvSize := st.recvSize + msg.length
    recvCount := st.recvCount + 1
    waitIds := match hdrId? msg with
      | some id => st.waitIds ++ [id]
      | none => st.waitIds }

/-- `<RelayStats<R> as Stream>::poll_next`: the inner result is passed on unchanged -/
def Stats.pollNext (st : Stats) (inner : List Ev) : Stats × List Ev × Poll :=
  match pollInner inner with
  | (r, .ready msg) => (st.onRecv msg, r, .ready msg)
  | (r, .closed) => (st, r, .closed)
  | (r, .pending) => (st, r, .pending)

/-- `<RelayStats<R> as Sink>::start_send`: counts, then hands the SAME item to the inner sink (second component);
    the result of the call is the inner sink's -/
def Stats.startSend (st : Stats) (item : Bytes) : Stats × Bytes :=
  ({ st with sendSize := st.sendSize + item.length, sendCount := st.sendCount + 1 }, item)

/-! ### coord/adversary.rs -/

/-- the injection conditions used by the harness, as data -/
inductive Cond where
  | always
  | never
  | seen (id : Id)                    -- |seen, _| seen.contains(id)
  | unseen (id : Id)                  -- |seen, _| !seen.contains(id)
  | party (k : Nat)                   -- |_, p| p == k
  | seenParty (id : Id) (k : Nat)     -- |seen, p| seen.contains(id) && p == k
  | seenCount (n : Nat)               -- |seen, _| seen.len() >= n
deriving DecidableEq, Repr

def Cond.eval : Cond → List Id → Nat → Bool
  | .always, _, _ => true
  | .never, _, _ => false
  | .seen id, s, _ => s.contains id
  | .unseen id, s, _ => !s.contains id
  | .party k, _, p => p == k
  | .seenParty id k, s, p => s.contains id && p == k
  | .seenCount n, s, _ => decide (n ≤ s.length)

structure Inject where
  msg : Bytes
  cond : List Id → Nat → Bool

structure EvilPlay where
  /-- `drop_msg`, in `drop_message` order -/
  drops : List (Id × Option Nat) := []
  /-- `seen_msg` -/
  seen : List Id := []
  /-- `injects`, in vector order -/
  injects : List Inject := []

/-- `EvilPlay::drop_message(msg, party)` -/
def EvilPlay.dropMessage (p : EvilPlay) (id : Id) (party : Option Nat) : EvilPlay :=
  { p with drops := p.drops ++ [(id, party)] }

/-- `EvilPlay::inject_message(msg, cond)` -/
def EvilPlay.injectMessage (p : EvilPlay) (msg : Bytes) (cond : List Id → Nat → Bool) : EvilPlay :=
  { p with injects := p.injects ++ [⟨msg, cond⟩] }

/-- `HashSet::insert` -/
def insertSeen (id : Id) (seen : List Id) : List Id := if seen.contains id then seen else seen ++ [id]

/-- `Vec::swap_remove(i)`: the last element takes the place of element `i` -/
def swapRemove {α : Type} (l : List α) (i : Nat) : List α :=
  if i + 1 = l.length then l.dropLast
  else match l.getLast? with
    | some last => (l.dropLast).set i last
    | none => l

/-- index of the first injection (from position `i` on) whose condition holds -/
def firstTrue (seen : List Id) (party : Nat) : List Inject → Nat → Option Nat
  | [], _ => none
  | inj :: rest, i => if inj.cond seen party then some i else firstTrue seen party rest (i + 1)

/-- `EvilPlay::injection(party)`: the first injection whose condition holds is `swap_remove`d and returned -/
def EvilPlay.injection (p : EvilPlay) (party : Nat) : EvilPlay × Option Bytes :=
  match firstTrue p.seen party p.injects 0 with
  | some i =>
      match p.injects[i]? with
      | some inj => ({ p with injects := swapRemove p.injects i }, some inj.msg)
      | none => (p, none)
  | none => (p, none)

/-- number of conditions `injection(party)` evaluates (observable: the conditions are the caller's closures) -/
def EvilPlay.evalCount (p : EvilPlay) (party : Nat) : Nat :=
  match firstTrue p.seen party p.injects 0 with
  | some i => i + 1
  | none => p.injects.length

/-- the drop test of `EvilPlay::poll_next`: the frame has a header and
    `drop_msg.iter().any(|(mid, idx)| mid == hdr.id() && idx.unwrap_or(party) == party)` -/
def EvilPlay.dropsFrame (p : EvilPlay) (party : Nat) (msg : Bytes) : Bool :=
  match hdrId? msg with
  | some id => p.drops.any (fun r => r.1 == id && r.2.getD party == party)
  | none => false

/-- the `loop` of `EvilPlay::poll_next` -/
def EvilPlay.recvLoop (p : EvilPlay) (party : Nat) : List Ev → List Ev × Poll
  | [] => ([], .pending)
  | .pending :: r => (r, .pending)
  | .closed :: r => (r, .closed)
  | .msg m :: r => if p.dropsFrame party m then EvilPlay.recvLoop p party r else (r, .ready m)

/-- `EvilPlay::poll_next(cx, client, party)`: an injection comes before anything is read from the client -/
def EvilPlay.pollNext (p : EvilPlay) (party : Nat) (inner : List Ev) : EvilPlay × List Ev × Poll :=
  match p.injection party with
  | (p', some msg) => (p', inner, .ready msg)
  | (p', none) =>
      let (r, res) := p'.recvLoop party inner
      (p', r, res)

/-- `EvilPlay::start_send(client, _index, msg)`: records the id, then hands the SAME frame to the client (second
    component); the result of the call is the client's -/
def EvilPlay.startSend (p : EvilPlay) (msg : Bytes) : EvilPlay × Bytes :=
  (match hdrId? msg with
   | some id => { p with seen := insertSeen id p.seen }
   | none => p, msg)

/-! ### the inner relay with its connections -/

structure Net where
  sys : Sys := {}
  /-- per connection: what its `MessageRelay::poll_next` will yield, in order -/
  inbox : List (List Ev) := []
deriving Repr

def Net.new (conns : Nat) : Net := { inbox := List.replicate conns [] }

def modifyAt {α : Type} (l : List α) (i : Nat) (f : α → α) : List α :=
  match l[i]? with
  | some x => l.set i (f x)
  | none => l

/-- `immediate`: answers to an ASK go to the asking connection's `queue` (popped first); otherwise the frame
    travels through the receiving connection's channel -/
def deliver (immediate : Bool) (inbox : List (List Ev)) : List Delivery → List (List Ev)
  | [] => inbox
  | (c, f) :: r =>
      deliver immediate (modifyAt inbox c (fun q => if immediate then .msg f :: q else q ++ [.msg f])) r

/-- `<MessageRelay as Sink>::start_send(frame)` on connection `c` (+ settling of the spawned deliveries) -/
def Net.send (n : Net) (c : Nat) (frame : Bytes) : Net × SendResult :=
  let (sys', d, r) := Relay.step n.sys (.frame c frame)
  ({ sys := sys', inbox := deliver (decide (frame.length = MESSAGE_HEADER_SIZE)) n.inbox d }, r)

def Net.inboxOf (n : Net) (c : Nat) : List Ev := n.inbox.getD c []

def Net.setInbox (n : Net) (c : Nat) (q : List Ev) : Net := { n with inbox := n.inbox.set c q }

/-- `<MessageRelay as Stream>::poll_next` on connection `c` -/
def Net.poll (n : Net) (c : Nat) : Net × Poll :=
  let (rest, p) := pollInner (n.inboxOf c)
  (n.setInbox c rest, p)

def Net.tick (n : Net) (k : Nat) : Net := { n with sys := (Relay.step n.sys (.tick k)).1 }

/-! ### scripts: what several parties do, one call at a time -/

inductive Op where
  | send (c : Nat) (frame : Bytes)         -- start_send(frame) on connection c
  | ask (c : Nat) (id : Id) (ttl : Nat)    -- Relay::ask(&id, ttl).await on connection c
  | skip (c : Nat)                         -- MaybeFeed::skip().await
  | poll (c : Nat)                         -- one poll_next on connection c
  | tick (secs : Nat)                      -- the clock advances
deriving DecidableEq, Repr

inductive Out where
  | sent (r : SendResult)
  | polled (p : Poll)
  | ticked
deriving DecidableEq, Repr

/-- run a script with a given step function, one output per operation -/
def runWith {σ : Type} (step : σ → Op → σ × Out) (s : σ) : List Op → σ × List Out
  | [] => (s, [])
  | op :: ops =>
      let (s', o) := step s op
      let (s'', os) := runWith step s' ops
      (s'', o :: os)

/-- plain `MessageRelay` connections, no wrapper.  `Relay::ask` feeds `AskMsg::allocate(id, ttl)`; a skipped feed
    resolves `Ok(())` and touches nothing. -/
def rawStep (n : Net) : Op → Net × Out
  | .send c f => let (n', r) := n.send c f; (n', .sent r)
  | .ask c id ttl => let (n', r) := n.send c (askAllocate id ttl); (n', .sent r)
  | .skip _ => (n, .sent .ok)
  | .poll c => let (n', p) := n.poll c; (n', .polled p)
  | .tick k => (n.tick k, .ticked)

/-- every connection wrapped in its own `RelayStats` -/
structure StatsSys where
  net : Net
  stats : List Stats

def StatsSys.new (conns : Nat) : StatsSys := { net := Net.new conns, stats := List.replicate conns {} }

def StatsSys.statsOf (y : StatsSys) (c : Nat) : Stats := y.stats.getD c {}

def StatsSys.sendThrough (y : StatsSys) (c : Nat) (f : Bytes) : StatsSys × Out :=
  let (st', f') := (y.statsOf c).startSend f
  let (n', r) := y.net.send c f'
  ({ net := n', stats := y.stats.set c st' }, .sent r)

def statsStep (y : StatsSys) : Op → StatsSys × Out
  | .send c f => y.sendThrough c f
  | .ask c id ttl => y.sendThrough c (askAllocate id ttl)
  | .skip _ => (y, .sent .ok)
  | .poll c =>
      let (st', rest, p) := (y.statsOf c).pollNext (y.net.inboxOf c)
      ({ net := y.net.setInbox c rest, stats := y.stats.set c st' }, .polled p)
  | .tick k => ({ y with net := y.net.tick k }, .ticked)

/-- `EvilMessageRelay`: one shared `EvilPlay`, party index = connection number -/
structure EvilSys where
  net : Net
  play : EvilPlay

def EvilSys.new (conns : Nat) (play : EvilPlay) : EvilSys := { net := Net.new conns, play := play }

def EvilSys.sendThrough (y : EvilSys) (c : Nat) (f : Bytes) : EvilSys × Out :=
  let (p', f') := y.play.startSend f
  let (n', r) := y.net.send c f'
  ({ net := n', play := p' }, .sent r)

def evilStep (y : EvilSys) : Op → EvilSys × Out
  | .send c f => y.sendThrough c f
  | .ask c id ttl => y.sendThrough c (askAllocate id ttl)
  | .skip _ => (y, .sent .ok)
  | .poll c =>
      let (p', rest, res) := y.play.pollNext c (y.net.inboxOf c)
      ({ net := y.net.setInbox c rest, play := p' }, .polled res)
  | .tick k => ({ y with net := y.net.tick k }, .ticked)

/-! ### `RelayStats` over a scripted inner relay (any `R: Relay`, incl. `Pending` and end of stream) -/

inductive MockOp where
  | poll
  | send (frame : Bytes)
deriving DecidableEq, Repr

structure MockSys where
  stats : Stats := {}
  script : List Ev
  /-- the frames the inner sink received, in order -/
  sunk : List Bytes := []

/-- the inner sink's verdict is a parameter (`accept`): the wrapper passes it on -/
def mockStep (accept : Bytes → SendResult) (y : MockSys) : MockOp → MockSys × Out
  | .poll =>
      let (st', rest, p) := y.stats.pollNext y.script
      ({ y with stats := st', script := rest }, .polled p)
  | .send f =>
      let (st', f') := y.stats.startSend f
      ({ y with stats := st', sunk := y.sunk ++ [f'] }, .sent (accept f'))

def mockRun (accept : Bytes → SendResult) (y : MockSys) : List MockOp → MockSys × List Out
  | [] => (y, [])
  | op :: ops =>
      let (y', o) := mockStep accept y op
      let (y'', os) := mockRun accept y' ops
      (y'', o :: os)

end SlVerif.Wrappers
