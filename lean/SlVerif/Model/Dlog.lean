import SlVerif.Model.Oracle
import SlVerif.Generated.Params
/-
  C14 model: crates/sl-oblivious/src/zkproofs.rs (DLogProof::{prove, verify, fiat_shamir}) and the transcript helpers
  of crates/sl-oblivious/src/lib.rs (TranscriptProtocol::{append_point, challenge_scalar, new_dlog_proof}).
  Points are their 33-byte GroupEncoding (identity = 33 zero bytes); all group arithmetic and merlin are oracle queries.
-/
namespace SlVerif.Dlog
open SlVerif

variable {m : Type → Type} [Monad m]

def identity33 : Bytes := List.replicate 33 0

/-- `point.to_encoded_point(true).as_bytes()`: SEC1 compressed; the identity is the single byte 0x00 -/
def sec1 (p : Bytes) : Bytes := if p = identity33 then [0] else p

/-- `Transcript::new_dlog_proof(session_id, party_id, action, label)` -/
def newDlogProof (sessionId : Bytes) (partyId : Nat) (action label : Bytes) : Transcript :=
  ((Transcript.new label).appendMessage (ascii "session_id") sessionId
    |>.appendU64 (ascii "party_id") partyId).appendMessage (ascii "action") action

/-- `DLogProof::fiat_shamir(y, t, base_point, transcript)` : the challenge scalar and the advanced transcript -/
def fiatShamir (O : Query → m Bytes) (y t base : Bytes) (tr : Transcript) : m (Nat × Transcript) := do
  let tr := tr.appendMessage (ascii "y") (sec1 y)
  let tr := tr.appendMessage (ascii "t") (sec1 t)
  let tr := tr.appendMessage (ascii "base-point") (sec1 base)
  let (buf, tr) ← challenge O tr (labelBytes Generated.DLOG_CHALLENGE_LABEL) 32
  pure (beToNat buf % secpQ, tr)

structure Proof where
  t : Bytes
  s : Nat
deriving DecidableEq, Repr

/-- `DLogProof::prove(x, base_point, transcript, rng)` ; also returns the statement `y = x·B` -/
def prove (O : Query → m Bytes) (x : Nat) (base : Bytes) (tr : Transcript) (tape : Tape) : m (Proof × Bytes × Tape) := do
  let (r, tape) := Tape.scalarRandom 64 tape
  let t ← O (.ecMul .secp256k1 base r)
  let y ← O (.ecMul .secp256k1 base x)
  let (c, _) ← fiatShamir O y t base tr
  let s := (r + c * x) % secpQ
  pure ({ t, s }, y, tape)

/-- `DLogProof::verify(&self, y, base_point, transcript)` -/
def verify (O : Query → m Bytes) (p : Proof) (y base : Bytes) (tr : Transcript) : m Bool := do
  let (c, _) ← fiatShamir O y p.t base tr
  let lhs ← O (.ecMul .secp256k1 base p.s)
  let yc ← O (.ecMul .secp256k1 y c)
  let rhs ← O (.ecAdd .secp256k1 p.t yc)
  pure (lhs == rhs)

/-- `prove` also ADVANCES the caller's transcript (it is passed as `&mut Transcript`): the state a following proof starts from -/
def proveAdv (O : Query → m Bytes) (x : Nat) (base : Bytes) (tr : Transcript) (tape : Tape) : m (Proof × Bytes × Tape × Transcript) := do
  let (r, tape) := Tape.scalarRandom 64 tape
  let t ← O (.ecMul .secp256k1 base r)
  let y ← O (.ecMul .secp256k1 base x)
  let (c, tr') ← fiatShamir O y t base tr
  let s := (r + c * x) % secpQ
  pure ({ t, s }, y, tape, tr')

/-- `verify` advances the verifier's transcript in the same way -/
def verifyAdv (O : Query → m Bytes) (p : Proof) (y base : Bytes) (tr : Transcript) : m (Bool × Transcript) := do
  let (c, tr') ← fiatShamir O y p.t base tr
  let lhs ← O (.ecMul .secp256k1 base p.s)
  let yc ← O (.ecMul .secp256k1 y c)
  let rhs ← O (.ecAdd .secp256k1 p.t yc)
  pure (lhs == rhs, tr')

end SlVerif.Dlog
