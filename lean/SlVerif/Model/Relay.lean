import SlVerif.Model.Basic
/-
  C15 / C16 model: crates/sl-mpc-mate/src/coord/simple.rs (Inner::{cleanup, send, recv}, MessageRelay::start_send,
  SimpleMessageRelay::send) and the header codec of crates/sl-mpc-mate/src/message.rs.

  * `HashMap<MsgId, MsgEntry>`  → association list with at most one entry per id (invariant `State.NoDup`)
  * `BinaryHeap<Expire>`        → the list of pushed `Expire`s in insertion order.  `cleanup(now)` pops every entry
                                   with `when ≤ now`; the effect of popping does not depend on the pop order
                                   (theorem `cleanup_perm`), which is why the model may process them in list order
                                   while the real heap uses its own tie order.
  * `Instant`                   → Nat seconds (virtual clock hook); TTLs are whole seconds on the wire.
  * `mpsc::Sender` of a connection → the connection number; a delivery is `(conn, frame)`.
-/
namespace SlVerif.Relay

def MESSAGE_ID_SIZE : Nat := 32
def MESSAGE_HEADER_SIZE : Nat := MESSAGE_ID_SIZE + 2 + 2

abbrev Id := Bytes

inductive Kind where
  | ask | pub
deriving DecidableEq, Repr

inductive Entry where
  | ready (msg : Bytes)
  | waiters (exp : Nat) (conns : List Nat)
deriving DecidableEq, Repr

structure Expire where
  when_ : Nat
  id : Id
  kind : Kind
deriving DecidableEq, Repr

structure State where
  msgs : List (Id × Entry) := []
  heap : List Expire := []
deriving DecidableEq, Repr

abbrev Delivery := Nat × Bytes

def lookup (id : Id) : List (Id × Entry) → Option Entry
  | [] => none
  | (k, v) :: rest => if k = id then some v else lookup id rest

def erase (id : Id) : List (Id × Entry) → List (Id × Entry)
  | [] => []
  | (k, v) :: rest => if k = id then erase id rest else (k, v) :: erase id rest

/-- insert or replace -/
def insert (id : Id) (e : Entry) (m : List (Id × Entry)) : List (Id × Entry) := (id, e) :: erase id m

/-- the body of the `while let Some(Expire(when,id,kind)) = peek()` loop for one popped entry -/
def cleanupOne (now : Nat) (msgs : List (Id × Entry)) (e : Expire) : List (Id × Entry) :=
  match lookup e.id msgs with
  | some (.ready _) => if e.kind = .pub then erase e.id msgs else msgs
  | some (.waiters exp _) => if e.kind = .ask ∧ exp ≤ now then erase e.id msgs else msgs
  | none => msgs

/-- `Inner::cleanup(now)` -/
def cleanup (now : Nat) (s : State) : State :=
  { msgs := (s.heap.filter (fun e => e.when_ ≤ now)).foldl (cleanupOne now) s.msgs
    heap := s.heap.filter (fun e => ¬ e.when_ ≤ now) }

/-- `Inner::send(msg)` for a frame longer than the header, with decoded `id`, `ttl` -/
def send (s : State) (id : Id) (ttl : Nat) (frame : Bytes) (now : Nat) : State × List Delivery :=
  let s := cleanup now s
  let expire := now + ttl
  match lookup id s.msgs with
  | some (.waiters _ conns) =>
      ({ msgs := insert id (.ready frame) s.msgs, heap := s.heap ++ [⟨expire, id, .pub⟩] },
       conns.map fun c => (c, frame))
  | some (.ready _) => (s, [])
  | none => ({ msgs := insert id (.ready frame) s.msgs, heap := s.heap ++ [⟨expire, id, .pub⟩] }, [])

/-- `Inner::recv(id, ttl, tx)`; the immediate answer is returned as a delivery to `conn` -/
def recv (s : State) (conn : Nat) (id : Id) (ttl : Nat) (now : Nat) : State × List Delivery :=
  let s := cleanup now s
  let expire := now + ttl
  match lookup id s.msgs with
  | some (.ready msg) => (s, [(conn, msg)])
  | some (.waiters prev conns) =>
      ({ msgs := insert id (.waiters (max expire prev) (conns ++ [conn])) s.msgs
         heap := s.heap ++ [⟨expire, id, .ask⟩] }, [])
  | none =>
      ({ msgs := insert id (.waiters expire [conn]) s.msgs, heap := s.heap ++ [⟨expire, id, .ask⟩] }, [])

/-! ### header codec (message.rs) -/

/-- `MsgHdr::encode(hdr, id, ttl: u32, flags: u16)`; `id` must be 32 bytes -/
def encodeHdr (id : Id) (ttl flags : Nat) : Bytes :=
  let data := ((ttl % 2^32) &&& 0xffff) ||| ((flags % 2^16) <<< 16)
  id ++ natToLe 4 data

/-- `allocate_message(id, ttl, flags, payload)` -/
def allocateMessage (id : Id) (ttl flags : Nat) (payload : Bytes) : Bytes := encodeHdr id ttl flags ++ payload

structure Hdr where
  id : Id
  ttl : Nat
  flags : Nat
deriving DecidableEq, Repr

/-- `<&MsgHdr>::try_from(bytes)` + `id()`, `ttl()`, `flags()`: needs at least MESSAGE_HEADER_SIZE bytes -/
def decodeHdr? (frame : Bytes) : Option Hdr :=
  if frame.length < MESSAGE_HEADER_SIZE then none
  else some { id := frame.take MESSAGE_ID_SIZE
              ttl := leToNat ((frame.drop MESSAGE_ID_SIZE).take 2)
              flags := leToNat ((frame.drop (MESSAGE_ID_SIZE + 2)).take 2) }

inductive SendResult where
  | ok
  | sendError          -- Err(MessageSendError)
  | panic              -- assert!/unwrap under the relay lock
deriving DecidableEq, Repr

/-- `<MessageRelay as Sink>::start_send(item)` on connection `conn` -/
def startSend (s : State) (conn : Nat) (frame : Bytes) (now : Nat) : State × List Delivery × SendResult :=
  match decodeHdr? frame with
  | none => (s, [], .sendError)
  | some h =>
      if frame.length = MESSAGE_HEADER_SIZE then
        let (s', d) := recv s conn h.id h.ttl now
        (s', d, .ok)
      else
        let (s', d) := send s h.id h.ttl frame now
        (s', d, .ok)

/-- `SimpleMessageRelay::send(msg)`: frames that are not longer than a header carry no payload and are ignored
    (fix: commit for D6; before it `Inner::send` asserted and the panic poisoned the relay's mutex). -/
def serviceSend (s : State) (frame : Bytes) (now : Nat) : State × List Delivery × SendResult :=
  match decodeHdr? frame with
  | none => (s, [], .ok)
  | some h =>
      if frame.length ≤ MESSAGE_HEADER_SIZE then (s, [], .ok)
      else
        let (s', d) := send s h.id h.ttl frame now
        (s', d, .ok)

/-! ### operations and histories -/

inductive Op where
  | frame (conn : Nat) (bytes : Bytes)     -- start_send on a connection (ask or publish, by length)
  | service (bytes : Bytes)                -- SimpleMessageRelay::send
  | tick (secs : Nat)                      -- the clock advances
deriving DecidableEq, Repr

structure Sys where
  st : State := {}
  now : Nat := 0
deriving Repr

def step (y : Sys) : Op → Sys × List Delivery × SendResult
  | .frame c b => let (s, d, r) := startSend y.st c b y.now; ({ y with st := s }, d, r)
  | .service b => let (s, d, r) := serviceSend y.st b y.now; ({ y with st := s }, d, r)
  | .tick k => ({ y with now := y.now + k }, [], .ok)

/-- run a history, collecting the deliveries of every step -/
def run (y : Sys) : List Op → Sys × List (List Delivery)
  | [] => (y, [])
  | op :: ops =>
      let (y', d, _) := step y op
      let (y'', ds) := run y' ops
      (y'', d :: ds)

end SlVerif.Relay
