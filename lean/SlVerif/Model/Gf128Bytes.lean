import SlVerif.Model.Basic
import SlVerif.Model.Gf128
import SlVerif.Generated.Params
/-
  C19, literal byte-level model of `binary_field_multiply_gf_2_128`
  (crates/sl-oblivious/src/soft_spoken/mul_poly.rs), statement by statement, on u8 arrays:

      let mut c = [0u8; T * 2];  let mut b = [0u8; T + 1];  b[..16].copy_from_slice(b_data);
      for k in 0..W {
          for j in 0..T {
              let mask = -((a[j] >> k & 0x01) as i8) as u8;
              for i in 0..T + 1 { c[j + i] ^= b[i] & mask; }
          }
          for i in (1..=T).rev() { b[i] = (b[i] << 1) | (b[i - 1] >> 7); }
          b[0] <<= 1
      }
      for i in (T..=2 * T - 1).rev() { <seven tap statements> }
      c[..16]

  A u8 is a `Nat < 256`; `x << s` on u8 is `(x <<< s) % 256`; `-(x as i8) as u8` is `(256 - x) % 256`.
  All array indices of the code are in bounds, so the out-of-range behaviour of `rd`/`wr` is never
  exercised.  `SlVerif.C19.mulBytes_eq` proves this model equal to the integer-level `Gf.mul`.
-/
namespace SlVerif.Gf
open SlVerif.Generated

/-- `c[i]` -/
@[inline] def rd (c : Array Nat) (i : Nat) : Nat := c.getD i 0
/-- `c[i] = v` -/
@[inline] def wr (c : Array Nat) (i v : Nat) : Array Nat := c.setIfInBounds i v
/-- `c[i] ^= v` -/
@[inline] def xorAt (c : Array Nat) (i v : Nat) : Array Nat := wr c i (rd c i ^^^ v)

/-- `for i in 0..T + 1 { c[j + i] ^= b[i] & mask; }` -/
def combRow (b : Array Nat) (mask j : Nat) (c : Array Nat) : Array Nat :=
  (List.range (GF_T + 1)).foldl (fun c i => xorAt c (j + i) (rd b i &&& mask)) c

/-- `let mask = -((a[j] >> k & 0x01) as i8) as u8;` -/
def maskOf (a : Array Nat) (j k : Nat) : Nat := (256 - ((rd a j >>> k) &&& 0x01)) % 256

/-- `for j in 0..T { let mask = …; for i in 0..T+1 { … } }` -/
def combCol (a b : Array Nat) (k : Nat) (c : Array Nat) : Array Nat :=
  (List.range GF_T).foldl (fun c j => combRow b (maskOf a j k) j c) c

/-- `for i in (1..=T).rev() { b[i] = (b[i] << 1) | (b[i - 1] >> 7); }  b[0] <<= 1` -/
def shlB (b : Array Nat) : Array Nat :=
  let b := (List.range' 1 GF_T).reverse.foldl
    (fun b i => wr b i (((rd b i <<< 1) % 256) ||| (rd b (i - 1) >>> 7))) b
  wr b 0 ((rd b 0 <<< 1) % 256)

/-- the first loop nest: returns the 32-byte accumulator `c` -/
def combBytes (a bData : Bytes) : Array Nat :=
  let c0 : Array Nat := Array.replicate (GF_T * 2) 0
  let b0 : Array Nat := (bData ++ List.replicate (GF_T + 1 - 16) 0).toArray
  ((List.range GF_W).foldl
    (fun (cb : Array Nat × Array Nat) k => (combCol a.toArray cb.2 k cb.1, shlB cb.2)) (c0, b0)).1

/-- body of the second loop, the seven statements in source order; the shift amounts are the
    translator's `GF_TAPS_LOW = [l0,l1,l2,l3]` (statements 1,2,4,6) and
    `GF_TAPS_HIGH = [h0,h1,h2]` (statements 3,5,7), both in source order. -/
def foldBytes (c : Array Nat) (i : Nat) : Array Nat :=
  match GF_TAPS_LOW, GF_TAPS_HIGH with
  | [l0, l1, l2, l3], [h0, h1, h2] =>
    let c := xorAt c (i - 16) ((rd c i <<< l0) % 256)   -- c[i - 16] ^= c[i];
    let c := xorAt c (i - 16) ((rd c i <<< l1) % 256)   -- c[i - 16] ^= c[i] << 1;
    let c := xorAt c (i - 15) (rd c i >>> h0)           -- c[i - 15] ^= c[i] >> 7;
    let c := xorAt c (i - 16) ((rd c i <<< l2) % 256)   -- c[i - 16] ^= c[i] << 2;
    let c := xorAt c (i - 15) (rd c i >>> h1)           -- c[i - 15] ^= c[i] >> 6;
    let c := xorAt c (i - 16) ((rd c i <<< l3) % 256)   -- c[i - 16] ^= c[i] << 7;
    let c := xorAt c (i - 15) (rd c i >>> h2)           -- c[i - 15] ^= c[i] >> 1;
    c
  | _, _ => c   -- unreachable for the generated constants (the proof would fail otherwise)

/-- `for i in (T..=2 * T - 1).rev() { … }` -/
def reduceBytes (c : Array Nat) : Array Nat :=
  (List.range' GF_T GF_T).reverse.foldl foldBytes c

/-- `binary_field_multiply_gf_2_128(a, b_data)`; result `c[..16]` -/
def mulBytes (a bData : Bytes) : Bytes :=
  (reduceBytes (combBytes a bData)).toList.take 16

end SlVerif.Gf
