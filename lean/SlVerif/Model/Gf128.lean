import SlVerif.Generated.Params
/-
  C19 model: binary_field_multiply_gf_2_128 (crates/sl-oblivious/src/soft_spoken/mul_poly.rs)
  at the level the Rust computes, on little-endian integers:
    * comb accumulation  c ^= (b << k) << 8j   for every set bit 8j+k of a  (k outer, j inner)
    * reduction for i = 31 … 16:  fold byte i with  byte ^ byte<<1 ^ byte<<2 ^ byte<<7  placed at
      byte i-16, WITHOUT clearing byte i (as the code), result = low 16 bytes.
-/
namespace SlVerif.Gf
open SlVerif.Generated

/-- right-to-left comb (Algorithm 2.34), Nat level.  `W`,`T` are the code's constants. -/
def clmulComb (W T : Nat) (a b : Nat) : Nat :=
  (List.range W).foldl (fun c k =>
    (List.range T).foldl (fun c j =>
      if a.testBit (W*j+k) then c ^^^ ((b <<< k) <<< (W*j)) else c) c) 0

/-- one reduction step of the code's second loop, for byte index `i` (16 ≤ i ≤ 31), with u8 semantics:
    `c[i-16] ^= c[i] << s` (truncated to 8 bits) for every low tap, `c[i-15] ^= c[i] >> s` for every high tap.
    The taps are read from the source by the translator (Generated.GF_TAPS_LOW / GF_TAPS_HIGH). -/
def foldByte (c : Nat) (i : Nat) : Nat :=
  let byte := (c >>> (8*i)) &&& 0xff
  let lo := GF_TAPS_LOW.foldl (fun acc s => acc ^^^ ((byte <<< s) &&& 0xff)) 0
  let hi := GF_TAPS_HIGH.foldl (fun acc s => acc ^^^ (byte >>> s)) 0
  (c ^^^ (lo <<< (8*(i-16)))) ^^^ (hi <<< (8*(i-15)))

def reduce (c : Nat) : Nat :=
  ((List.range' GF_T GF_T).reverse.foldl foldByte c) % 2^(8*GF_T)

def mul (a b : Nat) : Nat := reduce (clmulComb GF_W GF_T a b)

/-! Independent bit-serial reference (the executable form of the specification):
    shift-and-add with reduction by x^128 = x^7+x^2+x+1 after every doubling. -/
def xtime (b : Nat) : Nat :=
  let b2 := b <<< 1
  if b2.testBit 128 then (b2 ^^^ (1 <<< 128)) ^^^ 0x87 else b2

def specMulAux : Nat → Nat → Nat → Nat → Nat → Nat
  | 0, _, _, _, acc => acc
  | n+1, i, a, b, acc =>
      specMulAux n (i+1) a (xtime b) (if a.testBit i then acc ^^^ b else acc)

def specMul (a b : Nat) : Nat := specMulAux 128 0 a (b % 2^128) 0

end SlVerif.Gf
