import SlVerif.Model.Oracle
/-
  C12 model: crates/sl-mpc-mate/src/bip32.rs  (`derive_child_pubkey`, `get_finger_print`, `derive_xpub`,
  `XPubKey::to_string`, `base58_encode`, `Prefix`, `BIP32Error`).

  Points are their 33-byte GroupEncoding (identity = 33 zero bytes, `Dlog` convention); HMAC-SHA512, SHA-256,
  RIPEMD-160 and the secp256k1 operations are oracle queries.  Base58 is implemented natively below.
  A derivation path is the list of its `ChildIndex::to_bits()` values (u32, hardened = bit 31).

  The model is the code AS REPAIRED for D2/D3 (DESIGN §7): `derive_xpub` first rejects the identity root with
  `PubkeyPointAtInfinity`, then a path of more than 255 components with `PathTooDeep`; everything else is
  the code as it stands.  The two Rust `expect`s (`get_finger_print` on the 1-byte encoding of the identity,
  `to_string` on a serialisation that is not 78 bytes long) are the `panic` constructor of `Outcome`;
  `Props/C12.lean` proves that `deriveXpub` never reaches it.
-/
namespace SlVerif.Bip32
open SlVerif

variable {m : Type → Type} [Monad m]

/-- `BIP32Error`, plus the variant the D2 repair adds -/
inductive Err where
  | hardenedChildNotSupported
  | invalidChainCode            -- `Hmac::new_from_slice` accepts every key length: never produced
  | pubkeyPointAtInfinity
  | invalidChildScalar
  | pathTooDeep                 -- added by the repair of D2 (depth does not fit the `u8`)
deriving DecidableEq, Repr

def Err.name : Err → String
  | .hardenedChildNotSupported => "HardenedChildNotSupported"
  | .invalidChainCode => "InvalidChainCode"
  | .pubkeyPointAtInfinity => "PubkeyPointAtInfinity"
  | .invalidChildScalar => "InvalidChildScalar"
  | .pathTooDeep => "PathTooDeep"

/-- what a call can do: return `Ok`, return `Err`, or panic (`expect`/`unwrap`) -/
inductive Outcome (α : Type) where
  | ok (a : α)
  | err (e : Err)
  | panic (msg : String)
deriving DecidableEq, Repr

def identity33 : Bytes := List.replicate 33 0

/-- `point.to_encoded_point(true).as_bytes()`: SEC1 compressed; the identity is the single byte 0x00 -/
def sec1 (p : Bytes) : Bytes := if p = identity33 then [0] else p

def hardenedBit : Nat := 2^31

/-- `ChildIndex::is_normal` on the `to_bits()` value -/
def isNormal (idx : Nat) : Bool := idx < hardenedBit

/-- `ChildIndex::to_u32`: the index without the hardened flag -/
def toU32 (idx : Nat) : Nat := idx % hardenedBit

/-! ### `Prefix` -/
def xpubVersion : Nat := 0x0488b21e
def ypubVersion : Nat := 0x049d7cb2
def zpubVersion : Nat := 0x04b24746
def tpubVersion : Nat := 0x043587cf

/-- the result of one `derive_child_pubkey`: `(Scalar, ProjectivePoint, [u8; 32])` -/
structure Child where
  offset : Nat
  key : Bytes
  chainCode : Bytes
deriving DecidableEq, Repr

/-- `derive_child_pubkey(parent_pubkey, parent_chain_code, child_number)` -/
def deriveChild (O : Query → m Bytes) (parent chainCode : Bytes) (idx : Nat) : m (Outcome Child) := do
  -- `Hmac::new_from_slice(&parent_chain_code)` cannot fail
  if !isNormal idx then return .err .hardenedChildNotSupported
  let r ← O (.hmacSha512 chainCode (sec1 parent ++ natToBe 4 idx))
  let il := beToNat (r.take 32)
  let cc := r.drop 32
  -- `il_int > Secp256k1::ORDER` (BIP32 says `>=`: see Props/C12 `impl_eq_spec_partial`)
  if il > secpQ then return .err .invalidChildScalar
  let offset := il % secpQ                                  -- `Scalar::reduce(il_int)`
  let pk ← O (.ecMulGen .secp256k1 offset)
  let child ← O (.ecAdd .secp256k1 pk parent)              -- `pubkey + parent_pubkey`
  if child = identity33 then return .err .pubkeyPointAtInfinity
  return .ok { offset, key := child, chainCode := cc }

/-- `get_finger_print(public_key)`; the `expect("compressed pubkey must be 33 bytes")` fires on the identity -/
def fingerprint (O : Query → m Bytes) (p : Bytes) : m (Outcome Bytes) := do
  if (sec1 p).length ≠ 33 then return .panic "compressed pubkey must be 33 bytes"
  let d ← O (.sha256 (sec1 p))
  let r ← O (.ripemd160 d)
  return .ok (r.take 4)

/-- `XPubKey` -/
structure XPub where
  version : Nat            -- `u32::from(prefix)`
  depth : Nat
  parentFp : Bytes
  childNumber : Nat
  chainCode : Bytes
  key : Bytes
deriving DecidableEq, Repr

/-- loop state of `derive_xpub`: current key, chain code, last parent fingerprint, offsets so far (oldest first) -/
structure Walk where
  key : Bytes
  chainCode : Bytes
  parentFp : Bytes
  offsets : List Nat
deriving DecidableEq, Repr

/-- the `for child_num in path` loop of `derive_xpub` -/
def walk (O : Query → m Bytes) (s : Walk) : List Nat → m (Outcome Walk)
  | [] => pure (.ok s)
  | idx :: rest => do
      match ← fingerprint O s.key with
      | .panic msg => return .panic msg
      | .err e => return .err e
      | .ok fp =>
        match ← deriveChild O s.key s.chainCode idx with
        | .panic msg => return .panic msg
        | .err e => return .err e
        | .ok c => walk O { key := c.key, chainCode := c.chainCode, parentFp := fp, offsets := s.offsets ++ [c.offset] } rest

/-- `final_child_num.to_u32()`: the last component without its flag, `Normal(0)` for the empty path -/
def finalChildNumber (path : List Nat) : Nat := toU32 (path.getLastD 0)

/-- `derive_xpub(prefix, root_public_key, root_chain_code, chain_path)` as repaired, together with the offsets the
    loop's `derive_child_pubkey` calls returned (the code drops them) -/
def deriveXpubOffsets (O : Query → m Bytes) (version : Nat) (root chainCode : Bytes) (path : List Nat) :
    m (Outcome (XPub × List Nat)) := do
  if root = identity33 then return .err .pubkeyPointAtInfinity        -- repair of D3
  if path.length > 255 then return .err .pathTooDeep                  -- repair of D2
  match ← walk O { key := root, chainCode, parentFp := [0, 0, 0, 0], offsets := [] } path with
  | .panic msg => return .panic msg
  | .err e => return .err e
  | .ok w =>
    return .ok ({ version, depth := path.length, parentFp := w.parentFp, childNumber := finalChildNumber path,
                  chainCode := w.chainCode, key := w.key }, w.offsets)

def deriveXpub (O : Query → m Bytes) (version : Nat) (root chainCode : Bytes) (path : List Nat) : m (Outcome XPub) := do
  match ← deriveXpubOffsets O version root chainCode path with
  | .ok (x, _) => return .ok x
  | .err e => return .err e
  | .panic msg => return .panic msg

/-! ### serialisation -/

/-- the concatenation inside `XPubKey::to_string` -/
def serialize (x : XPub) : Bytes :=
  natToBe 4 x.version ++ natToBe 1 x.depth ++ x.parentFp ++ natToBe 4 x.childNumber ++ x.chainCode ++ sec1 x.key

/-- little-endian digits of `n` in base `b`; `fuel ≥ n` always suffices (each step divides by `b ≥ 2`) -/
def digitsAux (b : Nat) : Nat → Nat → List Nat
  | 0, _ => []
  | fuel+1, n => if n = 0 then [] else (n % b) :: digitsAux b fuel (n / b)

def digitsLE (b n : Nat) : List Nat := digitsAux b n n

def alphabet : List Char := "123456789ABCDEFGHJKLMNPQRSTUVWXYZabcdefghijkmnopqrstuvwxyz".toList

/-- number of leading elements equal to `a` -/
def countLeading {α : Type} [DecidableEq α] (a : α) : List α → Nat
  | [] => 0
  | x :: xs => if x = a then countLeading a xs + 1 else 0

/-- `bs58::encode(..).with_alphabet(BITCOIN)`: one '1' per leading zero byte, then the number in base 58 -/
def base58Encode (bs : Bytes) : List Char :=
  List.replicate (countLeading 0 bs) '1' ++ ((digitsLE 58 (beToNat bs)).reverse.map (fun d => alphabet.getD d '1'))

/-- inverse of `base58Encode` (`none` on a character outside the alphabet) -/
def base58Decode (cs : List Char) : Option Bytes :=
  if cs.all (fun c => alphabet.contains c) then
    let z := countLeading '1' cs
    let n := (cs.map (fun c => alphabet.idxOf c)).foldl (fun acc d => acc * 58 + d) 0
    some (List.replicate z 0 ++ (digitsLE 256 n).reverse)
  else none

/-- `base58_encode(serialized)`: payload ‖ first 4 bytes of SHA256(SHA256(payload)), in Base58 -/
def base58Check (O : Query → m Bytes) (payload : Bytes) : m String := do
  let d1 ← O (.sha256 payload)
  let d2 ← O (.sha256 d1)
  return String.ofList (base58Encode (payload ++ d2.take 4))

/-- `XPubKey::to_string(encoded)`; the `expect("… must be 78 bytes")` fires when the key is the identity -/
def toString (O : Query → m Bytes) (x : XPub) (encoded : Bool) : m (Outcome String) := do
  let s := serialize x
  if s.length ≠ 78 then return .panic "Invalid serialized extended public key length, must be 78 bytes"
  if encoded then return .ok (← base58Check O s) else return .ok (bytesToHex s)

end SlVerif.Bip32
