import Mathlib.FieldTheory.Finite.Basic
import Mathlib.Data.Nat.Totient
import Mathlib.Data.Nat.ModEq
import Mathlib.Data.Int.ModEq
import Mathlib.Data.ZMod.Basic
import Mathlib.Tactic.Ring
import Mathlib.Tactic.Linarith
import Mathlib.Tactic.NormNum
import SlVerif.Model.Paillier
/-
  Helper lemmas for C07 / C08 (Paillier): correctness of the executable primitives of the model
  (`powMod`, `invMod`, fixed-width wrap-arounds), the domain predicate `ValidKey`, and the values of the key fields.
-/
namespace SlVerif.Paillier

/-- the domain of C07/C08: `p`, `q` distinct odd primes that fit `Uint<P>`, with `gcd(pq, (p-1)(q-1)) = 1` -/
structure ValidKey (P p q : Nat) : Prop where
  pp : p.Prime
  pq : q.Prime
  oddp : p % 2 = 1
  oddq : q % 2 = 1
  ne : p ≠ q
  cop : Nat.Coprime (p * q) ((p - 1) * (q - 1))
  ltp : p < 2 ^ P
  ltq : q < 2 ^ P

/-! ### modular exponentiation -/

theorem powMod_eq (m : Nat) : ∀ (fuel b e : Nat), e < 2 ^ fuel → powMod m fuel b e = b ^ e % m := by
  intro fuel
  induction fuel with
  | zero =>
      intro b e he
      have : e = 0 := by simpa using he
      subst this; simp [powMod]
  | succ k ih =>
      intro b e he
      unfold powMod
      by_cases h0 : e = 0
      · subst h0; simp
      · simp only [h0, if_false]
        have hlt : e / 2 < 2 ^ k := by
          rw [Nat.div_lt_iff_lt_mul (by norm_num)]; rw [pow_succ] at he; exact he
        rw [ih _ _ hlt]
        have hbb : (b * b % m) ^ (e / 2) % m = (b ^ 2) ^ (e / 2) % m := by
          rw [← Nat.pow_mod, pow_two]
        rw [hbb, ← pow_mul]
        by_cases hodd : e % 2 = 1
        · simp only [hodd, if_true]
          rw [Nat.mod_mul_mod]
          have : e = 2 * (e / 2) + 1 := by omega
          conv_rhs => rw [this, pow_succ]
        · simp only [hodd, if_false]
          have : e = 2 * (e / 2) := by omega
          conv_rhs => rw [this]

theorem powBounded_eq (m b e bits : Nat) : powBounded m b e bits = b ^ (e % 2 ^ bits) % m := by
  unfold powBounded
  rw [powMod_eq m bits _ _ (Nat.mod_lt _ (by positivity)), ← Nat.pow_mod]

theorem lt_two_pow_bitsVartime (n : Nat) : n < 2 ^ bitsVartime n := by
  unfold bitsVartime
  split
  · subst_vars; simp
  · exact Nat.lt_log2_self

theorem specPowLoop_eq (m : Nat) : ∀ (fuel acc b e : Nat), e < 2 ^ fuel →
    specPowLoop m fuel acc b e % m = acc * b ^ e % m := by
  intro fuel
  induction fuel with
  | zero =>
      intro acc b e he
      have : e = 0 := by simpa using he
      subst this; simp [specPowLoop]
  | succ k ih =>
      intro acc b e he
      unfold specPowLoop
      by_cases h0 : e = 0
      · subst h0; simp
      · simp only [h0, if_false]
        have hlt : e / 2 < 2 ^ k := by
          rw [Nat.div_lt_iff_lt_mul (by norm_num)]; rw [pow_succ] at he; exact he
        rw [ih _ _ _ hlt]
        have hbb : ∀ x, x * (b * b % m) ^ (e / 2) % m = x * (b ^ 2) ^ (e / 2) % m := by
          intro x
          rw [Nat.mul_mod, ← Nat.pow_mod, ← Nat.mul_mod, pow_two]
        rw [hbb, ← pow_mul]
        by_cases hodd : e % 2 = 1
        · simp only [hodd, if_true]
          have : e = 2 * (e / 2) + 1 := by omega
          conv_rhs => rw [this, pow_succ]
          rw [Nat.mul_mod, Nat.mod_mod, ← Nat.mul_mod]
          ring_nf
        · simp only [hodd, if_false]
          have : e = 2 * (e / 2) := by omega
          conv_rhs => rw [this]

theorem specPowLoop_lt (m : Nat) (hm : 0 < m) : ∀ (fuel acc b e : Nat), acc < m →
    specPowLoop m fuel acc b e < m := by
  intro fuel
  induction fuel with
  | zero => intro acc b e h; simpa [specPowLoop] using h
  | succ k ih =>
      intro acc b e h
      unfold specPowLoop
      split
      · exact h
      · apply ih
        split
        · exact Nat.mod_lt _ hm
        · exact h

theorem specPowMod_eq (b e m : Nat) : specPowMod b e m = b ^ e % m := by
  unfold specPowMod
  rcases Nat.eq_zero_or_pos m with rfl | hm
  · -- modulus 0: `x % 0 = x`
    have h := specPowLoop_eq 0 (e.log2 + 1) (1 % 0) (b % 0) e Nat.lt_log2_self
    simpa using h
  · have h := specPowLoop_eq m (e.log2 + 1) (1 % m) (b % m) e Nat.lt_log2_self
    rw [Nat.mod_eq_of_lt (specPowLoop_lt m hm _ _ _ _ (Nat.mod_lt _ hm))] at h
    rw [h, Nat.mul_mod, Nat.mod_mod, ← Nat.pow_mod, ← Nat.mul_mod, one_mul]

/-! ### modular inverse -/

theorem xgcdAux_spec (m A : Int) : ∀ (fuel r0 r1 : Nat) (s0 s1 : Int), r1 ≤ fuel →
    (r0 : Int) ≡ s0 * A [ZMOD m] → (r1 : Int) ≡ s1 * A [ZMOD m] →
    ((Nat.gcd r0 r1 : Nat) : Int) ≡ xgcdAux fuel r0 r1 s0 s1 * A [ZMOD m] := by
  intro fuel
  induction fuel with
  | zero =>
      intro r0 r1 s0 s1 h h0 _
      have : r1 = 0 := by omega
      subst this
      simpa [xgcdAux] using h0
  | succ k ih =>
      intro r0 r1 s0 s1 h h0 h1
      unfold xgcdAux
      by_cases hr : r1 = 0
      · subst hr; simpa using h0
      · simp only [hr, if_false]
        have hlt : r0 % r1 < r1 := Nat.mod_lt _ (Nat.pos_of_ne_zero hr)
        have hg : Nat.gcd r0 r1 = Nat.gcd r1 (r0 % r1) := by
          rw [Nat.gcd_comm r0 r1, Nat.gcd_rec r1 r0, Nat.gcd_comm]
        rw [hg]
        apply ih _ _ _ _ (by omega) h1
        have hmod : ((r0 % r1 : Nat) : Int) = (r0 : Int) - (r1 : Int) * ((r0 / r1 : Nat) : Int) := by
          have := Nat.div_add_mod r0 r1
          have h2 : ((r1 * (r0 / r1) + r0 % r1 : Nat) : Int) = (r0 : Int) := by rw [this]
          push_cast at h2 ⊢
          linarith
        rw [hmod]
        have := (h0.sub (h1.mul_right ((r0 / r1 : Nat) : Int)))
        calc (r0 : Int) - (r1 : Int) * ((r0 / r1 : Nat) : Int)
            = (r0 : Int) - (r1 : Int) * ((r0 / r1 : Nat) : Int) := rfl
          _ ≡ s0 * A - s1 * A * ((r0 / r1 : Nat) : Int) [ZMOD m] := this
          _ = (s0 - ((r0 / r1 : Nat) : Int) * s1) * A := by ring

theorem invMod_lt (a m : Nat) (hm : 0 < m) : invMod a m < m := by
  unfold invMod
  have hm' : (0 : Int) < (m : Int) := by exact_mod_cast hm
  have h1 := Int.emod_lt_of_pos (xgcdAux m m (a % m) 0 1) hm'
  have h2 := Int.emod_nonneg (xgcdAux m m (a % m) 0 1) (ne_of_gt hm')
  omega

theorem invMod_spec (a m : Nat) (hm : 0 < m) (h : Nat.Coprime a m) : a * invMod a m ≡ 1 [MOD m] := by
  have hm' : (0 : Int) < (m : Int) := by exact_mod_cast hm
  have hs := xgcdAux_spec (m : Int) ((a % m : Nat) : Int) m m (a % m) 0 1
    (Nat.le_of_lt (Nat.mod_lt _ hm))
    (by rw [zero_mul]; exact Int.modEq_zero_iff_dvd.mpr (dvd_refl _))
    (by rw [one_mul])
  have hg : Nat.gcd m (a % m) = 1 := by
    rw [Nat.gcd_comm, ← Nat.gcd_rec, Nat.gcd_comm]; exact h
  rw [hg] at hs
  set s := xgcdAux m m (a % m) 0 1 with hsdef
  have hinv : ((invMod a m : Nat) : Int) = s % (m : Int) := by
    unfold invMod
    rw [Int.toNat_of_nonneg (Int.emod_nonneg _ (ne_of_gt hm'))]
  rw [← Int.natCast_modEq_iff]
  push_cast
  rw [hinv]
  have ha : ((a % m : Nat) : Int) ≡ (a : Int) [ZMOD m] := by
    push_cast; exact Int.mod_modEq _ _
  have hsm : s % (m : Int) ≡ s [ZMOD m] := Int.mod_modEq _ _
  calc (a : Int) * (s % (m : Int)) ≡ (a : Int) * s [ZMOD m] := hsm.mul_left _
    _ = s * (a : Int) := by ring
    _ ≡ s * ((a % m : Nat) : Int) [ZMOD m] := (ha.symm.mul_left _)
    _ ≡ ((1 : Nat) : Int) [ZMOD m] := hs.symm
    _ = 1 := by norm_num

/-! ### fixed-width wrap-arounds -/

theorem wrappingSub_eq {w a b : Nat} (hba : b ≤ a) (ha : a < 2 ^ w) : wrappingSub w a b = a - b := by
  unfold wrappingSub
  have : a + 2 ^ w - b = (a - b) + 2 ^ w := by omega
  rw [this, Nat.add_mod_right, Nat.mod_eq_of_lt (by omega)]

theorem wrappingAdd_eq {w a b : Nat} (h : a + b < 2 ^ w) : wrappingAdd w a b = a + b := by
  unfold wrappingAdd; exact Nat.mod_eq_of_lt h

theorem resize_eq {w a : Nat} (h : a < 2 ^ w) : resize w a = a := by
  unfold resize; exact Nat.mod_eq_of_lt h

theorem subMod_of_le {w a b p : Nat} (hba : b ≤ a) (ha : a < 2 ^ w) : subMod w a b p = a - b := by
  unfold subMod
  have : ¬ a < b := by omega
  simp only [this, decide_false, Bool.false_eq_true, if_false]
  rw [wrappingSub_eq hba ha, wrappingAdd_eq (by omega)]; rfl

theorem subMod_of_lt {w a b p : Nat} (hab : a < b) (hb : b ≤ 2 ^ w) (hbp : b ≤ a + p)
    (hr : a + p - b < 2 ^ w) : subMod w a b p = a + p - b := by
  unfold subMod
  simp only [hab, decide_true, if_true]
  unfold wrappingSub wrappingAdd
  have h1 : (a + 2 ^ w - b) % 2 ^ w = a + 2 ^ w - b := Nat.mod_eq_of_lt (by omega)
  rw [h1]
  have : a + 2 ^ w - b + p = (a + p - b) + 2 ^ w := by omega
  rw [this, Nat.add_mod_right, Nat.mod_eq_of_lt hr]

theorem sq_lt_two_pow {P p : Nat} (hp : p < 2 ^ P) : p * p < 2 ^ (2 * P) := by
  have : 2 ^ (2 * P) = 2 ^ P * 2 ^ P := by rw [two_mul, pow_add]
  rw [this]; exact Nat.mul_lt_mul'' hp hp

theorem mul_lt_two_pow {P p q : Nat} (hp : p < 2 ^ P) (hq : q < 2 ^ P) : p * q < 2 ^ (2 * P) := by
  have : 2 ^ (2 * P) = 2 ^ P * 2 ^ P := by rw [two_mul, pow_add]
  rw [this]; exact Nat.mul_lt_mul'' hp hq

end SlVerif.Paillier
