import SlVerif.Model.Wrappers
/-
  Helper lemmas for Props/Wrappers.lean about Model/Wrappers.lean.  Core Lean only.

  * little-endian codec: `natToLe_append`, `natToLe_mod`, `natToLe_inj`
  * the 64-bit word of `tag1` / `tag2`
  * header of `AskMsg::allocate`
  * `swapRemove` is a permutation of erasing index `i`; `firstTrue` finds the first index whose condition holds
  * vocabulary of the run theorems: `sentBy`, `recvBy`, `sentAll`, `nonPollOuts`, `injectedAt`, `injectedCount`
-/
namespace SlVerif.Wrappers
open SlVerif.Relay (Id Hdr decodeHdr? allocateMessage encodeHdr MESSAGE_HEADER_SIZE MESSAGE_ID_SIZE Delivery SendResult Sys)

/-! ## little-endian bytes -/

theorem natToLe_append (m n x : Nat) : natToLe (m + n) x = natToLe m x ++ natToLe n (x / 256 ^ m) := by
  induction m generalizing x with
  | zero => simp [natToLe]
  | succ k ih =>
      rw [show k + 1 + n = (k + n) + 1 from by omega]
      simp only [natToLe, List.cons_append]
      rw [ih, Nat.div_div_eq_div_mul, Nat.pow_succ']

theorem natToLe_mod (m x : Nat) : natToLe m (x % 256 ^ m) = natToLe m x := by
  induction m generalizing x with
  | zero => simp [natToLe]
  | succ k ih =>
      simp only [natToLe]
      have h1 : x % 256 ^ (k + 1) % 256 = x % 256 := by
        rw [Nat.pow_succ']; exact Nat.mod_mul_right_mod x 256 (256 ^ k)
      have h2 : x % 256 ^ (k + 1) / 256 = (x / 256) % 256 ^ k := by
        rw [Nat.pow_succ']; exact Nat.mod_mul_right_div_self x 256 (256 ^ k)
      rw [h1, h2, ih]

theorem natToLe_inj (len a b : Nat) (ha : a < 256 ^ len) (hb : b < 256 ^ len)
    (h : natToLe len a = natToLe len b) : a = b := by
  induction len generalizing a b with
  | zero => simp at ha hb; omega
  | succ k ih =>
      simp only [natToLe, List.cons.injEq] at h
      rw [Nat.pow_succ'] at ha hb
      have := ih (a / 256) (b / 256) (by omega) (by omega) h.2
      omega

/-! ## tags -/

/-- the word of `tag1`: no bit of the parameter overlaps the tag -/
theorem tag1_word (t p : Nat) (ht : t < 2 ^ 32) : t ||| (p <<< 32) = p * 2 ^ 32 + t := by
  rw [Nat.or_comm, ← Nat.shiftLeft_add_eq_or_of_lt ht, Nat.shiftLeft_eq]

/-- the word of `tag2` -/
theorem tag2_word (t p1 p2 : Nat) (ht : t < 2 ^ 32) (h1 : p1 < 2 ^ 16) :
    t ||| (p1 <<< 32) ||| (p2 <<< 48) = p2 * 2 ^ 48 + (p1 * 2 ^ 32 + t) := by
  rw [tag1_word t p1 ht, Nat.or_comm,
    ← Nat.shiftLeft_add_eq_or_of_lt (show p1 * 2 ^ 32 + t < 2 ^ 48 by omega), Nat.shiftLeft_eq]

theorem tag_eq_of_lt (x : Nat) (h : x < 2 ^ 64) : tag x = natToLe 8 x := by
  unfold tag; rw [Nat.mod_eq_of_lt h]

theorem natToLe4_word (t p : Nat) (ht : t < 2 ^ 32) :
    natToLe (4 + 4) (p * 2 ^ 32 + t) = natToLe 4 t ++ natToLe 4 p := by
  rw [natToLe_append]
  have e1 : natToLe 4 (p * 2 ^ 32 + t) = natToLe 4 t := by
    rw [← natToLe_mod 4 (p * 2 ^ 32 + t)]
    congr 1
    simp only [Nat.reducePow] at ht ⊢; omega
  have e2 : (p * 2 ^ 32 + t) / 256 ^ 4 = p := by
    simp only [Nat.reducePow] at ht ⊢; omega
  rw [e1, e2]

/-! ## the header of an ASK -/

theorem hdr_size : MESSAGE_HEADER_SIZE = 36 := rfl
theorem id_size : MESSAGE_ID_SIZE = 32 := rfl

theorem ask_word (ttl : Nat) : ((ttl % 2 ^ 32) &&& 0xffff) ||| ((0 % 2 ^ 16) <<< 16) = ttl % 2 ^ 16 := by
  have h1 : (ttl % 2 ^ 32) &&& 0xffff = ttl % 2 ^ 16 := by
    have := Nat.and_two_pow_sub_one_eq_mod (ttl % 2 ^ 32) 16
    simp only [show (2 : Nat) ^ 16 - 1 = 0xffff from rfl] at this
    rw [this]; omega
  rw [h1]; simp

theorem askAllocate_eq (id : Id) (ttl : Nat) : askAllocate id ttl = id ++ natToLe 2 (ttl % 2 ^ 16) ++ [0, 0] := by
  unfold askAllocate allocateMessage encodeHdr
  dsimp only
  rw [ask_word, List.append_nil, show (4 : Nat) = 2 + 2 from rfl, natToLe_append]
  have : ttl % 2 ^ 16 / 256 ^ 2 = 0 := by simp only [Nat.reducePow]; omega
  rw [this, List.append_assoc]; rfl

theorem askAllocate_length (id : Id) (hid : id.length = 32) (ttl : Nat) : (askAllocate id ttl).length = 36 := by
  rw [askAllocate_eq]; simp [natToLe_length, hid]

theorem decodeHdr?_of_le {f : Bytes} (h : 36 ≤ f.length) :
    decodeHdr? f = some ⟨f.take 32, leToNat ((f.drop 32).take 2), leToNat ((f.drop 34).take 2)⟩ := by
  unfold decodeHdr?
  have : ¬ f.length < MESSAGE_HEADER_SIZE := by rw [hdr_size]; omega
  rw [if_neg this]; rfl

theorem decodeHdr?_of_lt {f : Bytes} (h : f.length < 36) : decodeHdr? f = none := by
  unfold decodeHdr?
  have : f.length < MESSAGE_HEADER_SIZE := by rw [hdr_size]; omega
  rw [if_pos this]

theorem hdrId?_of_le {f : Bytes} (h : 36 ≤ f.length) : hdrId? f = some (f.take 32) := by
  unfold hdrId?; rw [decodeHdr?_of_le h]; rfl

theorem hdrId?_of_lt {f : Bytes} (h : f.length < 36) : hdrId? f = none := by
  unfold hdrId?; rw [decodeHdr?_of_lt h]; rfl

theorem leToNat_natToLe2 (v : Nat) (h : v < 2 ^ 16) : leToNat (natToLe 2 v) = v := by
  simp only [natToLe, leToNat]; simp only [Nat.reducePow] at h; omega

/-! ## `Vec::swap_remove` and the search of `injection` -/

theorem swapRemove_perm {α : Type} (l : List α) (i : Nat) (h : i < l.length) :
    (swapRemove l i).Perm (l.eraseIdx i) := by
  unfold swapRemove
  by_cases hl : i + 1 = l.length
  · rw [if_pos hl]
    have : l.eraseIdx i = l.dropLast := by
      rw [List.dropLast_eq_take, List.eraseIdx_eq_take_drop_succ]
      have : List.drop (i + 1) l = [] := List.drop_eq_nil_of_le (by omega)
      rw [this, List.append_nil]; congr 1; omega
    rw [this]
  · rw [if_neg hl]
    have hne : l ≠ [] := by intro h0; rw [h0] at h; simp at h
    obtain ⟨init, last, rfl⟩ : ∃ init last, l = init ++ [last] :=
      ⟨l.dropLast, l.getLast hne, (List.dropLast_concat_getLast hne).symm⟩
    have hi : i < init.length := by simp at h hl; omega
    simp only [List.getLast?_append, List.getLast?_singleton, List.dropLast_concat]
    -- init.set i last  ~  (init ++ [last]).eraseIdx i = init.eraseIdx i ++ [last]
    rw [List.eraseIdx_append_of_lt_length hi]
    have h1 : (init.set i last).Perm (last :: init.eraseIdx i) := by
      rw [List.set_eq_take_append_cons_drop, if_pos hi, List.eraseIdx_eq_take_drop_succ]
      exact List.perm_middle
    exact h1.trans (List.perm_append_singleton last (init.eraseIdx i)).symm

theorem swapRemove_length {α : Type} (l : List α) (i : Nat) (h : i < l.length) :
    (swapRemove l i).length + 1 = l.length := by
  have := (swapRemove_perm l i h).length_eq
  rw [this, List.length_eraseIdx, if_pos h]; omega

/-- `firstTrue` returns the first index (counted from `k`) whose condition holds -/
theorem firstTrue_some {seen : List Id} {party : Nat} {l : List Inject} {k i : Nat}
    (h : firstTrue seen party l k = some i) :
    k ≤ i ∧ ∃ inj, l[i - k]? = some inj ∧ inj.cond seen party = true ∧
      ∀ j, j < i - k → ∀ inj', l[j]? = some inj' → inj'.cond seen party = false := by
  induction l generalizing k with
  | nil => simp [firstTrue] at h
  | cons a r ih =>
      unfold firstTrue at h
      by_cases hc : a.cond seen party = true
      · rw [if_pos hc] at h
        cases h
        exact ⟨Nat.le_refl _, a, by simp, hc, by intro j hj; omega⟩
      · rw [if_neg hc] at h
        obtain ⟨hle, inj, hget, htrue, hbefore⟩ := ih h
        refine ⟨by omega, inj, ?_, htrue, ?_⟩
        · rw [show i - k = (i - (k + 1)) + 1 from by omega]; simpa using hget
        · intro j hj inj' hj'
          cases j with
          | zero => simp at hj'; subst hj'; simpa using hc
          | succ j' =>
              simp at hj'
              exact hbefore j' (by omega) inj' hj'

theorem firstTrue_none {seen : List Id} {party : Nat} {l : List Inject} {k : Nat}
    (h : firstTrue seen party l k = none) : ∀ inj ∈ l, inj.cond seen party = false := by
  induction l generalizing k with
  | nil => simp
  | cons a r ih =>
      unfold firstTrue at h
      by_cases hc : a.cond seen party = true
      · rw [if_pos hc] at h; cases h
      · rw [if_neg hc] at h
        intro inj hm
        rcases List.mem_cons.mp hm with rfl | hm
        · simpa using hc
        · exact ih h inj hm

theorem firstTrue_none_of_all_false {seen : List Id} {party : Nat} {l : List Inject} {k : Nat}
    (h : ∀ inj ∈ l, inj.cond seen party = false) : firstTrue seen party l k = none := by
  induction l generalizing k with
  | nil => rfl
  | cons a r ih =>
      unfold firstTrue
      have := h a (by simp)
      rw [this]; simp only [Bool.false_eq_true, if_false]
      exact ih (fun inj hm => h inj (by simp [hm]))

/-! ## vocabulary of the run theorems -/

/-- the frames connection `c` handed to its sink, in order (`Relay::ask` hands over `AskMsg::allocate`) -/
def sentBy (c : Nat) : List Op → List Bytes
  | [] => []
  | .send c' f :: ops => if c' = c then f :: sentBy c ops else sentBy c ops
  | .ask c' id ttl :: ops => if c' = c then askAllocate id ttl :: sentBy c ops else sentBy c ops
  | .skip _ :: ops => sentBy c ops
  | .poll _ :: ops => sentBy c ops
  | .tick _ :: ops => sentBy c ops

/-- all frames handed to a sink, by anyone, in order -/
def sentAll : List Op → List Bytes
  | [] => []
  | .send _ f :: ops => f :: sentAll ops
  | .ask _ id ttl :: ops => askAllocate id ttl :: sentAll ops
  | .skip _ :: ops => sentAll ops
  | .poll _ :: ops => sentAll ops
  | .tick _ :: ops => sentAll ops

/-- the frames the polls of connection `c` returned, in order -/
def recvBy (c : Nat) : List Op → List Out → List Bytes
  | .poll c' :: ops, .polled (.ready b) :: outs => if c' = c then b :: recvBy c ops outs else recvBy c ops outs
  | _ :: ops, _ :: outs => recvBy c ops outs
  | _, _ => []

def isPoll : Op → Bool
  | .poll _ => true
  | _ => false

/-- the outputs of the operations that are not polls (sends, asks, skipped feeds, clock) -/
def nonPollOuts : List Op → List Out → List Out
  | op :: ops, o :: outs => if isPoll op then nonPollOuts ops outs else o :: nonPollOuts ops outs
  | _, _ => []

def sumLen (l : List Bytes) : Nat := (l.map List.length).sum

/-- does this operation, in this state, deliver an injection? -/
def injectedAt (y : EvilSys) : Op → Bool
  | .poll c => (y.play.injection c).2.isSome
  | _ => false

/-- number of injections delivered during a run -/
def injectedCount (y : EvilSys) : List Op → Nat
  | [] => 0
  | op :: ops => (if injectedAt y op then 1 else 0) + injectedCount (evilStep y op).1 ops

/-- the frames a sequence of mock operations sends -/
def mockSent : List MockOp → List Bytes
  | [] => []
  | .send f :: ops => f :: mockSent ops
  | .poll :: ops => mockSent ops

/-- the frames the polls of a mock run returned -/
def mockRecv : List Out → List Bytes
  | [] => []
  | .polled (.ready b) :: outs => b :: mockRecv outs
  | _ :: outs => mockRecv outs

/-- the inner relay alone under the same operations: no wrapper -/
def bareRun (accept : Bytes → SendResult) (script : List Ev) : List MockOp → List Ev × List Out
  | [] => (script, [])
  | .poll :: ops =>
      let (rest, p) := pollInner script
      let (s', os) := bareRun accept rest ops
      (s', .polled p :: os)
  | .send f :: ops =>
      let (s', os) := bareRun accept script ops
      (s', .sent (accept f) :: os)

/-! ## runs -/

theorem runWith_cons {σ : Type} (step : σ → Op → σ × Out) (s : σ) (op : Op) (ops : List Op) :
    runWith step s (op :: ops) =
      ((runWith step (step s op).1 ops).1, (step s op).2 :: (runWith step (step s op).1 ops).2) := rfl

theorem mockRun_cons (accept : Bytes → SendResult) (y : MockSys) (op : MockOp) (ops : List MockOp) :
    mockRun accept y (op :: ops) =
      ((mockRun accept (mockStep accept y op).1 ops).1,
       (mockStep accept y op).2 :: (mockRun accept (mockStep accept y op).1 ops).2) := rfl

theorem getD_set {α : Type} (l : List α) (i j : Nat) (v d : α) :
    (l.set i v).getD j d = if i = j ∧ i < l.length then v else l.getD j d := by
  simp only [List.getD_eq_getElem?_getD, List.getElem?_set]
  by_cases h : i = j
  · subst h
    by_cases hl : i < l.length
    · simp [hl]
    · simp [hl]
  · simp [h]

/-! ## `RelayStats` -/

theorem stats_pollNext_snd (st : Stats) (inner : List Ev) : (st.pollNext inner).2 = pollInner inner := by
  unfold Stats.pollNext
  rcases h : pollInner inner with ⟨r, p⟩
  cases p <;> rfl

theorem stats_pollNext_fst (st : Stats) (inner : List Ev) :
    (st.pollNext inner).1 = match (pollInner inner).2 with
      | .ready msg => st.onRecv msg
      | _ => st := by
  unfold Stats.pollNext
  rcases h : pollInner inner with ⟨r, p⟩
  cases p <;> rfl

/-- what one operation (with its output) does to the counters of connection `c` -/
def statsEffect (c : Nat) (st : Stats) : Op → Out → Stats
  | .send c' f, _ => if c' = c then (st.startSend f).1 else st
  | .ask c' id ttl, _ => if c' = c then (st.startSend (askAllocate id ttl)).1 else st
  | .poll c', .polled (.ready b) => if c' = c then st.onRecv b else st
  | _, _ => st

theorem statsStep_length (y : StatsSys) (op : Op) : (statsStep y op).1.stats.length = y.stats.length := by
  cases op <;> simp [statsStep, StatsSys.sendThrough]

theorem statsStep_statsOf (y : StatsSys) (op : Op) (c : Nat) (hc : c < y.stats.length) :
    (statsStep y op).1.statsOf c = statsEffect c (y.statsOf c) op (statsStep y op).2 := by
  cases op with
  | send c' f =>
      simp only [statsStep, StatsSys.sendThrough, StatsSys.statsOf, statsEffect, getD_set]
      by_cases h : c' = c
      · subst h; simp [hc]
      · simp [h]
  | ask c' id ttl =>
      simp only [statsStep, StatsSys.sendThrough, StatsSys.statsOf, statsEffect, getD_set]
      by_cases h : c' = c
      · subst h; simp [hc]
      · simp [h]
  | skip c' => rfl
  | tick k => rfl
  | poll c' =>
      simp only [statsStep, StatsSys.statsOf, getD_set]
      rw [stats_pollNext_fst]
      have h2 := stats_pollNext_snd (y.stats.getD c' {}) (y.net.inboxOf c')
      rw [show ((y.stats.getD c' {}).pollNext (y.net.inboxOf c')).2.2 = (pollInner (y.net.inboxOf c')).2 from by rw [h2]]
      by_cases h : c' = c
      · subst h
        simp only [hc, and_self, if_true]
        cases (pollInner (y.net.inboxOf c')).2 <;> simp [statsEffect]
      · simp only [h, false_and, if_false]
        cases (pollInner (y.net.inboxOf c')).2 <;> simp [statsEffect, h]

theorem statsStep_raw (y : StatsSys) (op : Op) :
    (statsStep y op).1.net = (rawStep y.net op).1 ∧ (statsStep y op).2 = (rawStep y.net op).2 := by
  cases op with
  | send c f => exact ⟨rfl, rfl⟩
  | ask c id ttl => exact ⟨rfl, rfl⟩
  | skip c => exact ⟨rfl, rfl⟩
  | tick k => exact ⟨rfl, rfl⟩
  | poll c =>
      simp only [statsStep, rawStep, Net.poll]
      have h2 := stats_pollNext_snd (y.statsOf c) (y.net.inboxOf c)
      constructor
      · rw [show ((y.statsOf c).pollNext (y.net.inboxOf c)).2.1 = (pollInner (y.net.inboxOf c)).1 from by rw [h2]]
      · rw [show ((y.statsOf c).pollNext (y.net.inboxOf c)).2.2 = (pollInner (y.net.inboxOf c)).2 from by rw [h2]]

/-! ## `EvilPlay` -/

/-- the inner events the receive loop skips: frames that match a drop rule for this party -/
def skipped (p : EvilPlay) (party : Nat) : Ev → Bool
  | .msg m => p.dropsFrame party m
  | _ => false

theorem dropsFrame_iff' (p : EvilPlay) (party : Nat) (msg : Bytes) :
    p.dropsFrame party msg = true ↔
      ∃ h, decodeHdr? msg = some h ∧ ∃ r ∈ p.drops, r.1 = h.id ∧ (r.2 = none ∨ r.2 = some party) := by
  unfold EvilPlay.dropsFrame hdrId?
  cases hd : decodeHdr? msg with
  | none => simp
  | some h =>
      simp only [Option.map_some, List.any_eq_true, Bool.and_eq_true, beq_iff_eq, Option.some.injEq,
        exists_eq_left']
      constructor
      · rintro ⟨r, hm, h1, h2⟩
        refine ⟨r, hm, h1, ?_⟩
        cases hr : r.2 with
        | none => exact Or.inl rfl
        | some k => rw [hr] at h2; simp at h2; exact Or.inr (by rw [h2])
      · rintro ⟨r, hm, h1, h2⟩
        refine ⟨r, hm, h1, ?_⟩
        rcases h2 with h2 | h2 <;> rw [h2] <;> simp

theorem dropsFrame_of_no_rules (p : EvilPlay) (party : Nat) (msg : Bytes) (h : p.drops = []) :
    p.dropsFrame party msg = false := by
  unfold EvilPlay.dropsFrame
  rw [h]; cases hdrId? msg <;> rfl

theorem recvLoop_eq_dropWhile (p : EvilPlay) (party : Nat) (inner : List Ev) :
    p.recvLoop party inner = pollInner (inner.dropWhile (skipped p party)) := by
  induction inner with
  | nil => rfl
  | cons e r ih =>
      cases e with
      | pending => simp [EvilPlay.recvLoop, skipped, List.dropWhile, pollInner]
      | closed => simp [EvilPlay.recvLoop, skipped, List.dropWhile, pollInner]
      | msg m =>
          by_cases h : p.dropsFrame party m = true
          · simp [EvilPlay.recvLoop, skipped, List.dropWhile, h, ih]
          · simp [EvilPlay.recvLoop, skipped, List.dropWhile, h, pollInner]

theorem recvLoop_of_no_rules (p : EvilPlay) (party : Nat) (inner : List Ev) (h : p.drops = []) :
    p.recvLoop party inner = pollInner inner := by
  cases inner with
  | nil => rfl
  | cons e r =>
      cases e with
      | pending => rfl
      | closed => rfl
      | msg m => simp [EvilPlay.recvLoop, dropsFrame_of_no_rules p party m h, pollInner]

theorem injection_of_none {p : EvilPlay} {party : Nat} (h : firstTrue p.seen party p.injects 0 = none) :
    p.injection party = (p, none) := by
  unfold EvilPlay.injection; rw [h]

theorem injection_of_some {p : EvilPlay} {party i : Nat} {inj : Inject}
    (h : firstTrue p.seen party p.injects 0 = some i) (hg : p.injects[i]? = some inj) :
    p.injection party = ({ p with injects := swapRemove p.injects i }, some inj.msg) := by
  unfold EvilPlay.injection; rw [h]; simp only [hg]

/-- the complete description of `injection`: either no condition holds and nothing changes, or the FIRST injection
    whose condition holds (for the current seen set and this party) is returned and removed -/
theorem injection_cases (p : EvilPlay) (party : Nat) :
    (p.injection party = (p, none) ∧ ∀ inj ∈ p.injects, inj.cond p.seen party = false) ∨
    (∃ i inj, p.injects[i]? = some inj ∧ inj.cond p.seen party = true ∧
        (∀ j, j < i → ∀ inj', p.injects[j]? = some inj' → inj'.cond p.seen party = false) ∧
        p.injection party = ({ p with injects := swapRemove p.injects i }, some inj.msg)) := by
  cases h : firstTrue p.seen party p.injects 0 with
  | none => exact Or.inl ⟨injection_of_none h, firstTrue_none h⟩
  | some i =>
      obtain ⟨_, inj, hg, ht, hb⟩ := firstTrue_some h
      simp only [Nat.sub_zero] at hg hb
      exact Or.inr ⟨i, inj, hg, ht, hb, injection_of_some h hg⟩

theorem injection_fields (p : EvilPlay) (party : Nat) :
    (p.injection party).1.seen = p.seen ∧ (p.injection party).1.drops = p.drops ∧
    (p.injection party).1.injects.length + (if (p.injection party).2.isSome then 1 else 0) = p.injects.length := by
  rcases injection_cases p party with ⟨h, _⟩ | ⟨i, inj, hg, _, _, h⟩
  · rw [h]; simp
  · rw [h]
    have hi : i < p.injects.length := by
      rcases List.getElem?_eq_some_iff.mp hg with ⟨hi, _⟩; exact hi
    have := swapRemove_length p.injects i hi
    simp; omega

theorem mem_insertSeen (id x : Id) (seen : List Id) : x ∈ insertSeen id seen ↔ x ∈ seen ∨ x = id := by
  unfold insertSeen
  by_cases h : seen.contains id = true
  · rw [if_pos h]
    have : id ∈ seen := by simpa using h
    constructor
    · exact Or.inl
    · rintro (h | rfl); exact h; exact this
  · rw [if_neg h]; simp

theorem nodup_insertSeen (id : Id) (seen : List Id) (h : seen.Nodup) : (insertSeen id seen).Nodup := by
  unfold insertSeen
  by_cases hc : seen.contains id = true
  · rw [if_pos hc]; exact h
  · rw [if_neg hc]
    have : id ∉ seen := by simpa using hc
    rw [List.nodup_append]
    refine ⟨h, by simp, ?_⟩
    intro a ha b hb
    simp at hb; subst hb
    intro hab; subst hab; exact this ha

theorem startSend_fields (p : EvilPlay) (msg : Bytes) :
    (p.startSend msg).2 = msg ∧ (p.startSend msg).1.drops = p.drops ∧
    (p.startSend msg).1.injects.length = p.injects.length ∧
    (∀ x, x ∈ (p.startSend msg).1.seen ↔ x ∈ p.seen ∨ hdrId? msg = some x) ∧
    (p.seen.Nodup → (p.startSend msg).1.seen.Nodup) := by
  unfold EvilPlay.startSend
  cases h : hdrId? msg with
  | none => simp
  | some id =>
      refine ⟨rfl, rfl, rfl, ?_, nodup_insertSeen id p.seen⟩
      intro x
      simp only [mem_insertSeen, Option.some.injEq]
      constructor
      · rintro (h | h); exact Or.inl h; exact Or.inr h.symm
      · rintro (h | h); exact Or.inl h; exact Or.inr h.symm

/-- projections of one step of the adversarial system -/
theorem evilStep_send (y : EvilSys) (c : Nat) (f : Bytes) :
    (evilStep y (.send c f)).1.net = (y.net.send c f).1 ∧ (evilStep y (.send c f)).2 = .sent (y.net.send c f).2 ∧
    (evilStep y (.send c f)).1.play = (y.play.startSend f).1 := ⟨rfl, rfl, rfl⟩

theorem evilStep_poll (y : EvilSys) (c : Nat) :
    (evilStep y (.poll c)).1.net = y.net.setInbox c (y.play.pollNext c (y.net.inboxOf c)).2.1 ∧
    (evilStep y (.poll c)).2 = .polled (y.play.pollNext c (y.net.inboxOf c)).2.2 ∧
    (evilStep y (.poll c)).1.play = (y.play.pollNext c (y.net.inboxOf c)).1 := ⟨rfl, rfl, rfl⟩

theorem pollNext_play (p : EvilPlay) (party : Nat) (inner : List Ev) :
    (p.pollNext party inner).1 = (p.injection party).1 := by
  unfold EvilPlay.pollNext
  rcases h : p.injection party with ⟨p', o⟩
  cases o <;> rfl

theorem pollNext_of_injection {p p' : EvilPlay} {party : Nat} {msg : Bytes} (inner : List Ev)
    (h : p.injection party = (p', some msg)) : p.pollNext party inner = (p', inner, .ready msg) := by
  unfold EvilPlay.pollNext; rw [h]

theorem pollNext_of_no_injection {p p' : EvilPlay} {party : Nat} (inner : List Ev)
    (h : p.injection party = (p', none)) :
    p.pollNext party inner = (p', (p'.recvLoop party inner).1, (p'.recvLoop party inner).2) := by
  unfold EvilPlay.pollNext; rw [h]

/-- the play after any step: a send records the id, a poll runs `injection`, nothing else touches it -/
theorem evilStep_play (y : EvilSys) (op : Op) :
    (evilStep y op).1.play = match op with
      | .send _ f => (y.play.startSend f).1
      | .ask _ id ttl => (y.play.startSend (askAllocate id ttl)).1
      | .poll c => (y.play.injection c).1
      | _ => y.play := by
  cases op with
  | send c f => rfl
  | ask c id ttl => rfl
  | skip c => rfl
  | tick k => rfl
  | poll c => exact (evilStep_poll y c).2.2.trans (pollNext_play ..)

theorem net_send_sys (n : Net) (c : Nat) (f : Bytes) :
    (n.send c f).1.sys = (Relay.step n.sys (.frame c f)).1 ∧ (n.send c f).2 = (Relay.step n.sys (.frame c f)).2.2 :=
  ⟨rfl, rfl⟩

end SlVerif.Wrappers
