import SlVerif.Model.Buffered
/-
  Helper lemmas for C17 (SlVerif/Props/C17.lean) about the model of
  crates/sl-mpc-mate/src/coord/buffered.rs in SlVerif/Model/Buffered.lean.  Core Lean only.

  Contents
  * vocabulary used in the statements of C17: `wf`, `msgsOf`, `consumedBy`, `delivered`,
    `droppedBy`, `droppedRun`, `sinkWait`, `feedOk`, `asksBy`, `asksRun`, `asksOf`
  * `swapRemove`: permutation of erasing index `i`
  * `findIdx`: first matching index
  * `pull`: fuel-free description of the pull loop, `pullLoop_eq_pull` (fuel sufficiency)
  * `sinkWait`: what a future suspended on the sink (`poll_ready` of the feed, `poll_flush`) does
  * `Pulled`: what a (possibly multi-poll, possibly cancelled) pull phase does to the state
  * `runWaitFor` from each phase; `runRecv` in terms of `sinkWait`, `startSend` and `runWaitFor`
  * per-call conservation
-/
namespace SlVerif.Buffered
open SlVerif.Relay (decodeHdr? Id Hdr)

/-! ## vocabulary -/

/-- the frame carries a parseable header (`<&MsgHdr>::try_from` succeeds) -/
def wf (m : Bytes) : Bool := (decodeHdr? m).isSome

/-- the frames (`Poll::Ready(Some(_))` events) of a script segment, in order -/
def msgsOf : List Ev → List Bytes
  | [] => []
  | .msg b :: r => b :: msgsOf r
  | .pending :: r => msgsOf r
  | .closed :: r => msgsOf r

/-- the script prefix consumed between two states -/
def consumedBy (s s' : State) : List Ev := s.script.take (s.script.length - s'.script.length)

def got? : Outcome → Option Bytes
  | .got m => some m
  | .none_ => none
  | .cancelled => none

/-- the frames handed to the application -/
def delivered (os : List Outcome) : List Bytes := os.filterMap got?

/-- the frames one call pulled from the underlying relay and silently dropped: the malformed ones
    pulled by `recv`/`wait_for`; the stream interface drops nothing -/
def droppedBy (s : State) : Call → List Bytes
  | .next => []
  | .recv id ttl k =>
      (msgsOf (consumedBy s (call s (.recv id ttl k)).1)).filter (fun m => !wf m)
  | .waitFor ids k =>
      (msgsOf (consumedBy s (call s (.waitFor ids k)).1)).filter (fun m => !wf m)

/-- ... and a sequence of calls -/
def droppedRun (s : State) : List Call → List Bytes
  | [] => []
  | c :: cs => droppedBy s c ++ droppedRun (call s c).1 cs

/-- `k` polls of a future that is suspended on the sink (`poll_ready` of the feed in `recv`,
    `poll_flush` of the flush in `wait_for`), each poll asking the sink once:
    * how the wait ends: `ok` the sink answered `Ready(Ok)`, `err` it answered `Ready(Err)`,
      `pending` all `k` polls were answered `Pending` (the future is dropped while suspended there),
    * the sink script left,
    * the number of polls left, INCLUDING the poll in which the sink answered (that poll goes on). -/
def sinkWait : Nat → List SinkEv → SinkEv × List SinkEv × Nat
  | 0, l => (.pending, l, 0)
  | k+1, [] => (.ok, [], k+1)
  | k+1, .ok :: r => (.ok, r, k+1)
  | k+1, .err :: r => (.err, r, k+1)
  | k+1, .pending :: r => sinkWait k r

/-- within `k` polls the feed of `recv` got `Ready(Ok)` from `poll_ready` and `Ok` from `start_send`:
    the ASK was accepted by the sink and `recv` went on to `wait_for` -/
def feedOk (k : Nat) (sink : List SinkEv) (sends : List Bool) : Bool :=
  match sinkWait k sink with
  | (.ok, _, _) => sends.head?.getD true
  | _ => false

/-- the ASK frames one call gets accepted by the sink -/
def asksBy (s : State) : Call → List (Id × Nat)
  | .recv id ttl k => if feedOk k s.sink s.sends then [(id, ttl)] else []
  | _ => []

/-- ... and a sequence of calls -/
def asksRun (s : State) : List Call → List (Id × Nat)
  | [] => []
  | c :: cs => asksBy s c ++ asksRun (call s c).1 cs

/-- with a sink that is always ready and never fails: one ASK per `recv` polled at least once -/
def asksOf : List Call → List (Id × Nat)
  | [] => []
  | .recv id ttl (_+1) :: cs => (id, ttl) :: asksOf cs
  | _ :: cs => asksOf cs

theorem msgsOf_append (a b : List Ev) : msgsOf (a ++ b) = msgsOf a ++ msgsOf b := by
  induction a with
  | nil => rfl
  | cons e r ih => cases e <;> simp [msgsOf, ih]

theorem consumedBy_eq {s s' : State} {c : List Ev} (h : s.script = c ++ s'.script) :
    consumedBy s s' = c := by
  unfold consumedBy
  rw [h]
  apply List.take_left'
  simp

theorem consumedBy_self (s : State) : consumedBy s s = [] := consumedBy_eq (c := []) rfl

theorem matches_wf {pred : Id → Bool} {m : Bytes} (h : matches_ pred m = true) : wf m = true := by
  unfold matches_ at h
  unfold wf
  cases hd : decodeHdr? m <;> simp_all

theorem matches_iff {pred : Id → Bool} {m : Bytes} :
    matches_ pred m = true ↔ ∃ h, decodeHdr? m = some h ∧ pred h.id = true := by
  unfold matches_
  cases hd : decodeHdr? m <;> simp

theorem wf_iff {m : Bytes} : wf m = true ↔ decodeHdr? m ≠ none := by
  unfold wf
  cases decodeHdr? m <;> simp

theorem not_wf_iff {m : Bytes} : (!wf m) = true ↔ decodeHdr? m = none := by
  unfold wf
  cases decodeHdr? m <;> simp

/-! ## `swapRemove` -/

theorem swapRemove_cons_succ (x : Bytes) (t : List Bytes) (j : Nat) (hj : j < t.length) :
    swapRemove (x :: t) (j + 1) = x :: swapRemove t j := by
  cases t with
  | nil => simp at hj
  | cons y t' =>
    unfold swapRemove
    by_cases h : j + 1 = (y :: t').length
    · simp [h]
    · have h' : ¬ (j + 1 + 1 = (x :: y :: t').length) := by simpa using h
      rw [if_neg h', if_neg h, List.getLast?_cons_cons]
      cases hl : (y :: t').getLast? with
      | none => simp at hl
      | some last => simp

theorem swapRemove_zero (x y : Bytes) (t : List Bytes) :
    swapRemove (x :: y :: t) 0 = (y :: t).getLast (by simp) :: (y :: t).dropLast := by
  unfold swapRemove
  simp [List.getLast?_eq_some_getLast]

/-- `swap_remove(i)` hands out element `i` and keeps all the others -/
theorem swapRemove_perm (l : List Bytes) (i : Nat) (h : i < l.length) :
    (l[i] :: swapRemove l i).Perm l := by
  induction l generalizing i with
  | nil => simp at h
  | cons x t ih =>
    cases i with
    | zero =>
      cases t with
      | nil => simp [swapRemove]
      | cons y t' =>
        rw [swapRemove_zero]
        simp only [List.getElem_cons_zero]
        refine List.Perm.cons x ?_
        have := List.dropLast_concat_getLast (l := y :: t') (by simp)
        exact (List.perm_append_comm (l₁ := [_]) (l₂ := (y :: t').dropLast)).trans (by rw [this])
    | succ j =>
      have hj : j < t.length := by simpa using h
      rw [swapRemove_cons_succ x t j hj]
      simp only [List.getElem_cons_succ]
      exact (List.Perm.swap x t[j] _).trans (List.Perm.cons x (ih j hj))

theorem getElem_cons_eraseIdx_perm (l : List Bytes) (i : Nat) (h : i < l.length) :
    (l[i] :: l.eraseIdx i).Perm l := by
  induction l generalizing i with
  | nil => simp at h
  | cons x t ih =>
    cases i with
    | zero => simp
    | succ j =>
      have hj : j < t.length := by simpa using h
      simp only [List.getElem_cons_succ, List.eraseIdx_cons_succ]
      exact (List.Perm.swap x t[j] _).trans (List.Perm.cons x (ih j hj))

/-- `swap_remove(i)` is, as a multiset, erasing index `i` -/
theorem swapRemove_perm_eraseIdx (l : List Bytes) (i : Nat) (h : i < l.length) :
    (swapRemove l i).Perm (l.eraseIdx i) :=
  List.Perm.cons_inv
    ((swapRemove_perm l i h).trans (getElem_cons_eraseIdx_perm l i h).symm)

theorem swapRemove_length (l : List Bytes) (i : Nat) (h : i < l.length) :
    (swapRemove l i).length = l.length - 1 := by
  have := (swapRemove_perm l i h).length_eq
  simp at this
  omega

theorem mem_of_mem_swapRemove {l : List Bytes} {i : Nat} (h : i < l.length) {x : Bytes}
    (hx : x ∈ swapRemove l i) : x ∈ l :=
  (swapRemove_perm l i h).mem_iff.mp (List.mem_cons_of_mem _ hx)

/-! ## `findIdx` -/

theorem findIdx_eq_none {pred : Id → Bool} {l : List Bytes} {n : Nat} :
    findIdx pred l n = none ↔ ∀ x ∈ l, matches_ pred x = false := by
  induction l generalizing n with
  | nil => simp [findIdx]
  | cons f r ih =>
    unfold findIdx
    by_cases hm : matches_ pred f = true
    · simp [hm]
    · simp [hm, ih]

/-- `findIdx` returns the FIRST matching index -/
theorem findIdx_eq_some {pred : Id → Bool} {l : List Bytes} {n i : Nat} :
    findIdx pred l n = some (n + i) ↔
      ∃ h : i < l.length, matches_ pred l[i] = true ∧
        ∀ j (hj : j < i), matches_ pred (l[j]'(by omega)) = false := by
  induction l generalizing n i with
  | nil => simp [findIdx]
  | cons f r ih =>
    unfold findIdx
    by_cases hm : matches_ pred f = true
    · rw [if_pos hm]
      constructor
      · intro h
        have : i = 0 := by simp at h; omega
        subst this
        exact ⟨by simp, by simpa using hm, by intro j hj; omega⟩
      · rintro ⟨h, _, hall⟩
        cases i with
        | zero => rfl
        | succ i' =>
          have := hall 0 (by omega)
          simp [hm] at this
    · rw [if_neg hm]
      cases i with
      | zero =>
        constructor
        · intro h
          exfalso
          -- the result of findIdx _ _ (n+1) is ≥ n+1
          have key : ∀ (l : List Bytes) (a b : Nat), findIdx pred l a = some b → a ≤ b := by
            intro l
            induction l with
            | nil => intro a b h; simp [findIdx] at h
            | cons g t iht =>
              intro a b h
              unfold findIdx at h
              split at h
              · simp at h; omega
              · have := iht _ _ h; omega
          have := key _ _ _ h
          omega
        · rintro ⟨_, h0, _⟩
          simp at h0
          exact absurd h0 hm
      | succ i' =>
        have e : n + (i' + 1) = (n + 1) + i' := by omega
        rw [e, ih]
        constructor
        · rintro ⟨h, hmi, hall⟩
          refine ⟨by simpa using h, by simpa using hmi, ?_⟩
          intro j hj
          cases j with
          | zero => simpa using hm
          | succ j' => simpa using hall j' (by omega)
        · rintro ⟨h, hmi, hall⟩
          refine ⟨by simpa using h, by simpa using hmi, ?_⟩
          intro j hj
          simpa using hall (j + 1) (by omega)

theorem findIdx_zero_some {pred : Id → Bool} {l : List Bytes} {i : Nat} :
    findIdx pred l 0 = some i ↔
      ∃ h : i < l.length, matches_ pred l[i] = true ∧
        ∀ j (hj : j < i), matches_ pred (l[j]'(by omega)) = false := by
  have := findIdx_eq_some (pred := pred) (l := l) (n := 0) (i := i)
  simpa using this

/-! ## the pull loop without fuel -/

/-- the pull loop of `wait_for` as a structural recursion over the script:
    returns (new buffer, remaining script, result) -/
def pull (pred : Id → Bool) : List Ev → List Bytes → List Bytes × List Ev × Poll (Option Bytes)
  | [], buf => (buf, [], .pending)
  | .pending :: rest, buf => (buf, rest, .pending)
  | .closed :: rest, buf => (buf, rest, .ready none)
  | .msg m :: rest, buf =>
      if matches_ pred m then (buf, rest, .ready (some m))
      else if wf m then pull pred rest (buf ++ [m])
      else pull pred rest buf

/-- **fuel sufficiency**: with more fuel than script events the loop never stops because of fuel;
    it is the fuel-free `pull` -/
theorem pullLoop_eq_pull (pred : Id → Bool) (fuel : Nat) (s : State)
    (h : s.script.length < fuel) :
    pullLoop pred fuel s =
      ({ s with buf := (pull pred s.script s.buf).1, script := (pull pred s.script s.buf).2.1 },
       (pull pred s.script s.buf).2.2) := by
  induction fuel generalizing s with
  | zero => omega
  | succ f ih =>
    obtain ⟨buf, script, asks, sink, sends⟩ := s
    cases script with
    | nil => simp [pullLoop, pollUnder, pull]
    | cons e rest =>
      cases e with
      | pending => simp [pullLoop, pollUnder, pull]
      | closed => simp [pullLoop, pollUnder, pull]
      | msg m =>
        have hlen : rest.length < f := by simpa using h
        cases hd : decodeHdr? m with
        | none =>
          simp only [pullLoop, pollUnder, pull, matches_, wf, hd]
          rw [ih _ (by simpa using hlen)]
          simp
        | some hh =>
          by_cases hp : pred hh.id = true
          · simp [pullLoop, pollUnder, pull, matches_, hd, hp]
          · simp only [pullLoop, pollUnder, pull, matches_, wf, hd, hp]
            rw [ih _ (by simpa using hlen)]
            simp

/-- the fuel used by the model is enough, and any larger amount gives the same result -/
theorem pullLoop_fuel (pred : Id → Bool) (s : State) (f₁ f₂ : Nat)
    (h₁ : s.script.length < f₁) (h₂ : s.script.length < f₂) :
    pullLoop pred f₁ s = pullLoop pred f₂ s := by
  rw [pullLoop_eq_pull pred f₁ s h₁, pullLoop_eq_pull pred f₂ s h₂]

theorem pullLoop_fuel_ge (pred : Id → Bool) (s : State) (extra : Nat) :
    pullLoop pred (s.script.length + 1 + extra) s = pullLoop pred (s.script.length + 1) s :=
  pullLoop_fuel pred s _ _ (by omega) (by omega)

def toOutcome : Poll (Option Bytes) → Outcome
  | .ready (some m) => .got m
  | .ready none => .none_
  | .pending => .cancelled

/-- the script event that ends a pull phase with the given outcome -/
def tailOf : Outcome → List Ev
  | .got m => [.msg m]
  | .none_ => [.closed]
  | .cancelled => []

theorem msgsOf_tailOf (o : Outcome) : msgsOf (tailOf o) = (got? o).toList := by
  cases o <;> rfl

theorem pull_spec (pred : Id → Bool) (script : List Ev) (buf : List Bytes) :
    ∃ c0, script = c0 ++ tailOf (toOutcome (pull pred script buf).2.2) ++ (pull pred script buf).2.1 ∧
      (∀ x ∈ msgsOf c0, matches_ pred x = false) ∧
      (∀ e ∈ c0, e ≠ Ev.closed) ∧
      (pull pred script buf).1 = buf ++ (msgsOf c0).filter wf ∧
      (∀ m, toOutcome (pull pred script buf).2.2 = .got m → matches_ pred m = true) := by
  induction script generalizing buf with
  | nil => exact ⟨[], by simp [pull, toOutcome, tailOf, msgsOf]⟩
  | cons e rest ih =>
    cases e with
    | pending => exact ⟨[.pending], by simp [pull, toOutcome, tailOf, msgsOf]⟩
    | closed => exact ⟨[], by simp [pull, toOutcome, tailOf, msgsOf]⟩
    | msg m =>
      by_cases hm : matches_ pred m = true
      · refine ⟨[], ?_⟩
        simp [pull, hm, toOutcome, tailOf, msgsOf]
      · have hm' : matches_ pred m = false := by simpa using hm
        by_cases hw : wf m = true
        · obtain ⟨c0, h1, h2, h3, h4, h5⟩ := ih (buf ++ [m])
          refine ⟨.msg m :: c0, ?_⟩
          simp only [pull, hm', hw, if_true, Bool.false_eq_true, if_false]
          refine ⟨by simpa using h1, ?_, ?_, ?_, h5⟩
          · intro x hx
            simp only [msgsOf, List.mem_cons] at hx
            rcases hx with rfl | hx
            · exact hm'
            · exact h2 x hx
          · intro e he
            simp only [List.mem_cons] at he
            rcases he with rfl | he
            · simp
            · exact h3 e he
          · rw [h4]; simp [msgsOf, hw]
        · obtain ⟨c0, h1, h2, h3, h4, h5⟩ := ih buf
          refine ⟨.msg m :: c0, ?_⟩
          simp only [pull, hm', hw, Bool.false_eq_true, if_false]
          refine ⟨by simpa using h1, ?_, ?_, ?_, h5⟩
          · intro x hx
            simp only [msgsOf, List.mem_cons] at hx
            rcases hx with rfl | hx
            · exact hm'
            · exact h2 x hx
          · intro e he
            simp only [List.mem_cons] at he
            rcases he with rfl | he
            · simp
            · exact h3 e he
          · rw [h4]; simp [msgsOf, hw]


/-! ## the sink side -/

theorem sinkWait_pending {k : Nat} {l r : List SinkEv} {j : Nat}
    (h : sinkWait k l = (.pending, r, j)) : j = 0 ∧ l = List.replicate k .pending ++ r := by
  induction k generalizing l with
  | zero => simp only [sinkWait, Prod.mk.injEq] at h; simp [h.2.1, h.2.2]
  | succ k ih =>
    cases l with
    | nil => simp [sinkWait] at h
    | cons e t =>
      cases e with
      | ok => simp [sinkWait] at h
      | err => simp [sinkWait] at h
      | pending =>
        obtain ⟨h1, h2⟩ := ih (l := t) (by simpa [sinkWait] using h)
        exact ⟨h1, by rw [h2]; simp [List.replicate_succ]⟩

theorem sinkWait_err {k : Nat} {l r : List SinkEv} {j : Nat}
    (h : sinkWait k l = (.err, r, j)) :
    ∃ p, p < k ∧ j = k - p ∧ l = List.replicate p .pending ++ .err :: r := by
  induction k generalizing l with
  | zero => simp [sinkWait] at h
  | succ k ih =>
    cases l with
    | nil => simp [sinkWait] at h
    | cons e t =>
      cases e with
      | ok => simp [sinkWait] at h
      | err =>
        simp only [sinkWait, Prod.mk.injEq, true_and] at h
        exact ⟨0, by omega, by omega, by simp [h.1]⟩
      | pending =>
        obtain ⟨p, h1, h2, h3⟩ := ih (l := t) (by simpa [sinkWait] using h)
        exact ⟨p + 1, by omega, by omega, by rw [h3]; simp [List.replicate_succ]⟩

theorem sinkWait_ok {k : Nat} {l r : List SinkEv} {j : Nat}
    (h : sinkWait k l = (.ok, r, j)) :
    ∃ p, p < k ∧ j = k - p ∧
      (l = List.replicate p .pending ++ .ok :: r ∨ (l = List.replicate p .pending ∧ r = [])) := by
  induction k generalizing l with
  | zero => simp [sinkWait] at h
  | succ k ih =>
    cases l with
    | nil =>
      simp only [sinkWait, Prod.mk.injEq, true_and] at h
      exact ⟨0, by omega, by omega, Or.inr ⟨by simp, h.1.symm⟩⟩
    | cons e t =>
      cases e with
      | ok =>
        simp only [sinkWait, Prod.mk.injEq, true_and] at h
        exact ⟨0, by omega, by omega, Or.inl (by simp [h.1])⟩
      | err => simp [sinkWait] at h
      | pending =>
        obtain ⟨p, h1, h2, h3⟩ := ih (l := t) (by simpa [sinkWait] using h)
        refine ⟨p + 1, by omega, by omega, ?_⟩
        rcases h3 with h3 | ⟨h3, h4⟩
        · exact Or.inl (by rw [h3]; simp [List.replicate_succ])
        · exact Or.inr ⟨by rw [h3]; simp [List.replicate_succ], h4⟩

/-- the sink script left is a suffix of the sink script -/
theorem sinkWait_suffix (k : Nat) (l : List SinkEv) : ∃ c, l = c ++ (sinkWait k l).2.1 := by
  induction k generalizing l with
  | zero => exact ⟨[], rfl⟩
  | succ k ih =>
    cases l with
    | nil => exact ⟨[], rfl⟩
    | cons e t =>
      cases e with
      | ok => exact ⟨[.ok], rfl⟩
      | err => exact ⟨[.err], rfl⟩
      | pending =>
        obtain ⟨c, hc⟩ := ih t
        exact ⟨.pending :: c, by simp only [sinkWait, List.cons_append]; rw [← hc]⟩

theorem sinkWait_polls_le (k : Nat) (l : List SinkEv) : (sinkWait k l).2.2 ≤ k := by
  induction k generalizing l with
  | zero => simp [sinkWait]
  | succ k ih =>
    cases l with
    | nil => simp [sinkWait]
    | cons e t =>
      cases e with
      | ok => simp [sinkWait]
      | err => simp [sinkWait]
      | pending => have := ih t; simp only [sinkWait]; omega

/-- polling on after a wait that was still pending = waiting on with the sink script left -/
theorem sinkWait_add_pending {k : Nat} {l r : List SinkEv} {i : Nat} (j : Nat)
    (h : sinkWait k l = (.pending, r, i)) : sinkWait (k + j) l = sinkWait j r := by
  induction k generalizing l with
  | zero => simp only [sinkWait, Prod.mk.injEq, true_and] at h; simp [h.1]
  | succ k ih =>
    have e : k + 1 + j = (k + j) + 1 := by omega
    cases l with
    | nil => simp [sinkWait] at h
    | cons e' t =>
      cases e' with
      | ok => simp [sinkWait] at h
      | err => simp [sinkWait] at h
      | pending =>
        rw [e]
        simp only [sinkWait] at h ⊢
        exact ih h

/-- extra polls after the sink has answered are simply left over -/
theorem sinkWait_add_done {k : Nat} {l r : List SinkEv} {e : SinkEv} {i : Nat} (j : Nat)
    (he : e ≠ .pending) (h : sinkWait k l = (e, r, i)) : sinkWait (k + j) l = (e, r, i + j) := by
  induction k generalizing l with
  | zero => simp only [sinkWait, Prod.mk.injEq] at h; exact absurd h.1.symm he
  | succ k ih =>
    have e1 : k + 1 + j = (k + j) + 1 := by omega
    cases l with
    | nil =>
      rw [e1]
      simp only [sinkWait, Prod.mk.injEq] at h ⊢
      exact ⟨h.1, h.2.1, by omega⟩
    | cons e' t =>
      cases e' with
      | ok =>
        rw [e1]
        simp only [sinkWait, Prod.mk.injEq] at h ⊢
        exact ⟨h.1, h.2.1, by omega⟩
      | err =>
        rw [e1]
        simp only [sinkWait, Prod.mk.injEq] at h ⊢
        exact ⟨h.1, h.2.1, by omega⟩
      | pending =>
        rw [e1]
        simp only [sinkWait] at h ⊢
        exact ih h

theorem replicate_ok_ne {p k : Nat} {r r' : List SinkEv} (h : p < k) :
    List.replicate p SinkEv.pending ++ SinkEv.ok :: r ≠ List.replicate k SinkEv.pending ++ r' := by
  intro hc
  have := congrArg (fun l => l[p]?) hc
  rw [List.getElem?_append_right (by simp), List.getElem?_append_left (by simpa using h)] at this
  simp [h] at this

theorem sinkWait_nil_succ (k : Nat) : sinkWait (k + 1) [] = (.ok, [], k + 1) := rfl

/-! ## what a pull phase does -/

/-- `Pulled pred s s' o`: starting in `s`, the wrapper consumed the script segment `c0 ++ tailOf o`;
    no frame of `c0` matches; the well-formed ones were appended to the buffer in arrival order
    (the malformed ones dropped); the terminating event is the matching frame / the end of stream /
    nothing (still pending); nothing else changed (the sink is not touched). -/
def Pulled (pred : Id → Bool) (s s' : State) (o : Outcome) : Prop :=
  ∃ c0, s.script = c0 ++ tailOf o ++ s'.script ∧
    (∀ x ∈ msgsOf c0, matches_ pred x = false) ∧
    (∀ e ∈ c0, e ≠ Ev.closed) ∧
    s'.buf = s.buf ++ (msgsOf c0).filter wf ∧
    (s'.asks = s.asks ∧ s'.sink = s.sink ∧ s'.sends = s.sends) ∧
    (∀ m, o = .got m → matches_ pred m = true)

theorem Pulled.refl (pred : Id → Bool) (s : State) : Pulled pred s s .cancelled :=
  ⟨[], by simp [tailOf, msgsOf]⟩

theorem Pulled.trans {pred : Id → Bool} {s s₁ s₂ : State} {o : Outcome}
    (h₁ : Pulled pred s s₁ .cancelled) (h₂ : Pulled pred s₁ s₂ o) : Pulled pred s s₂ o := by
  obtain ⟨c, a1, a2, a3, a4, ⟨a5, a6, a7⟩, _⟩ := h₁
  obtain ⟨d, b1, b2, b3, b4, ⟨b5, b6, b7⟩, b8⟩ := h₂
  refine ⟨c ++ d, ?_, ?_, ?_, ?_, ⟨by rw [b5, a5], by rw [b6, a6], by rw [b7, a7]⟩, b8⟩
  · rw [a1, b1]; simp [tailOf]
  · intro x hx
    rw [msgsOf_append, List.mem_append] at hx
    rcases hx with hx | hx
    · exact a2 x hx
    · exact b2 x hx
  · intro e he
    rw [List.mem_append] at he
    rcases he with he | he
    · exact a3 e he
    · exact b3 e he
  · rw [b4, a4, msgsOf_append]; simp

theorem pullLoop_pulled (pred : Id → Bool) (s : State) :
    Pulled pred s (pullLoop pred (s.script.length + 1) s).1
      (toOutcome (pullLoop pred (s.script.length + 1) s).2) := by
  rw [pullLoop_eq_pull pred _ s (by omega)]
  obtain ⟨c0, h1, h2, h3, h4, h5⟩ := pull_spec pred s.script s.buf
  exact ⟨c0, h1, h2, h3, h4, ⟨rfl, rfl, rfl⟩, h5⟩

/-- the pull loop reads only `buf` and `script`: the recorded asks ride along -/
theorem pullLoop_asks (pred : Id → Bool) (s : State) (a : List (Id × Nat)) :
    pullLoop pred (s.script.length + 1) { s with asks := a } =
      ({ (pullLoop pred (s.script.length + 1) s).1 with asks := a },
       (pullLoop pred (s.script.length + 1) s).2) := by
  rw [pullLoop_eq_pull pred _ s (by omega)]
  rw [pullLoop_eq_pull pred _ { s with asks := a } (by simp)]

/-! ## `runWaitFor` -/

theorem runWaitFor_zero (pred : Id → Bool) (ph : Phase) (s : State) :
    runWaitFor pred 0 ph s = (s, .cancelled) := rfl

theorem runWaitFor_pulling_succ (pred : Id → Bool) (k : Nat) (s : State) :
    runWaitFor pred (k + 1) .pulling s =
      match (pullLoop pred (s.script.length + 1) s).2 with
      | .ready (some m) => ((pullLoop pred (s.script.length + 1) s).1, .got m)
      | .ready none => ((pullLoop pred (s.script.length + 1) s).1, .none_)
      | .pending => runWaitFor pred k .pulling (pullLoop pred (s.script.length + 1) s).1 := by
  rw [runWaitFor]
  simp only [pollWaitFor]
  rcases hp : pullLoop pred (s.script.length + 1) s with ⟨s', r⟩
  rcases r with (_ | m) | _ <;> rfl

/-- a pull phase of any number of polls, possibly cancelled at the end -/
theorem runWaitFor_pulling_pulled (pred : Id → Bool) (k : Nat) (s : State) :
    Pulled pred s (runWaitFor pred k .pulling s).1 (runWaitFor pred k .pulling s).2 := by
  induction k generalizing s with
  | zero => exact Pulled.refl pred s
  | succ k ih =>
    rw [runWaitFor_pulling_succ]
    have hp := pullLoop_pulled pred s
    rcases hr : (pullLoop pred (s.script.length + 1) s).2 with (_ | m) | _
    · rw [hr] at hp; exact hp
    · rw [hr] at hp; exact hp
    · rw [hr] at hp; exact hp.trans (ih _)

/-- the flush phase: the future asks the sink once per poll until it answers; `Pending` all along =
    dropped while suspended in the flush, `Err` = `None`, `Ok` = on to the pull loop IN THE SAME POLL -/
theorem runWaitFor_flushing (pred : Id → Bool) (k : Nat) (s : State) :
    runWaitFor pred k .flushing s =
      match sinkWait k s.sink with
      | (.pending, r, _) => ({ s with sink := r }, .cancelled)
      | (.err, r, _) => ({ s with sink := r }, .none_)
      | (.ok, r, j) => runWaitFor pred j .pulling { s with sink := r } := by
  induction k generalizing s with
  | zero => rfl
  | succ k ih =>
    obtain ⟨buf, script, asks, sink, sends⟩ := s
    cases sink with
    | nil =>
      simp only [sinkWait]
      rw [runWaitFor, runWaitFor]
      simp only [pollWaitFor, pollFlush, pollSink]
    | cons e t =>
      cases e with
      | ok =>
        simp only [sinkWait]
        rw [runWaitFor, runWaitFor]
        simp only [pollWaitFor, pollFlush, pollSink]
      | err =>
        simp only [sinkWait]
        rw [runWaitFor]
        simp only [pollWaitFor, pollFlush, pollSink]
      | pending =>
        simp only [sinkWait]
        rw [runWaitFor]
        simp only [pollWaitFor, pollFlush, pollSink]
        exact ih _

theorem runWaitFor_flushing_nil (pred : Id → Bool) (k : Nat) (s : State) (h : s.sink = []) :
    runWaitFor pred k .flushing s = runWaitFor pred k .pulling s := by
  obtain ⟨buf, script, asks, sink, sends⟩ := s
  simp only at h
  subst h
  cases k with
  | zero => rfl
  | succ k => rw [runWaitFor_flushing]; rfl

/-- no buffered frame matches: the first poll goes straight to the flush -/
theorem runWaitFor_start_miss (pred : Id → Bool) (k : Nat) (s : State)
    (h : ∀ x ∈ s.buf, matches_ pred x = false) :
    runWaitFor pred k .start s = runWaitFor pred k .flushing s := by
  cases k with
  | zero => rfl
  | succ k =>
    have hf : findIdx pred s.buf 0 = none := findIdx_eq_none.mpr h
    rw [runWaitFor, runWaitFor]
    simp only [pollWaitFor, hf]

/-- a buffered frame matches: the first poll returns the first such frame via `swap_remove` and
    touches nothing else, in particular not the sink -/
theorem runWaitFor_start_hit (pred : Id → Bool) (k : Nat) (s : State) (i : Nat)
    (hi : i < s.buf.length) (h : findIdx pred s.buf 0 = some i) :
    runWaitFor pred (k + 1) .start s = ({ s with buf := swapRemove s.buf i }, .got s.buf[i]) := by
  rw [runWaitFor]
  simp only [pollWaitFor, h, List.getElem?_eq_getElem hi]

/-- what `k` polls of a fresh `wait_for(pred)` future do: either nothing at all (`k = 0`), or the
    buffered-first case, or (no buffered match) the flush followed by the pull phase -/
theorem runWaitFor_start_cases (pred : Id → Bool) (k : Nat) (s : State) :
    (k = 0 ∧ runWaitFor pred k .start s = (s, .cancelled)) ∨
    (1 ≤ k ∧ ∃ i, ∃ hi : i < s.buf.length, findIdx pred s.buf 0 = some i ∧
        runWaitFor pred k .start s = ({ s with buf := swapRemove s.buf i }, .got s.buf[i])) ∨
    (1 ≤ k ∧ (∀ x ∈ s.buf, matches_ pred x = false) ∧
        runWaitFor pred k .start s = runWaitFor pred k .flushing s) := by
  cases k with
  | zero => exact Or.inl ⟨rfl, rfl⟩
  | succ k =>
    right
    cases hf : findIdx pred s.buf 0 with
    | none =>
      have hb := findIdx_eq_none.mp hf
      exact Or.inr ⟨by omega, hb, runWaitFor_start_miss pred _ s hb⟩
    | some i =>
      obtain ⟨hi, _, _⟩ := findIdx_zero_some.mp hf
      exact Or.inl ⟨by omega, i, hi, rfl, runWaitFor_start_hit pred k s i hi hf⟩

/-- what `k` polls of a `wait_for` future suspended in the flush do -/
theorem runWaitFor_flushing_cases (pred : Id → Bool) (k : Nat) (s : State) :
    (∃ r, s.sink = List.replicate k .pending ++ r ∧
        runWaitFor pred k .flushing s = ({ s with sink := r }, .cancelled)) ∨
    (∃ p r, p < k ∧ s.sink = List.replicate p .pending ++ .err :: r ∧
        runWaitFor pred k .flushing s = ({ s with sink := r }, .none_)) ∨
    (∃ p r, p < k ∧
        (s.sink = List.replicate p .pending ++ .ok :: r ∨ (s.sink = List.replicate p .pending ∧ r = [])) ∧
        runWaitFor pred k .flushing s = runWaitFor pred (k - p) .pulling { s with sink := r }) := by
  rw [runWaitFor_flushing]
  rcases hw : sinkWait k s.sink with ⟨e, r, j⟩
  cases e with
  | pending => exact Or.inl ⟨r, (sinkWait_pending hw).2, rfl⟩
  | err =>
    obtain ⟨p, h1, _, h3⟩ := sinkWait_err hw
    exact Or.inr (Or.inl ⟨p, r, h1, h3, rfl⟩)
  | ok =>
    obtain ⟨p, h1, h2, h3⟩ := sinkWait_ok hw
    exact Or.inr (Or.inr ⟨p, r, h1, h3, by rw [h2]⟩)

/-! ### the parts of the state `wait_for` does not read ride along -/

theorem pollWaitFor_asks (pred : Id → Bool) (ph : Phase) (s : State) (a : List (Id × Nat)) :
    pollWaitFor pred ph { s with asks := a } =
      ({ (pollWaitFor pred ph s).1 with asks := a }, (pollWaitFor pred ph s).2) := by
  have hfl : pollFlush pred { s with asks := a } =
      ({ (pollFlush pred s).1 with asks := a }, (pollFlush pred s).2) := by
    obtain ⟨buf, script, asks, sink, sends⟩ := s
    cases sink with
    | nil =>
      simp only [pollFlush, pollSink]
      have := pullLoop_asks pred ⟨buf, script, asks, [], sends⟩ a
      simp only at this
      rw [this]
    | cons e t =>
      cases e with
      | ok =>
        simp only [pollFlush, pollSink]
        have := pullLoop_asks pred ⟨buf, script, asks, t, sends⟩ a
        simp only at this
        rw [this]
      | err => rfl
      | pending => rfl
  cases ph with
  | start =>
    simp only [pollWaitFor]
    cases hf : findIdx pred s.buf 0 with
    | some i => rfl
    | none => exact hfl
  | flushing => exact hfl
  | pulling =>
    simp only [pollWaitFor]
    have := pullLoop_asks pred s a
    simp only at this
    rw [this]

theorem runWaitFor_asks (pred : Id → Bool) (k : Nat) (ph : Phase) (s : State) (a : List (Id × Nat)) :
    runWaitFor pred k ph { s with asks := a } =
      ({ (runWaitFor pred k ph s).1 with asks := a }, (runWaitFor pred k ph s).2) := by
  induction k generalizing ph s with
  | zero => rfl
  | succ k ih =>
    rw [runWaitFor, runWaitFor, pollWaitFor_asks]
    rcases hp : pollWaitFor pred ph s with ⟨s₁, r, p⟩
    rcases r with (_ | m) | _
    · rfl
    · rfl
    · exact ih _ _

/-- `wait_for` never touches the recorded asks nor the `start_send` script -/
theorem pollWaitFor_asks_sends (pred : Id → Bool) (ph : Phase) (s : State) :
    (pollWaitFor pred ph s).1.asks = s.asks ∧ (pollWaitFor pred ph s).1.sends = s.sends := by
  have hpl : ∀ s : State, (pullLoop pred (s.script.length + 1) s).1.asks = s.asks ∧
      (pullLoop pred (s.script.length + 1) s).1.sends = s.sends := by
    intro s
    rw [pullLoop_eq_pull pred _ s (by omega)]
    exact ⟨rfl, rfl⟩
  have hfl : (pollFlush pred s).1.asks = s.asks ∧ (pollFlush pred s).1.sends = s.sends := by
    obtain ⟨buf, script, asks, sink, sends⟩ := s
    cases sink with
    | nil => simp only [pollFlush, pollSink]; exact hpl _
    | cons e t =>
      cases e with
      | ok => simp only [pollFlush, pollSink]; exact hpl _
      | err => exact ⟨rfl, rfl⟩
      | pending => exact ⟨rfl, rfl⟩
  cases ph with
  | start =>
    simp only [pollWaitFor]
    cases hf : findIdx pred s.buf 0 with
    | some i => exact ⟨rfl, rfl⟩
    | none => exact hfl
  | flushing => exact hfl
  | pulling => simp only [pollWaitFor]; exact hpl s

theorem runWaitFor_asks_sends (pred : Id → Bool) (k : Nat) (ph : Phase) (s : State) :
    (runWaitFor pred k ph s).1.asks = s.asks ∧ (runWaitFor pred k ph s).1.sends = s.sends := by
  induction k generalizing ph s with
  | zero => exact ⟨rfl, rfl⟩
  | succ k ih =>
    rw [runWaitFor]
    have h := pollWaitFor_asks_sends pred ph s
    rcases hp : pollWaitFor pred ph s with ⟨s₁, r, p⟩
    rw [hp] at h
    rcases r with (_ | m) | _
    · exact h
    · exact h
    · have := ih p s₁
      exact ⟨this.1.trans h.1, this.2.trans h.2⟩

/-! ### polling on -/

/-- polling on in the pull phase -/
theorem runWaitFor_pulling_add (pred : Id → Bool) (k j : Nat) (s s' : State)
    (h : runWaitFor pred k .pulling s = (s', .cancelled)) :
    runWaitFor pred (k + j) .pulling s = runWaitFor pred j .pulling s' := by
  induction k generalizing s with
  | zero =>
    simp only [runWaitFor_zero, Prod.mk.injEq, and_true] at h
    subst h
    simp
  | succ k ih =>
    have e : k + 1 + j = (k + j) + 1 := by omega
    rw [e, runWaitFor_pulling_succ]
    rw [runWaitFor_pulling_succ] at h
    rcases hr : (pullLoop pred (s.script.length + 1) s).2 with (_ | m) | _
    · rw [hr] at h; simp at h
    · rw [hr] at h; simp at h
    · rw [hr] at h
      exact ih _ h

/-- polling on in the flush phase: the continuation is in the flush phase when all `k` polls were
    answered `Pending` by the sink, otherwise in the pull phase -/
theorem runWaitFor_flushing_add (pred : Id → Bool) (k j : Nat) (s s' : State)
    (h : runWaitFor pred k .flushing s = (s', .cancelled)) :
    (s.sink = List.replicate k .pending ++ s'.sink ∧ s' = { s with sink := s'.sink } ∧
      runWaitFor pred (k + j) .flushing s = runWaitFor pred j .flushing s') ∨
    (s.sink ≠ List.replicate k .pending ++ s'.sink ∧
      runWaitFor pred (k + j) .flushing s = runWaitFor pred j .pulling s') := by
  rw [runWaitFor_flushing] at h
  rw [runWaitFor_flushing pred (k + j)]
  rcases hw : sinkWait k s.sink with ⟨e, r, i⟩
  rw [hw] at h
  cases e with
  | pending =>
    simp only [Prod.mk.injEq, and_true] at h
    subst h
    left
    refine ⟨(sinkWait_pending hw).2, rfl, ?_⟩
    rw [sinkWait_add_pending j hw, runWaitFor_flushing]
  | err => simp at h
  | ok =>
    right
    simp only at h
    rw [sinkWait_add_done j (by simp) hw]
    simp only
    obtain ⟨p, hp1, hp2, hp3⟩ := sinkWait_ok hw
    have hsink : s'.sink = r := by
      have := (runWaitFor_pulling_pulled pred i { s with sink := r })
      rw [h] at this
      obtain ⟨_, _, _, _, _, ⟨_, h6, _⟩, _⟩ := this
      exact h6
    refine ⟨?_, runWaitFor_pulling_add pred i j _ s' h⟩
    rw [hsink]
    intro hcontra
    rcases hp3 with hp3 | ⟨hp3, hr⟩
    · rw [hp3] at hcontra
      exact replicate_ok_ne hp1 hcontra
    · rw [hp3, hr] at hcontra
      have hlen := congrArg List.length hcontra
      simp at hlen
      omega

/-! ## `runRecv` in terms of the sink wait, `start_send` and `runWaitFor` -/

theorem runRecv_zero (id : Id) (ttl : Nat) (ph : RPhase) (s : State) :
    runRecv id ttl 0 ph s = (s, .cancelled) := rfl

theorem runRecv_waiting (id : Id) (ttl k : Nat) (p : Phase) (s : State) :
    runRecv id ttl k (.waiting p) s = runWaitFor (fun x => x == id) k p s := by
  induction k generalizing p s with
  | zero => rfl
  | succ k ih =>
    rw [runRecv, runWaitFor]
    simp only [pollRecv]
    rcases hp : pollWaitFor (fun x => x == id) p s with ⟨s₁, r, p'⟩
    rcases r with (_ | m) | _
    · rfl
    · rfl
    · exact ih _ _

theorem startSend_cases (a : Id × Nat) (s : State) :
    (s.sends.head?.getD true = true ∧
      startSend a s = ({ s with sends := s.sends.tail, asks := s.asks ++ [a] }, true)) ∨
    (s.sends.head? = some false ∧ startSend a s = ({ s with sends := s.sends.tail }, false)) := by
  obtain ⟨buf, script, asks, sink, sends⟩ := s
  cases sends with
  | nil => exact Or.inl ⟨rfl, rfl⟩
  | cons b t =>
    cases b with
    | true => exact Or.inl ⟨rfl, rfl⟩
    | false => exact Or.inr ⟨rfl, rfl⟩

/-- the feed of `recv`: `poll_ready` once per poll until the sink answers; then `start_send`; then,
    IN THE SAME POLL, the first poll of `wait_for` -/
theorem runRecv_feeding (id : Id) (ttl k : Nat) (s : State) :
    runRecv id ttl k .feeding s =
      match sinkWait k s.sink with
      | (.pending, r, _) => ({ s with sink := r }, .cancelled)
      | (.err, r, _) => ({ s with sink := r }, .none_)
      | (.ok, r, j) =>
          match startSend (id, ttl) { s with sink := r } with
          | (s₂, false) => (s₂, .none_)
          | (s₂, true) => runWaitFor (fun x => x == id) j .start s₂ := by
  induction k generalizing s with
  | zero => rfl
  | succ k ih =>
    obtain ⟨buf, script, asks, sink, sends⟩ := s
    cases sink with
    | nil =>
      simp only [sinkWait]
      rw [runRecv]
      simp only [pollRecv, pollSink]
      rcases startSend_cases (id, ttl) ⟨buf, script, asks, [], sends⟩ with ⟨_, e⟩ | ⟨_, e⟩
      · simp only [e]
        rw [runWaitFor]
        rcases hp : pollWaitFor (fun x => x == id) .start
          { buf := buf, script := script, asks := asks ++ [(id, ttl)], sink := [], sends := sends.tail }
          with ⟨s₃, r, p⟩
        rcases r with (_ | m) | _
        · rfl
        · rfl
        · exact runRecv_waiting _ _ _ _ _
      · simp only [e]
    | cons e t =>
      cases e with
      | ok =>
        simp only [sinkWait]
        rw [runRecv]
        simp only [pollRecv, pollSink]
        rcases startSend_cases (id, ttl) ⟨buf, script, asks, t, sends⟩ with ⟨_, e⟩ | ⟨_, e⟩
        · simp only [e]
          rw [runWaitFor]
          rcases hp : pollWaitFor (fun x => x == id) .start
            { buf := buf, script := script, asks := asks ++ [(id, ttl)], sink := t, sends := sends.tail }
            with ⟨s₃, r, p⟩
          rcases r with (_ | m) | _
          · rfl
          · rfl
          · exact runRecv_waiting _ _ _ _ _
        · simp only [e]
      | err =>
        simp only [sinkWait]
        rw [runRecv]
        simp only [pollRecv, pollSink]
      | pending =>
        simp only [sinkWait]
        rw [runRecv]
        simp only [pollRecv, pollSink]
        exact ih _

/-- what `k` polls of a fresh `recv(id, ttl)` future do, by what the sink answers -/
theorem runRecv_feeding_cases (id : Id) (ttl k : Nat) (s : State) :
    (∃ r, s.sink = List.replicate k .pending ++ r ∧ feedOk k s.sink s.sends = false ∧
        runRecv id ttl k .feeding s = ({ s with sink := r }, .cancelled)) ∨
    (∃ p r, p < k ∧ s.sink = List.replicate p .pending ++ .err :: r ∧
        feedOk k s.sink s.sends = false ∧
        runRecv id ttl k .feeding s = ({ s with sink := r }, .none_)) ∨
    (∃ p r, p < k ∧
        (s.sink = List.replicate p .pending ++ .ok :: r ∨ (s.sink = List.replicate p .pending ∧ r = [])) ∧
        ((s.sends.head? = some false ∧ feedOk k s.sink s.sends = false ∧
            runRecv id ttl k .feeding s = ({ s with sink := r, sends := s.sends.tail }, .none_)) ∨
         (s.sends.head?.getD true = true ∧ feedOk k s.sink s.sends = true ∧
            runRecv id ttl k .feeding s =
              runWaitFor (fun x => x == id) (k - p) .start
                { s with sink := r, sends := s.sends.tail, asks := s.asks ++ [(id, ttl)] }))) := by
  rw [runRecv_feeding]
  unfold feedOk
  rcases hw : sinkWait k s.sink with ⟨e, r, j⟩
  cases e with
  | pending => exact Or.inl ⟨r, (sinkWait_pending hw).2, rfl, rfl⟩
  | err =>
    obtain ⟨p, h1, _, h3⟩ := sinkWait_err hw
    exact Or.inr (Or.inl ⟨p, r, h1, h3, rfl, rfl⟩)
  | ok =>
    obtain ⟨p, h1, h2, h3⟩ := sinkWait_ok hw
    refine Or.inr (Or.inr ⟨p, r, h1, h3, ?_⟩)
    rcases startSend_cases (id, ttl) { s with sink := r } with ⟨hh, e⟩ | ⟨hh, e⟩
    · right
      simp only at hh
      refine ⟨hh, hh, ?_⟩
      simp only [e, h2]
    · left
      simp only at hh
      refine ⟨hh, by simp [hh], ?_⟩
      simp only [e]

/-! ## what every call does to the frames -/

/-- the conservation statement for one step from `s` to `s'` with outcome `o` -/
def Conserves (s s' : State) (o : Outcome) : Prop :=
  s.script = consumedBy s s' ++ s'.script ∧
  (msgsOf (consumedBy s s') ++ s.buf).Perm
    ((got? o).toList ++ (msgsOf (consumedBy s s')).filter (fun m => !wf m) ++ s'.buf)

/-- conservation, origin of the buffered frames, and the returned frame matches -/
def Good (pred : Id → Bool) (s s' : State) (o : Outcome) : Prop :=
  Conserves s s' o ∧ (∀ x ∈ s'.buf, x ∈ s.buf ∨ wf x = true) ∧
    (∀ m, o = .got m → matches_ pred m = true)

/-- `Good` looks only at the buffer and the script of the first state -/
theorem Good.of_frames_eq {pred : Id → Bool} {s₁ s s' : State} {o : Outcome}
    (hb : s₁.buf = s.buf) (hs : s₁.script = s.script) (h : Good pred s₁ s' o) : Good pred s s' o := by
  unfold Good Conserves consumedBy at *
  rw [hb, hs] at h
  exact h

/-- neither buffer nor script changed and no frame was returned -/
theorem Good.stay {pred : Id → Bool} {s s' : State} {o : Outcome}
    (hb : s'.buf = s.buf) (hs : s'.script = s.script) (ho : got? o = none) : Good pred s s' o := by
  have hc : consumedBy s s' = [] := consumedBy_eq (c := []) (by simp [hs])
  refine ⟨⟨by rw [hc, hs]; rfl, ?_⟩, ?_, ?_⟩
  · rw [hc, ho, hb]; simp [msgsOf]
  · intro x hx; rw [hb] at hx; exact Or.inl hx
  · intro m hm; subst hm; simp [got?] at ho

theorem count_filter_split (p : Bytes → Bool) (l : List Bytes) (a : Bytes) :
    List.count a l = List.count a (l.filter p) + List.count a (l.filter (fun x => !p x)) := by
  have := (List.filter_append_perm p l).count_eq a
  rw [List.count_append] at this
  omega

/-- conservation across a pull phase -/
theorem Pulled.good {pred : Id → Bool} {s s' : State} {o : Outcome} (h : Pulled pred s s' o) :
    Good pred s s' o := by
  obtain ⟨c0, h1, _, _, h4, _, h6⟩ := h
  have hc : consumedBy s s' = c0 ++ tailOf o := consumedBy_eq h1
  refine ⟨⟨by rw [hc]; exact h1, ?_⟩, ?_, h6⟩
  · rw [hc, msgsOf_append, msgsOf_tailOf, h4]
    have hg : (got? o).toList.filter (fun m => !wf m) = [] := by
      cases o with
      | got m => simp [got?, matches_wf (h6 m rfl)]
      | none_ => rfl
      | cancelled => rfl
    rw [List.filter_append, hg, List.perm_iff_count]
    intro a
    have := count_filter_split wf (msgsOf c0) a
    simp only [List.count_append, List.append_nil]
    omega
  · intro x hx
    rw [h4, List.mem_append, List.mem_filter] at hx
    rcases hx with hx | hx
    · exact Or.inl hx
    · exact Or.inr hx.2

/-- the buffered-first case -/
theorem good_hit (pred : Id → Bool) (s : State) (i : Nat) (hi : i < s.buf.length)
    (hf : findIdx pred s.buf 0 = some i) :
    Good pred s { s with buf := swapRemove s.buf i } (.got s.buf[i]) := by
  have hc : consumedBy s { s with buf := swapRemove s.buf i } = [] := consumedBy_eq (c := []) rfl
  refine ⟨⟨by rw [hc]; rfl, ?_⟩, ?_, ?_⟩
  · simp only [hc, got?, msgsOf]
    simpa using (swapRemove_perm s.buf i hi).symm
  · intro x hx; exact Or.inl (mem_of_mem_swapRemove hi hx)
  · intro m hm
    obtain ⟨_, hmm, _⟩ := findIdx_zero_some.mp hf
    simp only [Outcome.got.injEq] at hm
    rw [← hm]; exact hmm

theorem runWaitFor_flushing_good (pred : Id → Bool) (k : Nat) (s : State) :
    Good pred s (runWaitFor pred k .flushing s).1 (runWaitFor pred k .flushing s).2 := by
  rcases runWaitFor_flushing_cases pred k s with ⟨r, _, e⟩ | ⟨p, r, _, _, e⟩ | ⟨p, r, _, _, e⟩
  · rw [e]; exact Good.stay rfl rfl rfl
  · rw [e]; exact Good.stay rfl rfl rfl
  · rw [e]
    exact Good.of_frames_eq (s₁ := { s with sink := r }) rfl rfl
      (runWaitFor_pulling_pulled pred (k - p) { s with sink := r }).good

/-- **what `k` polls of a `wait_for(pred)` future in any phase do to the frames** -/
theorem runWaitFor_good (pred : Id → Bool) (k : Nat) (ph : Phase) (s : State) :
    Good pred s (runWaitFor pred k ph s).1 (runWaitFor pred k ph s).2 := by
  cases ph with
  | start =>
    rcases runWaitFor_start_cases pred k s with ⟨_, h⟩ | ⟨_, i, hi, hf, h⟩ | ⟨_, _, h⟩
    · rw [h]; exact Good.stay rfl rfl rfl
    · rw [h]; exact good_hit pred s i hi hf
    · rw [h]; exact runWaitFor_flushing_good pred k s
  | flushing => exact runWaitFor_flushing_good pred k s
  | pulling => exact (runWaitFor_pulling_pulled pred k s).good

/-- **what `k` polls of a fresh `recv(id, ttl)` future do to the frames** -/
theorem runRecv_good (id : Id) (ttl k : Nat) (s : State) :
    Good (fun x => x == id) s (runRecv id ttl k .feeding s).1 (runRecv id ttl k .feeding s).2 := by
  rcases runRecv_feeding_cases id ttl k s with
    ⟨r, _, _, e⟩ | ⟨p, r, _, _, _, e⟩ | ⟨p, r, _, _, ⟨_, _, e⟩ | ⟨_, _, e⟩⟩
  · rw [e]; exact Good.stay rfl rfl rfl
  · rw [e]; exact Good.stay rfl rfl rfl
  · rw [e]; exact Good.stay rfl rfl rfl
  · rw [e]
    exact Good.of_frames_eq
      (s₁ := { s with sink := r, sends := s.sends.tail, asks := s.asks ++ [(id, ttl)] }) rfl rfl
      (runWaitFor_good _ _ _ _)

theorem runCalls_cons (s : State) (c : Call) (cs : List Call) :
    runCalls s (c :: cs) =
      ((runCalls (call s c).1 cs).1, (call s c).2 :: (runCalls (call s c).1 cs).2) := rfl

theorem delivered_cons (o : Outcome) (os : List Outcome) :
    delivered (o :: os) = (got? o).toList ++ delivered os := by
  cases o <;> simp [delivered, List.filterMap_cons, got?]

/-- **per-call conservation**: the frames pulled by the call plus the old buffer are, as a
    multiset, what the call returned plus what it dropped plus the new buffer -/
theorem call_conserve (s : State) (c : Call) :
    s.script = consumedBy s (call s c).1 ++ (call s c).1.script ∧
    (msgsOf (consumedBy s (call s c).1) ++ s.buf).Perm
      ((got? (call s c).2).toList ++ droppedBy s c ++ (call s c).1.buf) := by
  cases c with
  | waitFor ids k => exact (runWaitFor_good (fun x => ids.contains x) k .start s).1
  | recv id ttl k => exact (runRecv_good id ttl k s).1
  | next =>
    obtain ⟨buf, script, asks, sink, sends⟩ := s
    simp only [call, pollNext, droppedBy]
    cases hl : buf.getLast? with
    | some m =>
      obtain ⟨ys, rfl⟩ := List.getLast?_eq_some_iff.mp hl
      have hc : consumedBy ⟨ys ++ [m], script, asks, sink, sends⟩
          ⟨(ys ++ [m]).dropLast, script, asks, sink, sends⟩ = [] :=
        consumedBy_eq (c := []) rfl
      simp only [hc, got?, msgsOf]
      refine ⟨rfl, ?_⟩
      simp
    | none =>
      have hb : buf = [] := List.getLast?_eq_none_iff.mp hl
      subst hb
      cases script with
      | nil => simp [pollUnder, consumedBy_self, got?, msgsOf]
      | cons e rest =>
        have hc : consumedBy ⟨[], e :: rest, asks, sink, sends⟩ ⟨[], rest, asks, sink, sends⟩ = [e] :=
          consumedBy_eq (c := [e]) rfl
        cases e <;> simp [pollUnder, hc, got?, msgsOf]

/-- the accepted asks: a `recv` whose feed went through appends its ASK, nothing else touches them -/
theorem call_asks (s : State) (c : Call) : (call s c).1.asks = s.asks ++ asksBy s c := by
  cases c with
  | waitFor ids k =>
    simp only [call, asksBy, List.append_nil]
    exact (runWaitFor_asks_sends _ k .start s).1
  | recv id ttl k =>
    simp only [call, asksBy]
    rcases runRecv_feeding_cases id ttl k s with
      ⟨r, _, hf, e⟩ | ⟨p, r, _, _, hf, e⟩ | ⟨p, r, _, _, ⟨_, hf, e⟩ | ⟨_, hf, e⟩⟩
    · rw [e, hf]; simp
    · rw [e, hf]; simp
    · rw [e, hf]; simp
    · rw [e, hf, (runWaitFor_asks_sends _ _ _ _).1]; simp
  | next =>
    obtain ⟨buf, script, asks, sink, sends⟩ := s
    simp only [call, pollNext, asksBy]
    cases hl : buf.getLast? with
    | some m => simp
    | none => cases script with
      | nil => simp [pollUnder]
      | cons e rest => cases e <;> simp [pollUnder]

/-- the buffer only ever holds frames that were buffered before or are well-formed -/
theorem call_buf_mem (s : State) (c : Call) :
    ∀ x ∈ (call s c).1.buf, x ∈ s.buf ∨ wf x = true := by
  cases c with
  | waitFor ids k => exact (runWaitFor_good (fun x => ids.contains x) k .start s).2.1
  | recv id ttl k => exact (runRecv_good id ttl k s).2.1
  | next =>
    obtain ⟨buf, script, asks, sink, sends⟩ := s
    simp only [call, pollNext]
    cases hl : buf.getLast? with
    | some m => intro x hx; exact Or.inl (List.dropLast_subset _ hx)
    | none =>
      have hb : buf = [] := List.getLast?_eq_none_iff.mp hl
      subst hb
      cases script with
      | nil => simp [pollUnder]
      | cons e rest => cases e <;> simp [pollUnder]

/-! ## returned frames match -/

theorem runWaitFor_got_matches (pred : Id → Bool) (k : Nat) (ph : Phase) (s s' : State) (m : Bytes)
    (h : runWaitFor pred k ph s = (s', .got m)) : matches_ pred m = true := by
  have := (runWaitFor_good pred k ph s).2.2 m
  rw [h] at this
  exact this rfl

theorem runRecv_got_matches (id : Id) (ttl k : Nat) (s s' : State) (m : Bytes)
    (h : runRecv id ttl k .feeding s = (s', .got m)) : matches_ (fun x => x == id) m = true := by
  have := (runRecv_good id ttl k s).2.2 m
  rw [h] at this
  exact this rfl

/-! ## cancellation and reissue -/

/-- a `wait_for` future dropped after `k ≥ 1` pending polls: no buffered frame matched, the
    consumed script prefix contains no matching frame and no end-of-stream, its well-formed
    frames were appended to the buffer in arrival order, the sink answered only `Pending`/`Ok`,
    nothing else changed -/
theorem runWaitFor_start_cancelled (pred : Id → Bool) (k : Nat) (s s' : State) (hk : 1 ≤ k)
    (h : runWaitFor pred k .start s = (s', .cancelled)) :
    (∀ x ∈ s.buf, matches_ pred x = false) ∧
    (∃ c, s.script = c ++ s'.script ∧ (∀ x ∈ msgsOf c, matches_ pred x = false) ∧
      (∀ e ∈ c, e ≠ Ev.closed) ∧ s'.buf = s.buf ++ (msgsOf c).filter wf) ∧
    s'.asks = s.asks ∧ s'.sends = s.sends ∧
    (∃ d, s.sink = d ++ s'.sink ∧ ∀ e ∈ d, e ≠ SinkEv.err) := by
  rcases runWaitFor_start_cases pred k s with ⟨hk0, _⟩ | ⟨_, i, hi, hf, e⟩ | ⟨_, hb, e⟩
  · omega
  · rw [e] at h; simp at h
  · refine ⟨hb, ?_⟩
    rw [e] at h
    rcases runWaitFor_flushing_cases pred k s with ⟨r, hs, e'⟩ | ⟨p, r, _, _, e'⟩ | ⟨p, r, _, hs, e'⟩
    · rw [e'] at h
      simp only [Prod.mk.injEq, and_true] at h
      subst h
      refine ⟨⟨[], by simp [msgsOf]⟩, rfl, rfl, List.replicate k .pending, hs, ?_⟩
      intro e he
      rw [List.eq_of_mem_replicate he]
      simp
    · rw [e'] at h; simp at h
    · rw [e'] at h
      have hp := runWaitFor_pulling_pulled pred (k - p) { s with sink := r }
      rw [h] at hp
      obtain ⟨c, h1, h2, h3, h4, ⟨h5, h6, h7⟩, _⟩ := hp
      refine ⟨⟨c, by simpa [tailOf] using h1, h2, h3, h4⟩, h5, h7, ?_⟩
      simp only at h6
      rw [h6]
      rcases hs with hs | ⟨hs, hr⟩
      · refine ⟨List.replicate p .pending ++ [.ok], by rw [hs]; simp, ?_⟩
        intro e he
        rw [List.mem_append] at he
        rcases he with he | he
        · rw [List.eq_of_mem_replicate he]; simp
        · simp at he; rw [he]; simp
      · refine ⟨List.replicate p .pending, by rw [hs, hr]; simp, ?_⟩
        intro e he
        rw [List.eq_of_mem_replicate he]; simp

/-- after a cancelled `wait_for` that was polled at least once, the scan of a reissued one finds
    nothing: it goes straight to the flush -/
theorem runWaitFor_reissue_scan (pred : Id → Bool) (k j : Nat) (s s' : State) (hk : 1 ≤ k)
    (h : runWaitFor pred k .start s = (s', .cancelled)) :
    runWaitFor pred j .start s' = runWaitFor pred j .flushing s' := by
  obtain ⟨hb, ⟨c, _, hc, _, hbuf⟩, _⟩ := runWaitFor_start_cancelled pred k s s' hk h
  apply runWaitFor_start_miss
  intro x hx
  rw [hbuf, List.mem_append, List.mem_filter] at hx
  rcases hx with hx | hx
  · exact hb x hx
  · exact hc x hx.1

/-- reissuing a cancelled `wait_for`: when the sink has nothing but `Ready(Ok)` left at the
    cancellation point, or when the future was dropped while suspended in the flush (all `k`
    polls were answered `Pending` by the sink), the two futures together behave like one
    uninterrupted future polled `k + j` times -/
theorem runWaitFor_reissue (pred : Id → Bool) (k j : Nat) (s s' : State)
    (h : runWaitFor pred k .start s = (s', .cancelled))
    (hs : s'.sink = [] ∨ s.sink = List.replicate k .pending ++ s'.sink) :
    runWaitFor pred (k + j) .start s = runWaitFor pred j .start s' := by
  by_cases hk : k = 0
  · subst hk
    simp only [runWaitFor_zero, Prod.mk.injEq, and_true] at h
    subst h
    simp
  · have hk1 : 1 ≤ k := by omega
    have hscan := runWaitFor_reissue_scan pred k j s s' hk1 h
    obtain ⟨hb, _⟩ := runWaitFor_start_cancelled pred k s s' hk1 h
    rw [runWaitFor_start_miss pred k s hb] at h
    rw [runWaitFor_start_miss pred (k + j) s hb, hscan]
    rcases runWaitFor_flushing_add pred k j s s' h with ⟨_, _, e⟩ | ⟨hne, e⟩
    · exact e
    · rw [e]
      rcases hs with hs | hs
      · exact (runWaitFor_flushing_nil pred j s' hs).symm
      · exact absurd hs hne

/-- the sink script left after a `wait_for` is a suffix of the sink script -/
theorem runWaitFor_sink_suffix (pred : Id → Bool) (k : Nat) (ph : Phase) (s : State) :
    ∃ d, s.sink = d ++ (runWaitFor pred k ph s).1.sink := by
  have hpull : ∀ (k : Nat) (s : State), (runWaitFor pred k .pulling s).1.sink = s.sink := by
    intro k s
    obtain ⟨_, _, _, _, _, ⟨_, h6, _⟩, _⟩ := runWaitFor_pulling_pulled pred k s
    exact h6
  have hflush : ∀ (k : Nat) (s : State), ∃ d, s.sink = d ++ (runWaitFor pred k .flushing s).1.sink := by
    intro k s
    rcases runWaitFor_flushing_cases pred k s with ⟨r, hs, e⟩ | ⟨p, r, _, hs, e⟩ | ⟨p, r, _, hs, e⟩
    · rw [e]; exact ⟨_, hs⟩
    · rw [e]; exact ⟨List.replicate p .pending ++ [.err], by rw [hs]; simp⟩
    · rw [e, hpull]
      rcases hs with hs | ⟨hs, hr⟩
      · exact ⟨List.replicate p .pending ++ [.ok], by rw [hs]; simp⟩
      · exact ⟨List.replicate p .pending, by rw [hs, hr]; simp⟩
  cases ph with
  | start =>
    rcases runWaitFor_start_cases pred k s with ⟨_, h⟩ | ⟨_, i, hi, hf, h⟩ | ⟨_, _, h⟩
    · rw [h]; exact ⟨[], rfl⟩
    · rw [h]; exact ⟨[], rfl⟩
    · rw [h]; exact hflush k s
  | flushing => exact hflush k s
  | pulling => rw [hpull]; exact ⟨[], rfl⟩

/-- a `wait_for` that returns `None`: either it met the end of the stream (everything read before
    it is buffered or was malformed), or the flush failed and neither the buffer nor the script
    was touched -/
theorem runWaitFor_start_none (pred : Id → Bool) (k : Nat) (s s' : State)
    (h : runWaitFor pred k .start s = (s', .none_)) :
    (∃ c0, s.script = c0 ++ [Ev.closed] ++ s'.script ∧ s'.buf = s.buf ++ (msgsOf c0).filter wf) ∨
    (s'.buf = s.buf ∧ s'.script = s.script ∧ ∃ d, s.sink = d ++ SinkEv.err :: s'.sink) := by
  rcases runWaitFor_start_cases pred k s with ⟨_, e⟩ | ⟨_, i, hi, hf, e⟩ | ⟨_, hb, e⟩
  · rw [e] at h; simp at h
  · rw [e] at h; simp at h
  · rw [e] at h
    rcases runWaitFor_flushing_cases pred k s with ⟨r, hs, e'⟩ | ⟨p, r, _, hs, e'⟩ | ⟨p, r, _, hs, e'⟩
    · rw [e'] at h; simp at h
    · rw [e'] at h
      simp only [Prod.mk.injEq, and_true] at h
      subst h
      exact Or.inr ⟨rfl, rfl, _, hs⟩
    · rw [e'] at h
      have hp := runWaitFor_pulling_pulled pred (k - p) { s with sink := r }
      rw [h] at hp
      obtain ⟨c, h1, _, _, h4, _, _⟩ := hp
      exact Or.inl ⟨c, h1, h4⟩

/-- sink script and `start_send` script only ever lose a prefix -/
theorem call_sink_sends (s : State) (c : Call) :
    (∃ d, s.sink = d ++ (call s c).1.sink) ∧ (∃ t, s.sends = t ++ (call s c).1.sends) := by
  cases c with
  | waitFor ids k =>
    exact ⟨runWaitFor_sink_suffix _ k .start s, [], by
      simp only [call, List.nil_append]; exact (runWaitFor_asks_sends _ k .start s).2.symm⟩
  | recv id ttl k =>
    simp only [call]
    have tl : ∀ l : List Bool, ∃ t, l = t ++ l.tail := by
      intro l; cases l with
      | nil => exact ⟨[], rfl⟩
      | cons b t => exact ⟨[b], rfl⟩
    rcases runRecv_feeding_cases id ttl k s with
      ⟨r, hs, _, e⟩ | ⟨p, r, _, hs, _, e⟩ | ⟨p, r, _, hs, ⟨_, _, e⟩ | ⟨_, _, e⟩⟩
    · rw [e]; exact ⟨⟨_, hs⟩, [], rfl⟩
    · rw [e]; exact ⟨⟨List.replicate p .pending ++ [.err], by rw [hs]; simp⟩, [], rfl⟩
    · rw [e]
      refine ⟨?_, tl s.sends⟩
      rcases hs with hs | ⟨hs, hr⟩
      · exact ⟨List.replicate p .pending ++ [.ok], by rw [hs]; simp⟩
      · exact ⟨List.replicate p .pending, by rw [hs, hr]; simp⟩
    · rw [e]
      obtain ⟨d, hd⟩ := runWaitFor_sink_suffix (fun x => x == id) (k - p) .start
        { s with sink := r, sends := s.sends.tail, asks := s.asks ++ [(id, ttl)] }
      simp only at hd
      refine ⟨?_, ?_⟩
      · rcases hs with hs | ⟨hs, hr⟩
        · refine ⟨List.replicate p .pending ++ [.ok] ++ d, ?_⟩
          rw [hs]
          simp only [List.append_assoc, List.cons_append, List.nil_append]
          rw [← hd]
        · subst hr
          refine ⟨List.replicate p .pending ++ d, ?_⟩
          rw [hs, List.append_assoc, ← hd]
          simp
      · rw [(runWaitFor_asks_sends _ _ _ _).2]
        exact tl s.sends
  | next =>
    obtain ⟨buf, script, asks, sink, sends⟩ := s
    simp only [call, pollNext]
    cases hl : buf.getLast? with
    | some m => exact ⟨⟨[], rfl⟩, [], rfl⟩
    | none => cases script with
      | nil => exact ⟨⟨[], rfl⟩, [], rfl⟩
      | cons e rest => cases e <;> exact ⟨⟨[], rfl⟩, [], rfl⟩

theorem asksOf_cons (c : Call) (cs : List Call) : asksOf (c :: cs) = asksOf [c] ++ asksOf cs := by
  cases c with
  | recv id ttl k => cases k <;> simp [asksOf]
  | waitFor ids k => simp [asksOf]
  | next => simp [asksOf]

theorem feedOk_ready (k : Nat) : feedOk k [] [] = decide (1 ≤ k) := by
  cases k <;> simp [feedOk, sinkWait]

/-! ## forward computation from the shape of the sink script -/

theorem sinkWait_replicate (p j : Nat) (l : List SinkEv) :
    sinkWait (p + j) (List.replicate p .pending ++ l) = sinkWait j l := by
  induction p with
  | zero => simp
  | succ p ih =>
    have e : p + 1 + j = (p + j) + 1 := by omega
    rw [e, List.replicate_succ]
    simp only [List.cons_append, sinkWait]
    exact ih

theorem sinkWait_replicate_pending (k : Nat) (r : List SinkEv) :
    sinkWait k (List.replicate k .pending ++ r) = (.pending, r, 0) := by
  have := sinkWait_replicate k 0 r
  simpa [sinkWait] using this

theorem sinkWait_replicate_err {p k : Nat} (hp : p < k) (r : List SinkEv) :
    sinkWait k (List.replicate p .pending ++ .err :: r) = (.err, r, k - p) := by
  obtain ⟨j, rfl⟩ : ∃ j, k = p + (j + 1) := ⟨k - p - 1, by omega⟩
  rw [sinkWait_replicate]
  simp only [sinkWait]
  congr 2; omega

theorem sinkWait_replicate_ok {p k : Nat} (hp : p < k) (r : List SinkEv) :
    sinkWait k (List.replicate p .pending ++ .ok :: r) = (.ok, r, k - p) := by
  obtain ⟨j, rfl⟩ : ∃ j, k = p + (j + 1) := ⟨k - p - 1, by omega⟩
  rw [sinkWait_replicate]
  simp only [sinkWait]
  congr 2; omega

theorem sinkWait_replicate_nil {p k : Nat} (hp : p < k) :
    sinkWait k (List.replicate p .pending) = (.ok, [], k - p) := by
  obtain ⟨j, rfl⟩ : ∃ j, k = p + (j + 1) := ⟨k - p - 1, by omega⟩
  have := sinkWait_replicate p (j + 1) []
  rw [List.append_nil] at this
  rw [this]
  simp only [sinkWait]
  congr 2; omega

/-- the sink answers `Ready(Ok)` at the (p+1)-th call: literally, or because its script is exhausted -/
def OkAfter (p : Nat) (sink r : List SinkEv) : Prop :=
  sink = List.replicate p .pending ++ .ok :: r ∨ (sink = List.replicate p .pending ∧ r = [])

theorem sinkWait_okAfter {p k : Nat} (hp : p < k) {sink r : List SinkEv} (h : OkAfter p sink r) :
    sinkWait k sink = (.ok, r, k - p) := by
  rcases h with h | ⟨h, hr⟩
  · rw [h]; exact sinkWait_replicate_ok hp r
  · rw [h, hr]; exact sinkWait_replicate_nil hp

theorem runWaitFor_flushing_pending (pred : Id → Bool) (k : Nat) (s : State) (r : List SinkEv)
    (hs : s.sink = List.replicate k .pending ++ r) :
    runWaitFor pred k .flushing s = ({ s with sink := r }, .cancelled) := by
  rw [runWaitFor_flushing, hs, sinkWait_replicate_pending]

theorem runWaitFor_flushing_err (pred : Id → Bool) (k : Nat) (s : State) (p : Nat) (r : List SinkEv)
    (hp : p < k) (hs : s.sink = List.replicate p .pending ++ .err :: r) :
    runWaitFor pred k .flushing s = ({ s with sink := r }, .none_) := by
  rw [runWaitFor_flushing, hs, sinkWait_replicate_err hp]

theorem runWaitFor_flushing_ok (pred : Id → Bool) (k : Nat) (s : State) (p : Nat) (r : List SinkEv)
    (hp : p < k) (hs : OkAfter p s.sink r) :
    runWaitFor pred k .flushing s = runWaitFor pred (k - p) .pulling { s with sink := r } := by
  rw [runWaitFor_flushing, sinkWait_okAfter hp hs]

theorem runRecv_feed_pending (id : Id) (ttl k : Nat) (s : State) (r : List SinkEv)
    (hs : s.sink = List.replicate k .pending ++ r) :
    runRecv id ttl k .feeding s = ({ s with sink := r }, .cancelled) := by
  rw [runRecv_feeding, hs, sinkWait_replicate_pending]

theorem runRecv_feed_err (id : Id) (ttl k : Nat) (s : State) (p : Nat) (r : List SinkEv)
    (hp : p < k) (hs : s.sink = List.replicate p .pending ++ .err :: r) :
    runRecv id ttl k .feeding s = ({ s with sink := r }, .none_) := by
  rw [runRecv_feeding, hs, sinkWait_replicate_err hp]

theorem runRecv_feed_send_err (id : Id) (ttl k : Nat) (s : State) (p : Nat) (r : List SinkEv)
    (hp : p < k) (hs : OkAfter p s.sink r) (t : List Bool) (hsend : s.sends = false :: t) :
    runRecv id ttl k .feeding s = ({ s with sink := r, sends := t }, .none_) := by
  rw [runRecv_feeding, sinkWait_okAfter hp hs]
  simp only [startSend, hsend]

theorem runRecv_feed_ok (id : Id) (ttl k : Nat) (s : State) (p : Nat) (r : List SinkEv)
    (hp : p < k) (hs : OkAfter p s.sink r) (hsend : s.sends.head?.getD true = true) :
    runRecv id ttl k .feeding s =
      runWaitFor (fun x => x == id) (k - p) .start
        { s with sink := r, sends := s.sends.tail, asks := s.asks ++ [(id, ttl)] } := by
  rw [runRecv_feeding, sinkWait_okAfter hp hs]
  rcases startSend_cases (id, ttl) { s with sink := r } with ⟨_, e⟩ | ⟨hh, _⟩
  · simp only [e]
  · simp only at hh
    rw [hh] at hsend
    simp at hsend

theorem feedOk_of_okAfter {p k : Nat} (hp : p < k) {sink r : List SinkEv} (h : OkAfter p sink r)
    (sends : List Bool) : feedOk k sink sends = sends.head?.getD true := by
  unfold feedOk
  rw [sinkWait_okAfter hp h]

/-- a `recv` future dropped while still pending: either it was still suspended in the feed (the
    ASK was not sent, nothing but the sink script changed) or its feed went through and it was
    dropped inside `wait_for` -/
theorem runRecv_cancelled (id : Id) (ttl k : Nat) (s s' : State)
    (h : runRecv id ttl k .feeding s = (s', .cancelled)) :
    (feedOk k s.sink s.sends = false ∧ s.sink = List.replicate k .pending ++ s'.sink ∧
      s' = { s with sink := s'.sink }) ∨
    (feedOk k s.sink s.sends = true ∧ ∃ p r, p < k ∧ OkAfter p s.sink r ∧
      s.sends.head?.getD true = true ∧
      runWaitFor (fun x => x == id) (k - p) .start
        { s with sink := r, sends := s.sends.tail, asks := s.asks ++ [(id, ttl)] } = (s', .cancelled)) := by
  rcases runRecv_feeding_cases id ttl k s with
    ⟨r, hs, hf, e⟩ | ⟨p, r, _, _, _, e⟩ | ⟨p, r, hp, hs, ⟨_, _, e⟩ | ⟨hh, hf, e⟩⟩
  · rw [e] at h
    simp only [Prod.mk.injEq, and_true] at h
    subst h
    exact Or.inl ⟨hf, hs, rfl⟩
  · rw [e] at h; simp at h
  · rw [e] at h; simp at h
  · rw [e] at h
    exact Or.inr ⟨hf, p, r, hp, hs, hh, h⟩

end SlVerif.Buffered
