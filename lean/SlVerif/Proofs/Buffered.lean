import SlVerif.Model.Buffered
/-
  Helper lemmas for C17 (SlVerif/Props/C17.lean) about the model of
  crates/sl-mpc-mate/src/coord/buffered.rs in SlVerif/Model/Buffered.lean.  Core Lean only.

  Contents
  * vocabulary used in the statements of C17: `wf`, `msgsOf`, `consumedBy`, `delivered`,
    `droppedBy`, `droppedRun`, `asksOf`
  * `swapRemove`: permutation of erasing index `i`
  * `findIdx`: first matching index
  * `pull`: fuel-free description of the pull loop, `pullLoop_eq_pull` (fuel sufficiency)
  * `Pulled`: what a (possibly multi-poll, possibly cancelled) pull phase does to the state
  * `runRecv` in terms of `runWaitFor`
  * per-call conservation
-/
namespace SlVerif.Buffered
open SlVerif.Relay (decodeHdr? Id Hdr)

/-! ## vocabulary -/

/-- the frame carries a parseable header (`<&MsgHdr>::try_from` succeeds) -/
def wf (m : Bytes) : Bool := (decodeHdr? m).isSome

/-- the frames (`Poll::Ready(Some(_))` events) of a script segment, in order -/
def msgsOf : List Ev → List Bytes
  | [] => []
  | .msg b :: r => b :: msgsOf r
  | .pending :: r => msgsOf r
  | .closed :: r => msgsOf r

/-- the script prefix consumed between two states -/
def consumedBy (s s' : State) : List Ev := s.script.take (s.script.length - s'.script.length)

def got? : Outcome → Option Bytes
  | .got m => some m
  | .none_ => none
  | .cancelled => none

/-- the frames handed to the application -/
def delivered (os : List Outcome) : List Bytes := os.filterMap got?

/-- the frames one call pulled from the underlying relay and silently dropped: the malformed ones
    pulled by `recv`/`wait_for`; the stream interface drops nothing -/
def droppedBy (s : State) : Call → List Bytes
  | .next => []
  | .recv id ttl k =>
      (msgsOf (consumedBy s (call s (.recv id ttl k)).1)).filter (fun m => !wf m)
  | .waitFor ids k =>
      (msgsOf (consumedBy s (call s (.waitFor ids k)).1)).filter (fun m => !wf m)

/-- ... and a sequence of calls -/
def droppedRun (s : State) : List Call → List Bytes
  | [] => []
  | c :: cs => droppedBy s c ++ droppedRun (call s c).1 cs

/-- the ASK frames a sequence of calls feeds into the sink: one per `recv` polled at least once -/
def asksOf : List Call → List (Id × Nat)
  | [] => []
  | .recv id ttl (_+1) :: cs => (id, ttl) :: asksOf cs
  | _ :: cs => asksOf cs

theorem msgsOf_append (a b : List Ev) : msgsOf (a ++ b) = msgsOf a ++ msgsOf b := by
  induction a with
  | nil => rfl
  | cons e r ih => cases e <;> simp [msgsOf, ih]

theorem consumedBy_eq {s s' : State} {c : List Ev} (h : s.script = c ++ s'.script) :
    consumedBy s s' = c := by
  unfold consumedBy
  rw [h]
  apply List.take_left'
  simp

theorem consumedBy_self (s : State) : consumedBy s s = [] := consumedBy_eq (c := []) rfl

theorem matches_wf {pred : Id → Bool} {m : Bytes} (h : matches_ pred m = true) : wf m = true := by
  unfold matches_ at h
  unfold wf
  cases hd : decodeHdr? m <;> simp_all

theorem matches_iff {pred : Id → Bool} {m : Bytes} :
    matches_ pred m = true ↔ ∃ h, decodeHdr? m = some h ∧ pred h.id = true := by
  unfold matches_
  cases hd : decodeHdr? m <;> simp

theorem wf_iff {m : Bytes} : wf m = true ↔ decodeHdr? m ≠ none := by
  unfold wf
  cases decodeHdr? m <;> simp

theorem not_wf_iff {m : Bytes} : (!wf m) = true ↔ decodeHdr? m = none := by
  unfold wf
  cases decodeHdr? m <;> simp

/-! ## `swapRemove` -/

theorem swapRemove_cons_succ (x : Bytes) (t : List Bytes) (j : Nat) (hj : j < t.length) :
    swapRemove (x :: t) (j + 1) = x :: swapRemove t j := by
  cases t with
  | nil => simp at hj
  | cons y t' =>
    unfold swapRemove
    by_cases h : j + 1 = (y :: t').length
    · simp [h]
    · have h' : ¬ (j + 1 + 1 = (x :: y :: t').length) := by simpa using h
      rw [if_neg h', if_neg h, List.getLast?_cons_cons]
      cases hl : (y :: t').getLast? with
      | none => simp at hl
      | some last => simp

theorem swapRemove_zero (x y : Bytes) (t : List Bytes) :
    swapRemove (x :: y :: t) 0 = (y :: t).getLast (by simp) :: (y :: t).dropLast := by
  unfold swapRemove
  simp [List.getLast?_eq_some_getLast]

/-- `swap_remove(i)` hands out element `i` and keeps all the others -/
theorem swapRemove_perm (l : List Bytes) (i : Nat) (h : i < l.length) :
    (l[i] :: swapRemove l i).Perm l := by
  induction l generalizing i with
  | nil => simp at h
  | cons x t ih =>
    cases i with
    | zero =>
      cases t with
      | nil => simp [swapRemove]
      | cons y t' =>
        rw [swapRemove_zero]
        simp only [List.getElem_cons_zero]
        refine List.Perm.cons x ?_
        have := List.dropLast_concat_getLast (l := y :: t') (by simp)
        exact (List.perm_append_comm (l₁ := [_]) (l₂ := (y :: t').dropLast)).trans (by rw [this])
    | succ j =>
      have hj : j < t.length := by simpa using h
      rw [swapRemove_cons_succ x t j hj]
      simp only [List.getElem_cons_succ]
      exact (List.Perm.swap x t[j] _).trans (List.Perm.cons x (ih j hj))

theorem getElem_cons_eraseIdx_perm (l : List Bytes) (i : Nat) (h : i < l.length) :
    (l[i] :: l.eraseIdx i).Perm l := by
  induction l generalizing i with
  | nil => simp at h
  | cons x t ih =>
    cases i with
    | zero => simp
    | succ j =>
      have hj : j < t.length := by simpa using h
      simp only [List.getElem_cons_succ, List.eraseIdx_cons_succ]
      exact (List.Perm.swap x t[j] _).trans (List.Perm.cons x (ih j hj))

/-- `swap_remove(i)` is, as a multiset, erasing index `i` -/
theorem swapRemove_perm_eraseIdx (l : List Bytes) (i : Nat) (h : i < l.length) :
    (swapRemove l i).Perm (l.eraseIdx i) :=
  List.Perm.cons_inv
    ((swapRemove_perm l i h).trans (getElem_cons_eraseIdx_perm l i h).symm)

theorem swapRemove_length (l : List Bytes) (i : Nat) (h : i < l.length) :
    (swapRemove l i).length = l.length - 1 := by
  have := (swapRemove_perm l i h).length_eq
  simp at this
  omega

theorem mem_of_mem_swapRemove {l : List Bytes} {i : Nat} (h : i < l.length) {x : Bytes}
    (hx : x ∈ swapRemove l i) : x ∈ l :=
  (swapRemove_perm l i h).mem_iff.mp (List.mem_cons_of_mem _ hx)

/-! ## `findIdx` -/

theorem findIdx_eq_none {pred : Id → Bool} {l : List Bytes} {n : Nat} :
    findIdx pred l n = none ↔ ∀ x ∈ l, matches_ pred x = false := by
  induction l generalizing n with
  | nil => simp [findIdx]
  | cons f r ih =>
    unfold findIdx
    by_cases hm : matches_ pred f = true
    · simp [hm]
    · simp [hm, ih]

/-- `findIdx` returns the FIRST matching index -/
theorem findIdx_eq_some {pred : Id → Bool} {l : List Bytes} {n i : Nat} :
    findIdx pred l n = some (n + i) ↔
      ∃ h : i < l.length, matches_ pred l[i] = true ∧
        ∀ j (hj : j < i), matches_ pred (l[j]'(by omega)) = false := by
  induction l generalizing n i with
  | nil => simp [findIdx]
  | cons f r ih =>
    unfold findIdx
    by_cases hm : matches_ pred f = true
    · rw [if_pos hm]
      constructor
      · intro h
        have : i = 0 := by simp at h; omega
        subst this
        exact ⟨by simp, by simpa using hm, by intro j hj; omega⟩
      · rintro ⟨h, _, hall⟩
        cases i with
        | zero => rfl
        | succ i' =>
          have := hall 0 (by omega)
          simp [hm] at this
    · rw [if_neg hm]
      cases i with
      | zero =>
        constructor
        · intro h
          exfalso
          -- the result of findIdx _ _ (n+1) is ≥ n+1
          have key : ∀ (l : List Bytes) (a b : Nat), findIdx pred l a = some b → a ≤ b := by
            intro l
            induction l with
            | nil => intro a b h; simp [findIdx] at h
            | cons g t iht =>
              intro a b h
              unfold findIdx at h
              split at h
              · simp at h; omega
              · have := iht _ _ h; omega
          have := key _ _ _ h
          omega
        · rintro ⟨_, h0, _⟩
          simp at h0
          exact absurd h0 hm
      | succ i' =>
        have e : n + (i' + 1) = (n + 1) + i' := by omega
        rw [e, ih]
        constructor
        · rintro ⟨h, hmi, hall⟩
          refine ⟨by simpa using h, by simpa using hmi, ?_⟩
          intro j hj
          cases j with
          | zero => simpa using hm
          | succ j' => simpa using hall j' (by omega)
        · rintro ⟨h, hmi, hall⟩
          refine ⟨by simpa using h, by simpa using hmi, ?_⟩
          intro j hj
          simpa using hall (j + 1) (by omega)

theorem findIdx_zero_some {pred : Id → Bool} {l : List Bytes} {i : Nat} :
    findIdx pred l 0 = some i ↔
      ∃ h : i < l.length, matches_ pred l[i] = true ∧
        ∀ j (hj : j < i), matches_ pred (l[j]'(by omega)) = false := by
  have := findIdx_eq_some (pred := pred) (l := l) (n := 0) (i := i)
  simpa using this

/-! ## the pull loop without fuel -/

/-- the pull loop of `wait_for` as a structural recursion over the script:
    returns (new buffer, remaining script, result) -/
def pull (pred : Id → Bool) : List Ev → List Bytes → List Bytes × List Ev × Poll (Option Bytes)
  | [], buf => (buf, [], .pending)
  | .pending :: rest, buf => (buf, rest, .pending)
  | .closed :: rest, buf => (buf, rest, .ready none)
  | .msg m :: rest, buf =>
      if matches_ pred m then (buf, rest, .ready (some m))
      else if wf m then pull pred rest (buf ++ [m])
      else pull pred rest buf

/-- **fuel sufficiency**: with more fuel than script events the loop never stops because of fuel;
    it is the fuel-free `pull` -/
theorem pullLoop_eq_pull (pred : Id → Bool) (fuel : Nat) (s : State)
    (h : s.script.length < fuel) :
    pullLoop pred fuel s =
      ({ s with buf := (pull pred s.script s.buf).1, script := (pull pred s.script s.buf).2.1 },
       (pull pred s.script s.buf).2.2) := by
  induction fuel generalizing s with
  | zero => omega
  | succ f ih =>
    obtain ⟨buf, script, asks⟩ := s
    cases script with
    | nil => simp [pullLoop, pollUnder, pull]
    | cons e rest =>
      cases e with
      | pending => simp [pullLoop, pollUnder, pull]
      | closed => simp [pullLoop, pollUnder, pull]
      | msg m =>
        have hlen : rest.length < f := by simpa using h
        cases hd : decodeHdr? m with
        | none =>
          simp only [pullLoop, pollUnder, pull, matches_, wf, hd]
          rw [ih _ (by simpa using hlen)]
          simp
        | some hh =>
          by_cases hp : pred hh.id = true
          · simp [pullLoop, pollUnder, pull, matches_, hd, hp]
          · simp only [pullLoop, pollUnder, pull, matches_, wf, hd, hp]
            rw [ih _ (by simpa using hlen)]
            simp

/-- the fuel used by the model is enough, and any larger amount gives the same result -/
theorem pullLoop_fuel (pred : Id → Bool) (s : State) (f₁ f₂ : Nat)
    (h₁ : s.script.length < f₁) (h₂ : s.script.length < f₂) :
    pullLoop pred f₁ s = pullLoop pred f₂ s := by
  rw [pullLoop_eq_pull pred f₁ s h₁, pullLoop_eq_pull pred f₂ s h₂]

theorem pullLoop_fuel_ge (pred : Id → Bool) (s : State) (extra : Nat) :
    pullLoop pred (s.script.length + 1 + extra) s = pullLoop pred (s.script.length + 1) s :=
  pullLoop_fuel pred s _ _ (by omega) (by omega)

def toOutcome : Poll (Option Bytes) → Outcome
  | .ready (some m) => .got m
  | .ready none => .none_
  | .pending => .cancelled

/-- the script event that ends a pull phase with the given outcome -/
def tailOf : Outcome → List Ev
  | .got m => [.msg m]
  | .none_ => [.closed]
  | .cancelled => []

theorem msgsOf_tailOf (o : Outcome) : msgsOf (tailOf o) = (got? o).toList := by
  cases o <;> rfl

theorem pull_spec (pred : Id → Bool) (script : List Ev) (buf : List Bytes) :
    ∃ c0, script = c0 ++ tailOf (toOutcome (pull pred script buf).2.2) ++ (pull pred script buf).2.1 ∧
      (∀ x ∈ msgsOf c0, matches_ pred x = false) ∧
      (∀ e ∈ c0, e ≠ Ev.closed) ∧
      (pull pred script buf).1 = buf ++ (msgsOf c0).filter wf ∧
      (∀ m, toOutcome (pull pred script buf).2.2 = .got m → matches_ pred m = true) := by
  induction script generalizing buf with
  | nil => exact ⟨[], by simp [pull, toOutcome, tailOf, msgsOf]⟩
  | cons e rest ih =>
    cases e with
    | pending => exact ⟨[.pending], by simp [pull, toOutcome, tailOf, msgsOf]⟩
    | closed => exact ⟨[], by simp [pull, toOutcome, tailOf, msgsOf]⟩
    | msg m =>
      by_cases hm : matches_ pred m = true
      · refine ⟨[], ?_⟩
        simp [pull, hm, toOutcome, tailOf, msgsOf]
      · have hm' : matches_ pred m = false := by simpa using hm
        by_cases hw : wf m = true
        · obtain ⟨c0, h1, h2, h3, h4, h5⟩ := ih (buf ++ [m])
          refine ⟨.msg m :: c0, ?_⟩
          simp only [pull, hm', hw, if_true, Bool.false_eq_true, if_false]
          refine ⟨by simpa using h1, ?_, ?_, ?_, h5⟩
          · intro x hx
            simp only [msgsOf, List.mem_cons] at hx
            rcases hx with rfl | hx
            · exact hm'
            · exact h2 x hx
          · intro e he
            simp only [List.mem_cons] at he
            rcases he with rfl | he
            · simp
            · exact h3 e he
          · rw [h4]; simp [msgsOf, hw]
        · obtain ⟨c0, h1, h2, h3, h4, h5⟩ := ih buf
          refine ⟨.msg m :: c0, ?_⟩
          simp only [pull, hm', hw, Bool.false_eq_true, if_false]
          refine ⟨by simpa using h1, ?_, ?_, ?_, h5⟩
          · intro x hx
            simp only [msgsOf, List.mem_cons] at hx
            rcases hx with rfl | hx
            · exact hm'
            · exact h2 x hx
          · intro e he
            simp only [List.mem_cons] at he
            rcases he with rfl | he
            · simp
            · exact h3 e he
          · rw [h4]; simp [msgsOf, hw]

/-! ## what a pull phase does -/

/-- `Pulled pred s s' o`: starting in `s`, the wrapper consumed the script segment `c0 ++ tailOf o`;
    no frame of `c0` matches; the well-formed ones were appended to the buffer in arrival order
    (the malformed ones dropped); the terminating event is the matching frame / the end of stream /
    nothing (still pending); nothing else changed. -/
def Pulled (pred : Id → Bool) (s s' : State) (o : Outcome) : Prop :=
  ∃ c0, s.script = c0 ++ tailOf o ++ s'.script ∧
    (∀ x ∈ msgsOf c0, matches_ pred x = false) ∧
    (∀ e ∈ c0, e ≠ Ev.closed) ∧
    s'.buf = s.buf ++ (msgsOf c0).filter wf ∧
    s'.asks = s.asks ∧
    (∀ m, o = .got m → matches_ pred m = true)

theorem Pulled.refl (pred : Id → Bool) (s : State) : Pulled pred s s .cancelled :=
  ⟨[], by simp [tailOf, msgsOf]⟩

theorem Pulled.trans {pred : Id → Bool} {s s₁ s₂ : State} {o : Outcome}
    (h₁ : Pulled pred s s₁ .cancelled) (h₂ : Pulled pred s₁ s₂ o) : Pulled pred s s₂ o := by
  obtain ⟨c, a1, a2, a3, a4, a5, _⟩ := h₁
  obtain ⟨d, b1, b2, b3, b4, b5, b6⟩ := h₂
  refine ⟨c ++ d, ?_, ?_, ?_, ?_, by rw [b5, a5], b6⟩
  · rw [a1, b1]; simp [tailOf]
  · intro x hx
    rw [msgsOf_append, List.mem_append] at hx
    rcases hx with hx | hx
    · exact a2 x hx
    · exact b2 x hx
  · intro e he
    rw [List.mem_append] at he
    rcases he with he | he
    · exact a3 e he
    · exact b3 e he
  · rw [b4, a4, msgsOf_append]; simp

theorem pullLoop_pulled (pred : Id → Bool) (s : State) :
    Pulled pred s (pullLoop pred (s.script.length + 1) s).1
      (toOutcome (pullLoop pred (s.script.length + 1) s).2) := by
  rw [pullLoop_eq_pull pred _ s (by omega)]
  obtain ⟨c0, h1, h2, h3, h4, h5⟩ := pull_spec pred s.script s.buf
  exact ⟨c0, h1, h2, h3, h4, rfl, h5⟩

/-- the pull loop reads only `buf` and `script`: the recorded asks ride along -/
theorem pullLoop_asks (pred : Id → Bool) (s : State) (a : List (Id × Nat)) :
    pullLoop pred (s.script.length + 1) { s with asks := a } =
      ({ (pullLoop pred (s.script.length + 1) s).1 with asks := a },
       (pullLoop pred (s.script.length + 1) s).2) := by
  rw [pullLoop_eq_pull pred _ s (by omega)]
  rw [pullLoop_eq_pull pred _ { s with asks := a } (by simp)]

/-! ## `runWaitFor` -/

theorem runWaitFor_pulling_succ (pred : Id → Bool) (k : Nat) (s : State) :
    runWaitFor pred (k + 1) .pulling s =
      match (pullLoop pred (s.script.length + 1) s).2 with
      | .ready (some m) => ((pullLoop pred (s.script.length + 1) s).1, .got m)
      | .ready none => ((pullLoop pred (s.script.length + 1) s).1, .none_)
      | .pending => runWaitFor pred k .pulling (pullLoop pred (s.script.length + 1) s).1 := by
  rw [runWaitFor]
  simp only [pollWaitFor]
  rcases hp : pullLoop pred (s.script.length + 1) s with ⟨s', r⟩
  rcases r with (_ | m) | _ <;> rfl

/-- a pull phase of any number of polls, possibly cancelled at the end -/
theorem runWaitFor_pulling_pulled (pred : Id → Bool) (k : Nat) (s : State) :
    Pulled pred s (runWaitFor pred k .pulling s).1 (runWaitFor pred k .pulling s).2 := by
  induction k generalizing s with
  | zero => exact Pulled.refl pred s
  | succ k ih =>
    rw [runWaitFor_pulling_succ]
    have hp := pullLoop_pulled pred s
    rcases hr : (pullLoop pred (s.script.length + 1) s).2 with (_ | m) | _
    · rw [hr] at hp; exact hp
    · rw [hr] at hp; exact hp
    · rw [hr] at hp; exact hp.trans (ih _)

/-- no buffered frame matches: the first poll goes straight to the pull loop -/
theorem runWaitFor_start_miss (pred : Id → Bool) (k : Nat) (s : State)
    (h : ∀ x ∈ s.buf, matches_ pred x = false) :
    runWaitFor pred k .start s = runWaitFor pred k .pulling s := by
  cases k with
  | zero => rfl
  | succ k =>
    have hf : findIdx pred s.buf 0 = none := findIdx_eq_none.mpr h
    rw [runWaitFor, runWaitFor]
    simp only [pollWaitFor, hf]

/-- a buffered frame matches: the first poll returns the first such frame via `swap_remove` and
    touches nothing else -/
theorem runWaitFor_start_hit (pred : Id → Bool) (k : Nat) (s : State) (i : Nat)
    (hi : i < s.buf.length) (h : findIdx pred s.buf 0 = some i) :
    runWaitFor pred (k + 1) .start s = ({ s with buf := swapRemove s.buf i }, .got s.buf[i]) := by
  rw [runWaitFor]
  simp only [pollWaitFor, h, List.getElem?_eq_getElem hi]

theorem runWaitFor_asks (pred : Id → Bool) (k : Nat) (s : State) (a : List (Id × Nat)) :
    runWaitFor pred k .pulling { s with asks := a } =
      ({ (runWaitFor pred k .pulling s).1 with asks := a }, (runWaitFor pred k .pulling s).2) := by
  induction k generalizing s with
  | zero => rfl
  | succ k ih =>
    rw [runWaitFor_pulling_succ, runWaitFor_pulling_succ]
    have := pullLoop_asks pred s a
    simp only at this
    simp only [this]
    rcases hr : (pullLoop pred (s.script.length + 1) s).2 with (_ | m) | _
    · rfl
    · rfl
    · exact ih _

/-- polling on after `k ≥ 1` pending polls = continuing in the `pulling` phase -/
theorem runWaitFor_add (pred : Id → Bool) (k j : Nat) (ph : Phase) (s s' : State) (hk : 1 ≤ k)
    (h : runWaitFor pred k ph s = (s', .cancelled)) :
    runWaitFor pred (k + j) ph s = runWaitFor pred j .pulling s' := by
  induction k generalizing ph s with
  | zero => omega
  | succ k ih =>
    have e : k + 1 + j = (k + j) + 1 := by omega
    rw [e, runWaitFor]
    rw [runWaitFor] at h
    rcases hp : pollWaitFor pred ph s with ⟨s₁, r⟩
    rw [hp] at h
    rcases r with (_ | m) | _
    · simp at h
    · simp at h
    · simp only at h ⊢
      cases k with
      | zero =>
        simp only [runWaitFor, Prod.mk.injEq, and_true] at h
        subst h
        simp
      | succ k' => exact ih .pulling s₁ (by omega) h

/-! ## `runRecv` in terms of `runWaitFor` -/

theorem runRecv_waiting (id : Id) (ttl k : Nat) (p : Phase) (s : State) :
    runRecv id ttl k (.waiting p) s = runWaitFor (fun x => x == id) k p s := by
  induction k generalizing p s with
  | zero => rfl
  | succ k ih =>
    rw [runRecv, runWaitFor]
    simp only [pollRecv]
    rcases hp : pollWaitFor (fun x => x == id) p s with ⟨s₁, r⟩
    rcases r with (_ | m) | _
    · rfl
    · rfl
    · exact ih _ _

theorem runRecv_start (id : Id) (ttl k : Nat) (s : State) :
    runRecv id ttl (k + 1) .start s =
      runWaitFor (fun x => x == id) (k + 1) .start { s with asks := s.asks ++ [(id, ttl)] } := by
  rw [runRecv, runWaitFor]
  simp only [pollRecv]
  rcases hp : pollWaitFor (fun x => x == id) .start { s with asks := s.asks ++ [(id, ttl)] }
    with ⟨s₁, r⟩
  rcases r with (_ | m) | _
  · rfl
  · rfl
  · exact runRecv_waiting _ _ _ _ _

/-! ## per-call conservation -/

theorem count_filter_split (p : Bytes → Bool) (l : List Bytes) (a : Bytes) :
    List.count a l = List.count a (l.filter p) + List.count a (l.filter (fun x => !p x)) := by
  have := (List.filter_append_perm p l).count_eq a
  rw [List.count_append] at this
  omega

/-- conservation across a pull phase -/
theorem Pulled.conserve {pred : Id → Bool} {s s' : State} {o : Outcome} (h : Pulled pred s s' o) :
    s.script = consumedBy s s' ++ s'.script ∧
    (msgsOf (consumedBy s s') ++ s.buf).Perm
      ((got? o).toList ++ (msgsOf (consumedBy s s')).filter (fun m => !wf m) ++ s'.buf) := by
  obtain ⟨c0, h1, _, _, h4, _, h6⟩ := h
  have hc : consumedBy s s' = c0 ++ tailOf o := consumedBy_eq h1
  rw [hc]
  refine ⟨h1, ?_⟩
  rw [msgsOf_append, msgsOf_tailOf, h4]
  have hg : (got? o).toList.filter (fun m => !wf m) = [] := by
    cases o with
    | got m => simp [got?, matches_wf (h6 m rfl)]
    | none_ => rfl
    | cancelled => rfl
  rw [List.filter_append, hg, List.perm_iff_count]
  intro a
  have := count_filter_split wf (msgsOf c0) a
  simp only [List.count_append, List.append_nil]
  omega

/-- what `k` polls of a fresh `wait_for(pred)` future do: either nothing at all (`k = 0`), or the
    buffered-first case, or a pull phase with no buffered match -/
theorem runWaitFor_start_cases (pred : Id → Bool) (k : Nat) (s : State) :
    (k = 0 ∧ runWaitFor pred k .start s = (s, .cancelled)) ∨
    (1 ≤ k ∧ ∃ i, ∃ hi : i < s.buf.length, findIdx pred s.buf 0 = some i ∧
        runWaitFor pred k .start s = ({ s with buf := swapRemove s.buf i }, .got s.buf[i])) ∨
    (1 ≤ k ∧ (∀ x ∈ s.buf, matches_ pred x = false) ∧
        runWaitFor pred k .start s = runWaitFor pred k .pulling s) := by
  cases k with
  | zero => exact Or.inl ⟨rfl, rfl⟩
  | succ k =>
    right
    cases hf : findIdx pred s.buf 0 with
    | none =>
      have hb := findIdx_eq_none.mp hf
      exact Or.inr ⟨by omega, hb, runWaitFor_start_miss pred _ s hb⟩
    | some i =>
      obtain ⟨hi, _, _⟩ := findIdx_zero_some.mp hf
      exact Or.inl ⟨by omega, i, hi, rfl, runWaitFor_start_hit pred k s i hi hf⟩

theorem runWaitFor_start_conserve (pred : Id → Bool) (k : Nat) (s : State) :
    s.script = consumedBy s (runWaitFor pred k .start s).1 ++ (runWaitFor pred k .start s).1.script ∧
    (msgsOf (consumedBy s (runWaitFor pred k .start s).1) ++ s.buf).Perm
      ((got? (runWaitFor pred k .start s).2).toList ++
        (msgsOf (consumedBy s (runWaitFor pred k .start s).1)).filter (fun m => !wf m) ++
        (runWaitFor pred k .start s).1.buf) ∧
    (runWaitFor pred k .start s).1.asks = s.asks := by
  rcases runWaitFor_start_cases pred k s with ⟨_, h⟩ | ⟨_, i, hi, _, h⟩ | ⟨_, _, h⟩
  · rw [h]; simp [consumedBy_self, got?, msgsOf]
  · rw [h]
    have hc : consumedBy s { s with buf := swapRemove s.buf i } = [] := consumedBy_eq (c := []) rfl
    simp only [hc, got?, msgsOf]
    refine ⟨by simp, ?_, by simp⟩
    simpa using (swapRemove_perm s.buf i hi).symm
  · rw [h]
    have hp := runWaitFor_pulling_pulled pred k s
    obtain ⟨_, _, _, _, _, ha, _⟩ := id hp
    exact ⟨hp.conserve.1, hp.conserve.2, ha⟩

theorem runCalls_cons (s : State) (c : Call) (cs : List Call) :
    runCalls s (c :: cs) =
      ((runCalls (call s c).1 cs).1, (call s c).2 :: (runCalls (call s c).1 cs).2) := rfl

theorem delivered_cons (o : Outcome) (os : List Outcome) :
    delivered (o :: os) = (got? o).toList ++ delivered os := by
  cases o <;> simp [delivered, List.filterMap_cons, got?]

/-- **per-call conservation**: the frames pulled by the call plus the old buffer are, as a
    multiset, what the call returned plus what it dropped plus the new buffer -/
theorem call_conserve (s : State) (c : Call) :
    s.script = consumedBy s (call s c).1 ++ (call s c).1.script ∧
    (msgsOf (consumedBy s (call s c).1) ++ s.buf).Perm
      ((got? (call s c).2).toList ++ droppedBy s c ++ (call s c).1.buf) := by
  cases c with
  | waitFor ids k =>
    have := runWaitFor_start_conserve (fun x => ids.contains x) k s
    exact ⟨this.1, this.2.1⟩
  | recv id ttl k =>
    cases k with
    | zero => simp [call, runRecv, droppedBy, consumedBy_self, got?, msgsOf]
    | succ k =>
      have h := runWaitFor_start_conserve (fun x => x == id) (k + 1)
        { s with asks := s.asks ++ [(id, ttl)] }
      have e : call s (.recv id ttl (k + 1)) =
          runWaitFor (fun x => x == id) (k + 1) .start { s with asks := s.asks ++ [(id, ttl)] } :=
        runRecv_start id ttl k s
      simp only [droppedBy, e]
      exact ⟨h.1, h.2.1⟩
  | next =>
    obtain ⟨buf, script, asks⟩ := s
    simp only [call, pollNext, droppedBy]
    cases hl : buf.getLast? with
    | some m =>
      obtain ⟨ys, rfl⟩ := List.getLast?_eq_some_iff.mp hl
      have hc : consumedBy ⟨ys ++ [m], script, asks⟩ ⟨(ys ++ [m]).dropLast, script, asks⟩ = [] :=
        consumedBy_eq (c := []) rfl
      simp only [hc, got?, msgsOf]
      refine ⟨rfl, ?_⟩
      simp
    | none =>
      have hb : buf = [] := List.getLast?_eq_none_iff.mp hl
      subst hb
      cases script with
      | nil => simp [pollUnder, consumedBy_self, got?, msgsOf]
      | cons e rest =>
        have hc : consumedBy ⟨[], e :: rest, asks⟩ ⟨[], rest, asks⟩ = [e] :=
          consumedBy_eq (c := [e]) rfl
        cases e <;> simp [pollUnder, hc, got?, msgsOf]

/-- the recorded asks: `recv` polled at least once appends its ASK, nothing else touches them -/
theorem call_asks (s : State) (c : Call) : (call s c).1.asks = s.asks ++ asksOf [c] := by
  cases c with
  | waitFor ids k =>
    have := (runWaitFor_start_conserve (fun x => ids.contains x) k s).2.2
    simp only [call, asksOf, List.append_nil]
    exact this
  | recv id ttl k =>
    cases k with
    | zero => simp [call, runRecv, asksOf]
    | succ k =>
      have h := runWaitFor_start_conserve (fun x => x == id) (k + 1)
        { s with asks := s.asks ++ [(id, ttl)] }
      have e : call s (.recv id ttl (k + 1)) =
          runWaitFor (fun x => x == id) (k + 1) .start { s with asks := s.asks ++ [(id, ttl)] } :=
        runRecv_start id ttl k s
      rw [e, h.2.2]
      simp [asksOf]
  | next =>
    obtain ⟨buf, script, asks⟩ := s
    simp only [call, pollNext, asksOf]
    cases hl : buf.getLast? with
    | some m => simp
    | none => cases script with
      | nil => simp [pollUnder]
      | cons e rest => cases e <;> simp [pollUnder]

theorem asksOf_cons (c : Call) (cs : List Call) : asksOf (c :: cs) = asksOf [c] ++ asksOf cs := by
  cases c with
  | recv id ttl k => cases k <;> simp [asksOf]
  | waitFor ids k => simp [asksOf]
  | next => simp [asksOf]

/-- the buffer only ever holds frames that were buffered before or are well-formed -/
theorem call_buf_mem (s : State) (c : Call) :
    ∀ x ∈ (call s c).1.buf, x ∈ s.buf ∨ wf x = true := by
  have hw : ∀ (pred : Id → Bool) (k : Nat) (s : State),
      ∀ x ∈ (runWaitFor pred k .start s).1.buf, x ∈ s.buf ∨ wf x = true := by
    intro pred k s x hx
    rcases runWaitFor_start_cases pred k s with ⟨_, h⟩ | ⟨_, i, hi, _, h⟩ | ⟨_, _, h⟩
    · rw [h] at hx; exact Or.inl hx
    · rw [h] at hx; exact Or.inl (mem_of_mem_swapRemove hi hx)
    · rw [h] at hx
      obtain ⟨c0, _, _, _, h4, _, _⟩ := runWaitFor_pulling_pulled pred k s
      rw [h4, List.mem_append, List.mem_filter] at hx
      rcases hx with hx | hx
      · exact Or.inl hx
      · exact Or.inr hx.2
  cases c with
  | waitFor ids k => exact hw _ k s
  | recv id ttl k =>
    cases k with
    | zero => intro x hx; exact Or.inl hx
    | succ k =>
      have e : call s (.recv id ttl (k + 1)) =
          runWaitFor (fun x => x == id) (k + 1) .start { s with asks := s.asks ++ [(id, ttl)] } :=
        runRecv_start id ttl k s
      rw [e]
      exact hw _ _ _
  | next =>
    obtain ⟨buf, script, asks⟩ := s
    simp only [call, pollNext]
    cases hl : buf.getLast? with
    | some m => intro x hx; exact Or.inl (List.dropLast_subset _ hx)
    | none =>
      have hb : buf = [] := List.getLast?_eq_none_iff.mp hl
      subst hb
      cases script with
      | nil => simp [pollUnder]
      | cons e rest => cases e <;> simp [pollUnder]

/-! ## returned frames match; cancellation -/

theorem runWaitFor_got_matches (pred : Id → Bool) (k : Nat) (s s' : State) (m : Bytes)
    (h : runWaitFor pred k .start s = (s', .got m)) : matches_ pred m = true := by
  rcases runWaitFor_start_cases pred k s with ⟨_, e⟩ | ⟨_, i, hi, hf, e⟩ | ⟨_, _, e⟩
  · rw [e] at h; simp at h
  · rw [e] at h
    obtain ⟨_, hm, _⟩ := findIdx_zero_some.mp hf
    simp only [Prod.mk.injEq, Outcome.got.injEq] at h
    rw [← h.2]; exact hm
  · have hp := runWaitFor_pulling_pulled pred k s
    rw [← e, h] at hp
    obtain ⟨_, _, _, _, _, _, h6⟩ := hp
    exact h6 m rfl

/-- a `wait_for` future dropped after `k ≥ 1` pending polls: no buffered frame matched, the
    consumed script prefix contains no matching frame and no end-of-stream, its well-formed
    frames were appended to the buffer in arrival order, nothing else changed -/
theorem runWaitFor_start_cancelled (pred : Id → Bool) (k : Nat) (s s' : State) (hk : 1 ≤ k)
    (h : runWaitFor pred k .start s = (s', .cancelled)) :
    (∀ x ∈ s.buf, matches_ pred x = false) ∧
    ∃ c, s.script = c ++ s'.script ∧ (∀ x ∈ msgsOf c, matches_ pred x = false) ∧
      (∀ e ∈ c, e ≠ Ev.closed) ∧ s'.buf = s.buf ++ (msgsOf c).filter wf ∧ s'.asks = s.asks := by
  rcases runWaitFor_start_cases pred k s with ⟨hk0, _⟩ | ⟨_, i, hi, hf, e⟩ | ⟨_, hb, e⟩
  · omega
  · rw [e] at h; simp at h
  · have hp := runWaitFor_pulling_pulled pred k s
    rw [← e, h] at hp
    obtain ⟨c, h1, h2, h3, h4, h5, _⟩ := hp
    exact ⟨hb, c, by simpa [tailOf] using h1, h2, h3, h4, h5⟩

theorem runWaitFor_zero (pred : Id → Bool) (ph : Phase) (s : State) :
    runWaitFor pred 0 ph s = (s, .cancelled) := rfl

/-- reissuing a cancelled `wait_for`: the two futures together behave like one uninterrupted
    future polled `k + j` times -/
theorem runWaitFor_reissue (pred : Id → Bool) (k j : Nat) (s s' : State)
    (h : runWaitFor pred k .start s = (s', .cancelled)) :
    runWaitFor pred (k + j) .start s = runWaitFor pred j .start s' := by
  by_cases hk : k = 0
  · subst hk
    simp only [runWaitFor_zero, Prod.mk.injEq, and_true] at h
    subst h
    simp
  · have hk1 : 1 ≤ k := by omega
    obtain ⟨hb, c, _, hc, _, hbuf, _⟩ := runWaitFor_start_cancelled pred k s s' hk1 h
    rw [runWaitFor_add pred k j .start s s' hk1 h]
    symm
    apply runWaitFor_start_miss
    intro x hx
    rw [hbuf, List.mem_append, List.mem_filter] at hx
    rcases hx with hx | hx
    · exact hb x hx
    · exact hc x hx.1

/-- `wait_for` reads only `buf` and `script` -/
theorem runWaitFor_start_asks (pred : Id → Bool) (k : Nat) (s : State) (a : List (Id × Nat)) :
    runWaitFor pred k .start { s with asks := a } =
      ({ (runWaitFor pred k .start s).1 with asks := a }, (runWaitFor pred k .start s).2) := by
  rcases runWaitFor_start_cases pred k s with ⟨hk, e⟩ | ⟨hk, i, hi, hf, e⟩ | ⟨_, hb, e⟩
  · subst hk; rfl
  · obtain ⟨k', rfl⟩ : ∃ k', k = k' + 1 := ⟨k - 1, by omega⟩
    rw [e, runWaitFor_start_hit pred k' { s with asks := a } i hi hf]
  · rw [e, runWaitFor_start_miss pred k { s with asks := a } hb, runWaitFor_asks]

end SlVerif.Buffered
