import SlVerif.Proofs.Paillier
/-
  Number theory behind Paillier, on `Nat` with `Nat.ModEq`: binomial `(1+aN)^k ≡ 1+kaN (mod N²)`,
  `x ≡ 1 (mod n) → x^n ≡ 1 (mod n²)`, the shape of `(1+xN) mod N²`, existence of the decomposition
  `c ≡ (1+mN) r^N (mod N²)` for every `c` coprime to `N`, and correctness of `recombine` (Garner CRT).
-/
namespace SlVerif.Paillier

theorem one_add_mul_pow (N a k : Nat) : (1 + a * N) ^ k ≡ 1 + k * a * N [MOD N * N] := by
  induction k with
  | zero => simp [Nat.ModEq]
  | succ k ih =>
      rw [pow_succ]
      refine (ih.mul_right _).trans ?_
      have : (1 + k * a * N) * (1 + a * N) = (1 + (k + 1) * a * N) + (N * N) * (k * a * a) := by ring
      unfold Nat.ModEq
      rw [this, Nat.add_mul_mod_self_left]

theorem pow_self_of_modEq_one (n x : Nat) (h : x ≡ 1 [MOD n]) : x ^ n ≡ 1 [MOD n * n] := by
  rcases Nat.lt_or_ge 1 n with hn | hn
  · have hx : x % n = 1 := by
      have := h; unfold Nat.ModEq at this; rwa [Nat.mod_eq_of_lt hn] at this
    have hx' : x = 1 + (x / n) * n := by
      have := Nat.div_add_mod x n; rw [hx] at this; linarith [mul_comm n (x / n)]
    rw [hx']
    refine (one_add_mul_pow n (x / n) n).trans ?_
    have : 1 + n * (x / n) * n = 1 + (n * n) * (x / n) := by ring
    unfold Nat.ModEq
    rw [this, Nat.add_mul_mod_self_left]
  · interval_cases n
    · have : x = 1 := by simpa [Nat.ModEq] using h
      subst this; simp [Nat.ModEq]
    · simp [Nat.ModEq, Nat.mod_one]

theorem one_add_mul_mod (N x : Nat) (hN : 1 < N) : (1 + x * N) % (N * N) = 1 + (x % N) * N := by
  have hx : 1 + x * N = (1 + (x % N) * N) + (N * N) * (x / N) := by
    have := Nat.div_add_mod x N
    calc 1 + x * N = 1 + (N * (x / N) + x % N) * N := by rw [this]
      _ = _ := by ring
  rw [hx, Nat.add_mul_mod_self_left]
  apply Nat.mod_eq_of_lt
  have h1 : x % N ≤ N - 1 := Nat.le_sub_one_of_lt (Nat.mod_lt _ (by omega))
  have h2 : (x % N) * N ≤ (N - 1) * N := Nat.mul_le_mul_right _ h1
  have h3 : (N - 1) * N + N = N * N := by
    have : N - 1 + 1 = N := by omega
    calc (N - 1) * N + N = (N - 1 + 1) * N := by ring
      _ = N * N := by rw [this]
  omega

theorem pow_of_mod_eq_one {r k n e : Nat} (h : r ^ k ≡ 1 [MOD n]) (he : e % k = 1) : r ^ e ≡ r [MOD n] := by
  have hd : e = k * (e / k) + 1 := by
    have := Nat.div_add_mod e k; rw [he] at this; exact this.symm
  rw [hd, pow_succ, pow_mul]
  have := (h.pow (e / k)).mul_right r
  simpa using this

/-- every `c` coprime to `N` is `(1+mN) r^N` modulo `N²` for some `m` and unit `r`, provided `gcd(N, φ(N)) = 1` -/
theorem exists_decomp (N c : Nat) (hN : 1 < N) (hφ : 1 < N.totient) (hcop : Nat.Coprime N N.totient)
    (hc : Nat.Coprime c N) :
    ∃ m r, Nat.Coprime r N ∧ c ≡ (1 + m * N) * r ^ N [MOD N * N] := by
  -- d = N⁻¹ mod φ
  have hd := invMod_spec N N.totient (by omega) hcop
  set d := invMod N N.totient
  have hd1 : (N * d) % N.totient = 1 := by
    have := hd; unfold Nat.ModEq at this; rwa [Nat.mod_eq_of_lt hφ] at this
  -- r = c^d, r^N ≡ c (mod N)
  have hrN : (c ^ d) ^ N ≡ c [MOD N] := by
    rw [← pow_mul, mul_comm d N]
    exact pow_of_mod_eq_one (Nat.ModEq.pow_totient hc) hd1
  have hr : Nat.Coprime (c ^ d) N := Nat.Coprime.pow_left _ hc
  -- s = (r^N)⁻¹ mod N²
  have hNN : 0 < N * N := by positivity
  have hrNN : Nat.Coprime ((c ^ d) ^ N) (N * N) :=
    Nat.Coprime.pow_left _ (Nat.Coprime.mul_right hr hr)
  have hs := invMod_spec ((c ^ d) ^ N) (N * N) hNN hrNN
  set s := invMod ((c ^ d) ^ N) (N * N)
  -- u = c * s ≡ 1 (mod N)
  have hsN : (c ^ d) ^ N * s ≡ 1 [MOD N] := hs.of_mul_left N
  have hu : c * s ≡ 1 [MOD N] := (hrN.symm.mul_right s).trans hsN
  have hu1 : (c * s) % N = 1 := by
    have := hu; unfold Nat.ModEq at this; rwa [Nat.mod_eq_of_lt hN] at this
  refine ⟨c * s / N, c ^ d, hr, ?_⟩
  have hcs : 1 + (c * s / N) * N = c * s := by
    have := Nat.div_add_mod (c * s) N; rw [hu1] at this; linarith [mul_comm N (c * s / N)]
  rw [hcs]
  have : c * s * (c ^ d) ^ N = c * ((c ^ d) ^ N * s) := by ring
  rw [this]
  simpa using (hs.mul_left c).symm

/-- `recombine` returns the unique `x < p*q` with `x ≡ v1 (mod p)` and `x ≡ v2 (mod q)` -/
theorem recombine_spec {P p q pinv v1 v2 y : Nat} (hp : p < 2 ^ P) (hq : q < 2 ^ P) (hq1 : 1 < q)
    (hcop : Nat.Coprime p q) (hinv : p * pinv ≡ 1 [MOD q])
    (hv1 : y % p = v1) (hv2 : y % q = v2) (hp0 : 0 < p) :
    recombine P pinv v1 v2 p q = y % (p * q) := by
  have hv1lt : v1 < p := by rw [← hv1]; exact Nat.mod_lt _ hp0
  have hv2lt : v2 < q := by rw [← hv2]; exact Nat.mod_lt _ (by omega)
  have hlq : v1 % q < q := Nat.mod_lt _ (by omega)
  -- d
  obtain ⟨d, hd, hdlt, hdm⟩ : ∃ d, subMod P v2 (v1 % q) q = d ∧ d < q ∧ d + v1 ≡ v2 [MOD q] := by
    rcases Nat.lt_or_ge v2 (v1 % q) with hlt | hge
    · refine ⟨v2 + q - v1 % q, subMod_of_lt hlt (by omega) (by omega) (by omega), by omega, ?_⟩
      have h1 : v2 + q - v1 % q + v1 % q = v2 + q := by omega
      have : v2 + q - v1 % q + v1 ≡ v2 + q - v1 % q + v1 % q [MOD q] :=
        Nat.ModEq.add_left _ (Nat.mod_modEq _ _).symm
      refine this.trans ?_
      rw [h1]; simp [Nat.ModEq]
    · refine ⟨v2 - v1 % q, subMod_of_le hge (by omega), by omega, ?_⟩
      have h1 : v2 - v1 % q + v1 % q = v2 := by omega
      have : v2 - v1 % q + v1 ≡ v2 - v1 % q + v1 % q [MOD q] :=
        Nat.ModEq.add_left _ (Nat.mod_modEq _ _).symm
      rw [h1] at this; exact this
  unfold recombine
  simp only [hd]
  set u := d * pinv % q with hu
  have hult : u < q := Nat.mod_lt _ (by omega)
  have hbound : u * p + v1 < p * q := by
    have h1 : u * p ≤ (q - 1) * p := Nat.mul_le_mul_right _ (by omega)
    have h2 : (q - 1) * p + p = p * q := by
      have : q - 1 + 1 = q := by omega
      calc (q - 1) * p + p = (q - 1 + 1) * p := by ring
        _ = p * q := by rw [this]; ring
    omega
  rw [wrappingAdd_eq (lt_trans hbound (mul_lt_two_pow hp hq))]
  -- congruences
  have hxp : u * p + v1 ≡ y [MOD p] := by
    unfold Nat.ModEq
    rw [Nat.mul_add_mod_self_right, hv1, Nat.mod_eq_of_lt hv1lt]
  have hxq : u * p + v1 ≡ y [MOD q] := by
    have h1 : u ≡ d * pinv [MOD q] := Nat.mod_modEq _ _
    have h2 : u * p ≡ d * pinv * p [MOD q] := h1.mul_right p
    have h3 : d * pinv * p = d * (p * pinv) := by ring
    have h4 : d * (p * pinv) ≡ d * 1 [MOD q] := hinv.mul_left d
    have h5 : u * p ≡ d [MOD q] := by rw [h3] at h2; simpa using h2.trans h4
    have h6 : u * p + v1 ≡ d + v1 [MOD q] := h5.add_right v1
    refine (h6.trans hdm).trans ?_
    rw [← hv2]; exact Nat.mod_modEq _ _
  have := (Nat.modEq_and_modEq_iff_modEq_mul hcop).mp ⟨hxp, hxq⟩
  unfold Nat.ModEq at this
  rw [← this, Nat.mod_eq_of_lt hbound]

end SlVerif.Paillier
