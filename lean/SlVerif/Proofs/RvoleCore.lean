import Mathlib.Algebra.BigOperators.Group.List.Basic
import Mathlib.Algebra.Ring.Basic
import Mathlib.Tactic.Ring
import Mathlib.Tactic.LinearCombination
/-
  The algebra of the OT-based random vector OLE (eprint 2023/765 §5.2) over an ARBITRARY commutative ring `R`:
  no field, no primality, no size — only the ring laws and the OT correctness relation
      vx j = if β j then α1 j else α0 j.
  `ι` indexes the gadget positions (ξ = 512 in the code), `κ` the batch columns (ℓ = 2 in the code).

  Notation (per batch column):  ã_j = α0_j − α1_j + a'_j   (the honest sender uses the same input a'_j = a in every row)
      sender      c  = −Σ_j g_j·α0_j
      receiver    d̊_j = if β_j then vx_j + ã_j else vx_j,        d = Σ_j g_j·d̊_j
      check       μ_j  = α0c_j + Σ_i θ_i·α0_{j,i}                                   (sender)
                  μ'_j = (d̂_j + Σ_i θ_i·d̊_{j,i}) − (if β_j then η else 0)         (receiver),  η = η0 + Σ_i θ_i·a_i
-/
namespace SlVerif.RvoleCore

variable {R : Type} [CommRing R]

/-- shares, with a possibly row-dependent input `a' j` (adversarial sender):
    `c + d = Σ_j (if β_j then g_j · a'_j else 0)` -/
theorem share_sum_dev {ι : Type} (js : List ι) (g α0 α1 vx a' : ι → R) (β : ι → Bool)
    (hOT : ∀ j ∈ js, vx j = if β j then α1 j else α0 j) :
    -(js.map fun j => g j * α0 j).sum
        + (js.map fun j => g j * (if β j then vx j + (α0 j - α1 j + a' j) else vx j)).sum
      = (js.map fun j => if β j then g j * a' j else 0).sum := by
  induction js with
  | nil => simp
  | cons j js ih =>
    have hj := hOT j List.mem_cons_self
    have ih' := ih (fun k hk => hOT k (List.mem_cons_of_mem _ hk))
    simp only [List.map_cons, List.sum_cons]
    rw [hj]
    cases β j <;> simp only [Bool.false_eq_true, if_false, if_true] <;> linear_combination ih'

theorem sum_ite_mul_const {ι : Type} (js : List ι) (g : ι → R) (β : ι → Bool) (a : R) :
    (js.map fun j => if β j then g j * a else 0).sum = a * (js.map fun j => if β j then g j else 0).sum := by
  induction js with
  | nil => simp
  | cons j js ih =>
    simp only [List.map_cons, List.sum_cons]
    cases β j <;> simp only [Bool.false_eq_true, if_false, if_true] <;> linear_combination ih

/-- **the share relation**: with the same input `a` in every row, `c + d = a · ⟨g, β⟩` -/
theorem share_sum {ι : Type} (js : List ι) (g α0 α1 vx : ι → R) (β : ι → Bool) (a : R)
    (hOT : ∀ j ∈ js, vx j = if β j then α1 j else α0 j) :
    -(js.map fun j => g j * α0 j).sum
        + (js.map fun j => g j * (if β j then vx j + (α0 j - α1 j + a) else vx j)).sum
      = a * (js.map fun j => if β j then g j else 0).sum := by
  rw [share_sum_dev js g α0 α1 vx (fun _ => a) β hOT, sum_ite_mul_const]

/-- a row in which the receiver's bit is 0 contributes `g_j · α0_j` to `d` whatever the sender masked there -/
theorem share_sum_zero_bits {ι : Type} (js : List ι) (g vx ã ã' : ι → R) (β : ι → Bool)
    (h : ∀ j ∈ js, β j = true → ã j = ã' j) :
    (js.map fun j => g j * (if β j then vx j + ã j else vx j)).sum
      = (js.map fun j => g j * (if β j then vx j + ã' j else vx j)).sum := by
  congr 1
  apply List.map_congr_left
  intro j hj
  cases hb : β j
  · simp
  · simp [h j hj hb]

theorem sum_mul_add {κ : Type} (is : List κ) (θ x y : κ → R) :
    (is.map fun i => θ i * (x i + y i)).sum = (is.map fun i => θ i * x i).sum + (is.map fun i => θ i * y i).sum := by
  induction is with
  | nil => simp
  | cons i is ih => simp only [List.map_cons, List.sum_cons, ih]; ring

theorem sum_mul_sub {κ : Type} (is : List κ) (θ x y : κ → R) :
    (is.map fun i => θ i * (x i - y i)).sum = (is.map fun i => θ i * x i).sum - (is.map fun i => θ i * y i).sum := by
  induction is with
  | nil => simp
  | cons i is ih => simp only [List.map_cons, List.sum_cons, ih]; ring

/-- **the check value**, one row, with a possibly deviating input `a'` in that row:
    `μ' = μ + (if β then Σ_i θ_i·(a'_i − a_i) else 0)` -/
theorem mu_dev {κ : Type} (is : List κ) (θ a a' α0 α1 vx : κ → R) (η0 α0c α1c vxc : R) (β : Bool)
    (h : ∀ i ∈ is, vx i = if β then α1 i else α0 i) (hc : vxc = if β then α1c else α0c) :
    (if β then
        ((vxc + (α0c - α1c + η0)) + (is.map fun i => θ i * (vx i + (α0 i - α1 i + a' i))).sum)
          - (η0 + (is.map fun i => θ i * a i).sum)
      else vxc + (is.map fun i => θ i * vx i).sum)
      = α0c + (is.map fun i => θ i * α0 i).sum + (if β then (is.map fun i => θ i * (a' i - a i)).sum else 0) := by
  cases β
  · simp only [Bool.false_eq_true, if_false] at h hc ⊢
    rw [hc, add_zero]
    congr 2
    exact List.map_congr_left fun i hi => by rw [h i hi]
  · simp only [if_true] at h hc ⊢
    have e : (is.map fun i => θ i * (vx i + (α0 i - α1 i + a' i))).sum
        = (is.map fun i => θ i * (α0 i + a' i)).sum := by
      congr 1
      exact List.map_congr_left fun i hi => by rw [h i hi]; ring
    rw [e, hc, sum_mul_add, sum_mul_sub]
    ring

/-- **the check value of an honest row**: `μ' = μ` -/
theorem mu_eq {κ : Type} (is : List κ) (θ a α0 α1 vx : κ → R) (η0 α0c α1c vxc : R) (β : Bool)
    (h : ∀ i ∈ is, vx i = if β then α1 i else α0 i) (hc : vxc = if β then α1c else α0c) :
    (if β then
        ((vxc + (α0c - α1c + η0)) + (is.map fun i => θ i * (vx i + (α0 i - α1 i + a i))).sum)
          - (η0 + (is.map fun i => θ i * a i).sum)
      else vxc + (is.map fun i => θ i * vx i).sum)
      = α0c + (is.map fun i => θ i * α0 i).sum := by
  rw [mu_dev is θ a a α0 α1 vx η0 α0c α1c vxc β h hc]
  have : (is.map fun i => θ i * (a i - a i)).sum = 0 := by
    rw [sum_mul_sub]; ring
  rw [this]; simp

/-! non-vacuity: a concrete instance over `ℤ` (two gadget positions indexed by `Bool`, receiver bits 1 and 0; the
    hypothesis `vx = if β then α1 else α0` holds, and both sides evaluate to 12) -/
example :
    -(([true, false] : List Bool).map fun j => (if j then 3 else 5 : ℤ) * (if j then 7 else 11)).sum
      + (([true, false] : List Bool).map fun j => (if j then 3 else 5 : ℤ) *
          (if j then (if j then 2 else 11) + ((if j then 7 else 11) - (if j then 2 else 13) + 4)
            else (if j then 2 else 11))).sum
      = 4 * (([true, false] : List Bool).map fun j => if j then (if j then 3 else 5 : ℤ) else 0).sum :=
  share_sum [true, false] (fun j => if j then 3 else 5) (fun j => if j then 7 else 11) (fun j => if j then 2 else 13)
    (fun j => if j then 2 else 11) (fun j => j) 4 (by decide)

end SlVerif.RvoleCore
