import SlVerif.Proofs.VerEncGroup
/-
  C09 / C10 helper lemmas: `Model/VerEnc.lean` at `m := Id` with a pure oracle `h`.
  `…P` functions are the model functions with the monad removed (`…_id : Id.run (model …) = …P`), then
  * `verifySlotP_ok_iff`, `verifyFromP_ok_iff`      verification succeeds iff every opened scalar is consistent (`SlotOK`)
  * `verifyFrom_no_panic`, `decryptSlots_no_panic`   no panics on proofs whose lists have `security_param ≤ 256` entries
  * `decryptSlots_sound`, `decryptSlots_good`        soundness of `decrypt`, and one good slot is enough
-/
namespace SlVerif.VerEnc
open SlVerif

/-- the pure oracle `h` as an `Id` oracle -/
abbrev pureO (h : Query → Bytes) : Query → Id Bytes := fun q => pure (h q)

/-- `label_int_from_bytes(label)` -/
def labelIntP (h : Query → Bytes) (label : Bytes) : ℕ := beToNat (h (.sha256 (ascii "SL-label-for-RSA" ++ label)))

/-- `rsa_encrypt_with_label` -/
def encP (h : Query → Bytes) (key : Bytes) (n L : ℕ) (seed msg : Bytes) : Option Bytes :=
  if (h (.rsaEnc key seed (toBytesBE (beToNat msg * L % n)))).isEmpty then none
  else some (h (.rsaEnc key seed (toBytesBE (beToNat msg * L % n))))

def canonP (h : Query → Bytes) (cp : CurveParams) (p : Bytes) : Bytes :=
  match cp.curve with
  | .secp256k1 => p
  | .ed25519 => h (.ecAdd cp.curve p (identityEnc cp))

/-- the challenge of `(q, label, slots)` -/
def chalP (h : Query → Bytes) (q label : Bytes) (slots : List Slot) : Bytes :=
  h (.sha256 (ascii "Verified-RSA-encryption" ++ q ++ slots.flatMap Slot.bytes ++ label))

theorem labelInt_id (h : Query → Bytes) (label : Bytes) : Id.run (labelInt (pureO h) label) = labelIntP h label := rfl
theorem enc_id (h : Query → Bytes) (key : Bytes) (n L : ℕ) (seed msg : Bytes) :
    Id.run (rsaEncryptWithLabel (pureO h) key n L seed msg) = encP h key n L seed msg := rfl
theorem canon_id (h : Query → Bytes) (cp : CurveParams) (p : Bytes) : Id.run (canon (pureO h) cp p) = canonP h cp p := by
  unfold canon canonP; cases cp.curve <;> rfl
theorem challenge_id (h : Query → Bytes) (q label : Bytes) (slots : List Slot) :
    Id.run (challenge (pureO h) q label slots) = chalP h q label slots := rfl

/-! ### verify -/

def verifySlotP (h : Query → Bytes) (cp : CurveParams) (p : Proof) (q key : Bytes) (n L : ℕ) (ch : Bytes) (i : ℕ) : Res Unit :=
  match p.slots[i]? with
  | none => .panic "proofs[i]: index out of bounds"
  | some slot =>
    match p.opens[i]? with
    | none => .panic "open_scalars[i]: index out of bounds"
    | some s =>
      match extractBit ch i with
      | none => .panic "extract_bit: index out of bounds"
      | some bit =>
        match encP h key n L p.seed (cp.repr s) with
        | none => .err .encError
        | some e =>
          if h (.ecValid cp.curve slot.gR) != [1] then .err .verificationFailed else
          if bit then
            if h (.ecAdd cp.curve q slot.gR) == h (.ecMulGen cp.curve s) && slot.encXR == e then .ok () else .err .verificationFailed
          else
            if canonP h cp slot.gR == h (.ecMulGen cp.curve s) && slot.encR == e then .ok () else .err .verificationFailed

set_option linter.unusedSimpArgs false in
theorem verifySlot_id (h : Query → Bytes) (cp : CurveParams) (p : Proof) (q key : Bytes) (n L : ℕ) (ch : Bytes) (i : ℕ) :
    Id.run (verifySlot (pureO h) cp p q key n L ch i) = verifySlotP h cp p q key n L ch i := by
  unfold verifySlot verifySlotP
  cases p.slots[i]? with
  | none => rfl
  | some slot =>
    cases p.opens[i]? with
    | none => rfl
    | some s =>
      cases extractBit ch i with
      | none => rfl
      | some bit =>
        simp only [Id.run_bind, enc_id]
        cases encP h key n L p.seed (cp.repr s) with
        | none => rfl
        | some e =>
          simp only [Id.run_bind, Id.run_pure, pureO, mulGen]
          split
          · rfl
          · cases bit with
            | true =>
              simp only [if_true, Id.run_bind, Id.run_pure]
              split <;> rename_i hc <;> simp [hc]
            | false =>
              simp only [Bool.false_eq_true, if_false, Id.run_bind, canon_id]
              split <;> rename_i hc <;> simp [hc]

/-- slot `i` is consistent: the opened scalar `s` re-encrypts (label, key, seed) to the ciphertext the challenge bit
    selects and `s·G` is the commitment (bit 0) resp. `Q` + the commitment (bit 1) -/
def SlotOK (h : Query → Bytes) (cp : CurveParams) (p : Proof) (q key : Bytes) (n L : ℕ) (ch : Bytes) (i : ℕ) : Prop :=
  ∃ slot s bit e, p.slots[i]? = some slot ∧ p.opens[i]? = some s ∧ extractBit ch i = some bit ∧
    encP h key n L p.seed (cp.repr s) = some e ∧ h (.ecValid cp.curve slot.gR) = [1] ∧
    (bit = true → h (.ecAdd cp.curve q slot.gR) = h (.ecMulGen cp.curve s) ∧ slot.encXR = e) ∧
    (bit = false → canonP h cp slot.gR = h (.ecMulGen cp.curve s) ∧ slot.encR = e)

theorem verifySlotP_ok_iff (h : Query → Bytes) (cp : CurveParams) (p : Proof) (q key : Bytes) (n L : ℕ) (ch : Bytes) (i : ℕ) :
    verifySlotP h cp p q key n L ch i = .ok () ↔ SlotOK h cp p q key n L ch i := by
  unfold SlotOK
  constructor
  · intro hv
    unfold verifySlotP at hv
    split at hv
    · cases hv
    rename_i slot hslot
    split at hv
    · cases hv
    rename_i s hs
    split at hv
    · cases hv
    rename_i bit hbit
    split at hv
    · cases hv
    rename_i e he
    split at hv
    · cases hv
    rename_i hval
    refine ⟨slot, s, bit, e, hslot, hs, hbit, he, by simpa using hval, ?_, ?_⟩
    · intro hb
      rw [if_pos hb] at hv
      split at hv
      · rename_i hc; simpa using hc
      · cases hv
    · intro hb
      rw [if_neg (by simp [hb])] at hv
      split at hv
      · rename_i hc; simpa using hc
      · cases hv
  · rintro ⟨slot, s, bit, e, h1, h2, h3, h4, h5, h6, h7⟩
    unfold verifySlotP
    rw [h1, h2, h3]
    dsimp only
    rw [h4]
    dsimp only
    rw [if_neg (by simp [h5])]
    cases bit with
    | true => obtain ⟨a, b⟩ := h6 rfl; simp [a, b]
    | false => obtain ⟨a, b⟩ := h7 rfl; simp [a, b]

/-- the slot check cannot panic when the index is inside both lists and below 256 -/
theorem verifySlotP_no_panic {h : Query → Bytes} {cp : CurveParams} {p : Proof} {q key : Bytes} {n L : ℕ} {ch : Bytes} {i : ℕ}
    (h1 : i < p.slots.length) (h2 : i < p.opens.length) (h3 : i < 256) (w : String) :
    verifySlotP h cp p q key n L ch i ≠ .panic w := by
  unfold verifySlotP
  rw [List.getElem?_eq_getElem h1, List.getElem?_eq_getElem h2]
  have hb : extractBit ch i = some ((ch.getD (i / 8) 0 / 2 ^ (i % 8)) % 2 == 1) := by
    unfold extractBit; rw [if_pos (by omega)]
  rw [hb]
  simp only
  split
  · simp
  · split_ifs <;> simp

theorem verifyFrom_succ (h : Query → Bytes) (cp : CurveParams) (p : Proof) (q key : Bytes) (n L : ℕ) (ch : Bytes) (k i : ℕ) :
    Id.run (verifyFrom (pureO h) cp p q key n L ch (k+1) i) =
      match verifySlotP h cp p q key n L ch i with
      | .ok () => Id.run (verifyFrom (pureO h) cp p q key n L ch k (i+1))
      | .err e => .err e
      | .panic w => .panic w := by
  rw [verifyFrom]
  simp only [Id.run_bind, verifySlot_id]
  cases verifySlotP h cp p q key n L ch i <;> rfl

theorem verifyFrom_ok_iff (h : Query → Bytes) (cp : CurveParams) (p : Proof) (q key : Bytes) (n L : ℕ) (ch : Bytes) (k i : ℕ) :
    Id.run (verifyFrom (pureO h) cp p q key n L ch k i) = .ok () ↔ ∀ j, i ≤ j → j < i + k → SlotOK h cp p q key n L ch j := by
  induction k generalizing i with
  | zero =>
    constructor
    · intro _ j h1 h2; omega
    · intro _; rfl
  | succ k ih =>
    rw [verifyFrom_succ]
    constructor
    · intro hv j h1 h2
      cases hs : verifySlotP h cp p q key n L ch i with
      | ok u =>
        rw [hs] at hv
        have hrest := (ih (i+1)).1 hv
        by_cases hj : j = i
        · subst hj; exact (verifySlotP_ok_iff ..).1 hs
        · exact hrest j (by omega) (by omega)
      | err e => rw [hs] at hv; cases hv
      | panic w => rw [hs] at hv; cases hv
    · intro hall
      have h0 := (verifySlotP_ok_iff h cp p q key n L ch i).2 (hall i (le_refl _) (by omega))
      rw [h0]
      exact (ih (i+1)).2 (fun j h1 h2 => hall j (by omega) (by omega))

theorem verifyFrom_no_panic (h : Query → Bytes) (cp : CurveParams) (p : Proof) (q key : Bytes) (n L : ℕ) (ch : Bytes) (k i : ℕ)
    (h1 : i + k ≤ p.slots.length) (h2 : i + k ≤ p.opens.length) (h3 : i + k ≤ 256) (w : String) :
    Id.run (verifyFrom (pureO h) cp p q key n L ch k i) ≠ .panic w := by
  induction k generalizing i with
  | zero => intro hp; cases hp
  | succ k ih =>
    rw [verifyFrom_succ]
    cases hs : verifySlotP h cp p q key n L ch i with
    | ok u => exact ih (i+1) (by omega) (by omega) (by omega)
    | err e => simp
    | panic w' => exact absurd hs (verifySlotP_no_panic (by omega) (by omega) (by omega) w')

/-- `verify` at `m := Id` -/
def verifyP (h : Query → Bytes) (cp : CurveParams) (p : Proof) (q key : Bytes) (n : ℕ) (label : Bytes) : Res Unit :=
  Id.run (verify (pureO h) cp p q key n label)

theorem verifyP_eq (h : Query → Bytes) (cp : CurveParams) (p : Proof) (q key : Bytes) (n : ℕ) (label : Bytes) :
    verifyP h cp p q key n label =
      Id.run (verifyFrom (pureO h) cp p q key n (labelIntP h label) (chalP h q label p.slots) p.param 0) := rfl

/-! ### decrypt -/

/-- one ciphertext → the scalar it stands for (RSA decryption, label removal, zero padding, `decode_scalar`) -/
def decryptValueP (h : Query → Bytes) (cp : CurveParams) (key : Bytes) (n L : ℕ) (ct : Bytes) : Option ℕ :=
  match h (.rsaDec key ct) with
  | 1 :: pt =>
      match modInv? L n with
      | none => none
      | some inv => decodeScalar cp (padLeft cp.scalarLen (toBytesBE (beToNat pt * inv % n)))
  | _ => none

theorem decryptValue_id (h : Query → Bytes) (cp : CurveParams) (key : Bytes) (n L : ℕ) (ct : Bytes) :
    Id.run (decryptValue (pureO h) cp key n L ct) = decryptValueP h cp key n L ct := by
  unfold decryptValue rsaDecryptWithLabel decryptValueP
  simp only [Id.run_bind, pureO, Id.run_pure]
  generalize h (.rsaDec key ct) = a
  rcases a with _ | ⟨x, pt⟩
  · rfl
  · rcases x with _ | _ | k
    · rfl
    · show (match (match modInv? L n with
              | none => (pure (Res.err Err.invalidLabel) : Id (Res Bytes))
              | some inv => pure (Res.ok (toBytesBE (beToNat pt * inv % n)))).run with
            | Res.ok b => (pure (decodeScalar cp (padLeft cp.scalarLen b)) : Id (Option ℕ))
            | Res.err _ => pure none
            | Res.panic _ => pure none).run = _
      cases modInv? L n <;> rfl
    · rfl

/-- the candidate secret of a slot whose two ciphertexts decode to `r` and `x + r` -/
def candidate (cp : CurveParams) (r xr : ℕ) : ℕ := (xr + (cp.order - r)) % cp.order

theorem decryptSlots_cons (h : Query → Bytes) (cp : CurveParams) (q key : Bytes) (n L : ℕ) (s : Slot) (rest : List Slot) :
    Id.run (decryptSlots (pureO h) cp q key n L (s :: rest)) =
      match decryptValueP h cp key n L s.encR with
      | none => Id.run (decryptSlots (pureO h) cp q key n L rest)
      | some r =>
        match decryptValueP h cp key n L s.encXR with
        | none => Id.run (decryptSlots (pureO h) cp q key n L rest)
        | some xr =>
          if h (.ecMulGen cp.curve (candidate cp r xr)) == q then .ok (candidate cp r xr)
          else Id.run (decryptSlots (pureO h) cp q key n L rest) := by
  rw [decryptSlots]
  simp only [Id.run_bind, decryptValue_id]
  cases decryptValueP h cp key n L s.encR with
  | none => rfl
  | some r =>
    dsimp only
    simp only [Id.run_bind, decryptValue_id]
    cases decryptValueP h cp key n L s.encXR with
    | none => rfl
    | some xr =>
      dsimp only [mulGen, pureO, candidate]
      simp only [Id.run_bind, Id.run_pure]
      split <;> rename_i hc <;> simp [hc]

theorem decryptSlots_nil (h : Query → Bytes) (cp : CurveParams) (q key : Bytes) (n L : ℕ) :
    Id.run (decryptSlots (pureO h) cp q key n L []) = .err .decError := rfl

/-- `decrypt` never panics -/
theorem decryptSlots_no_panic (h : Query → Bytes) (cp : CurveParams) (q key : Bytes) (n L : ℕ) (slots : List Slot) (w : String) :
    Id.run (decryptSlots (pureO h) cp q key n L slots) ≠ .panic w := by
  induction slots with
  | nil => rw [decryptSlots_nil]; simp
  | cons s rest ih =>
    rw [decryptSlots_cons]
    split
    · exact ih
    · split
      · exact ih
      · split
        · simp
        · exact ih

/-- whatever `decrypt` returns is a discrete logarithm of the claimed point (as encodings) and a reduced scalar -/
theorem decryptSlots_sound (h : Query → Bytes) (cp : CurveParams) (q key : Bytes) (n L : ℕ) (slots : List Slot) (v : ℕ)
    (hv : Id.run (decryptSlots (pureO h) cp q key n L slots) = .ok v) :
    h (.ecMulGen cp.curve v) = q ∧ ∃ s ∈ slots, ∃ r xr, decryptValueP h cp key n L s.encR = some r ∧
      decryptValueP h cp key n L s.encXR = some xr ∧ v = candidate cp r xr := by
  induction slots with
  | nil => rw [decryptSlots_nil] at hv; cases hv
  | cons s rest ih =>
    have lift : (h (.ecMulGen cp.curve v) = q ∧ ∃ s ∈ rest, ∃ r xr, decryptValueP h cp key n L s.encR = some r ∧
        decryptValueP h cp key n L s.encXR = some xr ∧ v = candidate cp r xr) →
        (h (.ecMulGen cp.curve v) = q ∧ ∃ s' ∈ s :: rest, ∃ r xr, decryptValueP h cp key n L s'.encR = some r ∧
        decryptValueP h cp key n L s'.encXR = some xr ∧ v = candidate cp r xr) := by
      rintro ⟨a, s', hs', b⟩; exact ⟨a, s', List.mem_cons_of_mem _ hs', b⟩
    rw [decryptSlots_cons] at hv
    split at hv
    · exact lift (ih hv)
    · rename_i r hr
      split at hv
      · exact lift (ih hv)
      · rename_i xr hxr
        split at hv
        · rename_i hc
          simp only [Res.ok.injEq] at hv
          subst hv
          exact ⟨by simpa using hc, s, by simp, r, xr, hr, hxr, rfl⟩
        · exact lift (ih hv)

/-- a slot is GOOD for `q`: both ciphertexts decrypt and decode, and the difference is a discrete logarithm of `q` -/
def GoodSlot (h : Query → Bytes) (cp : CurveParams) (q key : Bytes) (n L : ℕ) (s : Slot) : Prop :=
  ∃ r xr, decryptValueP h cp key n L s.encR = some r ∧ decryptValueP h cp key n L s.encXR = some xr ∧
    h (.ecMulGen cp.curve (candidate cp r xr)) = q

/-- one good slot is enough: `decrypt` returns `Ok` (and by `decryptSlots_sound` a discrete logarithm of `q`) — garbage in
    the other slots is skipped (repair of D8) -/
theorem decryptSlots_good (h : Query → Bytes) (cp : CurveParams) (q key : Bytes) (n L : ℕ) (slots : List Slot)
    (hg : ∃ s ∈ slots, GoodSlot h cp q key n L s) :
    ∃ v, Id.run (decryptSlots (pureO h) cp q key n L slots) = .ok v := by
  induction slots with
  | nil => obtain ⟨s, hs, _⟩ := hg; simp at hs
  | cons s rest ih =>
    rw [decryptSlots_cons]
    obtain ⟨s', hs', r', xr', g1, g2, g3⟩ := hg
    rcases List.mem_cons.1 hs' with rfl | hmem
    · rw [g1, g2]
      dsimp only
      rw [if_pos (by simp [g3])]
      exact ⟨_, rfl⟩
    · have hrest := ih ⟨s', hmem, r', xr', g1, g2, g3⟩
      split
      · exact hrest
      · split
        · exact hrest
        · split
          · exact ⟨_, rfl⟩
          · exact hrest

/-- `decrypt` at `m := Id` -/
def decryptP (h : Query → Bytes) (cp : CurveParams) (p : Proof) (q key : Bytes) (n : ℕ) (label : Bytes) : Res ℕ :=
  Id.run (decrypt (pureO h) cp p q key n label)

theorem decryptP_eq (h : Query → Bytes) (cp : CurveParams) (p : Proof) (q key : Bytes) (n : ℕ) (label : Bytes) :
    decryptP h cp p q key n label =
      if p.slots.length ≠ p.param then .err .verificationFailed
      else Id.run (decryptSlots (pureO h) cp q key n (labelIntP h label) p.slots) := by
  unfold decryptP decrypt
  split <;> rfl

end SlVerif.VerEnc
