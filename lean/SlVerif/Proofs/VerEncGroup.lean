import SlVerif.Proofs.VerEncWire
import Mathlib.Data.Int.GCD
import Mathlib.Data.Nat.ModEq
import Mathlib.Algebra.Module.Basic
/-
  C09 / C10 helper lemmas: the assumptions on the oracle.
  * `modInv?` (model code) is correct: Bézout via Mathlib's `Nat.xgcdAux`, whose recursion the model restates.
  * `CurveOracle h cp G` — the group part of `h` for the curve `cp.curve` behaves like an additive commutative group `G`
    with generator `gen` killed by `cp.order`; it is the curve-parametric sibling of `GroupOracle` (which is for
    secp256k1 only and identifies "decodable" with "canonical").  Here `Valid` (decodable: what `G::from_bytes` accepts)
    and `Canon` (what `to_bytes` produces) are different predicates, because `EdwardsPoint::from_bytes` accepts
    non-canonical encodings and the Rust compares decoded points.  `GroupOracle.toCurveOracle` converts.
  * `RsaOracle h key B` — PKCS#1 v1.5 with this key encrypts every message below `B` and decryption undoes it.
  * `ShaSized h` — SHA-256 answers are 32 bytes.
-/
namespace SlVerif.VerEnc
open SlVerif

/-! ### the modular inverse -/

theorem xgcdAux_eq (r : ℕ) : ∀ (s t : ℤ) (r' : ℕ) (s' t' : ℤ), xgcdAux r s t r' s' t' = Nat.xgcdAux r s t r' s' t' := by
  induction r using Nat.strong_induction_on with
  | _ r ih =>
    intro s t r' s' t'
    cases r with
    | zero => rw [xgcdAux, Nat.xgcd_zero_left]
    | succ k =>
      rw [xgcdAux, Nat.xgcdAux_rec (Nat.succ_pos k)]
      exact ih _ (Nat.mod_lt _ (Nat.succ_pos k)) _ _ _ _ _

/-- `mod_inverse` finds an inverse exactly when there is one -/
theorem modInv?_eq (a n : ℕ) :
    modInv? a n = if Nat.gcd a n = 1 then some (Int.toNat (Nat.gcdA a n % (n : ℤ))) else none := by
  unfold modInv?
  rw [xgcdAux_eq, Nat.xgcdAux_val, Nat.xgcd_val]

theorem modInv?_none {a n : ℕ} (h : Nat.gcd a n ≠ 1) : modInv? a n = none := by
  rw [modInv?_eq, if_neg h]

theorem modInv?_spec {a n : ℕ} (hn : 0 < n) (hc : Nat.gcd a n = 1) :
    ∃ i, modInv? a n = some i ∧ i < n ∧ a * i % n = 1 % n := by
  refine ⟨Int.toNat (Nat.gcdA a n % (n : ℤ)), by rw [modInv?_eq, if_pos hc], ?_, ?_⟩
  · have h0 : 0 ≤ Nat.gcdA a n % (n : ℤ) := Int.emod_nonneg _ (by exact_mod_cast hn.ne')
    have h1 : Nat.gcdA a n % (n : ℤ) < n := Int.emod_lt_of_pos _ (by exact_mod_cast hn)
    omega
  · have hb := Nat.gcd_eq_gcd_ab a n
    rw [hc] at hb
    have h0 : 0 ≤ Nat.gcdA a n % (n : ℤ) := Int.emod_nonneg _ (by exact_mod_cast hn.ne')
    have key : ((a * Int.toNat (Nat.gcdA a n % (n : ℤ)) : ℕ) : ℤ) % n = (1 : ℤ) % n := by
      rw [Nat.cast_mul, Int.toNat_of_nonneg h0, Int.mul_emod, Int.emod_emod_of_dvd _ (dvd_refl _), ← Int.mul_emod]
      have : (a : ℤ) * Nat.gcdA a n = 1 - n * Nat.gcdB a n := by push_cast at hb; linarith
      rw [this, Int.sub_mul_emod_self_left]
    exact_mod_cast key

theorem modInv?_some {a n i : ℕ} (hn : 0 < n) (h : modInv? a n = some i) : a * i % n = 1 % n := by
  by_cases hc : Nat.gcd a n = 1
  · obtain ⟨j, hj, _, hm⟩ := modInv?_spec hn hc
    rw [hj] at h; cases h; exact hm
  · rw [modInv?_none hc] at h; cases h

/-- removing the label: `((m·L mod n) · L⁻¹) mod n = m` for `m < n` -/
theorem unlabel {m L n i : ℕ} (hm : m < n) (hi : L * i % n = 1 % n) : (m * L % n) * i % n = m := by
  have h1 : (m * L % n) * i ≡ m * L * i [MOD n] := Nat.ModEq.mul_right _ (Nat.mod_modEq _ _)
  have h2 : m * L * i ≡ m * 1 [MOD n] := by
    rw [Nat.mul_assoc]; exact Nat.ModEq.mul_left _ hi
  have h3 := h1.trans h2
  rw [Nat.mul_one] at h3
  rw [h3, Nat.mod_eq_of_lt hm]

/-! ### the group -/

/-- the group part of the oracle for the curve of `cp`: an additive commutative group with a generator of order dividing
    `cp.order`.  `Valid` = decodable encodings, `Canon` = canonical encodings (the ones the library produces). -/
structure CurveOracle (h : Query → Bytes) (cp : CurveParams) (G : Type) [AddCommGroup G] where
  dec : Bytes → G
  gen : G
  Valid : Bytes → Prop
  Canon : Bytes → Prop
  canon_valid : ∀ {p : Bytes}, Canon p → Valid p
  /-- canonical encodings have the size of `G::Repr` -/
  canon_length : ∀ {p : Bytes}, Canon p → p.length = cp.pointLen
  /-- canonical encodings: equal points have equal bytes -/
  dec_inj : ∀ {a b : Bytes}, Canon a → Canon b → dec a = dec b → a = b
  /-- `[1]` exactly on decodable encodings (`GroupEncoding::from_bytes(..).is_some()`) -/
  valid : ∀ p : Bytes, h (.ecValid cp.curve p) = [1] ↔ Valid p
  canon_mulGen : ∀ k : ℕ, Canon (h (.ecMulGen cp.curve k))
  canon_add : ∀ {p q : Bytes}, Valid p → Valid q → Canon (h (.ecAdd cp.curve p q))
  mulGen : ∀ k : ℕ, dec (h (.ecMulGen cp.curve k)) = k • gen
  add : ∀ {p q : Bytes}, Valid p → Valid q → dec (h (.ecAdd cp.curve p q)) = dec p + dec q
  canon_identity : Canon (identityEnc cp)
  dec_identity : dec (identityEnc cp) = 0
  /-- the generator has order (dividing) `cp.order` -/
  order_smul : cp.order • gen = 0
  /-- on secp256k1 every decodable encoding is canonical (the model's `canon` is the identity there) -/
  secp_canon : cp.curve = .secp256k1 → ∀ {p : Bytes}, Valid p → Canon p

namespace CurveOracle
variable {h : Query → Bytes} {cp : CurveParams} {G : Type} [AddCommGroup G] (co : CurveOracle h cp G)

theorem mod_smul (k : ℕ) : (k % cp.order) • co.gen = k • co.gen := by
  conv_rhs => rw [← Nat.div_add_mod k cp.order, Nat.mul_comm]
  rw [add_smul, mul_smul, co.order_smul, smul_zero, zero_add]

/-- equality of canonical encodings is equality of points -/
theorem eq_iff {a b : Bytes} (ha : co.Canon a) (hb : co.Canon b) : a = b ↔ co.dec a = co.dec b :=
  ⟨fun e => e ▸ rfl, co.dec_inj ha hb⟩

include co in
/-- `x·G + r·G = ((x + r) mod order)·G`, as bytes -/
theorem add_mulGen (x r : ℕ) :
    h (.ecAdd cp.curve (h (.ecMulGen cp.curve x)) (h (.ecMulGen cp.curve r))) = h (.ecMulGen cp.curve ((x + r) % cp.order)) := by
  have vx := co.canon_valid (co.canon_mulGen x)
  have vr := co.canon_valid (co.canon_mulGen r)
  apply co.dec_inj (co.canon_add vx vr) (co.canon_mulGen _)
  rw [co.add vx vr, co.mulGen, co.mulGen, co.mulGen, co.mod_smul, add_smul]

/-- the generator has EXACT order `cp.order` on reduced scalars -/
def GenInj : Prop := ∀ a b : ℕ, a < cp.order → b < cp.order → a • co.gen = b • co.gen → a = b

end CurveOracle

/-- a `GroupOracle` (secp256k1, scalars in `ZMod secpQ`) is a `CurveOracle` for `secp` -/
def GroupOracle.toCurveOracle {h : Query → Bytes} {G : Type} [AddCommGroup G] [Module Zq G] (go : GroupOracle h G) :
    CurveOracle h secp G where
  dec := go.dec
  gen := go.gen
  Valid := go.Canon
  Canon := go.Canon
  canon_valid := id
  canon_length := go.canon_length
  dec_inj := go.dec_inj
  valid := go.valid
  canon_mulGen := go.canon_mulGen
  canon_add := go.canon_add
  mulGen := by intro k; rw [show secp.curve = Curve.secp256k1 from rfl, go.mulGen, Nat.cast_smul_eq_nsmul]
  add := go.add
  canon_identity := go.canon_identity
  dec_identity := go.dec_identity
  order_smul := by
    rw [← Nat.cast_smul_eq_nsmul Zq, show secp.order = secpQ from rfl, ZMod.natCast_self, zero_smul]
  secp_canon := fun _ _ hp => hp

/-! ### RSA and SHA-256 -/

/-- PKCS#1 v1.5 under key `key`: every integer below `B` (as its minimal big-endian encoding, which is how the code feeds
    it) is encrypted, and decryption with the matching private key returns the message.  For a real `k`-byte modulus
    this holds with `B = 256^(k-11)`. -/
structure RsaOracle (h : Query → Bytes) (key : Bytes) (B : ℕ) : Prop where
  enc_ne : ∀ (seed : Bytes) (v : ℕ), v < B → h (.rsaEnc key seed (toBytesBE v)) ≠ []
  dec_enc : ∀ (seed : Bytes) (v : ℕ), v < B → h (.rsaDec key (h (.rsaEnc key seed (toBytesBE v)))) = 1 :: toBytesBE v

/-- SHA-256 digests are 32 bytes -/
def ShaSized (h : Query → Bytes) : Prop := ∀ d, (h (.sha256 d)).length = 32 ∧ ∀ b ∈ h (.sha256 d), b < 256

end SlVerif.VerEnc
