import SlVerif.Model.Endemic
import Mathlib.Algebra.Module.Basic
import Mathlib.Algebra.Field.Defs
import Mathlib.Tactic.Abel
/-
  C05 helper lemmas: the Endemic OT model at `m := Id` for a pure oracle `h` whose group queries are interpreted in an
  abstract module `G` over a field `F` (secp256k1: F = Z_q, G = the curve group, which is a 1-dimensional F-vector
  space because q is prime).  Nothing is assumed about merlin: `h_function` / `h_function_2` are arbitrary functions
  of their transcripts.
-/
namespace SlVerif.Endemic
open SlVerif

theorem mapSeq_id {α β : Type} (f : α → Id β) (l : List α) :
    mapSeq (m := Id) f l = @List.map α β (fun a => f a) l := by
  induction l with
  | nil => rfl
  | cons a as ih =>
    show (f a :: mapSeq (m := Id) f as) = _
    rw [ih]; rfl

/-- the queries whose answer is a point computed by the group law -/
def IsGroupOp : Query → Prop
  | .ecMulGen .secp256k1 _ => True
  | .ecMul .secp256k1 _ _ => True
  | .ecAdd .secp256k1 _ _ => True
  | .ecNeg .secp256k1 _ => True
  | _ => False

/-- `h` answers the secp256k1 queries like a group: `dec` reads an encoding as a group element, scalars act through
    `Nat → F`, computed points are valid, and computed points are encoded canonically. -/
structure GroupOracle (h : Query → Bytes) (F G : Type) [Field F] [AddCommGroup G] [Module F G] where
  dec : Bytes → G
  gen : G
  mulGen : ∀ k, dec (h (.ecMulGen K1 k)) = (k : F) • gen
  mul : ∀ p k, dec (h (.ecMul K1 p k)) = (k : F) • dec p
  add : ∀ p q, dec (h (.ecAdd K1 p q)) = dec p + dec q
  neg : ∀ p, dec (h (.ecNeg K1 p)) = - dec p
  /-- the encoding of a computed point decodes (`GroupEncoding::from_bytes` of `to_bytes`) -/
  valid : ∀ q, IsGroupOp q → h (.ecValid K1 (h q)) = [1]
  /-- computed points have ONE encoding -/
  canon : ∀ q q', IsGroupOp q → IsGroupOp q' → dec (h q) = dec (h q') → h q = h q'

variable (h : Query → Bytes)

/-- the two hashes as pure functions of the oracle -/
def Hf (ro idx : Nat) (sid pk : Bytes) : Bytes := hFunction (m := Id) h ro idx sid pk
def H2 (idx : Nat) (pk : Bytes) : Bytes := hFunction2 (m := Id) h idx pk

theorem decodePoint_id (p : Bytes) :
    decodePoint (m := Id) h p = if h (.ecValid K1 p) = [1] then (true, h (.ecMul K1 p 1)) else (false, identity33) := by
  unfold decodePoint
  show (if h (.ecValid K1 p) = [1] then _ else _) = _
  split <;> rfl

/-- the receiver's pair of points -/
def rOtherOf (rO : Nat) : Bytes := h (.ecMulGen K1 rO)
def rChoiceOf (sid : Bytes) (idx bit tA rO : Nat) : Bytes :=
  h (.ecAdd K1 (h (.ecMulGen K1 tA)) (h (.ecNeg K1 (Hf h bit idx sid (rOtherOf h rO)))))

theorem recvInst_id (sid : Bytes) (idx bit tA rO : Nat) :
    recvInst (m := Id) h sid idx bit tA rO =
      if bit = 0 then (rChoiceOf h sid idx bit tA rO, rOtherOf h rO) else (rOtherOf h rO, rChoiceOf h sid idx bit tA rO) := rfl

theorem sendInst_id (sid : Bytes) (idx : Nat) (r : Bytes × Bytes) (tb0 tb1 : Nat) :
    sendInst (m := Id) h sid idx r tb0 tb1 =
      { err := !((decodePoint (m := Id) h r.1).1 && (decodePoint (m := Id) h r.2).1)
        mb := (h (.ecMulGen K1 tb0), h (.ecMulGen K1 tb1))
        rho := (H2 h idx (h (.ecMul K1 (h (.ecAdd K1 (decodePoint (m := Id) h r.1).2 (Hf h 0 idx sid (decodePoint (m := Id) h r.2).2))) tb0)),
                H2 h idx (h (.ecMul K1 (h (.ecAdd K1 (decodePoint (m := Id) h r.2).2 (Hf h 1 idx sid (decodePoint (m := Id) h r.1).2))) tb1))) } := rfl

theorem recvProcInst_id (idx bit tA : Nat) (mb : Bytes × Bytes) :
    recvProcInst (m := Id) h idx bit tA mb =
      (!(decodePoint (m := Id) h (if bit = 0 then mb.1 else mb.2)).1,
        H2 h idx (h (.ecMul K1 (decodePoint (m := Id) h (if bit = 0 then mb.1 else mb.2)).2 tA))) := rfl

variable {F G : Type} [Field F] [AddCommGroup G] [Module F G]

/-- decoding a computed point succeeds and returns the very same bytes -/
theorem decode_computed (go : GroupOracle h F G) (q : Query) (hq : IsGroupOp q) :
    decodePoint (m := Id) h (h q) = (true, h q) := by
  rw [decodePoint_id, if_pos (go.valid q hq)]
  congr 1
  apply go.canon _ _ (by trivial) hq
  rw [go.mul]; simp

theorem dec_rChoice (go : GroupOracle h F G) (sid : Bytes) (idx bit tA rO : Nat) :
    go.dec (rChoiceOf h sid idx bit tA rO) = (tA : F) • go.gen - go.dec (Hf h bit idx sid (rOtherOf h rO)) := by
  unfold rChoiceOf
  rw [go.add, go.mulGen, go.neg, sub_eq_add_neg]

/-- ONE INSTANCE of an honest exchange: no error on either side and the receiver's key is the sender's key for the
    choice bit -/
theorem inst_correct (go : GroupOracle h F G) (sid : Bytes) (idx bit tA rO tb0 tb1 : Nat) (hb : bit ≤ 1) :
    (sendInst (m := Id) h sid idx (recvInst (m := Id) h sid idx bit tA rO) tb0 tb1).err = false ∧
    recvProcInst (m := Id) h idx bit tA (sendInst (m := Id) h sid idx (recvInst (m := Id) h sid idx bit tA rO) tb0 tb1).mb
      = (false, if bit = 0 then (sendInst (m := Id) h sid idx (recvInst (m := Id) h sid idx bit tA rO) tb0 tb1).rho.1
                else (sendInst (m := Id) h sid idx (recvInst (m := Id) h sid idx bit tA rO) tb0 tb1).rho.2) := by
  have hro : decodePoint (m := Id) h (rOtherOf h rO) = (true, rOtherOf h rO) := decode_computed h go _ (by trivial)
  have hrc : decodePoint (m := Id) h (rChoiceOf h sid idx bit tA rO) = (true, rChoiceOf h sid idx bit tA rO) :=
    decode_computed h go _ (by trivial)
  -- the Diffie–Hellman point computed by both sides
  have hkey : ∀ tb : Nat, h (.ecMul K1 (h (.ecMulGen K1 tb)) tA)
      = h (.ecMul K1 (h (.ecAdd K1 (rChoiceOf h sid idx bit tA rO) (Hf h bit idx sid (rOtherOf h rO)))) tb) := by
    intro tb
    apply go.canon _ _ (by trivial) (by trivial)
    rw [go.mul, go.mul, go.add, go.mulGen, dec_rChoice h go]
    rw [sub_add_cancel, smul_smul, smul_smul, mul_comm]
  have hb' : bit = 0 ∨ bit = 1 := by omega
  rcases hb' with rfl | rfl
  · rw [recvInst_id, if_pos rfl, sendInst_id, recvProcInst_id]
    simp only [hro, hrc, if_true, Bool.and_self, Bool.not_true, true_and]
    rw [decode_computed h go _ (by trivial), hkey tb0]
    rfl
  · rw [recvInst_id, if_neg (by decide), sendInst_id, recvProcInst_id]
    simp only [hro, hrc, Bool.and_self, Bool.not_true, true_and, if_neg (show ¬ (1 = 0) by decide)]
    rw [decode_computed h go _ (by trivial), hkey tb1]
    rfl

end SlVerif.Endemic

namespace SlVerif.Endemic
open SlVerif

variable (h : Query → Bytes)

/-! ### the whole exchange -/

abbrev NI : Nat := Generated.LAMBDA_C

theorem recvMsg1_id (sid bits : Bytes) (tA rO : List Nat) :
    recvMsg1 (m := Id) h sid bits tA rO =
      @List.map Nat (Bytes × Bytes) (fun idx => recvInst (m := Id) h sid idx (extractBit bits idx) (tA.getD idx 0) (rO.getD idx 0)) (List.range Generated.LAMBDA_C) := by
  unfold recvMsg1
  generalize List.range Generated.LAMBDA_C = l
  simp only [mapSeq_id]

theorem sendWith_id (sid : Bytes) (msg1 : List (Bytes × Bytes)) (tb : List Nat) :
    sendWith (m := Id) h sid msg1 tb =
      { err := (@List.map Nat SendInst (fun idx => sendInst (m := Id) h sid idx (msg1.getD idx (identity33, identity33)) (tb.getD (2*idx) 0) (tb.getD (2*idx+1) 0)) (List.range Generated.LAMBDA_C)).any (·.err)
        msg2 := (@List.map Nat SendInst (fun idx => sendInst (m := Id) h sid idx (msg1.getD idx (identity33, identity33)) (tb.getD (2*idx) 0) (tb.getD (2*idx+1) 0)) (List.range Generated.LAMBDA_C)).map (·.mb)
        keys := (@List.map Nat SendInst (fun idx => sendInst (m := Id) h sid idx (msg1.getD idx (identity33, identity33)) (tb.getD (2*idx) 0) (tb.getD (2*idx+1) 0)) (List.range Generated.LAMBDA_C)).map (·.rho) } := by
  unfold sendWith
  generalize List.range Generated.LAMBDA_C = l
  simp only [mapSeq_id]
  rfl

theorem recvProcess_id (st : RecvState) (msg2 : List (Bytes × Bytes)) :
    recvProcess (m := Id) h st msg2 =
      if (@List.map Nat (Bool × Bytes) (fun idx => recvProcInst (m := Id) h idx (extractBit st.choiceBits idx) (st.tA.getD idx 0) (msg2.getD idx (identity33, identity33))) (List.range Generated.LAMBDA_C)).any (·.1)
      then none
      else some ((@List.map Nat (Bool × Bytes) (fun idx => recvProcInst (m := Id) h idx (extractBit st.choiceBits idx) (st.tA.getD idx 0) (msg2.getD idx (identity33, identity33))) (List.range Generated.LAMBDA_C)).map (·.2)) := by
  unfold recvProcess
  generalize List.range Generated.LAMBDA_C = l
  simp only [mapSeq_id]
  rfl

theorem recvNew_id (sid : Bytes) (tape : Tape) :
    recvNew (m := Id) h sid tape =
      ({ choiceBits := (Tape.genArray tape Generated.LAMBDA_C_BYTES).1
         tA := (drawScalars Generated.LAMBDA_C (Tape.genArray tape Generated.LAMBDA_C_BYTES).2).1 },
       recvMsg1 (m := Id) h sid (Tape.genArray tape Generated.LAMBDA_C_BYTES).1
         (drawScalars Generated.LAMBDA_C (Tape.genArray tape Generated.LAMBDA_C_BYTES).2).1
         (drawScalars Generated.LAMBDA_C (drawScalars Generated.LAMBDA_C (Tape.genArray tape Generated.LAMBDA_C_BYTES).2).2).1,
       (drawScalars Generated.LAMBDA_C (drawScalars Generated.LAMBDA_C (Tape.genArray tape Generated.LAMBDA_C_BYTES).2).2).2) := by
  unfold recvNew
  generalize Generated.LAMBDA_C = n
  generalize Generated.LAMBDA_C_BYTES = nb
  rfl

theorem sendProcess_id (sid : Bytes) (msg1 : List (Bytes × Bytes)) (tape : Tape) :
    sendProcess (m := Id) h sid msg1 tape =
      (sendWith (m := Id) h sid msg1 (drawScalars (2 * Generated.LAMBDA_C) tape).1, (drawScalars (2 * Generated.LAMBDA_C) tape).2) := by
  unfold sendProcess
  generalize 2 * Generated.LAMBDA_C = n
  rfl

theorem extractBit_le (bits : Bytes) (i : Nat) : extractBit bits i ≤ 1 := by
  unfold extractBit; omega

variable {F G : Type} [Field F] [AddCommGroup G] [Module F G]

/-- honest exchange from explicit randomness: the sender reports no error, the receiver reports no error, and for
    every instance the receiver's key is the sender's key selected by the choice bit -/
theorem exchange_correct (go : GroupOracle h F G) (sid bits : Bytes) (tA rO tb : List Nat) :
    (sendWith (m := Id) h sid (recvMsg1 (m := Id) h sid bits tA rO) tb).err = false ∧
    ∃ rk, recvProcess (m := Id) h { choiceBits := bits, tA := tA }
            (sendWith (m := Id) h sid (recvMsg1 (m := Id) h sid bits tA rO) tb).msg2 = some rk ∧
      rk.length = NI ∧ (sendWith (m := Id) h sid (recvMsg1 (m := Id) h sid bits tA rO) tb).keys.length = NI ∧
      ∀ idx < NI, ∃ k kp, rk[idx]? = some k ∧
        (sendWith (m := Id) h sid (recvMsg1 (m := Id) h sid bits tA rO) tb).keys[idx]? = some kp ∧
        k = if extractBit bits idx = 0 then kp.1 else kp.2 := by
  -- per-instance objects
  let r : Nat → Bytes × Bytes := fun idx => recvInst (m := Id) h sid idx (extractBit bits idx) (tA.getD idx 0) (rO.getD idx 0)
  let si : Nat → SendInst := fun idx => sendInst (m := Id) h sid idx (r idx) (tb.getD (2*idx) 0) (tb.getD (2*idx+1) 0)
  have hinst : ∀ idx, (si idx).err = false ∧
      recvProcInst (m := Id) h idx (extractBit bits idx) (tA.getD idx 0) (si idx).mb
        = (false, if extractBit bits idx = 0 then (si idx).rho.1 else (si idx).rho.2) :=
    fun idx => inst_correct h go sid idx _ _ _ _ _ (extractBit_le bits idx)
  have hsend : @List.map Nat SendInst (fun idx => sendInst (m := Id) h sid idx
        ((recvMsg1 (m := Id) h sid bits tA rO).getD idx (identity33, identity33)) (tb.getD (2*idx) 0) (tb.getD (2*idx+1) 0)) (List.range Generated.LAMBDA_C)
      = (List.range Generated.LAMBDA_C).map si := by
    apply List.map_congr_left
    intro idx hidx
    have hlt := List.mem_range.mp hidx
    rw [recvMsg1_id]
    simp [List.getD_eq_getElem?_getD, hlt, si, r]
  rw [sendWith_id, hsend]
  simp only
  have hrecv : @List.map Nat (Bool × Bytes) (fun idx => recvProcInst (m := Id) h idx (extractBit bits idx) (tA.getD idx 0)
        ((((List.range Generated.LAMBDA_C).map si).map (·.mb)).getD idx (identity33, identity33))) (List.range Generated.LAMBDA_C)
      = (List.range Generated.LAMBDA_C).map (fun idx => (false, if extractBit bits idx = 0 then (si idx).rho.1 else (si idx).rho.2)) := by
    apply List.map_congr_left
    intro idx hidx
    have hlt := List.mem_range.mp hidx
    rw [← (hinst idx).2]
    simp [List.getD_eq_getElem?_getD, hlt]
  refine ⟨?_, ?_⟩
  · rw [List.any_eq_false]
    intro x hx
    obtain ⟨idx, _, rfl⟩ := List.mem_map.mp hx
    simp [(hinst idx).1]
  · rw [recvProcess_id]
    simp only
    rw [hrecv]
    refine ⟨(List.range Generated.LAMBDA_C).map (fun idx => if extractBit bits idx = 0 then (si idx).rho.1 else (si idx).rho.2), ?_, ?_, ?_, ?_⟩
    · rw [if_neg (by simp)]
      simp only [List.map_map]
      rfl
    · simp
    · simp
    · intro idx hidx
      refine ⟨_, (si idx).rho, ?_, ?_, rfl⟩
      · simp [hidx]
      · simp [hidx]

end SlVerif.Endemic

namespace SlVerif.Endemic
open SlVerif

variable (h : Query → Bytes)
variable {F G : Type} [Field F] [AddCommGroup G] [Module F G]

/-! ### what both sides compute in one instance when the receiver ran under `sidR` and the sender under `sidS` -/

/-- the receiver's Diffie–Hellman point -/
def ptRecv (tA tbc : Nat) : Bytes := h (.ecMul K1 (h (.ecMulGen K1 tbc)) tA)
/-- the sender's point behind the key for the receiver's choice bit -/
def ptChosen (sidR sidS : Bytes) (idx bit tA rO tbc : Nat) : Bytes :=
  h (.ecMul K1 (h (.ecAdd K1 (rChoiceOf h sidR idx bit tA rO) (Hf h bit idx sidS (rOtherOf h rO)))) tbc)
/-- the sender's point behind the other key -/
def ptOther (sidR sidS : Bytes) (idx bit tA rO tbo : Nat) : Bytes :=
  h (.ecMul K1 (h (.ecAdd K1 (rOtherOf h rO) (Hf h (1 - bit) idx sidS (rChoiceOf h sidR idx bit tA rO)))) tbo)

theorem inst_shape (go : GroupOracle h F G) (sidR sidS : Bytes) (idx bit tA rO tb0 tb1 : Nat) (hb : bit ≤ 1) :
    (sendInst (m := Id) h sidS idx (recvInst (m := Id) h sidR idx bit tA rO) tb0 tb1).err = false ∧
    recvProcInst (m := Id) h idx bit tA (sendInst (m := Id) h sidS idx (recvInst (m := Id) h sidR idx bit tA rO) tb0 tb1).mb
      = (false, H2 h idx (ptRecv h tA (if bit = 0 then tb0 else tb1))) ∧
    (if bit = 0 then (sendInst (m := Id) h sidS idx (recvInst (m := Id) h sidR idx bit tA rO) tb0 tb1).rho.1
      else (sendInst (m := Id) h sidS idx (recvInst (m := Id) h sidR idx bit tA rO) tb0 tb1).rho.2)
      = H2 h idx (ptChosen h sidR sidS idx bit tA rO (if bit = 0 then tb0 else tb1)) ∧
    (if bit = 0 then (sendInst (m := Id) h sidS idx (recvInst (m := Id) h sidR idx bit tA rO) tb0 tb1).rho.2
      else (sendInst (m := Id) h sidS idx (recvInst (m := Id) h sidR idx bit tA rO) tb0 tb1).rho.1)
      = H2 h idx (ptOther h sidR sidS idx bit tA rO (if bit = 0 then tb1 else tb0)) := by
  have hro : decodePoint (m := Id) h (rOtherOf h rO) = (true, rOtherOf h rO) := decode_computed h go _ (by trivial)
  have hrc : decodePoint (m := Id) h (rChoiceOf h sidR idx bit tA rO) = (true, rChoiceOf h sidR idx bit tA rO) :=
    decode_computed h go _ (by trivial)
  have hb' : bit = 0 ∨ bit = 1 := by omega
  rcases hb' with rfl | rfl
  · rw [recvInst_id, if_pos rfl, sendInst_id, recvProcInst_id]
    simp only [hro, hrc, if_true, Bool.and_self, Bool.not_true, true_and]
    rw [decode_computed h go _ (by trivial)]
    exact ⟨rfl, rfl, rfl⟩
  · rw [recvInst_id, if_neg (by decide), sendInst_id, recvProcInst_id]
    simp only [hro, hrc, Bool.and_self, Bool.not_true, true_and, if_neg (show ¬ (1 = 0) by decide)]
    rw [decode_computed h go _ (by trivial)]
    exact ⟨rfl, rfl, rfl⟩

theorem dec_ptRecv (go : GroupOracle h F G) (tA tbc : Nat) :
    go.dec (ptRecv h tA tbc) = ((tA : F) * (tbc : F)) • go.gen := by
  unfold ptRecv; rw [go.mul, go.mulGen, smul_smul]

theorem dec_ptChosen (go : GroupOracle h F G) (sidR sidS : Bytes) (idx bit tA rO tbc : Nat) :
    go.dec (ptChosen h sidR sidS idx bit tA rO tbc) =
      ((tA : F) * (tbc : F)) • go.gen +
        (tbc : F) • (go.dec (Hf h bit idx sidS (rOtherOf h rO)) - go.dec (Hf h bit idx sidR (rOtherOf h rO))) := by
  unfold ptChosen
  rw [go.mul, go.add, dec_rChoice h go, mul_comm, ← smul_smul, ← smul_add]
  congr 1
  abel

theorem dec_ptOther (go : GroupOracle h F G) (sidR sidS : Bytes) (idx bit tA rO tbo : Nat) :
    go.dec (ptOther h sidR sidS idx bit tA rO tbo) =
      (tbo : F) • ((rO : F) • go.gen + go.dec (Hf h (1 - bit) idx sidS (rChoiceOf h sidR idx bit tA rO))) := by
  unfold ptOther rOtherOf
  rw [go.mul, go.add, go.mulGen]

/-- a non-zero scalar does not kill a non-zero element (vector spaces are torsion free) -/
theorem smul_ne_zero_of {t : F} {x : G} (ht : t ≠ 0) (hx : x ≠ 0) : t • x ≠ 0 := by
  intro e
  apply hx
  have := congrArg (fun y => t⁻¹ • y) e
  simpa [smul_smul, inv_mul_cancel₀ ht] using this

/-- **chosen key, different hash values**: when the two `h_function` values (receiver's and sender's) are different
    points and the sender's scalar is non-zero, the sender's "chosen" point is not the receiver's point -/
theorem ptChosen_ne (go : GroupOracle h F G) (sidR sidS : Bytes) (idx bit tA rO tbc : Nat)
    (ht : (tbc : F) ≠ 0)
    (hH : go.dec (Hf h bit idx sidS (rOtherOf h rO)) ≠ go.dec (Hf h bit idx sidR (rOtherOf h rO))) :
    ptChosen h sidR sidS idx bit tA rO tbc ≠ ptRecv h tA tbc := by
  intro e
  have := congrArg go.dec e
  rw [dec_ptChosen h go, dec_ptRecv h go] at this
  have hz : (tbc : F) • (go.dec (Hf h bit idx sidS (rOtherOf h rO)) - go.dec (Hf h bit idx sidR (rOtherOf h rO))) = 0 := by
    simpa using this
  exact smul_ne_zero_of ht (sub_ne_zero.mpr hH) hz

/-- **other key**: the sender's other point is the receiver's point only if the hash-to-curve value
    `h_function(1-bit, idx, sid, r_choice)` happens to be the ONE point `(t_b'⁻¹ t_a t_b − r_o)·G` -/
theorem ptOther_ne (go : GroupOracle h F G) (sidR sidS : Bytes) (idx bit tA rO tbc tbo : Nat)
    (ht : (tbo : F) ≠ 0)
    (hgap : go.dec (Hf h (1 - bit) idx sidS (rChoiceOf h sidR idx bit tA rO))
      ≠ ((tbo : F)⁻¹ * ((tA : F) * (tbc : F)) - (rO : F)) • go.gen) :
    ptOther h sidR sidS idx bit tA rO tbo ≠ ptRecv h tA tbc := by
  intro e
  have := congrArg go.dec e
  rw [dec_ptOther h go, dec_ptRecv h go] at this
  apply hgap
  have h2 := congrArg (fun y => (tbo : F)⁻¹ • y) this
  simp only [smul_smul, inv_mul_cancel₀ ht, one_smul] at h2
  rw [sub_smul, ← h2]
  abel

end SlVerif.Endemic

namespace SlVerif.Endemic
open SlVerif

variable (h : Query → Bytes)
variable {F G : Type} [Field F] [AddCommGroup G] [Module F G]

/-! ### the sender on arbitrary computed points (substituted message-1 entries) -/

/-- the sender's point behind `rho_ro` when slot `ro` holds `p` and the other slot holds `po` -/
def ptSend (sid : Bytes) (idx ro : Nat) (p po : Bytes) (tb : Nat) : Bytes :=
  h (.ecMul K1 (h (.ecAdd K1 p (Hf h ro idx sid po))) tb)

theorem sendInst_computed (go : GroupOracle h F G) (sid : Bytes) (idx : Nat) (q0 q1 : Query) (hq0 : IsGroupOp q0)
    (hq1 : IsGroupOp q1) (tb0 tb1 : Nat) :
    sendInst (m := Id) h sid idx (h q0, h q1) tb0 tb1 =
      { err := false
        mb := (h (.ecMulGen K1 tb0), h (.ecMulGen K1 tb1))
        rho := (H2 h idx (ptSend h sid idx 0 (h q0) (h q1) tb0), H2 h idx (ptSend h sid idx 1 (h q1) (h q0) tb1)) } := by
  rw [sendInst_id]
  simp only [decode_computed h go q0 hq0, decode_computed h go q1 hq1]
  rfl

theorem recvProcInst_computed (go : GroupOracle h F G) (idx bit tA tb0 tb1 : Nat) :
    recvProcInst (m := Id) h idx bit tA (h (.ecMulGen K1 tb0), h (.ecMulGen K1 tb1))
      = (false, H2 h idx (ptRecv h tA (if bit = 0 then tb0 else tb1))) := by
  rw [recvProcInst_id]
  by_cases hb : bit = 0
  · simp only [hb, if_true]
    rw [decode_computed h go _ (by trivial)]; rfl
  · simp only [hb, if_false]
    rw [decode_computed h go _ (by trivial)]; rfl

theorem dec_ptSend (go : GroupOracle h F G) (sid : Bytes) (idx ro : Nat) (p po : Bytes) (tb : Nat) :
    go.dec (ptSend h sid idx ro p po tb) = (tb : F) • (go.dec p + go.dec (Hf h ro idx sid po)) := by
  unfold ptSend; rw [go.mul, go.add]

/-- the sender's point is the receiver's point only if the hash-to-curve value is ONE particular point -/
theorem ptSend_ne (go : GroupOracle h F G) (sid : Bytes) (idx ro : Nat) (p po : Bytes) (tb tA tbc : Nat)
    (ht : (tb : F) ≠ 0)
    (hgap : go.dec (Hf h ro idx sid po) ≠ ((tb : F)⁻¹ * ((tA : F) * (tbc : F))) • go.gen - go.dec p) :
    ptSend h sid idx ro p po tb ≠ ptRecv h tA tbc := by
  intro e
  have := congrArg go.dec e
  rw [dec_ptSend h go, dec_ptRecv h go] at this
  apply hgap
  have h2 := congrArg (fun y => (tb : F)⁻¹ • y) this
  simp only [smul_smul, inv_mul_cancel₀ ht, one_smul] at h2
  rw [← h2]
  abel

end SlVerif.Endemic
