import SlVerif.Model.Dlog
import SlVerif.Proofs.GroupOracle
import Mathlib.Tactic.Abel
/-
  Helper lemmas for C14 (`Model/Dlog.lean` at `m := Id` with a pure oracle `h`).
  * `pureO h`            the oracle `fun q => pure (h q)` in `Id`
  * `verifyP`, `proveP`  `Id.run` of the model's `verify` / `prove` (reducible: they ARE the model functions)
  * `fsTranscript`, `challengeOf`, `fiatShamir_pure`   what `fiatShamir` asks the oracle and what it returns
  * `verifyP_eq`, `proveP_eq`   the model functions unfolded (all by `rfl`)
  * `fsTranscript_inj`, `sec1_inj`, `newDlogProof_inj`   the queried transcript determines (y, t, B, context)
  * `verifyP_iff`        the verification equation in the module `G` of a `GroupOracle`
-/
namespace SlVerif.Dlog
open SlVerif

/-- the pure oracle `h` as an `Id` oracle -/
abbrev pureO (h : Query → Bytes) : Query → Id Bytes := fun q => pure (h q)

/-- the model's `verify` at `m := Id` -/
abbrev verifyP (h : Query → Bytes) (p : Proof) (y base : Bytes) (tr : Transcript) : Bool :=
  Id.run (verify (pureO h) p y base tr)

/-- the model's `prove` at `m := Id` -/
abbrev proveP (h : Query → Bytes) (x : Nat) (base : Bytes) (tr : Transcript) (tape : Tape) : Proof × Bytes × Tape :=
  Id.run (prove (pureO h) x base tr tape)

/-- the transcript on which `fiatShamir` asks for challenge bytes: `tr` extended by the three point messages and the
    challenge operation -/
def fsTranscript (y t base : Bytes) (tr : Transcript) : Transcript :=
  { init := tr.init
    ops := tr.ops ++ [TOp.msg (ascii "y") (sec1 y), TOp.msg (ascii "t") (sec1 t),
                      TOp.msg (ascii "base-point") (sec1 base),
                      TOp.chal (labelBytes Generated.DLOG_CHALLENGE_LABEL) 32] }

/-- the model's challenge scalar for `(y, t, base)` in context `tr` -/
def challengeOf (h : Query → Bytes) (y t base : Bytes) (tr : Transcript) : Nat :=
  beToNat (h (.merlin (fsTranscript y t base tr))) % secpQ

theorem fsTranscript_eq (y t base : Bytes) (tr : Transcript) :
    fsTranscript y t base tr =
      { ((tr.appendMessage (ascii "y") (sec1 y)).appendMessage (ascii "t") (sec1 t)).appendMessage
            (ascii "base-point") (sec1 base) with
        ops := (((tr.appendMessage (ascii "y") (sec1 y)).appendMessage (ascii "t") (sec1 t)).appendMessage
            (ascii "base-point") (sec1 base)).ops ++ [TOp.chal (labelBytes Generated.DLOG_CHALLENGE_LABEL) 32] } := by
  simp [fsTranscript, Transcript.appendMessage]

/-- `fiatShamir` makes exactly one oracle query, `.merlin (fsTranscript y t base tr)`, reduces the answer modulo `q`
    and returns the advanced transcript -/
theorem fiatShamir_pure (h : Query → Bytes) (y t base : Bytes) (tr : Transcript) :
    Id.run (fiatShamir (pureO h) y t base tr) = (challengeOf h y t base tr, fsTranscript y t base tr) := by
  rw [challengeOf, fsTranscript_eq]; rfl

theorem verifyP_eq (h : Query → Bytes) (p : Proof) (y base : Bytes) (tr : Transcript) :
    verifyP h p y base tr =
      (h (.ecMul .secp256k1 base p.s) ==
        h (.ecAdd .secp256k1 p.t (h (.ecMul .secp256k1 y (challengeOf h y p.t base tr))))) := by
  rw [challengeOf, fsTranscript_eq]; rfl

theorem proveP_eq (h : Query → Bytes) (x : Nat) (base : Bytes) (tr : Transcript) (tape : Tape) :
    proveP h x base tr tape =
      ({ t := h (.ecMul .secp256k1 base (Tape.scalarRandom 64 tape).1)
         s := ((Tape.scalarRandom 64 tape).1 +
                challengeOf h (h (.ecMul .secp256k1 base x)) (h (.ecMul .secp256k1 base (Tape.scalarRandom 64 tape).1))
                  base tr * x) % secpQ },
       h (.ecMul .secp256k1 base x), (Tape.scalarRandom 64 tape).2) := by
  rw [challengeOf, fsTranscript_eq]; rfl

/-- the nonce of `prove` is a reduced scalar -/
theorem scalarRandom_lt (fuel : Nat) (t : Tape) : (Tape.scalarRandom fuel t).1 < secpQ := by
  induction fuel generalizing t with
  | zero => simp only [Tape.scalarRandom]; decide
  | succ k ih =>
    simp only [Tape.scalarRandom]
    split
    · assumption
    · exact ih _

theorem challengeOf_lt (h : Query → Bytes) (y t base : Bytes) (tr : Transcript) :
    challengeOf h y t base tr < secpQ := Nat.mod_lt _ (by decide)

/-! ### the queried transcript determines all of its inputs -/

theorem fsTranscript_inj {y t b y' t' b' : Bytes} {tr tr' : Transcript} :
    fsTranscript y t b tr = fsTranscript y' t' b' tr' ↔
      tr = tr' ∧ sec1 y = sec1 y' ∧ sec1 t = sec1 t' ∧ sec1 b = sec1 b' := by
  constructor
  · intro e
    have hi : (fsTranscript y t b tr).init = (fsTranscript y' t' b' tr').init := congrArg Transcript.init e
    simp only [fsTranscript] at hi
    have ho := congrArg Transcript.ops e
    simp only [fsTranscript] at ho
    obtain ⟨h1, h2⟩ := List.append_inj' ho rfl
    simp only [List.cons.injEq, TOp.msg.injEq, true_and, and_true] at h2
    refine ⟨?_, h2.1, h2.2.1, h2.2.2⟩
    cases tr; cases tr'; simp_all
  · rintro ⟨rfl, e1, e2, e3⟩
    simp only [fsTranscript, e1, e2, e3]

/-- SEC1 compression (identity ↦ `[0]`) is injective away from the string `[0]`, in particular on 33-byte encodings -/
theorem sec1_inj {p p' : Bytes} (hp : p ≠ [0]) (hp' : p' ≠ [0]) (e : sec1 p = sec1 p') : p = p' := by
  unfold sec1 at e
  split at e <;> split at e
  · simp_all
  · exact absurd e.symm hp'
  · exact absurd e hp
  · exact e

theorem newDlogProof_inj {sid act lbl sid' act' lbl' : Bytes} {pid pid' : Nat} :
    newDlogProof sid pid act lbl = newDlogProof sid' pid' act' lbl' ↔
      sid = sid' ∧ pid = pid' ∧ act = act' ∧ lbl = lbl' := by
  simp only [newDlogProof, Transcript.new, Transcript.appendMessage, Transcript.appendU64, List.nil_append,
    List.cons_append, Transcript.mk.injEq, List.cons.injEq, TOp.msg.injEq, TOp.u64.injEq, true_and, and_true]
  tauto

/-! ### verification equation in a `GroupOracle` -/
section
variable {h : Query → Bytes} {G : Type} [AddCommGroup G] [Module Zq G] (go : GroupOracle h G)

/-- `verify` accepts iff `s·B = t + c·y` in the group -/
theorem verifyP_iff {p : Proof} {y base : Bytes} (hy : go.Canon y) (ht : go.Canon p.t) (hB : go.Canon base)
    (tr : Transcript) :
    verifyP h p y base tr = true ↔
      (p.s : Zq) • go.dec base = go.dec p.t + (challengeOf h y p.t base tr : Zq) • go.dec y := by
  rw [verifyP_eq, go.beq_iff (go.canon_mul _ hB) (go.canon_add ht (go.canon_mul _ hy)),
    go.mul _ hB, go.add ht (go.canon_mul _ hy), go.mul _ hy]

theorem verifyP_false_iff {p : Proof} {y base : Bytes} (hy : go.Canon y) (ht : go.Canon p.t) (hB : go.Canon base)
    (tr : Transcript) :
    verifyP h p y base tr = false ↔
      (p.s : Zq) • go.dec base ≠ go.dec p.t + (challengeOf h y p.t base tr : Zq) • go.dec y := by
  rw [Ne, ← verifyP_iff go hy ht hB tr, Bool.not_eq_true]

end

/-! ### data for the non-vacuity examples of `Props/C14.lean`: the toy oracle with merlin answering `T ↦ T.init` -/
namespace ToyEx
open GroupOracle GroupOracle.Toy

/-- challenge bytes := the init label of the transcript, so the challenge in context `Transcript.new l` is
    `beToNat l % q` whatever the points are -/
abbrev th : Query → Bytes := Toy.h Transcript.init
abbrev tgo : GroupOracle th Zq := Toy.inst Transcript.init
abbrev B0 : Bytes := enc 1

theorem chal_th (y t b l : Bytes) : challengeOf th y t b (Transcript.new l) = beToNat l % secpQ := rfl
theorem dec_th (n : ℕ) : tgo.dec (enc n) = (n : Zq) := dec_enc n
theorem full_B0 : FullOrder (tgo.dec B0) := by rw [dec_th, Nat.cast_one]; exact fullOrder_gen
theorem cast_ne {a b : ℕ} (ha : a < secpQ) (hb : b < secpQ) (hab : a ≠ b) : (a : Zq) ≠ (b : Zq) :=
  fun e => hab (natCast_inj_of_lt ha hb e)

/-- a hand-made accepted proof in the toy group: B = 1, y = 1 (x = 1), t = 7 (r = 7), context label [2] so c = 2,
    s = 7 + 2*1 = 9 -/
theorem acc0 : verifyP th ⟨enc 7, 9⟩ (enc 1) B0 (Transcript.new [2]) = true := by
  rw [verifyP_iff tgo (p := ⟨enc 7, 9⟩) (canon_enc 1) (canon_enc 7) (canon_enc 1), chal_th]
  simp only [dec_th]
  have : beToNat [2] % secpQ = 2 := by decide
  rw [this]; simp only [smul_eq_mul]; norm_num

theorem full_y0 : FullOrder (tgo.dec (enc 1)) := full_B0

end ToyEx

end SlVerif.Dlog
