import SlVerif.Proofs.FqField
import SlVerif.Props.C20
import SlVerif.Props.C13
/-
  Transfer of the algebraic theorems to the type the driver executes.

  The matrix model `SlVerif.Mat` (Model/Matrix.lean) is generic in `[FieldOps F]`.  It is natural in `F`: for every
  `φ : F → K` with `FieldOpsHom φ` (Proofs/FqField.lean; `φ` commutes with every interface operation and preserves and
  reflects `isZero`), running the model on the `φ`-image of a matrix gives the `φ`-image of the outcome
  (`determinant_map`, `inverse_map`) — same branch, same error strings.  With `φ := Fq.toZ : Fq → ZMod secpQ`
  (`Fq.toZ_hom`) and the C20 theorems at the field `ZMod secpQ` this gives the C20 statements for the executable
  type `Fq` itself: `Fq.determinant_correct`, `Fq.inverse_correct`, `Fq.inverse_singular`.
-/
namespace SlVerif

/-- functorial action on outcomes: same constructor, same message -/
def Outcome.map {α β : Type} (f : α → β) : Outcome α → Outcome β
  | .ok v => .ok (f v)
  | .err e => .err e
  | .panic w => .panic w

theorem Outcome.map_eq_ok {α β : Type} {f : α → β} {o : Outcome α} {b : β} (h : o.map f = .ok b) :
    ∃ a, o = .ok a ∧ f a = b := by
  cases o with
  | ok v => exact ⟨v, rfl, by simpa [Outcome.map] using h⟩
  | err e => simp [Outcome.map] at h
  | panic w => simp [Outcome.map] at h

theorem Outcome.map_eq_panic {α β : Type} {f : α → β} {o : Outcome α} {w : String} (h : o.map f = .panic w) :
    o = .panic w := by
  cases o with
  | ok v => simp [Outcome.map] at h
  | err e => simp [Outcome.map] at h
  | panic w' => simpa [Outcome.map] using h

namespace Mat
open FieldOps

/-- entrywise image of a matrix -/
def map {F K : Type} {n : ℕ} (φ : F → K) (A : M F n) : M K n := Vector.map (Vector.map φ) A

section Generic
variable {F K : Type}

@[simp] theorem get_map {n : ℕ} (φ : F → K) (A : M F n) (i j : Fin n) : get (map φ A) i j = φ (get A i j) := by
  simp [get, map]

theorem ext_get {n : ℕ} {A B : M F n} (h : ∀ i j, get A i j = get B i j) : A = B := by
  apply Vector.ext; intro i hi
  apply Vector.ext; intro j hj
  exact h ⟨i, hi⟩ ⟨j, hj⟩

theorem map_ofFn {n : ℕ} (φ : F → K) (f : Fin n → Fin n → F) : map φ (ofFn f) = ofFn fun i j => φ (f i j) :=
  ext_get fun i j => by simp

theorem map_swapRows {n : ℕ} (φ : F → K) (A : M F (n+1)) (m : Fin (n+1)) :
    map φ (swapRows A m) = swapRows (map φ A) m :=
  ext_get fun i j => by simp [get_swapRows]

theorem map_minor {n : ℕ} (φ : F → K) (A : M F (n+1)) (r c : Fin (n+1)) :
    map φ (minor A r c) = minor (map φ A) r c :=
  ext_get fun i j => by simp [minor]

theorem map_transpose {n : ℕ} (φ : F → K) (A : M F n) : map φ (transpose A) = transpose (map φ A) :=
  ext_get fun i j => by simp [transpose]

variable [FieldOps F] [FieldOps K] {φ : F → K}

theorem findPivot_map (h : FieldOpsHom φ) {n : ℕ} (A : M F (n+1)) : findPivot (map φ A) = findPivot A := by
  unfold findPivot
  congr 1
  funext m
  rw [get_map, h.isZero]

theorem map_step (h : FieldOpsHom φ) {n : ℕ} (A : M F (n+2)) (prev : Option F) :
    map φ (step A prev) = step (map φ A) (prev.map φ) := by
  apply ext_get; intro j k
  cases prev <;> simp [step, h.sub, h.mul, h.inv]

/-- the pivot search / row swap at the head of a `bareissAux` iteration (generic in `FieldOps`) -/
def pivotedG {n : ℕ} (A : M F (n+1)) (sign : F) : M F (n+1) × F :=
  if isZero (get A 0 0) then
    match findPivot A with
    | some m => (swapRows A m.succ, neg sign)
    | none => (A, sign)
  else (A, sign)

theorem bareissAux_succG {n : ℕ} (A : M F (n+2)) (prev : Option F) (sign : F) :
    bareissAux (n+1) A prev sign =
      if isZero (get (pivotedG A sign).1 0 0) then .ok zero
      else
        match prev with
        | some p => if isZero p then .err "Modular inverse does not exist while computing determinant"
                    else bareissAux n (step (pivotedG A sign).1 prev) (some (get (pivotedG A sign).1 0 0)) (pivotedG A sign).2
        | none => bareissAux n (step (pivotedG A sign).1 prev) (some (get (pivotedG A sign).1 0 0)) (pivotedG A sign).2 := by
  rw [bareissAux]
  unfold pivotedG
  by_cases h0 : isZero (get A 0 0) = true
  · simp only [h0, if_true]
    cases findPivot A <;> rfl
  · simp only [h0]
    rfl

theorem pivotedG_map (h : FieldOpsHom φ) {n : ℕ} (A : M F (n+1)) (sign : F) :
    pivotedG (map φ A) (φ sign) = (map φ (pivotedG A sign).1, φ (pivotedG A sign).2) := by
  unfold pivotedG
  rw [get_map, h.isZero, findPivot_map h]
  by_cases h0 : isZero (get A 0 0) = true
  · simp only [h0, if_true]
    cases findPivot A with
    | none => rfl
    | some m => simp only [map_swapRows, h.neg]
  · simp only [h0]
    rfl

/-- naturality of the Bareiss recursion -/
theorem bareissAux_map (h : FieldOpsHom φ) : ∀ (n : ℕ) (A : M F (n+1)) (prev : Option F) (sign : F),
    bareissAux n (map φ A) (prev.map φ) (φ sign) = (bareissAux n A prev sign).map φ
  | 0, A, prev, sign => by simp [bareissAux, Outcome.map, h.mul]
  | n+1, A, prev, sign => by
      rw [bareissAux_succG, bareissAux_succG, pivotedG_map h]
      simp only [get_map, h.isZero]
      by_cases hz : isZero (get (pivotedG A sign).1 0 0) = true
      · simp [hz, Outcome.map, h.zero]
      · simp only [hz]
        have ih := bareissAux_map h n (step (pivotedG A sign).1 prev) (some (get (pivotedG A sign).1 0 0))
          (pivotedG A sign).2
        rw [map_step h] at ih
        cases prev with
        | none => simpa using ih
        | some p =>
            simp only [Option.map_some, h.isZero]
            by_cases hp : isZero p = true
            · simp [hp, Outcome.map]
            · simpa [hp] using ih

/-- naturality of `determinant`: the model run on the image is the image of the model's outcome -/
theorem determinant_map (h : FieldOpsHom φ) (n : ℕ) (A : M F n) :
    determinant n (map φ A) = (determinant n A).map φ := by
  cases n with
  | zero => simp [determinant, Outcome.map, h.one]
  | succ n =>
      have := bareissAux_map h n A none one
      simpa [determinant, h.one] using this

/-- the test `mapM?` searches with: anything but `.ok` -/
def isBad {α : Type} : Outcome α → Bool
  | .ok _ => false
  | _ => true

/-- the value `mapM?` puts into a cell (`zero` is never used: the search found no bad cell) -/
def okOr {α : Type} (d : α) : Outcome α → α
  | .ok v => v
  | _ => d

theorem mapM?_eq {n : ℕ} (f : Fin n → Fin n → Outcome F) :
    mapM? f =
      match (((List.finRange n).map fun i => (List.finRange n).map fun j => f i j).flatten).find? isBad with
      | some (.err e) => .err e
      | some (.panic w) => .panic w
      | _ => .ok (ofFn fun i j => okOr zero (f i j)) := rfl

theorem mapM?_map (h : FieldOpsHom φ) {n : ℕ} (f : Fin n → Fin n → Outcome F) :
    mapM? (fun i j => (f i j).map φ) = (mapM? f).map (map φ) := by
  rw [mapM?_eq, mapM?_eq]
  have hcells : ((List.finRange n).map fun i => (List.finRange n).map fun j => (f i j).map φ).flatten
      = (((List.finRange n).map fun i => (List.finRange n).map fun j => f i j).flatten).map (Outcome.map φ) := by
    rw [List.map_flatten, List.map_map]
    congr 1
    apply List.map_congr_left
    intro i _
    simp [List.map_map, Function.comp_def]
  have hp : (isBad ∘ Outcome.map φ) = (isBad : Outcome F → Bool) := by
    funext o; cases o <;> rfl
  have hcell : (ofFn fun i j => okOr zero ((f i j).map φ)) = map φ (ofFn fun i j => okOr zero (f i j)) := by
    rw [map_ofFn]
    congr 1; funext i j
    cases f i j <;> simp [Outcome.map, okOr, h.zero]
  rw [hcells, List.find?_map, hp, hcell]
  cases (((List.finRange n).map fun i => (List.finRange n).map fun j => f i j).flatten).find? isBad with
  | none => rfl
  | some o => cases o <;> rfl

/-- the cofactor cell of `inverse` (path `n + 1 ≠ 2`) -/
def cofCell {n : ℕ} (A : M F (n+1)) (r c : Fin (n+1)) : Outcome F :=
  match determinant n (minor A r c) with
  | .ok v => Outcome.ok (mul (pow (sub zero one) (r.val + c.val)) v)
  | .err e => .panic ("Error while finding det for minor: " ++ e)
  | .panic w => .panic w

/-- what `inverse` does after a successful determinant `d` -/
def inverseTail {n : ℕ} (A : M F (n+1)) (d : F) : Outcome (M F (n+1)) :=
  if isZero d then .panic "invert().unwrap() of a zero determinant"
  else
    if h : n + 1 = 2 then
      let A2 : M F 2 := h ▸ A
      let R : M F 2 := ofFn fun i j =>
        if i = 0 ∧ j = 0 then mul (get A2 1 1) (inv d)
        else if i = 0 ∧ j = 1 then mul (mul (sub zero one) (get A2 0 1)) (inv d)
        else if i = 1 ∧ j = 0 then mul (mul (sub zero one) (get A2 1 0)) (inv d)
        else mul (get A2 0 0) (inv d)
      .ok (h ▸ R)
    else
      match mapM? (cofCell A) with
      | .ok cof => .ok (ofFn fun i j => mul (get (transpose cof) i j) (inv d))
      | .err e => .err e
      | .panic w => .panic w

theorem inverse_succG {n : ℕ} (A : M F (n+1)) :
    inverse (n+1) A =
      match determinant (n+1) A with
      | .err e => .panic ("Error while finding det: " ++ e)
      | .panic w => .panic w
      | .ok d => inverseTail A d := by
  rw [inverse]
  rfl

theorem cofCell_map (h : FieldOpsHom φ) {n : ℕ} (A : M F (n+1)) (r c : Fin (n+1)) :
    cofCell (map φ A) r c = (cofCell A r c).map φ := by
  unfold cofCell
  rw [← map_minor, determinant_map h]
  cases determinant n (minor A r c) <;> simp [Outcome.map, h.mul, h.pow, h.sub, h.zero, h.one]

theorem inverseTail_map (h : FieldOpsHom φ) {n : ℕ} (A : M F (n+1)) (d : F) :
    inverseTail (map φ A) (φ d) = (inverseTail A d).map (map φ) := by
  unfold inverseTail
  rw [h.isZero]
  by_cases hz : isZero d = true
  · simp [hz, Outcome.map]
  · simp only [hz]
    by_cases hn : n + 1 = 2
    · obtain rfl : n = 1 := by omega
      simp only [dite_true, Outcome.map, Bool.false_eq_true, if_false]
      congr 1
      rw [map_ofFn]
      congr 1; funext i j
      simp only [get_map]
      split_ifs <;> simp only [h.mul, h.sub, h.zero, h.one, h.inv]
    · simp only [hn, dite_false, Bool.false_eq_true, if_false]
      have : cofCell (map φ A) = fun r c => (cofCell A r c).map φ := by
        funext r c; exact cofCell_map h A r c
      rw [this, mapM?_map h]
      cases mapM? (cofCell A) with
      | ok cof =>
          simp only [Outcome.map]
          congr 1
          rw [map_ofFn, ← map_transpose]
          congr 1; funext i j
          simp only [get_map, h.mul, h.inv]
      | err e => rfl
      | panic w => rfl

/-- naturality of `inverse` -/
theorem inverse_map (h : FieldOpsHom φ) (n : ℕ) (A : M F n) :
    inverse n (map φ A) = (inverse n A).map (map φ) := by
  cases n with
  | zero => rfl
  | succ n =>
      rw [inverse_succG, inverse_succG, determinant_map h]
      cases determinant (n+1) A with
      | ok d => exact inverseTail_map h A d
      | err e => rfl
      | panic w => rfl

end Generic
end Mat

/-! ### naturality of the scalar polynomial model (Model/Math.lean) -/
namespace Math
open FieldOps
variable {F K : Type} [FieldOps F] [FieldOps K] {φ : F → K}

theorem factorialRange_map (h : FieldOpsHom φ) (s e : ℕ) :
    φ (factorialRange s e : F) = (factorialRange s e : K) := by
  unfold factorialRange
  split
  · exact h.ofNat _
  · have : ∀ (l : List ℕ) (acc : F),
        φ (l.foldl (fun acc x => mul acc (ofNat x)) acc) = l.foldl (fun acc x => mul acc (ofNat x)) (φ acc) := by
      intro l
      induction l with
      | nil => intro acc; rfl
      | cons x l ih => intro acc; simp only [List.foldl_cons, ih, h.mul, h.ofNat]
    rw [this, h.ofNat]

theorem derivativeAt_map (h : FieldOpsHom φ) (coeffs : List F) (n : ℕ) (x : F) :
    φ (derivativeAt coeffs n x) = derivativeAt (coeffs.map φ) n (φ x) := by
  unfold derivativeAt
  rw [h.sum, List.zipIdx_map, ← List.map_drop, List.map_map, List.map_map]
  congr 1
  apply List.map_congr_left
  rintro ⟨c, i⟩ _
  simp [h.mul, h.pow, factorialRange_map h]

theorem evaluateAt_map (h : FieldOpsHom φ) (coeffs : List F) (x : F) :
    φ (evaluateAt coeffs x) = evaluateAt (coeffs.map φ) (φ x) := by
  unfold evaluateAt
  rw [h.sum, List.zipIdx_map, List.map_map, List.map_map]
  congr 1
  apply List.map_congr_left
  rintro ⟨c, i⟩ _
  simp [h.mul, h.pow]

end Math

/-! ### the C20 / C13 statements at the executable type `Fq` -/
namespace Fq
open Mat

/-- C20 for the type the driver runs: on every square matrix over `Fq` (any size, singular or not, canonical
    representatives or not) the model returns `Ok(d)` and `d` represents the Leibniz determinant of the matrix of
    classes in the field `Z_q` -/
theorem determinant_correct (n : ℕ) (A : Mat.M Fq n) :
    ∃ d, Mat.determinant n A = .ok d ∧ Fq.toZ d = (toMatrix (Mat.map Fq.toZ A)).det := by
  have h := Mat.determinant_map Fq.toZ_hom n A
  rw [C20.det_correct] at h
  exact Outcome.map_eq_ok h.symm

theorem bareissAux_canon : ∀ (n : ℕ) (A : Mat.M Fq (n+1)) (prev : Option Fq) (sign d : Fq),
    Mat.bareissAux n A prev sign = .ok d → Canon d
  | 0, A, prev, sign, d, h => by
      simp only [Mat.bareissAux, Outcome.ok.injEq] at h
      subst h; exact canon_mul _ _
  | n+1, A, prev, sign, d, h => by
      rw [Mat.bareissAux_succG] at h
      split at h
      · simp only [Outcome.ok.injEq] at h
        subst h; exact canon_zero
      · split at h
        · split at h
          · cases h
          · exact bareissAux_canon n _ _ _ d h
        · exact bareissAux_canon n _ _ _ d h

/-- the returned determinant is a canonical representative … -/
theorem determinant_canon {n : ℕ} {A : Mat.M Fq n} {d : Fq} (h : Mat.determinant n A = .ok d) : Canon d := by
  cases n with
  | zero =>
      simp only [Mat.determinant, Outcome.ok.injEq] at h
      subst h; exact canon_one
  | succ n => exact bareissAux_canon n A none _ d h

/-- … hence it is exactly THE representative of the Leibniz determinant -/
theorem determinant_eq (n : ℕ) (A : Mat.M Fq n) :
    Mat.determinant n A = .ok (ofZ (toMatrix (Mat.map Fq.toZ A)).det) := by
  obtain ⟨d, hd, hz⟩ := determinant_correct n A
  rw [hd, ← hz, ofZ_toZ (determinant_canon hd)]

/-- C20 (inverse) for the type the driver runs: whenever the determinant is non-zero in `Z_q`, the model returns a
    matrix whose classes form a two-sided inverse of the matrix of classes -/
theorem inverse_correct (n : ℕ) (hn : 1 ≤ n) (A : Mat.M Fq n) (h : (toMatrix (Mat.map Fq.toZ A)).det ≠ 0) :
    ∃ B, Mat.inverse n A = .ok B ∧
      toMatrix (Mat.map Fq.toZ B) * toMatrix (Mat.map Fq.toZ A) = 1 ∧
      toMatrix (Mat.map Fq.toZ A) * toMatrix (Mat.map Fq.toZ B) = 1 := by
  obtain ⟨B', hB', h1, h2⟩ := C20.inverse_correct n hn (Mat.map Fq.toZ A) h
  rw [Mat.inverse_map Fq.toZ_hom] at hB'
  obtain ⟨B, hB, rfl⟩ := Outcome.map_eq_ok hB'
  exact ⟨B, hB, h1, h2⟩

/-- the zero test the code performs on the computed determinant decides singularity in `Z_q` -/
theorem det_eq_zero_iff {n : ℕ} {A : Mat.M Fq n} {d : Fq} (hd : Mat.determinant n A = .ok d) :
    (toMatrix (Mat.map Fq.toZ A)).det = 0 ↔ FieldOps.isZero d = true := by
  obtain ⟨d', hd', hz⟩ := determinant_correct n A
  rw [hd] at hd'
  cases hd'
  rw [← hz, isZero_iff]

/-- the same, stated on the executable side only: if the computed determinant passes the code's zero test, the
    computed inverse is a two-sided inverse modulo `q` -/
theorem inverse_correct' (n : ℕ) (hn : 1 ≤ n) (A : Mat.M Fq n) (d : Fq) (hd : Mat.determinant n A = .ok d)
    (hz : FieldOps.isZero d = false) :
    ∃ B, Mat.inverse n A = .ok B ∧
      toMatrix (Mat.map Fq.toZ B) * toMatrix (Mat.map Fq.toZ A) = 1 ∧
      toMatrix (Mat.map Fq.toZ A) * toMatrix (Mat.map Fq.toZ B) = 1 :=
  inverse_correct n hn A (by rw [Ne, det_eq_zero_iff hd, hz]; decide)

/-- on a singular matrix the model (like the code) panics -/
theorem inverse_singular (n : ℕ) (hn : 1 ≤ n) (A : Mat.M Fq n) (h : (toMatrix (Mat.map Fq.toZ A)).det = 0) :
    ∃ w, Mat.inverse n A = .panic w := by
  obtain ⟨w, hw⟩ := C20.inverse_singular n hn (Mat.map Fq.toZ A) h
  rw [Mat.inverse_map Fq.toZ_hom] at hw
  exact ⟨w, Outcome.map_eq_panic hw⟩

/-- C13 `factorialRange_eq` at `Fq` -/
theorem factorialRange_eq (s e : ℕ) (h : s ≤ e) :
    Fq.toZ (Math.factorialRange s e : Fq) = ((e.descFactorial (e - s) : ℕ) : ZMod secpQ) := by
  rw [Math.factorialRange_map Fq.toZ_hom, C13.factorialRange_eq s e h]

/-- C13 `derivativeAt_eq` at `Fq`: the value computed on representatives represents the `n`-th derivative of the
    polynomial of classes, evaluated at the class of `x` -/
theorem derivativeAt_eq (coeffs : List Fq) (n : ℕ) (x : Fq) :
    Fq.toZ (Math.derivativeAt coeffs n x) =
      Polynomial.eval (Fq.toZ x) (Polynomial.derivative^[n] (Math.ofCoeffs (coeffs.map Fq.toZ))) := by
  rw [Math.derivativeAt_map Fq.toZ_hom, C13.derivativeAt_eq]

/-- C13 `evaluateAt_eq` at `Fq` -/
theorem evaluateAt_eq (coeffs : List Fq) (x : Fq) :
    Fq.toZ (Math.evaluateAt coeffs x) = Polynomial.eval (Fq.toZ x) (Math.ofCoeffs (coeffs.map Fq.toZ)) := by
  rw [Math.evaluateAt_map Fq.toZ_hom, C13.evaluateAt_eq]

end Fq
end SlVerif
