import SlVerif.Proofs.PprfAll
/-
  C06 helper lemmas, part 5: tampering with one tree message, the adversarial sender.
-/
namespace SlVerif.Pprf
open SlVerif

variable (h : Query → Bytes) (sid : Bytes)

theorem othF_xor_left (f : Nat → Bytes) (ystar n : Nat) (A B : Bytes) :
    othF f ystar n (xorBytes A B) = xorBytes A (othF f ystar n B) := by
  induction n with
  | zero => rfl
  | succ n ih =>
    rw [othF_succ, othF_succ, ih]
    split
    · rw [xorBytes_assoc]
    · rfl

/-- the receiver's fold is injective in its starting value (all strings of one length) -/
theorem othF_inj (f : Nat → Bytes) (L ystar n : Nat) (A A' : Bytes) (hf : ∀ y < n, (f y).length = L)
    (hA : A.length = L) (hA' : A'.length = L) (e : othF f ystar n A = othF f ystar n A') : A = A' := by
  have hC : (othF f ystar n (zeros L)).length = L := othF_length f L ystar n _ hf (zeros_length L)
  have h1 : othF f ystar n A = xorBytes A (othF f ystar n (zeros L)) := by
    conv => lhs; rw [← xorBytes_zeros A L hA]
    rw [othF_xor_left]
  have h2 : othF f ystar n A' = xorBytes A' (othF f ystar n (zeros L)) := by
    conv => lhs; rw [← xorBytes_zeros A' L hA']
    rw [othF_xor_left]
  rw [h1, h2] at e
  have := congrArg (fun x => xorBytes x (othF f ystar n (zeros L))) e
  rwa [xorBytes_cancel _ _ (by rw [hA, hC]), xorBytes_cancel _ _ (by rw [hA', hC])] at this

/-- `vecR_eq` needs less than the full invariant -/
theorem vecR_eq' (leaves sstar : List Bytes) (ystar : Nat) (hlen : sstar.length = leaves.length)
    (hlt : ystar < leaves.length) (heq : ∀ y, y ≠ ystar → sstar[y]? = leaves[y]?) :
    vecR h sid ystar sstar ((leaves.map (P h sid)).foldl xorBytes (zeros (2*KB))) = leaves.map (P h sid) := by
  have hacc : xorOthers ystar ((leaves.map (P h sid)).foldl xorBytes (zeros (2*KB)))
      (maskAt ystar (zeros (2*KB)) (sstar.map (P h sid))) = P h sid (leaves.getD ystar []) := by
    rw [xorOthers_eq, maskAt_length, List.length_map, hlen]
    rw [othF_congr _ (fun y => P h sid (leaves.getD y [])) ystar leaves.length _ (by
      intro y hy hne
      have hy' : y < sstar.length := by rw [hlen]; exact hy
      have := heq y hne
      rw [List.getElem?_eq_getElem hy', List.getElem?_eq_getElem hy] at this
      simp only [Option.some.injEq] at this
      simp [List.getD_eq_getElem?_getD, maskAt_getElem?, List.getElem?_eq_getElem hy', List.getElem?_eq_getElem hy, hne, this])]
    have hT : (leaves.map (P h sid)).foldl xorBytes (zeros (2*KB))
        = allF (fun y => P h sid (leaves.getD y [])) leaves.length (zeros (2*KB)) := by
      have := foldl_eq_allF (fun x : Bytes => x) [] (leaves.map (P h sid)) (zeros (2*KB))
      rw [List.length_map] at this
      rw [show (leaves.map (P h sid)).foldl xorBytes (zeros (2*KB))
            = (leaves.map (P h sid)).foldl (fun acc x => xorBytes acc x) (zeros (2*KB)) from rfl, this]
      apply allF_congr
      intro y hy
      simp [List.getD_eq_getElem?_getD, List.getElem?_eq_getElem hy]
    rw [hT]
    exact othF_allF_zeros _ (2*KB) ystar leaves.length (fun y _ => P_len h sid _) hlt
  unfold vecR
  rw [hacc]
  apply List.ext_getElem?
  intro y
  rw [List.getElem?_set, maskAt_length, List.length_map, hlen, maskAt_getElem?]
  by_cases hy : ystar = y
  · subst hy
    simp [hlt, List.getD_eq_getElem?_getD]
  · have hne : y ≠ ystar := fun e => hy e.symm
    simp only [hy, if_false]
    rw [List.getElem?_map, List.getElem?_map, heq y hne]
    cases leaves[y]? <;> simp [hne]

/-- the slot of the receiver's proof vector at the punctured index, as a function of `t_tilda` -/
theorem vecR_slot (ystar : Nat) (s : List Bytes) (tT : Bytes) (hlt : ystar < s.length) :
    (vecR h sid ystar s tT)[ystar]? =
      some (othF (fun y => (maskAt ystar (zeros (2*KB)) (s.map (P h sid))).getD y []) ystar s.length tT) := by
  unfold vecR
  rw [List.getElem?_set, maskAt_length, List.length_map]
  simp [hlt, xorOthers_eq, maskAt_length]

theorem evalTree_accept_iff (bit : Nat → Nat) (dk : Nat → Bytes) (msg : TreeMsg) :
    (evalTree (m := Id) h sid bit dk msg).isSome ↔
      Hh h sid (vecR h sid (evalLevels (m := Id) h sid bit dk levels msg.t (evalInit (bit 0) (dk 0)).1 (evalInit (bit 0) (dk 0)).2).1
        (evalLevels (m := Id) h sid bit dk levels msg.t (evalInit (bit 0) (dk 0)).1 (evalInit (bit 0) (dk 0)).2).2 msg.tTilda)
        = msg.sTilda := by
  rw [evalTree_id]
  split
  · rename_i hne; simp; exact hne
  · rename_i heq; simp at heq; simp [heq]

theorem advTree_id (keys : Nat → Bytes × Bytes) (level side : Nat) (delta : Bytes) (guess : Nat → Nat) :
    advTree (m := Id) h sid keys level side delta guess =
      { t := corruptWord (buildTree (m := Id) h sid keys).2.t level side delta
        sTilda := Hh h sid
          ((((evalLevels (m := Id) h sid guess (fun i => sel (guess i) (keys i)) levels
                (corruptWord (buildTree (m := Id) h sid keys).2.t level side delta)
                (evalInit (guess 0) (sel (guess 0) (keys 0))).1 (evalInit (guess 0) (sel (guess 0) (keys 0))).2).2).set
              (evalLevels (m := Id) h sid guess (fun i => sel (guess i) (keys i)) levels
                (corruptWord (buildTree (m := Id) h sid keys).2.t level side delta)
                (evalInit (guess 0) (sel (guess 0) (keys 0))).1 (evalInit (guess 0) (sel (guess 0) (keys 0))).2).1
              ((buildTree (m := Id) h sid keys).1.getD
                (evalLevels (m := Id) h sid guess (fun i => sel (guess i) (keys i)) levels
                  (corruptWord (buildTree (m := Id) h sid keys).2.t level side delta)
                  (evalInit (guess 0) (sel (guess 0) (keys 0))).1 (evalInit (guess 0) (sel (guess 0) (keys 0))).2).1 [])).map (P h sid))
        tTilda :=
          ((((evalLevels (m := Id) h sid guess (fun i => sel (guess i) (keys i)) levels
                (corruptWord (buildTree (m := Id) h sid keys).2.t level side delta)
                (evalInit (guess 0) (sel (guess 0) (keys 0))).1 (evalInit (guess 0) (sel (guess 0) (keys 0))).2).2).set
              (evalLevels (m := Id) h sid guess (fun i => sel (guess i) (keys i)) levels
                (corruptWord (buildTree (m := Id) h sid keys).2.t level side delta)
                (evalInit (guess 0) (sel (guess 0) (keys 0))).1 (evalInit (guess 0) (sel (guess 0) (keys 0))).2).1
              ((buildTree (m := Id) h sid keys).1.getD
                (evalLevels (m := Id) h sid guess (fun i => sel (guess i) (keys i)) levels
                  (corruptWord (buildTree (m := Id) h sid keys).2.t level side delta)
                  (evalInit (guess 0) (sel (guess 0) (keys 0))).1 (evalInit (guess 0) (sel (guess 0) (keys 0))).2).1 [])).map (P h sid)).foldl
            xorBytes (zeros (2*KB)) } := by
  unfold advTree
  generalize levels = lv
  simp only [proveLeaves_id]
  rfl

end SlVerif.Pprf

namespace SlVerif.Pprf
open SlVerif

variable (h : Query → Bytes) (sid : Bytes)

theorem vecR_getElem?_ne (ystar : Nat) (s : List Bytes) (tT : Bytes) (z : Nat) (hz : z ≠ ystar) :
    (vecR h sid ystar s tT)[z]? = (s.map (P h sid))[z]? := by
  unfold vecR
  rw [List.getElem?_set, if_neg (fun e => hz e.symm), maskAt_getElem?]
  cases (s.map (P h sid))[z]? <;> simp [hz]

/-- the correction the receiver computes at a level, as a function of the word it reads -/
def corrOf (c : Nat) (a dkv : Bytes) (ystar : Nat) (s : List Bytes) : Bytes :=
  xorOthers ystar (xorBytes a dkv) ((maskAt ystar (zeros KB, zeros KB) (s.map (G h sid))).map (sel c))

theorem stepR_corr (c : Nat) (w : Bytes × Bytes) (dkv : Bytes) (ystar : Nat) (s : List Bytes) (hlt : ystar < s.length) (hc : c ≤ 1) :
    (stepR h sid c w dkv ystar s)[2 * ystar + c]? = some (corrOf h sid c (sel c w) dkv ystar s) := by
  unfold stepR corrOf
  rw [List.getElem?_set]
  have : 2 * ystar + c < (interleave (maskAt ystar (zeros KB, zeros KB) (s.map (G h sid)))).length := by
    rw [interleave_length, maskAt_length, List.length_map]; omega
  simp [this]

theorem corrOf_length (c : Nat) (a dkv : Bytes) (ystar : Nat) (s : List Bytes) (ha : a.length = KB) (hd : dkv.length = KB) :
    (corrOf h sid c a dkv ystar s).length = KB := by
  unfold corrOf
  rw [xorOthers_eq]
  apply othF_length _ KB
  · intro y hy
    rw [List.length_map, maskAt_length, List.length_map] at hy
    rw [List.getD_eq_getElem?_getD, List.getElem?_map, maskAt_getElem?, List.getElem?_map, List.getElem?_eq_getElem hy]
    simp only [Option.map_some, Option.getD_some]
    split
    · exact G_sel_len h sid c _
    · unfold sel; split <;> exact zeros_length _
  · rw [xorBytes_length, ha, hd]; simp

/-- XOR-ing `delta` onto the word the receiver reads XORs `delta` onto the child it derives -/
theorem corrOf_xor (c : Nat) (a delta dkv : Bytes) (ystar : Nat) (s : List Bytes) :
    corrOf h sid c (xorBytes a delta) dkv ystar s = xorBytes delta (corrOf h sid c a dkv ystar s) := by
  unfold corrOf
  rw [xorOthers_eq, xorOthers_eq, ← othF_xor_left]
  congr 1
  rw [xorBytes_comm a delta, xorBytes_assoc]

theorem xor_delta_ne (delta a : Bytes) (hl : delta.length = a.length) (hne : delta ≠ zeros a.length) :
    xorBytes delta a ≠ a := by
  intro e
  apply hne
  have := congrArg (fun x => xorBytes x a) e
  rw [xorBytes_cancel _ _ hl, xorBytes_self] at this
  exact this

theorem sel_corrupt (c : Nat) (hc : c ≤ 1) (w : Bytes × Bytes) (delta : Bytes) :
    sel c (if c = 0 then (xorBytes w.1 delta, w.2) else (w.1, xorBytes w.2 delta)) = xorBytes (sel c w) delta := by
  have : c = 0 ∨ c = 1 := by omega
  rcases this with rfl | rfl <;> rfl

end SlVerif.Pprf
