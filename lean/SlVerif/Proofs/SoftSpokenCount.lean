import Mathlib.Data.Fintype.BigOperators
import Mathlib.Data.Fin.Tuple.Basic
import SlVerif.Proofs.SoftSpokenBits
/-
  C04 helper lemmas: the check value is a universal hash — COUNTING form.
  For a fixed row (deviation) `e` with some segment `ê_j ≠ 0`, `j < M`, exactly `2^(128·(M−1))` of the `2^(128·M)` challenge
  vectors χ ∈ GF(2^128)^M give check value `Σ_j ê_j·χ_j ⊕ ê_M = 0` (a non-trivial linear equation over a FIELD, C19.P_irreducible);
  if all `ê_j`, `j < M`, are zero the check value is `ê_M` for every χ.
-/
namespace SlVerif.SoftSpoken
open SlVerif SlVerif.Generated

/-- a 128-bit field element -/
abbrev F128 := Fin (2 ^ 128)

/-- a challenge vector χ ∈ GF(2^128)^M -/
abbrev ChiVec := Fin SOFT_SPOKEN_M → F128

/-- the list the model's `checkRow` takes -/
def chiList (χ : ChiVec) : List ℕ := List.ofFn fun j => (χ j : ℕ)

theorem chiList_getD (χ : ChiVec) (j : ℕ) (hj : j < SOFT_SPOKEN_M) : (chiList χ).getD j 0 = (χ ⟨j, hj⟩ : ℕ) := by
  unfold chiList
  rw [List.getD_eq_getElem _ _ (by simpa using hj)]
  simp

theorem chiList_ok (χ : ChiVec) : ChiOk (chiList χ) := by
  intro j
  by_cases hj : j < SOFT_SPOKEN_M
  · rw [chiList_getD χ j hj]; exact (χ ⟨j, hj⟩).isLt
  · rw [List.getD_eq_default _ _ (by simp [chiList]; omega)]; exact Nat.two_pow_pos _

theorem checkRow_lt (chi : List ℕ) (hchi : ChiOk chi) (row : ℕ) : checkRow chi row < 2 ^ 128 := by
  unfold checkRow
  apply Nat.xor_lt_two_pow _ (seg_lt _ _)
  apply xorAll_lt
  intro x hx
  obtain ⟨j, _, rfl⟩ := List.mem_map.mp hx
  exact (C19.mul_spec _ _ (seg_lt _ _) (hchi j)).2

theorem xor_left_inj' {a b c : ℕ} : a ^^^ c = b ^^^ c ↔ a = b := by
  rw [Nat.xor_comm a, Nat.xor_comm b]; exact xor_right_inj'

/-! ### xorAll: one distinguished summand -/

theorem xorAll_append (a b : List ℕ) : xorAll (a ++ b) = xorAll a ^^^ xorAll b := by
  induction a with
  | nil => simp
  | cons x xs ih => rw [List.cons_append, xorAll_cons, xorAll_cons, ih, Nat.xor_assoc]

theorem xorAll_spike (n j0 v : ℕ) (hj : j0 < n) :
    xorAll ((List.range n).map fun j => if j = j0 then v else 0) = v := by
  induction n with
  | zero => omega
  | succ n ih =>
    rw [List.range_succ, List.map_append, xorAll_append]
    by_cases h : j0 = n
    · subst h
      have : (List.range j0).map (fun j => if j = j0 then v else 0) = (List.range j0).map fun _ => 0 := by
        apply List.map_congr_left
        intro j hj'
        have : j ≠ j0 := Nat.ne_of_lt (List.mem_range.mp hj')
        simp [this]
      rw [this, xorAll_map_zero]
      simp [xorAll_cons]
    · rw [ih (by omega)]
      have : ¬ n = j0 := fun h' => h h'.symm
      simp [xorAll_cons, this]

/-- two families that agree off `j0` differ, in the xor-sum, by their `j0` entries -/
theorem xorAll_differ_at (n j0 : ℕ) (hj : j0 < n) (f g : ℕ → ℕ) (hfg : ∀ j < n, j ≠ j0 → f j = g j) :
    xorAll ((List.range n).map f) ^^^ xorAll ((List.range n).map g) = f j0 ^^^ g j0 := by
  rw [← xorAll_map_xor]
  have : (List.range n).map (fun x => f x ^^^ g x)
      = (List.range n).map fun j => if j = j0 then f j0 ^^^ g j0 else 0 := by
    apply List.map_congr_left
    intro j hj'
    by_cases h : j = j0
    · subst h; simp
    · rw [if_neg h, hfg j (List.mem_range.mp hj') h, Nat.xor_self]
  rw [this, xorAll_spike n j0 _ hj]

/-! ### counting -/

/-- functions on `Fin (n+1)` with one coordinate prescribed -/
theorem card_fix_coord (n : ℕ) (α : Type) [Fintype α] [DecidableEq α] (j0 : Fin (n + 1)) (z : α) :
    Fintype.card {ψ : Fin (n + 1) → α // ψ j0 = z} = Fintype.card α ^ n := by
  have e : {ψ : Fin (n + 1) → α // ψ j0 = z} ≃ (Fin n → α) :=
    { toFun := fun ψ j => ψ.1 (j0.succAbove j)
      invFun := fun ρ => ⟨Fin.insertNth j0 z ρ, by simp⟩
      left_inv := by
        intro ψ
        apply Subtype.ext
        funext i
        refine Fin.succAboveCases j0 ?_ ?_ i
        · simp [ψ.2]
        · intro j; simp
      right_inv := by
        intro ρ
        funext j
        simp }
  rw [Fintype.card_congr e, Fintype.card_fun, Fintype.card_fin]

/-- the check value of `row` under χ, as a field element -/
def cvF (row : ℕ) (χ : ChiVec) : F128 := ⟨checkRow (chiList χ) row, checkRow_lt _ (chiList_ok χ) row⟩

/-- replace coordinate `j0` of χ by the check value: a bijection of GF(2^128)^M when `ê_{j0} ≠ 0` -/
def swapIn (row : ℕ) (j0 : Fin SOFT_SPOKEN_M) (χ : ChiVec) : ChiVec := Function.update χ j0 (cvF row χ)

theorem swapIn_injective (row : ℕ) (j0 : Fin SOFT_SPOKEN_M) (hne : seg row j0 ≠ 0) :
    Function.Injective (swapIn row j0) := by
  intro χ χ' heq
  have hoff : ∀ j : Fin SOFT_SPOKEN_M, j ≠ j0 → χ j = χ' j := by
    intro j hj
    have := congrFun heq j
    simpa [swapIn, Function.update_of_ne hj] using this
  have hcv : checkRow (chiList χ) row = checkRow (chiList χ') row := by
    have := congrFun heq j0
    simp only [swapIn, Function.update_self] at this
    exact congrArg Fin.val this
  -- the two check values differ exactly by the `j0` products
  have hprod : Gf.mul (seg row j0) (χ j0) = Gf.mul (seg row j0) (χ' j0) := by
    unfold checkRow at hcv
    have h1 := (xor_left_inj' (c := seg row SOFT_SPOKEN_M)).mp hcv
    have h2 := xorAll_differ_at SOFT_SPOKEN_M j0 j0.isLt
      (fun j => Gf.mul (seg row j) ((chiList χ).getD j 0)) (fun j => Gf.mul (seg row j) ((chiList χ').getD j 0))
      (by
        intro j hj hne'
        have : (⟨j, hj⟩ : Fin SOFT_SPOKEN_M) ≠ j0 := fun h => hne' (congrArg Fin.val h)
        simp only [chiList_getD _ j hj, hoff _ this])
    rw [h1, Nat.xor_self] at h2
    simp only [chiList_getD _ _ j0.isLt, Fin.eta] at h2
    exact Nat.xor_eq_zero_iff.mp h2.symm
  have hj0 : χ j0 = χ' j0 :=
    Fin.ext (C19.mul_left_cancel _ _ _ (seg_lt _ _) (χ j0).isLt (χ' j0).isLt hne hprod)
  funext j
  by_cases h : j = j0
  · subst h; exact hj0
  · exact hoff j h

/-- **Universal-hash count.**  If some segment `ê_{j0}`, `j0 < M`, of the row is non-zero, then among all
    `2^(128·M)` challenge vectors exactly `2^(128·(M−1))` give check value 0. -/
theorem card_checkRow_zero (row : ℕ) (j0 : Fin SOFT_SPOKEN_M) (hne : seg row j0 ≠ 0) :
    (Finset.univ.filter fun χ : ChiVec => checkRow (chiList χ) row = 0).card
      = 2 ^ (128 * (SOFT_SPOKEN_M - 1)) := by
  have hbij : Function.Bijective (swapIn row j0) :=
    Finite.injective_iff_bijective.mp (swapIn_injective row j0 hne)
  rw [← Fintype.card_subtype]
  have e : {χ : ChiVec // checkRow (chiList χ) row = 0} ≃ {ψ : ChiVec // ψ j0 = (⟨0, Nat.two_pow_pos _⟩ : F128)} :=
    (Equiv.ofBijective _ hbij).subtypeEquiv (by
      intro χ
      show checkRow (chiList χ) row = 0 ↔ Function.update χ j0 (cvF row χ) j0 = _
      rw [Function.update_self]
      exact ⟨fun h => Fin.ext h, fun h => congrArg Fin.val h⟩)
  rw [Fintype.card_congr e]
  have h := card_fix_coord 3 F128 j0 (⟨0, Nat.two_pow_pos _⟩ : F128)
  have hc : Fintype.card F128 = 2 ^ 128 := Fintype.card_fin _
  have hM : 128 * (SOFT_SPOKEN_M - 1) = 128 * 3 := rfl
  rw [hM, pow_mul]
  exact h.trans (congrArg (· ^ 3) hc)

/-- if all segments `ê_j`, `j < M`, are zero, the check value is `ê_M` whatever χ is -/
theorem checkRow_of_low_zero (chi : List ℕ) (hchi : ChiOk chi) (row : ℕ)
    (hz : ∀ j < SOFT_SPOKEN_M, seg row j = 0) : checkRow chi row = seg row SOFT_SPOKEN_M := by
  unfold checkRow
  have : (List.range SOFT_SPOKEN_M).map (fun j => Gf.mul (seg row j) (chi.getD j 0))
      = (List.range SOFT_SPOKEN_M).map fun _ => 0 := by
    apply List.map_congr_left
    intro j hj
    rw [hz j (List.mem_range.mp hj), gfmul_zero_left _ (hchi j)]
  rw [this, xorAll_map_zero, Nat.zero_xor]

/-- a row below `2^(S·(M+1))` whose M+1 segments all vanish is 0 -/
theorem eq_zero_of_segs (row : ℕ) (hlt : row < 2 ^ (S * (SOFT_SPOKEN_M + 1)))
    (hz : ∀ j ≤ SOFT_SPOKEN_M, seg row j = 0) : row = 0 := by
  apply Nat.eq_of_testBit_eq
  intro p
  rw [Nat.zero_testBit]
  by_cases hp : p < S * (SOFT_SPOKEN_M + 1)
  · have hS : 0 < S := by decide
    have hj : p / S ≤ SOFT_SPOKEN_M := by
      have : p / S < SOFT_SPOKEN_M + 1 := Nat.div_lt_of_lt_mul hp
      omega
    have := congrArg (·.testBit (p % S)) (hz _ hj)
    simp only [seg, Nat.testBit_mod_two_pow, Nat.testBit_shiftRight, Nat.zero_testBit, Nat.mod_lt _ hS,
      decide_true, Bool.true_and, Nat.div_add_mod] at this
    exact this
  · exact Nat.testBit_lt_two_pow (lt_of_lt_of_le hlt (Nat.pow_le_pow_right (by norm_num) (Nat.le_of_not_lt hp)))

/-- **Density bound.**  For every non-zero row `e < 2^(8·L_PRIME_BYTES)` at most `2^(128·(M−1))` of the `2^(128·M)`
    challenge vectors give check value 0 (a fraction ≤ 2^-128). -/
theorem card_checkRow_zero_le (row : ℕ) (hlt : row < 2 ^ (S * (SOFT_SPOKEN_M + 1))) (hne : row ≠ 0) :
    (Finset.univ.filter fun χ : ChiVec => checkRow (chiList χ) row = 0).card
      ≤ 2 ^ (128 * (SOFT_SPOKEN_M - 1)) := by
  by_cases hlow : ∃ j0 : Fin SOFT_SPOKEN_M, seg row j0 ≠ 0
  · obtain ⟨j0, h0⟩ := hlow
    exact le_of_eq (card_checkRow_zero row j0 h0)
  · have hz : ∀ j < SOFT_SPOKEN_M, seg row j = 0 := by
      intro j hj
      by_contra h
      exact hlow ⟨⟨j, hj⟩, h⟩
    have hM : seg row SOFT_SPOKEN_M ≠ 0 := by
      intro hM
      apply hne
      apply eq_zero_of_segs row hlt
      intro j hj
      rcases Nat.lt_or_ge j SOFT_SPOKEN_M with h | h
      · exact hz j h
      · have : j = SOFT_SPOKEN_M := le_antisymm hj h
        rw [this]; exact hM
    have : (Finset.univ.filter fun χ : ChiVec => checkRow (chiList χ) row = 0) = ∅ := by
      apply Finset.filter_eq_empty_iff.mpr
      intro χ _
      rw [checkRow_of_low_zero _ (chiList_ok χ) row hz]
      exact hM
    rw [this]
    simp

theorem card_chiVec : Fintype.card ChiVec = 2 ^ (128 * SOFT_SPOKEN_M) := by
  rw [Fintype.card_fun, Fintype.card_fin, Fintype.card_fin, ← pow_mul]

/-! ### the bad set of a deviation, and the model's challenge list as a vector -/

/-- challenge vectors under which the row (deviation) `e` has check value 0 -/
def BadChi (e : ℕ) : Finset ChiVec := Finset.univ.filter fun χ => checkRow (chiList χ) e = 0

/-- a challenge list of the model (every entry a 16-byte value) as a vector -/
def chiVecOf (chi : List ℕ) (hchi : ChiOk chi) : ChiVec := fun j => ⟨chi.getD j 0, hchi j⟩

theorem chiList_chiVecOf (chi : List ℕ) (hchi : ChiOk chi) (hlen : chi.length = SOFT_SPOKEN_M) :
    chiList (chiVecOf chi hchi) = chi := by
  apply List.ext_getElem
  · simp [chiList, hlen]
  · intro j h1 h2
    simp only [chiList, chiVecOf, List.getElem_ofFn]
    exact List.getD_eq_getElem _ _ h2

theorem mem_BadChi_chiVecOf (chi : List ℕ) (hchi : ChiOk chi) (hlen : chi.length = SOFT_SPOKEN_M) (e : ℕ) :
    chiVecOf chi hchi ∈ BadChi e ↔ checkRow chi e = 0 := by
  unfold BadChi
  rw [Finset.mem_filter, chiList_chiVecOf chi hchi hlen]
  simp

end SlVerif.SoftSpoken
