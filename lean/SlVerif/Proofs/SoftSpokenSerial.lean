import SlVerif.Proofs.SoftSpokenBits
/-
  C04 helper lemmas: the byte layout of `Round1Output` (serialize / parse / flipBit), bit by bit.
  Goal: `tamperBitFast msg pos = tamperBit msg pos` for every well-formed message and every bit position
  (`tamperBit_eq_fast`), so that the driver's structural flip is the byte-level flip.
-/
namespace SlVerif.SoftSpoken
open SlVerif SlVerif.Generated

/-- bit `p` of a byte string in the `extract_bit` convention (byte p/8, bit p%8) -/
def bitAt (bs : Bytes) (p : ℕ) : Bool := (bs.getD (p / 8) 0).testBit (p % 8)

def BytesOk (bs : Bytes) : Prop := ∀ x ∈ bs, x < 256

theorem getD_eq (bs : Bytes) (j : ℕ) : bs.getD j 0 = (bs[j]?).getD 0 := List.getD_eq_getElem?_getD

theorem leToNat_testBit' (bs : Bytes) (hb : BytesOk bs) (p : ℕ) : (leToNat bs).testBit p = bitAt bs p := by
  unfold bitAt
  by_cases h : p / 8 < bs.length
  · have := C19.leToNat_testBit bs hb (p / 8) (p % 8) h (Nat.mod_lt _ (by norm_num))
    rw [Nat.div_add_mod] at this
    rw [this, List.getD_eq_getElem _ _ h]
  · rw [List.getD_eq_default _ _ (by omega), Nat.zero_testBit]
    apply Nat.testBit_lt_two_pow
    exact lt_of_lt_of_le (leToNat_lt bs hb) (Nat.pow_le_pow_right (by norm_num) (by omega))

theorem bitAt_take (bs : Bytes) (k p : ℕ) : bitAt (bs.take k) p = (decide (p < 8 * k) && bitAt bs p) := by
  unfold bitAt
  rw [getD_eq, getD_eq, List.getElem?_take]
  by_cases h : p / 8 < k
  · have : p < 8 * k := by omega
    simp [h, this]
  · have : ¬ p < 8 * k := by omega
    simp [h, this]

theorem bitAt_drop (bs : Bytes) (k p : ℕ) : bitAt (bs.drop k) p = bitAt bs (8 * k + p) := by
  unfold bitAt
  rw [getD_eq, getD_eq, List.getElem?_drop]
  have h1 : (8 * k + p) / 8 = k + p / 8 := by omega
  have h2 : (8 * k + p) % 8 = p % 8 := by omega
  rw [h1, h2]

theorem BytesOk.take {bs : Bytes} (h : BytesOk bs) (k : ℕ) : BytesOk (bs.take k) :=
  fun x hx => h x (List.mem_of_mem_take hx)
theorem BytesOk.drop {bs : Bytes} (h : BytesOk bs) (k : ℕ) : BytesOk (bs.drop k) :=
  fun x hx => h x (List.mem_of_mem_drop hx)
theorem BytesOk.append {a b : Bytes} (ha : BytesOk a) (hb : BytesOk b) : BytesOk (a ++ b) := by
  intro x hx
  rcases List.mem_append.mp hx with h | h
  · exact ha x h
  · exact hb x h

theorem bitAt_append (a b : Bytes) (p : ℕ) :
    bitAt (a ++ b) p = if p < 8 * a.length then bitAt a p else bitAt b (p - 8 * a.length) := by
  unfold bitAt
  rw [getD_eq, getD_eq, getD_eq, List.getElem?_append]
  by_cases h : p / 8 < a.length
  · have : p < 8 * a.length := by omega
    simp [h, this]
  · have h' : ¬ p < 8 * a.length := by omega
    have h1 : (p - 8 * a.length) / 8 = p / 8 - a.length := by omega
    have h2 : (p - 8 * a.length) % 8 = p % 8 := by omega
    simp [h, h', h1, h2]

/-! ### chunkRows (parse) -/

theorem length_chunkRows (w n : ℕ) (bs : Bytes) : (chunkRows w n bs).length = n := by
  induction n generalizing bs with
  | zero => rfl
  | succ n ih => simp [chunkRows, ih]

theorem chunkRows_testBit (w n : ℕ) (bs : Bytes) (hb : BytesOk bs) (i p : ℕ) :
    ((chunkRows w n bs).getD i 0).testBit p
      = (decide (i < n) && (decide (p < 8 * w) && bitAt bs (8 * w * i + p))) := by
  induction n generalizing bs i with
  | zero => simp [chunkRows]
  | succ n ih =>
    cases i with
    | zero =>
      simp only [chunkRows, List.getD_cons_zero, Nat.zero_lt_succ, decide_true, Bool.true_and, Nat.mul_zero,
        Nat.zero_add]
      rw [leToNat_testBit' _ (hb.take w), bitAt_take]
    | succ i =>
      simp only [chunkRows, List.getD_cons_succ]
      rw [ih _ (hb.drop w), bitAt_drop]
      have : 8 * w + (8 * w * i + p) = 8 * w * (i + 1) + p := by ring
      rw [this]
      simp

/-! ### flipBit -/

theorem length_flipBit (bs : Bytes) (pos : ℕ) : (flipBit bs pos).length = bs.length := by
  unfold flipBit; simp

theorem BytesOk.flipBit {bs : Bytes} (h : BytesOk bs) (pos : ℕ) : BytesOk (flipBit bs pos) := by
  intro x hx
  unfold SoftSpoken.flipBit at hx
  obtain ⟨j, hj, rfl⟩ := List.getElem_of_mem hx
  rw [List.getElem_modify]
  have hj' : j < bs.length := by simpa using hj
  have hbj : bs[j] < 256 := h _ (List.getElem_mem hj')
  split
  · have h1 : (1 <<< (pos % 8) : ℕ) < 2 ^ 8 := by
      rw [Nat.one_shiftLeft]; exact Nat.pow_lt_pow_right (by norm_num) (Nat.mod_lt _ (by norm_num))
    exact Nat.xor_lt_two_pow (n := 8) hbj h1
  · exact hbj

theorem getD_modify (l : List ℕ) (i j : ℕ) (f : ℕ → ℕ) :
    (l.modify i f).getD j 0 = if i = j ∧ j < l.length then f (l.getD j 0) else l.getD j 0 := by
  rw [getD_eq, getD_eq, List.getElem?_modify]
  by_cases hl : j < l.length
  · rw [List.getElem?_eq_getElem hl]
    by_cases hij : i = j
    · simp [hij, hl]
    · simp [hij]
  · rw [List.getElem?_eq_none (by omega)]
    simp [hl]

theorem bitAt_flipBit (bs : Bytes) (pos p : ℕ) (h : pos / 8 < bs.length) :
    bitAt (flipBit bs pos) p = (bitAt bs p ^^ decide (p = pos)) := by
  unfold bitAt flipBit
  rw [getD_modify]
  by_cases hp : pos / 8 = p / 8
  · have hlt : p / 8 < bs.length := by omega
    rw [if_pos ⟨hp, hlt⟩, Nat.testBit_xor, Nat.one_shiftLeft, Nat.testBit_two_pow]
    by_cases hb : pos % 8 = p % 8
    · have : p = pos := by omega
      rw [decide_eq_true hb, decide_eq_true this]
    · have : ¬ p = pos := by omega
      rw [decide_eq_false hb, decide_eq_false this]
  · have : ¬ p = pos := by intro h'; rw [h'] at hp; exact hp rfl
    rw [if_neg (fun hh => hp hh.1), decide_eq_false this, Bool.xor_false]

/-! ### natToLe and serialize -/

theorem natToLe_ok (w v : ℕ) : BytesOk (natToLe w v) := by
  induction w generalizing v with
  | zero => intro x hx; simp [natToLe] at hx
  | succ w ih =>
    intro x hx
    simp only [natToLe, List.mem_cons] at hx
    rcases hx with rfl | hx
    · exact Nat.mod_lt _ (by norm_num)
    · exact ih _ x hx

theorem bitAt_natToLe (w v p : ℕ) : bitAt (natToLe w v) p = (decide (p < 8 * w) && v.testBit p) := by
  rw [← leToNat_testBit' _ (natToLe_ok w v), leToNat_natToLe, Nat.testBit_mod_two_pow]

theorem flatMap_ok (w : ℕ) (l : List ℕ) : BytesOk (l.flatMap (natToLe w)) := by
  intro x hx
  obtain ⟨v, _, hv⟩ := List.mem_flatMap.mp hx
  exact natToLe_ok w v x hv

theorem length_flatMap_natToLe (w : ℕ) (l : List ℕ) : (l.flatMap (natToLe w)).length = w * l.length := by
  induction l with
  | nil => simp
  | cons v l ih => simp [List.flatMap_cons, natToLe_length, ih]; ring

/-- bit `p` of the concatenation of `w`-byte rows: row p/(8w), bit p%(8w) -/
theorem bitAt_flatMap (w : ℕ) (hw : 0 < w) (l : List ℕ) (p : ℕ) :
    bitAt (l.flatMap (natToLe w)) p
      = (decide (p < 8 * w * l.length) && (l.getD (p / (8 * w)) 0).testBit (p % (8 * w))) := by
  have hW : 0 < 8 * w := by omega
  induction l generalizing p with
  | nil => simp [bitAt]
  | cons v l ih =>
    rw [List.flatMap_cons, bitAt_append, natToLe_length]
    by_cases hp : p < 8 * w
    · rw [if_pos hp, bitAt_natToLe, Nat.div_eq_of_lt hp, Nat.mod_eq_of_lt hp]
      have : p < 8 * w * (l.length + 1) :=
        calc p < 8 * w := hp
          _ ≤ 8 * w * (l.length + 1) := Nat.le_mul_of_pos_right _ (by omega)
      rw [List.length_cons, decide_eq_true hp, decide_eq_true this, List.getD_cons_zero]
    · rw [if_neg hp, ih]
      have hle : 8 * w ≤ p := Nat.le_of_not_lt hp
      rw [Nat.div_eq_sub_div hW hle, Nat.mod_eq_sub_mod hle, List.getD_cons_succ]
      congr 1
      simp only [List.length_cons, decide_eq_decide]
      rw [Nat.mul_add, Nat.mul_one]
      omega

/-! ### well-formed messages and the main equality -/

/-- `Round1Output` as the Rust type has it: 64 rows of 80 bytes, 16 bytes, 256 rows of 16 bytes -/
structure Round1Output.WF (m : Round1Output) : Prop where
  ulen : m.u.length = LAMBDA_C_DIV_SOFT_SPOKEN_K
  ulo : ∀ r ∈ m.u, r < 2 ^ (8 * L_PRIME_BYTES)
  xlo : m.x < 2 ^ (8 * S_BYTES)
  tlen : m.t.length = LAMBDA_C
  tlo : ∀ r ∈ m.t, r < 2 ^ (8 * S_BYTES)

theorem testBit_getD_of_lt (l : List ℕ) (n : ℕ) (h : ∀ r ∈ l, r < 2 ^ n) (i p : ℕ) (hp : n ≤ p) :
    (l.getD i 0).testBit p = false := by
  by_cases hi : i < l.length
  · rw [List.getD_eq_getElem _ _ hi]
    exact Nat.testBit_lt_two_pow (lt_of_lt_of_le (h _ (List.getElem_mem hi)) (Nat.pow_le_pow_right (by norm_num) hp))
  · rw [List.getD_eq_default _ _ (by omega), Nat.zero_testBit]

theorem list_ext_testBit (a b : List ℕ) (hlen : a.length = b.length)
    (h : ∀ i p, (a.getD i 0).testBit p = (b.getD i 0).testBit p) : a = b := by
  apply List.ext_getElem hlen
  intro i h1 h2
  have := Nat.eq_of_testBit_eq (h i)
  rwa [List.getD_eq_getElem _ _ h1, List.getD_eq_getElem _ _ h2] at this

theorem getD_set (l : List ℕ) (i j v : ℕ) :
    (l.set i v).getD j 0 = if i = j ∧ j < l.length then v else l.getD j 0 := by
  rw [getD_eq, getD_eq, List.getElem?_set]
  by_cases hij : i = j
  · subst hij
    by_cases hl : i < l.length
    · simp [hl]
    · simp [hl]
  · simp [hij]

section main
variable (m : Round1Output) (hm : m.WF)
include hm

/-- the three regions of the serialized message, bit by bit -/
theorem bitAt_serialize (p : ℕ) :
    bitAt m.serialize p =
      if p < 40960 then (m.u.getD (p / 640) 0).testBit (p % 640)
      else if p < 41088 then m.x.testBit (p - 40960)
      else (decide (p < 73856) && (m.t.getD ((p - 41088) / 128) 0).testBit ((p - 41088) % 128)) := by
  have hul : m.u.length = 64 := hm.ulen
  have htl : m.t.length = 256 := hm.tlen
  unfold Round1Output.serialize
  have hL : L_PRIME_BYTES = 80 := rfl
  have hS : S_BYTES = 16 := rfl
  rw [hL, hS, bitAt_append, bitAt_append, List.length_append, length_flatMap_natToLe, natToLe_length, hul]
  by_cases h1 : p < 40960
  · have h1a : p < 8 * (80 * 64 + 16) := by omega
    have h1b : p < 8 * (80 * 64) := by omega
    have h1c : p < 8 * 80 * 64 := by omega
    rw [if_pos h1a, if_pos h1b, if_pos h1, bitAt_flatMap 80 (by norm_num), hul, decide_eq_true h1c,
      Bool.true_and]
  · rw [if_neg h1]
    by_cases h2 : p < 41088
    · have h2a : p < 8 * (80 * 64 + 16) := by omega
      have h2b : ¬ p < 8 * (80 * 64) := by omega
      have h3 : p - 8 * (80 * 64) < 8 * 16 := by omega
      rw [if_pos h2a, if_neg h2b, if_pos h2, bitAt_natToLe, decide_eq_true h3, Bool.true_and]
    · have h2a : ¬ p < 8 * (80 * 64 + 16) := by omega
      rw [if_neg h2a, if_neg h2, bitAt_flatMap 16 (by norm_num), htl]
      have e1 : p - 8 * (80 * 64 + 16) = p - 41088 := by omega
      have e2 : decide (p - 41088 < 8 * 16 * 256) = decide (p < 73856) :=
        decide_eq_decide.mpr ⟨fun h => by omega, fun h => by omega⟩
      rw [e1, e2, if_neg h1]

omit hm in
theorem serialize_ok : BytesOk m.serialize := by
  unfold Round1Output.serialize
  exact ((flatMap_ok _ _).append (natToLe_ok _ _)).append (flatMap_ok _ _)

theorem length_serialize : m.serialize.length = 9232 := by
  have hul : m.u.length = 64 := hm.ulen
  have htl : m.t.length = 256 := hm.tlen
  unfold Round1Output.serialize
  have hL : L_PRIME_BYTES = 80 := rfl
  have hS : S_BYTES = 16 := rfl
  rw [hL, hS, List.length_append, List.length_append, length_flatMap_natToLe, length_flatMap_natToLe,
    natToLe_length, hul, htl]

set_option exponentiation.threshold 1024 in
/-- **the structural flip is the byte-level flip** -/
theorem tamperBit_eq_fast (pos : ℕ) (hpos : pos < 8 * R1_BYTES) : tamperBit m pos = tamperBitFast m pos := by
  have hR : 8 * R1_BYTES = 73856 := rfl
  rw [hR] at hpos
  have hul : m.u.length = 64 := hm.ulen
  have htl : m.t.length = 256 := hm.tlen
  have hulo : ∀ r ∈ m.u, r < 2 ^ 640 := hm.ulo
  have htlo : ∀ r ∈ m.t, r < 2 ^ 128 := hm.tlo
  have hxlo : m.x < 2 ^ 128 := hm.xlo
  have hlen := length_serialize m hm
  have hok : BytesOk (flipBit m.serialize pos) := (serialize_ok m).flipBit pos
  have hbit : ∀ p, bitAt (flipBit m.serialize pos) p = (bitAt m.serialize p ^^ decide (p = pos)) :=
    fun p => bitAt_flipBit _ _ _ (by rw [hlen]; omega)
  -- the three parsed fields, bit by bit
  have hU : ∀ i p, ((chunkRows 80 64 (flipBit m.serialize pos)).getD i 0).testBit p
      = ((m.u.getD i 0).testBit p ^^ decide (i < 64 ∧ p < 640 ∧ 640 * i + p = pos)) := by
    intro i p
    rw [chunkRows_testBit _ _ _ hok, hbit, bitAt_serialize m hm]
    by_cases hi : i < 64
    · by_cases hp : p < 8 * 80
      · have h1 : 8 * 80 * i + p < 40960 := by omega
        have h2 : (8 * 80 * i + p) / 640 = i := by omega
        have h3 : (8 * 80 * i + p) % 640 = p := by omega
        have e : decide (8 * 80 * i + p = pos) = decide (i < 64 ∧ p < 640 ∧ 640 * i + p = pos) :=
          decide_eq_decide.mpr ⟨fun h => ⟨hi, by omega, by omega⟩, fun h => by omega⟩
        rw [if_pos h1, h2, h3, decide_eq_true hi, decide_eq_true hp, Bool.true_and, Bool.true_and, e]
      · have hB : (m.u.getD i 0).testBit p = false := testBit_getD_of_lt _ 640 hulo i p (by omega)
        have hE : ¬ (i < 64 ∧ p < 640 ∧ 640 * i + p = pos) := fun h => by omega
        rw [decide_eq_false hp, Bool.false_and, Bool.and_false, hB, decide_eq_false hE, Bool.xor_false]
    · have hB : (m.u.getD i 0).testBit p = false := by
        rw [List.getD_eq_default _ _ (by omega), Nat.zero_testBit]
      have hE : ¬ (i < 64 ∧ p < 640 ∧ 640 * i + p = pos) := fun h => by omega
      rw [decide_eq_false hi, Bool.false_and, hB, decide_eq_false hE, Bool.xor_false]
  have hT : ∀ i p, ((chunkRows 16 256 ((flipBit m.serialize pos).drop (64 * 80 + 16))).getD i 0).testBit p
      = ((m.t.getD i 0).testBit p ^^ decide (i < 256 ∧ p < 128 ∧ 41088 + 128 * i + p = pos)) := by
    intro i p
    rw [chunkRows_testBit _ _ _ (hok.drop _), bitAt_drop, hbit, bitAt_serialize m hm]
    by_cases hi : i < 256
    · by_cases hp : p < 8 * 16
      · have h1 : ¬ 8 * (64 * 80 + 16) + (8 * 16 * i + p) < 40960 := by omega
        have h2 : ¬ 8 * (64 * 80 + 16) + (8 * 16 * i + p) < 41088 := by omega
        have h3 : 8 * (64 * 80 + 16) + (8 * 16 * i + p) < 73856 := by omega
        have h4 : (8 * (64 * 80 + 16) + (8 * 16 * i + p) - 41088) / 128 = i := by omega
        have h5 : (8 * (64 * 80 + 16) + (8 * 16 * i + p) - 41088) % 128 = p := by omega
        have e : decide (8 * (64 * 80 + 16) + (8 * 16 * i + p) = pos)
            = decide (i < 256 ∧ p < 128 ∧ 41088 + 128 * i + p = pos) :=
          decide_eq_decide.mpr ⟨fun h => ⟨hi, by omega, by omega⟩, fun h => by omega⟩
        rw [if_neg h1, if_neg h2, h4, h5, decide_eq_true h3, decide_eq_true hi, decide_eq_true hp, Bool.true_and,
          Bool.true_and, Bool.true_and, e]
      · have hB : (m.t.getD i 0).testBit p = false := testBit_getD_of_lt _ 128 htlo i p (by omega)
        have hE : ¬ (i < 256 ∧ p < 128 ∧ 41088 + 128 * i + p = pos) := fun h => by omega
        rw [decide_eq_false hp, Bool.false_and, Bool.and_false, hB, decide_eq_false hE, Bool.xor_false]
    · have hB : (m.t.getD i 0).testBit p = false := by
        rw [List.getD_eq_default _ _ (by omega), Nat.zero_testBit]
      have hE : ¬ (i < 256 ∧ p < 128 ∧ 41088 + 128 * i + p = pos) := fun h => by omega
      rw [decide_eq_false hi, Bool.false_and, hB, decide_eq_false hE, Bool.xor_false]
  have hX : ∀ p, (leToNat (((flipBit m.serialize pos).drop (64 * 80)).take 16)).testBit p
      = (m.x.testBit p ^^ decide (p < 128 ∧ 40960 + p = pos)) := by
    intro p
    rw [leToNat_testBit' _ ((hok.drop _).take _), bitAt_take, bitAt_drop, hbit, bitAt_serialize m hm]
    by_cases hp : p < 8 * 16
    · have h1 : ¬ 8 * (64 * 80) + p < 40960 := by omega
      have h2 : 8 * (64 * 80) + p < 41088 := by omega
      have h3 : 8 * (64 * 80) + p - 40960 = p := by omega
      have e : decide (8 * (64 * 80) + p = pos) = decide (p < 128 ∧ 40960 + p = pos) :=
        decide_eq_decide.mpr ⟨fun h => ⟨by omega, by omega⟩, fun h => by omega⟩
      rw [if_neg h1, if_pos h2, h3, decide_eq_true hp, Bool.true_and, e]
    · have hB : m.x.testBit p = false :=
        Nat.testBit_lt_two_pow (lt_of_lt_of_le hxlo (Nat.pow_le_pow_right (by norm_num) (by omega)))
      have hE : ¬ (p < 128 ∧ 40960 + p = pos) := fun h => by omega
      rw [decide_eq_false hp, Bool.false_and, hB, decide_eq_false hE, Bool.xor_false]
  -- assemble
  unfold tamperBit tamperBitFast Round1Output.parse
  have c1 : LAMBDA_C_DIV_SOFT_SPOKEN_K = 64 := rfl
  have c2 : L_PRIME_BYTES = 80 := rfl
  have c3 : S_BYTES = 16 := rfl
  have c4 : LAMBDA_C = 256 := rfl
  simp only [c1, c2, c3, c4]
  have spike : ∀ (k q : ℕ), (1 <<< k : ℕ).testBit q = decide (k = q) := by
    intro k q; rw [Nat.one_shiftLeft, Nat.testBit_two_pow]
  have hUsame : (¬ pos < 8 * (64 * 80)) → chunkRows 80 64 (flipBit m.serialize pos) = m.u := by
    intro r1
    apply list_ext_testBit
    · rw [length_chunkRows, hul]
    · intro i p
      have hE : ¬ (i < 64 ∧ p < 640 ∧ 640 * i + p = pos) := fun h => by omega
      rw [hU, decide_eq_false hE, Bool.xor_false]
  have hTsame : (pos < 8 * (64 * 80) + 8 * 16) →
      chunkRows 16 256 ((flipBit m.serialize pos).drop (64 * 80 + 16)) = m.t := by
    intro r2
    apply list_ext_testBit
    · rw [length_chunkRows, htl]
    · intro i p
      have hE : ¬ (i < 256 ∧ p < 128 ∧ 41088 + 128 * i + p = pos) := fun h => by omega
      rw [hT, decide_eq_false hE, Bool.xor_false]
  have hXsame : (¬ (8 * (64 * 80) ≤ pos ∧ pos < 8 * (64 * 80) + 8 * 16)) →
      leToNat (((flipBit m.serialize pos).drop (64 * 80)).take 16) = m.x := by
    intro r
    apply Nat.eq_of_testBit_eq
    intro p
    have hE : ¬ (p < 128 ∧ 40960 + p = pos) := fun h => by omega
    rw [hX, decide_eq_false hE, Bool.xor_false]
  by_cases r1 : pos < 8 * (64 * 80)
  · rw [if_pos r1, hTsame (by omega), hXsame (by omega)]
    have : chunkRows 80 64 (flipBit m.serialize pos)
        = m.u.set (pos / (8 * 80)) (m.u.getD (pos / (8 * 80)) 0 ^^^ 1 <<< (pos % (8 * 80))) := by
      apply list_ext_testBit
      · rw [length_chunkRows, List.length_set, hul]
      · intro i p
        rw [hU, getD_set, hul]
        by_cases hi : pos / (8 * 80) = i ∧ i < 64
        · have e : decide (i < 64 ∧ p < 640 ∧ 640 * i + p = pos) = decide (pos % (8 * 80) = p) :=
            decide_eq_decide.mpr ⟨fun h => by omega, fun h => ⟨by omega, by omega, by omega⟩⟩
          rw [if_pos hi, Nat.testBit_xor, spike, hi.1, e]
        · have hE : ¬ (i < 64 ∧ p < 640 ∧ 640 * i + p = pos) := fun h => hi (by omega)
          rw [if_neg hi, decide_eq_false hE, Bool.xor_false]
    rw [this]
  · rw [if_neg r1, hUsame r1]
    by_cases r2 : pos < 8 * (64 * 80) + 8 * 16
    · rw [if_pos r2, hTsame r2]
      have : leToNat (((flipBit m.serialize pos).drop (64 * 80)).take 16)
          = m.x ^^^ 1 <<< (pos - 8 * (64 * 80)) := by
        apply Nat.eq_of_testBit_eq
        intro p
        have e : decide (p < 128 ∧ 40960 + p = pos) = decide (pos - 8 * (64 * 80) = p) :=
          decide_eq_decide.mpr ⟨fun h => by omega, fun h => ⟨by omega, by omega⟩⟩
        rw [hX, Nat.testBit_xor, spike, e]
      rw [this]
    · rw [if_neg r2, hXsame (by omega)]
      have : chunkRows 16 256 ((flipBit m.serialize pos).drop (64 * 80 + 16))
          = m.t.set ((pos - 8 * (64 * 80) - 8 * 16) / (8 * 16))
              (m.t.getD ((pos - 8 * (64 * 80) - 8 * 16) / (8 * 16)) 0 ^^^
                1 <<< ((pos - 8 * (64 * 80) - 8 * 16) % (8 * 16))) := by
        apply list_ext_testBit
        · rw [length_chunkRows, List.length_set, htl]
        · intro i p
          rw [hT, getD_set, htl]
          by_cases hi : (pos - 8 * (64 * 80) - 8 * 16) / (8 * 16) = i ∧ i < 256
          · have e : decide (i < 256 ∧ p < 128 ∧ 41088 + 128 * i + p = pos)
                = decide ((pos - 8 * (64 * 80) - 8 * 16) % (8 * 16) = p) :=
              decide_eq_decide.mpr ⟨fun h => by omega, fun h => ⟨by omega, by omega, by omega⟩⟩
            rw [if_pos hi, Nat.testBit_xor, spike, hi.1, e]
          · have hE : ¬ (i < 256 ∧ p < 128 ∧ 41088 + 128 * i + p = pos) := fun h => hi (by omega)
            rw [if_neg hi, decide_eq_false hE, Bool.xor_false]
      rw [this]

end main

end SlVerif.SoftSpoken
