import SlVerif.Model.Field
import Mathlib.Algebra.Field.Defs
import Mathlib.Algebra.BigOperators.Group.List.Basic
/-
  The model's `FieldOps` interface interpreted in an arbitrary Mathlib field.
  All algebraic models (`SlVerif.Mat`, …) are reasoned about at this instance; the simp lemmas below rewrite every
  interface operation into the corresponding field operation.
-/
namespace SlVerif

instance FieldOps.ofField {F : Type} [Field F] [DecidableEq F] : FieldOps F where
  zero := 0
  one := 1
  add a b := a + b
  neg a := -a
  sub a b := a - b
  mul a b := a * b
  inv a := a⁻¹
  ofNat n := (n : F)
  isZero x := decide (x = 0)

namespace FieldOps
variable {F : Type} [Field F] [DecidableEq F]

@[simp] theorem ofField_zero : (FieldOps.zero : F) = 0 := rfl
@[simp] theorem ofField_one : (FieldOps.one : F) = 1 := rfl
@[simp] theorem ofField_add (a b : F) : FieldOps.add a b = a + b := rfl
@[simp] theorem ofField_neg (a : F) : FieldOps.neg a = -a := rfl
@[simp] theorem ofField_sub (a b : F) : FieldOps.sub a b = a - b := rfl
@[simp] theorem ofField_mul (a b : F) : FieldOps.mul a b = a * b := rfl
@[simp] theorem ofField_inv (a : F) : FieldOps.inv a = a⁻¹ := rfl
@[simp] theorem ofField_ofNat (n : Nat) : (FieldOps.ofNat n : F) = (n : F) := rfl
@[simp] theorem ofField_isZero (a : F) : FieldOps.isZero a = decide (a = 0) := rfl

theorem ofField_isZero_eq_true (a : F) : FieldOps.isZero a = true ↔ a = 0 := by simp
theorem ofField_isZero_eq_false (a : F) : FieldOps.isZero a = false ↔ a ≠ 0 := by simp

@[simp] theorem ofField_pow (x : F) (n : Nat) : FieldOps.pow x n = x ^ n := by
  induction n with
  | zero => simp [FieldOps.pow]
  | succ n ih => simp [FieldOps.pow, ih, pow_succ]

@[simp] theorem ofField_sum (l : List F) : FieldOps.sum l = l.sum := by
  unfold FieldOps.sum
  rw [List.sum_eq_foldl]
  rfl

end FieldOps
end SlVerif
