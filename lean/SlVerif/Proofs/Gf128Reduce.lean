import SlVerif.Proofs.Gf128
/-
  C19 helper lemmas, part 2: the byte-wise reduction loop (`foldByte`, `reduce`),
  the bit-serial reference (`xtime`, `specMulAux`) and the little-endian byte layout.
-/
open Polynomial

namespace SlVerif.C19
open SlVerif SlVerif.Gf SlVerif.Generated

/-! ### one step of the reduction loop -/

/-- the u8-truncated low taps `c[i-16] ^= c[i] << s` of the code, for a byte value `y` -/
def tapLo (y : ℕ) : ℕ := GF_TAPS_LOW.foldl (fun acc s => acc ^^^ ((y <<< s) &&& 0xff)) 0
/-- the high taps `c[i-15] ^= c[i] >> s` of the code, for a byte value `y` -/
def tapHi (y : ℕ) : ℕ := GF_TAPS_HIGH.foldl (fun acc s => acc ^^^ (y >>> s)) 0

theorem foldByte_eq (c i : ℕ) :
    foldByte c i
      = (c ^^^ (tapLo ((c >>> (8 * i)) &&& 0xff) <<< (8 * (i - 16))))
          ^^^ (tapHi ((c >>> (8 * i)) &&& 0xff) <<< (8 * (i - 15))) := rfl

/-- The seven u8 statements of the loop body, taken together, XOR the 15-bit value
    `y ^ y<<1 ^ y<<2 ^ y<<7` at byte `i-16`.  Checked for every byte value with the taps that the
    translator read from the Rust source (`GF_TAPS_LOW`, `GF_TAPS_HIGH`). -/
theorem taps_spec : ∀ y < 256,
    tapLo y ^^^ (tapHi y <<< 8) = y ^^^ (y <<< 1) ^^^ (y <<< 2) ^^^ (y <<< 7)
      ∧ tapLo y ^^^ (tapHi y <<< 8) < 2 ^ 16 := by
  decide +kernel

theorem toPoly_taps {y : ℕ} (hy : y < 256) :
    toPoly (tapLo y ^^^ (tapHi y <<< 8)) = toPoly y * Q := by
  rw [(taps_spec y hy).1]
  simp only [toPoly_xor, toPoly_shiftLeft, Q]
  ring

theorem byte_eq (c s : ℕ) : (c >>> s) &&& 0xff = c / 2 ^ s % 2 ^ 8 := by
  rw [Nat.shiftRight_eq_div_pow]
  exact Nat.and_two_pow_sub_one_eq_mod _ 8

/-- Nat-level normal form of a fold step: XOR of one 16-bit word at byte `i-16` -/
theorem foldByte_eq_xor (c i : ℕ) (hi : 16 ≤ i) :
    foldByte c i
      = c ^^^ ((tapLo (c / 2 ^ (8 * i) % 2 ^ 8) ^^^ (tapHi (c / 2 ^ (8 * i) % 2 ^ 8) <<< 8))
                <<< (8 * (i - 16))) := by
  rw [foldByte_eq, byte_eq]
  have h15 : 8 * (i - 15) = 8 + 8 * (i - 16) := by omega
  rw [h15, Nat.shiftLeft_add, Nat.xor_assoc, ← Nat.shiftLeft_xor_distrib]

/-- The invariant of the reduction loop.  Write `lowᵢ(c) = c % 2^(8i)` (bytes `0..i-1`).  Folding
    byte `i` maps the value of bytes `0..i` to a congruent value held in bytes `0..i-1`:
    the bytes at index `≥ i` (never cleared by the code) are simply not part of the value any more. -/
theorem foldByte_step (c i : ℕ) (hi : 16 ≤ i) :
    toPoly (foldByte c i % 2 ^ (8 * i)) %ₘ P = toPoly (c % 2 ^ (8 * (i + 1))) %ₘ P := by
  obtain ⟨y, hy⟩ : ∃ y, y = c / 2 ^ (8 * i) % 2 ^ 8 := ⟨_, rfl⟩
  have hy256 : y < 256 := by rw [hy]; exact Nat.mod_lt _ (by norm_num)
  have hs : 8 * (i - 16) + 128 = 8 * i := by omega
  -- left: low bytes of the folded value
  have hG : (tapLo y ^^^ (tapHi y <<< 8)) <<< (8 * (i - 16)) < 2 ^ (8 * i) := by
    rw [Nat.shiftLeft_eq]
    calc (tapLo y ^^^ (tapHi y <<< 8)) * 2 ^ (8 * (i - 16))
        < 2 ^ 16 * 2 ^ (8 * (i - 16)) :=
          Nat.mul_lt_mul_of_pos_right (taps_spec y hy256).2 (Nat.two_pow_pos _)
      _ = 2 ^ (16 + 8 * (i - 16)) := (pow_add 2 16 _).symm
      _ ≤ 2 ^ (8 * i) := Nat.pow_le_pow_right (by norm_num) (by omega)
  have hL : toPoly (foldByte c i % 2 ^ (8 * i))
      = toPoly (c % 2 ^ (8 * i)) + X ^ (8 * (i - 16)) * toPoly y * Q := by
    rw [foldByte_eq_xor c i hi, ← hy, Nat.xor_mod_two_pow, Nat.mod_eq_of_lt hG, toPoly_xor,
      toPoly_shiftLeft, toPoly_taps hy256, mul_assoc]
  -- right: low bytes plus byte i
  have hR : toPoly (c % 2 ^ (8 * (i + 1)))
      = toPoly (c % 2 ^ (8 * i)) + X ^ (8 * (i - 16)) * toPoly y * X ^ 128 := by
    have h1 : 8 * (i + 1) = 8 * i + 8 := by omega
    have hmod : c % 2 ^ (8 * (i + 1)) = 2 ^ (8 * i) * y + c % 2 ^ (8 * i) := by
      rw [h1, Nat.pow_add, Nat.mod_mul, Nat.add_comm, hy]
    have hlt : c % 2 ^ (8 * i) < 2 ^ (8 * i) := Nat.mod_lt _ (Nat.two_pow_pos _)
    have hX : (X : (ZMod 2)[X]) ^ (8 * i) = X ^ (8 * (i - 16)) * X ^ 128 := by
      rw [← pow_add, hs]
    rw [hmod, toPoly_two_pow_mul_add y hlt, hX, mul_right_comm]
  rw [hL, hR]
  exact modP_Q_mul _ _

theorem fold_reverse_range' (n c : ℕ) :
    toPoly ((List.range' 16 n).reverse.foldl foldByte c % 2 ^ 128) %ₘ P
      = toPoly (c % 2 ^ (8 * (16 + n))) %ₘ P := by
  induction n generalizing c with
  | zero => simp
  | succ n ih =>
    rw [List.range'_concat, List.reverse_append, List.reverse_singleton, List.singleton_append,
      List.foldl_cons, ih, Nat.one_mul]
    exact foldByte_step c (16 + n) (by omega)

theorem reduce_eq (c : ℕ) :
    reduce c = (List.range' 16 16).reverse.foldl foldByte c % 2 ^ 128 := rfl

theorem reduce_lt (c : ℕ) : reduce c < 2 ^ 128 := by
  rw [reduce_eq]; exact Nat.mod_lt _ (Nat.two_pow_pos _)

/-- `reduce` is reduction modulo `P` on 32-byte inputs -/
theorem toPoly_reduce (c : ℕ) (hc : c < 2 ^ 256) : toPoly (reduce c) = toPoly c %ₘ P := by
  rw [← modP_self_of_lt (reduce_lt c), reduce_eq, fold_reverse_range' 16 c,
    Nat.mod_eq_of_lt (by simpa using hc)]

/-! ### the bit-serial reference -/

theorem xtime_lt {b : ℕ} (hb : b < 2 ^ 128) : xtime b < 2 ^ 128 := by
  have hb2 : b <<< 1 < 2 ^ 129 := by
    rw [Nat.shiftLeft_eq, pow_succ]; exact Nat.mul_lt_mul_of_pos_right hb (by norm_num)
  unfold xtime
  simp only
  apply Nat.lt_pow_two_of_testBit
  intro i hi
  split
  · rename_i h
    rw [Nat.testBit_xor, Nat.testBit_xor, Nat.one_shiftLeft, Nat.testBit_two_pow,
      testBit_false_of_lt_of_le (show 0x87 < 2 ^ 128 by norm_num) hi]
    rcases Nat.eq_or_lt_of_le hi with rfl | hlt
    · simp [h]
    · have : (b <<< 1).testBit i = false := testBit_false_of_lt_of_le hb2 hlt
      have hne : ¬ (128 = i) := by omega
      simp [this, hne]
  · rename_i h
    rcases Nat.eq_or_lt_of_le hi with rfl | hlt
    · simpa using h
    · exact testBit_false_of_lt_of_le hb2 hlt

theorem toPoly_xtime_modP (b : ℕ) : toPoly (xtime b) %ₘ P = (X * toPoly b) %ₘ P := by
  unfold xtime
  simp only
  split
  · rw [toPoly_xor, toPoly_xor, toPoly_shiftLeft, Nat.one_shiftLeft, toPoly_two_pow, toPoly_0x87,
      pow_one, add_assoc, ← P_eq]
    apply modByMonic_eq_of_dvd_sub P_monic
    rw [add_sub_cancel_left]
  · rw [toPoly_shiftLeft, pow_one]

/-- bits `0..i-1` of `a` as a polynomial -/
noncomputable def lowPoly (a i : ℕ) : (ZMod 2)[X] :=
  ∑ t ∈ Finset.range i, if a.testBit t then X ^ t else 0

theorem specMulAux_spec (a : ℕ) (B : (ZMod 2)[X]) :
    ∀ (n i b acc : ℕ), b < 2 ^ 128 → acc < 2 ^ 128 →
      toPoly b %ₘ P = (X ^ i * B) %ₘ P →
      toPoly acc %ₘ P = (lowPoly a i * B) %ₘ P →
      specMulAux n i a b acc < 2 ^ 128 ∧
        toPoly (specMulAux n i a b acc) %ₘ P = (lowPoly a (i + n) * B) %ₘ P := by
  intro n
  induction n with
  | zero => intro i b acc _ hacc _ h; exact ⟨hacc, h⟩
  | succ n ih =>
    intro i b acc hb hacc hbi hai
    have hidx : i + (n + 1) = i + 1 + n := by omega
    rw [hidx]
    show specMulAux n (i + 1) a (xtime b) (if a.testBit i then acc ^^^ b else acc) < 2 ^ 128 ∧ _
    apply ih (i + 1) (xtime b) _ (xtime_lt hb)
    · split
      · exact Nat.xor_lt_two_pow hacc hb
      · exact hacc
    · rw [toPoly_xtime_modP, pow_succ', mul_assoc]
      exact modP_mul_congr rfl hbi
    · unfold lowPoly
      rw [Finset.sum_range_succ, add_mul]
      split
      · rw [toPoly_xor]
        exact modP_add_congr hai hbi
      · rw [zero_mul, add_zero]; exact hai

theorem specMul_eq (a b : ℕ) (hb : b < 2 ^ 128) : specMul a b = specMulAux 128 0 a b 0 := by
  unfold specMul; rw [Nat.mod_eq_of_lt hb]

/-! ### byte layout -/

theorem leToNat_testBit (bs : List ℕ) (hb : ∀ x ∈ bs, x < 256) (j i : ℕ)
    (hj : j < bs.length) (hi : i < 8) :
    (leToNat bs).testBit (8 * j + i) = (bs[j]).testBit i := by
  induction bs generalizing j with
  | nil => simp at hj
  | cons b bs ih =>
    have hb0 : b < 2 ^ 8 := hb b (by simp)
    have : leToNat (b :: bs) = 2 ^ 8 * leToNat bs + b := by
      show b + 256 * leToNat bs = _
      rw [add_comm]; rfl
    rw [this, Nat.testBit_two_pow_mul_add _ hb0]
    cases j with
    | zero => simp [hi]
    | succ j =>
      have h1 : ¬ (8 * (j + 1) + i < 8) := by omega
      have h2 : 8 * (j + 1) + i - 8 = 8 * j + i := by omega
      rw [if_neg h1, h2, List.getElem_cons_succ]
      exact ih (fun x hx => hb x (List.mem_cons_of_mem _ hx)) j (by simpa using hj)

end SlVerif.C19
