import SlVerif.Proofs.VerEncModel
/-
  C09 helper lemmas: completeness of `encrypt_with_proof` (honest proofs verify and decrypt to `x`) at `m := Id`, under
  the assumptions `CurveOracle` (group laws), `RsaOracle` (PKCS#1 v1.5 decrypts what it encrypted), `ShaSized`
  (32-byte digests), label integer coprime to the modulus, `2^256 ≤ n`.
-/
namespace SlVerif.VerEnc
open SlVerif

/-! ### nonces -/

theorem tapeScalarRandom_lt (fuel : ℕ) (t : Tape) : (Tape.scalarRandom fuel t).1 < secpQ := by
  induction fuel generalizing t with
  | zero => simp only [Tape.scalarRandom]; decide
  | succ k ih =>
    simp only [Tape.scalarRandom]
    split
    · assumption
    · exact ih _

theorem scalarRandom_lt {cp : CurveParams} (hcp : cp = secp ∨ cp = ed) (t : Tape) : (scalarRandom cp t).1 < cp.order := by
  rcases hcp with rfl | rfl
  · exact tapeScalarRandom_lt 64 t
  · show leToNat (Tape.take t 64).1 % edL < edL
    exact Nat.mod_lt _ (by decide)

/-! ### one ciphertext -/

theorem encP_some {h : Query → Bytes} {key : Bytes} {B : ℕ} (hr : RsaOracle h key B) {n L : ℕ} (seed msg : Bytes)
    (hb : beToNat msg * L % n < B) :
    encP h key n L seed msg = some (h (.rsaEnc key seed (toBytesBE (beToNat msg * L % n)))) := by
  unfold encP
  have := hr.enc_ne seed _ hb
  rw [if_neg]
  cases hc : h (.rsaEnc key seed (toBytesBE (beToNat msg * L % n))) with
  | nil => exact absurd hc this
  | cons a b => simp

theorem encP_eq_some {h : Query → Bytes} {key : Bytes} {n L : ℕ} {seed msg ct : Bytes}
    (he : encP h key n L seed msg = some ct) : ct = h (.rsaEnc key seed (toBytesBE (beToNat msg * L % n))) := by
  unfold encP at he
  split at he
  · cases he
  · exact (Option.some.inj he).symm

theorem reprInt_lt {cp : CurveParams} (s : ℕ) : beToNat (cp.repr s) < 256 ^ cp.scalarLen := by
  have := beToNat_lt (cp.repr s) (repr_lt cp s)
  rwa [repr_length] at this

/-- decrypting an honest ciphertext of the scalar `s` gives `s` back — unconditionally after the padding repair (D9):
    short integer encodings are padded to the scalar width -/
theorem decryptValueP_enc {h : Query → Bytes} {cp : CurveParams} (hg : cp.Good) {key : Bytes} {B n L : ℕ}
    (hr : RsaOracle h key B) (hn : 256 ^ cp.scalarLen ≤ n) (hco : Nat.gcd L n = 1) {seed ct : Bytes} {s : ℕ}
    (hs : s < cp.order) (hb : beToNat (cp.repr s) * L % n < B) (he : encP h key n L seed (cp.repr s) = some ct) :
    decryptValueP h cp key n L ct = some s := by
  have hct := encP_eq_some he
  have hnpos : 0 < n := lt_of_lt_of_le (Nat.pow_pos (by norm_num)) hn
  obtain ⟨inv, hinv, _, hmod⟩ := modInv?_spec hnpos hco
  have hm : beToNat (cp.repr s) < n := lt_of_lt_of_le (reprInt_lt s) hn
  unfold decryptValueP
  rw [hct, hr.dec_enc seed _ hb]
  show (match modInv? L n with
    | none => none
    | some inv => decodeScalar cp (padLeft cp.scalarLen (toBytesBE (beToNat (toBytesBE (beToNat (cp.repr s) * L % n)) * inv % n)))) = some s
  rw [hinv]
  show decodeScalar cp (padLeft cp.scalarLen (toBytesBE (beToNat (toBytesBE (beToNat (cp.repr s) * L % n)) * inv % n))) = some s
  rw [toBytesBE_val, unlabel hm hmod, padLeft_toBytesBE hg.slen_pos (reprInt_lt s)]
  have := natToBe_beToNat (cp.repr s) (repr_lt cp s)
  rw [repr_length] at this
  rw [this, decodeScalar_repr hg hs]

theorem candidate_honest {o x r : ℕ} (hx : x < o) (hr : r < o) : ((x + r) % o + (o - r)) % o = x := by
  rw [Nat.mod_add_mod, show x + r + (o - r) = x + o by omega, Nat.add_mod_right, Nat.mod_eq_of_lt hx]

/-! ### the slots -/

/-- an honestly made slot -/
structure Honest (h : Query → Bytes) (cp : CurveParams) (x : ℕ) (key : Bytes) (n L : ℕ) (seed : Bytes) (md : Made) : Prop where
  r_lt : md.r < cp.order
  xr_eq : md.xr = (x + md.r) % cp.order
  gR : md.slot.gR = h (.ecMulGen cp.curve md.r)
  encR : encP h key n L seed (cp.repr md.r) = some md.slot.encR
  encXR : encP h key n L seed (cp.repr md.xr) = some md.slot.encXR

theorem makeSlots_spec {h : Query → Bytes} {cp : CurveParams} (hcp : cp = secp ∨ cp = ed) {key : Bytes} {B : ℕ}
    (hr : RsaOracle h key B) (x n L : ℕ) (seed : Bytes) (hB : ∀ s, beToNat (cp.repr s) * L % n < B) :
    ∀ (k : ℕ) (tape : Tape), ∃ made tape', Id.run (makeSlots (pureO h) cp x key n L seed k tape) = some (made, tape') ∧
      made.length = k ∧ ∀ md ∈ made, Honest h cp x key n L seed md := by
  intro k
  induction k with
  | zero => intro tape; exact ⟨[], tape, rfl, rfl, by simp⟩
  | succ k ih =>
    intro tape
    rw [makeSlots]
    have hlt := scalarRandom_lt hcp tape
    rcases hsr : scalarRandom cp tape with ⟨r, tape1⟩
    rw [hsr] at hlt
    obtain ⟨rest, tape2, hrest, hlen, hhon⟩ := ih tape1
    have e1 := encP_some hr seed (cp.repr r) (hB r)
    have e2 := encP_some hr seed (cp.repr ((x + r) % cp.order)) (hB _)
    dsimp only
    simp only [Id.run_bind, enc_id, e1, e2, hrest, mulGen, pureO, Id.run_pure]
    refine ⟨_, _, rfl, by simp [hlen], ?_⟩
    intro md hmd
    rcases List.mem_cons.1 hmd with rfl | hmd
    · exact ⟨hlt, rfl, rfl, e1, e2⟩
    · exact hhon md hmd

theorem extractBit_some {i : ℕ} (hi : i < 256) (ch : Bytes) : ∃ b, extractBit ch i = some b := by
  unfold extractBit; rw [if_pos (by omega)]; exact ⟨_, rfl⟩

theorem selectOpens_spec (ch : Bytes) : ∀ (made : List Made) (i : ℕ), i + made.length ≤ 256 →
    ∃ opens, selectOpens ch i made = some opens ∧ opens.length = made.length ∧
      ∀ j (hj : j < made.length), ∃ b, extractBit ch (i + j) = some b ∧
        opens[j]? = some (if b then made[j].xr else made[j].r) := by
  intro made
  induction made with
  | nil => intro i _; exact ⟨[], rfl, rfl, by intro j hj; simp at hj⟩
  | cons md rest ih =>
    intro i hi
    simp only [List.length_cons] at hi
    obtain ⟨b, hb⟩ := extractBit_some (show i < 256 by omega) ch
    obtain ⟨os, h1, h2, h3⟩ := ih (i + 1) (by omega)
    refine ⟨(if b then md.xr else md.r) :: os, ?_, by simp [h2], ?_⟩
    · rw [selectOpens, hb]; dsimp only; rw [h1]; rfl
    · intro j hj
      cases j with
      | zero => exact ⟨b, by simpa using hb, by simp⟩
      | succ j =>
        simp only [List.length_cons] at hj
        obtain ⟨b', hb', ho⟩ := h3 j (by omega)
        refine ⟨b', by rw [← hb']; congr 1; omega, ?_⟩
        simpa using ho

/-! ### the group side of a consistent slot -/

section
variable {h : Query → Bytes} {cp : CurveParams} {G : Type} [AddCommGroup G] (co : CurveOracle h cp G)

include co in
/-- canonicalising a canonical encoding does nothing -/
theorem canonP_canon {p : Bytes} (hp : co.Canon p) : canonP h cp p = p := by
  unfold canonP
  split
  · rfl
  · have hv := co.canon_valid hp
    have hi := co.canon_valid co.canon_identity
    apply co.dec_inj (co.canon_add hv hi) hp
    rw [co.add hv hi, co.dec_identity, add_zero]

include co in
/-- `canon` of a decodable encoding is canonical and denotes the same point -/
theorem canonP_valid {p : Bytes} (hv : co.Valid p) : co.Canon (canonP h cp p) ∧ co.dec (canonP h cp p) = co.dec p := by
  unfold canonP
  split
  · rename_i hc; exact ⟨co.secp_canon hc hv, rfl⟩
  · have hi := co.canon_valid co.canon_identity
    exact ⟨co.canon_add hv hi, by rw [co.add hv hi, co.dec_identity, add_zero]⟩

end

/-! ### `encrypt_with_proof` -/

/-- `encrypt_with_proof` at `m := Id` -/
def encryptP (h : Query → Bytes) (cp : CurveParams) (x : ℕ) (key : Bytes) (n : ℕ) (label : Bytes) (param : Option ℕ)
    (tape : Tape) : Res (Proof × Tape) :=
  Id.run (encryptWithProof (pureO h) cp x key n label param tape)

/-- security parameters outside `128..=256` are refused, whatever the oracle answers -/
theorem encryptP_refused (h : Query → Bytes) (cp : CurveParams) (x : ℕ) (key : Bytes) (n : ℕ) (label : Bytes)
    (param : Option ℕ) (tape : Tape) (hp : param.getD 128 < 128 ∨ 256 < param.getD 128) :
    encryptP h cp x key n label param tape = .err .invalidSizeParam := by
  unfold encryptP encryptWithProof
  dsimp only
  split
  · rfl
  · rename_i hc; exact absurd hp hc

theorem encryptP_eq (h : Query → Bytes) (cp : CurveParams) (x : ℕ) (key : Bytes) (n : ℕ) (label : Bytes)
    (param : Option ℕ) (tape : Tape) (hp : ¬ (param.getD 128 < 128 ∨ 256 < param.getD 128)) :
    encryptP h cp x key n label param tape =
      match Id.run (makeSlots (pureO h) cp x key n (labelIntP h label) (Tape.genArray tape 32).1 (param.getD 128)
              (Tape.genArray tape 32).2) with
      | none => .err .encError
      | some (made, tape') =>
        match selectOpens (chalP h (h (.ecMulGen cp.curve x)) label (made.map Made.slot)) 0 made with
        | none => .panic "extract_bit: index out of bounds"
        | some opens => .ok ({ seed := (Tape.genArray tape 32).1, slots := made.map Made.slot, opens := opens,
                               param := param.getD 128 }, tape') := by
  unfold encryptP encryptWithProof
  dsimp only
  split
  · rename_i hc; exact absurd hc hp
  simp only [SECURITY_PARAM, Id.run_bind, labelInt_id, mulGen, pureO, Id.run_pure]
  cases Id.run (makeSlots (fun q => pure (h q)) cp x key n (labelIntP h label) (Tape.genArray tape 32).1 (param.getD 128)
              (Tape.genArray tape 32).2) with
  | none => rfl
  | some mt =>
    obtain ⟨made, tape'⟩ := mt
    dsimp only
    simp only [Id.run_bind, challenge_id]
    cases selectOpens (chalP h (h (.ecMulGen cp.curve x)) label (made.map Made.slot)) 0 made <;> rfl

theorem labelIntP_lt {h : Query → Bytes} (hsha : ShaSized h) (label : Bytes) : labelIntP h label < 2 ^ 256 := by
  obtain ⟨hl, hb⟩ := hsha (ascii "SL-label-for-RSA" ++ label)
  have := beToNat_lt _ hb
  rw [hl] at this
  unfold labelIntP
  calc _ < 256 ^ 32 := this
    _ = 2 ^ 256 := by norm_num

/-- **completeness**: for the two curves, every reduced scalar `x`, label, key with `n ≥ 2^256` and label integer coprime
    to `n`, every permitted security parameter and every tape, `encrypt_with_proof` succeeds with a well-formed proof
    that verifies against `Q = x·G` and decrypts to `x`. -/
theorem complete_aux {h : Query → Bytes} {cp : CurveParams} (hcp : cp = secp ∨ cp = ed) {G : Type} [AddCommGroup G]
    (co : CurveOracle h cp G) {key : Bytes} (hr : RsaOracle h key (2 ^ 512)) (hsha : ShaSized h) {n : ℕ}
    (hn : 2 ^ 256 ≤ n) {label : Bytes} (hco : Nat.gcd (labelIntP h label) n = 1) {x : ℕ} (hx : x < cp.order)
    (param : Option ℕ) (hp : 128 ≤ param.getD 128 ∧ param.getD 128 ≤ 256) (tape : Tape) :
    ∃ p tape', encryptP h cp x key n label param tape = .ok (p, tape') ∧
      p.param = param.getD 128 ∧ p.slots.length = p.param ∧ p.opens.length = p.param ∧
      (∀ s ∈ p.opens, s < cp.order) ∧
      (p.seed.length = 32 ∧ ∀ s ∈ p.slots, (∃ r, s.gR = h (.ecMulGen cp.curve r)) ∧
        (∃ sd m, s.encXR = h (.rsaEnc key sd m)) ∧ (∃ sd m, s.encR = h (.rsaEnc key sd m))) ∧
      verifyP h cp p (h (.ecMulGen cp.curve x)) key n label = .ok () ∧
      decryptP h cp p (h (.ecMulGen cp.curve x)) key n label = .ok x := by
  have hg : cp.Good := by rcases hcp with rfl | rfl; exact secp_good; exact ed_good
  have hsl : cp.scalarLen = 32 := by rcases hcp with rfl | rfl <;> rfl
  have hL := labelIntP_lt hsha label
  have hB : ∀ s, beToNat (cp.repr s) * labelIntP h label % n < 2 ^ 512 := by
    intro s
    have h1 := reprInt_lt (cp := cp) s
    rw [hsl] at h1
    have h2 : beToNat (cp.repr s) * labelIntP h label < 2 ^ 512 := by
      calc beToNat (cp.repr s) * labelIntP h label < 256 ^ 32 * 2 ^ 256 := Nat.mul_lt_mul'' h1 hL
        _ = 2 ^ 512 := by rw [show (256 : ℕ) ^ 32 = 2 ^ 256 by norm_num, ← pow_add]
    exact lt_of_le_of_lt (Nat.mod_le _ _) h2
  have hn' : 256 ^ cp.scalarLen ≤ n := by rw [hsl]; calc (256 : ℕ) ^ 32 = 2 ^ 256 := by norm_num
    _ ≤ n := hn
  obtain ⟨made, tape', hmk, hlen, hhon⟩ := makeSlots_spec hcp hr x n (labelIntP h label) (Tape.genArray tape 32).1 hB
    (param.getD 128) (Tape.genArray tape 32).2
  obtain ⟨opens, hsel, holen, hopen⟩ := selectOpens_spec (chalP h (h (.ecMulGen cp.curve x)) label (made.map Made.slot))
    made 0 (by omega)
  refine ⟨{ seed := (Tape.genArray tape 32).1, slots := made.map Made.slot, opens := opens, param := param.getD 128 },
    tape', ?_, rfl, by simp [hlen], by simp [holen, hlen], ?_, ⟨by simp [Tape.genArray], ?_⟩, ?_, ?_⟩
  · rw [encryptP_eq h cp x key n label param tape (by omega), hmk]
    dsimp only
    rw [hsel]
  · -- opened scalars are reduced
    intro s hs
    obtain ⟨j, hj, rfl⟩ := List.getElem_of_mem hs
    have hj' : j < opens.length := hj
    obtain ⟨b, _, ho⟩ := hopen j (by omega)
    rw [List.getElem?_eq_getElem hj] at ho
    have hmd := hhon made[j] (List.getElem_mem _)
    have : opens[j] = if b = true then made[j].xr else made[j].r := Option.some.inj ho
    rw [this]
    split
    · rw [hmd.xr_eq]; exact Nat.mod_lt _ hg.order_pos
    · exact hmd.r_lt
  · -- the slots are honest
    intro s hs
    obtain ⟨md, hmd, rfl⟩ := List.mem_map.1 hs
    have hh := hhon md hmd
    exact ⟨⟨_, hh.gR⟩, ⟨_, _, encP_eq_some hh.encXR⟩, ⟨_, _, encP_eq_some hh.encR⟩⟩
  · -- verify
    rw [verifyP_eq, verifyFrom_ok_iff]
    intro j _ hj
    simp only [Nat.zero_add] at hj
    have hjm : j < made.length := by omega
    obtain ⟨b, hb, ho⟩ := hopen j hjm
    rw [Nat.zero_add] at hb
    have hmd := hhon made[j] (List.getElem_mem _)
    have hcan : co.Canon made[j].slot.gR := by rw [hmd.gR]; exact co.canon_mulGen _
    refine ⟨made[j].slot, _, b, if b = true then made[j].slot.encXR else made[j].slot.encR, ?_, ho, hb, ?_,
      (co.valid _).2 (co.canon_valid hcan), ?_, ?_⟩
    · simp [List.getElem?_map, List.getElem?_eq_getElem hjm]
    · cases b
      · simpa using hmd.encR
      · simpa using hmd.encXR
    · intro hbt
      subst hbt
      refine ⟨?_, by simp⟩
      simp only [if_true]
      rw [hmd.gR, co.add_mulGen x made[j].r, hmd.xr_eq]
    · intro hbf
      subst hbf
      refine ⟨?_, by simp⟩
      simp only [Bool.false_eq_true, if_false]
      rw [canonP_canon co hcan, hmd.gR]
  · -- decrypt: the first slot already gives x
    rw [decryptP_eq]
    dsimp only
    rw [if_neg (by simp [hlen])]
    cases made with
    | nil => simp at hlen; omega
    | cons md rest =>
      have hmd := hhon md (by simp)
      rw [List.map_cons, decryptSlots_cons]
      have hxr : md.xr < cp.order := by rw [hmd.xr_eq]; exact Nat.mod_lt _ hg.order_pos
      rw [decryptValueP_enc hg hr hn' hco hmd.r_lt (hB _) hmd.encR,
        decryptValueP_enc hg hr hn' hco hxr (hB _) hmd.encXR]
      dsimp only
      have hc : candidate cp md.r md.xr = x := by
        unfold candidate; rw [hmd.xr_eq]; exact candidate_honest hx hmd.r_lt
      rw [hc, if_pos (by simp)]

end SlVerif.VerEnc
