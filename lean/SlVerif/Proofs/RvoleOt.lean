import SlVerif.Proofs.Rvole
import SlVerif.Proofs.SoftSpokenRun
/-
  Base-OT variant (rvole_ot_variant.rs) at `m := Id`: the OT layer built from two Endemic base OTs.
  `KeyRel` is the base-OT correctness relation (the conclusion of C05 for one base OT, in the form C06 consumes it as
  `BaseOT.cons`): the receiver's key is the sender's key selected by its choice bit.
-/
namespace SlVerif.Rvole
open SlVerif SlVerif.Generated

/-- base-OT correctness for one Endemic exchange: no error on either side and, per instance, the receiver's key is the
    sender's key for its choice bit -/
structure KeyRel (bits : Bytes) (keys : List (Bytes × Bytes)) (rk : List Bytes) : Prop where
  rkLen : rk.length = LAMBDA_C
  keysLen : keys.length = LAMBDA_C
  cons : ∀ i < LAMBDA_C, rk.getD i [] =
    if Endemic.extractBit bits i = 0 then (keys.getD i ([], [])).1 else (keys.getD i ([], [])).2

theorem bitAt_eq_extractBit (bits : Bytes) (i : ℕ) : bitAt bits i = decide (Endemic.extractBit bits i = 1) := by
  unfold bitAt Endemic.extractBit
  rw [Nat.testBit_eq_decide_div_mod_eq, Nat.shiftRight_eq_div_pow]

theorem extractBit_le' (bits : Bytes) (i : ℕ) : Endemic.extractBit bits i ≤ 1 := by
  unfold Endemic.extractBit; omega

theorem getD_append_left' {α : Type} (l₁ l₂ : List α) (i : ℕ) (d : α) (hi : i < l₁.length) :
    (l₁ ++ l₂).getD i d = l₁.getD i d := by
  rw [List.getD_eq_getElem?_getD, List.getElem?_append_left hi, ← List.getD_eq_getElem?_getD]

theorem getD_append_right' {α : Type} (l₁ l₂ : List α) (i : ℕ) (d : α) (hi : l₁.length ≤ i) :
    (l₁ ++ l₂).getD i d = l₂.getD (i - l₁.length) d := by
  rw [List.getD_eq_getElem?_getD, List.getElem?_append_right hi, ← List.getD_eq_getElem?_getD]

/-- choice bit `j` of `beta = bits_a ++ bits_b` -/
theorem bitAt_append (ba bb : Bytes) (hla : ba.length = LAMBDA_C_BYTES) (j : ℕ) :
    bitAt (ba ++ bb) j = if j < LAMBDA_C then bitAt ba j else bitAt bb (j - LAMBDA_C) := by
  have h32 : LAMBDA_C_BYTES = 32 := rfl
  have h256 : LAMBDA_C = 256 := rfl
  unfold bitAt
  split
  · rename_i hj
    rw [getD_append_left' _ _ _ _ (by rw [hla, h32]; rw [h256] at hj; omega)]
  · rename_i hj
    rw [getD_append_right' _ _ _ _ (by rw [hla, h32]; rw [h256] at hj; omega), hla, h32, h256]
    rw [h256] at hj
    have e1 : (j - 256) / 8 = j / 8 - 32 := by omega
    have e2 : (j - 256) % 8 = j % 8 := by omega
    rw [e1, e2]

/-- the key the receiver holds for OT instance `j < XI` of the combined base OTs is the sender's key for bit `β_j` -/
theorem combined_keys (ba bb : Bytes) (ka kb : List Bytes) (sa sb : List (Bytes × Bytes))
    (hla : ba.length = LAMBDA_C_BYTES) (ha : KeyRel ba sa ka) (hb : KeyRel bb sb kb) (j : ℕ) (hj : j < XI) :
    (ka ++ kb).getD j [] =
      if bitAt (ba ++ bb) j then (((sa ++ sb).map (·.2)).getD j []) else (((sa ++ sb).map (·.1)).getD j []) := by
  have h256 : LAMBDA_C = 256 := rfl
  have hXI : XI = 512 := rfl
  have hlen : j < (sa ++ sb).length := by rw [List.length_append, ha.keysLen, hb.keysLen, h256]; rw [hXI] at hj; exact hj
  rw [getD_map' _ _ j ([], []) [] hlen, getD_map' _ _ j ([], []) [] hlen, bitAt_append ba bb hla]
  by_cases hlt : j < LAMBDA_C
  · rw [if_pos hlt, getD_append_left' _ _ _ _ (by rw [ha.rkLen]; exact hlt),
      getD_append_left' _ _ _ _ (by rw [ha.keysLen]; exact hlt), ha.cons j hlt, bitAt_eq_extractBit]
    have := extractBit_le' ba j
    by_cases h0 : Endemic.extractBit ba j = 0
    · rw [if_pos h0]; simp [h0]
    · rw [if_neg h0]; have h1 : Endemic.extractBit ba j = 1 := by omega
      simp [h1]
  · rw [if_neg hlt, getD_append_right' _ _ _ _ (by rw [ha.rkLen]; exact Nat.le_of_not_lt hlt),
      getD_append_right' _ _ _ _ (by rw [ha.keysLen]; exact Nat.le_of_not_lt hlt), ha.rkLen, ha.keysLen]
    have hj' : j - LAMBDA_C < LAMBDA_C := by rw [h256] at hlt ⊢; rw [hXI] at hj; omega
    rw [hb.cons _ hj', bitAt_eq_extractBit]
    have := extractBit_le' bb (j - LAMBDA_C)
    by_cases h0 : Endemic.extractBit bb (j - LAMBDA_C) = 0
    · rw [if_pos h0]; simp [h0]
    · rw [if_neg h0]; have h1 : Endemic.extractBit bb (j - LAMBDA_C) = 1 := by omega
      simp [h1]

section Id
variable (h : Query → Id Bytes)

theorem otExpand_id (sid : Bytes) (keys : List Bytes) :
    otExpand (m := Id) h sid keys =
      (List.range keys.length).map fun j =>
        SoftSpoken.challenges (m := Id) h [] KAPPA_BYTES OT_WIDTH (otRandT sid j (keys.getD j [])) := by
  unfold otExpand
  rw [SoftSpoken.tabulateM_id]

theorem otExpand_getD (sid : Bytes) (keys : List Bytes) (j : ℕ) (hj : j < keys.length) :
    (otExpand (m := Id) h sid keys).getD j [] =
      SoftSpoken.challenges (m := Id) h [] KAPPA_BYTES OT_WIDTH (otRandT sid j (keys.getD j [])) := by
  rw [otExpand_id, getD_map_range, if_pos hj]

/-- **the OT relation of the base-OT variant** from the base-OT key relation -/
theorem ot_layer_rel (sid : Bytes) (ba bb : Bytes) (ka kb : List Bytes) (sa sb : List (Bytes × Bytes))
    (hla : ba.length = LAMBDA_C_BYTES) (ha : KeyRel ba sa ka) (hb : KeyRel bb sb kb) :
    ∀ j < XI, ∀ i < L_BATCH_PLUS_RHO,
      ((otExpand (m := Id) h sid (ka ++ kb)).getD j []).getD i [] =
        if bitAt (ba ++ bb) j then ((otExpand (m := Id) h sid ((sa ++ sb).map (·.2))).getD j []).getD i []
        else ((otExpand (m := Id) h sid ((sa ++ sb).map (·.1))).getD j []).getD i [] := by
  intro j hj i _
  have h256 : LAMBDA_C = 256 := rfl
  have hXI : XI = 512 := rfl
  have hk : j < (ka ++ kb).length := by rw [List.length_append, ha.rkLen, hb.rkLen, h256]; rw [hXI] at hj; exact hj
  have hs1 : j < ((sa ++ sb).map (·.1)).length := by
    rw [List.length_map, List.length_append, ha.keysLen, hb.keysLen, h256]; rw [hXI] at hj; exact hj
  have hs2 : j < ((sa ++ sb).map (·.2)).length := by
    rw [List.length_map, List.length_append, ha.keysLen, hb.keysLen, h256]; rw [hXI] at hj; exact hj
  rw [otExpand_getD h sid _ j hk, otExpand_getD h sid _ j hs1, otExpand_getD h sid _ j hs2,
    combined_keys ba bb ka kb sa sb hla ha hb j hj]
  split <;> rfl

end Id
end SlVerif.Rvole

namespace SlVerif.Rvole
open SlVerif SlVerif.Generated

section Id2
variable (h : Query → Id Bytes)

/-- the key pairs of the two honest base OTs of the variant's sender, a's followed by b's -/
def senderKeysOt (sid : Bytes) (msg1 : Msg1) (tape : Tape) : List (Bytes × Bytes) :=
  (Endemic.sendProcess (m := Id) h (otSids (m := Id) h sid).1 msg1.a tape).1.keys ++
  (Endemic.sendProcess (m := Id) h (otSids (m := Id) h sid).2 msg1.b
    (Endemic.sendProcess (m := Id) h (otSids (m := Id) h sid).1 msg1.a tape).2).1.keys

/-- the shared sender core as run by the variant's sender after its two base OTs -/
def senderCoreOt (sid : Bytes) (a : List ℕ) (msg1 : Msg1) (tape : Tape) : List ℕ × Msg2 × Tape :=
  senderCore (m := Id) h sid (gadgetVec (m := Id) h sid)
    (senderVOt (m := Id) h sid (senderKeysOt h sid msg1 tape)).1
    (senderVOt (m := Id) h sid (senderKeysOt h sid msg1 tape)).2 a
    (Endemic.sendProcess (m := Id) h (otSids (m := Id) h sid).2 msg1.b
      (Endemic.sendProcess (m := Id) h (otSids (m := Id) h sid).1 msg1.a tape).2).2

theorem senderVOt_id (sid : Bytes) (keys : List (Bytes × Bytes)) :
    senderVOt (m := Id) h sid keys =
      (otExpand (m := Id) h sid (keys.map (·.1)), otExpand (m := Id) h sid (keys.map (·.2))) := rfl

theorem receiverNewOt_id (sid : Bytes) (tape : Tape) :
    receiverNewOt (m := Id) h sid tape =
      ({ sid, beta := (Endemic.recvNew (m := Id) h (otSids (m := Id) h sid).1 tape).1.choiceBits ++
                      (Endemic.recvNew (m := Id) h (otSids (m := Id) h sid).2
                        (Endemic.recvNew (m := Id) h (otSids (m := Id) h sid).1 tape).2.2).1.choiceBits,
         stA := (Endemic.recvNew (m := Id) h (otSids (m := Id) h sid).1 tape).1,
         stB := (Endemic.recvNew (m := Id) h (otSids (m := Id) h sid).2
                  (Endemic.recvNew (m := Id) h (otSids (m := Id) h sid).1 tape).2.2).1 },
       { a := (Endemic.recvNew (m := Id) h (otSids (m := Id) h sid).1 tape).2.1,
         b := (Endemic.recvNew (m := Id) h (otSids (m := Id) h sid).2
                  (Endemic.recvNew (m := Id) h (otSids (m := Id) h sid).1 tape).2.2).2.1 },
       gadgetDot (gadgetVec (m := Id) h sid)
         ((Endemic.recvNew (m := Id) h (otSids (m := Id) h sid).1 tape).1.choiceBits ++
          (Endemic.recvNew (m := Id) h (otSids (m := Id) h sid).2
            (Endemic.recvNew (m := Id) h (otSids (m := Id) h sid).1 tape).2.2).1.choiceBits),
       (Endemic.recvNew (m := Id) h (otSids (m := Id) h sid).2
          (Endemic.recvNew (m := Id) h (otSids (m := Id) h sid).1 tape).2.2).2.2) := rfl

/-- the choice bits drawn by `EndemicOTReceiver::new` are `LAMBDA_C_BYTES` bytes -/
theorem recvNew_choiceBits_length (sid : Bytes) (tape : Tape) :
    (Endemic.recvNew (m := Id) h sid tape).1.choiceBits.length = LAMBDA_C_BYTES := by
  have : (Endemic.recvNew (m := Id) h sid tape).1.choiceBits = (Tape.genArray tape LAMBDA_C_BYTES).1 := by
    unfold Endemic.recvNew
    generalize LAMBDA_C = n
    generalize LAMBDA_C_BYTES = nb
    rfl
  rw [this]
  unfold Tape.genArray
  simp

attribute [local irreducible] Endemic.recvNew Endemic.sendProcess Endemic.recvProcess gadgetDot gadgetVec otExpand
  senderCore receiverCore

/-- projections of `RVOLEReceiver::new` of the variant -/
theorem receiverNewOt_stA (sid : Bytes) (tape : Tape) :
    (receiverNewOt (m := Id) h sid tape).1.stA = (Endemic.recvNew (m := Id) h (otSids (m := Id) h sid).1 tape).1 := rfl

theorem receiverNewOt_stB (sid : Bytes) (tape : Tape) :
    (receiverNewOt (m := Id) h sid tape).1.stB
      = (Endemic.recvNew (m := Id) h (otSids (m := Id) h sid).2
          (Endemic.recvNew (m := Id) h (otSids (m := Id) h sid).1 tape).2.2).1 := rfl

theorem receiverNewOt_m1a (sid : Bytes) (tape : Tape) :
    (receiverNewOt (m := Id) h sid tape).2.1.a = (Endemic.recvNew (m := Id) h (otSids (m := Id) h sid).1 tape).2.1 := rfl

theorem receiverNewOt_m1b (sid : Bytes) (tape : Tape) :
    (receiverNewOt (m := Id) h sid tape).2.1.b
      = (Endemic.recvNew (m := Id) h (otSids (m := Id) h sid).2
          (Endemic.recvNew (m := Id) h (otSids (m := Id) h sid).1 tape).2.2).2.1 := rfl

theorem receiverNewOt_beta (sid : Bytes) (tape : Tape) :
    (receiverNewOt (m := Id) h sid tape).1.beta
      = (receiverNewOt (m := Id) h sid tape).1.stA.choiceBits ++ (receiverNewOt (m := Id) h sid tape).1.stB.choiceBits := rfl

theorem receiverNewOt_sid (sid : Bytes) (tape : Tape) : (receiverNewOt (m := Id) h sid tape).1.sid = sid := rfl

theorem receiverNewOt_b (sid : Bytes) (tape : Tape) :
    (receiverNewOt (m := Id) h sid tape).2.2.1
      = gadgetDot (gadgetVec (m := Id) h sid) (receiverNewOt (m := Id) h sid tape).1.beta := rfl

/-- the variant's sender with its three outcomes spelled out -/
theorem senderProcessOt_id (sid : Bytes) (a : List ℕ) (msg1 : Msg1) (tape : Tape) :
    senderProcessOt (m := Id) h sid a msg1 tape =
      if (Endemic.sendProcess (m := Id) h (otSids (m := Id) h sid).1 msg1.a tape).1.err = true then
        { err := some baseOtError, c := []
          msg := { otA := (Endemic.sendProcess (m := Id) h (otSids (m := Id) h sid).1 msg1.a tape).1.msg2
                   otB := zeroOtMsg, core := zeroMsg2 }
          tape := (Endemic.sendProcess (m := Id) h (otSids (m := Id) h sid).1 msg1.a tape).2 }
      else if (Endemic.sendProcess (m := Id) h (otSids (m := Id) h sid).2 msg1.b
                (Endemic.sendProcess (m := Id) h (otSids (m := Id) h sid).1 msg1.a tape).2).1.err = true then
        { err := some baseOtError, c := []
          msg := { otA := (Endemic.sendProcess (m := Id) h (otSids (m := Id) h sid).1 msg1.a tape).1.msg2
                   otB := (Endemic.sendProcess (m := Id) h (otSids (m := Id) h sid).2 msg1.b
                            (Endemic.sendProcess (m := Id) h (otSids (m := Id) h sid).1 msg1.a tape).2).1.msg2
                   core := zeroMsg2 }
          tape := (Endemic.sendProcess (m := Id) h (otSids (m := Id) h sid).2 msg1.b
                    (Endemic.sendProcess (m := Id) h (otSids (m := Id) h sid).1 msg1.a tape).2).2 }
      else
        { err := none
          c := (senderCoreOt h sid a msg1 tape).1
          msg := { otA := (Endemic.sendProcess (m := Id) h (otSids (m := Id) h sid).1 msg1.a tape).1.msg2
                   otB := (Endemic.sendProcess (m := Id) h (otSids (m := Id) h sid).2 msg1.b
                            (Endemic.sendProcess (m := Id) h (otSids (m := Id) h sid).1 msg1.a tape).2).1.msg2
                   core := (senderCoreOt h sid a msg1 tape).2.1 }
          tape := (senderCoreOt h sid a msg1 tape).2.2 } := by
  unfold senderProcessOt senderCoreOt senderKeysOt
  rfl

theorem senderProcessOt_ok (sid : Bytes) (a : List ℕ) (msg1 : Msg1) (tape : Tape)
    (hA : (Endemic.sendProcess (m := Id) h (otSids (m := Id) h sid).1 msg1.a tape).1.err = false)
    (hB : (Endemic.sendProcess (m := Id) h (otSids (m := Id) h sid).2 msg1.b
            (Endemic.sendProcess (m := Id) h (otSids (m := Id) h sid).1 msg1.a tape).2).1.err = false) :
    senderProcessOt (m := Id) h sid a msg1 tape =
      { err := none
        c := (senderCoreOt h sid a msg1 tape).1
        msg := { otA := (Endemic.sendProcess (m := Id) h (otSids (m := Id) h sid).1 msg1.a tape).1.msg2
                 otB := (Endemic.sendProcess (m := Id) h (otSids (m := Id) h sid).2 msg1.b
                          (Endemic.sendProcess (m := Id) h (otSids (m := Id) h sid).1 msg1.a tape).2).1.msg2
                 core := (senderCoreOt h sid a msg1 tape).2.1 }
        tape := (senderCoreOt h sid a msg1 tape).2.2 } := by
  rw [senderProcessOt_id, if_neg (by rw [hA]; exact Bool.false_ne_true), if_neg (by rw [hB]; exact Bool.false_ne_true)]

theorem receiverProcessOt_ok (st : OtRecvState) (msg : Msg2Ot) (ka kb : List Bytes)
    (hA : Endemic.recvProcess (m := Id) h st.stA msg.otA = some ka)
    (hB : Endemic.recvProcess (m := Id) h st.stB msg.otB = some kb) :
    receiverProcessOt (m := Id) h st msg =
      receiverCore (m := Id) h st.sid st.beta (otExpand (m := Id) h st.sid (ka ++ kb)) msg.core := by
  unfold receiverProcessOt receiverVxOt
  show (match (match Endemic.recvProcess (m := Id) h st.stA msg.otA with
          | none => none
          | some ka => (match Endemic.recvProcess (m := Id) h st.stB msg.otB with
            | none => none
            | some kb => some (otExpand (m := Id) h st.sid (ka ++ kb)))) with
        | none => _ | some vx => _) = _
  rw [hA, hB]

theorem receiverProcessOt_ok' (st : OtRecvState) (otA otB : List (Bytes × Bytes)) (core : Msg2) (ka kb : List Bytes)
    (hA : Endemic.recvProcess (m := Id) h st.stA otA = some ka)
    (hB : Endemic.recvProcess (m := Id) h st.stB otB = some kb) :
    receiverProcessOt (m := Id) h st { otA := otA, otB := otB, core := core } =
      receiverCore (m := Id) h st.sid st.beta (otExpand (m := Id) h st.sid (ka ++ kb)) core :=
  receiverProcessOt_ok h st { otA := otA, otB := otB, core := core } ka kb hA hB

end Id2
end SlVerif.Rvole
