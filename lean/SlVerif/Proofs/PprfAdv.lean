import SlVerif.Proofs.PprfLevels
/-
  C06 helper lemmas, part 7: the adversarial sender (`advTree`).  Where a receiver that evaluates a message with one
  corrupted correction word is still guaranteed to hold the sender's values; acceptance of `advTree`'s message as a
  statement about leaf lists.
-/
namespace SlVerif.Pprf
open SlVerif

variable (h : Query → Bytes) (sid : Bytes)

/-! ### structure of the sender's levels -/

theorem buildLevels_fst_append (keys : Nat → Bytes × Bytes) : ∀ (is js : List Nat) (s : List Bytes),
    (buildLevels (m := Id) h sid keys (is ++ js) s).1
      = (buildLevels (m := Id) h sid keys js (buildLevels (m := Id) h sid keys is s).1).1 := by
  intro is
  induction is with
  | nil => intro js s; rfl
  | cons i is ih => intro js s; rw [List.cons_append, buildLevels_cons, buildLevels_cons]; exact ih js _

theorem buildLevels_snd_append (keys : Nat → Bytes × Bytes) : ∀ (is js : List Nat) (s : List Bytes),
    (buildLevels (m := Id) h sid keys (is ++ js) s).2
      = (buildLevels (m := Id) h sid keys is s).2 ++ (buildLevels (m := Id) h sid keys js (buildLevels (m := Id) h sid keys is s).1).2 := by
  intro is
  induction is with
  | nil => intro js s; rfl
  | cons i is ih =>
    intro js s
    rw [List.cons_append, buildLevels_cons, buildLevels_cons]
    simp only [List.cons_append]
    rw [ih]

theorem buildLevels_snd_length (keys : Nat → Bytes × Bytes) : ∀ (is : List Nat) (s : List Bytes),
    (buildLevels (m := Id) h sid keys is s).2.length = is.length := by
  intro is
  induction is with
  | nil => intro s; rfl
  | cons i is ih => intro s; rw [buildLevels_cons]; simp [ih]

/-- the sender's next level does not depend on the keys -/
theorem buildLevels_fst_keys (keys keys' : Nat → Bytes × Bytes) : ∀ (is : List Nat) (s : List Bytes),
    (buildLevels (m := Id) h sid keys is s).1 = (buildLevels (m := Id) h sid keys' is s).1 := by
  intro is
  induction is with
  | nil => intro s; rfl
  | cons i is ih => intro s; rw [buildLevels_cons, buildLevels_cons]; exact ih _

theorem wordS_len (F : Bytes × Bytes) (s : List Bytes) (h1 : F.1.length = KB) (h2 : F.2.length = KB) :
    (wordS h sid F s).1.length = KB ∧ (wordS h sid F s).2.length = KB := by
  unfold wordS
  constructor
  · rw [foldl_eq_allF (fun c : Bytes × Bytes => c.1) ([], [])]
    apply allF_length _ KB _ _ _ h1
    intro y hy
    rw [List.length_map] at hy
    simp [List.getD_eq_getElem?_getD, List.getElem?_eq_getElem hy, G_len1]
  · rw [foldl_eq_allF (fun c : Bytes × Bytes => c.2) ([], [])]
    apply allF_length _ KB _ _ _ h2
    intro y hy
    rw [List.length_map] at hy
    simp [List.getD_eq_getElem?_getD, List.getElem?_eq_getElem hy, G_len2]

theorem buildLevels_words_len (keys : Nat → Bytes × Bytes) : ∀ (is : List Nat) (s : List Bytes),
    (∀ i ∈ is, (keys i).1.length = KB ∧ (keys i).2.length = KB) →
    ∀ w ∈ (buildLevels (m := Id) h sid keys is s).2, w.1.length = KB ∧ w.2.length = KB := by
  intro is
  induction is with
  | nil => intro s _ w hw; simp [buildLevels_nil] at hw
  | cons i is ih =>
    intro s hk w hw
    rw [buildLevels_cons] at hw
    rcases List.mem_cons.mp hw with rfl | hw'
    · exact wordS_len h sid _ _ (hk i (by simp)).1 (hk i (by simp)).2
    · exact ih _ (fun j hj => hk j (by simp [hj])) w hw'

/-! ### outside the subtree of the path node of some earlier level the receiver is honest, whatever the later words -/

theorem outside_honest (keys : Nat → Bytes × Bytes) (bit : Nat → Nat) (dk : Nat → Bytes) :
    ∀ (is : List Nat) (ws : List (Bytes × Bytes)) (Y : Nat) (S N : List Bytes) (Y0 k : Nat),
      (∀ i ∈ is, bit i ≤ 1) → S.length = N.length → Y < S.length →
      (∀ y, y / 2 ^ k ≠ Y0 → S[y]? = N[y]?) → Y / 2 ^ k = Y0 →
      (evalLevels (m := Id) h sid bit dk is ws Y S).2.length = (buildLevels (m := Id) h sid keys is N).1.length ∧
      (∀ y, y / 2 ^ (k + is.length) ≠ Y0 →
        (evalLevels (m := Id) h sid bit dk is ws Y S).2[y]? = (buildLevels (m := Id) h sid keys is N).1[y]?) ∧
      (evalLevels (m := Id) h sid bit dk is ws Y S).1 / 2 ^ (k + is.length) = Y0 := by
  intro is
  induction is with
  | nil =>
    intro ws Y S N Y0 k _ hlen _ hout hY0
    rw [evalLevels_nil, buildLevels_nil]
    simp only [List.length_nil, Nat.add_zero]
    exact ⟨hlen, hout, hY0⟩
  | cons i is ih =>
    intro ws Y S N Y0 k hb hlen hY hout hY0
    have hbi := hb i (by simp)
    have hx := (xor_one_le _ hbi).1
    rw [evalLevels_cons, buildLevels_cons]
    simp only
    have hstep := ih ws.tail (2 * Y + (1 ^^^ bit i)) (stepR h sid (bit i) (ws.headD ([], [])) (dk i) Y S) (nextS h sid N) Y0 (k + 1)
      (fun j hj => hb j (by simp [hj])) (by rw [stepR_length, nextS_length, hlen]) (by rw [stepR_length]; omega)
      (by
        intro y' hy'
        have hyk : y' / 2 / 2 ^ k ≠ Y0 := by
          rw [Nat.div_div_eq_div_mul, Nat.mul_comm 2 (2 ^ k), ← Nat.pow_succ]; exact hy'
        have hyY : y' / 2 ≠ Y := by
          intro e; rw [e] at hyk; exact hyk hY0
        have hp : y' % 2 ≤ 1 := by omega
        have hrec : y' = 2 * (y' / 2) + y' % 2 := by omega
        rcases Nat.lt_or_ge (y' / 2) S.length with hlt | hge
        · have hS := hout (y' / 2) hyk
          have hltN : y' / 2 < N.length := by rw [← hlen]; exact hlt
          rw [hrec, stepR_getElem?_other h sid _ _ _ _ _ _ _ hbi hp hyY hlt, nextS_getElem?, if_pos (by omega)]
          have h1 : (2 * (y' / 2) + y' % 2) % 2 = y' % 2 := by omega
          have h2 : (2 * (y' / 2) + y' % 2) / 2 = y' / 2 := by omega
          rw [h1, h2]
          rw [List.getElem?_eq_getElem hlt, List.getElem?_eq_getElem hltN] at hS
          simp only [Option.some.injEq] at hS
          simp [List.getD_eq_getElem?_getD, List.getElem?_eq_getElem hlt, List.getElem?_eq_getElem hltN, hS]
        · rw [List.getElem?_eq_none (by rw [stepR_length]; omega), List.getElem?_eq_none (by rw [nextS_length, ← hlen]; omega)])
      (by
        rw [Nat.pow_succ, Nat.mul_comm (2 ^ k) 2, ← Nat.div_div_eq_div_mul]
        have : (2 * Y + (1 ^^^ bit i)) / 2 = Y := by omega
        rw [this]; exact hY0)
    have he : k + 1 + is.length = k + (i :: is).length := by simp; omega
    rw [he] at hstep
    exact hstep

end SlVerif.Pprf

namespace SlVerif.Pprf
open SlVerif

variable (h : Query → Bytes) (sid : Bytes)

theorem mem_levels_lt {i : Nat} (hi : i ∈ levels) : i < K := by
  rw [levels_eq] at hi
  simp at hi
  rcases hi with rfl | rfl | rfl <;> decide

/-- the honest words and leaves of a tree -/
abbrev hWords (keys : Nat → Bytes × Bytes) : List (Bytes × Bytes) :=
  (buildLevels (m := Id) h sid keys levels [(keys 0).1, (keys 0).2]).2
abbrev hLeaves (keys : Nat → Bytes × Bytes) : List Bytes :=
  (buildLevels (m := Id) h sid keys levels [(keys 0).1, (keys 0).2]).1

theorem buildTree_fst (keys : Nat → Bytes × Bytes) : (buildTree (m := Id) h sid keys).1 = hLeaves h sid keys := by
  rw [buildTree_id]
theorem buildTree_t (keys : Nat → Bytes × Bytes) : (buildTree (m := Id) h sid keys).2.t = hWords h sid keys := by
  rw [buildTree_id]

section receiver
variable (keys : Nat → Bytes × Bytes) (rho : Nat → Nat) (dkr : Nat → Bytes) (hc : Consistent keys rho dkr)
variable (pre post : List Nat) (l : Nat) (hlv : levels = pre ++ l :: post)
include hc hlv

/-- the receiver's state before level `l` (it has only read honest words) satisfies the invariant -/
theorem prefix_inv (side : Nat) (delta : Bytes) :
    Inv (buildLevels (m := Id) h sid keys pre [(keys 0).1, (keys 0).2]).1
      (evalLevels (m := Id) h sid rho dkr pre (corruptWord (hWords h sid keys) (pre.length + 1) side delta)
        (evalInit (rho 0) (dkr 0)).1 (evalInit (rho 0) (dkr 0)).2).2
      (evalLevels (m := Id) h sid rho dkr pre (corruptWord (hWords h sid keys) (pre.length + 1) side delta)
        (evalInit (rho 0) (dkr 0)).1 (evalInit (rho 0) (dkr 0)).2).1 := by
  obtain ⟨hb0, _, _, hd0⟩ := hc 0 (by decide)
  have hinit := evalInit_inv (rho 0) hb0 (keys 0)
  rw [← hd0] at hinit
  have hyp : ∀ i ∈ pre, rho i ≤ 1 ∧ (keys i).1.length = KB ∧ (keys i).2.length = KB ∧ dkr i = sel (rho i) (keys i) := by
    intro i hi
    exact hc i (mem_levels_lt (by rw [hlv]; simp [hi]))
  have := (levels_inv h sid keys rho dkr pre _ _ _ hinit hyp).1
  rw [evalLevels_pre_corrupt]
  have hw : evalLevels (m := Id) h sid rho dkr pre (hWords h sid keys) (evalInit (rho 0) (dkr 0)).1 (evalInit (rho 0) (dkr 0)).2
      = evalLevels (m := Id) h sid rho dkr pre (buildLevels (m := Id) h sid keys pre [(keys 0).1, (keys 0).2]).2
          (evalInit (rho 0) (dkr 0)).1 (evalInit (rho 0) (dkr 0)).2 := by
    apply evalLevels_congr
    intro k hk
    unfold hWords
    rw [hlv, buildLevels_snd_append, List.getD_eq_getElem?_getD, List.getD_eq_getElem?_getD,
      List.getElem?_append_left (by rw [buildLevels_snd_length]; exact hk)]
    simp only [List.getD_eq_getElem?_getD]
  rw [hw]
  exact this

/-- **outside the subtree of its level-`l` path node the receiver holds the sender's leaves**, whether or not it
    reads the corrupted word -/
theorem outside_leaves (side : Nat) (delta : Bytes) :
    (evalLevels (m := Id) h sid rho dkr levels (corruptWord (hWords h sid keys) (pre.length + 1) side delta)
        (evalInit (rho 0) (dkr 0)).1 (evalInit (rho 0) (dkr 0)).2).2.length = (hLeaves h sid keys).length ∧
    ∀ y, y / 2 ^ (post.length + 1) ≠ ystarOf rho / 2 ^ (post.length + 1) →
      (evalLevels (m := Id) h sid rho dkr levels (corruptWord (hWords h sid keys) (pre.length + 1) side delta)
        (evalInit (rho 0) (dkr 0)).1 (evalInit (rho 0) (dkr 0)).2).2[y]? = (hLeaves h sid keys)[y]? := by
  have hinv := prefix_inv h sid keys rho dkr hc pre post l hlv side delta
  have hbits : ∀ i ∈ l :: post, rho i ≤ 1 := by
    intro i hi
    exact (hc i (mem_levels_lt (by rw [hlv]; simp at hi ⊢; rcases hi with rfl | hi <;> simp [*]))).1
  have ho := outside_honest h sid keys rho dkr (l :: post)
    (List.drop pre.length (corruptWord (hWords h sid keys) (pre.length + 1) side delta)) _ _
    (buildLevels (m := Id) h sid keys pre [(keys 0).1, (keys 0).2]).1 _ 0 hbits hinv.len
    (by rw [hinv.len]; exact hinv.lt)
    (by intro y hy; exact hinv.eq y (by simpa using hy)) (by simp)
  have hL : hLeaves h sid keys
      = (buildLevels (m := Id) h sid keys (l :: post) (buildLevels (m := Id) h sid keys pre [(keys 0).1, (keys 0).2]).1).1 := by
    unfold hLeaves; rw [hlv, buildLevels_fst_append]
  have hE : evalLevels (m := Id) h sid rho dkr levels (corruptWord (hWords h sid keys) (pre.length + 1) side delta)
        (evalInit (rho 0) (dkr 0)).1 (evalInit (rho 0) (dkr 0)).2
      = evalLevels (m := Id) h sid rho dkr (l :: post) (List.drop pre.length (corruptWord (hWords h sid keys) (pre.length + 1) side delta))
        (evalLevels (m := Id) h sid rho dkr pre (corruptWord (hWords h sid keys) (pre.length + 1) side delta)
          (evalInit (rho 0) (dkr 0)).1 (evalInit (rho 0) (dkr 0)).2).1
        (evalLevels (m := Id) h sid rho dkr pre (corruptWord (hWords h sid keys) (pre.length + 1) side delta)
          (evalInit (rho 0) (dkr 0)).1 (evalInit (rho 0) (dkr 0)).2).2 := by
    conv => lhs; rw [hlv]
    rw [evalLevels_append]
  have hys : ystarOf rho = (evalLevels (m := Id) h sid rho dkr levels (corruptWord (hWords h sid keys) (pre.length + 1) side delta)
        (evalInit (rho 0) (dkr 0)).1 (evalInit (rho 0) (dkr 0)).2).1 := by
    rw [evalLevels_fst, ystarOf_eq]; rfl
  rw [hys, hE, hL]
  simp only [Nat.zero_add, List.length_cons] at ho
  refine ⟨ho.1, ?_⟩
  intro y hy
  apply ho.2.1
  rw [ho.2.2] at hy
  exact hy

/-- evaluation of the honest words: the invariant w.r.t. the sender's leaves -/
theorem honest_inv :
    Inv (hLeaves h sid keys)
      (evalLevels (m := Id) h sid rho dkr levels (hWords h sid keys) (evalInit (rho 0) (dkr 0)).1 (evalInit (rho 0) (dkr 0)).2).2
      (ystarOf rho) := by
  obtain ⟨hb0, _, _, hd0⟩ := hc 0 (by decide)
  have hinit := evalInit_inv (rho 0) hb0 (keys 0)
  rw [← hd0] at hinit
  obtain ⟨hinv, hy⟩ := levels_inv h sid keys rho dkr levels _ _ _ hinit (fun i hi => hc i (mem_levels_lt hi))
  have hy' : _ = ystarOf rho := hy.trans (ystarOf_eq rho).symm
  rw [hy'] at hinv
  exact hinv

theorem hWords_length : (hWords h sid keys).length = pre.length + 1 + post.length := by
  unfold hWords
  rw [buildLevels_snd_length, hlv]
  simp; omega

theorem levels_getD_l : levels.getD pre.length 0 = l := by
  rw [hlv]; simp

/-- a receiver whose bit at level `l` is not `side` does not notice the corruption -/
theorem avoid_eval (side : Nat) (delta : Bytes) (hs : side ≤ 1) (hne : rho l ≠ side) :
    evalLevels (m := Id) h sid rho dkr levels (corruptWord (hWords h sid keys) (pre.length + 1) side delta)
        (evalInit (rho 0) (dkr 0)).1 (evalInit (rho 0) (dkr 0)).2
      = evalLevels (m := Id) h sid rho dkr levels (hWords h sid keys) (evalInit (rho 0) (dkr 0)).1 (evalInit (rho 0) (dkr 0)).2 := by
  have hbl : rho l ≤ 1 := (hc l (mem_levels_lt (by rw [hlv]; simp))).1
  apply evalLevels_congr
  intro k _
  rw [corruptWord_eq]
  simp only [List.getD_eq_getElem?_getD]
  rw [List.getElem?_set]
  by_cases hk : pre.length = k
  · subst hk
    have hl := levels_getD_l keys rho dkr hc pre post l hlv
    rw [List.getD_eq_getElem?_getD] at hl
    rw [hl]
    have hin : pre.length < (hWords h sid keys).length := by
      rw [hWords_length h sid keys rho dkr hc pre post l hlv]; omega
    simp only [if_true, hin, Option.getD_some]
    have h1 : side = 0 ∨ side = 1 := by omega
    have h2 : rho l = 0 ∨ rho l = 1 := by omega
    rcases h1 with rfl | rfl <;> rcases h2 with h2 | h2 <;> simp [sel, h2] at hne ⊢
  · simp [hk]

/-- a receiver whose bit at level `l` is `side` gets a different leaf somewhere in the sibling subtree -/
theorem uses_changes (hG : PrgNoCollision h sid) (delta : Bytes) (hdl : delta.length = KB) (hδ : delta ≠ zeros KB) :
    ∃ z, z ≠ ystarOf rho ∧
      (evalLevels (m := Id) h sid rho dkr levels (hWords h sid keys) (evalInit (rho 0) (dkr 0)).1 (evalInit (rho 0) (dkr 0)).2).2[z]? ≠
        (evalLevels (m := Id) h sid rho dkr levels (corruptWord (hWords h sid keys) (pre.length + 1) (rho l) delta)
          (evalInit (rho 0) (dkr 0)).1 (evalInit (rho 0) (dkr 0)).2).2[z]? ∧
      z / 2 ^ (post.length + 1) = ystarOf rho / 2 ^ (post.length + 1) := by
  have hin : pre.length < (hWords h sid keys).length := by
    rw [hWords_length h sid keys rho dkr hc pre post l hlv]; omega
  have hcl := hc l (mem_levels_lt (by rw [hlv]; simp))
  have hwl := buildLevels_words_len h sid keys levels [(keys 0).1, (keys 0).2]
    (fun i hi => ⟨(hc i (mem_levels_lt hi)).2.1, (hc i (mem_levels_lt hi)).2.2.1⟩)
    ((hWords h sid keys).getD pre.length ([], []))
    (by rw [List.getD_eq_getElem?_getD, List.getElem?_eq_getElem hin]; exact List.getElem_mem hin)
  obtain ⟨z, hz, hne, _, hd, _⟩ := tamper_changes_levels h sid hG rho dkr pre post l hlv (hWords h sid keys) delta hin
    (hc 0 (by decide)).1
    (fun i hi => (hc i (mem_levels_lt (by rw [hlv]; simp [hi]))).1) hcl.1
    (fun i hi => (hc i (mem_levels_lt (by rw [hlv]; simp [hi]))).1)
    (by unfold sel; split; exact hwl.1; exact hwl.2)
    (by rw [hcl.2.2.2]; unfold sel; split; exact hcl.2.1; exact hcl.2.2.1) hdl hδ
  exact ⟨z, hz, hne, hd⟩

end receiver

theorem stepR_getElem?_word (c : Nat) (w w' : Bytes × Bytes) (dkv : Bytes) (Y : Nat) (S : List Bytes) (y : Nat)
    (hy : y ≠ 2 * Y + c) :
    (stepR h sid c w dkv Y S)[y]? = (stepR h sid c w' dkv Y S)[y]? := by
  unfold stepR
  rw [List.getElem?_set, List.getElem?_set, if_neg (fun e => hy e.symm), if_neg (fun e => hy e.symm)]

/-- at the LAST level a corrupted word moves exactly one entry: all the others are as with any other word -/
theorem last_level_others (bit : Nat → Nat) (dk : Nat → Bytes) (pre : List Nat) (l : Nat) (ws : List (Bytes × Bytes))
    (side : Nat) (delta : Bytes) (Y0 : Nat) (S0 : List Bytes) (y : Nat)
    (hy : y ≠ 2 * (evalLevels (m := Id) h sid bit dk pre ws Y0 S0).1 + bit l) :
    (evalLevels (m := Id) h sid bit dk (pre ++ [l]) (corruptWord ws (pre.length + 1) side delta) Y0 S0).2[y]?
      = (evalLevels (m := Id) h sid bit dk (pre ++ [l]) ws Y0 S0).2[y]? := by
  rw [evalLevels_append, evalLevels_append, evalLevels_pre_corrupt, evalLevels_cons, evalLevels_cons, evalLevels_nil,
    evalLevels_nil]
  exact stepR_getElem?_word h sid _ _ _ _ _ _ y hy

/-! ### the adversary's message as a statement about leaf lists -/

theorem eval_len (bit : Nat → Nat) (dk : Nat → Bytes) (ws : List (Bytes × Bytes)) (b0 : Nat) (d0 : Bytes) :
    (evalLevels (m := Id) h sid bit dk levels ws (evalInit b0 d0).1 (evalInit b0 d0).2).2.length = Q := by
  rw [evalLevels_length, levels_eq]
  have : (evalInit b0 d0).2.length = 2 := by unfold evalInit; split <;> rfl
  rw [this]; rfl

theorem eval_fst (bit : Nat → Nat) (dk : Nat → Bytes) (ws : List (Bytes × Bytes)) (d0 : Bytes) :
    (evalLevels (m := Id) h sid bit dk levels ws (evalInit (bit 0) d0).1 (evalInit (bit 0) d0).2).1 = ystarOf bit := by
  rw [evalLevels_fst, ystarOf_eq]; rfl

/-- the guessed receiver's evaluation of the corrupted words -/
abbrev guessEval (keys : Nat → Bytes × Bytes) (level side : Nat) (delta : Bytes) (guess : Nat → Nat) : Nat × List Bytes :=
  evalLevels (m := Id) h sid guess (fun i => sel (guess i) (keys i)) levels (corruptWord (hWords h sid keys) level side delta)
    (evalInit (guess 0) (sel (guess 0) (keys 0))).1 (evalInit (guess 0) (sel (guess 0) (keys 0))).2

/-- the leaf vector the adversary commits to: what the guessed receiver computes, its punctured slot filled with the
    honest leaf -/
def advLeaves (keys : Nat → Bytes × Bytes) (level side : Nat) (delta : Bytes) (guess : Nat → Nat) : List Bytes :=
  (guessEval h sid keys level side delta guess).2.set (guessEval h sid keys level side delta guess).1
    ((hLeaves h sid keys).getD (guessEval h sid keys level side delta guess).1 [])

theorem advLeaves_length (keys : Nat → Bytes × Bytes) (level side : Nat) (delta : Bytes) (guess : Nat → Nat) :
    (advLeaves h sid keys level side delta guess).length = Q := by
  unfold advLeaves
  rw [List.length_set]
  exact eval_len h sid _ _ _ _ _

theorem advTree_eq (keys : Nat → Bytes × Bytes) (level side : Nat) (delta : Bytes) (guess : Nat → Nat) :
    advTree (m := Id) h sid keys level side delta guess =
      { t := corruptWord (hWords h sid keys) level side delta
        sTilda := Hh h sid ((advLeaves h sid keys level side delta guess).map (P h sid))
        tTilda := ((advLeaves h sid keys level side delta guess).map (P h sid)).foldl xorBytes (zeros (2*KB)) } := by
  rw [advTree_id]
  simp only [buildTree_t, buildTree_fst]
  rfl

/-- the receiver's evaluation of the adversary's words -/
abbrev recvEval (keys : Nat → Bytes × Bytes) (level side : Nat) (delta : Bytes) (bit : Nat → Nat) (dk : Nat → Bytes) :
    Nat × List Bytes :=
  evalLevels (m := Id) h sid bit dk levels (corruptWord (hWords h sid keys) level side delta)
    (evalInit (bit 0) (dk 0)).1 (evalInit (bit 0) (dk 0)).2

/-- if the receiver's learned leaves are the adversary's, it accepts (unconditional) -/
theorem adv_accept_of_leaves (keys : Nat → Bytes × Bytes) (level side : Nat) (delta : Bytes) (guess bit : Nat → Nat)
    (dk : Nat → Bytes) (hb : ∀ i < K, bit i ≤ 1)
    (heq : ∀ y, y ≠ ystarOf bit → (recvEval h sid keys level side delta bit dk).2[y]? = (advLeaves h sid keys level side delta guess)[y]?) :
    (evalTree (m := Id) h sid bit dk (advTree (m := Id) h sid keys level side delta guess)).isSome := by
  rw [evalTree_accept_iff, advTree_eq]
  simp only
  have hf := eval_fst h sid bit dk (corruptWord (hWords h sid keys) level side delta) (dk 0)
  rw [hf]
  rw [vecR_eq' h sid _ _ _ (by rw [eval_len, advLeaves_length]) (by rw [advLeaves_length]; exact ystarOf_lt bit hb) heq]

/-- if the receiver accepts, its learned leaves are the adversary's — given that the final hash does not collide on
    the two vectors and the per-leaf proof hash does not collide between the two leaf lists -/
theorem adv_leaves_of_accept (keys : Nat → Bytes × Bytes) (level side : Nat) (delta : Bytes) (guess bit : Nat → Nat)
    (dk : Nat → Bytes)
    (hcol : Hh h sid (vecR h sid (ystarOf bit) (recvEval h sid keys level side delta bit dk).2
        (((advLeaves h sid keys level side delta guess).map (P h sid)).foldl xorBytes (zeros (2*KB))))
        = Hh h sid ((advLeaves h sid keys level side delta guess).map (P h sid)) →
      vecR h sid (ystarOf bit) (recvEval h sid keys level side delta bit dk).2
        (((advLeaves h sid keys level side delta guess).map (P h sid)).foldl xorBytes (zeros (2*KB)))
        = (advLeaves h sid keys level side delta guess).map (P h sid))
    (hP : ∀ a ∈ (recvEval h sid keys level side delta bit dk).2, ∀ b ∈ advLeaves h sid keys level side delta guess,
      P h sid a = P h sid b → a = b)
    (hacc : (evalTree (m := Id) h sid bit dk (advTree (m := Id) h sid keys level side delta guess)).isSome) :
    ∀ y, y ≠ ystarOf bit → (recvEval h sid keys level side delta bit dk).2[y]? = (advLeaves h sid keys level side delta guess)[y]? := by
  rw [evalTree_accept_iff, advTree_eq] at hacc
  simp only at hacc
  have hf := eval_fst h sid bit dk (corruptWord (hWords h sid keys) level side delta) (dk 0)
  rw [hf] at hacc
  have hv := hcol hacc
  intro y hy
  have hs := congrArg (fun v : List Bytes => v[y]?) hv
  simp only [vecR_getElem?_ne h sid _ _ _ _ hy, List.getElem?_map] at hs
  have hl1 := eval_len h sid bit dk (corruptWord (hWords h sid keys) level side delta) (bit 0) (dk 0)
  have hl2 := advLeaves_length h sid keys level side delta guess
  generalize (recvEval h sid keys level side delta bit dk).2 = L at hP hs hl1 ⊢
  generalize advLeaves h sid keys level side delta guess = L' at hP hs hl2 ⊢
  cases ha : L[y]? with
  | none =>
    rw [ha] at hs
    cases hb' : L'[y]? with
    | none => rfl
    | some b => rw [hb'] at hs; cases hs
  | some a =>
    rw [ha] at hs
    cases hb' : L'[y]? with
    | none => rw [hb'] at hs; cases hs
    | some b =>
      rw [hb'] at hs
      simp only [Option.map_some, Option.some.injEq] at hs
      rw [hP a (List.mem_of_getElem? ha) b (List.mem_of_getElem? hb') hs]

/-! ### when do the receiver's learned leaves coincide with the adversary's vector -/

theorem evalLevels_congr_fun (bit bit' : Nat → Nat) (dk dk' : Nat → Bytes) :
    ∀ (is : List Nat) (ws : List (Bytes × Bytes)) (Y : Nat) (S : List Bytes),
      (∀ i ∈ is, bit i = bit' i ∧ dk i = dk' i) →
      evalLevels (m := Id) h sid bit dk is ws Y S = evalLevels (m := Id) h sid bit' dk' is ws Y S := by
  intro is
  induction is with
  | nil => intros; rfl
  | cons i is ih =>
    intro ws Y S hyp
    rw [evalLevels_cons, evalLevels_cons, (hyp i (by simp)).1, (hyp i (by simp)).2]
    exact ih _ _ _ (fun j hj => hyp j (by simp [hj]))

theorem ystarOf_congr (b b' : Nat → Nat) (hbb : ∀ i < K, b i = b' i) : ystarOf b = ystarOf b' := by
  simp only [ystarOf, show K = 4 from rfl, List.range_succ, List.range_zero, List.nil_append, List.cons_append,
    List.foldl_cons, List.foldl_nil]
  rw [hbb 0 (by decide), hbb 1 (by decide), hbb 2 (by decide), hbb 3 (by decide)]

section cases
variable (keys : Nat → Bytes × Bytes) (r : Nat → Nat) (dkr : Nat → Bytes) (hc : Consistent keys r dkr)
variable (g : Nat → Nat) (hg : ∀ i < K, g i ≤ 1)
variable (pre post : List Nat)
variable (hlv : levels = pre ++ (pre.length + 1) :: post)
variable (side : Nat) (hs : side ≤ 1) (delta : Bytes)

include hc hg in
theorem consistent_guess : Consistent keys g (fun i => sel (g i) (keys i)) := by
  intro i hi
  exact ⟨hg i hi, (hc i hi).2.1, (hc i hi).2.2.1, rfl⟩

include hc hg hlv hs in
/-- a guess that avoids the corrupted word commits to the honest leaves -/
theorem advLeaves_avoid (hne : g (pre.length + 1) ≠ side) : advLeaves h sid keys (pre.length + 1) side delta g = hLeaves h sid keys := by
  have hcg := consistent_guess keys r dkr hc g hg
  have hE : guessEval h sid keys (pre.length + 1) side delta g
      = evalLevels (m := Id) h sid g (fun i => sel (g i) (keys i)) levels (hWords h sid keys)
          (evalInit (g 0) (sel (g 0) (keys 0))).1 (evalInit (g 0) (sel (g 0) (keys 0))).2 := by
    unfold guessEval
    exact avoid_eval h sid keys g _ hcg pre post (pre.length + 1) hlv side delta hs hne
  have hinv := honest_inv h sid keys g _ hcg pre post (pre.length + 1) hlv
  have hf : (guessEval h sid keys (pre.length + 1) side delta g).1 = ystarOf g := eval_fst h sid g _ _ _
  unfold advLeaves
  rw [hf, hE]
  apply List.ext_getElem?
  intro y
  rw [List.getElem?_set]
  by_cases hy : ystarOf g = y
  · subst hy
    have hlt : ystarOf g < (hLeaves h sid keys).length := hinv.lt
    simp [hinv.len, hlt, List.getD_eq_getElem?_getD]
  · simp only [hy, if_false]
    exact hinv.eq y (fun e => hy e.symm)

include hc hg hlv hs in
/-- (a) guess and receiver both avoid the corrupted word -/
theorem leaves_eq_avoid (hng : g (pre.length + 1) ≠ side) (hnr : r (pre.length + 1) ≠ side) :
    ∀ y, y ≠ ystarOf r → (recvEval h sid keys (pre.length + 1) side delta r dkr).2[y]? = (advLeaves h sid keys (pre.length + 1) side delta g)[y]? := by
  intro y hy
  rw [advLeaves_avoid h sid keys r dkr hc g hg pre post hlv side hs delta hng]
  unfold recvEval
  rw [avoid_eval h sid keys r dkr hc pre post (pre.length + 1) hlv side delta hs hnr]
  exact (honest_inv h sid keys r dkr hc pre post (pre.length + 1) hlv).eq y hy

include hc in
/-- (b) the receiver IS the guessed receiver -/
theorem leaves_eq_same (hrg : ∀ i < K, r i = g i) :
    ∀ y, y ≠ ystarOf r → (recvEval h sid keys (pre.length + 1) side delta r dkr).2[y]? = (advLeaves h sid keys (pre.length + 1) side delta g)[y]? := by
  intro y hy
  have hE : recvEval h sid keys (pre.length + 1) side delta r dkr = guessEval h sid keys (pre.length + 1) side delta g := by
    unfold recvEval guessEval
    rw [(hc 0 (by decide)).2.2.2, hrg 0 (by decide)]
    apply evalLevels_congr_fun
    intro i hi
    have hik := mem_levels_lt hi
    exact ⟨hrg i hik, by rw [(hc i hik).2.2.2, hrg i hik]⟩
  have hy' : y ≠ ystarOf g := by rw [← ystarOf_congr r g hrg]; exact hy
  have hf : (guessEval h sid keys (pre.length + 1) side delta g).1 = ystarOf g := eval_fst h sid g _ _ _
  unfold advLeaves
  rw [hE, hf, List.getElem?_set, if_neg (fun e => hy' e.symm)]

include hc hg hlv hs in
/-- (d) the guess avoids the word, the receiver reads it: some learned leaf is not the committed one -/
theorem leaves_ne_recv_uses (hG : PrgNoCollision h sid) (hdl : delta.length = KB) (hδ : delta ≠ zeros KB)
    (hng : g (pre.length + 1) ≠ side) (hr : r (pre.length + 1) = side) :
    ∃ y, y ≠ ystarOf r ∧ (recvEval h sid keys (pre.length + 1) side delta r dkr).2[y]? ≠ (advLeaves h sid keys (pre.length + 1) side delta g)[y]? := by
  rw [advLeaves_avoid h sid keys r dkr hc g hg pre post hlv side hs delta hng]
  obtain ⟨z, hz, hne, _⟩ := uses_changes h sid keys r dkr hc pre post (pre.length + 1) hlv hG delta hdl hδ
  refine ⟨z, hz, ?_⟩
  unfold recvEval
  rw [← hr]
  rw [(honest_inv h sid keys r dkr hc pre post (pre.length + 1) hlv).eq z hz] at hne
  exact fun e => hne e.symm

include hc hg hlv in
/-- (e) the guess reads the word and the receiver's path leaves the guessed one before level `(pre.length + 1)` -/
theorem leaves_ne_prefix (hG : PrgNoCollision h sid) (hdl : delta.length = KB) (hδ : delta ≠ zeros KB)
    (hgs : g (pre.length + 1) = side)
    (hpre : ystarOf r / 2 ^ (post.length + 1) ≠ ystarOf g / 2 ^ (post.length + 1)) :
    ∃ y, y ≠ ystarOf r ∧ (recvEval h sid keys (pre.length + 1) side delta r dkr).2[y]? ≠ (advLeaves h sid keys (pre.length + 1) side delta g)[y]? := by
  have hcg := consistent_guess keys r dkr hc g hg
  obtain ⟨z, hz, hne, hd⟩ := uses_changes h sid keys g _ hcg pre post (pre.length + 1) hlv hG delta hdl hδ
  rw [(honest_inv h sid keys g _ hcg pre post (pre.length + 1) hlv).eq z hz] at hne
  have hzr : z / 2 ^ (post.length + 1) ≠ ystarOf r / 2 ^ (post.length + 1) := by rw [hd]; exact fun e => hpre e.symm
  have hout := (outside_leaves h sid keys r dkr hc pre post (pre.length + 1) hlv side delta).2 z hzr
  refine ⟨z, fun e => hzr (by rw [e]), ?_⟩
  unfold recvEval
  rw [hout]
  have hf : (guessEval h sid keys (pre.length + 1) side delta g).1 = ystarOf g := eval_fst h sid g _ _ _
  unfold advLeaves
  rw [hf, List.getElem?_set, if_neg (fun e => hz e.symm)]
  unfold guessEval
  rw [← hgs]
  exact hne

include hc hg hs in
/-- (c) LAST level, the guess reads the word, the receiver agrees with the guess on the earlier levels but not on the
    last bit: the only wrong leaf of the adversary's vector is the receiver's punctured leaf -/
theorem leaves_eq_last (hlast : levels = pre ++ [pre.length + 1]) (hgs : g (pre.length + 1) = side)
    (hnr : r (pre.length + 1) ≠ side) (hpre : ystarOf r / 2 = ystarOf g / 2) :
    ∀ y, y ≠ ystarOf r →
      (recvEval h sid keys (pre.length + 1) side delta r dkr).2[y]? = (advLeaves h sid keys (pre.length + 1) side delta g)[y]? := by
  have hcg := consistent_guess keys r dkr hc g hg
  have hlr : r (pre.length + 1) ≤ 1 := (hc _ (mem_levels_lt (by rw [hlast]; simp))).1
  have hlg : g (pre.length + 1) ≤ 1 := hg _ (mem_levels_lt (by rw [hlast]; simp))
  -- punctured indices in terms of the state before the last level
  have hys : ∀ (b : Nat → Nat) (d : Nat → Bytes) (ws : List (Bytes × Bytes)),
      ystarOf b = 2 * (evalLevels (m := Id) h sid b d pre ws (evalInit (b 0) (d 0)).1 (evalInit (b 0) (d 0)).2).1
        + (1 ^^^ b (pre.length + 1)) := by
    intro b d ws
    rw [← eval_fst h sid b d ws (d 0), evalLevels_fst, evalLevels_fst]
    conv => lhs; rw [hlast]
    rw [List.foldl_append]
    rfl
  have hxr := xor_one_le _ hlr
  have hxg := xor_one_le _ hlg
  have hyg := hys g (fun i => sel (g i) (keys i)) (hWords h sid keys)
  have hyr := hys r dkr (hWords h sid keys)
  have hfr : (evalLevels (m := Id) h sid r dkr pre (hWords h sid keys) (evalInit (r 0) (dkr 0)).1 (evalInit (r 0) (dkr 0)).2).1
      = (evalLevels (m := Id) h sid g (fun i => sel (g i) (keys i)) pre (hWords h sid keys)
          (evalInit (g 0) (sel (g 0) (keys 0))).1 (evalInit (g 0) (sel (g 0) (keys 0))).2).1 := by
    omega
  have hrstar : ystarOf r = 2 * (evalLevels (m := Id) h sid g (fun i => sel (g i) (keys i)) pre (hWords h sid keys)
          (evalInit (g 0) (sel (g 0) (keys 0))).1 (evalInit (g 0) (sel (g 0) (keys 0))).2).1 + g (pre.length + 1) := by
    rw [hyr, hfr]
    have : 1 ^^^ r (pre.length + 1) = g (pre.length + 1) := by
      rw [hgs]
      have h1 : r (pre.length + 1) = 0 ∨ r (pre.length + 1) = 1 := by omega
      have h2 : side = 0 ∨ side = 1 := by omega
      rcases h1 with h1 | h1 <;> rcases h2 with h2 | h2 <;> simp [h1, h2] at hnr ⊢
    rw [this]
  have hinvr := honest_inv h sid keys r dkr hc pre [] (pre.length + 1) hlast
  have hinvg := honest_inv h sid keys g _ hcg pre [] (pre.length + 1) hlast
  intro y hy
  -- the receiver avoids the word
  have hL : (recvEval h sid keys (pre.length + 1) side delta r dkr).2[y]? = (hLeaves h sid keys)[y]? := by
    unfold recvEval
    rw [avoid_eval h sid keys r dkr hc pre [] (pre.length + 1) hlast side delta hs hnr]
    exact hinvr.eq y hy
  rw [hL]
  have hf : (guessEval h sid keys (pre.length + 1) side delta g).1 = ystarOf g := eval_fst h sid g _ _ _
  unfold advLeaves
  rw [hf, List.getElem?_set]
  by_cases hyg' : ystarOf g = y
  · subst hyg'
    have hlt : ystarOf g < (hLeaves h sid keys).length := hinvg.lt
    have hlen : (guessEval h sid keys (pre.length + 1) side delta g).2.length = Q := eval_len h sid _ _ _ _ _
    have hq : (hLeaves h sid keys).length = Q := by
      rw [← hinvg.len]; exact eval_len h sid _ _ _ _ _
    simp [hlen, ← hq, hlt, List.getD_eq_getElem?_getD]
  · simp only [hyg', if_false]
    have hne : y ≠ 2 * (evalLevels (m := Id) h sid g (fun i => sel (g i) (keys i)) pre (hWords h sid keys)
          (evalInit (g 0) (sel (g 0) (keys 0))).1 (evalInit (g 0) (sel (g 0) (keys 0))).2).1 + g (pre.length + 1) := by
      rw [← hrstar]; exact hy
    have hll := last_level_others h sid g (fun i => sel (g i) (keys i)) pre (pre.length + 1) (hWords h sid keys) side delta _ _ y hne
    have hE : (guessEval h sid keys (pre.length + 1) side delta g).2[y]?
        = (evalLevels (m := Id) h sid g (fun i => sel (g i) (keys i)) levels (hWords h sid keys)
            (evalInit (g 0) (sel (g 0) (keys 0))).1 (evalInit (g 0) (sel (g 0) (keys 0))).2).2[y]? := by
      unfold guessEval
      conv => lhs; rw [hlast]
      conv => rhs; rw [hlast]
      exact hll
    rw [hE]
    exact (hinvg.eq y (fun e => hyg' e.symm)).symm

end cases

/-! ### acceptance of the adversary's message, generic in the position of the corrupted level -/

theorem advAccepts_iff (level side : Nat) (guess bit : Nat → Nat) :
    advAccepts level side guess bit = true ↔
      (if guess level ≠ side then bit level ≠ side
       else ∀ i < K, (level = K - 1 ∧ i = K - 1) ∨ bit i = guess i) := by
  unfold advAccepts
  split
  · simp
  · simp [List.all_eq_true, List.mem_range]

section generic
variable (keys : Nat → Bytes × Bytes) (r : Nat → Nat) (dkr : Nat → Bytes) (hc : Consistent keys r dkr)
variable (g : Nat → Nat) (hg : ∀ i < K, g i ≤ 1)
variable (pre post : List Nat) (hlv : levels = pre ++ (pre.length + 1) :: post)
variable (side : Nat) (hs : side ≤ 1) (delta : Bytes)
variable (hprefix : ystarOf r / 2 ^ (post.length + 1) = ystarOf g / 2 ^ (post.length + 1) ↔ ∀ i < pre.length + 1, r i = g i)
variable (hpostK : post = [] ↔ pre.length + 1 = K - 1)

include hc hg hlv hs hprefix hpostK in
theorem adv_accepts_generic
    (hA : if g (pre.length + 1) ≠ side then r (pre.length + 1) ≠ side
          else ∀ i < K, (pre.length + 1 = K - 1 ∧ i = K - 1) ∨ r i = g i) :
    (evalTree (m := Id) h sid r dkr (advTree (m := Id) h sid keys (pre.length + 1) side delta g)).isSome := by
  refine adv_accept_of_leaves h sid keys (pre.length + 1) side delta g r dkr (fun i hi => (hc i hi).1) ?_
  by_cases hgs : g (pre.length + 1) = side
  · rw [if_neg (by simpa using hgs)] at hA
    by_cases hall : ∀ i < K, r i = g i
    · exact leaves_eq_same h sid keys r dkr hc g pre side delta hall
    · -- last level, all earlier bits agree, the last one does not
      have hex : ∃ i, i < K ∧ r i ≠ g i := by
        apply Classical.byContradiction; intro hne
        apply hall
        intro i hi
        apply Classical.byContradiction; intro hri
        exact hne ⟨i, hi, hri⟩
      obtain ⟨i, hi, hri⟩ := hex
      have hlast : pre.length + 1 = K - 1 := by
        rcases hA i hi with ⟨h1, _⟩ | h1
        · exact h1
        · exact absurd h1 hri
      have hi' : i = K - 1 := by
        rcases hA i hi with ⟨_, h2⟩ | h1
        · exact h2
        · exact absurd h1 hri
      have hpost : post = [] := hpostK.mpr hlast
      subst hpost
      have hbits : ∀ j < pre.length + 1, r j = g j := by
        intro j hj
        rcases hA j (by have : K - 1 < K := by decide
                        omega) with ⟨_, h2⟩ | h1
        · omega
        · exact h1
      have hpre := hprefix.mpr hbits
      simp only [List.length_nil, Nat.zero_add, Nat.pow_one] at hpre
      have hnr : r (pre.length + 1) ≠ side := by
        rw [← hgs, hlast, ← hi']; exact hri
      exact leaves_eq_last h sid keys r dkr hc g hg pre side hs delta hlv hgs hnr hpre
  · rw [if_pos hgs] at hA
    exact leaves_eq_avoid h sid keys r dkr hc g hg pre post hlv side hs delta hgs hA

include hc hg hlv hs hprefix in
theorem adv_rejects_generic (hG : PrgNoCollision h sid) (hdl : delta.length = KB) (hδ : delta ≠ zeros KB)
    (hSame : g (pre.length + 1) = side → pre.length + 1 < K - 1 → (∀ i < pre.length + 1, r i = g i) → ¬ (∀ i < K, r i = g i) →
      ∃ y, y ≠ ystarOf r ∧ (recvEval h sid keys (pre.length + 1) side delta r dkr).2[y]? ≠
        (advLeaves h sid keys (pre.length + 1) side delta g)[y]?)
    (heq : ∀ y, y ≠ ystarOf r → (recvEval h sid keys (pre.length + 1) side delta r dkr).2[y]? =
        (advLeaves h sid keys (pre.length + 1) side delta g)[y]?) :
    if g (pre.length + 1) ≠ side then r (pre.length + 1) ≠ side
    else ∀ i < K, (pre.length + 1 = K - 1 ∧ i = K - 1) ∨ r i = g i := by
  by_cases hgs : g (pre.length + 1) = side
  · rw [if_neg (by simpa using hgs)]
    have hpre : ystarOf r / 2 ^ (post.length + 1) = ystarOf g / 2 ^ (post.length + 1) := by
      apply Classical.byContradiction; intro hne
      obtain ⟨y, hy, hyne⟩ := leaves_ne_prefix h sid keys r dkr hc g hg pre post hlv side delta hG hdl hδ hgs hne
      exact hyne (heq y hy)
    have hbits := hprefix.mp hpre
    by_cases hlast : pre.length + 1 = K - 1
    · intro i hi
      by_cases hik : i = K - 1
      · exact Or.inl ⟨hlast, hik⟩
      · exact Or.inr (hbits i (by omega))
    · have hlt : pre.length + 1 < K - 1 := by
        have hmem : pre.length + 1 ∈ levels := by rw [hlv]; simp
        have := mem_levels_lt hmem
        omega
      by_cases hall : ∀ i < K, r i = g i
      · intro i hi; exact Or.inr (hall i hi)
      · obtain ⟨y, hy, hyne⟩ := hSame hgs hlt hbits hall
        exact absurd (heq y hy) hyne
  · rw [if_pos hgs]
    intro hr
    obtain ⟨y, hy, hyne⟩ := leaves_ne_recv_uses h sid keys r dkr hc g hg pre post hlv side hs delta hG hdl hδ hgs hr
    exact hyne (heq y hy)

end generic

/-! ### the punctured index as a number -/

theorem ystarOf_explicit (b : Nat → Nat) :
    ystarOf b = 8 * (1 ^^^ b 0) + 4 * (1 ^^^ b 1) + 2 * (1 ^^^ b 2) + (1 ^^^ b 3) := by
  simp only [ystarOf, show K = 4 from rfl, List.range_succ, List.range_zero, List.nil_append, List.cons_append,
    List.foldl_cons, List.foldl_nil]
  omega

theorem xor_one_inj (a b : Nat) (ha : a ≤ 1) (hb : b ≤ 1) : (1 ^^^ a = 1 ^^^ b) ↔ a = b := by
  have h1 : a = 0 ∨ a = 1 := by omega
  have h2 : b = 0 ∨ b = 1 := by omega
  rcases h1 with rfl | rfl <;> rcases h2 with rfl | rfl <;> decide

/-- two punctured paths share the ancestor of depth `n` iff the first `n` choice bits agree -/
theorem ystar_prefix (r g : Nat → Nat) (hr : ∀ i < K, r i ≤ 1) (hg : ∀ i < K, g i ≤ 1) (n : Nat) (hn : n ≤ 3) :
    ystarOf r / 2 ^ (4 - n) = ystarOf g / 2 ^ (4 - n) ↔ ∀ i < n, r i = g i := by
  rw [ystarOf_explicit r, ystarOf_explicit g]
  have r0 := xor_one_le _ (hr 0 (by decide))
  have r1 := xor_one_le _ (hr 1 (by decide))
  have r2 := xor_one_le _ (hr 2 (by decide))
  have r3 := xor_one_le _ (hr 3 (by decide))
  have g0 := xor_one_le _ (hg 0 (by decide))
  have g1 := xor_one_le _ (hg 1 (by decide))
  have g2 := xor_one_le _ (hg 2 (by decide))
  have g3 := xor_one_le _ (hg 3 (by decide))
  have i0 := xor_one_inj (r 0) (g 0) (hr 0 (by decide)) (hg 0 (by decide))
  have i1 := xor_one_inj (r 1) (g 1) (hr 1 (by decide)) (hg 1 (by decide))
  have i2 := xor_one_inj (r 2) (g 2) (hr 2 (by decide)) (hg 2 (by decide))
  have hcase : n = 0 ∨ n = 1 ∨ n = 2 ∨ n = 3 := by omega
  rcases hcase with rfl | rfl | rfl | rfl
  · constructor
    · intro _ i hi; omega
    · intro _
      show _ / 16 = _ / 16
      omega
  · constructor
    · intro e i hi
      have e' : (8 * (1 ^^^ r 0) + 4 * (1 ^^^ r 1) + 2 * (1 ^^^ r 2) + (1 ^^^ r 3)) / 8
          = (8 * (1 ^^^ g 0) + 4 * (1 ^^^ g 1) + 2 * (1 ^^^ g 2) + (1 ^^^ g 3)) / 8 := e
      have hi0 : i = 0 := by omega
      subst hi0
      exact i0.mp (by omega)
    · intro e
      show _ / 8 = _ / 8
      rw [i0.mpr (e 0 (by omega))]
      omega
  · constructor
    · intro e i hi
      have e' : (8 * (1 ^^^ r 0) + 4 * (1 ^^^ r 1) + 2 * (1 ^^^ r 2) + (1 ^^^ r 3)) / 4
          = (8 * (1 ^^^ g 0) + 4 * (1 ^^^ g 1) + 2 * (1 ^^^ g 2) + (1 ^^^ g 3)) / 4 := e
      have hi' : i = 0 ∨ i = 1 := by omega
      rcases hi' with rfl | rfl
      · exact i0.mp (by omega)
      · exact i1.mp (by omega)
    · intro e
      show _ / 4 = _ / 4
      rw [i0.mpr (e 0 (by omega)), i1.mpr (e 1 (by omega))]
      omega
  · constructor
    · intro e i hi
      have e' : (8 * (1 ^^^ r 0) + 4 * (1 ^^^ r 1) + 2 * (1 ^^^ r 2) + (1 ^^^ r 3)) / 2
          = (8 * (1 ^^^ g 0) + 4 * (1 ^^^ g 1) + 2 * (1 ^^^ g 2) + (1 ^^^ g 3)) / 2 := e
      have hi' : i = 0 ∨ i = 1 ∨ i = 2 := by omega
      rcases hi' with rfl | rfl | rfl
      · exact i0.mp (by omega)
      · exact i1.mp (by omega)
      · exact i2.mp (by omega)
    · intro e
      show _ / 2 = _ / 2
      rw [i0.mpr (e 0 (by omega)), i1.mpr (e 1 (by omega)), i2.mpr (e 2 (by omega))]
      omega

end SlVerif.Pprf
