import SlVerif.Model.SoftSpoken
import SlVerif.Props.C19
/-
  C03 / C04 helper lemmas, part 1: the pure cores of Model/SoftSpoken.lean
    xorAll / mask / seg / checkRow (GF(2^128)-linearity, from C19), ofBits / transpose / packedNabla (bit access),
    the per-block identity of the all-but-one trick, byte layout of the choice vector.
-/
namespace SlVerif.SoftSpoken
open SlVerif SlVerif.Generated

/-! ### xorAll, mask -/

theorem foldl_xor_init (l : List ℕ) (a : ℕ) : l.foldl (· ^^^ ·) a = a ^^^ l.foldl (· ^^^ ·) 0 := by
  induction l generalizing a with
  | nil => simp
  | cons x xs ih =>
    simp only [List.foldl_cons]
    rw [ih (a ^^^ x), ih (0 ^^^ x)]
    simp [Nat.xor_assoc]

@[simp] theorem xorAll_nil : xorAll [] = 0 := rfl

theorem xorAll_cons (x : ℕ) (l : List ℕ) : xorAll (x :: l) = x ^^^ xorAll l := by
  unfold xorAll
  simp only [List.foldl_cons]
  rw [foldl_xor_init]
  simp

theorem xorAll_map_xor (l : List ℕ) (f g : ℕ → ℕ) :
    xorAll (l.map fun x => f x ^^^ g x) = xorAll (l.map f) ^^^ xorAll (l.map g) := by
  induction l with
  | nil => simp
  | cons x xs ih =>
    simp only [List.map_cons, xorAll_cons, ih]
    simp only [Nat.xor_assoc]
    congr 1
    rw [← Nat.xor_assoc, Nat.xor_comm (g x), Nat.xor_assoc]

@[simp] theorem mask_false (r : ℕ) : mask false r = 0 := rfl
@[simp] theorem mask_true (r : ℕ) : mask true r = r := rfl
@[simp] theorem mask_zero (t : Bool) : mask t 0 = 0 := by cases t <;> rfl

theorem mask_xor (t : Bool) (a b : ℕ) : mask t (a ^^^ b) = mask t a ^^^ mask t b := by
  cases t <;> simp

theorem testBit_mask (t : Bool) (r k : ℕ) : (mask t r).testBit k = (t && r.testBit k) := by
  cases t <;> simp

theorem xorAll_map_mask (t : Bool) (l : List ℕ) (f : ℕ → ℕ) :
    xorAll (l.map fun x => mask t (f x)) = mask t (xorAll (l.map f)) := by
  induction l with
  | nil => simp
  | cons x xs ih => simp only [List.map_cons, xorAll_cons, ih, mask_xor]

theorem xorAll_map_zero (l : List ℕ) : xorAll (l.map fun _ => 0) = 0 := by
  induction l with
  | nil => simp
  | cons x xs ih => simp only [List.map_cons, xorAll_cons, ih]; rfl

theorem xorAll_lt (n : ℕ) (l : List ℕ) (h : ∀ x ∈ l, x < 2 ^ n) : xorAll l < 2 ^ n := by
  induction l with
  | nil => simp
  | cons x xs ih =>
    rw [xorAll_cons]
    exact Nat.xor_lt_two_pow (h x (by simp)) (ih fun y hy => h y (by simp [hy]))

theorem xorAll_map_congr (l : List ℕ) (f g : ℕ → ℕ) (h : ∀ x ∈ l, f x = g x) :
    xorAll (l.map f) = xorAll (l.map g) := by
  rw [List.map_congr_left h]

/-- a ^^^ b = a ^^^ c ↔ b = c -/
theorem xor_right_inj' {a b c : ℕ} : a ^^^ b = a ^^^ c ↔ b = c := by
  constructor
  · intro h
    have := congrArg (a ^^^ ·) h
    simpa [← Nat.xor_assoc] using this
  · rintro rfl; rfl

/-! ### the per-block identity (all-but-one trick) -/

/-- The sender, who knows every expansion of the block except the one at its punctured index δ (zeroed) and receives
    `u = ⊕_j r_j ⊕ c`, computes in row `b` of the block the receiver's row xor `δ_b · c`. -/
theorem block_identity (r : ℕ → ℕ) (c δ b : ℕ) :
    sendW (fun j => if j = δ then 0 else r j) δ (recvU r c) b = recvV r b ^^^ mask (δ.testBit b) c := by
  have hterm : ∀ x, mask ((δ ^^^ x).testBit b) (if x = δ then 0 else r x)
      = mask (δ.testBit b) (r x) ^^^ mask (x.testBit b) (r x) := by
    intro x
    by_cases hx : x = δ
    · subst hx; simp
    · simp only [hx, if_false, Nat.testBit_xor]
      cases δ.testBit b <;> cases x.testBit b <;> simp
  unfold sendW recvU recvV
  simp only [hterm, xorAll_map_xor, xorAll_map_mask, mask_xor]
  generalize xorAll (List.map r (List.range SOFT_SPOKEN_Q)) = R
  generalize xorAll (List.map (fun x => mask (x.testBit b) (r x)) (List.range SOFT_SPOKEN_Q)) = V
  cases δ.testBit b <;> simp
  rw [Nat.xor_comm R V, Nat.xor_assoc, ← Nat.xor_assoc R R, Nat.xor_self, Nat.zero_xor]

/-- `sendW` only reads the expansions `r j` for `j < Q` -/
theorem sendW_congr (r r' : ℕ → ℕ) (δ u b : ℕ) (h : ∀ j < SOFT_SPOKEN_Q, r j = r' j) :
    sendW r δ u b = sendW r' δ u b := by
  unfold sendW
  rw [xorAll_map_congr _ _ _ (fun x hx => by rw [h x (List.mem_range.mp hx)])]

/-! ### segments and the check value -/

theorem two_pow_S : 2 ^ S = 2 ^ 128 := rfl

theorem seg_lt (r j : ℕ) : seg r j < 2 ^ 128 := by
  unfold seg; rw [two_pow_S]; exact Nat.mod_lt _ (Nat.two_pow_pos 128)

theorem seg_xor (a b j : ℕ) : seg (a ^^^ b) j = seg a j ^^^ seg b j := by
  unfold seg; rw [Nat.shiftRight_xor_distrib, Nat.xor_mod_two_pow]

@[simp] theorem seg_zero (j : ℕ) : seg 0 j = 0 := by unfold seg; simp

theorem seg_mask (t : Bool) (r j : ℕ) : seg (mask t r) j = mask t (seg r j) := by
  cases t <;> simp

theorem gfmul_zero_left (c : ℕ) (hc : c < 2 ^ 128) : Gf.mul 0 c = 0 := by
  have h := C19.mul_xor_left 0 0 c (by norm_num) (by norm_num) hc
  simp only [Nat.xor_self] at h
  exact h

/-- every challenge field element is a 128-bit value (true of anything read into a 16-byte buffer) -/
def ChiOk (chi : List ℕ) : Prop := ∀ j, chi.getD j 0 < 2 ^ 128

theorem checkRow_xor (chi : List ℕ) (hchi : ChiOk chi) (a b : ℕ) :
    checkRow chi (a ^^^ b) = checkRow chi a ^^^ checkRow chi b := by
  unfold checkRow
  have : (fun j => Gf.mul (seg (a ^^^ b) j) (chi.getD j 0))
      = fun j => Gf.mul (seg a j) (chi.getD j 0) ^^^ Gf.mul (seg b j) (chi.getD j 0) := by
    funext j
    rw [seg_xor, C19.mul_xor_left _ _ _ (seg_lt a j) (seg_lt b j) (hchi j)]
  rw [this, xorAll_map_xor, seg_xor]
  generalize xorAll (List.map (fun j => Gf.mul (seg a j) (chi.getD j 0)) _) = A
  generalize xorAll (List.map (fun j => Gf.mul (seg b j) (chi.getD j 0)) _) = B
  simp only [Nat.xor_assoc]
  congr 1
  rw [← Nat.xor_assoc, Nat.xor_comm B, Nat.xor_assoc]

theorem checkRow_zero (chi : List ℕ) (hchi : ChiOk chi) : checkRow chi 0 = 0 := by
  unfold checkRow
  have : (fun j => Gf.mul (seg 0 j) (chi.getD j 0)) = fun _ => 0 := by
    funext j; rw [seg_zero, gfmul_zero_left _ (hchi j)]
  rw [this, xorAll_map_zero, seg_zero]; rfl

theorem checkRow_mask (chi : List ℕ) (hchi : ChiOk chi) (t : Bool) (r : ℕ) :
    checkRow chi (mask t r) = mask t (checkRow chi r) := by
  cases t
  · simp [checkRow_zero chi hchi]
  · simp

/-! ### ofBits, transpose, packedNabla -/

theorem testBit_ofBits (l : List Bool) (i : ℕ) : (ofBits l).testBit i = l.getD i false := by
  induction l generalizing i with
  | nil => simp [ofBits]
  | cons b bs ih =>
    cases i with
    | zero =>
      simp only [ofBits, Nat.testBit_zero, List.getD_cons_zero]
      cases b <;> simp
    | succ i =>
      rw [Nat.testBit_succ, List.getD_cons_succ, ← ih]
      congr 1
      simp only [ofBits]
      cases b <;> simp
      omega

theorem ofBits_lt (l : List Bool) : ofBits l < 2 ^ l.length := by
  induction l with
  | nil => simp [ofBits]
  | cons b bs ih =>
    simp only [ofBits, List.length_cons, pow_succ]
    cases b <;> simp <;> omega

theorem getD_map_range {α : Type} (n : ℕ) (f : ℕ → α) (k : ℕ) (d : α) :
    ((List.range n).map f).getD k d = if k < n then f k else d := by
  by_cases h : k < n
  · rw [if_pos h, List.getD_eq_getElem _ _ (by simpa using h)]; simp
  · rw [if_neg h, List.getD_eq_default _ _ (by simpa using h)]

theorem transposeRow_testBit (rows : List ℕ) (j i : ℕ) :
    (transposeRow rows j).testBit i = (rows.getD i 0).testBit j := by
  unfold transposeRow
  rw [testBit_ofBits]
  have := List.getD_map rows 0 (n := i) (fun r : ℕ => r.testBit j)
  simpa using this

theorem transposeRow_lt (rows : List ℕ) (j : ℕ) : transposeRow rows j < 2 ^ rows.length := by
  unfold transposeRow
  simpa using ofBits_lt (rows.map (·.testBit j))

theorem getD_take_transpose (rows : List ℕ) (j : ℕ) (hj : j < L) :
    ((transpose rows).take L).getD j 0 = transposeRow rows j := by
  have hL : L ≤ L_PRIME := by decide
  have h1 : j < ((transpose rows).take L).length := by
    simp [transpose, List.length_take]; omega
  rw [List.getD_eq_getElem _ _ h1]
  simp [transpose]

theorem length_take_transpose (rows : List ℕ) : ((transpose rows).take L).length = L := by
  have hL : L ≤ L_PRIME := by decide
  simp [transpose, List.length_take]; omega

theorem packedNabla_testBit (rc : List ℕ) (k : ℕ) :
    (packedNabla rc).testBit k
      = (decide (k < LAMBDA_C) && (rc.getD (k / SOFT_SPOKEN_K) 0).testBit (k % SOFT_SPOKEN_K)) := by
  unfold packedNabla
  rw [testBit_ofBits, getD_map_range]
  by_cases h : k < LAMBDA_C <;> simp [h]

theorem packedNabla_lt (rc : List ℕ) : packedNabla rc < 2 ^ LAMBDA_C := by
  unfold packedNabla
  simpa using ofBits_lt ((List.range LAMBDA_C).map fun k => (rc.getD (k / SOFT_SPOKEN_K) 0).testBit (k % SOFT_SPOKEN_K))

/-- a non-zero `packed_nabla` has a set bit below LAMBDA_C -/
theorem packedNabla_ne_zero (rc : List ℕ) (h : packedNabla rc ≠ 0) :
    ∃ k, k < LAMBDA_C ∧ (packedNabla rc).testBit k = true := by
  obtain ⟨k, hk⟩ := Nat.exists_testBit_of_ne_zero h
  exact ⟨k, by
    rw [packedNabla_testBit] at hk
    simp only [Bool.and_eq_true, decide_eq_true_eq] at hk
    exact hk.1, hk⟩

/-- the sender's transposed row is the receiver's transposed row xor `c_j · nabla` -/
theorem transposeRow_xor_mask (V W : List ℕ) (c nabla j : ℕ) (hV : V.length = LAMBDA_C) (hW : W.length = LAMBDA_C)
    (hn : nabla < 2 ^ LAMBDA_C)
    (h : ∀ k < LAMBDA_C, W.getD k 0 = V.getD k 0 ^^^ mask (nabla.testBit k) c) :
    transposeRow W j = transposeRow V j ^^^ mask (c.testBit j) nabla := by
  apply Nat.eq_of_testBit_eq
  intro k
  rw [Nat.testBit_xor, transposeRow_testBit, transposeRow_testBit, testBit_mask]
  by_cases hk : k < LAMBDA_C
  · rw [h k hk, Nat.testBit_xor, testBit_mask, Bool.and_comm]
  · have hk' : LAMBDA_C ≤ k := Nat.le_of_not_lt hk
    rw [List.getD_eq_default _ _ (by omega), List.getD_eq_default _ _ (by omega)]
    have : nabla.testBit k = false :=
      Nat.testBit_lt_two_pow (lt_of_lt_of_le hn (Nat.pow_le_pow_right (by norm_num) hk'))
    simp [this]

/-! ### byte layout -/

theorem leToNat_lt (bs : List ℕ) (hb : ∀ x ∈ bs, x < 256) : leToNat bs < 2 ^ (8 * bs.length) := by
  induction bs with
  | nil => simp [leToNat]
  | cons b bs ih =>
    have h1 := hb b (by simp)
    have h2 := ih fun x hx => hb x (by simp [hx])
    simp only [leToNat, List.length_cons]
    have : 2 ^ (8 * (bs.length + 1)) = 256 * 2 ^ (8 * bs.length) := by
      rw [Nat.mul_add, pow_add]; norm_num; ring
    omega

theorem leToNat_append (a b : List ℕ) : leToNat (a ++ b) = 2 ^ (8 * a.length) * leToNat b + leToNat a := by
  induction a with
  | nil => simp [leToNat]
  | cons x xs ih =>
    simp only [List.cons_append, leToNat, ih, List.length_cons]
    have : 2 ^ (8 * (xs.length + 1)) = 256 * 2 ^ (8 * xs.length) := by
      rw [Nat.mul_add, pow_add]; norm_num; ring
    rw [this]; ring

/-- bit `j` of `extended_packed_choices` is `choices.extract_bit(j)` for `j < L` -/
theorem extChoices_testBit (choices : Bytes) (tape : Tape) (hlen : choices.length = L_BYTES)
    (hb : ∀ x ∈ choices, x < 256) (j : ℕ) (hj : j < L) :
    (extChoices choices tape).1.testBit j = (choices.getD (j / 8) 0).testBit (j % 8) := by
  have hL : L = 8 * L_BYTES := by decide
  have hj8 : j / 8 < choices.length := by rw [hlen]; omega
  unfold extChoices
  simp only [Tape.take, rowOf]
  rw [Nat.testBit_mod_two_pow, leToNat_append, Nat.testBit_two_pow_mul_add _ (leToNat_lt choices hb)]
  have h1 : j < 8 * L_PRIME_BYTES := by
    have : L ≤ 8 * L_PRIME_BYTES := by decide
    omega
  have h2 : j < 8 * choices.length := by rw [hlen]; omega
  simp only [h1, h2, decide_true, Bool.true_and, if_true]
  have := C19.leToNat_testBit choices hb (j / 8) (j % 8) hj8 (Nat.mod_lt _ (by norm_num))
  rw [Nat.div_add_mod] at this
  rw [this, List.getD_eq_getElem _ _ hj8]

theorem leToNat_natToLe (len n : ℕ) : leToNat (natToLe len n) = n % 2 ^ (8 * len) := by
  induction len generalizing n with
  | zero => simp [natToLe, leToNat, Nat.mod_one]
  | succ k ih =>
    simp only [natToLe, leToNat, ih]
    have : 2 ^ (8 * (k + 1)) = 256 * 2 ^ (8 * k) := by
      rw [Nat.mul_add, pow_add]; norm_num; ring
    rw [this, Nat.mod_mul, Nat.add_comm]

theorem natToLe_inj (len a b : ℕ) (ha : a < 2 ^ (8 * len)) (hb : b < 2 ^ (8 * len))
    (h : natToLe len a = natToLe len b) : a = b := by
  have := congrArg leToNat h
  rwa [leToNat_natToLe, leToNat_natToLe, Nat.mod_eq_of_lt ha, Nat.mod_eq_of_lt hb] at this

end SlVerif.SoftSpoken
