import SlVerif.Model.Math
import SlVerif.Proofs.FieldInst
import Mathlib.Algebra.Polynomial.Derivative
import Mathlib.Algebra.Polynomial.Eval.Defs
import Mathlib.Algebra.BigOperators.Group.Finset.Basic
import Mathlib.Algebra.Module.Basic
import Mathlib.Data.Nat.Factorial.Basic
import Mathlib.Tactic.Ring
import Mathlib.Tactic.NormNum

/-
  Helper lemmas for C13: the executable model `SlVerif.Math` (Model/Math.lean) at a Mathlib field `F` and an `F`-module `G`.
    * `ModuleOps.ofModule`: the model's group interface interpreted in a Mathlib module (`smul p a = a • p`);
    * the `FACT` table holds real factorials below 2^64, `factorialRange_eq` (both branches);
    * sum forms of `evaluateAt`, `derivativeAt`, `gEvaluateAt`; relation to `Polynomial.derivative`;
    * commitment lemmas.
-/
namespace SlVerif

instance ModuleOps.ofModule {F G : Type} [Field F] [AddCommGroup G] [Module F G] [DecidableEq G] :
    ModuleOps F G where
  zero := 0
  add a b := a + b
  smul p a := a • p
  isZero p := decide (p = 0)
  beq p q := decide (p = q)

namespace ModuleOps
variable {F G : Type} [Field F] [AddCommGroup G] [Module F G] [DecidableEq G]
@[simp] theorem ofModule_zero : (ModuleOps.zero F : G) = 0 := rfl
@[simp] theorem ofModule_add (a b : G) : ModuleOps.add F a b = a + b := rfl
@[simp] theorem ofModule_smul (p : G) (a : F) : ModuleOps.smul p a = a • p := rfl
@[simp] theorem ofModule_isZero (p : G) : ModuleOps.isZero F p = decide (p = 0) := rfl
@[simp] theorem ofModule_beq (p q : G) : ModuleOps.beq F p q = decide (p = q) := rfl
end ModuleOps

namespace Math
open Polynomial Finset

theorem sum_map_zipIdx {α M : Type} [AddCommMonoid M] (d : α) (f : α × ℕ → M) (l : List α) (k : ℕ) :
    ((l.zipIdx k).map f).sum = ∑ i ∈ range l.length, f (l.getD i d, k + i) := by
  induction l generalizing k with
  | nil => simp
  | cons a l ih =>
    simp only [List.zipIdx_cons, List.map_cons, List.sum_cons, List.length_cons]
    rw [Finset.sum_range_succ', ih, add_comm]
    congr 1
    apply Finset.sum_congr rfl
    intro i _
    simp [Nat.add_assoc, Nat.add_comm 1 i]

theorem drop_zipIdx {α : Type} (l : List α) (n k : ℕ) : (l.zipIdx k).drop n = (l.drop n).zipIdx (k + n) := by
  induction n generalizing l k with
  | zero => simp
  | succ n ih =>
    cases l with
    | nil => simp
    | cons a l => simp [ih, Nat.add_assoc, Nat.add_comm 1 n]


variable {F : Type} [Field F] [DecidableEq F]

theorem FACT_length : FACT.length = FACT_LEN := by decide

theorem FACT_eq_factorial : ∀ i, i < FACT_LEN → FACT.getD i 0 = i.factorial := by decide

theorem FACT_lt_u64 : ∀ v ∈ FACT, v < 2 ^ 64 := by decide


omit [DecidableEq F] in
theorem range'_fold_eq (s k : ℕ) :
    (List.range' (s+1) k).foldl (fun (acc : F) (x : ℕ) => acc * (x : F)) 1 = (((s + k).descFactorial k : ℕ) : F) := by
  induction k with
  | zero => simp
  | succ k ih =>
    rw [List.range'_concat, List.foldl_append, ih]
    simp only [List.foldl_cons, List.foldl_nil]
    rw [show s + (k + 1) = (s + k) + 1 by ring, Nat.succ_descFactorial_succ]
    push_cast
    ring

theorem factorialRange_eq (s e : ℕ) (h : s ≤ e) :
    (factorialRange s e : F) = ((e.descFactorial (e - s) : ℕ) : F) := by
  unfold factorialRange
  split
  · rename_i he
    have hs : s < FACT_LEN := lt_of_le_of_lt h he
    rw [FACT_eq_factorial e he, FACT_eq_factorial s hs]
    simp only [FieldOps.ofField_ofNat]
    congr 1
    apply Nat.div_eq_of_eq_mul_right (Nat.factorial_pos s)
    have := Nat.factorial_mul_descFactorial (Nat.sub_le e s)
    rw [Nat.sub_sub_self h] at this
    exact this.symm
  · simp only [FieldOps.ofField_ofNat, FieldOps.ofField_mul, Nat.cast_one]
    have := range'_fold_eq (F := F) s (e - s)
    rw [Nat.add_sub_cancel' h] at this
    exact this



/-- the polynomial with coefficient list `l` : `Σ l[i]·X^i` -/
noncomputable def ofCoeffs (l : List F) : F[X] := ∑ i ∈ range l.length, C (l.getD i 0) * X ^ i

omit [DecidableEq F] in
theorem coeff_ofCoeffs (l : List F) (k : ℕ) : (ofCoeffs l).coeff k = l.getD k 0 := by
  unfold ofCoeffs
  rw [finsetSum_coeff]
  simp only [coeff_C_mul, coeff_X_pow, mul_ite, mul_one, mul_zero]
  rw [Finset.sum_ite_eq (range l.length) k]
  split
  · rfl
  · rename_i h
    simp only [mem_range, not_lt] at h
    simp [List.getElem?_eq_none h]

theorem evaluateAt_sum (l : List F) (x : F) :
    evaluateAt l x = ∑ i ∈ range l.length, x ^ i * l.getD i 0 := by
  unfold evaluateAt
  rw [FieldOps.ofField_sum, sum_map_zipIdx (0 : F)]
  simp

theorem evaluateAt_eq (l : List F) (x : F) : evaluateAt l x = eval x (ofCoeffs l) := by
  rw [evaluateAt_sum, ofCoeffs, eval_finsetSum]
  apply Finset.sum_congr rfl
  intro i _
  rw [eval_mul, eval_C, eval_pow, eval_X, mul_comm]

theorem derivativeAt_sum (l : List F) (n : ℕ) (x : F) :
    derivativeAt l n x =
      ∑ j ∈ range (l.length - n), (((j + n).descFactorial n : ℕ) : F) * l.getD (j + n) 0 * x ^ j := by
  unfold derivativeAt
  rw [FieldOps.ofField_sum, drop_zipIdx, sum_map_zipIdx (0 : F)]
  simp only [List.length_drop, zero_add]
  apply Finset.sum_congr rfl
  intro j _
  simp only [FieldOps.ofField_mul, FieldOps.ofField_pow]
  rw [factorialRange_eq _ _ (Nat.sub_le _ _)]
  simp [Nat.add_comm n j, List.getD_eq_getElem?_getD]


/-! ### derivatives -/

theorem getElem?_map_zipIdx {α β : Type} (l : List α) (k i : ℕ) (f : α × ℕ → β) :
    ((l.zipIdx k).map f)[i]? = l[i]?.map fun a => f (a, k + i) := by
  simp only [List.getElem?_map, List.getElem?_zipIdx]
  cases l[i]? <;> simp

/-- coefficient list of the n-th formal derivative (specification side) -/
def derivCoeffs (l : List F) (n : ℕ) : List F :=
  (l.drop n).zipIdx.map fun (c, pos) => (((pos + n).descFactorial n : ℕ) : F) * c

omit [DecidableEq F] in
theorem derivCoeffs_length (l : List F) (n : ℕ) : (derivCoeffs l n).length = l.length - n := by
  simp [derivCoeffs]

omit [DecidableEq F] in
theorem derivCoeffs_getD (l : List F) (n k : ℕ) :
    (derivCoeffs l n).getD k 0 = (((k + n).descFactorial n : ℕ) : F) * l.getD (k + n) 0 := by
  unfold derivCoeffs
  rw [List.getD_eq_getElem?_getD, getElem?_map_zipIdx, List.getD_eq_getElem?_getD, List.getElem?_drop,
    Nat.add_comm n k]
  cases l[k + n]? <;> simp

omit [DecidableEq F] in
theorem ofCoeffs_derivCoeffs (l : List F) (n : ℕ) :
    ofCoeffs (derivCoeffs l n) = derivative^[n] (ofCoeffs l) := by
  ext k
  rw [coeff_ofCoeffs, coeff_iterate_derivative, coeff_ofCoeffs, derivCoeffs_getD, nsmul_eq_mul]

theorem derivativeAt_eq_evaluateAt (l : List F) (n : ℕ) (x : F) :
    derivativeAt l n x = evaluateAt (derivCoeffs l n) x := by
  rw [derivativeAt_sum, evaluateAt_sum, derivCoeffs_length]
  apply Finset.sum_congr rfl
  intro j _
  rw [derivCoeffs_getD]
  ring

theorem derivativeAt_eq (l : List F) (n : ℕ) (x : F) :
    derivativeAt l n x = eval x (derivative^[n] (ofCoeffs l)) := by
  rw [derivativeAt_eq_evaluateAt, evaluateAt_eq, ofCoeffs_derivCoeffs]

/-! ### group side -/
section Group
variable {G : Type} [AddCommGroup G] [Module F G] [DecidableEq G]

theorem evalFold_aux (x : F) (l : List G) (s : G) (p : F) :
    l.foldl (fun (acc : G × F) coeff =>
        (ModuleOps.add F acc.1 (ModuleOps.smul coeff acc.2), FieldOps.mul acc.2 x)) (s, p)
      = (s + ∑ i ∈ range l.length, (p * x ^ i) • l.getD i 0, p * x ^ l.length) := by
  induction l generalizing s p with
  | nil => simp
  | cons a l ih =>
    simp only [List.foldl_cons, ih, List.length_cons, Finset.sum_range_succ']
    simp only [ModuleOps.ofModule_add, ModuleOps.ofModule_smul, FieldOps.ofField_mul, pow_succ', pow_zero,
      mul_one, List.getD_cons_succ, List.getD_cons_zero, mul_assoc]
    refine Prod.ext ?_ rfl
    simp only [add_assoc, add_comm]

theorem gEvaluateAt_sum (l : List G) (x : F) :
    gEvaluateAt l x = ∑ i ∈ range l.length, x ^ i • l.getD i 0 := by
  unfold gEvaluateAt evalFold
  rw [FieldOps.ofField_one, ModuleOps.ofModule_zero, evalFold_aux]
  simp

omit [DecidableEq F] in
theorem commit_getD (g : G) (l : List F) (i : ℕ) : (commit g l).getD i 0 = l.getD i 0 • g := by
  unfold commit
  rw [List.getD_eq_getElem?_getD, List.getElem?_map, List.getD_eq_getElem?_getD]
  cases l[i]? <;> simp

omit [DecidableEq F] in
theorem commit_length (g : G) (l : List F) : (commit g l).length = l.length := by simp [commit]

theorem commit_evaluate (g : G) (l : List F) (x : F) :
    gEvaluateAt (commit g l) x = evaluateAt l x • g := by
  rw [gEvaluateAt_sum, evaluateAt_sum, commit_length, Finset.sum_smul]
  apply Finset.sum_congr rfl
  intro i _
  rw [commit_getD, smul_smul]

theorem derivativeCoeffsCore_eq (gc : List G) (n : ℕ) :
    derivativeCoeffsCore (F := F) gc n =
      (gc.drop n).zipIdx.map fun (u, pos) => (((pos + n).descFactorial n : ℕ) : F) • u := by
  unfold derivativeCoeffsCore
  apply List.map_congr_left
  rintro ⟨u, pos⟩ _
  simp only [ModuleOps.ofModule_smul]
  rw [factorialRange_eq _ _ (Nat.le_add_right _ _), Nat.add_sub_cancel_left]

theorem commit_derivativeCore (g : G) (l : List F) (n : ℕ) :
    derivativeCoeffsCore (F := F) (commit g l) n = commit g (derivCoeffs l n) := by
  rw [derivativeCoeffsCore_eq]
  unfold commit derivCoeffs
  rw [← List.map_drop, List.zipIdx_map, List.map_map, List.map_map]
  apply List.map_congr_left
  rintro ⟨c, pos⟩ _
  simp [smul_smul]

end Group

end Math
end SlVerif
