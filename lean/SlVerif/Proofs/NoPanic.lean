import SlVerif.Model.PaillierWire
import SlVerif.Proofs.Relay
import SlVerif.Proofs.Endemic
import SlVerif.Proofs.PprfAll
/-
  C11 helper lemmas.
    1. Paillier wire guards (`Model/PaillierWire.lean`): the guards keep `DynResidueParams::new`, `NonZero::unwrap` and
       `wrapping_div` away from their panicking inputs.
    2. Relay (`Model/Relay.lean`): `startSend` / `serviceSend` never produce `SendResult.panic`; `decodeHdr?` is total.
    3. Error CLASSIFICATION of the base-OT and PPRF entry points (their models are total functions: a no-panic theorem
       would be vacuous; what can be said is exactly which inputs are answered with `Err`).
-/
namespace SlVerif.PaillierWire

theorem odd_mul {a b : Nat} (ha : a % 2 = 1) (hb : b % 2 = 1) : (a * b) % 2 = 1 := by
  rw [Nat.mul_mod, ha, hb]

theorem montParams_ok_iff (m : Nat) : montParams m = .ok ↔ m % 2 = 1 := by
  unfold montParams; split <;> simp_all

theorem montParams_of_odd {m : Nat} (h : m % 2 = 1) : montParams m = .ok := (montParams_ok_iff m).2 h

theorem pos_of_odd {a : Nat} (h : a % 2 = 1) : a ≠ 0 := by
  intro h0; rw [h0] at h; simp at h

/-- behind the guard `SK::from_pq` meets none of its panic sites -/
theorem fromPq_of_odd {p q : Nat} (hp : p % 2 = 1) (hq : q % 2 = 1) : fromPq p q = .ok := by
  have hn : (q * p) % 2 = 1 := odd_mul hq hp
  have hn0 : q * p ≠ 0 := pos_of_odd hn
  unfold fromPq
  rw [montParams_of_odd (odd_mul hn hn)]
  simp only [hn0, if_false]
  rw [montParams_of_odd (odd_mul hp hp)]
  simp only [pos_of_odd hp, if_false]
  rw [montParams_of_odd (odd_mul hq hq)]
  simp only [pos_of_odd hq, if_false]

theorem pkAdmit_eq (n : Nat) : pkAdmit n =
    if n = 0 then .err "invalid value: zero, expected a non-zero value"
    else if n % 2 = 0 then .err "invalid Paillier public key: N must be odd" else .ok := by
  unfold pkAdmit
  split
  · rfl
  · split
    · rfl
    · rename_i h1 h2
      have : n % 2 = 1 := by omega
      exact montParams_of_odd (odd_mul this this)

theorem skAdmit_eq (p q : Nat) : skAdmit p q =
    if p % 2 = 1 ∧ q % 2 = 1 ∧ p ≠ 1 ∧ q ≠ 1 then .ok
    else .err "invalid Paillier secret key: p and q must be odd and greater than one" := by
  unfold skAdmit
  split
  · rename_i h; exact fromPq_of_odd h.1 h.2.1
  · rfl

end SlVerif.PaillierWire

namespace SlVerif.Relay

theorem startSend_ne_panic (s : State) (conn : Nat) (frame : Bytes) (now : Nat) :
    (startSend s conn frame now).2.2 ≠ .panic := by
  unfold startSend
  cases decodeHdr? frame with
  | none => simp
  | some h => simp only; split <;> simp

theorem serviceSend_ne_panic (s : State) (frame : Bytes) (now : Nat) :
    (serviceSend s frame now).2.2 ≠ .panic := by
  unfold serviceSend
  cases decodeHdr? frame with
  | none => simp
  | some h => simp only; split <;> simp

theorem serviceSend_ok (s : State) (frame : Bytes) (now : Nat) : (serviceSend s frame now).2.2 = .ok := by
  unfold serviceSend
  cases decodeHdr? frame with
  | none => rfl
  | some h => simp only; split <;> rfl

theorem startSend_result (s : State) (conn : Nat) (frame : Bytes) (now : Nat) :
    (startSend s conn frame now).2.2 = if frame.length < 36 then .sendError else .ok := by
  unfold startSend
  by_cases hl : frame.length < 36
  · rw [decodeHdr?_eq_none hl, if_pos hl]
  · rw [decodeHdr?_eq_some (by omega), if_neg hl]
    simp only; split <;> rfl

theorem step_ne_panic (y : Sys) (op : Op) : (step y op).2.2 ≠ .panic := by
  cases op with
  | frame c b => exact startSend_ne_panic y.st c b y.now
  | service b => exact serviceSend_ne_panic y.st b y.now
  | tick k => simp [step]

theorem decodeHdr?_none_iff (f : Bytes) : decodeHdr? f = none ↔ f.length < 36 := by
  constructor
  · intro h
    apply Nat.lt_of_not_le
    intro hle
    rw [decodeHdr?_eq_some hle] at h
    cases h
  · exact decodeHdr?_eq_none

end SlVerif.Relay

namespace SlVerif.Endemic
open SlVerif

variable (h : Query → Bytes)

theorem decodePoint_fst (p : Bytes) : (decodePoint (m := Id) h p).1 = true ↔ h (.ecValid K1 p) = [1] := by
  rw [decodePoint_id]; split <;> simp_all

/-- **`EndemicOTSender::process` returns `Err` exactly when some point of message 1 does not decode** -/
theorem sendWith_err_iff (sid : Bytes) (msg1 : List (Bytes × Bytes)) (tb : List Nat) :
    (sendWith (m := Id) h sid msg1 tb).err = true ↔
      ∃ idx, idx < Generated.LAMBDA_C ∧
        ¬ (h (.ecValid K1 (msg1.getD idx (identity33, identity33)).1) = [1] ∧
           h (.ecValid K1 (msg1.getD idx (identity33, identity33)).2) = [1]) := by
  rw [sendWith_id]
  simp only [List.any_eq_true, List.mem_map, List.mem_range]
  constructor
  · rintro ⟨x, ⟨idx, hidx, rfl⟩, hx⟩
    refine ⟨idx, hidx, ?_⟩
    rw [sendInst_id] at hx
    simp only [Bool.not_eq_true', Bool.and_eq_false_iff] at hx
    intro ⟨h1, h2⟩
    rcases hx with hx | hx
    · rw [(decodePoint_fst h _).2 h1] at hx; cases hx
    · rw [(decodePoint_fst h _).2 h2] at hx; cases hx
  · rintro ⟨idx, hidx, hbad⟩
    refine ⟨_, ⟨idx, hidx, rfl⟩, ?_⟩
    rw [sendInst_id]
    simp only [Bool.not_eq_true', Bool.and_eq_false_iff]
    by_cases h1 : h (.ecValid K1 (msg1.getD idx (identity33, identity33)).1) = [1]
    · right
      have h2 : ¬ h (.ecValid K1 (msg1.getD idx (identity33, identity33)).2) = [1] := fun h2 => hbad ⟨h1, h2⟩
      cases hd : (decodePoint (m := Id) h (msg1.getD idx (identity33, identity33)).2).1 with
      | false => rfl
      | true => exact absurd ((decodePoint_fst h _).1 hd) h2
    · left
      cases hd : (decodePoint (m := Id) h (msg1.getD idx (identity33, identity33)).1).1 with
      | false => rfl
      | true => exact absurd ((decodePoint_fst h _).1 hd) h1

theorem sendProcess_err_iff (sid : Bytes) (msg1 : List (Bytes × Bytes)) (tape : Tape) :
    (sendProcess (m := Id) h sid msg1 tape).1.err = true ↔
      ∃ idx, idx < Generated.LAMBDA_C ∧
        ¬ (h (.ecValid K1 (msg1.getD idx (identity33, identity33)).1) = [1] ∧
           h (.ecValid K1 (msg1.getD idx (identity33, identity33)).2) = [1]) := by
  rw [sendProcess_id]; exact sendWith_err_iff h sid msg1 _

/-- **`EndemicOTReceiver::process` returns `Err` exactly when the CHOSEN point of some instance does not decode** (the
    other point is never looked at) -/
theorem recvProcess_err_iff (st : RecvState) (msg2 : List (Bytes × Bytes)) :
    recvProcess (m := Id) h st msg2 = none ↔
      ∃ idx, idx < Generated.LAMBDA_C ∧
        ¬ h (.ecValid K1 (if extractBit st.choiceBits idx = 0 then (msg2.getD idx (identity33, identity33)).1
                          else (msg2.getD idx (identity33, identity33)).2)) = [1] := by
  rw [recvProcess_id]
  constructor
  · intro hn
    split at hn
    · rename_i hany
      simp only [List.any_eq_true, List.mem_map, List.mem_range] at hany
      obtain ⟨x, ⟨idx, hidx, rfl⟩, hx⟩ := hany
      refine ⟨idx, hidx, ?_⟩
      rw [recvProcInst_id] at hx
      simp only [Bool.not_eq_true'] at hx
      intro hv
      rw [(decodePoint_fst h _).2 hv] at hx; cases hx
    · cases hn
  · rintro ⟨idx, hidx, hbad⟩
    rw [if_pos]
    simp only [List.any_eq_true, List.mem_map, List.mem_range]
    refine ⟨_, ⟨idx, hidx, rfl⟩, ?_⟩
    rw [recvProcInst_id]
    simp only [Bool.not_eq_true']
    cases hd : (decodePoint (m := Id) h (if extractBit st.choiceBits idx = 0 then (msg2.getD idx (identity33, identity33)).1
        else (msg2.getD idx (identity33, identity33)).2)).1 with
    | false => rfl
    | true => exact absurd ((decodePoint_fst h _).1 hd) hbad

end SlVerif.Endemic

namespace SlVerif.Pprf
open SlVerif

variable (h : Query → Bytes) (sid : Bytes)

/-- either some tree is rejected (⇒ `Err("Invalid proof")`) or every tree is accepted (⇒ `Ok`, results in order) -/
theorem evalTrees_classify (bits : Bytes) (dks : List Bytes) (l : List (Nat × TreeMsg)) :
    ((∃ p ∈ l, evalTree (m := Id) h sid (treeBit bits p.1) (treeDk dks p.1) p.2 = none) ∧
        evalTrees (m := Id) h sid bits dks l = .error "Invalid proof") ∨
    ((∀ p ∈ l, evalTree (m := Id) h sid (treeBit bits p.1) (treeDk dks p.1) p.2 ≠ none) ∧
        ∃ rs, evalTrees (m := Id) h sid bits dks l = .ok rs) := by
  by_cases hex : ∃ p ∈ l, evalTree (m := Id) h sid (treeBit bits p.1) (treeDk dks p.1) p.2 = none
  · exact .inl ⟨hex, evalTrees_err h sid bits dks l hex⟩
  · right
    have hall : ∀ p ∈ l, evalTree (m := Id) h sid (treeBit bits p.1) (treeDk dks p.1) p.2 ≠ none :=
      fun p hp hn => hex ⟨p, hp, hn⟩
    refine ⟨hall, _, evalTrees_ok h sid bits dks
      (fun p => (evalTree (m := Id) h sid (treeBit bits p.1) (treeDk dks p.1) p.2).getD (0, [])) l ?_⟩
    intro p hp
    cases hev : evalTree (m := Id) h sid (treeBit bits p.1) (treeDk dks p.1) p.2 with
    | none => exact absurd hev (hall p hp)
    | some r => rfl

/-- **`eval_pprf` returns `Err` exactly when the digest check of some tree fails** -/
theorem evalPprf_err_iff (bits : Bytes) (dks : List Bytes) (out : List TreeMsg) :
    (∃ e, evalPprf (m := Id) h sid bits dks out = .error e) ↔
      ∃ j, j < NT ∧ evalTree (m := Id) h sid (treeBit bits j) (treeDk dks j)
                      (out.getD j { t := [], sTilda := [], tTilda := [] }) = none := by
  unfold evalPprf
  rcases evalTrees_classify h sid bits dks
      ((List.range NT).map fun j => (j, out.getD j { t := [], sTilda := [], tTilda := [] })) with ⟨⟨p, hp, hn⟩, he⟩ | ⟨hall, rs, hok⟩
  · constructor
    · intro _
      simp only [List.mem_map, List.mem_range] at hp
      obtain ⟨j, hj, rfl⟩ := hp
      exact ⟨j, hj, hn⟩
    · intro _; exact ⟨_, he⟩
  · constructor
    · rintro ⟨e, he⟩; rw [hok] at he; cases he
    · rintro ⟨j, hj, hn⟩
      exact absurd hn (hall (j, out.getD j { t := [], sTilda := [], tTilda := [] })
        (by simp only [List.mem_map, List.mem_range]; exact ⟨j, hj, rfl⟩))

end SlVerif.Pprf
