import SlVerif.Proofs.PprfXor
/-
  C06 helper lemmas, part 2: the model at `m := Id` for an arbitrary pure oracle `h`; the level invariant between the
  sender's tree and the receiver's punctured tree; one tree end to end.
-/
namespace SlVerif.Pprf
open SlVerif

theorem mapSeq_id {α β : Type} (f : α → Id β) (l : List α) : mapSeq (m := Id) f l = l.map f := by
  induction l with
  | nil => rfl
  | cons a as ih =>
    show (f a :: mapSeq (m := Id) f as) = _
    rw [ih]; rfl

variable (h : Query → Bytes) (sid : Bytes)

/-- the tree PRG, the per-leaf proof hash and the final hash as pure functions of the oracle `h` -/
def G (seed : Bytes) : Bytes × Bytes := prg (m := Id) h sid seed
def P (leaf : Bytes) : Bytes := proofPrg (m := Id) h sid leaf
def Hh (v : List Bytes) : Bytes := proofHash (m := Id) h sid v

theorem G_len1 (x : Bytes) : (G h sid x).1.length = KB := fixLen_length _ _
theorem G_len2 (x : Bytes) : (G h sid x).2.length = KB := fixLen_length _ _
theorem P_len (x : Bytes) : (P h sid x).length = 2 * KB := fixLen_length _ _

theorem sel_zero {α : Type} (x : α × α) : sel 0 x = x.1 := rfl
theorem sel_one {α : Type} (x : α × α) : sel 1 x = x.2 := rfl

theorem G_sel_len (c : Nat) (x : Bytes) : (sel c (G h sid x)).length = KB := by
  unfold sel; split
  · exact G_len1 h sid x
  · exact G_len2 h sid x

/-! ### indexing -/

theorem interleave_length (ch : List (Bytes × Bytes)) : (interleave ch).length = 2 * ch.length := by
  simp [interleave]

theorem interleave_getElem? (ch : List (Bytes × Bytes)) (z : Nat) :
    (interleave ch)[z]? = if z < 2 * ch.length then some (sel (z % 2) (ch.getD (z / 2) ([], []))) else none := by
  unfold interleave sel
  by_cases hz : z < 2 * ch.length
  · simp [hz, List.getElem?_range hz]
  · simp [hz]

theorem maskAt_length {α : Type} (ystar : Nat) (z : α) (l : List α) : (maskAt ystar z l).length = l.length := by
  simp [maskAt]

theorem maskAt_getElem? {α : Type} (ystar : Nat) (z : α) (l : List α) (y : Nat) :
    (maskAt ystar z l)[y]? = l[y]?.map (fun c => if y ≠ ystar then c else z) := by
  simp [maskAt, List.getElem?_mapIdx]

/-! ### the sender and the receiver, one level -/

/-- sender: next level -/
def nextS (s : List Bytes) : List Bytes := interleave (s.map (G h sid))

/-- sender: correction words of a level with base-OT keys `F` -/
def wordS (F : Bytes × Bytes) (s : List Bytes) : Bytes × Bytes :=
  ((s.map (G h sid)).foldl (fun acc c => xorBytes acc c.1) F.1, (s.map (G h sid)).foldl (fun acc c => xorBytes acc c.2) F.2)

theorem buildLevels_nil (keys : Nat → Bytes × Bytes) (s : List Bytes) :
    buildLevels (m := Id) h sid keys [] s = (s, []) := rfl

theorem buildLevels_cons (keys : Nat → Bytes × Bytes) (i : Nat) (is : List Nat) (s : List Bytes) :
    buildLevels (m := Id) h sid keys (i :: is) s =
      ((buildLevels (m := Id) h sid keys is (nextS h sid s)).1,
        wordS h sid (keys i) s :: (buildLevels (m := Id) h sid keys is (nextS h sid s)).2) := by
  simp only [buildLevels, mapSeq_id]
  rfl

/-- receiver: next level -/
def stepR (c : Nat) (w : Bytes × Bytes) (dkv : Bytes) (ystar : Nat) (sstar : List Bytes) : List Bytes :=
  (interleave (maskAt ystar (zeros KB, zeros KB) (sstar.map (G h sid)))).set (2 * ystar + c)
    (xorOthers ystar (xorBytes (sel c w) dkv) ((maskAt ystar (zeros KB, zeros KB) (sstar.map (G h sid))).map (sel c)))

theorem evalLevels_nil (bit : Nat → Nat) (dk : Nat → Bytes) (ws : List (Bytes × Bytes)) (ystar : Nat) (s : List Bytes) :
    evalLevels (m := Id) h sid bit dk [] ws ystar s = (ystar, s) := rfl

theorem evalLevels_cons (bit : Nat → Nat) (dk : Nat → Bytes) (i : Nat) (is : List Nat) (ws : List (Bytes × Bytes))
    (ystar : Nat) (s : List Bytes) :
    evalLevels (m := Id) h sid bit dk (i :: is) ws ystar s =
      evalLevels (m := Id) h sid bit dk is ws.tail (2 * ystar + (1 ^^^ bit i))
        (stepR h sid (bit i) (ws.headD ([], [])) (dk i) ystar s) := by
  simp only [evalLevels, mapSeq_id]
  rfl

/-- what the receiver holds relative to the sender's level `s`: everything but index `ystar`, where it holds zeros -/
structure Inv (s sstar : List Bytes) (ystar : Nat) : Prop where
  len : sstar.length = s.length
  lt : ystar < s.length
  eq : ∀ y, y ≠ ystar → sstar[y]? = s[y]?
  hole : sstar[ystar]? = some (zeros KB)

theorem nextS_length (s : List Bytes) : (nextS h sid s).length = 2 * s.length := by
  simp [nextS, interleave_length]

theorem nextS_getElem? (s : List Bytes) (z : Nat) :
    (nextS h sid s)[z]? = if z < 2 * s.length then some (sel (z % 2) (G h sid (s.getD (z / 2) []))) else none := by
  unfold nextS
  rw [interleave_getElem?, List.length_map]
  split
  · rename_i hz
    have : z / 2 < s.length := by omega
    simp [List.getD_eq_getElem?_getD, List.getElem?_eq_getElem this]
  · rfl

/-- the correction word, receiver side, is the child the sender computed below the punctured node -/
theorem corr_eq (c : Nat) (hc : c ≤ 1) (F : Bytes × Bytes) (hF1 : F.1.length = KB) (hF2 : F.2.length = KB)
    (s sstar : List Bytes) (ystar : Nat) (inv : Inv s sstar ystar) :
    xorOthers ystar (xorBytes (sel c (wordS h sid F s)) (sel c F))
        ((maskAt ystar (zeros KB, zeros KB) (sstar.map (G h sid))).map (sel c))
      = sel c (G h sid (s.getD ystar [])) := by
  rw [xorOthers_eq]
  simp only [List.length_map, maskAt_length]
  rw [inv.len]
  -- the receiver's terms are the sender's terms off the punctured index
  rw [othF_congr _ (fun y => sel c (G h sid (s.getD y []))) ystar s.length _ (by
    intro y hy hne
    have hy' : y < sstar.length := by rw [inv.len]; exact hy
    have := inv.eq y hne
    simp [List.getD_eq_getElem?_getD, maskAt_getElem?, List.getElem?_eq_getElem hy', hne] at this ⊢
    rw [List.getElem?_eq_getElem hy] at this
    simp at this
    rw [this]
    simp [List.getElem?_eq_getElem hy])]
  -- the sender's word is the full fold
  have hw : sel c (wordS h sid F s) = allF (fun y => sel c (G h sid (s.getD y []))) s.length (sel c F) := by
    have hc' : c = 0 ∨ c = 1 := by omega
    rcases hc' with rfl | rfl
    · simp only [sel_zero, wordS]
      rw [foldl_eq_allF (fun c : Bytes × Bytes => c.1) ([], [])]
      simp only [List.length_map]
      apply allF_congr
      intro y hy
      simp [List.getD_eq_getElem?_getD, List.getElem?_eq_getElem hy]
    · simp only [sel_one, wordS]
      rw [foldl_eq_allF (fun c : Bytes × Bytes => c.2) ([], [])]
      simp only [List.length_map]
      apply allF_congr
      intro y hy
      simp [List.getD_eq_getElem?_getD, List.getElem?_eq_getElem hy]
  rw [hw]
  have hFc : (sel c F).length = KB := by unfold sel; split <;> assumption
  exact othF_allF_key _ KB ystar s.length (sel c F) (fun y _ => G_sel_len h sid c _) hFc inv.lt

theorem xor_one_le (c : Nat) (hc : c ≤ 1) : 1 ^^^ c ≤ 1 ∧ (1 ^^^ c) ≠ c := by
  have hc' : c = 0 ∨ c = 1 := by omega
  rcases hc' with rfl | rfl <;> decide

/-- one level preserves the invariant -/
theorem step_inv (c : Nat) (hc : c ≤ 1) (F : Bytes × Bytes) (hF1 : F.1.length = KB) (hF2 : F.2.length = KB)
    (s sstar : List Bytes) (ystar : Nat) (inv : Inv s sstar ystar) :
    Inv (nextS h sid s) (stepR h sid c (wordS h sid F s) (sel c F) ystar sstar) (2 * ystar + (1 ^^^ c)) := by
  have hx := xor_one_le c hc
  have hn := inv.lt
  have hlen : (stepR h sid c (wordS h sid F s) (sel c F) ystar sstar).length = 2 * s.length := by
    simp [stepR, interleave_length, maskAt_length, inv.len]
  have hget : ∀ z, (stepR h sid c (wordS h sid F s) (sel c F) ystar sstar)[z]? =
      if z = 2 * ystar + c then some (sel c (G h sid (s.getD ystar [])))
      else if z < 2 * s.length then
        some (sel (z % 2) (if z / 2 ≠ ystar then G h sid (s.getD (z / 2) []) else (zeros KB, zeros KB))) else none := by
    intro z
    unfold stepR
    rw [List.getElem?_set, corr_eq h sid c hc F hF1 hF2 s sstar ystar inv, interleave_length, maskAt_length,
      List.length_map, inv.len]
    by_cases hz : 2 * ystar + c = z
    · have : 2 * ystar + c < 2 * s.length := by omega
      simp [hz.symm, this]
    · have hz' : ¬ z = 2 * ystar + c := fun e => hz e.symm
      simp only [hz, hz', if_false]
      rw [interleave_getElem?, maskAt_length, List.length_map, inv.len]
      split
      · rename_i hlt
        have h2 : z / 2 < sstar.length := by rw [inv.len]; omega
        have h3 : z / 2 < s.length := by omega
        congr 2
        rw [List.getD_eq_getElem?_getD, maskAt_getElem?, List.getElem?_map, List.getElem?_eq_getElem h2]
        by_cases hy : z / 2 = ystar
        · simp [hy]
        · have := inv.eq (z / 2) hy
          rw [List.getElem?_eq_getElem h2, List.getElem?_eq_getElem h3] at this
          simp only [Option.some.injEq] at this
          simp [hy, this, List.getD_eq_getElem?_getD, List.getElem?_eq_getElem h3]
      · rfl
  refine ⟨by rw [hlen, nextS_length], by rw [nextS_length]; omega, ?_, ?_⟩
  · intro z hz
    rw [hget, nextS_getElem?]
    by_cases hzc : z = 2 * ystar + c
    · subst hzc
      have h1 : (2 * ystar + c) % 2 = c := by omega
      have h2 : (2 * ystar + c) / 2 = ystar := by omega
      have h3 : 2 * ystar + c < 2 * s.length := by omega
      simp [h1, h2, h3]
    · simp only [hzc, if_false]
      split
      · have hy : z / 2 ≠ ystar := by
          intro e
          have : z % 2 = 0 ∨ z % 2 = 1 := by omega
          omega
        simp [hy]
      · rfl
  · rw [hget]
    have h1 : ¬ (2 * ystar + (1 ^^^ c) = 2 * ystar + c) := by omega
    have h2 : 2 * ystar + (1 ^^^ c) < 2 * s.length := by omega
    have h3 : (2 * ystar + (1 ^^^ c)) / 2 = ystar := by omega
    simp only [h1, if_false, h2, if_true, h3, ne_eq, not_true_eq_false]
    unfold sel; split <;> rfl

/-- all levels: the invariant at the leaves and the punctured index -/
theorem levels_inv (keys : Nat → Bytes × Bytes) (bit : Nat → Nat) (dk : Nat → Bytes) :
    ∀ (is : List Nat) (s sstar : List Bytes) (ystar : Nat), Inv s sstar ystar →
      (∀ i ∈ is, bit i ≤ 1 ∧ (keys i).1.length = KB ∧ (keys i).2.length = KB ∧ dk i = sel (bit i) (keys i)) →
      Inv (buildLevels (m := Id) h sid keys is s).1
          (evalLevels (m := Id) h sid bit dk is (buildLevels (m := Id) h sid keys is s).2 ystar sstar).2
          (evalLevels (m := Id) h sid bit dk is (buildLevels (m := Id) h sid keys is s).2 ystar sstar).1 ∧
      (evalLevels (m := Id) h sid bit dk is (buildLevels (m := Id) h sid keys is s).2 ystar sstar).1
        = is.foldl (fun acc i => 2 * acc + (1 ^^^ bit i)) ystar := by
  intro is
  induction is with
  | nil => intro s sstar ystar inv _; exact ⟨inv, rfl⟩
  | cons i is ih =>
    intro s sstar ystar inv hyp
    obtain ⟨hb, h1, h2, hd⟩ := hyp i (by simp)
    rw [buildLevels_cons, evalLevels_cons]
    simp only [List.headD_cons, List.tail_cons, List.foldl_cons]
    rw [hd]
    exact ih (nextS h sid s) _ _ (step_inv h sid (bit i) hb (keys i) h1 h2 s sstar ystar inv)
      (fun i' hi' => hyp i' (by simp [hi']))

theorem buildLevels_length (keys : Nat → Bytes × Bytes) : ∀ (is : List Nat) (s : List Bytes),
    (buildLevels (m := Id) h sid keys is s).1.length = 2 ^ is.length * s.length := by
  intro is
  induction is with
  | nil => intro s; simp [buildLevels_nil]
  | cons i is ih =>
    intro s
    rw [buildLevels_cons]
    simp only [ih, nextS_length, List.length_cons, Nat.pow_succ]
    rw [Nat.mul_assoc]

end SlVerif.Pprf
