import SlVerif.Model.Rvole
import SlVerif.Proofs.RvoleCore
import SlVerif.Proofs.GroupOracle
/-
  Bridge between the executable model `Model/Rvole.lean` (scalars = canonical naturals `< secpQ`, arithmetic
  `addq / subq / mulq / negq`) and the ring-level statements of `Proofs/RvoleCore.lean` at `R := Zq = ZMod secpQ`.
    * `cast_*`          every scalar operation of the model is the ring operation of `Zq` after the cast
    * `*_id`            the model's entry points at `m := Id` unfolded (all by `rfl`)
    * `shares_zmod`     pure cores:  c_i + d_i = a_i · ⟨g, β⟩   from the OT relation on the decoded tables
    * `mu_match`        pure cores:  the receiver's mu' values ARE the sender's mu values (as lists of naturals)
    * `mu_dev_match`    the same for the adversarial sender: mu' = mu^adv + (β_j − guess_j)·θ·(a'_j − a)
-/
namespace SlVerif.Rvole
open SlVerif SlVerif.Generated

/-! ### scalars -/

theorem secpQ_pos : 0 < secpQ := Nat.pos_of_neZero secpQ

theorem addq_lt (a b : ℕ) : addq a b < secpQ := Nat.mod_lt _ secpQ_pos
theorem subq_lt (a b : ℕ) : subq a b < secpQ := Nat.mod_lt _ secpQ_pos
theorem mulq_lt (a b : ℕ) : mulq a b < secpQ := Nat.mod_lt _ secpQ_pos
theorem negq_lt (a : ℕ) : negq a < secpQ := Nat.mod_lt _ secpQ_pos
theorem ofBe_lt (b : Bytes) : ofBe b < secpQ := Nat.mod_lt _ secpQ_pos

theorem cast_addq (a b : ℕ) : ((addq a b : ℕ) : Zq) = (a : Zq) + b := by
  rw [addq, natCast_mod_secpQ, Nat.cast_add]

theorem cast_mulq (a b : ℕ) : ((mulq a b : ℕ) : Zq) = (a : Zq) * b := by
  rw [mulq, natCast_mod_secpQ, Nat.cast_mul]

theorem cast_subq (a b : ℕ) : ((subq a b : ℕ) : Zq) = (a : Zq) - b := by
  rw [subq, natCast_mod_secpQ, Nat.cast_add, Nat.cast_sub (Nat.mod_lt _ secpQ_pos).le, natCast_mod_secpQ,
    ZMod.natCast_self]
  ring

theorem cast_negq (a : ℕ) : ((negq a : ℕ) : Zq) = -(a : Zq) := by
  rw [negq, natCast_mod_secpQ, Nat.cast_sub (Nat.mod_lt _ secpQ_pos).le, natCast_mod_secpQ, ZMod.natCast_self]
  ring

theorem cast_foldl_addq {ι : Type} (l : List ι) (f : ι → ℕ) (init : ℕ) :
    ((l.foldl (fun acc j => addq acc (f j)) init : ℕ) : Zq) = (init : Zq) + (l.map fun j => (f j : Zq)).sum := by
  induction l generalizing init with
  | nil => simp
  | cons x xs ih => rw [List.foldl_cons, ih, cast_addq]; simp only [List.map_cons, List.sum_cons]; ring

theorem cast_sumq (l : List ℕ) : ((sumq l : ℕ) : Zq) = (l.map fun (x : ℕ) => (x : Zq)).sum := by
  have := cast_foldl_addq l (fun x => x) 0
  rw [Nat.cast_zero, zero_add] at this
  exact this

/-- `to_bytes` followed by `Scalar::reduce(U256::from_be_bytes(·))` is the identity on reduced scalars -/
theorem ofBe_toBe {x : ℕ} (hx : x < secpQ) : ofBe (toBe x) = x := by
  have h256 : secpQ < 256 ^ KAPPA_BYTES := by decide
  rw [ofBe, toBe, beToNat_natToBe, Nat.mod_eq_of_lt (hx.trans h256), Nat.mod_eq_of_lt hx]

/-- `to_bytes` of a reduced scalar is a canonical encoding -/
theorem beToNat_toBe_lt {x : ℕ} (hx : x < secpQ) : beToNat (toBe x) < secpQ := by
  have h256 : secpQ < 256 ^ KAPPA_BYTES := by decide
  rw [toBe, beToNat_natToBe, Nat.mod_eq_of_lt (hx.trans h256)]
  exact hx

theorem toBe_length (x : ℕ) : (toBe x).length = KAPPA_BYTES := natToBe_length _ _

/-- `to_bytes` is injective on reduced scalars -/
theorem toBe_inj {x y : ℕ} (hx : x < secpQ) (hy : y < secpQ) (h : toBe x = toBe y) : x = y := by
  rw [← ofBe_toBe hx, ← ofBe_toBe hy, h]

/-! ### lists -/

theorem getD_map_range {α : Type} (n : ℕ) (f : ℕ → α) (i : ℕ) (d : α) :
    ((List.range n).map f).getD i d = if i < n then f i else d := by
  rw [List.getD_eq_getElem?_getD, List.getElem?_map]
  by_cases hi : i < n
  · rw [List.getElem?_range hi, if_pos hi]; rfl
  · rw [if_neg hi, List.getElem?_eq_none (by simpa using Nat.le_of_not_lt hi)]; rfl

theorem getD_map' {α β : Type} (l : List α) (f : α → β) (i : ℕ) (d : α) (d' : β) (hi : i < l.length) :
    (l.map f).getD i d' = f (l.getD i d) := by
  rw [List.getD_eq_getElem?_getD, List.getD_eq_getElem?_getD, List.getElem?_map, List.getElem?_eq_getElem hi]; rfl

/-- entry `[j][i]` of a decoded table of encoded rows -/
theorem sAt_decode_encode (n : ℕ) (rows : ℕ → List ℕ) (j i : ℕ) (hj : j < n) (hi : i < (rows j).length) :
    sAt (decodeTable ((List.range n).map fun j => (rows j).map toBe)) j i = ofBe (toBe ((rows j).getD i 0)) := by
  unfold sAt decodeTable
  rw [List.map_map, getD_map_range, if_pos hj]
  simp only [Function.comp, List.map_map]
  rw [getD_map' _ _ _ 0 0 hi]
  rfl

/-! ### the model at `m := Id` -/

section Id
variable (h : Query → Id Bytes)

theorem senderCore_id (sid : Bytes) (g : List ℕ) (v0 v1 : List (List Bytes)) (a : List ℕ) (tape : Tape) :
    senderCore (m := Id) h sid g v0 v1 a tape =
      (senderC g (decodeTable v0),
       { aTilde := (List.range XI).map fun j =>
            (aTildeRow (decodeTable v0) (decodeTable v1) a (drawEta RHO tape).1 j).map toBe
         eta := (etaFinal (thetaAll (m := Id) h sid ((List.range XI).map fun j =>
            (aTildeRow (decodeTable v0) (decodeTable v1) a (drawEta RHO tape).1 j).map toBe)) a (drawEta RHO tape).1).map toBe
         muHash := muHashOf (m := Id) h sid (muSender (thetaAll (m := Id) h sid ((List.range XI).map fun j =>
            (aTildeRow (decodeTable v0) (decodeTable v1) a (drawEta RHO tape).1 j).map toBe)) (decodeTable v0)) },
       (drawEta RHO tape).2) := rfl

theorem receiverMu_id (sid beta : Bytes) (VX : List (List ℕ)) (msg : Msg2) :
    receiverMu (m := Id) h sid beta VX msg =
      muHashOf (m := Id) h sid
        (muReceiver (thetaAll (m := Id) h sid msg.aTilde) beta VX (decodeTable msg.aTilde) (msg.eta.map ofBe)) := rfl

theorem receiverCore_id (sid beta : Bytes) (vx : List (List Bytes)) (msg : Msg2) :
    receiverCore (m := Id) h sid beta vx msg =
      if checkOk msg (receiverMu (m := Id) h sid beta (decodeTable vx) msg) = false then .error checkFailed
      else .ok (receiverD (gadgetVec (m := Id) h sid) beta (decodeTable vx) (decodeTable msg.aTilde)) := by
  unfold receiverCore
  show (if _ then _ else _) = _
  split <;> rfl

theorem receiverProcess_id (st : RecvState) (msg : Msg2) :
    receiverProcess (m := Id) h st msg = receiverCore (m := Id) h st.sid st.beta st.vx msg := rfl

theorem receiverNew_id (sid : Bytes) (encKeys : List (List Bytes)) (tape : Tape) :
    receiverNew (m := Id) h sid encKeys tape =
      ({ sid, beta := (Tape.take tape L_BYTES).1,
         vx := (SoftSpoken.receiverProcess (m := Id) h sid encKeys (Tape.take tape L_BYTES).1 (Tape.take tape L_BYTES).2).2.1.v_x },
       (SoftSpoken.receiverProcess (m := Id) h sid encKeys (Tape.take tape L_BYTES).1 (Tape.take tape L_BYTES).2).1,
       gadgetDot (gadgetVec (m := Id) h sid) (Tape.take tape L_BYTES).1,
       (SoftSpoken.receiverProcess (m := Id) h sid encKeys (Tape.take tape L_BYTES).1 (Tape.take tape L_BYTES).2).2.2) := rfl

theorem senderProcess_ok (sid : Bytes) (rc : List ℕ) (decKeys : List (List Bytes)) (a : List ℕ)
    (r1 : SoftSpoken.Round1Output) (tape : Tape) (so : SoftSpoken.SenderExtendedOutput)
    (hso : SoftSpoken.senderProcess (m := Id) h sid rc decKeys r1 = .ok so) :
    senderProcess (m := Id) h sid rc decKeys a r1 tape =
      .ok (senderCore (m := Id) h sid (gadgetVec (m := Id) h sid) so.v_0 so.v_1 a tape) := by
  unfold senderProcess
  show (match SoftSpoken.senderProcess (m := Id) h sid rc decKeys r1 with
        | .error e => _ | .ok so => _) = _
  rw [hso]
  rfl

theorem senderProcess_err (sid : Bytes) (rc : List ℕ) (decKeys : List (List Bytes)) (a : List ℕ)
    (r1 : SoftSpoken.Round1Output) (tape : Tape) (e : SoftSpoken.SsError)
    (hso : SoftSpoken.senderProcess (m := Id) h sid rc decKeys r1 = .error e) :
    senderProcess (m := Id) h sid rc decKeys a r1 tape = .error e := by
  unfold senderProcess
  show (match SoftSpoken.senderProcess (m := Id) h sid rc decKeys r1 with
        | .error e => _ | .ok so => _) = _
  rw [hso]
  rfl

end Id

/-! ### pure cores in `Zq` -/

theorem cast_linComb (init : ℕ) (θ x : ℕ → ℕ) :
    ((linComb init θ x : ℕ) : Zq) = (init : Zq) + ((List.range L_BATCH).map fun i => (θ i : Zq) * (x i : Zq)).sum := by
  unfold linComb
  rw [cast_foldl_addq (List.range L_BATCH) (fun i => mulq (θ i) (x i)) init]
  simp only [cast_mulq]

theorem linComb_lt (init : ℕ) (θ x : ℕ → ℕ) : linComb init θ x < secpQ := by
  unfold linComb
  rw [show L_BATCH = 1 + 1 from rfl, List.range_succ, List.foldl_append]
  exact addq_lt _ _

theorem cast_dSel (beta : Bytes) (VX AT : List (List ℕ)) (j i : ℕ) :
    ((dSel beta VX AT j i : ℕ) : Zq) =
      if bitAt beta j then (sAt VX j i : Zq) + (sAt AT j i : Zq) else (sAt VX j i : Zq) := by
  unfold dSel
  split
  · rw [cast_addq]
  · rfl

theorem cast_gadgetDot (g : List ℕ) (beta : Bytes) :
    ((gadgetDot g beta : ℕ) : Zq) = ((List.range XI).map fun j => if bitAt beta j then (g.getD j 0 : Zq) else 0).sum := by
  unfold gadgetDot
  have : ∀ (l : List ℕ) (init : ℕ),
      ((l.foldl (fun acc i => if bitAt beta i then addq acc (g.getD i 0) else acc) init : ℕ) : Zq)
        = (init : Zq) + (l.map fun j => if bitAt beta j then (g.getD j 0 : Zq) else 0).sum := by
    intro l
    induction l with
    | nil => intro init; simp
    | cons x xs ih =>
      intro init
      rw [List.foldl_cons, ih]
      simp only [List.map_cons, List.sum_cons]
      split
      · rw [cast_addq]; ring
      · ring
  have e := this (List.range XI) 0
  rw [Nat.cast_zero, zero_add] at e
  exact e

/-- length of a row of `a_tilde` -/
theorem aTildeRow_length (A0 A1 : List (List ℕ)) (a eta0 : List ℕ) (j : ℕ) :
    (aTildeRow A0 A1 a eta0 j).length = L_BATCH + RHO := by
  unfold aTildeRow
  rw [List.length_append, List.length_map, List.length_map, List.length_range, List.length_range]

theorem lbpr : L_BATCH_PLUS_RHO = L_BATCH + RHO := rfl

theorem aTildeRow_getD_batch (A0 A1 : List (List ℕ)) (a eta0 : List ℕ) (j i : ℕ) (hi : i < L_BATCH) :
    (aTildeRow A0 A1 a eta0 j).getD i 0 = addq (subq (sAt A0 j i) (sAt A1 j i)) (a.getD i 0) := by
  unfold aTildeRow
  rw [List.getD_eq_getElem?_getD, List.getElem?_append_left (by simpa using hi), ← List.getD_eq_getElem?_getD,
    getD_map_range, if_pos hi]

theorem aTildeRow_getD_check (A0 A1 : List (List ℕ)) (a eta0 : List ℕ) (j k : ℕ) (hk : k < RHO) :
    (aTildeRow A0 A1 a eta0 j).getD (L_BATCH + k) 0
      = addq (subq (sAt A0 j (L_BATCH + k)) (sAt A1 j (L_BATCH + k))) (eta0.getD k 0) := by
  unfold aTildeRow
  rw [List.getD_eq_getElem?_getD, List.getElem?_append_right (by simp), ← List.getD_eq_getElem?_getD,
    getD_map_range]
  simp only [List.length_map, List.length_range, Nat.add_sub_cancel_left, if_pos hk]

/-- the decoded honest `a_tilde`, batch columns:  α0 − α1 + a'_i  (row input `a'`) -/
theorem sAt_aTilde_batch (A0 A1 : List (List ℕ)) (inp : ℕ → List ℕ) (eta0 : List ℕ) (j i : ℕ) (hj : j < XI)
    (hi : i < L_BATCH) :
    sAt (decodeTable ((List.range XI).map fun j => (aTildeRow A0 A1 (inp j) eta0 j).map toBe)) j i
      = addq (subq (sAt A0 j i) (sAt A1 j i)) ((inp j).getD i 0) := by
  rw [sAt_decode_encode XI (fun j => aTildeRow A0 A1 (inp j) eta0 j) j i hj
        (by rw [aTildeRow_length]; exact Nat.lt_add_right _ hi),
    aTildeRow_getD_batch _ _ _ _ _ _ hi, ofBe_toBe (addq_lt _ _)]

/-- the decoded honest `a_tilde`, check columns:  α0 − α1 + eta0_k -/
theorem sAt_aTilde_check (A0 A1 : List (List ℕ)) (inp : ℕ → List ℕ) (eta0 : List ℕ) (j k : ℕ) (hj : j < XI)
    (hk : k < RHO) :
    sAt (decodeTable ((List.range XI).map fun j => (aTildeRow A0 A1 (inp j) eta0 j).map toBe)) j (L_BATCH + k)
      = addq (subq (sAt A0 j (L_BATCH + k)) (sAt A1 j (L_BATCH + k))) (eta0.getD k 0) := by
  rw [sAt_decode_encode XI (fun j => aTildeRow A0 A1 (inp j) eta0 j) j (L_BATCH + k) hj
        (by rw [aTildeRow_length]; exact Nat.add_lt_add_left hk _),
    aTildeRow_getD_check _ _ _ _ _ _ hk, ofBe_toBe (addq_lt _ _)]

/-- the OT correctness relation on decoded tables -/
def OTRel (beta : Bytes) (A0 A1 VX : List (List ℕ)) : Prop :=
  ∀ j < XI, ∀ i < L_BATCH_PLUS_RHO, sAt VX j i = if bitAt beta j then sAt A1 j i else sAt A0 j i

theorem ofBe_nil : ofBe [] = 0 := rfl

/-- entry `[j][i]` of a decoded table, in or out of range (`ofBe [] = 0`) -/
theorem getD_of_le {α : Type} (l : List α) (i : ℕ) (d : α) (hi : l.length ≤ i) : l.getD i d = d := by
  rw [List.getD_eq_getElem?_getD, List.getElem?_eq_none hi]; rfl

theorem sAt_decodeTable (v : List (List Bytes)) (j i : ℕ) :
    sAt (decodeTable v) j i = ofBe ((v.getD j []).getD i []) := by
  unfold sAt decodeTable
  by_cases hj : j < v.length
  · rw [getD_map' v _ j [] [] hj]
    by_cases hi : i < (v.getD j []).length
    · rw [getD_map' _ _ i [] 0 hi]
    · rw [getD_of_le _ i 0 (by simpa using Nat.le_of_not_lt hi), getD_of_le _ i [] (Nat.le_of_not_lt hi)]
      rfl
  · rw [getD_of_le _ j [] (by simpa using Nat.le_of_not_lt hj), getD_of_le v j [] (Nat.le_of_not_lt hj)]
    rfl

/-- the OT relation on the byte tables gives it on the decoded tables -/
theorem OTRel_of_bytes (beta : Bytes) (v0 v1 vx : List (List Bytes))
    (hOT : ∀ j < XI, ∀ i < L_BATCH_PLUS_RHO,
      (vx.getD j []).getD i [] = if bitAt beta j then (v1.getD j []).getD i [] else (v0.getD j []).getD i []) :
    OTRel beta (decodeTable v0) (decodeTable v1) (decodeTable vx) := by
  intro j hj i hi
  rw [sAt_decodeTable, sAt_decodeTable, sAt_decodeTable, hOT j hj i hi]
  split <;> rfl

/-- **shares** (pure cores, adversarial generality): for a sender that masks the input `inp j` in row `j`,
    `c_i + d_i = Σ_j (if β_j then g_j · inp_j[i] else 0)` in `Zq` -/
theorem shares_dev_zmod (g : List ℕ) (beta : Bytes) (A0 A1 VX : List (List ℕ)) (inp : ℕ → List ℕ) (eta0 : List ℕ)
    (hOT : OTRel beta A0 A1 VX) (i : ℕ) (hi : i < L_BATCH) :
    (((senderC g A0).getD i 0 : ℕ) : Zq) +
      (((receiverD g beta VX
          (decodeTable ((List.range XI).map fun j => (aTildeRow A0 A1 (inp j) eta0 j).map toBe))).getD i 0 : ℕ) : Zq)
      = ((List.range XI).map fun j => if bitAt beta j then (g.getD j 0 : Zq) * ((inp j).getD i 0 : Zq) else 0).sum := by
  unfold senderC receiverD
  rw [getD_map_range, if_pos hi, getD_map_range, if_pos hi, cast_negq, cast_sumq, List.map_map,
    cast_foldl_addq (List.range XI)]
  simp only [Function.comp_def, cast_mulq, Nat.cast_zero, zero_add]
  have hL : i < L_BATCH_PLUS_RHO := by rw [lbpr]; exact Nat.lt_add_right _ hi
  have e : ((List.range XI).map fun j => (g.getD j 0 : Zq) *
        ((dSel beta VX (decodeTable ((List.range XI).map fun j => (aTildeRow A0 A1 (inp j) eta0 j).map toBe)) j i : ℕ) : Zq))
      = (List.range XI).map fun j => (g.getD j 0 : Zq) *
        (if bitAt beta j then (sAt VX j i : Zq) + ((sAt A0 j i : Zq) - (sAt A1 j i : Zq) + ((inp j).getD i 0 : Zq))
         else (sAt VX j i : Zq)) := by
    apply List.map_congr_left
    intro j hj
    have hj' : j < XI := List.mem_range.mp hj
    rw [cast_dSel, sAt_aTilde_batch _ _ _ _ _ _ hj' hi, cast_addq, cast_subq]
  rw [e]
  have hrel : ∀ j ∈ List.range XI, ((sAt VX j i : ℕ) : Zq)
      = if bitAt beta j then ((sAt A1 j i : ℕ) : Zq) else ((sAt A0 j i : ℕ) : Zq) := by
    intro j hj
    rw [hOT j (List.mem_range.mp hj) i hL]
    split <;> rfl
  exact RvoleCore.share_sum_dev (List.range XI) (fun j => (g.getD j 0 : Zq)) (fun j => (sAt A0 j i : Zq))
    (fun j => (sAt A1 j i : Zq)) (fun j => (sAt VX j i : Zq)) (fun j => ((inp j).getD i 0 : Zq)) (fun j => bitAt beta j)
    hrel

/-- **shares** (pure cores): `c_i + d_i = a_i · ⟨g, β⟩` in `Zq` -/
theorem shares_zmod (g : List ℕ) (beta : Bytes) (A0 A1 VX : List (List ℕ)) (a eta0 : List ℕ)
    (hOT : OTRel beta A0 A1 VX) (i : ℕ) (hi : i < L_BATCH) :
    (((senderC g A0).getD i 0 : ℕ) : Zq) +
      (((receiverD g beta VX
          (decodeTable ((List.range XI).map fun j => (aTildeRow A0 A1 a eta0 j).map toBe))).getD i 0 : ℕ) : Zq)
      = (a.getD i 0 : Zq) * (gadgetDot g beta : Zq) := by
  rw [shares_dev_zmod g beta A0 A1 VX (fun _ => a) eta0 hOT i hi, cast_gadgetDot]
  exact RvoleCore.sum_ite_mul_const (List.range XI) (fun j => (g.getD j 0 : Zq)) (fun j => bitAt beta j) _

theorem mem_muIdx {j k : ℕ} (hm : (j, k) ∈ muIdx) : j < XI ∧ k < RHO := by
  unfold muIdx at hm
  simp only [List.mem_flatMap, List.mem_range, List.mem_map, Prod.mk.injEq] at hm
  obtain ⟨j', hj', k', hk', rfl, rfl⟩ := hm
  exact ⟨hj', hk'⟩

theorem cast_etaFinal (theta a eta0 : List ℕ) (k : ℕ) (hk : k < RHO) :
    (((etaFinal theta a eta0).getD k 0 : ℕ) : Zq)
      = (eta0.getD k 0 : Zq) + ((List.range L_BATCH).map fun i => (th theta k i : Zq) * (a.getD i 0 : Zq)).sum := by
  unfold etaFinal
  rw [getD_map_range, if_pos hk, cast_addq, cast_sumq, List.map_map]
  simp only [Function.comp_def, cast_mulq]

theorem etaFinal_getD_lt (theta a eta0 : List ℕ) (k : ℕ) (hk : k < RHO) : (etaFinal theta a eta0).getD k 0 < secpQ := by
  unfold etaFinal
  rw [getD_map_range, if_pos hk]; exact addq_lt _ _

theorem etaFinal_length (theta a eta0 : List ℕ) : (etaFinal theta a eta0).length = RHO := by simp [etaFinal]

/-- the `eta` of the honest message is canonically encoded -/
theorem etaFinal_canonical (theta a eta0 : List ℕ) : etaCanonical ((etaFinal theta a eta0).map toBe) = true := by
  unfold etaCanonical
  rw [List.all_eq_true]
  intro e he
  obtain ⟨x, hx, rfl⟩ := List.mem_map.mp he
  unfold etaFinal at hx
  obtain ⟨k, _, rfl⟩ := List.mem_map.mp hx
  exact decide_eq_true (beToNat_toBe_lt (addq_lt _ _))

/-- the decoded `eta` of the honest message -/
theorem eta_decode (theta a eta0 : List ℕ) (k : ℕ) (hk : k < RHO) :
    (((etaFinal theta a eta0).map toBe).map ofBe).getD k 0 = (etaFinal theta a eta0).getD k 0 := by
  rw [List.map_map, getD_map' _ _ k 0 0 (by rw [etaFinal_length]; exact hk)]
  exact ofBe_toBe (etaFinal_getD_lt _ _ _ _ hk)

/-- one entry of `muReceiver` -/
def muRecvEntry (theta : List ℕ) (beta : Bytes) (VX AT : List (List ℕ)) (eta : List ℕ) (j k : ℕ) : ℕ :=
  if bitAt beta j then subq (linComb (dSel beta VX AT j (L_BATCH + k)) (th theta k) (dSel beta VX AT j)) (eta.getD k 0)
  else linComb (dSel beta VX AT j (L_BATCH + k)) (th theta k) (dSel beta VX AT j)

theorem muReceiver_eq (theta : List ℕ) (beta : Bytes) (VX AT : List (List ℕ)) (eta : List ℕ) :
    muReceiver theta beta VX AT eta = muIdx.map fun p => muRecvEntry theta beta VX AT eta p.1 p.2 := rfl

theorem muSender_eq (theta : List ℕ) (A0 : List (List ℕ)) :
    muSender theta A0 = muIdx.map fun p => linComb (sAt A0 p.1 (L_BATCH + p.2)) (th theta p.2) (sAt A0 p.1) := rfl

theorem muRecvEntry_lt (theta : List ℕ) (beta : Bytes) (VX AT : List (List ℕ)) (eta : List ℕ) (j k : ℕ) :
    muRecvEntry theta beta VX AT eta j k < secpQ := by
  unfold muRecvEntry
  split
  · exact subq_lt _ _
  · exact linComb_lt _ _ _

/-- one mu' value of the receiver in `Zq`, for a sender that masked `inp j` in row `j` and sent the honest `eta`:
    `μ'_{j,k} = μ_{j,k} + (if β_j then Σ_i θ_{k,i}·(inp_j[i] − a_i) else 0)` -/
theorem cast_muRecvEntry (theta : List ℕ) (beta : Bytes) (A0 A1 VX : List (List ℕ)) (inp : ℕ → List ℕ)
    (a eta0 : List ℕ) (hOT : OTRel beta A0 A1 VX) (j k : ℕ) (hj : j < XI) (hk : k < RHO) :
    ((muRecvEntry theta beta VX
        (decodeTable ((List.range XI).map fun j => (aTildeRow A0 A1 (inp j) eta0 j).map toBe))
        (((etaFinal theta a eta0).map toBe).map ofBe) j k : ℕ) : Zq)
      = ((linComb (sAt A0 j (L_BATCH + k)) (th theta k) (sAt A0 j) : ℕ) : Zq)
        + (if bitAt beta j then
            ((List.range L_BATCH).map fun i => (th theta k i : Zq) * (((inp j).getD i 0 : Zq) - (a.getD i 0 : Zq))).sum
           else 0) := by
  have hcol : L_BATCH + k < L_BATCH_PLUS_RHO := by rw [lbpr]; exact Nat.add_lt_add_left hk _
  have hbatch : ∀ i ∈ List.range L_BATCH, i < L_BATCH_PLUS_RHO := fun i hi => by
    rw [lbpr]; exact Nat.lt_add_right _ (List.mem_range.mp hi)
  have hcore := RvoleCore.mu_dev (R := Zq) (List.range L_BATCH) (fun i => (th theta k i : Zq))
    (fun i => (a.getD i 0 : Zq)) (fun i => ((inp j).getD i 0 : Zq)) (fun i => (sAt A0 j i : Zq))
    (fun i => (sAt A1 j i : Zq)) (fun i => (sAt VX j i : Zq)) (eta0.getD k 0 : Zq)
    (sAt A0 j (L_BATCH + k) : Zq) (sAt A1 j (L_BATCH + k) : Zq) (sAt VX j (L_BATCH + k) : Zq) (bitAt beta j)
    (fun i hi => by rw [hOT j hj i (hbatch i hi)]; split <;> rfl)
    (by rw [hOT j hj _ hcol]; split <;> rfl)
  rw [cast_linComb (sAt A0 j (L_BATCH + k))]
  rw [← hcore]
  unfold muRecvEntry
  cases hb : bitAt beta j
  · simp only [Bool.false_eq_true, if_false]
    rw [cast_linComb, cast_dSel, hb]
    simp only [Bool.false_eq_true, if_false]
    congr 2
    apply List.map_congr_left
    intro i _
    rw [cast_dSel, hb]; simp
  · simp only [if_true]
    rw [cast_subq, cast_linComb, cast_dSel, hb]
    simp only [if_true]
    rw [eta_decode theta a eta0 k hk, cast_etaFinal theta a eta0 k hk, sAt_aTilde_check _ _ _ _ _ _ hj hk,
      cast_addq, cast_subq]
    congr 2
    congr 1
    apply List.map_congr_left
    intro i hi
    rw [cast_dSel, hb]
    simp only [if_true]
    rw [sAt_aTilde_batch _ _ _ _ _ _ hj (List.mem_range.mp hi), cast_addq, cast_subq]

/-- **the check values agree** (pure cores): on the honest message the receiver's mu' list IS the sender's mu list -/
theorem mu_match (theta : List ℕ) (beta : Bytes) (A0 A1 VX : List (List ℕ)) (a eta0 : List ℕ)
    (hOT : OTRel beta A0 A1 VX) :
    muReceiver theta beta VX (decodeTable ((List.range XI).map fun j => (aTildeRow A0 A1 a eta0 j).map toBe))
        (((etaFinal theta a eta0).map toBe).map ofBe)
      = muSender theta A0 := by
  rw [muReceiver_eq, muSender_eq]
  apply List.map_congr_left
  rintro ⟨j, k⟩ hm
  obtain ⟨hj, hk⟩ := mem_muIdx hm
  have hc := cast_muRecvEntry theta beta A0 A1 VX (fun _ => a) a eta0 hOT j k hj hk
  have hz : ((List.range L_BATCH).map fun i => (th theta k i : Zq) * ((a.getD i 0 : Zq) - (a.getD i 0 : Zq))).sum = 0 := by
    rw [RvoleCore.sum_mul_sub]; ring
  simp only [hz, ite_self, add_zero] at hc
  exact natCast_inj_of_lt (muRecvEntry_lt _ _ _ _ _ _ _) (linComb_lt _ _ _) hc

end SlVerif.Rvole
