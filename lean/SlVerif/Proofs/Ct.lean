import SlVerif.Model.Ct
/-
  C18 — soundness of the static checker `Ct.check` for the counting semantics `Ct.exec` (core Lean only).

  `sound : check p = true → σ₁.pub = σ₂.pub → InRange σ₁ → InRange σ₂ → NoAbort σ₁ → NoAbort σ₂ → exec p σ₁ = exec p σ₂`
  for EVERY interpretation `I` of trip counts / conditions / secret values and every type of secret state.
-/
namespace SlVerif.Ct
open Counts

variable {S : Type}

/-! ### states -/

@[simp] theorem State.bind_pub (σ : State S) (l j : Nat) : (σ.bind l j).pub = σ.pub.bind l j := rfl
@[simp] theorem State.bind_sec (σ : State S) (l j : Nat) : (σ.bind l j).sec = σ.sec := rfl
@[simp] theorem PubState.bind_self (ρ : PubState) (l j : Nat) : ρ.bind l j l = j := by simp [PubState.bind]

theorem PubState.bind_bind (ρ : PubState) (l i j : Nat) : (ρ.bind l j).bind l i = ρ.bind l i := by
  funext x; simp only [PubState.bind]; split <;> rfl

@[simp] theorem State.bind_bind (σ : State S) (l i j : Nat) : (σ.bind l j).bind l i = σ.bind l i := by
  simp [State.bind, PubState.bind_bind]

theorem State.bind_congr {σ₁ σ₂ : State S} (h : σ₁.pub = σ₂.pub) (l j : Nat) : (σ₁.bind l j).pub = (σ₂.bind l j).pub := by
  simp [h]

/-! ### sums of counts -/

theorem sumRange_zero (f : Nat → Counts) : sumRange 0 f = Counts.zero := rfl

theorem sumRange_succ (n : Nat) (f : Nat → Counts) : sumRange (n + 1) f = (sumRange n f).add (f n) := by
  simp [sumRange, List.range_succ, List.foldl_append]

theorem sumRange_congr {n : Nat} {f g : Nat → Counts} (h : ∀ j, j < n → f j = g j) : sumRange n f = sumRange n g := by
  induction n with
  | zero => rfl
  | succ n ih =>
    rw [sumRange_succ, sumRange_succ, ih (fun j hj => h j (Nat.lt_succ_of_lt hj)), h n (Nat.lt_succ_self n)]

theorem sumRange_add (n : Nat) (f g : Nat → Counts) :
    sumRange n (fun j => (f j).add (g j)) = (sumRange n f).add (sumRange n g) := by
  induction n with
  | zero => funext s; simp [sumRange_zero, Counts.add, Counts.zero]
  | succ n ih =>
    rw [sumRange_succ, sumRange_succ, sumRange_succ, ih]
    funext s; simp only [Counts.add]; omega

/-- a constant body: `n` executions -/
theorem sumRange_const (n : Nat) (x : Counts) : sumRange n (fun _ => x) = Counts.smul n x := by
  induction n with
  | zero => funext s; simp [sumRange_zero, Counts.smul, Counts.zero]
  | succ n ih => rw [sumRange_succ, ih]; funext s; simp [Counts.add, Counts.smul, Nat.add_mul]

/-- the one-hot branch runs `then` once and `else` n−1 times, for ANY in-range secret `v` -/
theorem onehot_fold (n v : Nat) (x y : Counts) (hv : v < n) :
    sumRange n (fun j => if j = v then x else y) = x.add (Counts.smul (n - 1) y) := by
  funext s
  have key : ∀ m, sumRange m (fun j => if j = v then x else y) s
      = (if v < m then x s + (m - 1) * y s else m * y s) := by
    intro m
    induction m with
    | zero => simp [sumRange_zero, Counts.zero]
    | succ m ih =>
      rw [sumRange_succ]
      simp only [Counts.add, ih]
      by_cases h1 : v < m
      · have h3 : m ≠ v := by omega
        have h2 : v < m + 1 := by omega
        simp only [h1, h2, h3, if_true, if_false]
        cases m with
        | zero => omega
        | succ k => simp [Nat.add_mul]; omega
      · by_cases h3 : m = v
        · subst h3; simp; omega
        · have h2 : ¬ v < m + 1 := by omega
          simp only [h1, h2, h3, if_false]; simp [Nat.add_mul]
  rw [key n]; simp [hv, Counts.add, Counts.smul]

/-! ### straight-line code does not look at the state -/

theorem straight_exec (I : Interp S) : ∀ (p : Stmt), straight p = true → ∀ σ σ' : State S, exec I p σ = exec I p σ' := by
  intro p
  induction p with
  | skip => intros; rfl
  | site s => intros; rfl
  | seq a b iha ihb =>
    intro h σ σ'
    simp only [straight, Bool.and_eq_true] at h
    simp only [exec]; rw [iha h.1 σ σ', ihb h.2 σ σ']
  | call f b ih => intro h σ σ'; simp only [straight] at h; simp only [exec]; exact ih h σ σ'
  | ext f => intros; rfl
  | _ => intro h; simp [straight] at h

/-! ### soundness -/

/-- statement for a whole statement -/
def P (I : Interp S) (p : Stmt) : Prop :=
  chk none p = true → ∀ σ₁ σ₂ : State S, σ₁.pub = σ₂.pub →
    InRange I p σ₁ → InRange I p σ₂ → NoAbort I p σ₁ → NoAbort I p σ₂ → exec I p σ₁ = exec I p σ₂

/-- statement for (part of) the body of public loop `l` run `n` times -/
def Q (I : Interp S) (l : LoopId) (p : Stmt) : Prop :=
  chk (some l) p = true → ∀ (n : Nat) (σ₁ σ₂ : State S), σ₁.pub = σ₂.pub →
    (∀ k, k ∈ hotIds l p → I.secretIdx k (σ₁.bind l 0) < n) →
    (∀ k, k ∈ hotIds l p → I.secretIdx k (σ₂.bind l 0) < n) →
    (∀ j, j < n → InRange I p (σ₁.bind l j)) → (∀ j, j < n → InRange I p (σ₂.bind l j)) →
    (∀ j, j < n → NoAbort I p (σ₁.bind l j)) → (∀ j, j < n → NoAbort I p (σ₂.bind l j)) →
    sumRange n (fun j => exec I p (σ₁.bind l j)) = sumRange n (fun j => exec I p (σ₂.bind l j))

theorem Q_of_P {I : Interp S} {l : LoopId} {p : Stmt} (hP : P I p) (heq : chk (some l) p = chk none p) : Q I l p := by
  intro h n σ₁ σ₂ hp _ _ r1 r2 a1 a2
  apply sumRange_congr
  intro j hj
  exact hP (heq ▸ h) _ _ (State.bind_congr hp l j) (r1 j hj) (r2 j hj) (a1 j hj) (a2 j hj)

theorem chk_sound (I : Interp S) : ∀ p : Stmt, P I p ∧ ∀ l, Q I l p := by
  intro p
  induction p with
  | skip => exact ⟨fun _ _ _ _ _ _ _ _ => rfl, fun l => Q_of_P (fun _ _ _ _ _ _ _ _ => rfl) rfl⟩
  | site s => exact ⟨fun _ _ _ _ _ _ _ _ => rfl, fun l => Q_of_P (fun _ _ _ _ _ _ _ _ => rfl) rfl⟩
  | ext f => exact ⟨fun _ _ _ _ _ _ _ _ => rfl, fun l => Q_of_P (fun _ _ _ _ _ _ _ _ => rfl) rfl⟩
  | seq a b iha ihb =>
    refine ⟨?_, ?_⟩
    · intro h σ₁ σ₂ hp r1 r2 a1 a2
      simp only [chk, Bool.and_eq_true] at h
      simp only [exec]
      rw [iha.1 h.1 σ₁ σ₂ hp r1.1 r2.1 a1.1 a2.1, ihb.1 h.2 σ₁ σ₂ hp r1.2 r2.2 a1.2 a2.2]
    · intro l h n σ₁ σ₂ hp k1 k2 r1 r2 a1 a2
      simp only [chk, Bool.and_eq_true] at h
      simp only [exec]
      rw [sumRange_add, sumRange_add]
      have hk : ∀ (σ : State S), (∀ k, k ∈ hotIds l (.seq a b) → I.secretIdx k (σ.bind l 0) < n) →
          (∀ k, k ∈ hotIds l a → I.secretIdx k (σ.bind l 0) < n) ∧
          (∀ k, k ∈ hotIds l b → I.secretIdx k (σ.bind l 0) < n) := by
        intro σ hk
        constructor
        · intro k hm; exact hk k (by simp only [hotIds, List.mem_append]; exact Or.inl hm)
        · intro k hm; exact hk k (by simp only [hotIds, List.mem_append]; exact Or.inr hm)
      rw [iha.2 l h.1 n σ₁ σ₂ hp (hk σ₁ k1).1 (hk σ₂ k2).1 (fun j hj => (r1 j hj).1) (fun j hj => (r2 j hj).1)
            (fun j hj => (a1 j hj).1) (fun j hj => (a2 j hj).1),
          ihb.2 l h.2 n σ₁ σ₂ hp (hk σ₁ k1).2 (hk σ₂ k2).2 (fun j hj => (r1 j hj).2) (fun j hj => (r2 j hj).2)
            (fun j hj => (a1 j hj).2) (fun j hj => (a2 j hj).2)]
  | loopPub l' b ih =>
    have hP : P I (.loopPub l' b) := by
      intro h σ₁ σ₂ hp r1 r2 a1 a2
      simp only [chk] at h
      simp only [exec, InRange, NoAbort] at r1 r2 a1 a2 ⊢
      rw [← hp] at r2 a2 ⊢
      exact ih.2 l' h (I.trip l' σ₁.pub) σ₁ σ₂ hp r1.1 r2.1 r1.2 r2.2 a1 a2
    exact ⟨hP, fun l => Q_of_P hP rfl⟩
  | ifPub c t e iht ihe =>
    have hP : P I (.ifPub c t e) := by
      intro h σ₁ σ₂ hp r1 r2 a1 a2
      simp only [chk, Bool.and_eq_true] at h
      simp only [exec, InRange, NoAbort] at r1 r2 a1 a2 ⊢
      rw [← hp] at r2 a2 ⊢
      cases hc : I.cond c σ₁.pub with
      | true =>
        simp only [hc, if_true] at r1 r2 a1 a2 ⊢
        exact iht.1 h.1 σ₁ σ₂ hp r1 r2 a1 a2
      | false =>
        simp only [hc, Bool.false_eq_true, if_false] at r1 r2 a1 a2 ⊢
        exact ihe.1 h.2 σ₁ σ₂ hp r1 r2 a1 a2
    exact ⟨hP, fun l => Q_of_P hP rfl⟩
  | oneHot c l' k t e _ _ =>
    refine ⟨fun h => by simp [chk] at h, ?_⟩
    intro l h n σ₁ σ₂ hp k1 k2 _ _ _ _
    simp only [chk, Bool.and_eq_true, beq_iff_eq] at h
    obtain ⟨⟨hl, ht⟩, he⟩ := h
    subst hl
    have hv1 := k1 k (by simp [hotIds])
    have hv2 := k2 k (by simp [hotIds])
    have step : ∀ σ : State S, (fun j => exec I (.oneHot c l k t e) (σ.bind l j))
        = (fun j => if j = I.secretIdx k (σ.bind l 0) then exec I t σ else exec I e σ) := by
      intro σ; funext j
      simp only [exec, State.bind_pub, PubState.bind_self, State.bind_bind]
      rw [straight_exec I t ht (σ.bind l j) σ, straight_exec I e he (σ.bind l j) σ]
    rw [step σ₁, step σ₂, onehot_fold n _ _ _ hv1, onehot_fold n _ _ _ hv2,
        straight_exec I t ht σ₁ σ₂, straight_exec I e he σ₁ σ₂]
  | abortIf c b _ =>
    have hP : P I (.abortIf c b) := by
      intro _ σ₁ σ₂ _ _ _ a1 a2
      simp only [NoAbort] at a1 a2
      simp [exec, a1, a2]
    exact ⟨hP, fun l => Q_of_P hP rfl⟩
  | call f b ih =>
    have hP : P I (.call f b) := by
      intro h σ₁ σ₂ hp r1 r2 a1 a2
      simp only [chk] at h
      simp only [exec]
      exact ih.1 h σ₁ σ₂ hp r1 r2 a1 a2
    exact ⟨hP, fun l => Q_of_P hP rfl⟩
  | extVartime f => exact ⟨fun h => by simp [chk] at h, fun l h => by simp [chk] at h⟩
  | secArg f => exact ⟨fun h => by simp [chk] at h, fun l h => by simp [chk] at h⟩
  | ifSec c t e _ _ => exact ⟨fun h => by simp [chk] at h, fun l h => by simp [chk] at h⟩
  | loopSec l' b _ => exact ⟨fun h => by simp [chk] at h, fun l h => by simp [chk] at h⟩
  | whileSec l' b _ => exact ⟨fun h => by simp [chk] at h, fun l h => by simp [chk] at h⟩
  | matchSec c a r _ _ => exact ⟨fun h => by simp [chk] at h, fun l h => by simp [chk] at h⟩
  | exitSec c => exact ⟨fun h => by simp [chk] at h, fun l h => by simp [chk] at h⟩

/-- **Soundness of the checker.**  If `check p` accepts, then any two runs that agree on the public state, keep every
    one-hot secret in range and take no declassified abort execute every site the same number of times — whatever
    the secrets are, and whatever the trip counts / public conditions / secret values mean (`I` arbitrary). -/
theorem sound (I : Interp S) (p : Stmt) (h : check p = true) (σ₁ σ₂ : State S) (hp : σ₁.pub = σ₂.pub)
    (r₁ : InRange I p σ₁) (r₂ : InRange I p σ₂) (a₁ : NoAbort I p σ₁) (a₂ : NoAbort I p σ₂) :
    exec I p σ₁ = exec I p σ₂ :=
  (chk_sound I p).1 h σ₁ σ₂ hp r₁ r₂ a₁ a₂

/-! ### discharging the side conditions -/

/-- `InRange` follows from a bound for each (loop, secret) pair that occurs in `p`. -/
theorem inRange_of_hotPairs (I : Interp S) : ∀ (p : Stmt) (σ : State S),
    (∀ l k, (l, k) ∈ hotPairs p → ∀ τ : State S, I.secretIdx k (τ.bind l 0) < I.trip l τ.pub) → InRange I p σ := by
  intro p
  induction p with
  | seq a b iha ihb =>
    intro σ h
    exact ⟨iha σ (fun l k hm => h l k (by simp only [hotPairs, List.mem_append]; exact Or.inl hm)),
           ihb σ (fun l k hm => h l k (by simp only [hotPairs, List.mem_append]; exact Or.inr hm))⟩
  | loopPub l b ih =>
    intro σ h
    refine ⟨?_, fun j _ => ih _ (fun l' k hm => h l' k (by simpa [hotPairs] using hm))⟩
    intro k hk
    have hm : (l, k) ∈ hotPairs b := by
      clear h ih
      induction b with
      | seq a b iha ihb =>
        simp only [hotIds, List.mem_append] at hk
        simp only [hotPairs, List.mem_append]
        exact hk.elim (fun x => Or.inl (iha x)) (fun x => Or.inr (ihb x))
      | oneHot c l' k' t e _ _ =>
        simp only [hotIds] at hk
        split at hk
        · rename_i hl; subst hl; simp only [List.mem_singleton] at hk; subst hk; simp [hotPairs]
        · simp at hk
      | _ => simp [hotIds] at hk
    exact h l k (by simpa [hotPairs] using hm) σ
  | ifPub c t e iht ihe =>
    intro σ h
    simp only [InRange]
    split
    · exact iht σ (fun l k hm => h l k (by simp only [hotPairs, List.mem_append]; exact Or.inl hm))
    · exact ihe σ (fun l k hm => h l k (by simp only [hotPairs, List.mem_append]; exact Or.inr hm))
  | call f b ih => intro σ h; exact ih σ (fun l k hm => h l k (by simpa [hotPairs] using hm))
  | _ => intros; trivial

/-- `NoAbort` follows from "no abort point of `p` fires in any state". -/
theorem noAbort_of_abortIds (I : Interp S) : ∀ (p : Stmt) (σ : State S),
    (∀ c, c ∈ abortIds p → ∀ τ : State S, I.abortCond c τ = false) → NoAbort I p σ := by
  intro p
  induction p with
  | seq a b iha ihb =>
    intro σ h
    exact ⟨iha σ (fun c hm => h c (by simp only [abortIds, List.mem_append]; exact Or.inl hm)),
           ihb σ (fun c hm => h c (by simp only [abortIds, List.mem_append]; exact Or.inr hm))⟩
  | loopPub l b ih => intro σ h j _; exact ih _ (fun c hm => h c (by simpa [abortIds] using hm))
  | ifPub c t e iht ihe =>
    intro σ h
    simp only [NoAbort]
    split
    · exact iht σ (fun c hm => h c (by simp only [abortIds, List.mem_append]; exact Or.inl hm))
    · exact ihe σ (fun c hm => h c (by simp only [abortIds, List.mem_append]; exact Or.inr hm))
  | abortIf c b _ => intro σ h; exact h c (by simp [abortIds]) σ
  | call f b ih => intro σ h; exact ih σ (fun c hm => h c (by simpa [abortIds] using hm))
  | _ => intros; trivial

/-- unconditional form for skeletons without one-hot comparisons and without abort points -/
theorem sound_plain (I : Interp S) (p : Stmt) (h : check p = true) (hh : hotPairs p = []) (ha : abortIds p = [])
    (σ₁ σ₂ : State S) (hp : σ₁.pub = σ₂.pub) : exec I p σ₁ = exec I p σ₂ :=
  sound I p h σ₁ σ₂ hp
    (inRange_of_hotPairs I p σ₁ (by simp [hh])) (inRange_of_hotPairs I p σ₂ (by simp [hh]))
    (noAbort_of_abortIds I p σ₁ (by simp [ha])) (noAbort_of_abortIds I p σ₂ (by simp [ha]))

end SlVerif.Ct
