import SlVerif.Model.Bip32
import SlVerif.Proofs.GroupOracle
import Mathlib.Data.Nat.Digits.Lemmas
import Mathlib.Tactic.Ring
import Mathlib.Tactic.NormNum
/-
  Helper lemmas for C12 (`Model/Bip32.lean` at `m := Id` with a pure oracle `h`).
  * `deriveChildP`, `fingerprintP`, `walkP`, `deriveXpubOffsetsP`, `deriveXpubP`, `toStringP`   `Id.run` of the model
  * `*_eq`                 the model functions unfolded
  * `walkP_snoc`           the loop, one more component at the END of the path
  * Base58: `digitsAux_eq_digits`, `base58Decode_encode`
-/
namespace SlVerif.Bip32
open SlVerif

abbrev pureO (h : Query → Bytes) : Query → Id Bytes := fun q => pure (h q)

abbrev deriveChildP (h : Query → Bytes) (parent cc : Bytes) (idx : ℕ) : Outcome Child :=
  Id.run (deriveChild (pureO h) parent cc idx)
abbrev fingerprintP (h : Query → Bytes) (p : Bytes) : Outcome Bytes := Id.run (fingerprint (pureO h) p)
abbrev walkP (h : Query → Bytes) (s : Walk) (path : List ℕ) : Outcome Walk := Id.run (walk (pureO h) s path)
abbrev deriveXpubOffsetsP (h : Query → Bytes) (v : ℕ) (root cc : Bytes) (path : List ℕ) : Outcome (XPub × List ℕ) :=
  Id.run (deriveXpubOffsets (pureO h) v root cc path)
abbrev deriveXpubP (h : Query → Bytes) (v : ℕ) (root cc : Bytes) (path : List ℕ) : Outcome XPub :=
  Id.run (deriveXpub (pureO h) v root cc path)
abbrev toStringP (h : Query → Bytes) (x : XPub) (encoded : Bool) : Outcome String :=
  Id.run (Bip32.toString (pureO h) x encoded)
abbrev base58CheckP (h : Query → Bytes) (payload : Bytes) : String := Id.run (base58Check (pureO h) payload)

/-- the 64 bytes `I` of CKDpub -/
def hmacI (h : Query → Bytes) (parent cc : Bytes) (idx : ℕ) : Bytes :=
  h (.hmacSha512 cc (sec1 parent ++ natToBe 4 idx))
/-- `parse256(I_L)` -/
def IL (h : Query → Bytes) (parent cc : Bytes) (idx : ℕ) : ℕ := beToNat ((hmacI h parent cc idx).take 32)
/-- `I_R` -/
def IR (h : Query → Bytes) (parent cc : Bytes) (idx : ℕ) : Bytes := (hmacI h parent cc idx).drop 32
/-- `point(I_L mod q) + K_par` as the oracle computes it -/
def childKey (h : Query → Bytes) (parent cc : Bytes) (idx : ℕ) : Bytes :=
  h (.ecAdd .secp256k1 (h (.ecMulGen .secp256k1 (IL h parent cc idx % secpQ))) parent)

theorem deriveChildP_eq (h : Query → Bytes) (parent cc : Bytes) (idx : ℕ) :
    deriveChildP h parent cc idx =
      if isNormal idx = false then .err .hardenedChildNotSupported
      else if IL h parent cc idx > secpQ then .err .invalidChildScalar
      else if childKey h parent cc idx = identity33 then .err .pubkeyPointAtInfinity
      else .ok { offset := IL h parent cc idx % secpQ, key := childKey h parent cc idx, chainCode := IR h parent cc idx } := by
  by_cases h1 : isNormal idx = false
  · rw [if_pos h1]; simp [deriveChildP, deriveChild, h1]
  · rw [if_neg h1]
    by_cases h2 : IL h parent cc idx > secpQ
    · rw [if_pos h2]; unfold IL hmacI at h2; simp [deriveChildP, deriveChild, h1, h2]
    · rw [if_neg h2]
      by_cases h3 : childKey h parent cc idx = identity33
      · rw [if_pos h3]; unfold childKey IL hmacI at h3; unfold IL hmacI at h2
        simp [deriveChildP, deriveChild, h1, h2, h3]
      · rw [if_neg h3]; unfold childKey IL hmacI at h3; unfold IL hmacI at h2
        simp [deriveChildP, deriveChild, h1, h2, h3, IL, IR, childKey, hmacI]

theorem fingerprintP_eq (h : Query → Bytes) (p : Bytes) :
    fingerprintP h p =
      if (sec1 p).length ≠ 33 then .panic "compressed pubkey must be 33 bytes"
      else .ok ((h (.ripemd160 (h (.sha256 (sec1 p))))).take 4) := by
  unfold fingerprintP fingerprint
  by_cases h1 : (sec1 p).length = 33 <;> simp [h1]


/-! ### the loop -/

def Outcome.bind {α β : Type} : Outcome α → (α → Outcome β) → Outcome β
  | .ok a, f => f a
  | .err e, _ => .err e
  | .panic m, _ => .panic m

@[simp] theorem Outcome.bind_ok {α β : Type} (a : α) (f : α → Outcome β) : (Outcome.ok a).bind f = f a := rfl
@[simp] theorem Outcome.bind_err {α β : Type} (e : Err) (f : α → Outcome β) : (Outcome.err e : Outcome α).bind f = .err e := rfl
@[simp] theorem Outcome.bind_panic {α β : Type} (m : String) (f : α → Outcome β) : (Outcome.panic m : Outcome α).bind f = .panic m := rfl

theorem Outcome.bind_assoc {α β γ : Type} (x : Outcome α) (f : α → Outcome β) (g : β → Outcome γ) :
    (x.bind f).bind g = x.bind (fun a => (f a).bind g) := by cases x <;> rfl

/-- one iteration of the loop body of `derive_xpub`: fingerprint of the current key, then `derive_child_pubkey` -/
def stepP (h : Query → Bytes) (s : Walk) (idx : ℕ) : Outcome Walk :=
  (fingerprintP h s.key).bind fun fp => (deriveChildP h s.key s.chainCode idx).bind fun c =>
    .ok { key := c.key, chainCode := c.chainCode, parentFp := fp, offsets := s.offsets ++ [c.offset] }

theorem walkP_nil (h : Query → Bytes) (s : Walk) : walkP h s [] = .ok s := rfl

theorem walkP_cons (h : Query → Bytes) (s : Walk) (i : ℕ) (rest : List ℕ) :
    walkP h s (i :: rest) = (stepP h s i).bind fun s' => walkP h s' rest := by
  show Id.run (walk (pureO h) s (i :: rest)) = _
  rw [walk]
  unfold stepP
  show (match fingerprintP h s.key with
        | .panic msg => Outcome.panic msg
        | .err e => .err e
        | .ok fp => match deriveChildP h s.key s.chainCode i with
          | .panic msg => .panic msg
          | .err e => .err e
          | .ok c => walkP h { key := c.key, chainCode := c.chainCode, parentFp := fp, offsets := s.offsets ++ [c.offset] } rest) = _
  cases fingerprintP h s.key <;> simp only [Outcome.bind]
  cases deriveChildP h s.key s.chainCode i <;> rfl

theorem walkP_append (h : Query → Bytes) (s : Walk) (p q : List ℕ) :
    walkP h s (p ++ q) = (walkP h s p).bind fun w => walkP h w q := by
  induction p generalizing s with
  | nil => rfl
  | cons i rest ih =>
    rw [List.cons_append, walkP_cons, walkP_cons, Outcome.bind_assoc]
    congr 1; funext s'; exact ih s'

/-- the loop with one more component at the END of the path -/
theorem walkP_snoc (h : Query → Bytes) (s : Walk) (p : List ℕ) (i : ℕ) :
    walkP h s (p ++ [i]) = (walkP h s p).bind fun w => stepP h w i := by
  rw [walkP_append]; congr 1; funext w
  rw [walkP_cons]; cases stepP h w i <;> rfl

theorem deriveXpubOffsetsP_eq (h : Query → Bytes) (v : ℕ) (root cc : Bytes) (path : List ℕ) :
    deriveXpubOffsetsP h v root cc path =
      if root = identity33 then .err .pubkeyPointAtInfinity
      else if path.length > 255 then .err .pathTooDeep
      else (walkP h { key := root, chainCode := cc, parentFp := [0, 0, 0, 0], offsets := [] } path).bind fun w =>
        .ok ({ version := v, depth := path.length, parentFp := w.parentFp, childNumber := finalChildNumber path,
               chainCode := w.chainCode, key := w.key }, w.offsets) := by
  by_cases h1 : root = identity33
  · rw [if_pos h1]; simp [deriveXpubOffsetsP, deriveXpubOffsets, h1]
  · rw [if_neg h1]
    by_cases h2 : path.length > 255
    · rw [if_pos h2]; simp [deriveXpubOffsetsP, deriveXpubOffsets, h1, h2]
    · rw [if_neg h2]
      have h2' : ¬ (255 < path.length) := h2
      have e : deriveXpubOffsetsP h v root cc path =
          (match walkP h { key := root, chainCode := cc, parentFp := [0, 0, 0, 0], offsets := [] } path with
            | .panic msg => Outcome.panic msg
            | .err e => .err e
            | .ok w => .ok ({ version := v, depth := path.length, parentFp := w.parentFp,
                              childNumber := finalChildNumber path, chainCode := w.chainCode, key := w.key },
                            w.offsets)) := by
        simp only [deriveXpubOffsetsP, deriveXpubOffsets, h1, h2', if_false]
        rfl
      rw [e]
      cases walkP h { key := root, chainCode := cc, parentFp := [0, 0, 0, 0], offsets := [] } path <;> rfl

theorem deriveXpubP_eq (h : Query → Bytes) (v : ℕ) (root cc : Bytes) (path : List ℕ) :
    deriveXpubP h v root cc path = (deriveXpubOffsetsP h v root cc path).bind fun r => .ok r.1 := by
  show (match deriveXpubOffsetsP h v root cc path with
        | .ok (x, _) => Outcome.ok x
        | .err e => .err e
        | .panic msg => .panic msg) = _
  cases deriveXpubOffsetsP h v root cc path <;> rfl

/-! ### Base58 -/

theorem digitsAux_eq_digits {b : ℕ} (hb : 1 < b) : ∀ fuel n, n ≤ fuel → digitsAux b fuel n = Nat.digits b n
  | 0, n, hn => by
      have : n = 0 := by omega
      subst this; simp [digitsAux]
  | fuel+1, n, hn => by
      rw [digitsAux]
      by_cases h0 : n = 0
      · subst h0; simp
      · have hlt : n / b < n := Nat.div_lt_self (Nat.pos_of_ne_zero h0) hb
        rw [if_neg h0, Nat.digits_def' hb (Nat.pos_of_ne_zero h0), digitsAux_eq_digits hb fuel (n / b) (by omega)]

theorem digitsLE_eq_digits {b : ℕ} (hb : 1 < b) (n : ℕ) : digitsLE b n = Nat.digits b n :=
  digitsAux_eq_digits hb n n le_rfl

/-- a big-endian fold is `Nat.ofDigits` of the reversed list -/
theorem foldl_eq_ofDigits (b : ℕ) (l : List ℕ) :
    l.foldl (fun acc d => acc * b + d) 0 = Nat.ofDigits b l.reverse := by
  induction l using List.reverseRecOn with
  | nil => rfl
  | append_singleton xs x ih =>
    rw [List.foldl_append, List.foldl_cons, List.foldl_nil, ih, List.reverse_append, List.reverse_singleton,
      List.singleton_append, Nat.ofDigits_cons]
    ring

theorem foldl_replicate_zero (b z : ℕ) : (List.replicate z 0).foldl (fun acc d => acc * b + d) 0 = 0 := by
  induction z with
  | zero => rfl
  | succ k ih => rw [List.replicate_succ, List.foldl_cons]; simpa using ih

theorem countLeading_split {α : Type} [DecidableEq α] (a : α) (l : List α) :
    ∃ r, l = List.replicate (countLeading a l) a ++ r ∧ r.head? ≠ some a := by
  induction l with
  | nil => exact ⟨[], rfl, by simp⟩
  | cons x xs ih =>
    by_cases hx : x = a
    · obtain ⟨r, e, hr⟩ := ih
      refine ⟨r, ?_, hr⟩
      rw [countLeading, if_pos hx, List.replicate_succ, List.cons_append, ← e, hx]
    · refine ⟨x :: xs, ?_, ?_⟩
      · rw [countLeading, if_neg hx]; rfl
      · simpa using hx

theorem countLeading_replicate_append {α : Type} [DecidableEq α] (a : α) (z : ℕ) (r : List α)
    (hr : r.head? ≠ some a) : countLeading a (List.replicate z a ++ r) = z := by
  induction z with
  | zero =>
    cases r with
    | nil => rfl
    | cons x xs =>
      have : x ≠ a := by simpa using hr
      simp [countLeading, this]
  | succ k ih => rw [List.replicate_succ, List.cons_append, countLeading, if_pos rfl, ih]

theorem alphabet_idxOf : ∀ d, d < 58 → alphabet.idxOf (alphabet.getD d '1') = d := by decide
theorem alphabet_one : ∀ d, d < 58 → (alphabet.getD d '1' = '1' ↔ d = 0) := by decide
theorem alphabet_contains : ∀ d, d < 58 → alphabet.contains (alphabet.getD d '1') = true := by decide

/-- C12 `base58_roundtrip`: the native decoder inverts the native encoder on every byte string -/
theorem base58Decode_encode (bs : Bytes) (hb : ∀ b ∈ bs, b < 256) : base58Decode (base58Encode bs) = some bs := by
  obtain ⟨r, hsplit, hr⟩ := countLeading_split 0 bs
  set z := countLeading 0 bs with hz
  have hrlt : ∀ b ∈ r, b < 256 := fun b hb' => hb b (by rw [hsplit]; exact List.mem_append_right _ hb')
  -- the number
  have hn : beToNat bs = Nat.ofDigits 256 r.reverse := by
    rw [hsplit, beToNat, List.foldl_append, foldl_replicate_zero, foldl_eq_ofDigits]
  set n := beToNat bs with hnn
  set L := Nat.digits 58 n with hL
  have hLlt : ∀ d ∈ L, d < 58 := fun d hd => Nat.digits_lt_base (by norm_num) hd
  -- the encoding
  have henc : base58Encode bs = List.replicate z '1' ++ L.reverse.map (fun d => alphabet.getD d '1') := by
    rw [base58Encode, digitsLE_eq_digits (by norm_num)]
  -- head of the digit part is not '1'
  have hhead : (L.reverse.map (fun d => alphabet.getD d '1')).head? ≠ some '1' := by
    by_cases hn0 : n = 0
    · have : L = [] := by rw [hL, hn0]; simp
      rw [this]; simp
    · have hne : L ≠ [] := Nat.digits_ne_nil_iff_ne_zero.mpr hn0
      have hlast := Nat.getLast_digit_ne_zero 58 hn0
      rw [List.head?_map, List.head?_reverse, List.getLast?_eq_some_getLast hne]
      simp only [Option.map_some, ne_eq, Option.some.injEq]
      rw [alphabet_one _ (hLlt _ (List.getLast_mem hne))]
      exact hlast
  rw [henc, base58Decode]
  have hall : (List.replicate z '1' ++ L.reverse.map (fun d => alphabet.getD d '1')).all
      (fun c => alphabet.contains c) = true := by
    rw [List.all_eq_true]
    intro c hc
    rcases List.mem_append.1 hc with hc | hc
    · rw [(List.mem_replicate.1 hc).2]; decide
    · obtain ⟨d, hd, rfl⟩ := List.mem_map.1 hc
      exact alphabet_contains d (hLlt d (List.mem_reverse.1 hd))
  rw [if_pos hall]
  simp only
  rw [countLeading_replicate_append _ _ _ hhead]
  have hmap : (List.replicate z '1' ++ L.reverse.map (fun d => alphabet.getD d '1')).map (fun c => alphabet.idxOf c)
      = List.replicate z 0 ++ L.reverse := by
    rw [List.map_append, List.map_replicate, List.map_map]
    congr 1
    conv_rhs => rw [← List.map_id L.reverse]
    apply List.map_congr_left
    intro d hd
    exact alphabet_idxOf d (hLlt d (List.mem_reverse.1 hd))
  rw [hmap, List.foldl_append, foldl_replicate_zero, foldl_eq_ofDigits, List.reverse_reverse, hL,
    Nat.ofDigits_digits, digitsLE_eq_digits (by norm_num), hn]
  rw [Nat.digits_ofDigits 256 (by norm_num) r.reverse (fun l hl => hrlt l (List.mem_reverse.1 hl)), List.reverse_reverse,
    ← hsplit]
  intro hne
  rw [List.getLast_reverse]
  cases r with
  | nil => simp at hne
  | cons x xs => simpa using hr

/-! ### `ok` results, step by step (no assumption on the oracle) -/

theorem Outcome.bind_eq_ok {α β : Type} {x : Outcome α} {f : α → Outcome β} {b : β} (e : x.bind f = .ok b) :
    ∃ a, x = .ok a ∧ f a = .ok b := by
  cases x with
  | ok a => exact ⟨a, rfl, e⟩
  | err _ => simp at e
  | panic _ => simp at e

/-- first 4 bytes of `RIPEMD160(SHA256(key))` -/
def fp4 (h : Query → Bytes) (key : Bytes) : Bytes := (h (.ripemd160 (h (.sha256 (sec1 key))))).take 4

theorem fingerprintP_ok {h : Query → Bytes} {p fp : Bytes} (e : fingerprintP h p = .ok fp) : fp = fp4 h p := by
  rw [fingerprintP_eq] at e
  split_ifs at e
  exact (Outcome.ok.inj e).symm

theorem deriveChildP_ok {h : Query → Bytes} {K c : Bytes} {i : ℕ} {ch : Child} (e : deriveChildP h K c i = .ok ch) :
    isNormal i = true ∧ IL h K c i ≤ secpQ ∧ ch.offset = IL h K c i % secpQ ∧ ch.key = childKey h K c i ∧
      ch.key ≠ identity33 ∧ ch.chainCode = IR h K c i := by
  rw [deriveChildP_eq] at e
  split_ifs at e with h1 h2 h3
  have := Outcome.ok.inj e
  subst this
  refine ⟨by simpa using h1, by omega, rfl, rfl, h3, rfl⟩

theorem stepP_ok {h : Query → Bytes} {s w : Walk} {i : ℕ} (e : stepP h s i = .ok w) :
    ∃ ch, deriveChildP h s.key s.chainCode i = .ok ch ∧
      w = { key := ch.key, chainCode := ch.chainCode, parentFp := fp4 h s.key, offsets := s.offsets ++ [ch.offset] } := by
  unfold stepP at e
  obtain ⟨fp, e1, e⟩ := Outcome.bind_eq_ok e
  obtain ⟨ch, e2, e⟩ := Outcome.bind_eq_ok e
  refine ⟨ch, e2, ?_⟩
  rw [← fingerprintP_ok e1]; exact (Outcome.ok.inj e).symm

/-- `CKDpub` iterated along a path, on (key, chain code) -/
def ckdIter (h : Query → Bytes) : Bytes × Bytes → List ℕ → Outcome (Bytes × Bytes)
  | kc, [] => .ok kc
  | kc, i :: rest => (deriveChildP h kc.1 kc.2 i).bind fun c => ckdIter h (c.key, c.chainCode) rest

theorem walkP_ok_ckdIter {h : Query → Bytes} {p : List ℕ} : ∀ {s w : Walk}, walkP h s p = .ok w →
    ckdIter h (s.key, s.chainCode) p = .ok (w.key, w.chainCode) ∧ w.offsets.length = s.offsets.length + p.length ∧
    (p = [] → w.parentFp = s.parentFp) := by
  induction p with
  | nil => intro s w e; rw [walkP_nil] at e; cases Outcome.ok.inj e; exact ⟨rfl, rfl, fun _ => rfl⟩
  | cons i rest ih =>
    intro s w e
    rw [walkP_cons] at e
    obtain ⟨s', e1, e2⟩ := Outcome.bind_eq_ok e
    obtain ⟨ch, e3, rfl⟩ := stepP_ok e1
    obtain ⟨a, b, _⟩ := ih e2
    refine ⟨?_, ?_, fun hn => by simp at hn⟩
    · rw [ckdIter]; simp only; rw [e3]; exact a
    · rw [b]; simp; omega

/-! ### with the group structure of a `GroupOracle` -/

variable {h : Query → Bytes} {G : Type} [AddCommGroup G] [Module Zq G] (go : GroupOracle h G)

theorem identity33_eq : identity33 = List.replicate 33 0 := rfl

theorem sec1_of_canon {p : Bytes} (hp : go.Canon p) (hne : p ≠ identity33) : sec1 p = p ∧ (sec1 p).length = 33 := by
  rw [sec1, if_neg hne]; exact ⟨rfl, go.canon_length hp⟩

theorem fingerprintP_canon {p : Bytes} (hp : go.Canon p) (hne : p ≠ identity33) : fingerprintP h p = .ok (fp4 h p) := by
  rw [fingerprintP_eq, if_neg (by rw [(sec1_of_canon go hp hne).2]; simp)]; rfl

theorem childKey_canon {K : Bytes} (hK : go.Canon K) (c : Bytes) (i : ℕ) :
    go.Canon (childKey h K c i) ∧ go.dec (childKey h K c i) = go.dec K + ((IL h K c i % secpQ : ℕ) : Zq) • go.gen := by
  refine ⟨go.canon_add (go.canon_mulGen _) hK, ?_⟩
  rw [childKey, go.add (go.canon_mulGen _) hK, go.mulGen, add_comm]

/-- the per-step facts of C12 `additive` -/
theorem deriveChildP_ok_group {K c : Bytes} {i : ℕ} {ch : Child} (hK : go.Canon K) (e : deriveChildP h K c i = .ok ch) :
    go.Canon ch.key ∧ ch.key ≠ identity33 ∧ ch.offset < secpQ ∧ go.dec ch.key = go.dec K + (ch.offset : Zq) • go.gen := by
  obtain ⟨_, _, ho, hk, hne, _⟩ := deriveChildP_ok e
  refine ⟨hk ▸ (childKey_canon go hK c i).1, hne, ho ▸ Nat.mod_lt _ (by decide), ?_⟩
  rw [hk, ho]; exact (childKey_canon go hK c i).2

/-- `derive_child_pubkey` never panics (the model has no panic path in it at all) -/
theorem deriveChildP_ne_panic (h : Query → Bytes) (K c : Bytes) (i : ℕ) (m : String) : deriveChildP h K c i ≠ .panic m := by
  rw [deriveChildP_eq]; split_ifs <;> simp

/-- sum of offsets in `Zq` -/
def offSum (l : List ℕ) : Zq := (l.map (fun o => (o : Zq))).sum

theorem offSum_snoc (l : List ℕ) (o : ℕ) : offSum (l ++ [o]) = offSum l + (o : Zq) := by
  simp [offSum]

/-- invariant of the loop: the current key is a valid non-identity point = root + (Σ offsets)•G -/
structure Good (root : Bytes) (s : Walk) : Prop where
  canon : go.Canon s.key
  ne : s.key ≠ identity33
  add : go.dec s.key = go.dec root + offSum s.offsets • go.gen
  lt : ∀ o ∈ s.offsets, o < secpQ

theorem Good.init {root : Bytes} (hr : go.Canon root) (hne : root ≠ identity33) (cc : Bytes) :
    Good go root { key := root, chainCode := cc, parentFp := [0, 0, 0, 0], offsets := [] } :=
  ⟨hr, hne, by simp [offSum], by simp⟩

theorem stepP_good {root : Bytes} {s : Walk} (g : Good go root s) (i : ℕ) :
    (∀ m, stepP h s i ≠ .panic m) ∧ (∀ w, stepP h s i = .ok w → Good go root w) ∧
    stepP h s i = (deriveChildP h s.key s.chainCode i).bind fun c =>
      .ok { key := c.key, chainCode := c.chainCode, parentFp := fp4 h s.key, offsets := s.offsets ++ [c.offset] } := by
  have e : stepP h s i = (deriveChildP h s.key s.chainCode i).bind fun c =>
      .ok { key := c.key, chainCode := c.chainCode, parentFp := fp4 h s.key, offsets := s.offsets ++ [c.offset] } := by
    rw [stepP, fingerprintP_canon go g.canon g.ne]; rfl
  refine ⟨?_, ?_, e⟩
  · intro m hm
    rw [e] at hm
    cases hd : deriveChildP h s.key s.chainCode i with
    | ok c => rw [hd] at hm; simp at hm
    | err _ => rw [hd] at hm; simp at hm
    | panic m' => exact deriveChildP_ne_panic h _ _ _ _ hd
  · intro w hw
    obtain ⟨ch, e3, rfl⟩ := stepP_ok hw
    obtain ⟨a, b, c, d⟩ := deriveChildP_ok_group go g.canon e3
    refine ⟨a, b, ?_, ?_⟩
    · simp only; rw [d, g.add, offSum_snoc, add_smul, add_assoc]
    · intro o ho
      rcases List.mem_append.1 ho with ho | ho
      · exact g.lt o ho
      · rw [List.mem_singleton.1 ho]; exact c

theorem walkP_good {root : Bytes} (p : List ℕ) : ∀ {s : Walk}, Good go root s →
    (∀ m, walkP h s p ≠ .panic m) ∧ (∀ w, walkP h s p = .ok w → Good go root w) := by
  induction p with
  | nil => intro s g; rw [walkP_nil]; exact ⟨fun m => by simp, fun w e => by cases Outcome.ok.inj e; exact g⟩
  | cons i rest ih =>
    intro s g
    obtain ⟨np, gk, _⟩ := stepP_good go g i
    rw [walkP_cons]
    cases hs : stepP h s i with
    | ok s' => exact ih (gk s' hs)
    | err e => exact ⟨fun m => by simp, fun w e => by simp at e⟩
    | panic m => exact absurd hs (np m)

/-- under `Good`, the loop is ok exactly when the iterated CKDpub is -/
theorem walkP_ok_of_ckdIter {root : Bytes} (p : List ℕ) : ∀ {s : Walk} {kc : Bytes × Bytes}, Good go root s →
    ckdIter h (s.key, s.chainCode) p = .ok kc → ∃ w, walkP h s p = .ok w := by
  induction p with
  | nil => intro s kc _ _; exact ⟨s, rfl⟩
  | cons i rest ih =>
    intro s kc g e
    rw [ckdIter] at e
    obtain ⟨ch, e1, e2⟩ := Outcome.bind_eq_ok e
    obtain ⟨_, gk, es⟩ := stepP_good go g i
    rw [walkP_cons, es]
    simp only at e1
    rw [e1]
    simp only [Outcome.bind_ok]
    refine ih (gk _ ?_) e2
    rw [es, e1]; rfl

/-! ### lengths -/

/-- output lengths of the hash functions (SHA-256: 32, HMAC-SHA512: 64, RIPEMD-160: 20 bytes) -/
structure HashLens (h : Query → Bytes) : Prop where
  sha256 : ∀ d, (h (.sha256 d)).length = 32
  hmac : ∀ k d, (h (.hmacSha512 k d)).length = 64
  ripemd : ∀ d, (h (.ripemd160 d)).length = 20

theorem fp4_length {h : Query → Bytes} (hl : HashLens h) (k : Bytes) : (fp4 h k).length = 4 := by
  rw [fp4, List.length_take, hl.ripemd]; rfl

theorem IR_length {h : Query → Bytes} (hl : HashLens h) (K c : Bytes) (i : ℕ) : (IR h K c i).length = 32 := by
  rw [IR, hmacI, List.length_drop, hl.hmac]

theorem walkP_lens {h : Query → Bytes} (hl : HashLens h) (p : List ℕ) : ∀ {s w : Walk}, walkP h s p = .ok w →
    s.chainCode.length = 32 → s.parentFp.length = 4 → w.chainCode.length = 32 ∧ w.parentFp.length = 4 := by
  induction p with
  | nil => intro s w e a b; rw [walkP_nil] at e; cases Outcome.ok.inj e; exact ⟨a, b⟩
  | cons i rest ih =>
    intro s w e _ _
    rw [walkP_cons] at e
    obtain ⟨s', e1, e2⟩ := Outcome.bind_eq_ok e
    obtain ⟨ch, e3, rfl⟩ := stepP_ok e1
    refine ih e2 ?_ (fp4_length hl _)
    simp only; rw [(deriveChildP_ok e3).2.2.2.2.2]; exact IR_length hl _ _ _

theorem serialize_eq (x : XPub) : serialize x =
    natToBe 4 x.version ++ natToBe 1 x.depth ++ x.parentFp ++ natToBe 4 x.childNumber ++ x.chainCode ++ sec1 x.key := rfl

theorem toStringP_eq (h : Query → Bytes) (x : XPub) (encoded : Bool) :
    toStringP h x encoded =
      if (serialize x).length ≠ 78 then .panic "Invalid serialized extended public key length, must be 78 bytes"
      else if encoded then .ok (base58CheckP h (serialize x)) else .ok (bytesToHex (serialize x)) := by
  unfold toStringP Bip32.toString
  by_cases h1 : (serialize x).length = 78 <;> cases encoded <;> simp [h1]

theorem base58CheckP_eq (h : Query → Bytes) (payload : Bytes) :
    base58CheckP h payload =
      String.ofList (base58Encode (payload ++ (h (.sha256 (h (.sha256 payload)))).take 4)) := rfl


/-! ### inversion of `Ok` results -/

/-- the initial loop state of `derive_xpub` -/
abbrev initWalk (root cc : Bytes) : Walk := { key := root, chainCode := cc, parentFp := [0, 0, 0, 0], offsets := [] }

theorem deriveXpubOffsetsP_ok {h : Query → Bytes} {v : ℕ} {root cc : Bytes} {path : List ℕ} {x : XPub} {offs : List ℕ}
    (e : deriveXpubOffsetsP h v root cc path = .ok (x, offs)) :
    root ≠ identity33 ∧ path.length ≤ 255 ∧ ∃ w, walkP h (initWalk root cc) path = .ok w ∧ offs = w.offsets ∧
      x = { version := v, depth := path.length, parentFp := w.parentFp, childNumber := finalChildNumber path,
            chainCode := w.chainCode, key := w.key } := by
  rw [deriveXpubOffsetsP_eq] at e
  by_cases h1 : root = identity33
  · rw [if_pos h1] at e; simp at e
  · rw [if_neg h1] at e
    by_cases h2 : path.length > 255
    · rw [if_pos h2] at e; simp at e
    · rw [if_neg h2] at e
      obtain ⟨w, ew, e⟩ := Outcome.bind_eq_ok e
      have := Outcome.ok.inj e
      refine ⟨h1, by omega, w, ew, (congrArg Prod.snd this).symm, (congrArg Prod.fst this).symm⟩

theorem deriveXpubP_ok {h : Query → Bytes} {v : ℕ} {root cc : Bytes} {path : List ℕ} {x : XPub}
    (e : deriveXpubP h v root cc path = .ok x) : ∃ offs, deriveXpubOffsetsP h v root cc path = .ok (x, offs) := by
  rw [deriveXpubP_eq] at e
  obtain ⟨⟨x', offs⟩, e1, e2⟩ := Outcome.bind_eq_ok e
  cases Outcome.ok.inj e2
  exact ⟨offs, e1⟩

theorem deriveXpubP_of_walk {h : Query → Bytes} (v : ℕ) {root cc : Bytes} {path : List ℕ} {w : Walk}
    (h1 : root ≠ identity33) (h2 : path.length ≤ 255) (ew : walkP h (initWalk root cc) path = .ok w) :
    deriveXpubP h v root cc path =
      .ok { version := v, depth := path.length, parentFp := w.parentFp,
            childNumber := finalChildNumber path, chainCode := w.chainCode, key := w.key } := by
  rw [deriveXpubP_eq, deriveXpubOffsetsP_eq, if_neg h1, if_neg (by omega), ew]; rfl

theorem hardenedBit_eq : hardenedBit = 2147483648 := by decide
theorem isNormal_iff (i : ℕ) : isNormal i = true ↔ i < hardenedBit := by
  rw [isNormal, decide_eq_true_iff]
theorem isNormal_false_iff (i : ℕ) : isNormal i = false ↔ hardenedBit ≤ i := by
  rw [isNormal, decide_eq_false_iff_not, not_lt]

end SlVerif.Bip32
