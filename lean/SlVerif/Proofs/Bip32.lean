import SlVerif.Model.Bip32
import SlVerif.Proofs.GroupOracle
import Mathlib.Data.Nat.Digits.Defs
import Mathlib.Tactic.Ring
import Mathlib.Tactic.NormNum
/-
  Helper lemmas for C12 (`Model/Bip32.lean` at `m := Id` with a pure oracle `h`).
  * `deriveChildP`, `fingerprintP`, `walkP`, `deriveXpubOffsetsP`, `deriveXpubP`, `toStringP`   `Id.run` of the model
  * `*_eq`                 the model functions unfolded
  * `walkP_snoc`           the loop, one more component at the END of the path
  * Base58: `digitsAux_eq_digits`, `base58Decode_encode`
-/
namespace SlVerif.Bip32
open SlVerif

abbrev pureO (h : Query → Bytes) : Query → Id Bytes := fun q => pure (h q)

abbrev deriveChildP (h : Query → Bytes) (parent cc : Bytes) (idx : ℕ) : Outcome Child :=
  Id.run (deriveChild (pureO h) parent cc idx)
abbrev fingerprintP (h : Query → Bytes) (p : Bytes) : Outcome Bytes := Id.run (fingerprint (pureO h) p)
abbrev walkP (h : Query → Bytes) (s : Walk) (path : List ℕ) : Outcome Walk := Id.run (walk (pureO h) s path)
abbrev deriveXpubOffsetsP (h : Query → Bytes) (v : ℕ) (root cc : Bytes) (path : List ℕ) : Outcome (XPub × List ℕ) :=
  Id.run (deriveXpubOffsets (pureO h) v root cc path)
abbrev deriveXpubP (h : Query → Bytes) (v : ℕ) (root cc : Bytes) (path : List ℕ) : Outcome XPub :=
  Id.run (deriveXpub (pureO h) v root cc path)
abbrev toStringP (h : Query → Bytes) (x : XPub) (encoded : Bool) : Outcome String :=
  Id.run (Bip32.toString (pureO h) x encoded)
abbrev base58CheckP (h : Query → Bytes) (payload : Bytes) : String := Id.run (base58Check (pureO h) payload)

/-- the 64 bytes `I` of CKDpub -/
def hmacI (h : Query → Bytes) (parent cc : Bytes) (idx : ℕ) : Bytes :=
  h (.hmacSha512 cc (sec1 parent ++ natToBe 4 idx))
/-- `parse256(I_L)` -/
def IL (h : Query → Bytes) (parent cc : Bytes) (idx : ℕ) : ℕ := beToNat ((hmacI h parent cc idx).take 32)
/-- `I_R` -/
def IR (h : Query → Bytes) (parent cc : Bytes) (idx : ℕ) : Bytes := (hmacI h parent cc idx).drop 32
/-- `point(I_L mod q) + K_par` as the oracle computes it -/
def childKey (h : Query → Bytes) (parent cc : Bytes) (idx : ℕ) : Bytes :=
  h (.ecAdd .secp256k1 (h (.ecMulGen .secp256k1 (IL h parent cc idx % secpQ))) parent)

theorem deriveChildP_eq (h : Query → Bytes) (parent cc : Bytes) (idx : ℕ) :
    deriveChildP h parent cc idx =
      if isNormal idx = false then .err .hardenedChildNotSupported
      else if IL h parent cc idx > secpQ then .err .invalidChildScalar
      else if childKey h parent cc idx = identity33 then .err .pubkeyPointAtInfinity
      else .ok { offset := IL h parent cc idx % secpQ, key := childKey h parent cc idx, chainCode := IR h parent cc idx } := by
  by_cases h1 : isNormal idx = false
  · rw [if_pos h1]; simp [deriveChildP, deriveChild, h1]
  · rw [if_neg h1]
    by_cases h2 : IL h parent cc idx > secpQ
    · rw [if_pos h2]; unfold IL hmacI at h2; simp [deriveChildP, deriveChild, h1, h2]
    · rw [if_neg h2]
      by_cases h3 : childKey h parent cc idx = identity33
      · rw [if_pos h3]; unfold childKey IL hmacI at h3; unfold IL hmacI at h2
        simp [deriveChildP, deriveChild, h1, h2, h3]
      · rw [if_neg h3]; unfold childKey IL hmacI at h3; unfold IL hmacI at h2
        simp [deriveChildP, deriveChild, h1, h2, h3, IL, IR, childKey, hmacI]

theorem fingerprintP_eq (h : Query → Bytes) (p : Bytes) :
    fingerprintP h p =
      if (sec1 p).length ≠ 33 then .panic "compressed pubkey must be 33 bytes"
      else .ok ((h (.ripemd160 (h (.sha256 (sec1 p))))).take 4) := by
  unfold fingerprintP fingerprint
  by_cases h1 : (sec1 p).length = 33 <;> simp [h1]

end SlVerif.Bip32
