import SlVerif.Model.Field
import Mathlib.NumberTheory.LucasPrimality
import Mathlib.Data.List.Prime
import Mathlib.Tactic.NormNum.Prime
/-
  Primality of the two group orders used by the models, checked by the Lean kernel.

  `secpQ` (order of secp256k1) and `edL` (order of the prime-order subgroup of edwards25519) are proved prime by
  Pratt certificates: for a prime `p`, a witness `a` with `a^(p-1) ≡ 1` and `a^((p-1)/r) ≢ 1 (mod p)` for every prime
  `r ∣ p-1` (`lucas_primality`), recursively for every prime factor of `p-1` above 10^6 (smaller ones: `norm_num`).
  The factorisations and witnesses were FOUND by untrusted search (sympy); everything is re-checked here:
  the product of the claimed factors is `p-1` (`decide +kernel`), the factors are prime (recursion), and the modular
  exponentiations are evaluated by the kernel (GMP `Nat.mul`/`Nat.mod` on literals) through the model's own
  square-and-multiply `SlVerif.powMod`, proved equal to `b^e % m` in `powMod_eq`.  Only the kernel is trusted (no compiled evaluation).
-/
namespace SlVerif.Primes
open SlVerif

theorem powMod_eq (m : Nat) : ∀ (fuel b e : Nat), e < 2 ^ fuel → powMod m fuel b e = b ^ e % m := by
  intro fuel
  induction fuel with
  | zero =>
      intro b e he
      have : e = 0 := by simpa using he
      subst this; simp [powMod]
  | succ k ih =>
      intro b e he
      unfold powMod
      by_cases h0 : e = 0
      · subst h0; simp
      · simp only [h0, if_false]
        have hlt : e / 2 < 2 ^ k := by
          rw [Nat.div_lt_iff_lt_mul (by norm_num)]; rw [pow_succ] at he; exact he
        rw [ih _ _ hlt]
        have hbb : (b * b % m) ^ (e / 2) % m = (b ^ 2) ^ (e / 2) % m := by
          rw [← Nat.pow_mod, pow_two]
        rw [hbb, ← pow_mul]
        by_cases hodd : e % 2 = 1
        · simp only [hodd, if_true]
          rw [Nat.mod_mul_mod]
          have : e = 2 * (e / 2) + 1 := by omega
          conv_rhs => rw [this, pow_succ]
        · simp only [hodd, if_false]
          have : e = 2 * (e / 2) := by omega
          conv_rhs => rw [this]

theorem natCast_pow_eq_one_iff {p a e : ℕ} (hp : 1 < p) : ((a : ZMod p) ^ e = 1) ↔ a ^ e % p = 1 := by
  rw [← Nat.cast_pow, ← Nat.cast_one (R := ZMod p), ZMod.natCast_eq_natCast_iff', Nat.mod_eq_of_lt hp]

/-- Pratt certificate checker -/
theorem pratt (p a fuel : ℕ) (fs : List (ℕ × ℕ)) (hp : 1 < p) (hlt : p ≤ 2 ^ fuel)
    (hfs : ∀ x ∈ fs, x.1.Prime)
    (hprod : (fs.map fun x => x.1 ^ x.2).prod = p - 1)
    (h1 : powMod p fuel a (p - 1) = 1)
    (h2 : ∀ x ∈ fs, powMod p fuel a ((p - 1) / x.1) ≠ 1) : p.Prime := by
  refine lucas_primality p (a : ZMod p) ?_ ?_
  · rw [natCast_pow_eq_one_iff hp, ← powMod_eq p fuel a (p - 1) (by omega)]; exact h1
  · intro r hr hdvd
    rw [← hprod] at hdvd
    obtain ⟨y, hy, hry⟩ := (Prime.dvd_prod_iff hr.prime).1 hdvd
    obtain ⟨x, hx, rfl⟩ := List.mem_map.1 hy
    have hrx : r = x.1 := (Nat.prime_dvd_prime_iff_eq hr (hfs x hx)).1 (hr.dvd_of_dvd_pow hry)
    subst hrx
    rw [Ne, natCast_pow_eq_one_iff hp, ← powMod_eq p fuel a _ (lt_of_le_of_lt (Nat.div_le_self _ _) (by omega))]
    exact h2 x hx

/-! ### certificates (generated; leaves first) -/

theorem prime_4681609 : Nat.Prime 4681609 :=
  pratt 4681609 23 23 [(2, 3), (3, 1), (97, 1), (2011, 1)] (by decide) (by decide +kernel)
    (by simp only [List.forall_mem_cons, List.not_mem_nil, false_imp_iff, implies_true, and_true]
        exact ⟨by norm_num, by norm_num, by norm_num, by norm_num⟩)
    (by decide +kernel) (by decide +kernel) (by decide +kernel)

theorem prime_107361793816595537 : Nat.Prime 107361793816595537 :=
  pratt 107361793816595537 3 57 [(2, 4), (16699, 1), (85831, 1), (4681609, 1)] (by decide) (by decide +kernel)
    (by simp only [List.forall_mem_cons, List.not_mem_nil, false_imp_iff, implies_true, and_true]
        exact ⟨by norm_num, by norm_num, by norm_num, prime_4681609⟩)
    (by decide +kernel) (by decide +kernel) (by decide +kernel)

theorem prime_44706919 : Nat.Prime 44706919 :=
  pratt 44706919 6 26 [(2, 1), (3, 1), (797, 1), (9349, 1)] (by decide) (by decide +kernel)
    (by simp only [List.forall_mem_cons, List.not_mem_nil, false_imp_iff, implies_true, and_true]
        exact ⟨by norm_num, by norm_num, by norm_num, by norm_num⟩)
    (by decide +kernel) (by decide +kernel) (by decide +kernel)

theorem prime_174723607534414371449 : Nat.Prime 174723607534414371449 :=
  pratt 174723607534414371449 3 68 [(2, 3), (17, 1), (59, 1), (4051, 1), (120233, 1), (44706919, 1)] (by decide) (by decide +kernel)
    (by simp only [List.forall_mem_cons, List.not_mem_nil, false_imp_iff, implies_true, and_true]
        exact ⟨by norm_num, by norm_num, by norm_num, by norm_num, by norm_num, prime_44706919⟩)
    (by decide +kernel) (by decide +kernel) (by decide +kernel)

theorem prime_545358713 : Nat.Prime 545358713 :=
  pratt 545358713 5 30 [(2, 3), (41, 1), (59, 1), (28181, 1)] (by decide) (by decide +kernel)
    (by simp only [List.forall_mem_cons, List.not_mem_nil, false_imp_iff, implies_true, and_true]
        exact ⟨by norm_num, by norm_num, by norm_num, by norm_num⟩)
    (by decide +kernel) (by decide +kernel) (by decide +kernel)

theorem prime_1627771 : Nat.Prime 1627771 :=
  pratt 1627771 3 21 [(2, 1), (3, 1), (5, 1), (29, 1), (1871, 1)] (by decide) (by decide +kernel)
    (by simp only [List.forall_mem_cons, List.not_mem_nil, false_imp_iff, implies_true, and_true]
        exact ⟨by norm_num, by norm_num, by norm_num, by norm_num, by norm_num⟩)
    (by decide +kernel) (by decide +kernel) (by decide +kernel)

theorem prime_297159362677 : Nat.Prime 297159362677 :=
  pratt 297159362677 2 39 [(2, 2), (3, 2), (11, 1), (461, 1), (1627771, 1)] (by decide) (by decide +kernel)
    (by simp only [List.forall_mem_cons, List.not_mem_nil, false_imp_iff, implies_true, and_true]
        exact ⟨by norm_num, by norm_num, by norm_num, by norm_num, prime_1627771⟩)
    (by decide +kernel) (by decide +kernel) (by decide +kernel)

theorem prime_29047611873442575647497758179 : Nat.Prime 29047611873442575647497758179 :=
  pratt 29047611873442575647497758179 2 95 [(2, 1), (293, 1), (305873, 1), (545358713, 1), (297159362677, 1)] (by decide) (by decide +kernel)
    (by simp only [List.forall_mem_cons, List.not_mem_nil, false_imp_iff, implies_true, and_true]
        exact ⟨by norm_num, by norm_num, by norm_num, prime_545358713, prime_297159362677⟩)
    (by decide +kernel) (by decide +kernel) (by decide +kernel)

theorem prime_341948486974166000522343609283189 : Nat.Prime 341948486974166000522343609283189 :=
  pratt 341948486974166000522343609283189 2 109 [(2, 2), (3, 3), (109, 1), (29047611873442575647497758179, 1)] (by decide) (by decide +kernel)
    (by simp only [List.forall_mem_cons, List.not_mem_nil, false_imp_iff, implies_true, and_true]
        exact ⟨by norm_num, by norm_num, by norm_num, prime_29047611873442575647497758179⟩)
    (by decide +kernel) (by decide +kernel) (by decide +kernel)

theorem prime_115792089237316195423570985008687907852837564279074904382605163141518161494337 : Nat.Prime 115792089237316195423570985008687907852837564279074904382605163141518161494337 :=
  pratt 115792089237316195423570985008687907852837564279074904382605163141518161494337 7 256 [(2, 6), (3, 1), (149, 1), (631, 1), (107361793816595537, 1), (174723607534414371449, 1), (341948486974166000522343609283189, 1)] (by decide) (by decide +kernel)
    (by simp only [List.forall_mem_cons, List.not_mem_nil, false_imp_iff, implies_true, and_true]
        exact ⟨by norm_num, by norm_num, by norm_num, by norm_num, prime_107361793816595537, prime_174723607534414371449, prime_341948486974166000522343609283189⟩)
    (by decide +kernel) (by decide +kernel) (by decide +kernel)

theorem prime_14741173 : Nat.Prime 14741173 :=
  pratt 14741173 2 24 [(2, 2), (3, 2), (409477, 1)] (by decide) (by decide +kernel)
    (by simp only [List.forall_mem_cons, List.not_mem_nil, false_imp_iff, implies_true, and_true]
        exact ⟨by norm_num, by norm_num, by norm_num⟩)
    (by decide +kernel) (by decide +kernel) (by decide +kernel)

theorem prime_58964693 : Nat.Prime 58964693 :=
  pratt 58964693 2 26 [(2, 2), (14741173, 1)] (by decide) (by decide +kernel)
    (by simp only [List.forall_mem_cons, List.not_mem_nil, false_imp_iff, implies_true, and_true]
        exact ⟨by norm_num, prime_14741173⟩)
    (by decide +kernel) (by decide +kernel) (by decide +kernel)

theorem prime_3044861653679985063343 : Nat.Prime 3044861653679985063343 :=
  pratt 3044861653679985063343 5 72 [(2, 1), (3, 1), (11, 1), (30703, 1), (82163, 1), (132667, 1), (137849, 1)] (by decide) (by decide +kernel)
    (by simp only [List.forall_mem_cons, List.not_mem_nil, false_imp_iff, implies_true, and_true]
        exact ⟨by norm_num, by norm_num, by norm_num, by norm_num, by norm_num, by norm_num, by norm_num⟩)
    (by decide +kernel) (by decide +kernel) (by decide +kernel)

theorem prime_198211423230930754013084525763697 : Nat.Prime 198211423230930754013084525763697 :=
  pratt 198211423230930754013084525763697 5 108 [(2, 4), (3, 1), (23, 1), (58964693, 1), (3044861653679985063343, 1)] (by decide) (by decide +kernel)
    (by simp only [List.forall_mem_cons, List.not_mem_nil, false_imp_iff, implies_true, and_true]
        exact ⟨by norm_num, by norm_num, by norm_num, prime_58964693, prime_3044861653679985063343⟩)
    (by decide +kernel) (by decide +kernel) (by decide +kernel)

theorem prime_292386187 : Nat.Prime 292386187 :=
  pratt 292386187 2 29 [(2, 1), (3, 4), (307, 1), (5879, 1)] (by decide) (by decide +kernel)
    (by simp only [List.forall_mem_cons, List.not_mem_nil, false_imp_iff, implies_true, and_true]
        exact ⟨by norm_num, by norm_num, by norm_num, by norm_num⟩)
    (by decide +kernel) (by decide +kernel) (by decide +kernel)

theorem prime_213441916511 : Nat.Prime 213441916511 :=
  pratt 213441916511 13 38 [(2, 1), (5, 1), (73, 1), (292386187, 1)] (by decide) (by decide +kernel)
    (by simp only [List.forall_mem_cons, List.not_mem_nil, false_imp_iff, implies_true, and_true]
        exact ⟨by norm_num, by norm_num, by norm_num, prime_292386187⟩)
    (by decide +kernel) (by decide +kernel) (by decide +kernel)

theorem prime_1224481 : Nat.Prime 1224481 :=
  pratt 1224481 13 21 [(2, 5), (3, 1), (5, 1), (2551, 1)] (by decide) (by decide +kernel)
    (by simp only [List.forall_mem_cons, List.not_mem_nil, false_imp_iff, implies_true, and_true]
        exact ⟨by norm_num, by norm_num, by norm_num, by norm_num⟩)
    (by decide +kernel) (by decide +kernel) (by decide +kernel)

theorem prime_1257559732178653 : Nat.Prime 1257559732178653 :=
  pratt 1257559732178653 2 51 [(2, 2), (3, 1), (7, 1), (23, 1), (531581, 1), (1224481, 1)] (by decide) (by decide +kernel)
    (by simp only [List.forall_mem_cons, List.not_mem_nil, false_imp_iff, implies_true, and_true]
        exact ⟨by norm_num, by norm_num, by norm_num, by norm_num, by norm_num, prime_1224481⟩)
    (by decide +kernel) (by decide +kernel) (by decide +kernel)

theorem prime_4434155615661930479 : Nat.Prime 4434155615661930479 :=
  pratt 4434155615661930479 17 62 [(2, 1), (41, 1), (43, 1), (1257559732178653, 1)] (by decide) (by decide +kernel)
    (by simp only [List.forall_mem_cons, List.not_mem_nil, false_imp_iff, implies_true, and_true]
        exact ⟨by norm_num, by norm_num, by norm_num, prime_1257559732178653⟩)
    (by decide +kernel) (by decide +kernel) (by decide +kernel)

theorem prime_172054593956031949258510691 : Nat.Prime 172054593956031949258510691 :=
  pratt 172054593956031949258510691 2 88 [(2, 1), (5, 1), (1361, 1), (2851, 1), (4434155615661930479, 1)] (by decide) (by decide +kernel)
    (by simp only [List.forall_mem_cons, List.not_mem_nil, false_imp_iff, implies_true, and_true]
        exact ⟨by norm_num, by norm_num, by norm_num, by norm_num, prime_4434155615661930479⟩)
    (by decide +kernel) (by decide +kernel) (by decide +kernel)

theorem prime_19757330305831588566944191468367130476339 : Nat.Prime 19757330305831588566944191468367130476339 :=
  pratt 19757330305831588566944191468367130476339 2 134 [(2, 1), (269, 1), (213441916511, 1), (172054593956031949258510691, 1)] (by decide) (by decide +kernel)
    (by simp only [List.forall_mem_cons, List.not_mem_nil, false_imp_iff, implies_true, and_true]
        exact ⟨by norm_num, by norm_num, prime_213441916511, prime_172054593956031949258510691⟩)
    (by decide +kernel) (by decide +kernel) (by decide +kernel)

theorem prime_276602624281642239937218680557139826668747 : Nat.Prime 276602624281642239937218680557139826668747 :=
  pratt 276602624281642239937218680557139826668747 2 138 [(2, 1), (7, 1), (19757330305831588566944191468367130476339, 1)] (by decide) (by decide +kernel)
    (by simp only [List.forall_mem_cons, List.not_mem_nil, false_imp_iff, implies_true, and_true]
        exact ⟨by norm_num, by norm_num, prime_19757330305831588566944191468367130476339⟩)
    (by decide +kernel) (by decide +kernel) (by decide +kernel)

theorem prime_7237005577332262213973186563042994240857116359379907606001950938285454250989 : Nat.Prime 7237005577332262213973186563042994240857116359379907606001950938285454250989 :=
  pratt 7237005577332262213973186563042994240857116359379907606001950938285454250989 2 253 [(2, 2), (3, 1), (11, 1), (198211423230930754013084525763697, 1), (276602624281642239937218680557139826668747, 1)] (by decide) (by decide +kernel)
    (by simp only [List.forall_mem_cons, List.not_mem_nil, false_imp_iff, implies_true, and_true]
        exact ⟨by norm_num, by norm_num, by norm_num, prime_198211423230930754013084525763697, prime_276602624281642239937218680557139826668747⟩)
    (by decide +kernel) (by decide +kernel) (by decide +kernel)

end SlVerif.Primes

namespace SlVerif

/-- the order of the secp256k1 group is prime -/
theorem secpQ_prime : Nat.Prime SlVerif.secpQ :=
  Primes.prime_115792089237316195423570985008687907852837564279074904382605163141518161494337

/-- the order of the prime-order subgroup of edwards25519 is prime -/
theorem edL_prime : Nat.Prime SlVerif.edL :=
  Primes.prime_7237005577332262213973186563042994240857116359379907606001950938285454250989

end SlVerif
