import Mathlib.FieldTheory.Finite.Extension
import SlVerif.Proofs.Gf128Reduce
/-
  C19 helper lemmas, part 3: the modulus `P = X^128 + X^7 + X^2 + X + 1` is IRREDUCIBLE over GF(2), hence the
  arithmetic computed by `binary_field_multiply_gf_2_128` is that of a FIELD.

  Rabin's test, with the computational part done by the Lean kernel on the PROVED executable model `Gf.mul`:
    (A)  X^(2^128) ≡ X  (mod P)            — 128 modular squarings `Gf.mul x x` starting from x = X  (`sqIter_128`)
    (B)  gcd(X^(2^64) − X, P) = 1          — 64 squarings and ONE product with a certificate: an inverse of
                                             (X^(2^64) mod P) + X  modulo P, found by untrusted search (extended Euclid in
                                             Python) and checked here by the kernel                      (`inv64_check`)
  and the mathematical part from Mathlib (`Irreducible.natDegree_dvd_iff_dvd_X_pow_card_pow_sub_X`): an irreducible
  factor of P of degree d divides X^(2^128) − X, so d ∣ 128; if d < 128 then d ∣ 64 (128 = 2^7), so the factor divides
  X^(2^64) − X and P, contradicting (B).
-/
open Polynomial

namespace SlVerif.C19
open SlVerif SlVerif.Gf SlVerif.Generated

/-- `n` successive squarings in the model: `x ↦ Gf.mul x x` -/
def sqIter : ℕ → ℕ → ℕ
  | 0, x => x
  | n+1, x => sqIter n (Gf.mul x x)

/-- (C19.mul_spec, restated here so that this file sits below Props/C19) -/
theorem mul_spec' (a b : ℕ) (ha : a < 2 ^ 128) (hb : b < 2 ^ 128) :
    toPoly (Gf.mul a b) = (toPoly a * toPoly b) %ₘ P ∧ Gf.mul a b < 2 ^ 128 := by
  have hWT : Generated.GF_W * Generated.GF_T = 128 := by decide
  have hprod : toPoly (Gf.clmulComb Generated.GF_W Generated.GF_T a b) = toPoly a * toPoly b :=
    toPoly_clmulComb_eq_mul _ _ a b (by rw [hWT]; exact ha)
  have hlt : Gf.clmulComb Generated.GF_W Generated.GF_T a b < 2 ^ 256 :=
    lt_two_pow_of_degree_lt (by rw [hprod]; exact degree_mul_toPoly_lt ha hb)
  refine ⟨?_, reduce_lt _⟩
  show toPoly (Gf.reduce _) = _
  rw [toPoly_reduce _ hlt, hprod]

theorem modP_pow_congr (a : (ZMod 2)[X]) (k : ℕ) : ((a %ₘ P) ^ k) %ₘ P = (a ^ k) %ₘ P := by
  induction k with
  | zero => simp
  | succ k ih => rw [pow_succ, pow_succ]; exact modP_mul_congr ih (modP_modP a)

theorem sqIter_spec (n x : ℕ) (hx : x < 2 ^ 128) :
    toPoly (sqIter n x) = (toPoly x) ^ (2 ^ n) %ₘ P ∧ sqIter n x < 2 ^ 128 := by
  induction n generalizing x with
  | zero => exact ⟨by simp [sqIter, modP_self_of_lt hx], hx⟩
  | succ n ih =>
    obtain ⟨h1, h2⟩ := mul_spec' x x hx hx
    obtain ⟨h3, h4⟩ := ih (Gf.mul x x) h2
    refine ⟨?_, h4⟩
    show toPoly (sqIter n (Gf.mul x x)) = _
    rw [h3, h1, modP_pow_congr, ← pow_two, ← pow_mul, ← pow_succ']

/-! ### the two kernel computations -/

/-- (A) 128 squarings of `X` in the model return `X` -/
theorem sqIter_128 : sqIter 128 2 = 2 := by decide +kernel

/-- certificate for (B): an inverse of `(X^(2^64) mod P) + X` modulo `P` (found by extended Euclid, untrusted) -/
def inv64 : ℕ := 0x9e4af928ddbc838a41a8cafd2c95b018

/-- (B) checked: `inv64 · ((X^(2^64) mod P) + X) ≡ 1 (mod P)` -/
theorem inv64_check : Gf.mul inv64 (sqIter 64 2 ^^^ 2) = 1 := by decide +kernel

/-! ### from the computations to polynomials -/

theorem toPoly_two : toPoly 2 = X := by
  have := toPoly_two_pow 1
  simpa using this

theorem X_pow_modP (n : ℕ) : (X : (ZMod 2)[X]) ^ (2 ^ n) %ₘ P = toPoly (sqIter n 2) := by
  rw [(sqIter_spec n 2 (by norm_num)).1, toPoly_two]

theorem dvd_sub_of_modP_eq {a b : (ZMod 2)[X]} (h : a %ₘ P = b %ₘ P) : P ∣ a - b := by
  rw [← modByMonic_eq_zero_iff_dvd P_monic, sub_modByMonic, h, sub_self]

/-- (A) as a polynomial statement -/
theorem P_dvd_X_pow_sub_X : P ∣ (X : (ZMod 2)[X]) ^ (2 ^ 128) - X := by
  apply dvd_sub_of_modP_eq
  rw [X_pow_modP, sqIter_128, toPoly_two]
  have := modP_self_of_lt (n := 2) (by norm_num)
  rw [toPoly_two] at this
  exact this.symm

/-- an inverse certificate in the model proves coprimality with `P` -/
theorem coprime_of_cert (A : (ZMod 2)[X]) (r v : ℕ) (hr : r < 2 ^ 128) (hv : v < 2 ^ 128)
    (hrA : toPoly r = A %ₘ P + X) (hmul : Gf.mul v r = 1) : IsCoprime (A - X) P := by
  have hm := (mul_spec' v r hv hr).1
  rw [hmul, toPoly_one] at hm
  have hdiv := modByMonic_add_div (toPoly v * toPoly r) P
  rw [← hm] at hdiv
  have hcop : IsCoprime (toPoly r) P := by
    generalize (toPoly v * toPoly r) /ₘ P = q at hdiv
    exact ⟨toPoly v, -q, by linear_combination (-1 : (ZMod 2)[X]) * hdiv⟩
  have hX := modByMonic_add_div A P
  have : A - X = toPoly r + P * (A /ₘ P) := by
    rw [hrA, CharTwo.sub_eq_add]
    linear_combination (-1 : (ZMod 2)[X]) * hX
  obtain ⟨a, b, hab⟩ := hcop
  exact ⟨a, b - a * (A /ₘ P), by linear_combination hab + a * this⟩

/-- (B) as a polynomial statement -/
theorem coprime_X_pow_64 : IsCoprime ((X : (ZMod 2)[X]) ^ (2 ^ 64) - X) P := by
  have hs := sqIter_spec 64 2 (by norm_num)
  refine coprime_of_cert _ (sqIter 64 2 ^^^ 2) inv64 (Nat.xor_lt_two_pow hs.2 (by norm_num))
    (by unfold inv64; norm_num) ?_ inv64_check
  rw [toPoly_xor, toPoly_two, X_pow_modP]

/-! ### irreducibility -/

theorem card_zmod2 : Nat.card (ZMod 2) = 2 := by
  rw [Nat.card_eq_fintype_card, ZMod.card]

theorem dvd_64_of_dvd_128 {d : ℕ} (h : d ∣ 128) (hne : d ≠ 128) : d ∣ 64 := by
  have h' : d ∣ 2 ^ 7 := by norm_num; exact h
  obtain ⟨k, hk, rfl⟩ := (Nat.dvd_prime_pow Nat.prime_two).mp h'
  have hk6 : k ≤ 6 := by
    rcases Nat.lt_or_ge k 7 with h7 | h7
    · omega
    · have : k = 7 := le_antisymm hk h7
      subst this
      norm_num at hne
  have : (64 : ℕ) = 2 ^ 6 := by norm_num
  rw [this]
  exact pow_dvd_pow 2 hk6

theorem P_natDegree : P.natDegree = 128 := natDegree_eq_of_degree_eq_some P_degree

set_option maxRecDepth 4000 in
/-- **`X^128 + X^7 + X^2 + X + 1` is irreducible over GF(2).** -/
theorem P_irreducible' : Irreducible P := by
  have hP0 : P ≠ 0 := P_monic.ne_zero
  have hPu : ¬ IsUnit P := by
    intro hu
    have := natDegree_eq_zero_of_isUnit hu
    rw [P_natDegree] at this
    norm_num at this
  obtain ⟨Q, hQ, hQP⟩ := WfDvdMonoid.exists_irreducible_factor hPu hP0
  have h128 : Q.natDegree ∣ 128 := by
    have aux : ∀ q : ℕ, q = 2 → P ∣ (X : (ZMod 2)[X]) ^ q ^ 128 - X := by
      intro q hq; subst hq; exact P_dvd_X_pow_sub_X
    exact hQ.natDegree_dvd_of_dvd_X_pow_card_pow_sub_X (hQP.trans (aux _ card_zmod2))
  by_cases hd : Q.natDegree = 128
  · obtain ⟨R, hR⟩ := hQP
    have hR0 : R ≠ 0 := by rintro rfl; rw [mul_zero] at hR; exact hP0 hR
    have hdeg : P.natDegree = Q.natDegree + R.natDegree := by
      rw [hR, natDegree_mul hQ.ne_zero hR0]
    rw [P_natDegree, hd] at hdeg
    have hRd : R.natDegree = 0 := by omega
    have hRu : IsUnit R := by
      rw [natDegree_eq_zero] at hRd
      obtain ⟨c, rfl⟩ := hRd
      have hc : c ≠ 0 := by rintro rfl; exact hR0 (by simp)
      exact (isUnit_C).mpr (IsUnit.mk0 c hc)
    rw [hR]
    exact (irreducible_mul_isUnit hRu).mpr hQ
  · exfalso
    have h64 := dvd_64_of_dvd_128 h128 hd
    have hdiv : Q ∣ (X : (ZMod 2)[X]) ^ (2 ^ 64) - X := by
      have := (hQ.natDegree_dvd_iff_dvd_X_pow_card_pow_sub_X (n := 64)).mp h64
      rwa [card_zmod2] at this
    exact hQ.not_isUnit (coprime_X_pow_64.isUnit_of_dvd' hdiv hQP)

end SlVerif.C19
