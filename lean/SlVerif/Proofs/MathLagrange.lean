import SlVerif.Proofs.MathBirkhoff
import Mathlib.LinearAlgebra.Lagrange
import Mathlib.LinearAlgebra.Vandermonde

namespace SlVerif
namespace Math
open Finset Matrix Polynomial

variable {F : Type} [Field F] [DecidableEq F]

theorem toMatrix_birkhoffMatrix_lagrange (params : List (F × ℕ)) (hr : ∀ p ∈ params, p.2 = 0) :
    Mat.toMatrix (birkhoffMatrix params) = Matrix.vandermonde fun i : Fin params.length => (params[i]).1 := by
  ext i j
  have h2 : (params[i]).2 = 0 := hr _ (List.getElem_mem _)
  rw [Mat.toMatrix_apply, get_birkhoffMatrix, multiplier_eq, vandermonde_apply, h2]
  simp

omit [DecidableEq F] in
/-- the values at 0 of the Lagrange basis polynomials solve `w · V = e₀` -/
theorem lagrange_row {n : ℕ} (v : Fin n → F) (hv : Function.Injective v) (j : Fin n) :
    ∑ i, eval 0 (Lagrange.basis univ v i) * v i ^ (j : ℕ) = if (j : ℕ) = 0 then 1 else 0 := by
  have hdeg : (X ^ (j : ℕ) : F[X]).degree < (univ : Finset (Fin n)).card := by
    rw [degree_X_pow, Finset.card_univ, Fintype.card_fin]
    exact_mod_cast j.isLt
  have h := congrArg (eval 0) (Lagrange.eq_interpolate (s := univ) (v := v) hv.injOn hdeg)
  rw [Lagrange.interpolate_apply, eval_finsetSum] at h
  simp only [eval_mul, eval_C, eval_pow, eval_X] at h
  rw [zero_pow_eq] at h
  rw [h]
  apply Finset.sum_congr rfl
  intro i _
  ring

omit [DecidableEq F] in
theorem eval_zero_basis {n : ℕ} (v : Fin n → F) (i : Fin n) :
    eval 0 (Lagrange.basis univ v i) = ∏ j ∈ univ.erase i, v j / (v j - v i) := by
  rw [Lagrange.basis, eval_prod]
  apply Finset.prod_congr rfl
  intro j _
  simp only [Lagrange.basisDivisor, eval_mul, eval_C, eval_sub, eval_X, zero_sub]
  rw [div_eq_mul_inv, mul_comm, ← neg_sub (v i) (v j), inv_neg]
  ring

omit [DecidableEq F] in
/-- a left (and right) inverse of the Vandermonde matrix has the Lagrange coefficients at 0 as its first row -/
theorem vandermonde_inverse_row {n : ℕ} (v : Fin n → F) (hv : Function.Injective v)
    (B : Matrix (Fin n) (Fin n) F) (hAB : Matrix.vandermonde v * B = 1) (i0 : Fin n) (hi0 : (i0 : ℕ) = 0)
    (i : Fin n) : B i0 i = ∏ j ∈ univ.erase i, v j / (v j - v i) := by
  rw [← eval_zero_basis]
  -- w ᵥ* V = e_{i0}
  have hw : ∀ j, ∑ k, eval 0 (Lagrange.basis univ v k) * Matrix.vandermonde v k j
      = (1 : Matrix (Fin n) (Fin n) F) i0 j := by
    intro j
    simp only [vandermonde_apply]
    rw [lagrange_row v hv j, Matrix.one_apply]
    congr 1
    rw [eq_iff_iff, ← hi0, eq_comm, Fin.val_inj]
  -- multiply by B on the right
  have h1 : ∑ j, (∑ k, eval 0 (Lagrange.basis univ v k) * Matrix.vandermonde v k j) * B j i = B i0 i := by
    simp only [hw, Matrix.one_apply, ite_mul, one_mul, zero_mul, Finset.sum_ite_eq, Finset.mem_univ, if_true]
  rw [← h1]
  simp only [Finset.sum_mul, mul_assoc]
  rw [Finset.sum_comm]
  simp only [← Finset.mul_sum]
  have : ∀ k, ∑ j, Matrix.vandermonde v k j * B j i = (1 : Matrix (Fin n) (Fin n) F) k i := by
    intro k
    rw [← hAB, Matrix.mul_apply]
  simp only [this, Matrix.one_apply, mul_ite, mul_one, mul_zero, Finset.sum_ite_eq', Finset.mem_univ, if_true]


/-! ### Feldman -/
section Group
variable {G : Type} [AddCommGroup G] [Module F G] [DecidableEq G]

theorem feldmanVerify_iff (gc : List G) (x f : F) (g : G) :
    feldmanVerify gc x f g = true ↔ gEvaluateAt gc x ≠ 0 ∧ gEvaluateAt gc x = f • g := by
  unfold feldmanVerify
  show (if ModuleOps.isZero F (gEvaluateAt gc x) = true then false
    else ModuleOps.beq F (gEvaluateAt gc x) (ModuleOps.smul g f)) = true ↔ _
  by_cases h : gEvaluateAt gc x = 0 <;> simp [h]

end Group

end Math
end SlVerif
