import SlVerif.Proofs.VerEncComplete
/-
  C10 helper lemmas: what a successful verification says in the group, and two binding results that need no
  probabilistic argument: (i) a proof accepted for two claimed points with a common 1-bit of the two challenges forces the
  points to be equal; (ii) replacing an opened scalar by a different reduced scalar is always rejected.
-/
namespace SlVerif.VerEnc
open SlVerif

section
variable {h : Query → Bytes} {cp : CurveParams} {G : Type} [AddCommGroup G] (co : CurveOracle h cp G)

include co in
/-- the group reading of a consistent slot: the opened scalar `s` re-encrypts to the ciphertext selected by the bit, and
    `s·G = g_r` (bit 0) resp. `s·G = Q + g_r` (bit 1) -/
theorem SlotOK.group {p : Proof} {q key : Bytes} {n L : ℕ} {ch : Bytes} {i : ℕ} (hq : co.Valid q)
    (hs : SlotOK h cp p q key n L ch i) :
    ∃ slot s bit, p.slots[i]? = some slot ∧ p.opens[i]? = some s ∧ extractBit ch i = some bit ∧ co.Valid slot.gR ∧
      encP h key n L p.seed (cp.repr s) = some (if bit then slot.encXR else slot.encR) ∧
      (bit = true → co.dec q + co.dec slot.gR = s • co.gen) ∧ (bit = false → co.dec slot.gR = s • co.gen) := by
  obtain ⟨slot, s, bit, e, h1, h2, h3, h4, h5, h6, h7⟩ := hs
  have hv : co.Valid slot.gR := (co.valid _).1 h5
  refine ⟨slot, s, bit, h1, h2, h3, hv, ?_, ?_, ?_⟩
  · cases bit
    · rw [h4, (h7 rfl).2]; rfl
    · rw [h4, (h6 rfl).2]; rfl
  · intro hb
    have := congrArg co.dec (h6 hb).1
    rwa [co.add hq hv, co.mulGen] at this
  · intro hb
    have := congrArg co.dec (h7 hb).1
    rwa [(canonP_valid co hv).2, co.mulGen] at this

include co in
/-- **binding to the claimed point (conditional on the challenge bits)**: if the same proof object is accepted for `q`
    (under label, key) and for `q'` (under any label', key') and some slot `i` is opened on the `x + r` side in BOTH
    verifications, then `q` and `q'` are the same point. -/
theorem verify_point_binding {p : Proof} {q q' key key' : Bytes} {n n' : ℕ} {label label' : Bytes}
    (hq : co.Valid q) (hq' : co.Valid q')
    (hv : verifyP h cp p q key n label = .ok ()) (hv' : verifyP h cp p q' key' n' label' = .ok ())
    {i : ℕ} (hi : i < p.param)
    (hb : extractBit (chalP h q label p.slots) i = some true)
    (hb' : extractBit (chalP h q' label' p.slots) i = some true) : co.dec q = co.dec q' := by
  rw [verifyP_eq, verifyFrom_ok_iff] at hv hv'
  obtain ⟨slot, s, bit, a1, a2, a3, _, _, a6, _⟩ := SlotOK.group co hq (hv i (Nat.zero_le _) (by omega))
  obtain ⟨slot', s', bit', b1, b2, b3, _, _, b6, _⟩ := SlotOK.group co hq' (hv' i (Nat.zero_le _) (by omega))
  rw [a1] at b1; cases b1
  rw [a2] at b2; cases b2
  rw [hb] at a3; cases a3
  rw [hb'] at b3; cases b3
  have e1 := a6 rfl
  have e2 := b6 rfl
  exact add_right_cancel (e1.trans e2.symm)

include co in
/-- the other mixed case: accepted for `q` with slot `i` opened on the `x + r` side and for `q'` with the same slot opened
    on the `r` side forces `q` to be the identity -/
theorem verify_point_binding_mixed {p : Proof} {q q' key key' : Bytes} {n n' : ℕ} {label label' : Bytes}
    (hq : co.Valid q) (hq' : co.Valid q')
    (hv : verifyP h cp p q key n label = .ok ()) (hv' : verifyP h cp p q' key' n' label' = .ok ())
    {i : ℕ} (hi : i < p.param)
    (hb : extractBit (chalP h q label p.slots) i = some true)
    (hb' : extractBit (chalP h q' label' p.slots) i = some false) : co.dec q = 0 := by
  rw [verifyP_eq, verifyFrom_ok_iff] at hv hv'
  obtain ⟨slot, s, bit, a1, a2, a3, _, _, a6, _⟩ := SlotOK.group co hq (hv i (Nat.zero_le _) (by omega))
  obtain ⟨slot', s', bit', b1, b2, b3, _, _, _, b7⟩ := SlotOK.group co hq' (hv' i (Nat.zero_le _) (by omega))
  rw [a1] at b1; cases b1
  rw [a2] at b2; cases b2
  rw [hb] at a3; cases a3
  rw [hb'] at b3; cases b3
  have e1 := a6 rfl
  have e2 := b7 rfl
  rw [← e2] at e1
  exact add_eq_right.1 e1

include co in
/-- **an altered opened scalar is always rejected** (no probability involved: the openings are not hashed, the challenge
    stays the same, and `s ↦ s·G` is injective on reduced scalars) -/
theorem tampered_opening_rejected (hinj : co.GenInj) {p : Proof} {q key : Bytes} {n : ℕ} {label : Bytes}
    (hq : co.Valid q) (hv : verifyP h cp p q key n label = .ok ()) {i s s' : ℕ} (hi : i < p.param)
    (hs : p.opens[i]? = some s) (hlt : s < cp.order) (hlt' : s' < cp.order) (hne : s' ≠ s) :
    verifyP h cp { p with opens := p.opens.set i s' } q key n label ≠ .ok () := by
  intro hv'
  rw [verifyP_eq, verifyFrom_ok_iff] at hv hv'
  obtain ⟨slot, t, bit, a1, a2, a3, _, _, a6, a7⟩ := SlotOK.group co hq (hv i (Nat.zero_le _) (by omega))
  obtain ⟨slot', t', bit', b1, b2, b3, _, _, b6, b7⟩ := SlotOK.group co hq (hv' i (Nat.zero_le _) (by simpa using hi))
  dsimp only at b1 b2 b3
  rw [a1] at b1; cases b1
  rw [hs] at a2; cases a2
  have hil : i < p.opens.length := by
    by_contra hc
    rw [List.getElem?_eq_none (by omega)] at hs; cases hs
  rw [List.getElem?_set_self hil] at b2; cases b2
  rw [a3] at b3; cases b3
  cases bit with
  | true => exact hne (hinj _ _ hlt' hlt ((b6 rfl).symm.trans (a6 rfl)))
  | false => exact hne (hinj _ _ hlt' hlt ((b7 rfl).symm.trans (a7 rfl)))

end

end SlVerif.VerEnc
