import SlVerif.Model.Pprf
/-
  C06 helper lemmas, part 1: byte-wise XOR on byte strings of one length is an abelian group of exponent 2, and the
  two XOR folds of all_but_one.rs (sender: over all children; receiver: over all children but the punctured one).
-/
namespace SlVerif.Pprf
open SlVerif

theorem zeros_length (n : Nat) : (zeros n).length = n := by simp [zeros]

theorem fixLen_length (n : Nat) (b : Bytes) : (fixLen n b).length = n := by
  simp [fixLen, zeros]

theorem xorBytes_length (a b : Bytes) : (xorBytes a b).length = min a.length b.length := by
  simp [xorBytes]

theorem xorBytes_comm (a b : Bytes) : xorBytes a b = xorBytes b a := by
  apply List.ext_getElem
  · simp [xorBytes_length, Nat.min_comm]
  · intro k h1 h2; simp only [xorBytes, List.getElem_zipWith]; exact Nat.xor_comm _ _

theorem xorBytes_assoc (a b c : Bytes) : xorBytes (xorBytes a b) c = xorBytes a (xorBytes b c) := by
  apply List.ext_getElem
  · simp [xorBytes_length, Nat.min_assoc]
  · intro k h1 h2; simp [xorBytes, Nat.xor_assoc]

theorem xorBytes_self (a : Bytes) : xorBytes a a = zeros a.length := by
  apply List.ext_getElem
  · simp [xorBytes_length, zeros]
  · intro k h1 h2; simp [xorBytes, zeros]

theorem xorBytes_zeros (a : Bytes) (n : Nat) (h : a.length = n) : xorBytes a (zeros n) = a := by
  apply List.ext_getElem
  · simp [xorBytes_length, zeros, h]
  · intro k h1 h2; simp [xorBytes, zeros]

theorem zeros_xorBytes (a : Bytes) (n : Nat) (h : a.length = n) : xorBytes (zeros n) a = a := by
  rw [xorBytes_comm, xorBytes_zeros a n h]

theorem xorBytes_cancel (a b : Bytes) (h : a.length = b.length) : xorBytes (xorBytes a b) b = a := by
  rw [xorBytes_assoc, xorBytes_self, xorBytes_zeros a _ h]

/-- sender fold: XOR of `f 0 … f (n-1)` onto `A` -/
def allF (f : Nat → Bytes) (n : Nat) (A : Bytes) : Bytes :=
  (List.range n).foldl (fun acc y => xorBytes acc (f y)) A

/-- receiver fold: the same without index `ystar` -/
def othF (f : Nat → Bytes) (ystar n : Nat) (A : Bytes) : Bytes :=
  (List.range n).foldl (fun acc y => if y ≠ ystar then xorBytes acc (f y) else acc) A

theorem allF_succ (f : Nat → Bytes) (n : Nat) (A : Bytes) : allF f (n+1) A = xorBytes (allF f n A) (f n) := by
  simp [allF, List.range_succ, List.foldl_append]

theorem othF_succ (f : Nat → Bytes) (ystar n : Nat) (A : Bytes) :
    othF f ystar (n+1) A = if n ≠ ystar then xorBytes (othF f ystar n A) (f n) else othF f ystar n A := by
  simp [othF, List.range_succ, List.foldl_append]

theorem allF_length (f : Nat → Bytes) (L : Nat) (n : Nat) (A : Bytes) (hf : ∀ y < n, (f y).length = L) (hA : A.length = L) :
    (allF f n A).length = L := by
  induction n with
  | zero => simpa [allF] using hA
  | succ n ih =>
    rw [allF_succ, xorBytes_length, ih (fun y hy => hf y (by omega)), hf n (by omega)]; simp

theorem othF_length (f : Nat → Bytes) (L : Nat) (ystar n : Nat) (A : Bytes) (hf : ∀ y < n, (f y).length = L) (hA : A.length = L) :
    (othF f ystar n A).length = L := by
  induction n with
  | zero => simpa [othF] using hA
  | succ n ih =>
    rw [othF_succ]
    split
    · rw [xorBytes_length, ih (fun y hy => hf y (by omega)), hf n (by omega)]; simp
    · exact ih (fun y hy => hf y (by omega))

theorem othF_congr (f g : Nat → Bytes) (ystar n : Nat) (A : Bytes) (hfg : ∀ y < n, y ≠ ystar → f y = g y) :
    othF f ystar n A = othF g ystar n A := by
  induction n with
  | zero => rfl
  | succ n ih =>
    rw [othF_succ, othF_succ, ih (fun y hy => hfg y (by omega))]
    split
    · rename_i hne; rw [hfg n (by omega) hne]
    · rfl

theorem allF_congr (f g : Nat → Bytes) (n : Nat) (A : Bytes) (hfg : ∀ y < n, f y = g y) : allF f n A = allF g n A := by
  induction n with
  | zero => rfl
  | succ n ih => rw [allF_succ, allF_succ, ih (fun y hy => hfg y (by omega)), hfg n (by omega)]

theorem othF_of_le (f : Nat → Bytes) (ystar n : Nat) (A : Bytes) (hle : n ≤ ystar) : othF f ystar n A = allF f n A := by
  induction n with
  | zero => rfl
  | succ n ih =>
    rw [othF_succ, allF_succ, ih (by omega)]
    have : n ≠ ystar := by omega
    simp [this]

/-- putting the skipped term back gives the full fold (associativity and commutativity only) -/
theorem othF_xor (f : Nat → Bytes) (ystar n : Nat) (A : Bytes) (hlt : ystar < n) :
    xorBytes (othF f ystar n A) (f ystar) = allF f n A := by
  induction n with
  | zero => omega
  | succ n ih =>
    rw [othF_succ, allF_succ]
    by_cases hn : n = ystar
    · subst hn; simp [othF_of_le f n n A (Nat.le_refl n)]
    · simp only [ne_eq, hn, not_false_eq_true, if_true]
      rw [← ih (by omega), xorBytes_assoc, xorBytes_comm (f n), ← xorBytes_assoc]

theorem allF_xor_left (f : Nat → Bytes) (n : Nat) (A B : Bytes) : allF f n (xorBytes A B) = xorBytes A (allF f n B) := by
  induction n with
  | zero => rfl
  | succ n ih => rw [allF_succ, allF_succ, ih, xorBytes_assoc]

/-- the receiver's fold started from the sender's total returns exactly the skipped term -/
theorem othF_allF_zeros (f : Nat → Bytes) (L ystar n : Nat) (hf : ∀ y < n, (f y).length = L) (hlt : ystar < n) :
    othF f ystar n (allF f n (zeros L)) = f ystar := by
  have hZ : (allF f n (zeros L)).length = L := allF_length f L n _ hf (zeros_length L)
  have hR : (othF f ystar n (allF f n (zeros L))).length = L := othF_length f L ystar n _ hf hZ
  have h1 := othF_xor f ystar n (allF f n (zeros L)) hlt
  have h2 : allF f n (allF f n (zeros L)) = zeros L := by
    conv => lhs; rw [← xorBytes_zeros (allF f n (zeros L)) L hZ]
    rw [allF_xor_left, xorBytes_self, hZ]
  rw [h2] at h1
  have h3 := xorBytes_cancel (othF f ystar n (allF f n (zeros L))) (f ystar) (by rw [hR, hf ystar hlt])
  rw [h1, zeros_xorBytes _ L (hf ystar hlt)] at h3
  exact h3.symm

/-- level form: sender total started from the base-OT key `F`, receiver starts from `total ^ F` -/
theorem othF_allF_key (f : Nat → Bytes) (L ystar n : Nat) (F : Bytes) (hf : ∀ y < n, (f y).length = L) (hF : F.length = L)
    (hlt : ystar < n) : othF f ystar n (xorBytes (allF f n F) F) = f ystar := by
  have hZ : (allF f n (zeros L)).length = L := allF_length f L n _ hf (zeros_length L)
  have : xorBytes (allF f n F) F = allF f n (zeros L) := by
    conv => lhs; rw [← xorBytes_zeros F L hF]
    rw [allF_xor_left, xorBytes_zeros F L hF, xorBytes_comm F, xorBytes_cancel _ _ (by rw [hZ, hF])]
  rw [this, othF_allF_zeros f L ystar n hf hlt]

/-- a list fold is the index fold -/
theorem foldl_eq_allF {α : Type} (g : α → Bytes) (d : α) (l : List α) (A : Bytes) :
    l.foldl (fun acc x => xorBytes acc (g x)) A = allF (fun y => g (l.getD y d)) l.length A := by
  have hl : l = (List.range l.length).map (fun y => l.getD y d) := by
    apply List.ext_getElem
    · simp
    · intro k h1 h2; simp [List.getElem?_eq_getElem h1]
  conv => lhs; rw [hl]
  rw [List.foldl_map]
  rfl

theorem xorOthers_eq (ystar : Nat) (init : Bytes) (l : List Bytes) :
    xorOthers ystar init l = othF (fun y => l.getD y []) ystar l.length init := rfl

end SlVerif.Pprf
