import SlVerif.Proofs.Rvole
/-
  C02 helper lemmas: the receiver's verdict as a function of the message, and the calibrated adversarial sender
  (`advCore`) against the receiver's check, entry by entry.
-/
namespace SlVerif.Rvole
open SlVerif SlVerif.Generated

/-- the receiver accepted -/
def Accepted (r : Except String (List ℕ)) : Prop := ∃ d, r = .ok d

section Id
variable (h : Query → Id Bytes)

/-- the digest the receiver compares `mu_hash` with: a function of `a_tilde` and `eta` only (and of the receiver's state) -/
def checkDigest (sid beta : Bytes) (vx : List (List Bytes)) (msg : Msg2) : Bytes :=
  muHashOf (m := Id) h sid
    (muReceiver (thetaAll (m := Id) h sid msg.aTilde) beta (decodeTable vx) (decodeTable msg.aTilde) (msg.eta.map ofBe))

/-- the shares the receiver outputs when it accepts: a function of `a_tilde` only (and of the receiver's state) -/
def sharesOf (sid beta : Bytes) (vx : List (List Bytes)) (msg : Msg2) : List ℕ :=
  receiverD (gadgetVec (m := Id) h sid) beta (decodeTable vx) (decodeTable msg.aTilde)

theorem receiverCore_eq (sid beta : Bytes) (vx : List (List Bytes)) (msg : Msg2) :
    receiverCore (m := Id) h sid beta vx msg =
      if msg.muHash = checkDigest h sid beta vx msg ∧ etaCanonical msg.eta = true
      then .ok (sharesOf h sid beta vx msg) else .error checkFailed := by
  rw [receiverCore_id, receiverMu_id]
  unfold checkDigest sharesOf checkOk
  by_cases e : msg.muHash = muHashOf (m := Id) h sid
      (muReceiver (thetaAll (m := Id) h sid msg.aTilde) beta (decodeTable vx) (decodeTable msg.aTilde) (msg.eta.map ofBe))
  · cases hc : etaCanonical msg.eta
    · rw [if_pos (by simp [e]), if_neg (by simp)]
    · rw [if_neg (by simp [e]), if_pos ⟨e, rfl⟩]
  · rw [if_pos (by simp [e]), if_neg (fun hh => e hh.1)]

theorem accepted_iff (sid beta : Bytes) (vx : List (List Bytes)) (msg : Msg2) :
    Accepted (receiverCore (m := Id) h sid beta vx msg)
      ↔ msg.muHash = checkDigest h sid beta vx msg ∧ etaCanonical msg.eta = true := by
  rw [receiverCore_eq]
  constructor
  · rintro ⟨d, hd⟩
    by_contra hne
    rw [if_neg hne] at hd
    cases hd
  · intro e
    exact ⟨_, by rw [if_pos e]⟩

theorem rejected_of_ne (sid beta : Bytes) (vx : List (List Bytes)) (msg : Msg2)
    (hne : msg.muHash ≠ checkDigest h sid beta vx msg) :
    receiverCore (m := Id) h sid beta vx msg = .error checkFailed := by
  rw [receiverCore_eq, if_neg (fun hh => hne hh.1)]

theorem rejected_of_noncanonical (sid beta : Bytes) (vx : List (List Bytes)) (msg : Msg2)
    (hne : etaCanonical msg.eta = false) :
    receiverCore (m := Id) h sid beta vx msg = .error checkFailed := by
  rw [receiverCore_eq, if_neg (fun hh => by rw [hne] at hh; exact Bool.false_ne_true hh.2)]

theorem shares_of_accepted (sid beta : Bytes) (vx : List (List Bytes)) (msg : Msg2) (d : List ℕ)
    (hd : receiverCore (m := Id) h sid beta vx msg = .ok d) : d = sharesOf h sid beta vx msg := by
  rw [receiverCore_eq] at hd
  by_cases e : msg.muHash = checkDigest h sid beta vx msg ∧ etaCanonical msg.eta = true
  · rw [if_pos e] at hd; cases hd; rfl
  · rw [if_neg e] at hd; cases hd

end Id

/-! ### the adversarial sender, entry by entry -/

/-- the value `advCore` hashes for `(j, k)` -/
def advMuEntry (theta : List ℕ) (A0 : List (List ℕ)) (a : List ℕ) (devs : List Dev) (j k : ℕ) : ℕ :=
  match devAt devs j with
  | some d =>
      if d.guess then addq (linComb (sAt A0 j (L_BATCH + k)) (th theta k) (sAt A0 j)) (devShift theta a d.a' k)
      else linComb (sAt A0 j (L_BATCH + k)) (th theta k) (sAt A0 j)
  | none => linComb (sAt A0 j (L_BATCH + k)) (th theta k) (sAt A0 j)

theorem advMuEntry_lt (theta : List ℕ) (A0 : List (List ℕ)) (a : List ℕ) (devs : List Dev) (j k : ℕ) :
    advMuEntry theta A0 a devs j k < secpQ := by
  unfold advMuEntry
  split
  · split
    · exact addq_lt _ _
    · exact linComb_lt _ _ _
  · exact linComb_lt _ _ _

/-- the `a_tilde` table of `advCore` -/
def advATilde (v0 v1 : List (List Bytes)) (a : List ℕ) (tape : Tape) (devs : List Dev) : List (List Bytes) :=
  (List.range XI).map fun j =>
    (aTildeRow (decodeTable v0) (decodeTable v1) (devInput devs a j) (drawEta RHO tape).1 j).map toBe

theorem advCore_id (h : Query → Id Bytes) (sid : Bytes) (g : List ℕ) (v0 v1 : List (List Bytes)) (a : List ℕ)
    (tape : Tape) (devs : List Dev) :
    advCore (m := Id) h sid g v0 v1 a tape devs =
      (senderC g (decodeTable v0),
       { aTilde := advATilde v0 v1 a tape devs
         eta := (etaFinal (thetaAll (m := Id) h sid (advATilde v0 v1 a tape devs)) a (drawEta RHO tape).1).map toBe
         muHash := muHashOf (m := Id) h sid (muIdx.map fun p =>
            advMuEntry (thetaAll (m := Id) h sid (advATilde v0 v1 a tape devs)) (decodeTable v0) a devs p.1 p.2) },
       (drawEta RHO tape).2) := rfl

theorem cast_devShift (theta a a' : List ℕ) (k : ℕ) :
    ((devShift theta a a' k : ℕ) : Zq)
      = ((List.range L_BATCH).map fun i => (th theta k i : Zq) * ((a'.getD i 0 : Zq) - (a.getD i 0 : Zq))).sum := by
  unfold devShift
  rw [cast_sumq, List.map_map]
  simp only [Function.comp_def, cast_mulq, cast_subq]

/-- one entry of the receiver's mu' against the adversary's mu: they agree iff the row does not deviate, or the guess
    is right, or the deviation is invisible to the check (`θ·(a'_j − a) = 0`) -/
theorem entry_eq_iff (theta : List ℕ) (beta : Bytes) (A0 A1 VX : List (List ℕ)) (a eta0 : List ℕ) (devs : List Dev)
    (hOT : OTRel beta A0 A1 VX) (j k : ℕ) (hj : j < XI) (hk : k < RHO) :
    muRecvEntry theta beta VX
        (decodeTable ((List.range XI).map fun j => (aTildeRow A0 A1 (devInput devs a j) eta0 j).map toBe))
        (((etaFinal theta a eta0).map toBe).map ofBe) j k
      = advMuEntry theta A0 a devs j k
    ↔ ∀ d, devAt devs j = some d → bitAt beta j = d.guess ∨ ((devShift theta a d.a' k : ℕ) : Zq) = 0 := by
  have hc := cast_muRecvEntry theta beta A0 A1 VX (fun j => devInput devs a j) a eta0 hOT j k hj hk
  have hiff : muRecvEntry theta beta VX
        (decodeTable ((List.range XI).map fun j => (aTildeRow A0 A1 (devInput devs a j) eta0 j).map toBe))
        (((etaFinal theta a eta0).map toBe).map ofBe) j k = advMuEntry theta A0 a devs j k
      ↔ ((muRecvEntry theta beta VX
        (decodeTable ((List.range XI).map fun j => (aTildeRow A0 A1 (devInput devs a j) eta0 j).map toBe))
        (((etaFinal theta a eta0).map toBe).map ofBe) j k : ℕ) : Zq) = ((advMuEntry theta A0 a devs j k : ℕ) : Zq) :=
    ⟨fun e => by rw [e], fun e => natCast_inj_of_lt (muRecvEntry_lt _ _ _ _ _ _ _) (advMuEntry_lt _ _ _ _ _ _) e⟩
  rw [hiff, hc]
  unfold advMuEntry devInput
  cases hd : devAt devs j with
  | none =>
    simp only [reduceCtorEq, false_implies, implies_true, iff_true]
    have hz : ((List.range L_BATCH).map fun i => (th theta k i : Zq) * ((a.getD i 0 : Zq) - (a.getD i 0 : Zq))).sum = 0 := by
      rw [RvoleCore.sum_mul_sub]; ring
    rw [hz]; simp
  | some d =>
    simp only [Option.some.injEq, forall_eq']
    rw [← cast_devShift]
    cases hb : bitAt beta j <;> cases hg : d.guess <;> simp [cast_addq]

end SlVerif.Rvole

namespace SlVerif.Rvole
open SlVerif SlVerif.Generated

theorem mem_muIdx_of {j k : ℕ} (hj : j < XI) (hk : k < RHO) : (j, k) ∈ muIdx := by
  unfold muIdx
  simp only [List.mem_flatMap, List.mem_range, List.mem_map, Prod.mk.injEq]
  exact ⟨j, hj, k, hk, rfl, rfl⟩

theorem rho_pos : 0 < RHO := Nat.lt_of_sub_eq_succ rfl

/-- the list of values the receiver hashes (`mu'`) -/
def recvMuList (h : Query → Id Bytes) (sid beta : Bytes) (vx : List (List Bytes)) (msg : Msg2) : List ℕ :=
  muReceiver (thetaAll (m := Id) h sid msg.aTilde) beta (decodeTable vx) (decodeTable msg.aTilde) (msg.eta.map ofBe)

theorem checkDigest_eq (h : Query → Id Bytes) (sid beta : Bytes) (vx : List (List Bytes)) (msg : Msg2) :
    checkDigest h sid beta vx msg = muHashOf (m := Id) h sid (recvMuList h sid beta vx msg) := rfl

/-- the list of values the adversarial sender hashes -/
def advMuList (h : Query → Id Bytes) (sid : Bytes) (v0 v1 : List (List Bytes)) (a : List ℕ) (tape : Tape)
    (devs : List Dev) : List ℕ :=
  muIdx.map fun p =>
    advMuEntry (thetaAll (m := Id) h sid (advATilde v0 v1 a tape devs)) (decodeTable v0) a devs p.1 p.2

/-- the theta challenges of the adversarial message -/
def advTheta (h : Query → Id Bytes) (sid : Bytes) (v0 v1 : List (List Bytes)) (a : List ℕ) (tape : Tape)
    (devs : List Dev) : List ℕ :=
  thetaAll (m := Id) h sid (advATilde v0 v1 a tape devs)

/-- the receiver's list and the adversary's list agree iff every deviating row is guessed right or invisible -/
theorem adv_lists_eq_iff (h : Query → Id Bytes) (sid beta : Bytes) (v0 v1 vx : List (List Bytes)) (a : List ℕ)
    (tape : Tape) (devs : List Dev) (g : List ℕ)
    (hrel : OTRel beta (decodeTable v0) (decodeTable v1) (decodeTable vx)) :
    recvMuList h sid beta vx (advCore (m := Id) h sid g v0 v1 a tape devs).2.1 = advMuList h sid v0 v1 a tape devs
    ↔ ∀ j < XI, ∀ k < RHO, ∀ d, devAt devs j = some d →
        bitAt beta j = d.guess ∨ ((devShift (advTheta h sid v0 v1 a tape devs) a d.a' k : ℕ) : Zq) = 0 := by
  rw [advCore_id]
  unfold recvMuList advMuList advTheta advATilde
  simp only
  rw [muReceiver_eq]
  generalize thetaAll (m := Id) h sid ((List.range XI).map fun j =>
    (aTildeRow (decodeTable v0) (decodeTable v1) (devInput devs a j) (drawEta RHO tape).1 j).map toBe) = θ
  constructor
  · intro e j hj k hk
    have e' := List.map_inj_left.mp e (j, k) (mem_muIdx_of hj hk)
    exact (entry_eq_iff θ beta (decodeTable v0) (decodeTable v1) (decodeTable vx) a (drawEta RHO tape).1 devs hrel
      j k hj hk).mp e'
  · intro hall
    apply List.map_congr_left
    rintro ⟨j, k⟩ hm
    obtain ⟨hj, hk⟩ := mem_muIdx hm
    exact (entry_eq_iff θ beta (decodeTable v0) (decodeTable v1) (decodeTable vx) a (drawEta RHO tape).1 devs hrel
      j k hj hk).mpr (hall j hj k hk)

theorem modify_append_right' {α : Type} (l₁ l₂ : List α) (f : α → α) (k : ℕ) :
    (l₁ ++ l₂).modify (l₁.length + k) f = l₁ ++ l₂.modify k f := by
  induction l₁ with
  | nil => simp
  | cons x xs ih =>
    rw [List.cons_append, List.length_cons, Nat.add_right_comm, List.modify_succ_cons, ih, List.cons_append]

theorem foldl_addq_congr {ι : Type} (l : List ι) (f f' : ι → ℕ) (init : ℕ) (hf : ∀ j ∈ l, f j = f' j) :
    l.foldl (fun acc j => addq acc (f j)) init = l.foldl (fun acc j => addq acc (f' j)) init := by
  induction l generalizing init with
  | nil => rfl
  | cons x xs ih =>
    rw [List.foldl_cons, List.foldl_cons, hf x List.mem_cons_self]
    exact ih _ (fun j hj => hf j (List.mem_cons_of_mem _ hj))

/-- the receiver's shares only read `a_tilde` in the rows where its choice bit is 1 -/
theorem receiverD_congr (g : List ℕ) (beta : Bytes) (VX AT AT' : List (List ℕ))
    (hrows : ∀ j < XI, bitAt beta j = true → ∀ i < L_BATCH, sAt AT j i = sAt AT' j i) :
    receiverD g beta VX AT = receiverD g beta VX AT' := by
  unfold receiverD
  apply List.map_congr_left
  intro i hi
  apply foldl_addq_congr
  intro j hj
  unfold dSel
  split
  · rename_i hb
    rw [hrows j (List.mem_range.mp hj) hb i (List.mem_range.mp hi)]
  · rfl

/-- zero choice bits in every deviating row: the adversarial `a_tilde` yields the honest shares -/
theorem adv_shares_zero_bits (g : List ℕ) (beta : Bytes) (VX : List (List ℕ)) (v0 v1 : List (List Bytes)) (a : List ℕ)
    (tape : Tape) (devs : List Dev)
    (hz : ∀ j < XI, ∀ d, devAt devs j = some d → bitAt beta j = false) :
    receiverD g beta VX (decodeTable (advATilde v0 v1 a tape devs))
      = receiverD g beta VX (decodeTable (advATilde v0 v1 a tape [])) := by
  apply receiverD_congr
  intro j hj hb i hi
  have hnone : devAt devs j = none := by
    cases hd : devAt devs j with
    | none => rfl
    | some d => rw [hz j hj d hd] at hb; cases hb
  unfold advATilde
  rw [sAt_aTilde_batch _ _ (fun j => devInput devs a j) _ j i hj hi,
    sAt_aTilde_batch _ _ (fun j => devInput [] a j) _ j i hj hi]
  unfold devInput
  rw [hnone]
  rfl

/-- without deviations the adversarial sender IS the honest sender -/
theorem advCore_nil (h : Query → Id Bytes) (sid : Bytes) (g : List ℕ) (v0 v1 : List (List Bytes)) (a : List ℕ)
    (tape : Tape) :
    advCore (m := Id) h sid g v0 v1 a tape [] = senderCore (m := Id) h sid g v0 v1 a tape := rfl

end SlVerif.Rvole
