import SlVerif.Model.VerEnc
import SlVerif.Proofs.GroupOracle
import Mathlib.Tactic.Linarith
/-
  C09 helper lemmas, pure part: byte codecs (`toBytesBE`, `natToBe`/`beToNat`, scalar `repr`/`decodeScalar`) and the wire
  format (`toBytes` / `fromBytes`): round trips both ways, well-formedness of parsed proofs, absence of panics.
-/
namespace SlVerif
open VerEnc

/-! ### byte codecs -/

theorem natToLe_leToNat (b : Bytes) (hb : ∀ x ∈ b, x < 256) : natToLe b.length (leToNat b) = b := by
  induction b with
  | nil => rfl
  | cons x xs ih =>
    have hx : x < 256 := hb x (by simp)
    have hxs : ∀ y ∈ xs, y < 256 := fun y hy => hb y (by simp [hy])
    simp only [List.length_cons, natToLe, leToNat]
    rw [Nat.add_mul_mod_self_left, Nat.mod_eq_of_lt hx, Nat.add_mul_div_left _ _ (by norm_num : 0 < 256),
      Nat.div_eq_of_lt hx, Nat.zero_add, ih hxs]

theorem natToBe_beToNat (b : Bytes) (hb : ∀ x ∈ b, x < 256) : natToBe b.length (beToNat b) = b := by
  have := natToLe_leToNat b.reverse (by simpa using hb)
  rw [← beToNat_reverse, List.reverse_reverse, List.length_reverse] at this
  rw [natToBe, this, List.reverse_reverse]

theorem natToLe_lt (len n : ℕ) : ∀ x ∈ natToLe len n, x < 256 := by
  induction len generalizing n with
  | zero => simp [natToLe]
  | succ k ih =>
    intro x hx
    simp only [natToLe, List.mem_cons] at hx
    rcases hx with rfl | hx
    · exact Nat.mod_lt _ (by norm_num)
    · exact ih _ x hx

theorem natToBe_lt (len n : ℕ) : ∀ x ∈ natToBe len n, x < 256 := by
  intro x hx; rw [natToBe, List.mem_reverse] at hx; exact natToLe_lt len n x hx

/-- `BigUint::from_bytes_be(v.to_bytes_be()) = v` -/
theorem toBytesBE_val (n : ℕ) : beToNat (toBytesBE n) = n := by
  rw [toBytesBE, beToNat_natToBe, Nat.mod_eq_of_lt]
  have h1 : n < 2 ^ (Nat.log2 n + 1) := Nat.lt_log2_self
  have h2 : 2 ^ (Nat.log2 n + 1) ≤ 2 ^ (8 * (Nat.log2 n / 8 + 1)) := by
    apply Nat.pow_le_pow_right (by norm_num); omega
  have h3 : (256 : ℕ) ^ (Nat.log2 n / 8 + 1) = 2 ^ (8 * (Nat.log2 n / 8 + 1)) := by
    rw [show (256 : ℕ) = 2 ^ 8 by norm_num, ← pow_mul]
  omega

theorem toBytesBE_length (n : ℕ) : (toBytesBE n).length = Nat.log2 n / 8 + 1 := by
  rw [toBytesBE, natToBe_length]

/-- the minimal encoding of a number below `256^len` has at most `len` bytes (`len ≥ 1`) -/
theorem toBytesBE_length_le {n len : ℕ} (hl : 0 < len) (hn : n < 256 ^ len) : (toBytesBE n).length ≤ len := by
  rw [toBytesBE_length]
  by_cases h0 : n = 0
  · subst h0; simp [Nat.log2_zero]; omega
  · have h1 : 2 ^ Nat.log2 n ≤ n := Nat.log2_self_le h0
    have h2 : (256 : ℕ) ^ len = 2 ^ (8 * len) := by rw [show (256 : ℕ) = 2 ^ 8 by norm_num, ← pow_mul]
    have h3 : 2 ^ Nat.log2 n < 2 ^ (8 * len) := by omega
    have h4 : Nat.log2 n < 8 * len := (Nat.pow_lt_pow_iff_right (by norm_num)).1 h3
    omega

theorem beToNat_append (a b : Bytes) : beToNat (a ++ b) = beToNat a * 256 ^ b.length + beToNat b := by
  induction b using List.reverseRecOn with
  | nil => simp [beToNat]
  | append_singleton bs x ih =>
    rw [← List.append_assoc]
    have e1 : ∀ l : Bytes, beToNat (l ++ [x]) = beToNat l * 256 + x := by intro l; simp [beToNat, List.foldl_append]
    rw [e1, e1, ih, List.length_append, List.length_singleton, pow_succ]; ring

theorem beToNat_replicate_zero (k : ℕ) : beToNat (List.replicate k 0) = 0 := by
  induction k with
  | zero => rfl
  | succ k ih => rw [List.replicate_succ, show (0 :: List.replicate k 0) = [0] ++ List.replicate k 0 from rfl,
      beToNat_append, ih]; simp [beToNat]

/-- left padding does not change the value -/
theorem beToNat_padLeft (len : ℕ) (b : Bytes) : beToNat (padLeft len b) = beToNat b := by
  rw [padLeft, beToNat_append, beToNat_replicate_zero]; simp

theorem padLeft_length {len : ℕ} {b : Bytes} (h : b.length ≤ len) : (padLeft len b).length = len := by
  rw [padLeft, List.length_append, List.length_replicate]; omega

theorem padLeft_lt (len : ℕ) (b : Bytes) (hb : ∀ x ∈ b, x < 256) : ∀ x ∈ padLeft len b, x < 256 := by
  intro x hx
  rw [padLeft, List.mem_append] at hx
  rcases hx with hx | hx
  · rw [List.mem_replicate] at hx; omega
  · exact hb x hx

/-- the repair of D9: padding the minimal encoding of `v < 256^len` back to `len` bytes gives THE `len`-byte encoding -/
theorem padLeft_toBytesBE {len v : ℕ} (hl : 0 < len) (hv : v < 256 ^ len) :
    padLeft len (toBytesBE v) = natToBe len v := by
  have hlen := padLeft_length (toBytesBE_length_le hl hv)
  have hlt := padLeft_lt len (toBytesBE v) (natToBe_lt _ _)
  have := natToBe_beToNat (padLeft len (toBytesBE v)) hlt
  rw [hlen, beToNat_padLeft, toBytesBE_val] at this
  exact this.symm

theorem leToNat_lt (b : Bytes) (hb : ∀ x ∈ b, x < 256) : leToNat b < 256 ^ b.length := by
  induction b with
  | nil => simp [leToNat]
  | cons x xs ih =>
    have hx : x < 256 := hb x (by simp)
    have := ih (fun y hy => hb y (by simp [hy]))
    rw [leToNat, List.length_cons, pow_succ]
    nlinarith

theorem beToNat_lt (b : Bytes) (hb : ∀ x ∈ b, x < 256) : beToNat b < 256 ^ b.length := by
  have := leToNat_lt b.reverse (by simpa using hb)
  rwa [← beToNat_reverse, List.reverse_reverse, List.length_reverse] at this

namespace VerEnc

/-! ### scalars -/

/-- what the proofs need to know about the curve constants (true for both instances) -/
structure CurveParams.Good (cp : CurveParams) : Prop where
  slen_pos : 0 < cp.scalarLen
  slen_lt : cp.scalarLen < 65536
  plen_lt : cp.pointLen < 65536
  order_pos : 0 < cp.order
  order_le : cp.order ≤ 256 ^ cp.scalarLen

theorem secp_good : secp.Good := ⟨by decide, by decide, by decide, by decide, by decide⟩
theorem ed_good : ed.Good := ⟨by decide, by decide, by decide, by decide, by decide⟩

theorem repr_length (cp : CurveParams) (s : ℕ) : (cp.repr s).length = cp.scalarLen := by
  unfold CurveParams.repr; split
  · exact natToBe_length _ _
  · exact natToLe_length _ _

theorem repr_lt (cp : CurveParams) (s : ℕ) : ∀ x ∈ cp.repr s, x < 256 := by
  unfold CurveParams.repr; split
  · exact natToBe_lt _ _
  · exact natToLe_lt _ _

theorem reprVal_repr (cp : CurveParams) {s : ℕ} (hs : s < 256 ^ cp.scalarLen) : cp.reprVal (cp.repr s) = s := by
  unfold CurveParams.reprVal CurveParams.repr; split
  · rw [beToNat_natToBe, Nat.mod_eq_of_lt hs]
  · rw [leToNat_natToLe, Nat.mod_eq_of_lt hs]

theorem repr_reprVal (cp : CurveParams) {b : Bytes} (hl : b.length = cp.scalarLen) (hb : ∀ x ∈ b, x < 256) :
    cp.repr (cp.reprVal b) = b := by
  unfold CurveParams.reprVal CurveParams.repr; split
  · rw [← hl]; exact natToBe_beToNat b hb
  · rw [← hl]; exact natToLe_leToNat b hb

/-- `decode_scalar(s.to_repr()) = Some(s)` for reduced scalars -/
theorem decodeScalar_repr {cp : CurveParams} (hg : cp.Good) {s : ℕ} (hs : s < cp.order) :
    decodeScalar cp (cp.repr s) = some s := by
  have h1 := reprVal_repr cp (lt_of_lt_of_le hs hg.order_le)
  unfold decodeScalar CurveParams.fromRepr?
  rw [if_neg (by rw [repr_length]; simp), h1, if_pos hs]

/-- a decoded scalar is reduced and re-encodes to the bytes it came from -/
theorem decodeScalar_some {cp : CurveParams} {b : Bytes} {s : ℕ} (hb : ∀ x ∈ b, x < 256)
    (h : decodeScalar cp b = some s) : b.length = cp.scalarLen ∧ s < cp.order ∧ cp.repr s = b := by
  unfold decodeScalar CurveParams.fromRepr? at h
  split at h
  · exact absurd h (by simp)
  · rename_i hl
    have hl' : b.length = cp.scalarLen := by simpa using hl
    split at h
    · rename_i hv
      have : cp.reprVal b = s := by simpa using h
      subst this
      exact ⟨hl', hv, repr_reprVal cp hl' hb⟩
    · exact absurd h (by simp)

theorem decodeScalar_lt {cp : CurveParams} {b : Bytes} {s : ℕ} (h : decodeScalar cp b = some s) : s < cp.order := by
  unfold decodeScalar CurveParams.fromRepr? at h
  split at h
  · exact absurd h (by simp)
  · split at h
    · rename_i hv; have : cp.reprVal b = s := by simpa using h
      exact this ▸ hv
    · exact absurd h (by simp)

/-! ### wire format -/

theorem Slot.bytes_length (s : Slot) : s.bytes.length = s.gR.length + s.encXR.length + s.encR.length := by
  simp [Slot.bytes, List.length_append]; omega

theorem readSlots_flatMap (g e : ℕ) (slots : List Slot) (rest : Bytes)
    (hs : ∀ s ∈ slots, s.gR.length = g ∧ s.encXR.length = e ∧ s.encR.length = e) :
    readSlots g e slots.length (slots.flatMap Slot.bytes ++ rest) = .ok (slots, rest) := by
  induction slots with
  | nil => simp [readSlots]
  | cons s ss ih =>
    obtain ⟨h1, h2, h3⟩ := hs s (by simp)
    have ih' := ih (fun t ht => hs t (by simp [ht]))
    have e0 : (s :: ss).flatMap Slot.bytes ++ rest = s.gR ++ (s.encXR ++ (s.encR ++ (ss.flatMap Slot.bytes ++ rest))) := by
      simp [List.flatMap_cons, Slot.bytes, List.append_assoc]
    rw [List.length_cons, readSlots, e0]
    have hlen : ¬ (s.gR ++ (s.encXR ++ (s.encR ++ (ss.flatMap Slot.bytes ++ rest)))).length < g + 2 * e := by
      simp only [List.length_append]; omega
    rw [if_neg hlen]
    have t1 : (s.gR ++ (s.encXR ++ (s.encR ++ (ss.flatMap Slot.bytes ++ rest)))).take g = s.gR := List.take_left' h1
    have d1 : (s.gR ++ (s.encXR ++ (s.encR ++ (ss.flatMap Slot.bytes ++ rest)))).drop g
        = s.encXR ++ (s.encR ++ (ss.flatMap Slot.bytes ++ rest)) := List.drop_left' h1
    have d2 : (s.gR ++ (s.encXR ++ (s.encR ++ (ss.flatMap Slot.bytes ++ rest)))).drop (g + e)
        = s.encR ++ (ss.flatMap Slot.bytes ++ rest) := by
      rw [← List.drop_drop, d1]; exact List.drop_left' h2
    have d3 : (s.gR ++ (s.encXR ++ (s.encR ++ (ss.flatMap Slot.bytes ++ rest)))).drop (g + 2 * e)
        = ss.flatMap Slot.bytes ++ rest := by
      rw [show g + 2 * e = (g + e) + e by ring, ← List.drop_drop, d2]; exact List.drop_left' h3
    simp only [t1, d1, d2, d3, List.take_left' h2, List.take_left' h3, ih']

theorem readScalars_flatMap {cp : CurveParams} (hg : cp.Good) (opens : List ℕ) (ho : ∀ s ∈ opens, s < cp.order) :
    readScalars cp opens.length (opens.flatMap cp.repr) = .ok opens := by
  induction opens with
  | nil => simp [readScalars]
  | cons s ss ih =>
    have ih' := ih (fun t ht => ho t (by simp [ht]))
    have hl := repr_length cp s
    rw [List.length_cons, readScalars, List.flatMap_cons]
    have hlen : ¬ (cp.repr s ++ ss.flatMap cp.repr).length < cp.scalarLen := by
      simp only [List.length_append]; omega
    rw [if_neg hlen, List.take_left' hl, decodeScalar_repr hg (ho s (by simp)), List.drop_left' hl]
    simp only [ih']

theorem readSlots_ok {g e k : ℕ} {d : Bytes} {slots : List Slot} {rest : Bytes}
    (h : readSlots g e k d = .ok (slots, rest)) :
    d = slots.flatMap Slot.bytes ++ rest ∧ slots.length = k ∧
      ∀ s ∈ slots, s.gR.length = g ∧ s.encXR.length = e ∧ s.encR.length = e := by
  induction k generalizing d slots with
  | zero =>
    simp only [readSlots, Res.ok.injEq, Prod.mk.injEq] at h
    obtain ⟨rfl, rfl⟩ := h
    simp
  | succ k ih =>
    rw [readSlots] at h
    split at h
    · exact absurd h (by simp)
    · rename_i hlen
      split at h
      · rename_i rs d' hrec
        simp only [Res.ok.injEq, Prod.mk.injEq] at h
        obtain ⟨rfl, rfl⟩ := h
        obtain ⟨e1, e2, e3⟩ := ih hrec
        have hl : g + 2 * e ≤ d.length := Nat.le_of_not_lt hlen
        refine ⟨?_, by simp [e2], ?_⟩
        · rw [List.flatMap_cons, List.append_assoc, ← e1]
          simp only [Slot.bytes]
          have a1 : d = d.take g ++ d.drop g := (List.take_append_drop g d).symm
          have a2 : d.drop g = (d.drop g).take e ++ (d.drop g).drop e := (List.take_append_drop e _).symm
          have a3 : d.drop (g + e) = (d.drop (g + e)).take e ++ (d.drop (g + e)).drop e := (List.take_append_drop e _).symm
          rw [List.drop_drop] at a2
          rw [List.drop_drop, show g + e + e = g + 2 * e by ring] at a3
          rw [List.append_assoc, List.append_assoc, ← a3, ← a2, ← a1]
        · intro s hs
          simp only [List.mem_cons] at hs
          rcases hs with rfl | hs
          · simp only [List.length_take, List.length_drop]
            omega
          · exact e3 s hs
      · exact absurd h (by simp)
      · exact absurd h (by simp)

theorem readScalars_ok {cp : CurveParams} {k : ℕ} {d : Bytes} {opens : List ℕ} (hb : ∀ x ∈ d, x < 256)
    (h : readScalars cp k d = .ok opens) :
    opens.length = k ∧ (∀ s ∈ opens, s < cp.order) ∧ d.take (k * cp.scalarLen) = opens.flatMap cp.repr := by
  induction k generalizing d opens with
  | zero =>
    simp only [readScalars, Res.ok.injEq] at h
    subst h; simp
  | succ k ih =>
    rw [readScalars] at h
    split at h
    · exact absurd h (by simp)
    · rename_i hlen
      split at h
      · exact absurd h (by simp)
      · rename_i s hdec
        split at h
        · rename_i rs hrec
          simp only [Res.ok.injEq] at h
          subst h
          have hb' : ∀ x ∈ d.drop cp.scalarLen, x < 256 := fun x hx => hb x (List.mem_of_mem_drop hx)
          obtain ⟨e1, e2, e3⟩ := ih hb' hrec
          obtain ⟨_, f2, f3⟩ := decodeScalar_some (fun x hx => hb x (List.mem_of_mem_take hx)) hdec
          refine ⟨by simp [e1], ?_, ?_⟩
          · intro t ht
            simp only [List.mem_cons] at ht
            rcases ht with rfl | ht
            · exact f2
            · exact e2 t ht
          · rw [List.flatMap_cons, f3, ← e3, show (k + 1) * cp.scalarLen = cp.scalarLen + k * cp.scalarLen by ring,
              List.take_add]
        · exact absurd h (by simp)
        · exact absurd h (by simp)

theorem flatMap_bytes_length {g e : ℕ} (slots : List Slot)
    (hs : ∀ s ∈ slots, s.gR.length = g ∧ s.encXR.length = e ∧ s.encR.length = e) :
    (slots.flatMap Slot.bytes).length = slots.length * (g + 2 * e) := by
  induction slots with
  | nil => simp
  | cons s ss ih =>
    obtain ⟨h1, h2, h3⟩ := hs s (by simp)
    rw [List.flatMap_cons, List.length_append, ih (fun t ht => hs t (by simp [ht])), Slot.bytes_length, h1, h2, h3,
      List.length_cons]
    ring

theorem flatMap_repr_length (cp : CurveParams) (opens : List ℕ) :
    (opens.flatMap cp.repr).length = opens.length * cp.scalarLen := by
  induction opens with
  | nil => simp
  | cons s ss ih => rw [List.flatMap_cons, List.length_append, ih, repr_length, List.length_cons]; ring

theorem header_split (seed h1 h2 h3 h4 r : Bytes) (hs : seed.length = 32) (l1 : h1.length = 2) (l2 : h2.length = 2)
    (l3 : h3.length = 2) (l4 : h4.length = 2) :
    (seed ++ (h1 ++ (h2 ++ (h3 ++ (h4 ++ r))))).take 32 = seed ∧
    ((seed ++ (h1 ++ (h2 ++ (h3 ++ (h4 ++ r))))).drop 32).take 2 = h1 ∧
    ((seed ++ (h1 ++ (h2 ++ (h3 ++ (h4 ++ r))))).drop 34).take 2 = h2 ∧
    ((seed ++ (h1 ++ (h2 ++ (h3 ++ (h4 ++ r))))).drop 36).take 2 = h3 ∧
    ((seed ++ (h1 ++ (h2 ++ (h3 ++ (h4 ++ r))))).drop 38).take 2 = h4 ∧
    (seed ++ (h1 ++ (h2 ++ (h3 ++ (h4 ++ r))))).drop 40 = r ∧
    (seed ++ (h1 ++ (h2 ++ (h3 ++ (h4 ++ r))))).length = 40 + r.length := by
  have d32 : (seed ++ (h1 ++ (h2 ++ (h3 ++ (h4 ++ r))))).drop 32 = h1 ++ (h2 ++ (h3 ++ (h4 ++ r))) := List.drop_left' hs
  have d34 : (seed ++ (h1 ++ (h2 ++ (h3 ++ (h4 ++ r))))).drop 34 = h2 ++ (h3 ++ (h4 ++ r)) := by
    rw [show 34 = 32 + 2 by rfl, ← List.drop_drop, d32]; exact List.drop_left' l1
  have d36 : (seed ++ (h1 ++ (h2 ++ (h3 ++ (h4 ++ r))))).drop 36 = h3 ++ (h4 ++ r) := by
    rw [show 36 = 34 + 2 by rfl, ← List.drop_drop, d34]; exact List.drop_left' l2
  have d38 : (seed ++ (h1 ++ (h2 ++ (h3 ++ (h4 ++ r))))).drop 38 = h4 ++ r := by
    rw [show 38 = 36 + 2 by rfl, ← List.drop_drop, d36]; exact List.drop_left' l3
  have d40 : (seed ++ (h1 ++ (h2 ++ (h3 ++ (h4 ++ r))))).drop 40 = r := by
    rw [show 40 = 38 + 2 by rfl, ← List.drop_drop, d38]; exact List.drop_left' l4
  refine ⟨List.take_left' hs, ?_, ?_, ?_, ?_, d40, ?_⟩
  · rw [d32]; exact List.take_left' l1
  · rw [d34]; exact List.take_left' l2
  · rw [d36]; exact List.take_left' l3
  · rw [d38]; exact List.take_left' l4
  · simp only [List.length_append]; omega

theorem header_join (d : Bytes) :
    d = d.take 32 ++ ((d.drop 32).take 2 ++ ((d.drop 34).take 2 ++ ((d.drop 36).take 2 ++ ((d.drop 38).take 2 ++ d.drop 40)))) := by
  have a1 := (List.take_append_drop 32 d).symm
  have a2 := (List.take_append_drop 2 (d.drop 32)).symm
  have a3 := (List.take_append_drop 2 (d.drop 34)).symm
  have a4 := (List.take_append_drop 2 (d.drop 36)).symm
  have a5 := (List.take_append_drop 2 (d.drop 38)).symm
  rw [List.drop_drop] at a2 a3 a4 a5
  rw [← a5, ← a4, ← a3, ← a2, ← a1]

/-- well-formed proof objects: what `encrypt_with_proof` and `from_bytes` produce -/
structure WF (cp : CurveParams) (p : Proof) : Prop where
  seed_len : p.seed.length = 32
  param_ge : 128 ≤ p.param
  param_le : p.param ≤ 256
  slots_len : p.slots.length = p.param
  opens_len : p.opens.length = p.param
  enc : ∃ E, E < 65536 ∧ ∀ s ∈ p.slots, s.gR.length = cp.pointLen ∧ s.encXR.length = E ∧ s.encR.length = E
  opens_lt : ∀ s ∈ p.opens, s < cp.order

theorem be16_length (v : ℕ) : (be16 v).length = 2 := natToBe_length 2 v
theorem beToNat_be16 {v : ℕ} (h : v < 65536) : beToNat (be16 v) = v := by
  rw [be16, beToNat_natToBe]; exact Nat.mod_eq_of_lt (by norm_num; exact h)

/-- **serialise, then parse**: a well-formed proof survives the wire -/
theorem fromBytes_toBytes {cp : CurveParams} (hg : cp.Good) {p : Proof} (hw : WF cp p) :
    ∃ d, toBytes cp p = .ok d ∧ fromBytes cp d = .ok p := by
  obtain ⟨E, hE, hsl⟩ := hw.enc
  obtain ⟨seed, slots, opens, param⟩ := p
  have h1 := hw.seed_len; have h2 := hw.param_ge; have h3 := hw.param_le; have h4 := hw.slots_len
  have h5 := hw.opens_len; have h6 := hw.opens_lt
  simp only at h1 h2 h3 h4 h5 h6 hsl
  cases slots with
  | nil => simp at h4; omega
  | cons s0 ss =>
    obtain ⟨g0, e0, _⟩ := hsl s0 (by simp)
    refine ⟨_, rfl, ?_⟩
    simp only [List.append_assoc]
    rw [g0, e0]
    obtain ⟨t32, t1, t2, t3, t4, d40, dl⟩ := header_split seed (be16 param) (be16 cp.pointLen) (be16 E)
      (be16 cp.scalarLen) ((s0 :: ss).flatMap Slot.bytes ++ opens.flatMap cp.repr) h1 (be16_length _) (be16_length _)
      (be16_length _) (be16_length _)
    have lS := flatMap_bytes_length (s0 :: ss) hsl
    have lO := flatMap_repr_length cp opens
    have hpos : 0 < cp.pointLen + 2 * E + cp.scalarLen := by have := hg.slen_pos; omega
    have hrem : ((s0 :: ss).flatMap Slot.bytes ++ opens.flatMap cp.repr).length
        = param * (cp.pointLen + 2 * E + cp.scalarLen) := by
      rw [List.length_append, lS, lO, h4, h5]; ring
    unfold fromBytes
    simp only [t32, t1, t2, t3, t4, d40, dl, beToNat_be16 hg.slen_lt, beToNat_be16 hg.plen_lt, beToNat_be16 hE,
      beToNat_be16 (show param < 65536 by omega), hrem, Nat.add_sub_cancel_left, SECURITY_PARAM]
    rw [if_neg (by omega), if_neg (by simp), if_neg (by simp), if_neg (by omega), if_neg (by omega),
      Nat.mul_div_cancel _ hpos, if_neg (by simp), Nat.mul_mod_left, if_neg (by simp)]
    have r1 := readSlots_flatMap cp.pointLen E (s0 :: ss) (opens.flatMap cp.repr) hsl
    rw [h4] at r1
    have r2 := readScalars_flatMap hg opens h6
    rw [h5] at r2
    simp only [r1, r2]

theorem fromBytes_ok {cp : CurveParams} {d : Bytes} {p : Proof} (h : fromBytes cp d = .ok p) :
    40 ≤ d.length ∧ beToNat ((d.drop 38).take 2) = cp.scalarLen ∧ beToNat ((d.drop 34).take 2) = cp.pointLen ∧
    128 ≤ p.param ∧ p.param ≤ 256 ∧ p.param = beToNat ((d.drop 32).take 2) ∧ p.seed = d.take 32 ∧
    (d.length - 40) / (cp.pointLen + 2 * beToNat ((d.drop 36).take 2) + cp.scalarLen) = p.param ∧
    (d.length - 40) % (cp.pointLen + 2 * beToNat ((d.drop 36).take 2) + cp.scalarLen) = 0 ∧
    ∃ rest, readSlots cp.pointLen (beToNat ((d.drop 36).take 2)) p.param (d.drop 40) = .ok (p.slots, rest) ∧
      readScalars cp p.param rest = .ok p.opens := by
  unfold fromBytes at h
  simp only [SECURITY_PARAM] at h
  split at h
  · exact absurd h (by simp)
  rename_i c1
  split at h
  · exact absurd h (by simp)
  rename_i c2
  split at h
  · exact absurd h (by simp)
  rename_i c3
  have c2' := of_not_not c2
  have c3' := of_not_not c3
  rw [c2', c3'] at h
  generalize hsp : beToNat (List.take 2 (List.drop 32 d)) = sp at h
  generalize hesz : beToNat (List.take 2 (List.drop 36 d)) = esz at h
  by_cases c4 : sp < 128
  · simp only [c4, ↓reduceIte] at h; exact absurd h (by simp)
  simp only [c4, ↓reduceIte] at h
  by_cases c5 : 256 < sp
  · simp only [c5, ↓reduceIte] at h; exact absurd h (by simp)
  simp only [c5, ↓reduceIte] at h
  by_cases c6 : (d.length - 40) / (cp.pointLen + 2 * esz + cp.scalarLen) = sp
  swap
  · simp only [ne_eq, c6, not_false_eq_true, ↓reduceIte] at h; exact absurd h (by simp)
  simp only [ne_eq, c6, not_true_eq_false, ↓reduceIte] at h
  by_cases c7 : (d.length - 40) % (cp.pointLen + 2 * esz + cp.scalarLen) = 0
  swap
  · simp only [c7, not_false_eq_true, ↓reduceIte] at h; exact absurd h (by simp)
  simp only [c7, not_true_eq_false, ↓reduceIte] at h
  split at h
  · exact absurd h (by simp)
  · exact absurd h (by simp)
  · rename_i slots rest hrs
    split at h
    · exact absurd h (by simp)
    · exact absurd h (by simp)
    · rename_i opens hro
      simp only [Res.ok.injEq] at h
      subst h
      exact ⟨by omega, c2', c3', Nat.le_of_not_lt c4, Nat.le_of_not_lt c5, rfl, rfl, c6, c7, rest, hrs, hro⟩

theorem readScalars_len_lt {cp : CurveParams} {k : ℕ} {d : Bytes} {opens : List ℕ}
    (h : readScalars cp k d = .ok opens) : opens.length = k ∧ ∀ s ∈ opens, s < cp.order := by
  induction k generalizing d opens with
  | zero =>
    simp only [readScalars, Res.ok.injEq] at h
    subst h; simp
  | succ k ih =>
    rw [readScalars] at h
    split at h
    · exact absurd h (by simp)
    · split at h
      · exact absurd h (by simp)
      · rename_i s hdec
        split at h
        · rename_i rs hrec
          simp only [Res.ok.injEq] at h
          subst h
          obtain ⟨e1, e2⟩ := ih hrec
          refine ⟨by simp [e1], ?_⟩
          intro t ht
          simp only [List.mem_cons] at ht
          rcases ht with rfl | ht
          · exact decodeScalar_lt hdec
          · exact e2 t ht
        · exact absurd h (by simp)
        · exact absurd h (by simp)

/-- every parsed proof has `security_param` slots and openings, `128 ≤ security_param ≤ 256` (repair of D7), a 32-byte
    seed, uniform slot sizes and reduced opened scalars -/
theorem fromBytes_shape {cp : CurveParams} {d : Bytes} {p : Proof} (h : fromBytes cp d = .ok p) :
    p.seed.length = 32 ∧ 128 ≤ p.param ∧ p.param ≤ 256 ∧ p.slots.length = p.param ∧ p.opens.length = p.param ∧
    (∃ E, ∀ s ∈ p.slots, s.gR.length = cp.pointLen ∧ s.encXR.length = E ∧ s.encR.length = E) ∧
    ∀ s ∈ p.opens, s < cp.order := by
  obtain ⟨h40, _, _, h128, h256, _, hseed, _, _, rest, hrs, hro⟩ := fromBytes_ok h
  obtain ⟨_, e2, e3⟩ := readSlots_ok hrs
  obtain ⟨f1, f2⟩ := readScalars_len_lt hro
  refine ⟨?_, h128, h256, e2, f1, ⟨_, e3⟩, f2⟩
  rw [hseed, List.length_take]; omega

/-- with honest bytes (`< 256`) a parsed proof is well-formed -/
theorem fromBytes_wf {cp : CurveParams} {d : Bytes} {p : Proof} (hb : ∀ x ∈ d, x < 256)
    (h : fromBytes cp d = .ok p) : WF cp p := by
  obtain ⟨a1, a2, a3, a4, a5, _, a7⟩ := fromBytes_shape h
  obtain ⟨_, _, _, _, _, _, _, _, _, rest, hrs, _⟩ := fromBytes_ok h
  obtain ⟨_, _, e3⟩ := readSlots_ok hrs
  refine ⟨a1, a2, a3, a4, a5, ⟨_, ?_, e3⟩, a7⟩
  have := beToNat_lt ((d.drop 36).take 2) (fun x hx => hb x (List.mem_of_mem_drop (List.mem_of_mem_take hx)))
  have hl : ((d.drop 36).take 2).length ≤ 2 := by rw [List.length_take]; omega
  calc beToNat ((d.drop 36).take 2) < 256 ^ ((d.drop 36).take 2).length := this
    _ ≤ 256 ^ 2 := Nat.pow_le_pow_right (by norm_num) hl
    _ = 65536 := by norm_num

theorem be16_beToNat {b : Bytes} (hl : b.length = 2) (hb : ∀ x ∈ b, x < 256) : be16 (beToNat b) = b := by
  rw [be16, ← hl]; exact natToBe_beToNat b hb

/-- **parse, then serialise**: `to_bytes` of a parsed proof is the input (bytes `< 256`) -/
theorem toBytes_fromBytes {cp : CurveParams} {d : Bytes} {p : Proof} (hb : ∀ x ∈ d, x < 256)
    (h : fromBytes cp d = .ok p) : toBytes cp p = .ok d := by
  obtain ⟨h40, hss, hgs, h128, h256, hsp, hseed, hdiv, hmod, rest, hrs, hro⟩ := fromBytes_ok h
  obtain ⟨e1, e2, e3⟩ := readSlots_ok hrs
  have hbrest : ∀ x ∈ rest, x < 256 := by
    intro x hx
    have : x ∈ d.drop 40 := by rw [e1]; exact List.mem_append_right _ hx
    exact hb x (List.mem_of_mem_drop this)
  obtain ⟨f1, f2, f3⟩ := readScalars_ok hbrest hro
  -- the length of the scalar block
  set esz := beToNat ((d.drop 36).take 2) with hesz
  have hdl : (d.drop 40).length = d.length - 40 := List.length_drop
  have hlen : d.length - 40 = p.param * (cp.pointLen + 2 * esz + cp.scalarLen) := by
    have := Nat.div_add_mod (d.length - 40) (cp.pointLen + 2 * esz + cp.scalarLen)
    rw [hdiv, hmod, Nat.add_zero, Nat.mul_comm] at this
    exact this.symm
  have hS := flatMap_bytes_length p.slots e3
  have hrl : rest.length = p.param * cp.scalarLen := by
    have := congrArg List.length e1
    rw [hdl, hlen, List.length_append, hS, e2] at this
    have h2 : p.param * (cp.pointLen + 2 * esz + cp.scalarLen) = p.param * (cp.pointLen + 2 * esz) + p.param * cp.scalarLen := by ring
    omega
  have hrest : rest = p.opens.flatMap cp.repr := by
    rw [← f3, List.take_of_length_le (by omega)]
  -- the header
  have l2 : ∀ k, k + 2 ≤ d.length → ((d.drop k).take 2).length = 2 := by
    intro k hk; rw [List.length_take, List.length_drop]; omega
  have hb2 : ∀ k, ∀ x ∈ (d.drop k).take 2, x < 256 := fun k x hx => hb x (List.mem_of_mem_drop (List.mem_of_mem_take hx))
  cases hsl : p.slots with
  | nil => rw [hsl] at e2; simp at e2; omega
  | cons s0 ss =>
    have hs0 := e3 s0 (by rw [hsl]; simp)
    unfold toBytes
    rw [hsl]
    simp only
    rw [← hsl, hs0.1, hs0.2.1, ← hgs, ← hss, hsp, hseed, be16_beToNat (l2 32 (by omega)) (hb2 32),
      be16_beToNat (l2 34 (by omega)) (hb2 34), be16_beToNat (l2 36 (by omega)) (hb2 36),
      be16_beToNat (l2 38 (by omega)) (hb2 38), ← hrest]
    congr 1
    conv_rhs => rw [header_join d, e1]
    simp only [List.append_assoc]

theorem readSlots_no_panic (g e k : ℕ) (d : Bytes) (w : String) : readSlots g e k d ≠ .panic w := by
  induction k generalizing d w with
  | zero => simp [readSlots]
  | succ k ih =>
    rw [readSlots]
    split
    · simp
    · split
      · simp
      · simp
      · rename_i w' hw; exact absurd hw (ih _ _)

theorem readScalars_no_panic (cp : CurveParams) (k : ℕ) (d : Bytes) (w : String) : readScalars cp k d ≠ .panic w := by
  induction k generalizing d w with
  | zero => simp [readScalars]
  | succ k ih =>
    rw [readScalars]
    split
    · simp
    · split
      · simp
      · split
        · simp
        · simp
        · rename_i w' hw; exact absurd hw (ih _ _)

/-- `from_bytes` never panics, whatever the bytes -/
theorem fromBytes_no_panic (cp : CurveParams) (d : Bytes) (w : String) : fromBytes cp d ≠ .panic w := by
  unfold fromBytes
  simp only
  split_ifs <;> try simp
  split
  · simp
  · rename_i w' hw; exact absurd hw (readSlots_no_panic _ _ _ _ _)
  · split
    · simp
    · rename_i w' hw; exact absurd hw (readScalars_no_panic _ _ _ _)
    · simp

end VerEnc

end SlVerif
