import SlVerif.Proofs.Gf128Reduce
import SlVerif.Model.Gf128Bytes
/-
  C19 helper lemmas, part 3: the literal byte-array model `Gf.mulBytes` computes, loop by loop,
  the little-endian byte representation of what the integer-level model `Gf.mul` computes.

  `Rep c n v` : the u8 array `c` is the `n`-byte little-endian representation of the integer `v`.
  Every statement of the byte model is shown to map `Rep _ _ v` to `Rep _ _ (G v)` where `G` is the
  corresponding step of the integer model.
-/
open Polynomial

namespace SlVerif.C19
open SlVerif SlVerif.Gf SlVerif.Generated

/-! ### bytes of an integer -/

theorem testBit_byteOf (N t r : ℕ) :
    (N / 2 ^ (8 * t) % 256).testBit r = (decide (r < 8) && N.testBit (8 * t + r)) := by
  have h : (256 : ℕ) = 2 ^ 8 := rfl
  rw [h, Nat.testBit_mod_two_pow, Nat.testBit_div_two_pow, Nat.add_comm]

theorem testBit_shl1_mod (x r : ℕ) :
    ((x <<< 1) % 256).testBit r = (decide (r < 8) && (decide (r ≥ 1) && x.testBit (r - 1))) := by
  have h : (256 : ℕ) = 2 ^ 8 := rfl
  rw [h, Nat.testBit_mod_two_pow, Nat.testBit_shiftLeft]

theorem byteOf_lt (N t : ℕ) : N / 2 ^ (8 * t) % 256 < 256 := Nat.mod_lt _ (by norm_num)

theorem testBit_byte_false {w r : ℕ} (hw : w < 256) (hr : 8 ≤ r) : w.testBit r = false :=
  testBit_false_of_lt_of_le (k := 8) hw hr

/-- `c` is the `n`-byte little-endian representation of `v` (reads beyond `n` give 0 on both sides) -/
def Rep (c : Array ℕ) (n v : ℕ) : Prop :=
  c.size = n ∧ v < 2 ^ (8 * n) ∧ ∀ t, rd c t = v / 2 ^ (8 * t) % 256

theorem rd_wr {c : Array ℕ} {i : ℕ} (hi : i < c.size) (x t : ℕ) :
    rd (wr c i x) t = if t = i then x else rd c t := by
  unfold rd wr
  by_cases h : t = i
  · subst h; simp [hi]
  · simp [h, Array.getElem?_setIfInBounds_ne (Ne.symm h)]

theorem rd_wr_ne (c : Array ℕ) {i t : ℕ} (x : ℕ) (h : t ≠ i) : rd (wr c i x) t = rd c t := by
  unfold rd wr
  simp [Array.getElem?_setIfInBounds_ne (Ne.symm h)]

theorem size_wr (c : Array ℕ) (i x : ℕ) : (wr c i x).size = c.size := by
  unfold wr; simp

theorem rd_xorAt_ne (c : Array ℕ) {i t : ℕ} (w : ℕ) (h : t ≠ i) : rd (xorAt c i w) t = rd c t :=
  rd_wr_ne c _ h

/-- `c[i] ^= w` is `v ^= w << 8i` -/
theorem Rep_xorAt {c : Array ℕ} {n v i w : ℕ} (hc : Rep c n v) (hi : i < n) (hw : w < 256) :
    Rep (xorAt c i w) n (v ^^^ (w <<< (8 * i))) := by
  obtain ⟨hs, hv, hrd⟩ := hc
  refine ⟨by rw [xorAt, size_wr, hs], ?_, ?_⟩
  · apply Nat.xor_lt_two_pow hv
    rw [Nat.shiftLeft_eq]
    calc w * 2 ^ (8 * i) < 2 ^ 8 * 2 ^ (8 * i) := Nat.mul_lt_mul_of_pos_right hw (Nat.two_pow_pos _)
      _ = 2 ^ (8 + 8 * i) := (pow_add 2 8 _).symm
      _ ≤ 2 ^ (8 * n) := Nat.pow_le_pow_right (by norm_num) (by omega)
  · intro t
    rw [xorAt, rd_wr (by rw [hs]; exact hi), hrd]
    apply Nat.eq_of_testBit_eq
    intro r
    rw [testBit_byteOf, Nat.testBit_xor, Nat.testBit_shiftLeft]
    by_cases hr : r < 8
    · by_cases ht : t = i
      · subst ht
        have h1 : 8 * t + r ≥ 8 * t := by omega
        have h2 : 8 * t + r - 8 * t = r := by omega
        rw [if_pos rfl, Nat.testBit_xor, testBit_byteOf, h2]
        simp [hr, h1]
      · rw [if_neg ht, hrd, testBit_byteOf]
        by_cases hlt : t < i
        · have h1 : ¬ (8 * t + r ≥ 8 * i) := by omega
          simp [hr, h1]
        · have h3 : w.testBit (8 * t + r - 8 * i) = false :=
            testBit_byte_false hw (by omega)
          simp [hr, h3]
    · have hr8 : 8 ≤ r := not_lt.mp hr
      by_cases ht : t = i
      · rw [if_pos ht, Nat.testBit_xor, testBit_byteOf, testBit_byte_false hw hr8]
        simp [hr]
      · rw [if_neg ht, hrd, testBit_byteOf]
        simp [hr]

/-- a fold of byte-level steps follows the fold of the corresponding integer-level steps -/
theorem Rep_foldl {Qp : ℕ → Prop} (F : Array ℕ → ℕ → Array ℕ) (G : ℕ → ℕ → ℕ) (N : ℕ)
    (h : ∀ i, Qp i → ∀ c v, Rep c N v → Rep (F c i) N (G v i)) :
    ∀ (L : List ℕ), (∀ i ∈ L, Qp i) → ∀ c v, Rep c N v → Rep (L.foldl F c) N (L.foldl G v) := by
  intro L
  induction L with
  | nil => intro _ c v hc; exact hc
  | cons x xs ih =>
    intro hL c v hc
    rw [List.foldl_cons, List.foldl_cons]
    exact ih (fun i hi => hL i (List.mem_cons_of_mem _ hi)) _ _
      (h x (hL x (by simp)) c v hc)

/-! ### byte lists ↔ integers -/

theorem getD_leToNat (l : List ℕ) (hl : ∀ x ∈ l, x < 256) (t : ℕ) :
    l.getD t 0 = leToNat l / 2 ^ (8 * t) % 256 := by
  induction l generalizing t with
  | nil => simp [leToNat]
  | cons b bs ih =>
    have hb : b < 256 := hl b (by simp)
    have hbs : ∀ x ∈ bs, x < 256 := fun x hx => hl x (List.mem_cons_of_mem _ hx)
    show (b :: bs).getD t 0 = (b + 256 * leToNat bs) / 2 ^ (8 * t) % 256
    cases t with
    | zero =>
      simp only [List.getD_cons_zero, Nat.mul_zero, Nat.pow_zero, Nat.div_one]
      omega
    | succ t =>
      have h1 : 2 ^ (8 * (t + 1)) = 256 * 2 ^ (8 * t) := by
        rw [show 8 * (t + 1) = 8 + 8 * t by ring, pow_add]; rfl
      have h2 : (b + 256 * leToNat bs) / 256 = leToNat bs := by omega
      rw [List.getD_cons_succ, ih hbs, h1, ← Nat.div_div_eq_div_mul, h2]

theorem leToNat_lt (l : List ℕ) (hl : ∀ x ∈ l, x < 256) : leToNat l < 2 ^ (8 * l.length) := by
  induction l with
  | nil => simp [leToNat]
  | cons b bs ih =>
    have hb : b < 256 := hl b (by simp)
    have := ih (fun x hx => hl x (List.mem_cons_of_mem _ hx))
    show b + 256 * leToNat bs < 2 ^ (8 * (bs.length + 1))
    have h1 : 2 ^ (8 * (bs.length + 1)) = 256 * 2 ^ (8 * bs.length) := by
      rw [show 8 * (bs.length + 1) = 8 + 8 * bs.length by ring, pow_add]; rfl
    rw [h1]
    generalize 2 ^ (8 * bs.length) = M at this ⊢
    have : 256 * (leToNat bs + 1) ≤ 256 * M := Nat.mul_le_mul_left _ this
    omega

theorem Rep_ofList (l : List ℕ) (hl : ∀ x ∈ l, x < 256) : Rep l.toArray l.length (leToNat l) := by
  refine ⟨by simp, leToNat_lt l hl, ?_⟩
  intro t
  rw [← getD_leToNat l hl t]
  simp [rd, List.getD]

theorem leToNat_append_zero (l : List ℕ) : leToNat (l ++ [0]) = leToNat l := by
  induction l with
  | nil => rfl
  | cons b bs ih =>
    show b + 256 * leToNat (bs ++ [0]) = b + 256 * leToNat bs
    rw [ih]

theorem getElem_natToLe (n v t : ℕ) (ht : t < (natToLe n v).length) :
    (natToLe n v)[t] = v / 2 ^ (8 * t) % 256 := by
  induction n generalizing v t with
  | zero => simp [natToLe] at ht
  | succ n ih =>
    cases t with
    | zero => simp [natToLe]
    | succ t =>
      have h1 : 2 ^ (8 * (t + 1)) = 256 * 2 ^ (8 * t) := by
        rw [show 8 * (t + 1) = 8 + 8 * t by ring, pow_add]; rfl
      simp only [natToLe, List.getElem_cons_succ]
      rw [ih, h1, Nat.div_div_eq_div_mul]

theorem leToNat_natToLe (n v : ℕ) : leToNat (natToLe n v) = v % 2 ^ (8 * n) := by
  induction n generalizing v with
  | zero => simp [natToLe, leToNat, Nat.mod_one]
  | succ n ih =>
    have h1 : 2 ^ (8 * (n + 1)) = 256 * 2 ^ (8 * n) := by
      rw [show 8 * (n + 1) = 8 + 8 * n by ring, pow_add]; rfl
    show v % 256 + 256 * leToNat (natToLe n (v / 256)) = _
    rw [ih, h1, Nat.mod_mul]

theorem natToLe_bytes (n v : ℕ) : ∀ x ∈ natToLe n v, x < 256 := by
  induction n generalizing v with
  | zero => simp [natToLe]
  | succ n ih =>
    intro x hx
    simp only [natToLe, List.mem_cons] at hx
    rcases hx with rfl | hx
    · exact Nat.mod_lt _ (by norm_num)
    · exact ih _ x hx

/-- reading off the result `c[..16]` -/
theorem take16_of_Rep {c : Array ℕ} {v : ℕ} (hc : Rep c 32 v) :
    c.toList.take 16 = natToLe 16 (v % 2 ^ 128) := by
  obtain ⟨hs, _, hrd⟩ := hc
  apply List.ext_getElem
  · simp [natToLe_length, hs]
  · intro t h1 h2
    have ht : t < 16 := by simpa [natToLe_length] using h2
    rw [getElem_natToLe, List.getElem_take]
    have h3 : c.toList[t]'(by simp [hs]; omega) = rd c t := by
      simp [rd, hs, show t < 32 by omega]
    rw [h3, hrd]
    apply Nat.eq_of_testBit_eq
    intro r
    rw [testBit_byteOf, testBit_byteOf, Nat.testBit_mod_two_pow]
    by_cases hr : r < 8
    · have : 8 * t + r < 128 := by omega
      simp [hr, this]
    · simp [hr]

/-! ### the polynomial of an integer, byte by byte -/

theorem toPoly_bytes (n m : ℕ) :
    toPoly (n % 2 ^ (8 * m))
      = ∑ i ∈ Finset.range m, X ^ (8 * i) * toPoly (n / 2 ^ (8 * i) % 256) := by
  induction m with
  | zero => simp [Nat.mod_one, toPoly_zero]
  | succ m ih =>
    have h1 : 2 ^ (8 * (m + 1)) = 2 ^ (8 * m) * 256 := by
      rw [show 8 * (m + 1) = 8 * m + 8 by ring, pow_add]; rfl
    rw [h1, Nat.mod_mul, Nat.add_comm,
      toPoly_two_pow_mul_add _ (Nat.mod_lt _ (Nat.two_pow_pos _)), ih, Finset.sum_range_succ]

/-! ### first loop nest -/

/-- integer-level effect of `for i in 0..T+1 { c[j+i] ^= b[i] & mask }` -/
theorem combRow_val (vb j v mask : ℕ) (hvb : vb < 2 ^ (8 * 17)) (hm : mask = 0 ∨ mask = 255) :
    (List.range 17).foldl
        (fun v i => v ^^^ (((vb / 2 ^ (8 * i) % 256) &&& mask) <<< (8 * (j + i)))) v
      = if mask = 255 then v ^^^ (vb <<< (8 * j)) else v := by
  apply toPoly_injective
  rw [toPoly_foldl_range _
    (fun i => toPoly (((vb / 2 ^ (8 * i) % 256) &&& mask) <<< (8 * (j + i))))
    (fun c k => toPoly_xor _ _)]
  rcases hm with rfl | rfl
  · simp [toPoly_zero]
  · have hand : ∀ x, x % 256 &&& 255 = x % 256 := by
      intro x
      have := Nat.and_two_pow_sub_one_eq_mod (x % 256) 8
      rw [this]; exact Nat.mod_mod _ _
    rw [if_pos rfl, toPoly_xor, toPoly_shiftLeft]
    conv_rhs => rw [← Nat.mod_eq_of_lt hvb, toPoly_bytes, Finset.mul_sum]
    rw [add_right_inj]
    apply Finset.sum_congr rfl
    intro i _
    rw [hand, toPoly_shiftLeft, Nat.mul_add, pow_add, mul_assoc]

theorem Rep_combRow {b c : Array ℕ} {vb v j mask : ℕ} (hb : Rep b 17 vb) (hc : Rep c 32 v)
    (hj : j < 16) (hm : mask = 0 ∨ mask = 255) :
    Rep (combRow b mask j c) 32 (if mask = 255 then v ^^^ (vb <<< (8 * j)) else v) := by
  rw [← combRow_val vb j v mask hb.2.1 hm]
  show Rep ((List.range 17).foldl (fun c i => xorAt c (j + i) (rd b i &&& mask)) c) 32 _
  refine Rep_foldl (Qp := fun i => i < 17)
    (fun c i => xorAt c (j + i) (rd b i &&& mask))
    (fun v i => v ^^^ (((vb / 2 ^ (8 * i) % 256) &&& mask) <<< (8 * (j + i)))) 32 ?_
    (List.range 17) (fun i hi => List.mem_range.mp hi) c v hc
  intro i hi c v hc
  have hrd := hb.2.2 i
  show Rep _ 32 (v ^^^ (((vb / 2 ^ (8 * i) % 256) &&& mask) <<< (8 * (j + i))))
  rw [← hrd]
  exact Rep_xorAt hc (by omega)
    (lt_of_le_of_lt Nat.and_le_left (by rw [hrd]; exact byteOf_lt _ _))

theorem maskOf_eq {a : Array ℕ} {A : ℕ} (ha : Rep a 16 A) (j k : ℕ) (hk : k < 8) :
    maskOf a j k = if A.testBit (8 * j + k) then 255 else 0 := by
  unfold maskOf
  have h1 : A.testBit (8 * j + k) = decide (rd a j / 2 ^ k % 2 = 1) := by
    rw [← Nat.testBit_eq_decide_div_mod_eq, ha.2.2, testBit_byteOf]
    simp [hk]
  rw [h1, Nat.and_one_is_mod, Nat.shiftRight_eq_div_pow]
  rcases Nat.mod_two_eq_zero_or_one (rd a j / 2 ^ k) with h | h <;> simp [h]

/-- integer-level body of the `j` loop, as in `Gf.clmulComb` -/
theorem Rep_combCol {a b c : Array ℕ} {A vb v k : ℕ} (ha : Rep a 16 A) (hb : Rep b 17 vb)
    (hk : k < 8) (hc : Rep c 32 v) :
    Rep (combCol a b k c) 32
      ((List.range 16).foldl
        (fun c j => if A.testBit (8 * j + k) then c ^^^ (vb <<< (8 * j)) else c) v) := by
  show Rep ((List.range 16).foldl (fun c j => combRow b (maskOf a j k) j c) c) 32 _
  refine Rep_foldl (Qp := fun j => j < 16)
    (fun c j => combRow b (maskOf a j k) j c)
    (fun c j => if A.testBit (8 * j + k) then c ^^^ (vb <<< (8 * j)) else c) 32 ?_
    (List.range 16) (fun i hi => List.mem_range.mp hi) c v hc
  intro j hj c v hc
  have hm : maskOf a j k = 0 ∨ maskOf a j k = 255 := by
    rw [maskOf_eq ha j k hk]; by_cases h : A.testBit (8 * j + k) <;> simp [h]
  have hme := maskOf_eq ha j k hk
  have := Rep_combRow (mask := maskOf a j k) hb hc hj hm
  show Rep _ 32 (if A.testBit (8 * j + k) then v ^^^ (vb <<< (8 * j)) else v)
  by_cases h : A.testBit (8 * j + k)
  · rw [if_pos h] at hme ⊢
    rw [if_pos hme] at this
    exact this
  · rw [if_neg h] at hme ⊢
    rw [if_neg (by rw [hme]; decide)] at this
    exact this

/-! ### `b <<= 1` on the 17-byte array -/

theorem shl_loop (n : ℕ) (hn : n ≤ 16) (b : Array ℕ) (hs : b.size = 17) :
    ((List.range' 1 n).reverse.foldl
        (fun b i => wr b i (((rd b i <<< 1) % 256) ||| (rd b (i - 1) >>> 7))) b).size = 17 ∧
    ∀ t, rd ((List.range' 1 n).reverse.foldl
        (fun b i => wr b i (((rd b i <<< 1) % 256) ||| (rd b (i - 1) >>> 7))) b) t
      = if 1 ≤ t ∧ t ≤ n then ((rd b t <<< 1) % 256) ||| (rd b (t - 1) >>> 7) else rd b t := by
  induction n generalizing b with
  | zero =>
    simp only [List.range'_zero, List.reverse_nil, List.foldl_nil]
    refine ⟨hs, fun t => ?_⟩
    have : ¬ (1 ≤ t ∧ t ≤ 0) := by omega
    rw [if_neg this]
  | succ n ih =>
    rw [List.range'_concat, List.reverse_append, List.reverse_singleton, List.singleton_append,
      List.foldl_cons, Nat.one_mul]
    have hsz : (wr b (1 + n) (((rd b (1 + n) <<< 1) % 256) ||| (rd b (1 + n - 1) >>> 7))).size = 17 := by
      rw [size_wr, hs]
    obtain ⟨h1, h2⟩ := ih (by omega) _ hsz
    refine ⟨h1, fun t => ?_⟩
    rw [h2]
    have hin : 1 + n < b.size := by omega
    by_cases ht : 1 ≤ t ∧ t ≤ n
    · have ht' : 1 ≤ t ∧ t ≤ n + 1 := by omega
      rw [if_pos ht, if_pos ht', rd_wr_ne _ _ (by omega), rd_wr_ne _ _ (by omega)]
    · rw [if_neg ht]
      by_cases ht1 : t = 1 + n
      · have ht' : 1 ≤ t ∧ t ≤ n + 1 := by omega
        rw [if_pos ht', rd_wr hin, if_pos ht1, ht1]
      · have ht' : ¬ (1 ≤ t ∧ t ≤ n + 1) := by omega
        rw [if_neg ht', rd_wr_ne _ _ ht1]

/-- the byte-wise shift with carry is `<< 1` on the 136-bit integer -/
theorem Rep_shlB {b : Array ℕ} {vb : ℕ} (hb : Rep b 17 vb) :
    Rep (shlB b) 17 ((vb <<< 1) % 2 ^ (8 * 17)) := by
  obtain ⟨hs, hv, hrd⟩ := hb
  obtain ⟨h1, h2⟩ := shl_loop 16 (le_refl _) b hs
  unfold shlB
  simp only [show GF_T = 16 from rfl]
  refine ⟨by rw [size_wr, h1], Nat.mod_lt _ (Nat.two_pow_pos _), ?_⟩
  intro t
  rw [rd_wr (by rw [h1]; norm_num), h2, h2]
  have h0 : ¬ (1 ≤ 0 ∧ 0 ≤ 16) := by omega
  rw [if_neg h0]
  apply Nat.eq_of_testBit_eq
  intro r
  rw [testBit_byteOf, Nat.testBit_mod_two_pow, Nat.testBit_shiftLeft]
  by_cases hr : r < 8
  · by_cases ht0 : t = 0
    · subst ht0
      rw [if_pos rfl, testBit_shl1_mod, hrd, testBit_byteOf]
      by_cases hr0 : r = 0
      · subst hr0; simp
      · have e1 : r - 1 < 8 := by omega
        have e2 : r < 136 := by omega
        have e3 : 1 ≤ r := by omega
        simp [hr, e1, e2, e3]
    · rw [if_neg ht0]
      by_cases ht : 1 ≤ t ∧ t ≤ 16
      · rw [if_pos ht, Nat.testBit_or, testBit_shl1_mod, Nat.testBit_shiftRight, hrd, hrd,
          testBit_byteOf, testBit_byteOf]
        have e2 : 8 * t + r < 136 := by omega
        have e3 : 1 ≤ 8 * t + r := by omega
        by_cases hr0 : r = 0
        · subst hr0
          have e4 : 8 * t - 1 = 8 * (t - 1) + 7 := by omega
          have e2' : 8 * t < 136 := by omega
          have e3' : 1 ≤ 8 * t := by omega
          simp [e2', e3', e4]
        · have e1 : r - 1 < 8 := by omega
          have e5 : 1 ≤ r := by omega
          have e6 : ¬ (7 + r < 8) := by omega
          have e4 : 8 * t + r - 1 = 8 * t + (r - 1) := by omega
          simp [hr, e1, e2, e3, e4, e5, e6]
      · rw [if_neg ht, hrd, testBit_byteOf]
        have e2 : ¬ (8 * t + r < 8 * 17) := by omega
        have e7 : vb.testBit (8 * t + r) = false := testBit_false_of_lt_of_le hv (by omega)
        simp [e2, e7]
  · have hr8 : 8 ≤ r := not_lt.mp hr
    have hbyte : ∀ x, x < 256 → x.testBit r = false := fun x hx => testBit_byte_false hx hr8
    have hlhs : (if t = 0 then (rd b 0 <<< 1) % 256
        else if 1 ≤ t ∧ t ≤ 16 then (rd b t <<< 1) % 256 ||| rd b (t - 1) >>> 7 else rd b t) < 256 := by
      have hm : ∀ x : ℕ, x % 256 < 2 ^ 8 := fun x => Nat.mod_lt _ (by norm_num)
      split
      · exact hm _
      · split
        · apply Nat.or_lt_two_pow (n := 8) (hm _)
          exact lt_of_le_of_lt (Nat.shiftRight_le _ _) (by rw [hrd]; exact byteOf_lt _ _)
        · rw [hrd]; exact byteOf_lt _ _
    rw [hbyte _ hlhs]
    simp [hr]

/-- the whole first loop nest computes the representation of `Gf.clmulComb` -/
theorem Rep_combLoop {a : Array ℕ} {A B : ℕ} (ha : Rep a 16 A) (hB : B < 2 ^ 128)
    (c0 b0 : Array ℕ) (hc0 : Rep c0 32 0) (hb0 : Rep b0 17 B) (n : ℕ) (hn : n ≤ 8) :
    Rep ((List.range n).foldl
          (fun (cb : Array ℕ × Array ℕ) k => (combCol a cb.2 k cb.1, shlB cb.2)) (c0, b0)).1 32
        ((List.range n).foldl (fun c k => (List.range 16).foldl
          (fun c j => if A.testBit (8 * j + k) then c ^^^ ((B <<< k) <<< (8 * j)) else c) c) 0)
    ∧ Rep ((List.range n).foldl
          (fun (cb : Array ℕ × Array ℕ) k => (combCol a cb.2 k cb.1, shlB cb.2)) (c0, b0)).2 17
        (B <<< n) := by
  induction n with
  | zero => exact ⟨hc0, hb0⟩
  | succ n ih =>
    obtain ⟨ihc, ihb⟩ := ih (by omega)
    rw [List.range_succ, List.foldl_append, List.foldl_append]
    simp only [List.foldl_cons, List.foldl_nil]
    refine ⟨Rep_combCol ha ihb (by omega) ihc, ?_⟩
    have := Rep_shlB ihb
    rw [← Nat.shiftLeft_add, Nat.mod_eq_of_lt] at this
    · exact this
    · rw [Nat.shiftLeft_eq]
      calc B * 2 ^ (n + 1) < 2 ^ 128 * 2 ^ (n + 1) :=
            Nat.mul_lt_mul_of_pos_right hB (Nat.two_pow_pos _)
        _ = 2 ^ (128 + (n + 1)) := (pow_add 2 128 _).symm
        _ ≤ 2 ^ (8 * 17) := Nat.pow_le_pow_right (by norm_num) (by omega)

theorem Rep_replicate_zero (n : ℕ) : Rep (Array.replicate n 0) n 0 := by
  refine ⟨by simp, Nat.two_pow_pos _, fun t => ?_⟩
  simp only [rd, Nat.zero_div, Nat.zero_mod, Array.getD_eq_getD_getElem?, Array.getElem?_replicate]
  by_cases h : t < n <;> simp [h]

theorem clmulComb_eq (A B : ℕ) :
    clmulComb GF_W GF_T A B
      = (List.range 8).foldl (fun c k => (List.range 16).foldl
          (fun c j => if A.testBit (8 * j + k) then c ^^^ ((B <<< k) <<< (8 * j)) else c) c) 0 := rfl

theorem Rep_combBytes (a b : Bytes) (ha : a.length = 16) (hb : b.length = 16)
    (hab : ∀ x ∈ a ++ b, x < 256) :
    Rep (combBytes a b) 32 (clmulComb GF_W GF_T (leToNat a) (leToNat b)) := by
  have hba : ∀ x ∈ a, x < 256 := fun x hx => hab x (List.mem_append_left _ hx)
  have hbb : ∀ x ∈ b, x < 256 := fun x hx => hab x (List.mem_append_right _ hx)
  have hA : Rep a.toArray 16 (leToNat a) := ha ▸ Rep_ofList a hba
  have hB' : Rep (b ++ [0]).toArray 17 (leToNat b) := by
    have := Rep_ofList (b ++ [0]) (by
      intro x hx
      rcases List.mem_append.mp hx with h | h
      · exact hbb x h
      · simp at h; omega)
    rwa [leToNat_append_zero, List.length_append, hb] at this
  have hBlt : leToNat b < 2 ^ 128 := by
    have := leToNat_lt b hbb; rwa [hb] at this
  rw [clmulComb_eq]
  exact (Rep_combLoop hA hBlt _ _ (Rep_replicate_zero 32) hB' 8 (le_refl _)).1

/-! ### second loop -/

theorem foldBytes_eq (c : Array ℕ) (i : ℕ) :
    foldBytes c i =
      (let c1 := xorAt c (i - 16) ((rd c i <<< 0) % 256)
       let c2 := xorAt c1 (i - 16) ((rd c1 i <<< 1) % 256)
       let c3 := xorAt c2 (i - 15) (rd c2 i >>> 7)
       let c4 := xorAt c3 (i - 16) ((rd c3 i <<< 2) % 256)
       let c5 := xorAt c4 (i - 15) (rd c4 i >>> 6)
       let c6 := xorAt c5 (i - 16) ((rd c5 i <<< 7) % 256)
       xorAt c6 (i - 15) (rd c6 i >>> 1)) := rfl

/-- the seven u8 statements are `foldByte` on the integer -/
theorem Rep_foldBytes {c : Array ℕ} {v i : ℕ} (hc : Rep c 32 v) (hi : 16 ≤ i) (hi' : i < 32) :
    Rep (foldBytes c i) 32 (foldByte v i) := by
  have n16 : i ≠ i - 16 := by omega
  have n15 : i ≠ i - 15 := by omega
  have hrdi : rd c i = v / 2 ^ (8 * i) % 256 := hc.2.2 i
  -- the byte `c[i]` is not written by any of the seven statements
  have hfb : foldBytes c i = _ := foldBytes_eq c i
  simp only [rd_xorAt_ne _ _ n16, rd_xorAt_ne _ _ n15, hrdi] at hfb
  rw [hfb]
  generalize hy : v / 2 ^ (8 * i) % 256 = y
  have hy256 : y < 256 := by rw [← hy]; exact byteOf_lt _ _
  have hlo : ∀ s, (y <<< s) % 256 < 256 := fun s => Nat.mod_lt _ (by norm_num)
  have hhi : ∀ s, y >>> s < 256 := fun s => lt_of_le_of_lt (Nat.shiftRight_le _ _) hy256
  have step16 : ∀ {c : Array ℕ} {v : ℕ} (s : ℕ), Rep c 32 v →
      Rep (xorAt c (i - 16) ((y <<< s) % 256)) 32 (v ^^^ (((y <<< s) % 256) <<< (8 * (i - 16)))) :=
    fun s h => Rep_xorAt h (by omega) (hlo s)
  have step15 : ∀ {c : Array ℕ} {v : ℕ} (s : ℕ), Rep c 32 v →
      Rep (xorAt c (i - 15) (y >>> s)) 32 (v ^^^ ((y >>> s) <<< (8 * (i - 15)))) :=
    fun s h => Rep_xorAt h (by omega) (hhi s)
  have key := step15 1 (step16 7 (step15 6 (step16 2 (step15 7 (step16 1 (step16 0 hc))))))
  have hand : ∀ x : ℕ, x &&& 0xff = x % 256 := fun x => Nat.and_two_pow_sub_one_eq_mod x 8
  have hval : foldByte v i
      = v ^^^ (((y <<< 0) % 256) <<< (8 * (i - 16))) ^^^ (((y <<< 1) % 256) <<< (8 * (i - 16)))
          ^^^ ((y >>> 7) <<< (8 * (i - 15))) ^^^ (((y <<< 2) % 256) <<< (8 * (i - 16)))
          ^^^ ((y >>> 6) <<< (8 * (i - 15))) ^^^ (((y <<< 7) % 256) <<< (8 * (i - 16)))
          ^^^ ((y >>> 1) <<< (8 * (i - 15))) := by
    have hy' : v / 2 ^ (8 * i) % 2 ^ 8 = y := hy
    rw [foldByte_eq, byte_eq, hy']
    simp only [tapLo, tapHi, GF_TAPS_LOW, GF_TAPS_HIGH, List.foldl_cons, List.foldl_nil, hand,
      Nat.shiftLeft_xor_distrib, Nat.zero_xor]
    ac_rfl
  rw [hval]
  exact key

/-- the whole second loop is the fold of `Gf.reduce` -/
theorem Rep_reduceBytes {c : Array ℕ} {v : ℕ} (hc : Rep c 32 v) :
    Rep (reduceBytes c) 32 ((List.range' 16 16).reverse.foldl foldByte v) := by
  refine Rep_foldl (Qp := fun i => 16 ≤ i ∧ i < 32) _ _ 32 ?_ _ ?_ c v hc
  · intro i hi c v hc
    exact Rep_foldBytes hc hi.1 hi.2
  · intro i hi
    have := List.mem_range'_1.mp (List.mem_reverse.mp hi)
    show 16 ≤ i ∧ i < 32
    have h16 : GF_T = 16 := rfl
    omega

/-! ### the byte model is the integer model -/

theorem mulBytes_eq_natToLe (a b : Bytes) (ha : a.length = 16) (hb : b.length = 16)
    (hab : ∀ x ∈ a ++ b, x < 256) :
    mulBytes a b = natToLe 16 (Gf.mul (leToNat a) (leToNat b)) := by
  unfold mulBytes
  rw [take16_of_Rep (Rep_reduceBytes (Rep_combBytes a b ha hb hab))]
  rfl

end SlVerif.C19
