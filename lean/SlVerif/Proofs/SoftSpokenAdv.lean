import SlVerif.Proofs.SoftSpokenRun
/-
  C04 helper lemmas: the re-deriving adversarial receiver `advReceiver` against the sender's check.
-/
namespace SlVerif.SoftSpoken
open SlVerif SlVerif.Generated

variable (h : Query → Id Bytes) (sid : Bytes)

/-- the matrix U sent by the adversary -/
def advU (enc : List (List Bytes)) (ch : Bytes) (tape : Tape) (dev : ℕ → ℕ) : List ℕ :=
  (List.range LAMBDA_C_DIV_SOFT_SPOKEN_K).map fun i =>
    recvU (at2 (expR h sid enc) i) ((extChoices ch tape).1 ^^^ dev i)

theorem advReceiver_u (enc : List (List Bytes)) (ch : Bytes) (tape : Tape) (dev guess : ℕ → ℕ) :
    (advReceiver (m := Id) h sid enc ch tape dev guess).u = advU h sid enc ch tape dev := by
  rw [advReceiver_id]; rfl

theorem xor_cancel_iff (A X E G : ℕ) : A ^^^ (X ^^^ E) = A ^^^ G ^^^ X ↔ E = G := by
  rw [Nat.xor_assoc, xor_right_inj', Nat.xor_comm G X, xor_right_inj']

theorem advReceiver_x (enc : List (List Bytes)) (ch : Bytes) (tape : Tape) (dev guess : ℕ → ℕ) :
    (advReceiver (m := Id) h sid enc ch tape dev guess).x
      = checkRow (chiP h sid (advU h sid enc ch tape dev)) (extChoices ch tape).1 := by
  rw [advReceiver_id]; rfl

theorem advReceiver_t_getD (enc : List (List Bytes)) (ch : Bytes) (tape : Tape) (dev guess : ℕ → ℕ) (k : ℕ)
    (hk : k < LAMBDA_C) :
    (advReceiver (m := Id) h sid enc ch tape dev guess).t.getD k 0
      = checkRow (chiP h sid (advU h sid enc ch tape dev)) ((recvVRows (expR h sid enc)).getD k 0) ^^^
          mask ((guess (k / SOFT_SPOKEN_K)).testBit (k % SOFT_SPOKEN_K))
            (checkRow (chiP h sid (advU h sid enc ch tape dev)) (dev (k / SOFT_SPOKEN_K))) := by
  rw [advReceiver_id]
  simp only []
  rw [getD_map_range, if_pos hk]
  rfl

/-- the sender's row check on the adversary's message, row by row -/
theorem adv_row_check (rc : List ℕ) (enc dec : List (List Bytes)) (hk : SeedsOk rc enc dec) (ch : Bytes) (tape : Tape)
    (dev guess : ℕ → ℕ) (k : ℕ) (hk' : k < LAMBDA_C) :
    (checkRow (chiP h sid (advU h sid enc ch tape dev))
          ((sendWRows (expS h sid rc dec) rc (advU h sid enc ch tape dev)).getD k 0)
        = (advReceiver (m := Id) h sid enc ch tape dev guess).t.getD k 0 ^^^
            mask ((packedNabla rc).testBit k) (advReceiver (m := Id) h sid enc ch tape dev guess).x) ↔
      mask ((rc.getD (k / SOFT_SPOKEN_K) 0).testBit (k % SOFT_SPOKEN_K))
          (checkRow (chiP h sid (advU h sid enc ch tape dev)) (dev (k / SOFT_SPOKEN_K)))
        = mask ((guess (k / SOFT_SPOKEN_K)).testBit (k % SOFT_SPOKEN_K))
          (checkRow (chiP h sid (advU h sid enc ch tape dev)) (dev (k / SOFT_SPOKEN_K))) := by
  have hchiok : ChiOk (chiP h sid (advU h sid enc ch tape dev)) := chiP_ok h sid _
  have hrow := sendWRows_getD h sid rc enc dec hk (advU h sid enc ch tape dev)
    (fun i => (extChoices ch tape).1 ^^^ dev i)
    (fun i hi => by rw [advU, getD_map_range, if_pos hi]) k hk'
  rw [hrow, checkRow_W _ hchiok, checkRow_xor _ hchiok, advReceiver_x, advReceiver_t_getD h sid enc ch tape dev guess k hk',
    mask_xor, xor_cancel_iff, packedNabla_testBit]
  simp only [hk', decide_true, Bool.true_and]

/-- **selective failure, exact**: the adversary's message is accepted iff in every block the deviation has check
    value 0 or the guess of the punctured index is right (modulo Q: only the K low bits of either are ever read) -/
theorem adv_accept_iff (rc : List ℕ) (enc dec : List (List Bytes)) (hk : SeedsOk rc enc dec) (ch : Bytes)
    (tape : Tape) (dev guess : ℕ → ℕ) :
    (∃ so, senderProcess (m := Id) h sid rc dec (advReceiver (m := Id) h sid enc ch tape dev guess) = .ok so) ↔
      ∀ i < LAMBDA_C_DIV_SOFT_SPOKEN_K,
        checkRow (chiP h sid (advU h sid enc ch tape dev)) (dev i) = 0 ∨
          rc.getD i 0 % SOFT_SPOKEN_Q = guess i % SOFT_SPOKEN_Q := by
  rw [senderProcess_ok_iff, advReceiver_u]
  set chi := chiP h sid (advU h sid enc ch tape dev) with hchi
  have h1 : (∀ k < LAMBDA_C, checkRow chi ((sendWRows (expS h sid rc dec) rc (advU h sid enc ch tape dev)).getD k 0)
        = (advReceiver (m := Id) h sid enc ch tape dev guess).t.getD k 0 ^^^
            mask ((packedNabla rc).testBit k) (advReceiver (m := Id) h sid enc ch tape dev guess).x) ↔
      ∀ k < LAMBDA_C, (fun i b => mask ((rc.getD i 0).testBit b) (checkRow chi (dev i))
        = mask ((guess i).testBit b) (checkRow chi (dev i))) (k / SOFT_SPOKEN_K) (k % SOFT_SPOKEN_K) := by
    constructor
    · intro hall k hk'
      exact (adv_row_check h sid rc enc dec hk ch tape dev guess k hk').mp (hall k hk')
    · intro hall k hk'
      exact (adv_row_check h sid rc enc dec hk ch tape dev guess k hk').mpr (hall k hk')
  refine h1.trans ((forall_rows_iff (fun i b => mask ((rc.getD i 0).testBit b) (checkRow chi (dev i))
        = mask ((guess i).testBit b) (checkRow chi (dev i)))).trans ?_)
  constructor
  · intro hall i hi
    by_cases hE : checkRow chi (dev i) = 0
    · exact Or.inl hE
    · right
      rw [← low_bits_eq_iff]
      intro b hb
      have := (mask_eq_mask_iff _ _ _).mp (hall i hi b hb)
      exact this.resolve_left hE
  · intro hall i hi b hb
    rw [mask_eq_mask_iff]
    rcases hall i hi with hE | hg
    · exact Or.inl hE
    · exact Or.inr ((low_bits_eq_iff _ _).mpr hg b hb)

/-- without deviation the adversary's message IS the honest message (whatever the guesses) -/
theorem advReceiver_zero (enc : List (List Bytes)) (ch : Bytes) (tape : Tape) (guess : ℕ → ℕ) :
    advReceiver (m := Id) h sid enc ch tape (fun _ => 0) guess
      = (receiverProcess (m := Id) h sid enc ch tape).1 := by
  rw [advReceiver_id, receiverProcess_id]
  simp only [Nat.xor_zero]
  set u := (List.range LAMBDA_C_DIV_SOFT_SPOKEN_K).map fun i =>
    recvU (at2 (expR h sid enc) i) (extChoices ch tape).1
  have hchiok : ChiOk (chiP h sid u) := chiP_ok h sid u
  congr 1
  rw [checkRow_zero _ hchiok]
  simp only [mask_zero, Nat.xor_zero]
  unfold recvVRows
  rw [List.map_map]
  apply List.map_congr_left
  intro k hk
  rw [getD_map_range, if_pos (List.mem_range.mp hk)]
  rfl

/-- an honest first-round message is accepted (every oracle, session, choice vector, tape, seed sets in the
    all-but-one relation) and the sender's outputs are `senderOut` of its matrix W -/
theorem honest_accept (rc : List ℕ) (enc dec : List (List Bytes)) (hk : SeedsOk rc enc dec) (ch : Bytes)
    (tape : Tape) :
    ∃ so, senderProcess (m := Id) h sid rc dec (receiverProcess (m := Id) h sid enc ch tape).1 = .ok so := by
  rw [← advReceiver_zero h sid enc ch tape (fun _ => 0), adv_accept_iff h sid rc enc dec hk]
  intro i _
  exact Or.inl (checkRow_zero _ (chiP_ok h sid _))

/-- if every deviating block either is not a deviation or has punctured index ≡ 0, the sender's matrix W — hence its
    outputs — is the one of the honest run -/
theorem adv_W_eq_honest (rc : List ℕ) (enc dec : List (List Bytes)) (hk : SeedsOk rc enc dec) (ch : Bytes)
    (tape : Tape) (dev : ℕ → ℕ)
    (hdev : ∀ i < LAMBDA_C_DIV_SOFT_SPOKEN_K, dev i = 0 ∨ rc.getD i 0 % SOFT_SPOKEN_Q = 0) :
    sendWRows (expS h sid rc dec) rc (advU h sid enc ch tape dev)
      = sendWRows (expS h sid rc dec) rc (advU h sid enc ch tape fun _ => 0) := by
  apply sendWRows_ext
  intro k hk'
  rw [sendWRows_getD h sid rc enc dec hk _ (fun i => (extChoices ch tape).1 ^^^ dev i)
      (fun i hi => by rw [advU, getD_map_range, if_pos hi]) k hk',
    sendWRows_getD h sid rc enc dec hk _ (fun i => (extChoices ch tape).1 ^^^ (fun _ => 0) i)
      (fun i hi => by rw [advU, getD_map_range, if_pos hi]) k hk']
  rcases hdev _ (div_K_lt k hk') with h0 | h0
  · simp only [h0]
  · have hbit : (packedNabla rc).testBit k = false := by
      rw [packedNabla_testBit]
      have hK : k % SOFT_SPOKEN_K < SOFT_SPOKEN_K := Nat.mod_lt _ (by decide)
      have := (low_bits_eq_iff (rc.getD (k / SOFT_SPOKEN_K) 0) 0).mpr (by rw [h0]; rfl) _ hK
      rw [this]; simp
    rw [hbit, mask_false, mask_false]

end SlVerif.SoftSpoken
