import SlVerif.Proofs.PprfTamper
/-
  C06 helper lemmas, part 6: how a difference between two receiver states propagates through the levels
  (used-word tampering at any level; where an evaluation is guaranteed to be honest).
-/
namespace SlVerif.Pprf
open SlVerif

variable (h : Query → Bytes) (sid : Bytes)

/-- the tree PRG has no collision on LAMBDA_C_BYTES-long seeds (a 32-byte → 64-byte function) -/
def PrgNoCollision : Prop :=
  ∀ a b : Bytes, a.length = KB → b.length = KB → G h sid a = G h sid b → a = b

theorem stepR_getElem?_other (c : Nat) (w : Bytes × Bytes) (dkv : Bytes) (Y : Nat) (S : List Bytes) (z p : Nat)
    (hc : c ≤ 1) (hp : p ≤ 1) (hz : z ≠ Y) (hzl : z < S.length) :
    (stepR h sid c w dkv Y S)[2 * z + p]? = some (sel p (G h sid (S.getD z []))) := by
  unfold stepR
  rw [List.getElem?_set, if_neg (by omega), interleave_getElem?, maskAt_length, List.length_map, if_pos (by omega)]
  have h1 : (2 * z + p) % 2 = p := by omega
  have h2 : (2 * z + p) / 2 = z := by omega
  rw [h1, h2, List.getD_eq_getElem?_getD, maskAt_getElem?, List.getElem?_map, List.getElem?_eq_getElem hzl]
  simp [hz, List.getD_eq_getElem?_getD, List.getElem?_eq_getElem hzl]

theorem evalLevels_lt (bit : Nat → Nat) (dk : Nat → Bytes) :
    ∀ (is : List Nat) (ws : List (Bytes × Bytes)) (Y : Nat) (S : List Bytes),
      (∀ i ∈ is, bit i ≤ 1) → Y < S.length →
      (evalLevels (m := Id) h sid bit dk is ws Y S).1 < (evalLevels (m := Id) h sid bit dk is ws Y S).2.length := by
  intro is
  induction is with
  | nil => intro ws Y S _ hY; exact hY
  | cons i is ih =>
    intro ws Y S hb hY
    rw [evalLevels_cons]
    apply ih _ _ _ (fun j hj => hb j (by simp [hj]))
    rw [stepR_length]
    have := (xor_one_le _ (hb i (by simp))).1
    omega

theorem evalLevels_append (bit : Nat → Nat) (dk : Nat → Bytes) :
    ∀ (is js : List Nat) (ws : List (Bytes × Bytes)) (Y : Nat) (S : List Bytes),
      evalLevels (m := Id) h sid bit dk (is ++ js) ws Y S =
        evalLevels (m := Id) h sid bit dk js (ws.drop is.length)
          (evalLevels (m := Id) h sid bit dk is ws Y S).1 (evalLevels (m := Id) h sid bit dk is ws Y S).2 := by
  intro is
  induction is with
  | nil => intro js ws Y S; rfl
  | cons i is ih =>
    intro js ws Y S
    rw [List.cons_append, evalLevels_cons, evalLevels_cons, ih]
    congr 1
    cases ws <;> simp

theorem fold_div (bit : Nat → Nat) : ∀ (is : List Nat) (y : Nat), (∀ i ∈ is, bit i ≤ 1) →
    (is.foldl (fun acc i => 2 * acc + (1 ^^^ bit i)) y) / 2 ^ is.length = y := by
  intro is
  induction is with
  | nil => intro y _; simp
  | cons i is ih =>
    intro y hb
    rw [List.foldl_cons, List.length_cons, Nat.pow_succ, Nat.mul_comm, ← Nat.div_div_eq_div_mul,
      ih _ (fun j hj => hb j (by simp [hj]))]
    have := (xor_one_le _ (hb i (by simp))).1
    omega

/-- a differing node off the punctured path stays visible: below it there is a differing node at every later level -/
theorem diverge_propagates (hG : PrgNoCollision h sid) (bit : Nat → Nat) (dk : Nat → Bytes) :
    ∀ (is : List Nat) (ws : List (Bytes × Bytes)) (Y : Nat) (S S' : List Bytes) (z : Nat) (a b : Bytes),
      (∀ i ∈ is, bit i ≤ 1) → Y < S.length → S'.length = S.length → z ≠ Y →
      S[z]? = some a → S'[z]? = some b → a ≠ b → a.length = KB → b.length = KB →
      ∃ z' a' b', z' ≠ (evalLevels (m := Id) h sid bit dk is ws Y S).1 ∧
        (evalLevels (m := Id) h sid bit dk is ws Y S).2[z']? = some a' ∧
        (evalLevels (m := Id) h sid bit dk is ws Y S').2[z']? = some b' ∧ a' ≠ b' ∧
        a'.length = KB ∧ b'.length = KB ∧ z' / 2 ^ is.length = z := by
  intro is
  induction is with
  | nil =>
    intro ws Y S S' z a b _ _ _ hz ha hb hne hla hlb
    exact ⟨z, a, b, hz, ha, hb, hne, hla, hlb, by simp⟩
  | cons i is ih =>
    intro ws Y S S' z a b hbits hY hlen hz ha hb hne hla hlb
    have hbi := hbits i (by simp)
    have hx := (xor_one_le _ hbi).1
    have hzl : z < S.length := by
      rcases Nat.lt_or_ge z S.length with h1 | h1
      · exact h1
      · rw [List.getElem?_eq_none h1] at ha; cases ha
    have hzl' : z < S'.length := by rw [hlen]; exact hzl
    have hGne : G h sid a ≠ G h sid b := fun e => hne (hG a b hla hlb e)
    have hp : ∃ p, p ≤ 1 ∧ sel p (G h sid a) ≠ sel p (G h sid b) := by
      by_cases h1 : (G h sid a).1 = (G h sid b).1
      · refine ⟨1, by omega, ?_⟩
        intro h2
        exact hGne (Prod.ext h1 h2)
      · exact ⟨0, by omega, h1⟩
    obtain ⟨p, hp1, hpne⟩ := hp
    have hSa : S.getD z [] = a := by rw [List.getD_eq_getElem?_getD, ha]; rfl
    have hSb : S'.getD z [] = b := by rw [List.getD_eq_getElem?_getD, hb]; rfl
    rw [evalLevels_cons, evalLevels_cons]
    have h1 := stepR_getElem?_other h sid (bit i) (ws.headD ([], [])) (dk i) Y S z p hbi hp1 hz hzl
    have h2 := stepR_getElem?_other h sid (bit i) (ws.headD ([], [])) (dk i) Y S' z p hbi hp1 hz hzl'
    rw [hSa] at h1
    rw [hSb] at h2
    obtain ⟨z', a', b', hz', ha', hb', hne', hla', hlb', hdiv⟩ :=
      ih ws.tail (2 * Y + (1 ^^^ bit i)) _ _ (2 * z + p) _ _ (fun j hj => hbits j (by simp [hj]))
        (by rw [stepR_length]; omega) (by rw [stepR_length, stepR_length, hlen]) (by omega) h1 h2 hpne
        (G_sel_len h sid p a) (G_sel_len h sid p b)
    refine ⟨z', a', b', hz', ha', hb', hne', hla', hlb', ?_⟩
    rw [List.length_cons, Nat.pow_succ, ← Nat.div_div_eq_div_mul, hdiv]
    omega

end SlVerif.Pprf

namespace SlVerif.Pprf
open SlVerif

variable (h : Query → Bytes) (sid : Bytes)

theorem headD_drop {α : Type} (l : List α) (n : Nat) (d : α) : (l.drop n).headD d = l.getD n d := by
  simp [List.headD_eq_head?_getD, List.head?_drop, List.getD_eq_getElem?_getD]

theorem corruptWord_eq (ws : List (Bytes × Bytes)) (n side : Nat) (delta : Bytes) :
    corruptWord ws (n + 1) side delta =
      ws.set n (if side = 0 then (xorBytes (ws.getD n ([], [])).1 delta, (ws.getD n ([], [])).2)
                else ((ws.getD n ([], [])).1, xorBytes (ws.getD n ([], [])).2 delta)) := by
  simp [corruptWord]

/-- the levels before the corrupted word do not see it -/
theorem evalLevels_pre_corrupt (bit : Nat → Nat) (dk : Nat → Bytes) (pre : List Nat) (ws : List (Bytes × Bytes))
    (side : Nat) (delta : Bytes) (Y : Nat) (S : List Bytes) :
    evalLevels (m := Id) h sid bit dk pre (corruptWord ws (pre.length + 1) side delta) Y S
      = evalLevels (m := Id) h sid bit dk pre ws Y S := by
  apply evalLevels_congr
  intro k hk
  rw [corruptWord_eq]
  congr 1
  rw [List.getD_eq_getElem?_getD, List.getElem?_set, if_neg (by omega), ← List.getD_eq_getElem?_getD]

/-- **used-word tampering at any level, core statement**: the levels are `pre ++ l :: post`, the word of level `l`
    on the side the receiver reads is XORed with a non-zero `delta`; then below the node the receiver derives from
    that word (index `2·Y_l + bit l` at the next level) some node of the final level differs. -/
theorem tamper_changes (hG : PrgNoCollision h sid) (bit : Nat → Nat) (dk : Nat → Bytes) (pre post : List Nat) (l : Nat)
    (ws : List (Bytes × Bytes)) (delta : Bytes) (y0 : Nat) (s0 : List Bytes)
    (hn : pre.length < ws.length) (hbpre : ∀ i ∈ pre, bit i ≤ 1) (hbl : bit l ≤ 1) (hbpost : ∀ i ∈ post, bit i ≤ 1)
    (hy0 : y0 < s0.length)
    (hw : (sel (bit l) (ws.getD pre.length ([], []))).length = KB) (hdk : (dk l).length = KB)
    (hdl : delta.length = KB) (hδ : delta ≠ zeros KB) :
    ∃ z a b,
      z ≠ (evalLevels (m := Id) h sid bit dk (pre ++ l :: post) ws y0 s0).1 ∧
      (evalLevels (m := Id) h sid bit dk (pre ++ l :: post) ws y0 s0).2[z]? = some a ∧
      (evalLevels (m := Id) h sid bit dk (pre ++ l :: post) (corruptWord ws (pre.length + 1) (bit l) delta) y0 s0).2[z]? = some b ∧
      a ≠ b ∧ z / 2 ^ post.length = 2 * (evalLevels (m := Id) h sid bit dk pre ws y0 s0).1 + bit l := by
  have hY := evalLevels_lt h sid bit dk pre ws y0 s0 hbpre hy0
  rw [evalLevels_append, evalLevels_append, evalLevels_pre_corrupt, evalLevels_cons, evalLevels_cons]
  generalize (evalLevels (m := Id) h sid bit dk pre ws y0 s0).1 = Y at hY ⊢
  generalize (evalLevels (m := Id) h sid bit dk pre ws y0 s0).2 = S at hY ⊢
  have hx := xor_one_le _ hbl
  have htl : (List.drop pre.length (corruptWord ws (pre.length + 1) (bit l) delta)).tail = (List.drop pre.length ws).tail := by
    rw [corruptWord_eq]
    simp only [List.tail_drop]
    exact List.drop_set_of_lt (by omega)
  have hhd : (List.drop pre.length (corruptWord ws (pre.length + 1) (bit l) delta)).headD ([], [])
      = (if bit l = 0 then (xorBytes (ws.getD pre.length ([], [])).1 delta, (ws.getD pre.length ([], [])).2)
                else ((ws.getD pre.length ([], [])).1, xorBytes (ws.getD pre.length ([], [])).2 delta)) := by
    rw [headD_drop, corruptWord_eq, List.getD_eq_getElem?_getD, List.getElem?_set]
    simp [hn]
  rw [htl, hhd, headD_drop]
  have h1 := stepR_corr h sid (bit l) (ws.getD pre.length ([], [])) (dk l) Y S hY hbl
  have h2 := stepR_corr h sid (bit l)
    (if bit l = 0 then (xorBytes (ws.getD pre.length ([], [])).1 delta, (ws.getD pre.length ([], [])).2)
                else ((ws.getD pre.length ([], [])).1, xorBytes (ws.getD pre.length ([], [])).2 delta)) (dk l) Y S hY hbl
  rw [sel_corrupt _ hbl, corrOf_xor] at h2
  have hcl := corrOf_length h sid (bit l) (sel (bit l) (ws.getD pre.length ([], []))) (dk l) Y S hw hdk
  obtain ⟨z', a', b', hz', ha', hb', hne', _, _, hdiv⟩ :=
    diverge_propagates h sid hG bit dk post (List.drop pre.length ws).tail (2 * Y + (1 ^^^ bit l)) _ _ (2 * Y + bit l) _ _
      hbpost (by rw [stepR_length]; omega) (by rw [stepR_length, stepR_length]) (by omega) h1 h2
      (fun e => xor_delta_ne delta _ (by rw [hdl, hcl]) (by rw [hcl]; exact hδ) e.symm)
      hcl (by rw [xorBytes_length, hdl, hcl]; simp)
  exact ⟨z', a', b', hz', ha', hb', hne', hdiv⟩

end SlVerif.Pprf

namespace SlVerif.Pprf
open SlVerif

variable (h : Query → Bytes) (sid : Bytes)

theorem evalInit_lt (b0 : Nat) (hb : b0 ≤ 1) (d : Bytes) : (evalInit b0 d).1 < (evalInit b0 d).2.length := by
  have : b0 = 0 ∨ b0 = 1 := by omega
  rcases this with rfl | rfl
  · show 1 < 2; omega
  · show 0 < 2; omega

/-- `tamper_changes` for the three levels of a tree, with the position of the changed leaf relative to `y*` -/
theorem tamper_changes_levels (hG : PrgNoCollision h sid) (bit : Nat → Nat) (dk : Nat → Bytes) (pre post : List Nat) (l : Nat)
    (hlv : levels = pre ++ l :: post) (ws : List (Bytes × Bytes)) (delta : Bytes)
    (hn : pre.length < ws.length) (hb0 : bit 0 ≤ 1) (hbpre : ∀ i ∈ pre, bit i ≤ 1) (hbl : bit l ≤ 1)
    (hbpost : ∀ i ∈ post, bit i ≤ 1)
    (hw : (sel (bit l) (ws.getD pre.length ([], []))).length = KB) (hdk : (dk l).length = KB)
    (hdl : delta.length = KB) (hδ : delta ≠ zeros KB) :
    ∃ z, z ≠ ystarOf bit ∧
      (evalLevels (m := Id) h sid bit dk levels ws (evalInit (bit 0) (dk 0)).1 (evalInit (bit 0) (dk 0)).2).2[z]? ≠
        (evalLevels (m := Id) h sid bit dk levels (corruptWord ws (pre.length + 1) (bit l) delta)
          (evalInit (bit 0) (dk 0)).1 (evalInit (bit 0) (dk 0)).2).2[z]? ∧
      (evalLevels (m := Id) h sid bit dk levels ws (evalInit (bit 0) (dk 0)).1 (evalInit (bit 0) (dk 0)).2).2[z]?.isSome ∧
      z / 2 ^ (post.length + 1) = ystarOf bit / 2 ^ (post.length + 1) ∧
      z / 2 ^ post.length ≠ ystarOf bit / 2 ^ post.length := by
  obtain ⟨z, a, b, hz, ha, hb, hne, hdiv⟩ :=
    tamper_changes h sid hG bit dk pre post l ws delta _ _ hn hbpre hbl hbpost (evalInit_lt _ hb0 _) hw hdk hdl hδ
  have hys : ystarOf bit = (evalLevels (m := Id) h sid bit dk (pre ++ l :: post) ws (evalInit (bit 0) (dk 0)).1 (evalInit (bit 0) (dk 0)).2).1 := by
    rw [← hlv, evalLevels_fst, ystarOf_eq]; rfl
  have hyd : ystarOf bit / 2 ^ post.length
      = 2 * (evalLevels (m := Id) h sid bit dk pre ws (evalInit (bit 0) (dk 0)).1 (evalInit (bit 0) (dk 0)).2).1 + (1 ^^^ bit l) := by
    rw [hys, evalLevels_fst, evalLevels_fst, List.foldl_append, List.foldl_cons, fold_div bit post _ hbpost]
  have hx := xor_one_le _ hbl
  rw [hlv]
  refine ⟨z, by rw [hys]; exact hz, ?_, by rw [ha]; rfl, ?_, ?_⟩
  · rw [ha, hb]
    intro e
    exact hne (Option.some.inj e)
  · rw [Nat.pow_succ, ← Nat.div_div_eq_div_mul, ← Nat.div_div_eq_div_mul, hdiv, hyd]
    omega
  · rw [hdiv, hyd]
    omega

end SlVerif.Pprf
