import SlVerif.Proofs.Pprf
/-
  C06 helper lemmas, part 3: one tree end to end (build_pprf's iteration followed by eval_pprf's iteration), then all
  trees.
-/
namespace SlVerif.Pprf
open SlVerif

variable (h : Query → Bytes) (sid : Bytes)

theorem proveLeaves_id (leaves : List Bytes) (t0 : Bytes) :
    proveLeaves (m := Id) h sid leaves t0 =
      (Hh h sid (leaves.map (P h sid)), (leaves.map (P h sid)).foldl xorBytes t0) := by
  simp only [proveLeaves, mapSeq_id]
  rfl

theorem buildTree_id (keys : Nat → Bytes × Bytes) (t0 : Bytes) :
    buildTree (m := Id) h sid keys t0 =
      ((buildLevels (m := Id) h sid keys levels [(keys 0).1, (keys 0).2]).1,
       { t := (buildLevels (m := Id) h sid keys levels [(keys 0).1, (keys 0).2]).2
         sTilda := Hh h sid ((buildLevels (m := Id) h sid keys levels [(keys 0).1, (keys 0).2]).1.map (P h sid))
         tTilda := ((buildLevels (m := Id) h sid keys levels [(keys 0).1, (keys 0).2]).1.map (P h sid)).foldl xorBytes t0 }) := by
  unfold buildTree
  generalize levels = lv
  simp only [proveLeaves_id]
  rfl

/-- the vector the receiver hashes -/
def vecR (ystar : Nat) (s : List Bytes) (tTilda : Bytes) : List Bytes :=
  (maskAt ystar (zeros (2*KB)) (s.map (P h sid))).set ystar
    (xorOthers ystar tTilda (maskAt ystar (zeros (2*KB)) (s.map (P h sid))))

theorem verifyVector_id (ystar : Nat) (s : List Bytes) (tTilda : Bytes) :
    verifyVector (m := Id) h sid ystar s tTilda = vecR h sid ystar s tTilda := by
  simp only [verifyVector, mapSeq_id]
  rfl

theorem evalTree_id (bit : Nat → Nat) (dk : Nat → Bytes) (msg : TreeMsg) :
    evalTree (m := Id) h sid bit dk msg =
      if Hh h sid (vecR h sid (evalLevels (m := Id) h sid bit dk levels msg.t (evalInit (bit 0) (dk 0)).1 (evalInit (bit 0) (dk 0)).2).1
            (evalLevels (m := Id) h sid bit dk levels msg.t (evalInit (bit 0) (dk 0)).1 (evalInit (bit 0) (dk 0)).2).2 msg.tTilda)
          ≠ msg.sTilda then none
      else some (evalLevels (m := Id) h sid bit dk levels msg.t (evalInit (bit 0) (dk 0)).1 (evalInit (bit 0) (dk 0)).2) := by
  unfold evalTree
  generalize levels = lv
  simp only [verifyVector_id]
  rfl

/-- the receiver re-computes the sender's proof vector exactly -/
theorem vecR_eq (leaves sstar : List Bytes) (ystar : Nat) (inv : Inv leaves sstar ystar) :
    vecR h sid ystar sstar ((leaves.map (P h sid)).foldl xorBytes (zeros (2*KB))) = leaves.map (P h sid) := by
  have hacc : xorOthers ystar ((leaves.map (P h sid)).foldl xorBytes (zeros (2*KB)))
      (maskAt ystar (zeros (2*KB)) (sstar.map (P h sid))) = P h sid (leaves.getD ystar []) := by
    rw [xorOthers_eq, maskAt_length, List.length_map, inv.len]
    rw [othF_congr _ (fun y => P h sid (leaves.getD y [])) ystar leaves.length _ (by
      intro y hy hne
      have hy' : y < sstar.length := by rw [inv.len]; exact hy
      have := inv.eq y hne
      rw [List.getElem?_eq_getElem hy', List.getElem?_eq_getElem hy] at this
      simp only [Option.some.injEq] at this
      simp [List.getD_eq_getElem?_getD, maskAt_getElem?, List.getElem?_eq_getElem hy', List.getElem?_eq_getElem hy, hne, this])]
    have hT : (leaves.map (P h sid)).foldl xorBytes (zeros (2*KB))
        = allF (fun y => P h sid (leaves.getD y [])) leaves.length (zeros (2*KB)) := by
      have := foldl_eq_allF (fun x : Bytes => x) [] (leaves.map (P h sid)) (zeros (2*KB))
      rw [List.length_map] at this
      rw [show (leaves.map (P h sid)).foldl xorBytes (zeros (2*KB))
            = (leaves.map (P h sid)).foldl (fun acc x => xorBytes acc x) (zeros (2*KB)) from rfl, this]
      apply allF_congr
      intro y hy
      simp [List.getD_eq_getElem?_getD, List.getElem?_eq_getElem hy]
    rw [hT]
    exact othF_allF_zeros _ (2*KB) ystar leaves.length (fun y _ => P_len h sid _) inv.lt
  unfold vecR
  rw [hacc]
  apply List.ext_getElem?
  intro y
  rw [List.getElem?_set, maskAt_length, List.length_map, inv.len, maskAt_getElem?]
  by_cases hy : ystar = y
  · subst hy
    simp [inv.lt, List.getD_eq_getElem?_getD, List.getElem?_eq_getElem inv.lt]
  · have hne : y ≠ ystar := fun e => hy e.symm
    simp only [hy, if_false]
    rw [List.getElem?_map, List.getElem?_map, inv.eq y hne]
    cases leaves[y]? <;> simp [hne]

theorem levels_eq : levels = [1, 2, 3] := by decide

theorem evalInit_inv (bit0 : Nat) (hb : bit0 ≤ 1) (F : Bytes × Bytes) :
    Inv [F.1, F.2] (evalInit bit0 (sel bit0 F)).2 (evalInit bit0 (sel bit0 F)).1 := by
  have hc' : bit0 = 0 ∨ bit0 = 1 := by omega
  rcases hc' with rfl | rfl
  · refine ⟨rfl, by show 1 < 2; omega, ?_, rfl⟩
    intro y hy
    match y with
    | 0 => rfl
    | 1 => exact absurd rfl hy
    | y+2 => rfl
  · refine ⟨rfl, by show 0 < 2; omega, ?_, rfl⟩
    intro y hy
    match y with
    | 0 => exact absurd rfl hy
    | 1 => rfl
    | y+2 => rfl

/-- hypotheses on the base-OT outputs of one tree: bits are bits, keys have LAMBDA_C_BYTES bytes, and the receiver's
    key is the sender's key for its choice bit ("consistent base-OT outputs") -/
def Consistent (keys : Nat → Bytes × Bytes) (bit : Nat → Nat) (dk : Nat → Bytes) : Prop :=
  ∀ i < K, bit i ≤ 1 ∧ (keys i).1.length = KB ∧ (keys i).2.length = KB ∧ dk i = sel (bit i) (keys i)

theorem ystarOf_eq (bit : Nat → Nat) :
    ystarOf bit = levels.foldl (fun acc i => 2 * acc + (1 ^^^ bit i)) (bit 0 ^^^ 1) := by
  rw [levels_eq]
  simp [ystarOf, show K = 4 from rfl, List.range_succ, Nat.xor_comm]

/-- ONE TREE: an honestly built tree message is accepted; the receiver's punctured index is `ystarOf bit`, and its
    leaves satisfy the invariant w.r.t. the sender's leaves (equal off the punctured index, zeros there) -/
theorem tree_correct (keys : Nat → Bytes × Bytes) (bit : Nat → Nat) (dk : Nat → Bytes) (hc : Consistent keys bit dk) :
    ∃ sstar, evalTree (m := Id) h sid bit dk (buildTree (m := Id) h sid keys).2 = some (ystarOf bit, sstar) ∧
      Inv (buildTree (m := Id) h sid keys).1 sstar (ystarOf bit) ∧
      (buildTree (m := Id) h sid keys).1.length = Q := by
  obtain ⟨hb0, _, _, hd0⟩ := hc 0 (by decide)
  have hyp : ∀ i ∈ levels, bit i ≤ 1 ∧ (keys i).1.length = KB ∧ (keys i).2.length = KB ∧ dk i = sel (bit i) (keys i) := by
    intro i hi
    apply hc i
    rw [levels_eq] at hi
    simp at hi
    rcases hi with rfl | rfl | rfl <;> decide
  have hinit := evalInit_inv (bit 0) hb0 (keys 0)
  rw [← hd0] at hinit
  obtain ⟨hinv, hy⟩ := levels_inv h sid keys bit dk levels _ _ _ hinit hyp
  have hy' : _ = ystarOf bit := hy.trans (ystarOf_eq bit).symm
  rw [evalTree_id, buildTree_id]
  simp only
  generalize evalLevels (m := Id) h sid bit dk levels (buildLevels (m := Id) h sid keys levels [(keys 0).1, (keys 0).2]).2
    (evalInit (bit 0) (dk 0)).1 (evalInit (bit 0) (dk 0)).2 = r at hinv hy' ⊢
  refine ⟨r.2, ?_, ?_, ?_⟩
  · rw [vecR_eq h sid _ _ _ hinv]
    simp only [ne_eq, not_true_eq_false, if_false]
    rw [← hy']
    rfl
  · rw [← hy']; exact hinv
  · rw [buildLevels_length, levels_eq]; rfl

end SlVerif.Pprf
