import SlVerif.Proofs.SoftSpokenBits
/-
  C03 / C04 helper lemmas, part 2: the entry points of Model/SoftSpoken.lean at `m := Id` (an arbitrary pure oracle
  `h : Query → Bytes`), unfolded into their pure cores, and the protocol-level facts:
    * the sender's matrix W is the receiver's matrix V xor (nabla-bit · the choice vector of the row's block);
    * the exact acceptance condition; honest and adversarial check values;
    * the sender's transposed rows are the receiver's xor (choice bit · nabla).
-/
namespace SlVerif.SoftSpoken
open SlVerif SlVerif.Generated

theorem tabulateM_id {α : Type} (n : ℕ) (f : ℕ → Id α) :
    tabulateM (m := Id) n f = (List.range n).map f := by
  unfold tabulateM
  generalize List.range n = l
  induction l with
  | nil => rfl
  | cons a l ih => simp [List.mapM_cons, ih]; rfl

variable (h : Query → Id Bytes) (sid : Bytes)

/-! ### pure forms of the oracle batches -/

def expR (keys : List (List Bytes)) : List (List ℕ) :=
  (List.range LAMBDA_C_DIV_SOFT_SPOKEN_K).map fun i => (List.range SOFT_SPOKEN_Q).map fun j =>
    rowOf L_PRIME_BYTES (h (expandQ sid (keyAt keys i j)))

theorem recvExpand_id (keys : List (List Bytes)) : recvExpand (m := Id) h sid keys = expR h sid keys := by
  unfold recvExpand expR
  simp only [tabulateM_id]
  rfl

def expS (rc : List ℕ) (keys : List (List Bytes)) : List (List ℕ) :=
  (List.range LAMBDA_C_DIV_SOFT_SPOKEN_K).map fun i => (List.range SOFT_SPOKEN_Q).map fun j =>
    if j = rc.getD i 0 then 0 else rowOf L_PRIME_BYTES (h (expandQ sid (keyAt keys i j)))

theorem sendExpand_id (rc : List ℕ) (keys : List (List Bytes)) :
    sendExpand (m := Id) h sid rc keys = expS h sid rc keys := by
  unfold sendExpand expS
  simp only [tabulateM_id]
  congr 1

def chiP (u : List ℕ) : List ℕ :=
  (List.range SOFT_SPOKEN_M).map fun j => rowOf S_BYTES (h (chiQ (h (matrixHashQ sid u)) j))

theorem chiAll_id (u : List ℕ) : chiAll (m := Id) h sid u = chiP h sid u := by
  unfold chiAll chiP
  simp only [tabulateM_id]
  rfl

theorem chiP_ok (u : List ℕ) : ChiOk (chiP h sid u) := by
  intro j
  unfold chiP
  rw [getD_map_range]
  split
  · unfold rowOf; exact Nat.mod_lt _ (Nat.two_pow_pos _)
  · norm_num

def randP (rows : List ℕ) : List (List Bytes) :=
  (List.range rows.length).map fun j =>
    challenges (m := Id) h [] KAPPA_BYTES OT_WIDTH (randT sid j (rows.getD j 0))

theorem randomizeAll_id (rows : List ℕ) : randomizeAll (m := Id) h sid rows = randP h sid rows := by
  unfold randomizeAll randP
  simp only [tabulateM_id]

theorem randP_getD (rows : List ℕ) (j : ℕ) (hj : j < rows.length) :
    (randP h sid rows).getD j [] = challenges (m := Id) h [] KAPPA_BYTES OT_WIDTH (randT sid j (rows.getD j 0)) := by
  unfold randP
  rw [getD_map_range, if_pos hj]

/-! ### the entry points, unfolded -/

theorem receiverProcess_id (enc : List (List Bytes)) (ch : Bytes) (tape : Tape) :
    receiverProcess (m := Id) h sid enc ch tape =
      (let c := (extChoices ch tape).1
       let rs := expR h sid enc
       let u := (List.range LAMBDA_C_DIV_SOFT_SPOKEN_K).map fun i => recvU (at2 rs i) c
       let v := recvVRows rs
       let chi := chiP h sid u
       ({ u := u, x := checkRow chi c, t := v.map (checkRow chi) },
        { choices := ch, v_x := randP h sid ((transpose v).take L) }, (extChoices ch tape).2)) := by
  unfold receiverProcess
  simp only [recvExpand_id, chiAll_id, randomizeAll_id]
  rfl

theorem advReceiver_id (enc : List (List Bytes)) (ch : Bytes) (tape : Tape) (dev guess : ℕ → ℕ) :
    advReceiver (m := Id) h sid enc ch tape dev guess =
      (let c := (extChoices ch tape).1
       let rs := expR h sid enc
       let u := (List.range LAMBDA_C_DIV_SOFT_SPOKEN_K).map fun i => recvU (at2 rs i) (c ^^^ dev i)
       let v := recvVRows rs
       let chi := chiP h sid u
       { u := u, x := checkRow chi c,
         t := (List.range LAMBDA_C).map fun k =>
           checkRow chi (v.getD k 0) ^^^
             mask ((guess (k / SOFT_SPOKEN_K)).testBit (k % SOFT_SPOKEN_K))
               (checkRow chi (dev (k / SOFT_SPOKEN_K))) }) := by
  unfold advReceiver advAfterExpand
  simp only [recvExpand_id, chiAll_id]
  rfl

/-- the sender's outputs as a function of its matrix W -/
def senderOut (rc : List ℕ) (w : List ℕ) : SenderExtendedOutput :=
  { v_0 := randP h sid ((transpose w).take L),
    v_1 := randP h sid (((transpose w).take L).map (· ^^^ packedNabla rc)) }

theorem senderAfterExpand_id (rc : List ℕ) (rs : List (List ℕ)) (msg : Round1Output) :
    senderAfterExpand (m := Id) h sid rc rs msg =
      if checkAll (chiP h sid msg.u) (sendWRows rs rc msg.u) (packedNabla rc) msg then
        .ok (senderOut h sid rc (sendWRows rs rc msg.u))
      else .error .abortProtocolAndBanReceiver := by
  unfold senderAfterExpand senderOut
  simp only [chiAll_id, randomizeAll_id]
  rfl

theorem senderProcess_id (rc : List ℕ) (dec : List (List Bytes)) (msg : Round1Output) :
    senderProcess (m := Id) h sid rc dec msg =
      if checkAll (chiP h sid msg.u) (sendWRows (expS h sid rc dec) rc msg.u) (packedNabla rc) msg then
        .ok (senderOut h sid rc (sendWRows (expS h sid rc dec) rc msg.u))
      else .error .abortProtocolAndBanReceiver := by
  unfold senderProcess
  simp only [sendExpand_id]
  exact senderAfterExpand_id h sid rc _ msg

theorem checkAll_iff (chi w : List ℕ) (nabla : ℕ) (msg : Round1Output) :
    checkAll chi w nabla msg = true ↔
      ∀ i < LAMBDA_C, checkRow chi (w.getD i 0) = msg.t.getD i 0 ^^^ mask (nabla.testBit i) msg.x := by
  unfold checkAll
  simp [List.all_eq_true, List.mem_range]

/-- **exact acceptance condition**, every message, every seed set, every oracle -/
theorem senderProcess_ok_iff (rc : List ℕ) (dec : List (List Bytes)) (msg : Round1Output) :
    (∃ so, senderProcess (m := Id) h sid rc dec msg = .ok so) ↔
      ∀ i < LAMBDA_C, checkRow (chiP h sid msg.u) ((sendWRows (expS h sid rc dec) rc msg.u).getD i 0)
        = msg.t.getD i 0 ^^^ mask ((packedNabla rc).testBit i) msg.x := by
  rw [senderProcess_id, ← checkAll_iff]
  split <;> rename_i hc
  · simp [hc]
  · simp [hc]

theorem senderProcess_ban_iff (rc : List ℕ) (dec : List (List Bytes)) (msg : Round1Output) :
    senderProcess (m := Id) h sid rc dec msg = .error .abortProtocolAndBanReceiver ↔
      ¬ ∃ so, senderProcess (m := Id) h sid rc dec msg = .ok so := by
  rw [senderProcess_id]
  split <;> simp

/-! ### seeds: what the sender knows -/

/-- the all-but-one relation between the two seed sets: the sender of the extension holds every key of every
    block except the one at its punctured index -/
def SeedsOk (rc : List ℕ) (enc dec : List (List Bytes)) : Prop :=
  ∀ i < LAMBDA_C_DIV_SOFT_SPOKEN_K, ∀ j < SOFT_SPOKEN_Q, j ≠ rc.getD i 0 → keyAt dec i j = keyAt enc i j

theorem at2_expR (keys : List (List Bytes)) (i j : ℕ) (hi : i < LAMBDA_C_DIV_SOFT_SPOKEN_K)
    (hj : j < SOFT_SPOKEN_Q) :
    at2 (expR h sid keys) i j = rowOf L_PRIME_BYTES (h (expandQ sid (keyAt keys i j))) := by
  unfold at2 expR
  rw [getD_map_range, if_pos hi, getD_map_range, if_pos hj]

theorem at2_expS (rc : List ℕ) (keys : List (List Bytes)) (i j : ℕ) (hi : i < LAMBDA_C_DIV_SOFT_SPOKEN_K)
    (hj : j < SOFT_SPOKEN_Q) :
    at2 (expS h sid rc keys) i j
      = if j = rc.getD i 0 then 0 else rowOf L_PRIME_BYTES (h (expandQ sid (keyAt keys i j))) := by
  unfold at2 expS
  rw [getD_map_range, if_pos hi, getD_map_range, if_pos hj]

theorem at2_expS_eq (rc : List ℕ) (enc dec : List (List Bytes)) (hk : SeedsOk rc enc dec) (i j : ℕ)
    (hi : i < LAMBDA_C_DIV_SOFT_SPOKEN_K) (hj : j < SOFT_SPOKEN_Q) :
    at2 (expS h sid rc dec) i j = if j = rc.getD i 0 then 0 else at2 (expR h sid enc) i j := by
  rw [at2_expS h sid rc dec i j hi hj, at2_expR h sid enc i j hi hj]
  split
  · rfl
  · rename_i hne; rw [hk i hi j hj hne]

theorem div_K_lt (k : ℕ) (hk : k < LAMBDA_C) : k / SOFT_SPOKEN_K < LAMBDA_C_DIV_SOFT_SPOKEN_K := by
  have : LAMBDA_C = LAMBDA_C_DIV_SOFT_SPOKEN_K * SOFT_SPOKEN_K := by decide
  rw [this] at hk
  exact Nat.div_lt_of_lt_mul (by rwa [Nat.mul_comm] at hk)

theorem length_recvVRows (rs : List (List ℕ)) : (recvVRows rs).length = LAMBDA_C := by simp [recvVRows]
theorem length_sendWRows (rs : List (List ℕ)) (rc u : List ℕ) : (sendWRows rs rc u).length = LAMBDA_C := by
  simp [sendWRows]

/-- **W = V ⊕ nabla-bit · (choice vector of the block)**, for a message whose block `i` was formed with the choice
    vector `cv i` (honest: `cv i = c` for all i) -/
theorem sendWRows_getD (rc : List ℕ) (enc dec : List (List Bytes)) (hk : SeedsOk rc enc dec) (u : List ℕ)
    (cv : ℕ → ℕ)
    (hu : ∀ i < LAMBDA_C_DIV_SOFT_SPOKEN_K, u.getD i 0 = recvU (at2 (expR h sid enc) i) (cv i))
    (k : ℕ) (hk' : k < LAMBDA_C) :
    (sendWRows (expS h sid rc dec) rc u).getD k 0
      = (recvVRows (expR h sid enc)).getD k 0 ^^^ mask ((packedNabla rc).testBit k) (cv (k / SOFT_SPOKEN_K)) := by
  have hi := div_K_lt k hk'
  unfold sendWRows recvVRows
  rw [getD_map_range, if_pos hk', getD_map_range, if_pos hk', hu _ hi, packedNabla_testBit]
  simp only [hk', decide_true, Bool.true_and]
  rw [sendW_congr _ (fun j => if j = rc.getD (k / SOFT_SPOKEN_K) 0 then 0 else at2 (expR h sid enc) (k / SOFT_SPOKEN_K) j)
    _ _ _ (fun j hj => at2_expS_eq h sid rc enc dec hk _ j hi hj)]
  exact block_identity _ _ _ _

/-- check value of a row of W in terms of the receiver's quantities -/
theorem checkRow_W (chi : List ℕ) (hchi : ChiOk chi) (v c : ℕ) (t : Bool) :
    checkRow chi (v ^^^ mask t c) = checkRow chi v ^^^ mask t (checkRow chi c) := by
  rw [checkRow_xor chi hchi, checkRow_mask chi hchi]

/-! ### the transposed rows and the outputs -/

theorem zeta_eq (V W : List ℕ) (c nabla : ℕ) (hV : V.length = LAMBDA_C) (hW : W.length = LAMBDA_C)
    (hn : nabla < 2 ^ LAMBDA_C)
    (hrows : ∀ k < LAMBDA_C, W.getD k 0 = V.getD k 0 ^^^ mask (nabla.testBit k) c) (j : ℕ) (hj : j < L) :
    ((transpose W).take L).getD j 0 = ((transpose V).take L).getD j 0 ^^^ mask (c.testBit j) nabla := by
  rw [getD_take_transpose _ _ hj, getD_take_transpose _ _ hj]
  exact transposeRow_xor_mask V W c nabla j hV hW hn hrows

theorem getD_map_xor (rows : List ℕ) (n j : ℕ) (hj : j < rows.length) :
    (rows.map (· ^^^ n)).getD j 0 = rows.getD j 0 ^^^ n := by
  rw [List.getD_eq_getElem _ _ (by simpa using hj), List.getD_eq_getElem _ _ hj]
  simp

/-- the two output triples of extended OT `j` in terms of the sender's transposed row -/
theorem senderOut_v0 (rc w : List ℕ) (j : ℕ) (hj : j < L) :
    (senderOut h sid rc w).v_0.getD j []
      = challenges (m := Id) h [] KAPPA_BYTES OT_WIDTH (randT sid j (((transpose w).take L).getD j 0)) := by
  unfold senderOut
  rw [randP_getD _ _ _ _ (by rw [length_take_transpose]; exact hj)]

theorem senderOut_v1 (rc w : List ℕ) (j : ℕ) (hj : j < L) :
    (senderOut h sid rc w).v_1.getD j []
      = challenges (m := Id) h [] KAPPA_BYTES OT_WIDTH
          (randT sid j (((transpose w).take L).getD j 0 ^^^ packedNabla rc)) := by
  unfold senderOut
  rw [randP_getD _ _ _ _ (by rw [List.length_map, length_take_transpose]; exact hj),
    getD_map_xor _ _ _ (by rw [length_take_transpose]; exact hj)]

theorem sendWRows_ext (a a' : List (List ℕ)) (rc u u' : List ℕ)
    (hrows : ∀ k < LAMBDA_C, (sendWRows a rc u).getD k 0 = (sendWRows a' rc u').getD k 0) :
    sendWRows a rc u = sendWRows a' rc u' := by
  apply List.ext_getElem
  · rw [length_sendWRows, length_sendWRows]
  · intro k h1 h2
    have hk : k < LAMBDA_C := lt_of_lt_of_eq h1 (length_sendWRows _ _ _)
    have := hrows k hk
    rwa [List.getD_eq_getElem _ _ h1, List.getD_eq_getElem _ _ h2] at this

/-! ### selective failure arithmetic -/

theorem mask_eq_mask_iff (t t' : Bool) (E : ℕ) : mask t E = mask t' E ↔ E = 0 ∨ t = t' := by
  cases t <;> cases t' <;> simp [eq_comm]

theorem low_bits_eq_iff (a b : ℕ) :
    (∀ k < SOFT_SPOKEN_K, a.testBit k = b.testBit k) ↔ a % SOFT_SPOKEN_Q = b % SOFT_SPOKEN_Q := by
  have hQ : SOFT_SPOKEN_Q = 2 ^ SOFT_SPOKEN_K := rfl
  rw [hQ]
  constructor
  · intro hbits
    apply Nat.eq_of_testBit_eq
    intro k
    rw [Nat.testBit_mod_two_pow, Nat.testBit_mod_two_pow]
    by_cases hk : k < SOFT_SPOKEN_K
    · simp [hk, hbits k hk]
    · simp [hk]
  · intro hmod k hk
    have := congrArg (·.testBit k) hmod
    simpa [Nat.testBit_mod_two_pow, hk] using this

/-- rows of block `i` are the `k = i*K + b`, `b < K` -/
theorem forall_rows_iff (P : ℕ → ℕ → Prop) :
    (∀ k < LAMBDA_C, P (k / SOFT_SPOKEN_K) (k % SOFT_SPOKEN_K)) ↔
      ∀ i < LAMBDA_C_DIV_SOFT_SPOKEN_K, ∀ b < SOFT_SPOKEN_K, P i b := by
  have hK : 0 < SOFT_SPOKEN_K := by decide
  have hL : LAMBDA_C = LAMBDA_C_DIV_SOFT_SPOKEN_K * SOFT_SPOKEN_K := by decide
  constructor
  · intro hall i hi b hb
    have hk : i * SOFT_SPOKEN_K + b < LAMBDA_C := by
      rw [hL]
      calc i * SOFT_SPOKEN_K + b < i * SOFT_SPOKEN_K + SOFT_SPOKEN_K := by omega
        _ = (i + 1) * SOFT_SPOKEN_K := by ring
        _ ≤ LAMBDA_C_DIV_SOFT_SPOKEN_K * SOFT_SPOKEN_K := Nat.mul_le_mul_right _ hi
    have := hall _ hk
    have h1 : (i * SOFT_SPOKEN_K + b) / SOFT_SPOKEN_K = i := by
      rw [Nat.mul_comm, Nat.mul_add_div hK, Nat.div_eq_of_lt hb, Nat.add_zero]
    have h2 : (i * SOFT_SPOKEN_K + b) % SOFT_SPOKEN_K = b := by
      rw [Nat.mul_comm, Nat.mul_add_mod, Nat.mod_eq_of_lt hb]
    rwa [h1, h2] at this
  · intro hall k hk
    exact hall _ (div_K_lt k hk) _ (Nat.mod_lt _ hK)

/-! ### the randomisation queries -/

/-- the query answered by the `k`-th (0-based) of the successive challenges on the randomisation transcript of
    extended OT `j` over the transposed row `row` -/
def randQ (sid : Bytes) (j row k : ℕ) : Query :=
  .merlin { randT sid j row with ops := (randT sid j row).ops ++ List.replicate (k + 1) (.chal [] KAPPA_BYTES) }

theorem challenges_id_getD (label : Bytes) (len n : ℕ) (t : Transcript) (k : ℕ) (hk : k < n) :
    (challenges (m := Id) h label len n t).getD k []
      = h (.merlin { t with ops := t.ops ++ List.replicate (k + 1) (.chal label len) }) := by
  induction n generalizing t k with
  | zero => omega
  | succ n ih =>
    cases k with
    | zero => rfl
    | succ k =>
      have := ih { t with ops := t.ops ++ [.chal label len] } k (by omega)
      simp only [List.append_assoc, List.singleton_append, ← List.replicate_succ] at this
      rw [← this]
      rfl

theorem randQ_inj (sid : Bytes) (j k r r' : ℕ) (hr : r < 2 ^ LAMBDA_C) (hr' : r' < 2 ^ LAMBDA_C)
    (hq : randQ sid j r k = randQ sid j r' k) : r = r' := by
  have h256 : LAMBDA_C = 8 * LAMBDA_C_BYTES := by decide
  rw [h256] at hr hr'
  apply natToLe_inj LAMBDA_C_BYTES r r' hr hr'
  simp only [randQ, randT, Transcript.appendMessage, Transcript.appendU64, Transcript.new, Query.merlin.injEq,
    Transcript.mk.injEq, List.append_cancel_right_eq, true_and] at hq
  simpa using hq

/-- the driver's memoised verdict (`checkAllQ` on precomputed row check values) is the model's `checkAll` -/
theorem checkAllQ_eq (chi w : List ℕ) (nabla : ℕ) (msg : Round1Output) (hw : w.length = LAMBDA_C) :
    checkAllQ (w.map (checkRow chi)) nabla msg = checkAll chi w nabla msg := by
  have key : ∀ i < LAMBDA_C, (w.map (checkRow chi)).getD i 0 = checkRow chi (w.getD i 0) := by
    intro i hi
    have hi' : i < w.length := by rw [hw]; exact hi
    rw [List.getD_eq_getElem _ _ (by simpa using hi'), List.getD_eq_getElem _ _ hi']
    simp
  rw [Bool.eq_iff_iff, checkAll_iff]
  unfold checkAllQ
  simp only [List.all_eq_true, List.mem_range, beq_iff_eq]
  constructor
  · intro hall i hi; rw [← key i hi]; exact hall i hi
  · intro hall i hi; rw [key i hi]; exact hall i hi

end SlVerif.SoftSpoken
