import SlVerif.Proofs.VerEncBinding
import Mathlib.Data.ZMod.Basic
/-
  Non-vacuity: a concrete oracle `Toy.h cp` (for `cp = secp` and `cp = ed`) that satisfies EVERY hypothesis used by the
  C09 / C10 theorems — `CurveOracle` with an injective generator, `RsaOracle` for every bound, `ShaSized`, a label
  integer coprime to every modulus.  The group is `ZMod cp.order` with generator 1; points are encoded as 33-byte
  big-endian integers (secp256k1; identity = 33 zero bytes) resp. as 32-byte little-endian `value + 1` (ed25519;
  identity = `01 00 … 00`), "RSA" prepends a byte, "SHA-256" is the constant digest `00 … 01`.
-/
namespace SlVerif.VerEnc.Toy
open SlVerif SlVerif.VerEnc

def enc (cp : CurveParams) (k : ℕ) : Bytes :=
  match cp.curve with
  | .secp256k1 => natToBe 33 (k % cp.order)
  | .ed25519 => natToLe 32 (k % cp.order + 1)

def val (cp : CurveParams) (b : Bytes) : ℕ :=
  match cp.curve with
  | .secp256k1 => beToNat b
  | .ed25519 => leToNat b - 1

def h (cp : CurveParams) : Query → Bytes
  | .ecMulGen _ k => enc cp k
  | .ecAdd _ p q => enc cp (val cp p + val cp q)
  | .ecValid _ p => if p = enc cp (val cp p) then [1] else [0]
  | .sha256 _ => natToBe 32 1
  | .rsaEnc _ _ msg => 0xAA :: msg
  | .rsaDec _ ct => match ct with
      | 0xAA :: m => 1 :: m
      | _ => [0]
  | _ => []

theorem val_enc {cp : CurveParams} (hcp : cp = secp ∨ cp = ed) (k : ℕ) : val cp (enc cp k) = k % cp.order := by
  rcases hcp with rfl | rfl
  · show beToNat (natToBe 33 (k % secpQ)) = k % secpQ
    rw [beToNat_natToBe, Nat.mod_eq_of_lt]
    exact lt_trans (Nat.mod_lt _ (by decide)) (by decide)
  · show leToNat (natToLe 32 (k % edL + 1)) - 1 = k % edL
    rw [leToNat_natToLe, Nat.mod_eq_of_lt]
    · omega
    · have : k % edL < edL := Nat.mod_lt _ (by decide)
      have : edL + 1 < 256 ^ 32 := by decide
      omega

theorem enc_mod (cp : CurveParams) (k : ℕ) : enc cp (k % cp.order) = enc cp k := by
  unfold enc; split <;> rw [Nat.mod_mod]

theorem enc_congr (cp : CurveParams) {a b : ℕ} (e : a % cp.order = b % cp.order) : enc cp a = enc cp b := by
  rw [← enc_mod cp a, ← enc_mod cp b, e]

theorem enc_length {cp : CurveParams} (hcp : cp = secp ∨ cp = ed) (k : ℕ) : (enc cp k).length = cp.pointLen := by
  rcases hcp with rfl | rfl
  · exact natToBe_length _ _
  · exact natToLe_length _ _

theorem identity_enc {cp : CurveParams} (hcp : cp = secp ∨ cp = ed) : identityEnc cp = enc cp 0 := by
  rcases hcp with rfl | rfl <;> decide

/-- valid = canonical encodings of the toy group -/
def Canon (cp : CurveParams) (p : Bytes) : Prop := p = enc cp (val cp p)

theorem canon_enc {cp : CurveParams} (hcp : cp = secp ∨ cp = ed) (k : ℕ) : Canon cp (enc cp k) := by
  rw [Canon, val_enc hcp, enc_mod]

/-- the toy oracle is a `CurveOracle` on `ZMod cp.order` -/
def co {cp : CurveParams} (hcp : cp = secp ∨ cp = ed) : CurveOracle (h cp) cp (ZMod cp.order) where
  dec b := (val cp b : ZMod cp.order)
  gen := 1
  Valid := Canon cp
  Canon := Canon cp
  canon_valid := id
  canon_length := by intro p hp; rw [hp]; exact enc_length hcp _
  dec_inj := by
    intro a b ha hb e
    have e' := (ZMod.natCast_eq_natCast_iff' _ _ _).1 e
    rw [ha, hb]; exact enc_congr cp e'
  valid := by
    intro p
    show (if p = enc cp (val cp p) then [1] else [0]) = [1] ↔ p = enc cp (val cp p)
    by_cases hc : p = enc cp (val cp p)
    · rw [if_pos hc]; exact ⟨fun _ => hc, fun _ => rfl⟩
    · rw [if_neg hc]; exact ⟨fun e => by simp at e, fun e => absurd e hc⟩
  canon_mulGen := fun k => canon_enc hcp k
  canon_add := fun _ _ => canon_enc hcp _
  mulGen := by
    intro k
    show ((val cp (enc cp k) : ℕ) : ZMod cp.order) = k • (1 : ZMod cp.order)
    rw [val_enc hcp, ZMod.natCast_mod, nsmul_one]
  add := by
    intro p q _ _
    show ((val cp (enc cp (val cp p + val cp q)) : ℕ) : ZMod cp.order) = _
    rw [val_enc hcp, ZMod.natCast_mod, Nat.cast_add]
  canon_identity := by rw [identity_enc hcp]; exact canon_enc hcp 0
  dec_identity := by
    show ((val cp (identityEnc cp) : ℕ) : ZMod cp.order) = 0
    rw [identity_enc hcp, val_enc hcp, Nat.zero_mod, Nat.cast_zero]
  order_smul := by rw [nsmul_one, ZMod.natCast_self]
  secp_canon := fun _ _ hp => hp

theorem genInj {cp : CurveParams} (hcp : cp = secp ∨ cp = ed) : (co hcp).GenInj := by
  intro a b ha hb e
  have e' : ((a : ℕ) : ZMod cp.order) = (b : ZMod cp.order) := by
    have : a • (1 : ZMod cp.order) = b • (1 : ZMod cp.order) := e
    rwa [nsmul_one, nsmul_one] at this
  have := (ZMod.natCast_eq_natCast_iff' _ _ _).1 e'
  rwa [Nat.mod_eq_of_lt ha, Nat.mod_eq_of_lt hb] at this

theorem rsa (cp : CurveParams) (key : Bytes) (B : ℕ) : RsaOracle (h cp) key B :=
  ⟨fun _ _ _ => by simp [h], fun _ _ _ => rfl⟩

theorem sha (cp : CurveParams) : ShaSized (h cp) := by
  intro d
  exact ⟨natToBe_length 32 1, natToBe_lt 32 1⟩

theorem labelInt_one (cp : CurveParams) (label : Bytes) : labelIntP (h cp) label = 1 := by
  show beToNat (natToBe 32 1) = 1
  rw [beToNat_natToBe]; norm_num

theorem label_coprime (cp : CurveParams) (label : Bytes) (n : ℕ) : Nat.gcd (labelIntP (h cp) label) n = 1 := by
  rw [labelInt_one]; exact Nat.gcd_one_left n

end SlVerif.VerEnc.Toy
