import SlVerif.Model.Oracle
import Mathlib.Data.ZMod.Basic
import Mathlib.Algebra.Module.Basic
import Mathlib.Tactic.Ring
import Mathlib.Tactic.NormNum
/-
  The algebraic assumptions on the secp256k1 part of an oracle `h : Query → Bytes`, shared by every property whose
  model does group arithmetic through the oracle (C14, …).

  The oracle answers group queries on BYTE STRINGS.  `GroupOracle h G` says that there is a module `G` over the scalar
  ring `Zq = ZMod secpQ` (no primality of `secpQ` is needed: `ZMod n` is a commutative ring for every `n`) and a
  decoding `dec : Bytes → G` such that on VALID encodings (`Canon`, the type invariant of `ProjectivePoint` /
  `AffinePoint` in the Rust; the harness oracle panics on anything else) the answers of `h` decode to the module
  operations, are valid encodings again, and `dec` is injective on valid encodings (an encoding is canonical: equal
  points have equal bytes, which is what `ct_eq` / `==` on the 33-byte strings in the models relies on).
  Scalars are natural numbers on the wire and are read modulo `secpQ` (`(k : Zq)`).

  `GroupOracle.Toy` at the end exhibits instances (the additive group of `Zq` itself, 33-byte big-endian encodings,
  any behaviour of merlin),
  so theorems that assume a `GroupOracle` are not vacuous.
-/
namespace SlVerif

/-- the scalar ring of secp256k1 -/
abbrev Zq := ZMod secpQ

instance secpQ_neZero : NeZero secpQ := ⟨by decide⟩

/-- the models reduce scalars with `% secpQ`; in `Zq` that is invisible -/
theorem natCast_mod_secpQ (a : ℕ) : ((a % secpQ : ℕ) : Zq) = (a : Zq) := ZMod.natCast_mod a secpQ

/-- reduced scalars are determined by their class in `Zq` -/
theorem natCast_inj_of_lt {a b : ℕ} (ha : a < secpQ) (hb : b < secpQ) (hab : (a : Zq) = (b : Zq)) : a = b := by
  have := (ZMod.natCast_eq_natCast_iff' a b secpQ).1 hab
  rwa [Nat.mod_eq_of_lt ha, Nat.mod_eq_of_lt hb] at this

/-- the group part of the oracle `h` behaves like a `Zq`-module `G` with canonical encodings -/
structure GroupOracle (h : Query → Bytes) (G : Type) [AddCommGroup G] [Module Zq G] where
  /-- the point a byte string stands for (only meaningful on `Canon` strings) -/
  dec : Bytes → G
  /-- the generator `ProjectivePoint::GENERATOR` -/
  gen : G
  /-- valid point encodings (33-byte compressed SEC1, identity = 33 zero bytes) -/
  Canon : Bytes → Prop
  /-- canonical encodings: equal points have equal bytes -/
  dec_inj : ∀ {a b : Bytes}, Canon a → Canon b → dec a = dec b → a = b
  canon_length : ∀ {p : Bytes}, Canon p → p.length = 33
  canon_identity : Canon (List.replicate 33 0)
  dec_identity : dec (List.replicate 33 0) = 0
  /-- `[1]` exactly on valid encodings (`GroupEncoding::from_bytes(..).is_some()`) -/
  valid : ∀ p : Bytes, h (.ecValid .secp256k1 p) = [1] ↔ Canon p
  canon_mulGen : ∀ k : ℕ, Canon (h (.ecMulGen .secp256k1 k))
  canon_mul : ∀ {p : Bytes} (k : ℕ), Canon p → Canon (h (.ecMul .secp256k1 p k))
  canon_add : ∀ {p q : Bytes}, Canon p → Canon q → Canon (h (.ecAdd .secp256k1 p q))
  canon_neg : ∀ {p : Bytes}, Canon p → Canon (h (.ecNeg .secp256k1 p))
  mulGen : ∀ k : ℕ, dec (h (.ecMulGen .secp256k1 k)) = (k : Zq) • gen
  mul : ∀ {p : Bytes} (k : ℕ), Canon p → dec (h (.ecMul .secp256k1 p k)) = (k : Zq) • dec p
  add : ∀ {p q : Bytes}, Canon p → Canon q → dec (h (.ecAdd .secp256k1 p q)) = dec p + dec q
  neg : ∀ {p : Bytes}, Canon p → dec (h (.ecNeg .secp256k1 p)) = - dec p

namespace GroupOracle
variable {h : Query → Bytes} {G : Type} [AddCommGroup G] [Module Zq G] (go : GroupOracle h G)

/-- on valid encodings, equality of bytes is equality of points -/
theorem eq_iff {a b : Bytes} (ha : go.Canon a) (hb : go.Canon b) : a = b ↔ go.dec a = go.dec b :=
  ⟨fun e => e ▸ rfl, go.dec_inj ha hb⟩

/-- the `==` of the models on valid encodings -/
theorem beq_iff {a b : Bytes} (ha : go.Canon a) (hb : go.Canon b) : (a == b) = true ↔ go.dec a = go.dec b := by
  rw [beq_iff_eq]; exact go.eq_iff ha hb

/-- a valid encoding is never the one-byte string `[0]` (SEC1 identity) -/
theorem canon_ne_singleton {p : Bytes} (hp : go.Canon p) (b : ℕ) : p ≠ [b] := by
  intro e; have := go.canon_length hp; rw [e] at this; simp at this

/-- the encoding of the generator -/
theorem dec_gen : go.dec (h (.ecMulGen .secp256k1 1)) = go.gen := by
  rw [go.mulGen]; simp

/-- `P` has full order: no non-zero scalar kills it.  For the prime `secpQ` this is `P ≠ 0`. -/
def FullOrder (P : G) : Prop := ∀ a : Zq, a • P = 0 → a = 0

omit go in
theorem FullOrder.smul_cancel {P : G} (hP : FullOrder P) {a b : Zq} (e : a • P = b • P) : a = b := by
  have : (a - b) • P = 0 := by rw [sub_smul, e, sub_self]
  exact sub_eq_zero.1 (hP _ this)

omit go in
theorem FullOrder.ne_zero {P : G} (hP : FullOrder P) : P ≠ 0 := by
  intro e
  have : (1 : Zq) = 0 := hP 1 (by rw [e, smul_zero])
  have h2 : ((1 : ℕ) : Zq) = ((0 : ℕ) : Zq) := by simpa using this
  have := natCast_inj_of_lt (by decide) (by decide) h2
  omega

omit go in
/-- a unit multiple of a full-order point has full order -/
theorem FullOrder.smul_unit {P : G} (hP : FullOrder P) {x : Zq} (hx : IsUnit x) : FullOrder (x • P) := by
  intro a ha
  rw [smul_smul] at ha
  have := hP _ ha
  exact (hx.mul_left_eq_zero).1 this

omit go in
/-- IF `secpQ` is prime (it is; this development does not prove it and uses it nowhere else), every scalar that is
    non-zero modulo `secpQ` is a unit, so `x • B` has full order whenever `B` has and `x ≠ 0`. -/
theorem isUnit_of_prime (hp : Nat.Prime secpQ) {x : ℕ} (hx : x % secpQ ≠ 0) : IsUnit (x : Zq) := by
  rw [ZMod.isUnit_iff_coprime]
  rw [Nat.coprime_comm, Nat.Prime.coprime_iff_not_dvd hp]
  intro hd; exact hx (Nat.mod_eq_zero_of_dvd hd)

end GroupOracle

/-! ### byte-string round trips (used by the toy instance) -/

theorem beToNat_reverse (l : Bytes) : beToNat l.reverse = leToNat l := by
  unfold beToNat
  rw [List.foldl_reverse]
  induction l with
  | nil => rfl
  | cons b bs ih => simp only [List.foldr_cons, leToNat, ih]; ring

theorem leToNat_natToLe (len n : ℕ) : leToNat (natToLe len n) = n % 256 ^ len := by
  induction len generalizing n with
  | zero => simp [natToLe, leToNat, Nat.mod_one]
  | succ k ih => rw [natToLe, leToNat, ih, pow_succ', Nat.mod_mul]

theorem beToNat_natToBe (len n : ℕ) : beToNat (natToBe len n) = n % 256 ^ len := by
  rw [natToBe, beToNat_reverse, leToNat_natToLe]

theorem natToBe_length (len n : ℕ) : (natToBe len n).length = len := by
  rw [natToBe, List.length_reverse, natToLe_length]

/-! ### a concrete instance: `G = Zq`, 33-byte big-endian encodings -/
namespace GroupOracle.Toy

/-- encoding of (the class of) `n` -/
def enc (n : ℕ) : Bytes := natToBe 33 (n % secpQ)

/-- decoding: big-endian value modulo `secpQ` -/
def dec (b : Bytes) : Zq := (beToNat b : Zq)

/-- valid encodings are exactly the `enc n` -/
def Canon (p : Bytes) : Prop := p = enc (beToNat p)

/-- an oracle whose secp256k1 part computes in `Zq` (generator `1`); merlin challenges are answered by an arbitrary
    function `mer` of the transcript; everything else answers `[]` -/
def h (mer : Transcript → Bytes) : Query → Bytes
  | .merlin T => mer T
  | .ecMulGen .secp256k1 k => enc k
  | .ecMul .secp256k1 p k => enc (k * beToNat p)
  | .ecAdd .secp256k1 p q => enc (beToNat p + beToNat q)
  | .ecNeg .secp256k1 p => enc (secpQ - beToNat p % secpQ)
  | .ecValid .secp256k1 p => if p = enc (beToNat p) then [1] else [0]
  | _ => []

theorem secpQ_lt : secpQ < 256 ^ 33 := by decide

theorem beToNat_enc (n : ℕ) : beToNat (enc n) = n % secpQ := by
  rw [enc, beToNat_natToBe, Nat.mod_eq_of_lt]
  exact lt_trans (Nat.mod_lt _ (by decide)) secpQ_lt

theorem dec_enc (n : ℕ) : dec (enc n) = (n : Zq) := by
  rw [dec, beToNat_enc, natCast_mod_secpQ]

theorem canon_enc (n : ℕ) : Canon (enc n) := by
  rw [Canon, beToNat_enc, enc, enc, Nat.mod_mod]

/-- the toy oracle is a `GroupOracle` on the additive group of `Zq` -/
def inst (mer : Transcript → Bytes) : GroupOracle (h mer) Zq where
  dec := dec
  gen := 1
  Canon := Canon
  dec_inj := by
    intro a b ha hb e
    have e' := (ZMod.natCast_eq_natCast_iff' _ _ _).1 e
    rw [ha, hb, enc, enc, e']
  canon_length := by intro p hp; rw [hp, enc, natToBe_length]
  canon_identity := by
    have e : beToNat (List.replicate 33 0) = 0 := by decide
    rw [Canon, e]; decide
  dec_identity := by
    have e : beToNat (List.replicate 33 0) = 0 := by decide
    rw [dec, e]; exact Nat.cast_zero
  valid := by
    intro p
    show (if p = enc (beToNat p) then [1] else [0]) = [1] ↔ p = enc (beToNat p)
    by_cases hc : p = enc (beToNat p)
    · rw [if_pos hc]; exact ⟨fun _ => hc, fun _ => rfl⟩
    · rw [if_neg hc]; exact ⟨fun e => by simp at e, fun e => absurd e hc⟩
  canon_mulGen := fun k => canon_enc _
  canon_mul := fun _ _ => canon_enc _
  canon_add := fun _ _ => canon_enc _
  canon_neg := fun _ => canon_enc _
  mulGen := by intro k; show dec (enc k) = _; rw [dec_enc]; simp
  mul := by
    intro p k _
    show dec (enc (k * beToNat p)) = (k : Zq) • dec p
    rw [dec_enc, dec]; simp
  add := by
    intro p q _ _
    show dec (enc (beToNat p + beToNat q)) = dec p + dec q
    rw [dec_enc, dec, dec]; simp
  neg := by
    intro p _
    show dec (enc (secpQ - beToNat p % secpQ)) = - dec p
    rw [dec_enc, dec, Nat.cast_sub (Nat.le_of_lt (Nat.mod_lt _ (by decide))), natCast_mod_secpQ,
      ZMod.natCast_self]
    simp

/-- in the toy group the generator has full order -/
theorem fullOrder_gen : FullOrder (G := Zq) (1 : Zq) := by
  intro a ha; simpa using ha

end GroupOracle.Toy

end SlVerif
