import SlVerif.Proofs.PaillierArith
/-
  Model-level lemmas for C07 / C08: values of the key fields of `fromPQ`, and the two central results
  `decrypt_of_modEq` / `decryptFast_of_modEq`:  any `c ≡ (1+mN) r^N (mod N²)` with `r` a unit decrypts to `m % N`
  through either path.
-/
namespace SlVerif.Paillier

namespace ValidKey
set_option linter.unusedSectionVars false
variable {P p q : Nat} (hk : ValidKey P p q)
include hk

theorem three_le_p : 3 ≤ p := by
  have := hk.pp.two_le; have := hk.oddp; omega
theorem three_le_q : 3 ≤ q := by
  have := hk.pq.two_le; have := hk.oddq; omega
theorem coprime_pq : Nat.Coprime p q := (Nat.coprime_primes hk.pp hk.pq).mpr hk.ne
theorem symm : ValidKey P q p where
  pp := hk.pq
  pq := hk.pp
  oddp := hk.oddq
  oddq := hk.oddp
  ne := hk.ne.symm
  cop := by have := hk.cop; rwa [mul_comm p q, mul_comm (p - 1) (q - 1)] at this
  ltp := hk.ltq
  ltq := hk.ltp
theorem totient_n : (p * q).totient = (p - 1) * (q - 1) := by
  rw [Nat.totient_mul hk.coprime_pq, Nat.totient_prime hk.pp, Nat.totient_prime hk.pq]
theorem one_lt_n : 1 < p * q := by
  have := hk.three_le_p; have := hk.three_le_q; nlinarith
theorem n_lt : p * q < 2 ^ (2 * P) := mul_lt_two_pow hk.ltp hk.ltq
theorem nn_lt : (p * q) * (p * q) < 2 ^ (4 * P) := by
  have h := hk.n_lt
  have : 2 ^ (4 * P) = 2 ^ (2 * P) * 2 ^ (2 * P) := by rw [← pow_add]; congr 1; ring
  rw [this]; exact Nat.mul_lt_mul'' h h
theorem phi_le_n : (p - 1) * (q - 1) ≤ p * q := Nat.mul_le_mul (Nat.sub_le _ _) (Nat.sub_le _ _)
theorem one_lt_phi : 1 < (p - 1) * (q - 1) := by
  have h1 : 2 ≤ p - 1 := by have := hk.three_le_p; omega
  have h2 : 2 ≤ q - 1 := by have := hk.three_le_q; omega
  nlinarith
theorem coprime_r_p {r : Nat} (hr : Nat.Coprime r (p * q)) : Nat.Coprime r p := Nat.Coprime.coprime_mul_right_right hr
theorem coprime_r_q {r : Nat} (hr : Nat.Coprime r (p * q)) : Nat.Coprime r q := Nat.Coprime.coprime_mul_left_right hr
end ValidKey

/-! ### key fields -/

theorem h_eq {P p q : Nat} (hp3 : 3 ≤ p) (hcop : Nat.Coprime p q) (hlt : p < 2 ^ P) :
    h P p (p * p) (q * p) = invMod (p - q % p) p := by
  have hp0 : 0 < p := by omega
  have hndvd : ¬ p ∣ q := by
    intro hd
    have := Nat.Coprime.eq_one_of_dvd hcop hd
    omega
  have ht0 : 0 < q % p := by
    rcases Nat.eq_zero_or_pos (q % p) with h0 | h0
    · exact absurd (Nat.dvd_of_mod_eq_zero h0) hndvd
    · exact h0
  have htp : q % p < p := Nat.mod_lt _ hp0
  set t := q % p with ht
  have hpp := sq_lt_two_pow hlt
  have h1 : t * p + p ≤ p * p := by
    have : (t + 1) * p ≤ p * p := Nat.mul_le_mul_right _ (by omega)
    linarith
  have h2 : 3 ≤ t * p := by nlinarith
  unfold h
  simp only
  rw [Nat.mul_mod_mul_right p q p, ← ht]
  rw [subMod_of_lt (by omega) (by omega) (by omega) (by omega)]
  rw [wrappingSub_eq (by omega) (by omega)]
  have h3 : 1 + p * p - t * p - 1 = (p - t) * p := by
    rw [Nat.sub_mul]; omega
  rw [h3, Nat.mul_div_cancel _ hp0]
  exact resize_eq (lt_trans (invMod_lt _ _ hp0) hlt)

section fields
variable {P p q : Nat}

@[simp] theorem fromPQ_n : (fromPQ P p q).n = p * q := by show q * p = p * q; ring
@[simp] theorem fromPQ_nn : (fromPQ P p q).nn = (p * q) * (p * q) := by show (q * p) * (q * p) = _; ring
@[simp] theorem fromPQ_p : (fromPQ P p q).p = p := rfl
@[simp] theorem fromPQ_q : (fromPQ P p q).q = q := rfl
@[simp] theorem fromPQ_pp : (fromPQ P p q).pp = p * p := rfl
@[simp] theorem fromPQ_qq : (fromPQ P p q).qq = q * q := rfl
@[simp] theorem fromPQ_pinv_q : (fromPQ P p q).pinv_q = invMod p q := rfl

theorem fromPQ_phi (hk : ValidKey P p q) : (fromPQ P p q).phi = (p - 1) * (q - 1) := by
  show wrappingSub P q 1 * wrappingSub P p 1 = _
  rw [wrappingSub_eq (by have := hk.three_le_q; omega) hk.ltq,
    wrappingSub_eq (by have := hk.three_le_p; omega) hk.ltp, mul_comm]

theorem fromPQ_inv_phi (hk : ValidKey P p q) :
    (fromPQ P p q).inv_phi = invMod ((p - 1) * (q - 1)) (p * q) := by
  show invMod (wrappingSub P q 1 * wrappingSub P p 1) (q * p) = _
  rw [wrappingSub_eq (by have := hk.three_le_q; omega) hk.ltq,
    wrappingSub_eq (by have := hk.three_le_p; omega) hk.ltp, mul_comm (q - 1), mul_comm q p]

theorem fromPQ_hp (hk : ValidKey P p q) : (fromPQ P p q).hp = invMod (p - q % p) p :=
  h_eq hk.three_le_p hk.coprime_pq hk.ltp

theorem fromPQ_hq (hk : ValidKey P p q) : (fromPQ P p q).hq = invMod (q - p % q) q := by
  show h P q (q * q) (q * p) = _
  rw [mul_comm q p]
  exact h_eq hk.three_le_q hk.coprime_pq.symm hk.ltq

end fields

/-! ### the standard decryption path -/

/-- `c ≡ (1 + a n) x^n (mod n²)` and `x^k ≡ 1 (mod n)` give `c^k mod n² = 1 + (k a mod n) n` -/
theorem pow_mod_sq {n a k x c : Nat} (hn : 1 < n) (hx : x ^ k ≡ 1 [MOD n])
    (hc : c ≡ (1 + a * n) * x ^ n [MOD n * n]) : c ^ k % (n * n) = 1 + (k * a % n) * n := by
  have h1 : c ^ k ≡ (1 + a * n) ^ k * (x ^ n) ^ k [MOD n * n] := by
    rw [← mul_pow]; exact hc.pow k
  have h2 : (x ^ n) ^ k ≡ 1 [MOD n * n] := by
    rw [← pow_mul, mul_comm n k, pow_mul]; exact pow_self_of_modEq_one n _ hx
  have h3 : c ^ k ≡ 1 + k * a * n [MOD n * n] := by
    refine h1.trans ?_
    have := (one_add_mul_pow n a k).mul h2
    simpa using this
  have := h3; unfold Nat.ModEq at this
  rw [this, one_add_mul_mod n (k * a) hn]

theorem decrypt_of_modEq {P p q : Nat} (hk : ValidKey P p q) {c m r : Nat}
    (hr : Nat.Coprime r (p * q))
    (hc : c ≡ (1 + m * (p * q)) * r ^ (p * q) [MOD (p * q) * (p * q)]) :
    decrypt P (fromPQ P p q) c = m % (p * q) := by
  have hN1 := hk.one_lt_n
  have hNlt := hk.n_lt
  have hNNlt := hk.nn_lt
  have hphi_lt : (p - 1) * (q - 1) < 2 ^ (2 * P) := lt_of_le_of_lt hk.phi_le_n hNlt
  have hrφ : r ^ ((p - 1) * (q - 1)) ≡ 1 [MOD p * q] := by
    rw [← hk.totient_n]; exact Nat.ModEq.pow_totient hr
  have hpow := pow_mod_sq hN1 hrφ hc
  set e := (p - 1) * (q - 1) * m % (p * q) with he
  have helt : e < p * q := Nat.mod_lt _ (by omega)
  have heN : 1 + e * (p * q) < (p * q) * (p * q) := by
    rw [← hpow]; exact Nat.mod_lt _ (by positivity)
  unfold decrypt
  simp only [fromPQ_n, fromPQ_nn, fromPQ_phi hk, fromPQ_inv_phi hk]
  rw [resize_eq hphi_lt, powBounded_eq, Nat.mod_eq_of_lt hphi_lt, hpow]
  rw [wrappingSub_eq (by omega) (by omega), Nat.add_sub_cancel_left,
    Nat.mul_div_cancel _ (by omega), resize_eq (by omega), Nat.mod_eq_of_lt helt]
  -- (e * φ⁻¹) % N = m % N
  have hinv := invMod_spec ((p - 1) * (q - 1)) (p * q) (by omega) hk.cop.symm
  have h1 : e ≡ (p - 1) * (q - 1) * m [MOD p * q] := Nat.mod_modEq _ _
  have h2 := h1.mul_right (invMod ((p - 1) * (q - 1)) (p * q))
  have h3 : (p - 1) * (q - 1) * m * invMod ((p - 1) * (q - 1)) (p * q)
      = m * ((p - 1) * (q - 1) * invMod ((p - 1) * (q - 1)) (p * q)) := by ring
  rw [h3] at h2
  have h4 := h2.trans (hinv.mul_left m)
  rw [mul_one] at h4
  exact h4

/-! ### the CRT decryption path -/

theorem mp_spec {P p q : Nat} (hp : p.Prime) (hp3 : 3 ≤ p) (hlt : p < 2 ^ P) (hcop : Nat.Coprime p q)
    {c m r : Nat} (hr : Nat.Coprime r p)
    (hc : c ≡ (1 + m * (p * q)) * r ^ (p * q) [MOD p * p]) :
    mp P (c % (p * p)) p (invMod (p - q % p) p) (p * p) = m % p := by
  have hp0 : 0 < p := by omega
  have hpp := sq_lt_two_pow hlt
  -- c ≡ (1 + (m q) p) (r^q)^p
  have hc' : c ≡ (1 + (m * q) * p) * (r ^ q) ^ p [MOD p * p] := by
    have h1 : (1 + m * (p * q)) * r ^ (p * q) = (1 + (m * q) * p) * (r ^ q) ^ p := by
      rw [← pow_mul, mul_comm q p]; ring
    rwa [h1] at hc
  have hx : (r ^ q) ^ (p - 1) ≡ 1 [MOD p] := by
    have := Nat.ModEq.pow_totient (Nat.Coprime.pow_left q hr)
    rwa [Nat.totient_prime hp] at this
  have hpow := pow_mod_sq (by omega : 1 < p) hx hc'
  set e := (p - 1) * (m * q) % p with he
  have helt : e < p := Nat.mod_lt _ hp0
  have hep : 1 + e * p < p * p := by
    rw [← hpow]; exact Nat.mod_lt _ (by positivity)
  unfold mp
  simp only
  rw [wrappingSub_eq (w := P) (a := p) (b := 1) (by omega) hlt,
    resize_eq (w := P) (a := p - 1) (by omega), powBounded_eq,
    Nat.mod_eq_of_lt (by omega : p - 1 < 2 ^ P), ← Nat.pow_mod, hpow]
  rw [wrappingSub_eq (by omega) (by omega), Nat.add_sub_cancel_left,
    Nat.mul_div_cancel _ hp0, resize_eq (by omega), Nat.mod_eq_of_lt helt]
  -- (e * h) % p = m % p, in ZMod p
  have htp : q % p ≤ p := Nat.le_of_lt (Nat.mod_lt _ hp0)
  have hcop' : Nat.Coprime (p - q % p) p := by
    have h1 : Nat.Coprime (q % p) p := by
      rw [Nat.Coprime, ← Nat.gcd_rec]; exact hcop
    exact (Nat.coprime_self_sub_left htp).mpr h1
  have hinv := invMod_spec (p - q % p) p hp0 hcop'
  set hh := invMod (p - q % p) p
  have hinvZ : (-(q : ZMod p)) * (hh : ZMod p) = 1 := by
    have := (ZMod.natCast_eq_natCast_iff _ _ _).mpr hinv
    push_cast [Nat.cast_sub htp, ZMod.natCast_mod, ZMod.natCast_self] at this
    simpa using this
  apply (ZMod.natCast_eq_natCast_iff' _ _ _).mp
  rw [he]
  push_cast [ZMod.natCast_mod, Nat.cast_sub (by omega : 1 ≤ p), ZMod.natCast_self]
  calc ((0 : ZMod p) - 1) * ((m : ZMod p) * (q : ZMod p)) * (hh : ZMod p)
      = (m : ZMod p) * (-(q : ZMod p) * (hh : ZMod p)) := by ring
    _ = (m : ZMod p) := by rw [hinvZ, mul_one]

theorem decryptFast_of_modEq {P p q : Nat} (hk : ValidKey P p q) {c m r : Nat}
    (hr : Nat.Coprime r (p * q))
    (hc : c ≡ (1 + m * (p * q)) * r ^ (p * q) [MOD (p * q) * (p * q)]) :
    decryptFast P (fromPQ P p q) c = m % (p * q) := by
  have hcp : c ≡ (1 + m * (p * q)) * r ^ (p * q) [MOD p * p] :=
    hc.of_dvd ⟨q * q, by ring⟩
  have hcq : c ≡ (1 + m * (q * p)) * r ^ (q * p) [MOD q * q] := by
    rw [mul_comm q p]; exact hc.of_dvd ⟨p * p, by ring⟩
  have hmp := mp_spec hk.pp hk.three_le_p hk.ltp hk.coprime_pq (hk.coprime_r_p hr) hcp
  have hmq := mp_spec hk.pq hk.three_le_q hk.ltq hk.coprime_pq.symm (hk.coprime_r_q hr) hcq
  unfold decryptFast decompose
  simp only [fromPQ_p, fromPQ_q, fromPQ_pp, fromPQ_qq, fromPQ_pinv_q, fromPQ_hp hk, fromPQ_hq hk]
  rw [hmp, hmq]
  exact recombine_spec hk.ltp hk.ltq (by have := hk.three_le_q; omega) hk.coprime_pq
    (invMod_spec p q (by have := hk.three_le_q; omega) hk.coprime_pq) rfl rfl
    (by have := hk.three_le_p; omega)

/-! ### N-th roots -/

theorem nroot_half {P p d r N : Nat} (hp : p.Prime) (hp3 : 3 ≤ p) (hlt : p < 2 ^ P) (hpN : p ∣ N)
    (hr : Nat.Coprime r p) (hd : (N * d) % (p - 1) = 1) :
    powBounded p (r ^ N % N % p) (d % (p - 1)) P = r % p := by
  have hp0 : 0 < p := by omega
  have hdlt : d % (p - 1) < p - 1 := Nat.mod_lt _ (by omega)
  rw [powBounded_eq, Nat.mod_eq_of_lt (by omega : d % (p - 1) < 2 ^ P), Nat.mod_mod_of_dvd _ hpN,
    ← Nat.pow_mod, ← pow_mul]
  have hx : r ^ (p - 1) ≡ 1 [MOD p] := by
    have := Nat.ModEq.pow_totient hr
    rwa [Nat.totient_prime hp] at this
  have he : (N * (d % (p - 1))) % (p - 1) = 1 := by
    rw [Nat.mul_mod, Nat.mod_mod, ← Nat.mul_mod]; exact hd
  exact pow_of_mod_eq_one hx he

theorem extractNRoot_spec {P p q : Nat} (hk : ValidKey P p q) {r : Nat} (hr : Nat.Coprime r (p * q)) :
    extractNRoot P (fromPQ P p q) (r ^ (p * q) % (p * q)) (extractNRootInitParams P (fromPQ P p q))
      = r % (p * q) := by
  have hp3 := hk.three_le_p
  have hq3 := hk.three_le_q
  have hφ1 := hk.one_lt_phi
  have hd := invMod_spec (p * q) ((p - 1) * (q - 1)) (by omega) hk.cop
  obtain ⟨d, hdd⟩ : ∃ d, d = invMod (p * q) ((p - 1) * (q - 1)) := ⟨_, rfl⟩
  rw [← hdd] at hd
  have hdp : (p * q * d) % (p - 1) = 1 := by
    have := hd.of_mul_right (q - 1)
    unfold Nat.ModEq at this
    rwa [Nat.mod_eq_of_lt (by omega : 1 < p - 1)] at this
  have hdq : (p * q * d) % (q - 1) = 1 := by
    have := hd.of_mul_left (p - 1)
    unfold Nat.ModEq at this
    rwa [Nat.mod_eq_of_lt (by omega : 1 < q - 1)] at this
  unfold extractNRoot extractNRootInitParams decompose
  simp only [fromPQ_p, fromPQ_q, fromPQ_n, fromPQ_pinv_q, fromPQ_phi hk]
  rw [← hdd]
  rw [wrappingSub_eq (by omega) hk.ltp, wrappingSub_eq (by omega) hk.ltq]
  rw [nroot_half hk.pp hp3 hk.ltp (Dvd.intro _ rfl) (hk.coprime_r_p hr) hdp,
    nroot_half hk.pq hq3 hk.ltq (Dvd.intro_left _ rfl) (hk.coprime_r_q hr) hdq]
  exact recombine_spec hk.ltp hk.ltq (by omega) hk.coprime_pq
    (invMod_spec p q (by omega) hk.coprime_pq) rfl rfl (by omega)

end SlVerif.Paillier

namespace SlVerif.Paillier

/-! ### encryption and the homomorphic operations -/

theorem enc_eq {P p q : Nat} (hk : ValidKey P p q) {m : Nat} (hm : m < p * q) (r : Nat) :
    encryptWithR P (fromPQ P p q) m r = (1 + m * (p * q)) * r ^ (p * q) % ((p * q) * (p * q)) := by
  have hNN := hk.nn_lt
  have h1 : m * (p * q) + 1 ≤ (p * q) * (p * q) := by
    have : (m + 1) * (p * q) ≤ (p * q) * (p * q) := Nat.mul_le_mul_right _ hm
    have := hk.one_lt_n
    nlinarith
  unfold encryptWithR mulRes
  simp only [fromPQ_n, fromPQ_nn]
  rw [powBounded_eq, Nat.mod_eq_of_lt (lt_two_pow_bitsVartime _), wrappingAdd_eq (by omega),
    Nat.mod_mod, ← Nat.mul_mod, add_comm]

theorem enc_modEq {P p q : Nat} (hk : ValidKey P p q) {m : Nat} (hm : m < p * q) (r : Nat) :
    encryptWithR P (fromPQ P p q) m r ≡ (1 + m * (p * q)) * r ^ (p * q) [MOD (p * q) * (p * q)] := by
  rw [enc_eq hk hm]; exact Nat.mod_modEq _ _

theorem add_eq {P p q : Nat} (c1 c2 : Nat) :
    add (fromPQ P p q) c1 c2 = c1 * c2 % ((p * q) * (p * q)) := by
  unfold add mulRes
  simp only [fromPQ_nn]
  rw [← Nat.mul_mod]

theorem mul_eq {P p q : Nat} (c : Nat) {k : Nat} (hk : k < 2 ^ (2 * P)) :
    mul P (fromPQ P p q) c k = c ^ k % ((p * q) * (p * q)) := by
  unfold mul
  simp only [fromPQ_nn]
  rw [powBounded_eq, Nat.mod_eq_of_lt hk]

theorem mulVartime_eq {P p q : Nat} (c : Nat) {k : Nat} (hk : k < 2 ^ (2 * P)) :
    mulVartime P (fromPQ P p q) c k = c ^ k % ((p * q) * (p * q)) := by
  unfold mulVartime
  simp only [fromPQ_nn]
  rw [resize_eq hk, powBounded_eq, Nat.mod_eq_of_lt (lt_two_pow_bitsVartime _)]

/-- the product of two encryptions is an encryption of the sum (as a congruence, before any decryption) -/
theorem add_enc_modEq {P p q : Nat} (hk : ValidKey P p q) {m1 m2 : Nat} (h1 : m1 < p * q) (h2 : m2 < p * q)
    (r1 r2 : Nat) :
    add (fromPQ P p q) (encryptWithR P (fromPQ P p q) m1 r1) (encryptWithR P (fromPQ P p q) m2 r2)
      ≡ (1 + (m1 + m2) * (p * q)) * (r1 * r2) ^ (p * q) [MOD (p * q) * (p * q)] := by
  rw [add_eq]
  refine (Nat.mod_modEq _ _).trans ?_
  refine ((enc_modEq hk h1 r1).mul (enc_modEq hk h2 r2)).trans ?_
  have : (1 + m1 * (p * q)) * r1 ^ (p * q) * ((1 + m2 * (p * q)) * r2 ^ (p * q))
      = (1 + (m1 + m2) * (p * q)) * (r1 * r2) ^ (p * q)
        + (p * q) * (p * q) * (m1 * m2 * (r1 * r2) ^ (p * q)) := by
    rw [mul_pow]; ring
  unfold Nat.ModEq
  rw [this, Nat.add_mul_mod_self_left]

/-- a power of an encryption is an encryption of the multiple -/
theorem mul_enc_modEq {P p q : Nat} (hk : ValidKey P p q) {m k : Nat} (hm : m < p * q) (hkk : k < 2 ^ (2 * P))
    (r : Nat) :
    mul P (fromPQ P p q) (encryptWithR P (fromPQ P p q) m r) k
      ≡ (1 + (k * m) * (p * q)) * (r ^ k) ^ (p * q) [MOD (p * q) * (p * q)] := by
  rw [mul_eq _ hkk]
  refine (Nat.mod_modEq _ _).trans ?_
  refine ((enc_modEq hk hm r).pow k).trans ?_
  rw [mul_pow, ← pow_mul, ← pow_mul, mul_comm (p * q) k]
  exact (one_add_mul_pow (p * q) m k).mul_right _

/-! ### plaintext admission -/

theorem leToNat_append (a b : List Nat) : leToNat (a ++ b) = leToNat a + 256 ^ a.length * leToNat b := by
  induction a with
  | nil => simp [leToNat]
  | cons x xs ih => simp only [List.cons_append, leToNat, ih, List.length_cons, pow_succ]; ring

theorem leToNat_eq_zero_of_all_zero (l : List Nat) (h : ∀ b ∈ l, b = 0) : leToNat l = 0 := by
  induction l with
  | nil => rfl
  | cons x xs ih =>
      have hx : x = 0 := h x (by simp)
      have := ih (fun b hb => h b (by simp [hb]))
      simp [leToNat, hx, this]

theorem leToNat_pos_of_exists_ne_zero (l : List Nat) (h : ∃ b ∈ l, b ≠ 0) : 0 < leToNat l := by
  induction l with
  | nil => simp at h
  | cons x xs ih =>
      obtain ⟨b, hb, hne⟩ := h
      rcases List.mem_cons.mp hb with rfl | hb'
      · simp only [leToNat]; omega
      · have := ih ⟨b, hb', hne⟩
        simp only [leToNat]; omega

theorem two_pow_le_mBytes (P : Nat) : 2 ^ (2 * P) ≤ 256 ^ mBytes P := by
  have : (256 : Nat) = 2 ^ 8 := by norm_num
  rw [this, ← pow_mul]
  apply Nat.pow_le_pow_right (by norm_num)
  unfold mBytes; omega

theorem message_iff {P p q : Nat} (hk : ValidKey P p q) (bytes : List Nat) (v : Nat) :
    message P (fromPQ P p q) bytes = some v ↔ v = leToNat bytes ∧ leToNat bytes < p * q := by
  have hsplit : leToNat bytes = leToNat (bytes.take (mBytes P))
      + 256 ^ (bytes.take (mBytes P)).length * leToNat (bytes.drop (mBytes P)) := by
    conv_lhs => rw [← List.take_append_drop (mBytes P) bytes]
    exact leToNat_append _ _
  unfold message intoMessage
  simp only [fromPQ_n]
  by_cases hany : (bytes.drop (mBytes P)).any (· != 0) = true
  · rw [if_pos hany]
    constructor
    · intro h; cases h
    · rintro ⟨_, hlt⟩
      exfalso
      have hex : ∃ b ∈ bytes.drop (mBytes P), b ≠ 0 := by
        simpa [List.any_eq_true] using hany
      have hpos := leToNat_pos_of_exists_ne_zero _ hex
      have hlen : (bytes.take (mBytes P)).length = mBytes P := by
        rw [List.length_take]
        have : mBytes P < bytes.length := by
          by_contra hcon
          have : bytes.drop (mBytes P) = [] := List.drop_eq_nil_of_le (by omega)
          rw [this] at hex; simp at hex
        omega
      rw [hlen] at hsplit
      have h1 : 256 ^ mBytes P ≤ 256 ^ mBytes P * leToNat (bytes.drop (mBytes P)) :=
        Nat.le_mul_of_pos_right _ hpos
      have h2 := two_pow_le_mBytes P
      have h3 := hk.n_lt
      omega
  · rw [if_neg hany]
    have hall : ∀ b ∈ bytes.drop (mBytes P), b = 0 := by
      intro b hb
      by_contra hne
      exact hany (List.any_eq_true.mpr ⟨b, hb, by simpa using hne⟩)
    rw [leToNat_eq_zero_of_all_zero _ hall, Nat.mul_zero, Nat.add_zero] at hsplit
    rw [hsplit]
    by_cases hlt : leToNat (bytes.take (mBytes P)) < p * q
    · rw [if_pos hlt]
      constructor
      · intro h; cases h; exact ⟨rfl, hlt⟩
      · rintro ⟨rfl, _⟩; rfl
    · rw [if_neg hlt]
      constructor
      · intro h; cases h
      · rintro ⟨_, h⟩; exact absurd h hlt

/-! ### the specification functions are the mathematical formulas -/

theorem specEnc_eq (N m r : Nat) : specEnc N m r = (1 + m * N) * r ^ N % N ^ 2 := by
  unfold specEnc; rw [specPowMod_eq, Nat.mul_mod_mod, pow_two]

theorem specAdd_eq (N c1 c2 : Nat) : specAdd N c1 c2 = c1 * c2 % N ^ 2 := by
  unfold specAdd; rw [pow_two]

theorem specMul_eq (N c k : Nat) : specMul N c k = c ^ k % N ^ 2 := by
  unfold specMul; rw [specPowMod_eq, pow_two]

end SlVerif.Paillier
