import SlVerif.Model.RelaySpec

namespace SlVerif.Relay

/-! ### association-list lemmas (no hypothesis on duplicates: `erase` removes every occurrence) -/

@[simp] theorem lookup_nil (i : Id) : lookup i [] = none := rfl

theorem lookup_cons (i k : Id) (v : Entry) (m : List (Id × Entry)) :
    lookup i ((k, v) :: m) = if k = i then some v else lookup i m := rfl

theorem erase_eq_filter (j : Id) (m : List (Id × Entry)) :
    erase j m = m.filter (fun p => decide (p.1 ≠ j)) := by
  induction m with
  | nil => rfl
  | cons p m ih =>
    obtain ⟨k, v⟩ := p
    by_cases hk : k = j <;> simp [erase, hk, ih]

theorem lookup_erase (i j : Id) (m : List (Id × Entry)) :
    lookup i (erase j m) = if i = j then none else lookup i m := by
  induction m with
  | nil => simp [erase]
  | cons p m ih =>
    obtain ⟨k, v⟩ := p
    by_cases hk : k = j <;> by_cases hi : i = j <;> by_cases hki : k = i <;>
      simp_all [erase, lookup_cons]

theorem lookup_insert (i j : Id) (e : Entry) (m : List (Id × Entry)) :
    lookup i (insert j e m) = if j = i then some e else lookup i m := by
  by_cases h : j = i
  · simp [insert, lookup_cons, h]
  · have h' : ¬ i = j := fun x => h x.symm
    simp [insert, lookup_cons, h, lookup_erase, h']

theorem lookup_eq_some_mem {i : Id} {v : Entry} {m : List (Id × Entry)} (h : lookup i m = some v) :
    (i, v) ∈ m := by
  induction m with
  | nil => simp at h
  | cons p m ih =>
    obtain ⟨k, w⟩ := p
    by_cases hk : k = i
    · simp [lookup_cons, hk] at h; simp [hk, h]
    · simp [lookup_cons, hk] at h; simp [ih h]

theorem lookup_eq_none_iff {i : Id} {m : List (Id × Entry)} : lookup i m = none ↔ i ∉ m.map Prod.fst := by
  induction m with
  | nil => simp
  | cons p m ih =>
    obtain ⟨k, w⟩ := p
    by_cases hk : k = i
    · simp [lookup_cons, hk]
    · have : ¬ i = k := fun x => hk x.symm
      simp [lookup_cons, hk, ih, this]

/-- with distinct keys, membership determines `lookup` -/
theorem lookup_of_mem {i : Id} {v : Entry} {m : List (Id × Entry)} (hnd : (m.map Prod.fst).Nodup)
    (h : (i, v) ∈ m) : lookup i m = some v := by
  induction m with
  | nil => simp at h
  | cons p m ih =>
    obtain ⟨k, w⟩ := p
    simp only [List.map_cons, List.nodup_cons] at hnd
    rcases List.mem_cons.1 h with h | h
    · cases h; simp [lookup_cons]
    · have : k ≠ i := by
        rintro rfl; exact hnd.1 (List.mem_map.2 ⟨_, h, rfl⟩)
      simp [lookup_cons, this, ih hnd.2 h]

theorem nodup_erase {j : Id} {m : List (Id × Entry)} (h : (m.map Prod.fst).Nodup) :
    ((erase j m).map Prod.fst).Nodup := by
  rw [erase_eq_filter]; exact List.Nodup.sublist (List.Sublist.map _ List.filter_sublist) h

theorem nodup_insert {j : Id} {e : Entry} {m : List (Id × Entry)} (h : (m.map Prod.fst).Nodup) :
    ((insert j e m).map Prod.fst).Nodup := by
  simp only [insert, List.map_cons, List.nodup_cons]
  refine ⟨?_, nodup_erase h⟩
  rw [← lookup_eq_none_iff, lookup_erase]; simp

/-! ### one cleanup step and the whole cleanup loop, per id -/

/-- does popping a heap entry of kind `k` at time `now` remove the map entry `v` stored under the same id? -/
def Drops (now : Nat) (v : Entry) (k : Kind) : Prop :=
  match v with
  | .ready _ => k = .pub
  | .waiters exp _ => k = .ask ∧ exp ≤ now

instance (now v k) : Decidable (Drops now v k) := by unfold Drops; cases v <;> exact inferInstance

theorem cleanupOne_eq (now : Nat) (msgs : List (Id × Entry)) (e : Expire) :
    cleanupOne now msgs e =
      match lookup e.id msgs with
      | some v => if Drops now v e.kind then erase e.id msgs else msgs
      | none => msgs := by
  unfold cleanupOne Drops
  split <;> simp_all

theorem lookup_cleanupOne (now : Nat) (msgs : List (Id × Entry)) (e : Expire) (i : Id) (v : Entry) :
    lookup i (cleanupOne now msgs e) = some v ↔
      lookup i msgs = some v ∧ ¬ (e.id = i ∧ Drops now v e.kind) := by
  rw [cleanupOne_eq]
  by_cases hi : e.id = i
  · subst hi
    cases hl : lookup e.id msgs with
    | none => simp [hl]
    | some w =>
      by_cases hd : Drops now w e.kind
      · simp only [hd, if_true, lookup_erase]; simp; rintro rfl; exact hd
      · simp only [hd, if_false, hl]; simp; rintro rfl; exact hd
  · have hi' : ¬ i = e.id := fun x => hi x.symm
    cases hl : lookup e.id msgs with
    | none => simp [hi]
    | some w =>
      by_cases hd : Drops now w e.kind <;> simp [hd, lookup_erase, hi, hi']

/-- the entry stored under `i` survives a run of pops iff none of the popped entries drops it -/
theorem lookup_foldl_cleanupOne (now : Nat) (l : List Expire) (msgs : List (Id × Entry)) (i : Id) (v : Entry) :
    lookup i (l.foldl (cleanupOne now) msgs) = some v ↔
      lookup i msgs = some v ∧ ∀ e ∈ l, e.id = i → ¬ Drops now v e.kind := by
  induction l generalizing msgs with
  | nil => simp
  | cons e l ih =>
    rw [List.foldl_cons, ih, lookup_cleanupOne]
    simp only [List.mem_cons, forall_eq_or_imp, not_and]
    constructor
    · rintro ⟨⟨h1, h2⟩, h3⟩; exact ⟨h1, h2, h3⟩
    · rintro ⟨h1, h2, h3⟩; exact ⟨⟨h1, h2⟩, h3⟩

/-- **pop order is irrelevant**: folding the loop body over any permutation of the due heap entries gives a map with the
    same content as `cleanup` (which processes them in insertion order).  This is what justifies modelling the
    `BinaryHeap` (whose order among equal/unequal due times is its own business) by a list. -/
theorem cleanup_perm (now : Nat) (s : State) (l' : List Expire)
    (hp : l'.Perm (s.heap.filter (fun e => e.when_ ≤ now))) (i : Id) :
    lookup i (l'.foldl (cleanupOne now) s.msgs) = lookup i (cleanup now s).msgs := by
  apply Option.ext; intro v
  simp only [cleanup, lookup_foldl_cleanupOne]
  constructor <;> rintro ⟨h1, h2⟩ <;> refine ⟨h1, fun e he => h2 e ?_⟩
  · exact hp.mem_iff.2 he
  · exact hp.mem_iff.1 he

end SlVerif.Relay

namespace SlVerif.Relay

/-! ### the reachable-state invariant -/

/-- the heap entries announcing the end of life of the message published under `i` -/
def pubs (i : Id) (heap : List Expire) : List Expire :=
  heap.filter (fun e => decide (e.id = i ∧ e.kind = .pub))

/-- expiry time of the message published under `i`: the time of its (unique, see `WF`) `.pub` heap entry -/
def pubExp (i : Id) (heap : List Expire) : Nat :=
  match pubs i heap with
  | e :: _ => e.when_
  | [] => 0

/-- Structural invariant of every reachable relay state (time-free part). -/
structure WF (s : State) : Prop where
  /-- (a) the map has one entry per id -/
  nodup : (s.msgs.map Prod.fst).Nodup
  /-- (b1) a stored message has exactly one `.pub` heap entry -/
  ready_pub : ∀ i m, lookup i s.msgs = some (.ready m) → ∃ w, pubs i s.heap = [⟨w, i, .pub⟩]
  /-- (b2) there is no `.pub` heap entry for an id without stored message -/
  pub_ready : ∀ e ∈ s.heap, e.kind = .pub → ∃ m, lookup e.id s.msgs = some (.ready m)
  /-- (c) a waiters entry is non-empty and the heap holds the entry that will remove it, at exactly its `exp` -/
  waiters_ask : ∀ i exp conns, lookup i s.msgs = some (.waiters exp conns) →
      conns ≠ [] ∧ (⟨exp, i, .ask⟩ : Expire) ∈ s.heap

/-- Invariant after an operation performed at time `now` (also valid for every earlier `now`):
    the structural part, and nothing in the heap is due before `now`. -/
def Inv (now : Nat) (s : State) : Prop := WF s ∧ ∀ e ∈ s.heap, now ≤ e.when_

theorem WF_init : WF {} := ⟨by simp, by simp, by simp, by simp⟩
theorem Inv_init (now : Nat) : Inv now {} := ⟨WF_init, by simp⟩

theorem Inv.mono {now now' : Nat} {s : State} (h : Inv now s) (hle : now' ≤ now) : Inv now' s :=
  ⟨h.1, fun e he => Nat.le_trans hle (h.2 e he)⟩

theorem mem_pubs {i : Id} {heap : List Expire} {e : Expire} :
    e ∈ pubs i heap ↔ e ∈ heap ∧ e.id = i ∧ e.kind = .pub := by
  simp [pubs]

theorem pubs_append (i : Id) (h₁ h₂ : List Expire) : pubs i (h₁ ++ h₂) = pubs i h₁ ++ pubs i h₂ := by
  simp [pubs]

theorem pubs_filter (i : Id) (p : Expire → Bool) (h : List Expire) : pubs i (h.filter p) = (pubs i h).filter p := by
  simp only [pubs, List.filter_filter]; apply List.filter_congr; intro x _; exact Bool.and_comm _ _

theorem WF.pubs_eq {s : State} (h : WF s) {i : Id} {m : Bytes} (hl : lookup i s.msgs = some (.ready m)) :
    pubs i s.heap = [⟨pubExp i s.heap, i, .pub⟩] := by
  obtain ⟨w, hw⟩ := h.ready_pub i m hl
  simp [pubExp, hw]

theorem WF.pubExp_mem {s : State} (h : WF s) {i : Id} {m : Bytes} (hl : lookup i s.msgs = some (.ready m)) :
    (⟨pubExp i s.heap, i, .pub⟩ : Expire) ∈ s.heap := by
  have := h.pubs_eq hl
  have hm : (⟨pubExp i s.heap, i, .pub⟩ : Expire) ∈ pubs i s.heap := by rw [this]; simp
  exact (mem_pubs.1 hm).1

theorem WF.pubs_nil {s : State} (h : WF s) {i : Id} (hl : ∀ m, lookup i s.msgs ≠ some (.ready m)) :
    pubs i s.heap = [] := by
  apply List.eq_nil_iff_forall_not_mem.2
  intro e he
  obtain ⟨h1, h2, h3⟩ := mem_pubs.1 he
  obtain ⟨m, hm⟩ := h.pub_ready e h1 h3
  exact hl m (h2 ▸ hm)

/-! ### `cleanup` on a well-formed state: an entry survives iff its own lifetime has not ended -/

theorem lookup_cleanup_ready {s : State} (h : WF s) (now : Nat) (i : Id) (m : Bytes) :
    lookup i (cleanup now s).msgs = some (.ready m) ↔
      lookup i s.msgs = some (.ready m) ∧ now < pubExp i s.heap := by
  simp only [cleanup, lookup_foldl_cleanupOne, Drops]
  constructor
  · rintro ⟨h1, h2⟩
    refine ⟨h1, ?_⟩
    apply Nat.lt_of_not_le; intro hle
    exact h2 ⟨pubExp i s.heap, i, .pub⟩ (by simp [h.pubExp_mem h1, hle]) rfl rfl
  · rintro ⟨h1, h2⟩
    refine ⟨h1, fun e he hi hk => ?_⟩
    simp only [List.mem_filter, decide_eq_true_eq] at he
    have : e ∈ pubs i s.heap := mem_pubs.2 ⟨he.1, hi, hk⟩
    rw [h.pubs_eq h1] at this
    simp at this; subst this; simp at he; omega

theorem lookup_cleanup_waiters {s : State} (h : WF s) (now : Nat) (i : Id) (exp : Nat) (conns : List Nat) :
    lookup i (cleanup now s).msgs = some (.waiters exp conns) ↔
      lookup i s.msgs = some (.waiters exp conns) ∧ now < exp := by
  simp only [cleanup, lookup_foldl_cleanupOne, Drops]
  constructor
  · rintro ⟨h1, h2⟩
    refine ⟨h1, ?_⟩
    apply Nat.lt_of_not_le; intro hle
    exact h2 ⟨exp, i, .ask⟩ (by simp [(h.waiters_ask _ _ _ h1).2, hle]) rfl ⟨rfl, hle⟩
  · rintro ⟨h1, h2⟩
    exact ⟨h1, fun e _ _ hk => by omega⟩

theorem lookup_cleanup_none {s : State} (now : Nat) (i : Id) (hl : lookup i s.msgs = none) :
    lookup i (cleanup now s).msgs = none := by
  cases h : lookup i (cleanup now s).msgs with
  | none => rfl
  | some v =>
    simp only [cleanup, lookup_foldl_cleanupOne] at h
    rw [hl] at h; simp at h

theorem mem_cleanup_heap {now : Nat} {s : State} {e : Expire} :
    e ∈ (cleanup now s).heap ↔ e ∈ s.heap ∧ now < e.when_ := by
  simp [cleanup]

theorem nodup_foldl_cleanupOne (now : Nat) (l : List Expire) (msgs : List (Id × Entry))
    (h : (msgs.map Prod.fst).Nodup) : ((l.foldl (cleanupOne now) msgs).map Prod.fst).Nodup := by
  induction l generalizing msgs with
  | nil => exact h
  | cons e l ih =>
    rw [List.foldl_cons]; apply ih
    rw [cleanupOne_eq]; split
    · split
      · exact nodup_erase h
      · exact h
    · exact h

theorem WF_cleanup {s : State} (h : WF s) (now : Nat) : WF (cleanup now s) := by
  refine ⟨nodup_foldl_cleanupOne _ _ _ h.nodup, ?_, ?_, ?_⟩
  · intro i m hl
    obtain ⟨h1, h2⟩ := (lookup_cleanup_ready h now i m).1 hl
    refine ⟨pubExp i s.heap, ?_⟩
    show pubs i (s.heap.filter _) = _
    rw [pubs_filter, h.pubs_eq h1]; simp; omega
  · intro e he hk
    obtain ⟨he1, he2⟩ := mem_cleanup_heap.1 he
    obtain ⟨m, hm⟩ := h.pub_ready e he1 hk
    refine ⟨m, (lookup_cleanup_ready h now e.id m).2 ⟨hm, ?_⟩⟩
    have : e ∈ pubs e.id s.heap := mem_pubs.2 ⟨he1, rfl, hk⟩
    rw [h.pubs_eq hm] at this
    simp at this
    rw [this] at he2; exact he2
  · intro i exp conns hl
    obtain ⟨h1, h2⟩ := (lookup_cleanup_waiters h now i exp conns).1 hl
    obtain ⟨hc, hm⟩ := h.waiters_ask _ _ _ h1
    exact ⟨hc, mem_cleanup_heap.2 ⟨hm, h2⟩⟩

theorem pubExp_cleanup {s : State} (h : WF s) {now : Nat} {i : Id} {m : Bytes}
    (hl : lookup i (cleanup now s).msgs = some (.ready m)) : pubExp i (cleanup now s).heap = pubExp i s.heap := by
  obtain ⟨h1, h2⟩ := (lookup_cleanup_ready h now i m).1 hl
  have : pubs i (cleanup now s).heap = [⟨pubExp i s.heap, i, .pub⟩] := by
    show pubs i (s.heap.filter _) = _
    rw [pubs_filter, h.pubs_eq h1]; simp; omega
  simp [pubExp, this]

end SlVerif.Relay

namespace SlVerif.Relay

/-! ### storing an entry and pushing its heap entry -/

theorem pubExp_push_self {heap : List Expire} {i : Id} (w : Nat) (h : pubs i heap = []) :
    pubExp i (heap ++ [⟨w, i, .pub⟩]) = w := by
  have : pubs i (heap ++ [⟨w, i, .pub⟩]) = [⟨w, i, .pub⟩] := by
    rw [pubs_append, h]; simp [pubs]
  simp [pubExp, this]

theorem pubs_push_other {heap : List Expire} {i j : Id} (w : Nat) (k : Kind) (h : j ≠ i ∨ k = .ask) :
    pubs i (heap ++ [⟨w, j, k⟩]) = pubs i heap := by
  rw [pubs_append]
  have : pubs i [⟨w, j, k⟩] = [] := by
    rcases h with h | h <;> simp [pubs, h]
  simp [this]

theorem pubExp_push_other {heap : List Expire} {i j : Id} (w : Nat) (k : Kind) (h : j ≠ i ∨ k = .ask) :
    pubExp i (heap ++ [⟨w, j, k⟩]) = pubExp i heap := by
  simp [pubExp, pubs_push_other w k h]

theorem WF_put_ready {s : State} (h : WF s) (id : Id) (f : Bytes) (w : Nat)
    (hnr : ∀ m, lookup id s.msgs ≠ some (.ready m)) :
    WF { msgs := insert id (.ready f) s.msgs, heap := s.heap ++ [⟨w, id, .pub⟩] } := by
  refine ⟨nodup_insert h.nodup, ?_, ?_, ?_⟩
  · intro i m hl
    simp only [lookup_insert] at hl
    by_cases hi : id = i
    · subst hi
      exact ⟨w, by rw [pubs_append, h.pubs_nil hnr]; simp [pubs]⟩
    · simp only [hi, if_false] at hl
      obtain ⟨w', hw'⟩ := h.ready_pub i m hl
      exact ⟨w', by simp only [pubs_push_other w .pub (Or.inl hi), hw']⟩
  · intro e he hk
    simp only [List.mem_append, List.mem_singleton] at he
    rcases he with he | rfl
    · obtain ⟨m, hm⟩ := h.pub_ready e he hk
      have : id ≠ e.id := by rintro rfl; exact hnr m hm
      exact ⟨m, by simp [lookup_insert, this, hm]⟩
    · exact ⟨f, by simp [lookup_insert]⟩
  · intro i exp conns hl
    simp only [lookup_insert] at hl
    by_cases hi : id = i
    · simp [hi] at hl
    · simp only [hi, if_false] at hl
      obtain ⟨h1, h2⟩ := h.waiters_ask _ _ _ hl
      exact ⟨h1, by simp [h2]⟩

theorem WF_put_waiters {s : State} (h : WF s) (id : Id) (exp w : Nat) (conns : List Nat) (hc : conns ≠ [])
    (hnr : ∀ m, lookup id s.msgs ≠ some (.ready m))
    (hw : w = exp ∨ (⟨exp, id, .ask⟩ : Expire) ∈ s.heap) :
    WF { msgs := insert id (.waiters exp conns) s.msgs, heap := s.heap ++ [⟨w, id, .ask⟩] } := by
  refine ⟨nodup_insert h.nodup, ?_, ?_, ?_⟩
  · intro i m hl
    simp only [lookup_insert] at hl
    by_cases hi : id = i
    · simp [hi] at hl
    · simp only [hi, if_false] at hl
      obtain ⟨w', hw'⟩ := h.ready_pub i m hl
      exact ⟨w', by simp only [pubs_push_other w .ask (Or.inr rfl), hw']⟩
  · intro e he hk
    simp only [List.mem_append, List.mem_singleton] at he
    rcases he with he | rfl
    · obtain ⟨m, hm⟩ := h.pub_ready e he hk
      have : id ≠ e.id := by rintro rfl; exact hnr m hm
      exact ⟨m, by simp [lookup_insert, this, hm]⟩
    · simp at hk
  · intro i exp' conns' hl
    simp only [lookup_insert] at hl
    by_cases hi : id = i
    · subst hi
      simp at hl; obtain ⟨rfl, rfl⟩ := hl
      refine ⟨hc, ?_⟩
      rcases hw with rfl | hw <;> simp [*]
    · simp only [hi, if_false] at hl
      obtain ⟨h1, h2⟩ := h.waiters_ask _ _ _ hl
      exact ⟨h1, by simp [h2]⟩

/-! ### `send` / `recv` in closed form (the entry under `id` after `cleanup` decides) -/

theorem send_ready {s : State} {id : Id} {ttl : Nat} {frame : Bytes} {now : Nat} {m : Bytes}
    (h : lookup id (cleanup now s).msgs = some (.ready m)) :
    send s id ttl frame now = (cleanup now s, []) := by
  simp only [send, h]

theorem send_waiters {s : State} {id : Id} {ttl : Nat} {frame : Bytes} {now : Nat} {exp : Nat} {conns : List Nat}
    (h : lookup id (cleanup now s).msgs = some (.waiters exp conns)) :
    send s id ttl frame now =
      ({ msgs := insert id (.ready frame) (cleanup now s).msgs
         heap := (cleanup now s).heap ++ [⟨now + ttl, id, .pub⟩] }, conns.map fun c => (c, frame)) := by
  simp only [send, h]

theorem send_none {s : State} {id : Id} {ttl : Nat} {frame : Bytes} {now : Nat}
    (h : lookup id (cleanup now s).msgs = none) :
    send s id ttl frame now =
      ({ msgs := insert id (.ready frame) (cleanup now s).msgs
         heap := (cleanup now s).heap ++ [⟨now + ttl, id, .pub⟩] }, []) := by
  simp only [send, h]

theorem recv_ready {s : State} {conn : Nat} {id : Id} {ttl : Nat} {now : Nat} {m : Bytes}
    (h : lookup id (cleanup now s).msgs = some (.ready m)) :
    recv s conn id ttl now = (cleanup now s, [(conn, m)]) := by
  simp only [recv, h]

theorem recv_waiters {s : State} {conn : Nat} {id : Id} {ttl : Nat} {now : Nat} {exp : Nat} {conns : List Nat}
    (h : lookup id (cleanup now s).msgs = some (.waiters exp conns)) :
    recv s conn id ttl now =
      ({ msgs := insert id (.waiters (max (now + ttl) exp) (conns ++ [conn])) (cleanup now s).msgs
         heap := (cleanup now s).heap ++ [⟨now + ttl, id, .ask⟩] }, []) := by
  simp only [recv, h]

theorem recv_none {s : State} {conn : Nat} {id : Id} {ttl : Nat} {now : Nat}
    (h : lookup id (cleanup now s).msgs = none) :
    recv s conn id ttl now =
      ({ msgs := insert id (.waiters (now + ttl) [conn]) (cleanup now s).msgs
         heap := (cleanup now s).heap ++ [⟨now + ttl, id, .ask⟩] }, []) := by
  simp only [recv, h]

/-- the three cases of the entry found under an id -/
theorem entry_cases (o : Option Entry) :
    (∃ m, o = some (.ready m)) ∨ (∃ exp conns, o = some (.waiters exp conns)) ∨ o = none := by
  rcases o with _ | ⟨m⟩ | ⟨e, c⟩ <;> simp

theorem WF_send {s : State} (h : WF s) (id : Id) (ttl : Nat) (frame : Bytes) (now : Nat) :
    WF (send s id ttl frame now).1 := by
  have hc := WF_cleanup h now
  rcases entry_cases (lookup id (cleanup now s).msgs) with ⟨m, hl⟩ | ⟨exp, conns, hl⟩ | hl
  · rw [send_ready hl]; exact hc
  · rw [send_waiters hl]; exact WF_put_ready hc _ _ _ (by simp [hl])
  · rw [send_none hl]; exact WF_put_ready hc _ _ _ (by simp [hl])

theorem WF_recv {s : State} (h : WF s) (conn : Nat) (id : Id) (ttl : Nat) (now : Nat) :
    WF (recv s conn id ttl now).1 := by
  have hc := WF_cleanup h now
  rcases entry_cases (lookup id (cleanup now s).msgs) with ⟨m, hl⟩ | ⟨exp, conns, hl⟩ | hl
  · rw [recv_ready hl]; exact hc
  · rw [recv_waiters hl]
    refine WF_put_waiters hc _ _ _ _ (by simp) (by simp [hl]) ?_
    by_cases hm : exp ≤ now + ttl
    · left; omega
    · right; rw [Nat.max_eq_right (by omega)]; exact (hc.waiters_ask _ _ _ hl).2
  · rw [recv_none hl]; exact WF_put_waiters hc _ _ _ _ (by simp) (by simp [hl]) (Or.inl rfl)

/-- heap after `send`: what `cleanup` left (all strictly later than `now`), plus at most the one entry pushed now -/
theorem send_heap (s : State) (id : Id) (ttl : Nat) (frame : Bytes) (now : Nat) :
    (send s id ttl frame now).1.heap = (cleanup now s).heap ∨
    (send s id ttl frame now).1.heap = (cleanup now s).heap ++ [⟨now + ttl, id, .pub⟩] := by
  rcases entry_cases (lookup id (cleanup now s).msgs) with ⟨m, hl⟩ | ⟨exp, conns, hl⟩ | hl
  · rw [send_ready hl]; simp
  · rw [send_waiters hl]; simp
  · rw [send_none hl]; simp

theorem recv_heap (s : State) (conn : Nat) (id : Id) (ttl : Nat) (now : Nat) :
    (recv s conn id ttl now).1.heap = (cleanup now s).heap ∨
    (recv s conn id ttl now).1.heap = (cleanup now s).heap ++ [⟨now + ttl, id, .ask⟩] := by
  rcases entry_cases (lookup id (cleanup now s).msgs) with ⟨m, hl⟩ | ⟨exp, conns, hl⟩ | hl
  · rw [recv_ready hl]; simp
  · rw [recv_waiters hl]; simp
  · rw [recv_none hl]; simp

/-- `Inv` is re-established by `send` at *any* time `now` (in particular for `now ≥` the time of the previous op) -/
theorem Inv_send {s : State} (h : WF s) (id : Id) (ttl : Nat) (frame : Bytes) (now : Nat) :
    Inv now (send s id ttl frame now).1 := by
  refine ⟨WF_send h .., fun e he => ?_⟩
  rcases send_heap s id ttl frame now with hh | hh <;> rw [hh] at he
  · exact Nat.le_of_lt (mem_cleanup_heap.1 he).2
  · rcases List.mem_append.1 he with he | he
    · exact Nat.le_of_lt (mem_cleanup_heap.1 he).2
    · simp at he; subst he; simp

theorem Inv_recv {s : State} (h : WF s) (conn : Nat) (id : Id) (ttl : Nat) (now : Nat) :
    Inv now (recv s conn id ttl now).1 := by
  refine ⟨WF_recv h .., fun e he => ?_⟩
  rcases recv_heap s conn id ttl now with hh | hh <;> rw [hh] at he
  · exact Nat.le_of_lt (mem_cleanup_heap.1 he).2
  · rcases List.mem_append.1 he with he | he
    · exact Nat.le_of_lt (mem_cleanup_heap.1 he).2
    · simp at he; subst he; simp

/-- consequences of `Inv now`: no map entry whose lifetime ended before `now` -/
theorem Inv.ready_exp {now : Nat} {s : State} (h : Inv now s) {i : Id} {m : Bytes}
    (hl : lookup i s.msgs = some (.ready m)) : now ≤ pubExp i s.heap :=
  h.2 _ (h.1.pubExp_mem hl)

theorem Inv.waiters_exp {now : Nat} {s : State} (h : Inv now s) {i : Id} {exp : Nat} {conns : List Nat}
    (hl : lookup i s.msgs = some (.waiters exp conns)) : now ≤ exp :=
  h.2 _ (h.1.waiters_ask _ _ _ hl).2

end SlVerif.Relay

namespace SlVerif.Relay
open SlVerif.RelaySpec (SEntry Spec)

/-! ### the loop as a filter (list level; needs distinct keys) -/

theorem cleanupOne_eq_filter (now : Nat) (msgs : List (Id × Entry)) (e : Expire)
    (hnd : (msgs.map Prod.fst).Nodup) :
    cleanupOne now msgs e = msgs.filter (fun p => !decide (e.id = p.1 ∧ Drops now p.2 e.kind)) := by
  rw [cleanupOne_eq]
  cases hl : lookup e.id msgs with
  | none =>
    simp only
    symm; apply List.filter_eq_self.2
    intro p hp
    have : e.id ≠ p.1 := by
      intro h; rw [lookup_eq_none_iff] at hl; exact hl (h ▸ List.mem_map.2 ⟨p, hp, rfl⟩)
    simp [this]
  | some v =>
    simp only
    have key : ∀ p ∈ msgs, e.id = p.1 → p.2 = v := by
      intro p hp h
      have := lookup_of_mem hnd (show (p.1, p.2) ∈ msgs from hp)
      rw [← h, hl] at this; exact (Option.some.inj this).symm
    by_cases hd : Drops now v e.kind
    · simp only [hd, if_true, erase_eq_filter]
      apply List.filter_congr
      intro p hp
      by_cases h : e.id = p.1
      · have := key p hp h
        simp [h, this, hd]
      · have h' : ¬ p.1 = e.id := fun x => h x.symm
        simp [h, h']
    · simp only [hd, if_false]
      symm; apply List.filter_eq_self.2
      intro p hp
      by_cases h : e.id = p.1
      · have := key p hp h
        simp [this, hd]
      · simp [h]

theorem foldl_cleanupOne_eq_filter (now : Nat) (l : List Expire) (msgs : List (Id × Entry))
    (hnd : (msgs.map Prod.fst).Nodup) :
    l.foldl (cleanupOne now) msgs =
      msgs.filter (fun p => decide (∀ e ∈ l, e.id = p.1 → ¬ Drops now p.2 e.kind)) := by
  induction l generalizing msgs with
  | nil => exact (List.filter_eq_self.2 (by simp)).symm
  | cons e l ih =>
    rw [List.foldl_cons, cleanupOne_eq_filter now msgs e hnd,
      ih _ (List.Nodup.sublist (List.Sublist.map _ List.filter_sublist) hnd), List.filter_filter]
    apply List.filter_congr
    intro p _
    by_cases h1 : e.id = p.1 <;> by_cases h2 : Drops now p.2 e.kind <;> simp [h1, h2]

/-! ### abstraction to the heap-free specification `RelaySpec` -/

/-- a stored message's expiry is read from its `.pub` heap entry; a waiters entry carries its own -/
def absEntry (heap : List Expire) (i : Id) : Entry → SEntry
  | .ready m => .ready m (pubExp i heap)
  | .waiters exp conns => .waiting exp conns

def abs (s : State) : Spec := s.msgs.map fun p => (p.1, absEntry s.heap p.1 p.2)

theorem slookup_map (heap : List Expire) (i : Id) (msgs : List (Id × Entry)) :
    RelaySpec.lookup i (msgs.map fun p => (p.1, absEntry heap p.1 p.2)) = (lookup i msgs).map (absEntry heap i) := by
  induction msgs with
  | nil => rfl
  | cons p m ih =>
    obtain ⟨k, v⟩ := p
    by_cases hk : k = i
    · subst hk; simp [RelaySpec.lookup, lookup_cons]
    · simp [RelaySpec.lookup, lookup_cons, hk, ih]

/-- the specification state has exactly the concrete entries, with the heap-derived expiry for stored messages -/
theorem lookup_abs (s : State) (i : Id) :
    RelaySpec.lookup i (abs s) = (lookup i s.msgs).map (absEntry s.heap i) := slookup_map _ _ _

theorem abs_cleanup {s : State} (h : WF s) (now : Nat) : abs (cleanup now s) = RelaySpec.sweep now (abs s) := by
  have hc := WF_cleanup h now
  unfold abs RelaySpec.sweep
  rw [List.filter_map]
  have hm : (cleanup now s).msgs = _ := foldl_cleanupOne_eq_filter now _ s.msgs h.nodup
  -- survivors: same abstract entry; survival ⇔ lifetime not ended
  have key : ∀ p ∈ s.msgs, (lookup p.1 (cleanup now s).msgs = some p.2 ↔
      now < (absEntry s.heap p.1 p.2).exp) ∧
      (lookup p.1 (cleanup now s).msgs = some p.2 → absEntry (cleanup now s).heap p.1 p.2 = absEntry s.heap p.1 p.2) := by
    rintro ⟨i, v⟩ hp
    have hl := lookup_of_mem h.nodup hp
    cases v with
    | ready m =>
      refine ⟨?_, ?_⟩
      · rw [lookup_cleanup_ready h]; simp [absEntry, SEntry.exp, hl]
      · intro hlk; simp only [absEntry]; rw [pubExp_cleanup h hlk]
    | waiters exp conns =>
      refine ⟨?_, fun _ => rfl⟩
      rw [lookup_cleanup_waiters h]; simp [absEntry, SEntry.exp, hl]
  have hfil : (cleanup now s).msgs =
      s.msgs.filter ((fun kv : Id × SEntry => decide (now < kv.2.exp)) ∘ fun p => (p.1, absEntry s.heap p.1 p.2)) := by
    rw [hm]; apply List.filter_congr
    intro p hp
    have := (key p hp).1
    have h2 := lookup_foldl_cleanupOne now (s.heap.filter fun e => decide (e.when_ ≤ now)) s.msgs p.1 p.2
    simp only [lookup_of_mem h.nodup (show (p.1, p.2) ∈ s.msgs from hp), true_and] at h2
    simp only [Function.comp]
    rw [Bool.eq_iff_iff]; simp only [decide_eq_true_eq]
    rw [← h2, ← this]; rfl
  rw [hfil]
  apply List.map_congr_left
  intro p hp
  obtain ⟨hp1, hp2⟩ := List.mem_filter.1 hp
  simp only [Function.comp, decide_eq_true_eq] at hp2
  rw [(key p hp1).2 ((key p hp1).1.2 hp2)]

theorem abs_put (msgs : List (Id × Entry)) (heap : List Expire) (id : Id) (v : Entry) (x : Expire)
    (hx : ∀ i, i ≠ id → pubExp i (heap ++ [x]) = pubExp i heap) :
    abs { msgs := insert id v msgs, heap := heap ++ [x] } =
      RelaySpec.put id (absEntry (heap ++ [x]) id v) (abs { msgs := msgs, heap := heap }) := by
  simp only [abs, insert, RelaySpec.put, List.map_cons, erase_eq_filter, List.filter_map]
  congr 1
  apply List.map_congr_left
  intro p hp
  have : p.1 ≠ id := by simpa using (List.mem_filter.1 hp).2
  cases hv : p.2 <;> simp [absEntry, hx p.1 this]

/-- `Inner::send` refines `RelaySpec.publish` (same deliveries, commuting with `abs`) -/
theorem refines_send {s : State} (h : WF s) (id : Id) (ttl : Nat) (frame : Bytes) (now : Nat) :
    RelaySpec.publish (abs s) id ttl frame now = (abs (send s id ttl frame now).1, (send s id ttl frame now).2) := by
  have hc := WF_cleanup h now
  have hx : ∀ i, i ≠ id → pubExp i ((cleanup now s).heap ++ [⟨now + ttl, id, .pub⟩]) = pubExp i (cleanup now s).heap :=
    fun i hi => pubExp_push_other _ _ (Or.inl (Ne.symm hi))
  unfold RelaySpec.publish
  simp only [← abs_cleanup h, lookup_abs]
  rcases entry_cases (lookup id (cleanup now s).msgs) with ⟨m, hl⟩ | ⟨exp, conns, hl⟩ | hl
  · rw [send_ready hl, hl]; rfl
  · rw [send_waiters hl, hl]
    simp only [Option.map_some, absEntry]
    rw [abs_put _ _ _ _ _ hx]
    simp only [absEntry, pubExp_push_self _ (hc.pubs_nil (i := id) (by simp [hl]))]
  · rw [send_none hl, hl]
    simp only [Option.map_none]
    rw [abs_put _ _ _ _ _ hx]
    simp only [absEntry, pubExp_push_self _ (hc.pubs_nil (i := id) (by simp [hl]))]

/-- `Inner::recv` refines `RelaySpec.ask` -/
theorem refines_recv {s : State} (h : WF s) (conn : Nat) (id : Id) (ttl : Nat) (now : Nat) :
    RelaySpec.ask (abs s) conn id ttl now = (abs (recv s conn id ttl now).1, (recv s conn id ttl now).2) := by
  have hx : ∀ i, i ≠ id → pubExp i ((cleanup now s).heap ++ [⟨now + ttl, id, .ask⟩]) = pubExp i (cleanup now s).heap :=
    fun i _ => pubExp_push_other _ _ (Or.inr rfl)
  unfold RelaySpec.ask
  simp only [← abs_cleanup h, lookup_abs]
  rcases entry_cases (lookup id (cleanup now s).msgs) with ⟨m, hl⟩ | ⟨exp, conns, hl⟩ | hl
  · rw [recv_ready hl, hl]; rfl
  · rw [recv_waiters hl, hl]
    simp only [Option.map_some, absEntry]
    rw [abs_put _ _ _ _ _ hx]
    simp only [absEntry]
  · rw [recv_none hl, hl]
    simp only [Option.map_none]
    rw [abs_put _ _ _ _ _ hx]
    simp only [absEntry]

/-! ### histories -/

/-- fold `RelaySpec.step` over a history, collecting the deliveries of every step -/
def specRun (sp : Spec) (now : Nat) : List Op → (Spec × Nat) × List (List Delivery)
  | [] => ((sp, now), [])
  | op :: ops =>
      let (sp', now', d) := RelaySpec.step sp now op
      let (r, ds) := specRun sp' now' ops
      (r, d :: ds)

theorem WF_step {y : Sys} (h : WF y.st) (op : Op) : WF (step y op).1.st := by
  cases op with
  | tick k => exact h
  | frame c b =>
    simp only [step, startSend]
    cases decodeHdr? b with
    | none => exact h
    | some hd =>
      simp only
      split
      · exact WF_recv h ..
      · exact WF_send h ..
  | service b =>
    simp only [step, serviceSend]
    cases decodeHdr? b with
    | none => exact h
    | some hd =>
      simp only
      split
      · exact h
      · exact WF_send h ..

theorem refines_step {y : Sys} (h : WF y.st) (op : Op) :
    RelaySpec.step (abs y.st) y.now op = (abs (step y op).1.st, (step y op).1.now, (step y op).2.1) := by
  cases op with
  | tick k => rfl
  | frame c b =>
    simp only [step, startSend, RelaySpec.step]
    cases decodeHdr? b with
    | none => rfl
    | some hd =>
      simp only
      split
      · rw [refines_recv h]
      · rw [refines_send h]
  | service b =>
    simp only [step, serviceSend, RelaySpec.step]
    cases decodeHdr? b with
    | none => rfl
    | some hd =>
      simp only
      split
      · rfl
      · rw [refines_send h]

theorem refines_run {y : Sys} (h : WF y.st) (ops : List Op) :
    specRun (abs y.st) y.now ops = ((abs (run y ops).1.st, (run y ops).1.now), (run y ops).2) ∧
      WF (run y ops).1.st := by
  induction ops generalizing y with
  | nil => exact ⟨rfl, h⟩
  | cons op ops ih =>
    have := ih (WF_step h op)
    refine ⟨?_, this.2⟩
    simp only [specRun, run, refines_step h op, this.1]

end SlVerif.Relay
