import SlVerif.Model.RelaySpec
/-
  C15 / C16 — proof infrastructure for the in-memory relay (model: SlVerif/Model/Relay.lean, spec:
  SlVerif/Model/RelaySpec.lean).  Core Lean only.  The property theorems are in Props/C15.lean, Props/C16.lean.

  Contents
    1. association-list lemmas (`lookup`, `erase`, `insert`; `erase` removes every occurrence, so no
       distinctness hypothesis is needed for the per-id lemmas);
    2. the cleanup loop per id (`lookup_foldl_cleanupOne`) and `cleanup_perm`: pop order is irrelevant;
    3. the reachable-state invariant `WF` (structural) / `Inv now` (+ nothing due before `now`) and its
       preservation by `cleanup`, `send`, `recv` at any time;
    4. the abstraction `abs : State → RelaySpec.Spec` and the refinement of `RelaySpec.publish/ask/step`
       (equal deliveries, `abs` commutes, as *lists*), `specRun`, `refines_run`;
    5. histories: `step_cases` (every op is an ask, a publication or a no-op), `run_append`,
       `run_outputs_getElem?`, `run_induction`;
    6. history invariants `Keyed`, `HistInv`; counting (`step_count`, `run_count`);
    7. lifetimes: `ready_run`, `ready_expired`, `waiters_run`; memory: `WF.msgs_length_le`,
       `heap_sublist_pushes`.
-/

namespace SlVerif.Relay

/-! ### association-list lemmas (no hypothesis on duplicates: `erase` removes every occurrence) -/

@[simp] theorem lookup_nil (i : Id) : lookup i [] = none := rfl

theorem lookup_cons (i k : Id) (v : Entry) (m : List (Id × Entry)) :
    lookup i ((k, v) :: m) = if k = i then some v else lookup i m := rfl

theorem erase_eq_filter (j : Id) (m : List (Id × Entry)) :
    erase j m = m.filter (fun p => decide (p.1 ≠ j)) := by
  induction m with
  | nil => rfl
  | cons p m ih =>
    obtain ⟨k, v⟩ := p
    by_cases hk : k = j <;> simp [erase, hk, ih]

theorem lookup_erase (i j : Id) (m : List (Id × Entry)) :
    lookup i (erase j m) = if i = j then none else lookup i m := by
  induction m with
  | nil => simp [erase]
  | cons p m ih =>
    obtain ⟨k, v⟩ := p
    by_cases hk : k = j <;> by_cases hi : i = j <;> by_cases hki : k = i <;>
      simp_all [erase, lookup_cons]

theorem lookup_insert (i j : Id) (e : Entry) (m : List (Id × Entry)) :
    lookup i (insert j e m) = if j = i then some e else lookup i m := by
  by_cases h : j = i
  · simp [insert, lookup_cons, h]
  · have h' : ¬ i = j := fun x => h x.symm
    simp [insert, lookup_cons, h, lookup_erase, h']

theorem lookup_eq_some_mem {i : Id} {v : Entry} {m : List (Id × Entry)} (h : lookup i m = some v) :
    (i, v) ∈ m := by
  induction m with
  | nil => simp at h
  | cons p m ih =>
    obtain ⟨k, w⟩ := p
    by_cases hk : k = i
    · simp [lookup_cons, hk] at h; simp [hk, h]
    · simp [lookup_cons, hk] at h; simp [ih h]

theorem lookup_eq_none_iff {i : Id} {m : List (Id × Entry)} : lookup i m = none ↔ i ∉ m.map Prod.fst := by
  induction m with
  | nil => simp
  | cons p m ih =>
    obtain ⟨k, w⟩ := p
    by_cases hk : k = i
    · simp [lookup_cons, hk]
    · have : ¬ i = k := fun x => hk x.symm
      simp [lookup_cons, hk, ih, this]

/-- with distinct keys, membership determines `lookup` -/
theorem lookup_of_mem {i : Id} {v : Entry} {m : List (Id × Entry)} (hnd : (m.map Prod.fst).Nodup)
    (h : (i, v) ∈ m) : lookup i m = some v := by
  induction m with
  | nil => simp at h
  | cons p m ih =>
    obtain ⟨k, w⟩ := p
    simp only [List.map_cons, List.nodup_cons] at hnd
    rcases List.mem_cons.1 h with h | h
    · cases h; simp [lookup_cons]
    · have : k ≠ i := by
        rintro rfl; exact hnd.1 (List.mem_map.2 ⟨_, h, rfl⟩)
      simp [lookup_cons, this, ih hnd.2 h]

theorem nodup_erase {j : Id} {m : List (Id × Entry)} (h : (m.map Prod.fst).Nodup) :
    ((erase j m).map Prod.fst).Nodup := by
  rw [erase_eq_filter]; exact List.Nodup.sublist (List.Sublist.map _ List.filter_sublist) h

theorem nodup_insert {j : Id} {e : Entry} {m : List (Id × Entry)} (h : (m.map Prod.fst).Nodup) :
    ((insert j e m).map Prod.fst).Nodup := by
  simp only [insert, List.map_cons, List.nodup_cons]
  refine ⟨?_, nodup_erase h⟩
  rw [← lookup_eq_none_iff, lookup_erase]; simp

/-! ### one cleanup step and the whole cleanup loop, per id -/

/-- does popping a heap entry of kind `k` at time `now` remove the map entry `v` stored under the same id? -/
def Drops (now : Nat) (v : Entry) (k : Kind) : Prop :=
  match v with
  | .ready _ => k = .pub
  | .waiters exp _ => k = .ask ∧ exp ≤ now

instance (now v k) : Decidable (Drops now v k) := by unfold Drops; cases v <;> exact inferInstance

theorem cleanupOne_eq (now : Nat) (msgs : List (Id × Entry)) (e : Expire) :
    cleanupOne now msgs e =
      match lookup e.id msgs with
      | some v => if Drops now v e.kind then erase e.id msgs else msgs
      | none => msgs := by
  unfold cleanupOne Drops
  split <;> simp_all

theorem lookup_cleanupOne (now : Nat) (msgs : List (Id × Entry)) (e : Expire) (i : Id) (v : Entry) :
    lookup i (cleanupOne now msgs e) = some v ↔
      lookup i msgs = some v ∧ ¬ (e.id = i ∧ Drops now v e.kind) := by
  rw [cleanupOne_eq]
  by_cases hi : e.id = i
  · subst hi
    cases hl : lookup e.id msgs with
    | none => simp [hl]
    | some w =>
      by_cases hd : Drops now w e.kind
      · simp only [hd, if_true, lookup_erase]; simp; rintro rfl; exact hd
      · simp only [hd, if_false, hl]; simp; rintro rfl; exact hd
  · have hi' : ¬ i = e.id := fun x => hi x.symm
    cases hl : lookup e.id msgs with
    | none => simp [hi]
    | some w =>
      by_cases hd : Drops now w e.kind <;> simp [hd, lookup_erase, hi, hi']

/-- the entry stored under `i` survives a run of pops iff none of the popped entries drops it -/
theorem lookup_foldl_cleanupOne (now : Nat) (l : List Expire) (msgs : List (Id × Entry)) (i : Id) (v : Entry) :
    lookup i (l.foldl (cleanupOne now) msgs) = some v ↔
      lookup i msgs = some v ∧ ∀ e ∈ l, e.id = i → ¬ Drops now v e.kind := by
  induction l generalizing msgs with
  | nil => simp
  | cons e l ih =>
    rw [List.foldl_cons, ih, lookup_cleanupOne]
    simp only [List.mem_cons, forall_eq_or_imp, not_and]
    constructor
    · rintro ⟨⟨h1, h2⟩, h3⟩; exact ⟨h1, h2, h3⟩
    · rintro ⟨h1, h2, h3⟩; exact ⟨⟨h1, h2⟩, h3⟩

/-- **pop order is irrelevant**: folding the loop body over any permutation of the due heap entries gives a map with the
    same content as `cleanup` (which processes them in insertion order).  This is what justifies modelling the
    `BinaryHeap` (whose order among equal/unequal due times is its own business) by a list. -/
theorem cleanup_perm (now : Nat) (s : State) (l' : List Expire)
    (hp : l'.Perm (s.heap.filter (fun e => e.when_ ≤ now))) (i : Id) :
    lookup i (l'.foldl (cleanupOne now) s.msgs) = lookup i (cleanup now s).msgs := by
  apply Option.ext; intro v
  simp only [cleanup, lookup_foldl_cleanupOne]
  constructor <;> rintro ⟨h1, h2⟩ <;> refine ⟨h1, fun e he => h2 e ?_⟩
  · exact hp.mem_iff.2 he
  · exact hp.mem_iff.1 he


/-! ### the reachable-state invariant -/

/-- the heap entries announcing the end of life of the message published under `i` -/
def pubs (i : Id) (heap : List Expire) : List Expire :=
  heap.filter (fun e => decide (e.id = i ∧ e.kind = .pub))

/-- expiry time of the message published under `i`: the time of its (unique, see `WF`) `.pub` heap entry -/
def pubExp (i : Id) (heap : List Expire) : Nat :=
  match pubs i heap with
  | e :: _ => e.when_
  | [] => 0

/-- Structural invariant of every reachable relay state (time-free part). -/
structure WF (s : State) : Prop where
  /-- (a) the map has one entry per id -/
  nodup : (s.msgs.map Prod.fst).Nodup
  /-- (b1) a stored message has exactly one `.pub` heap entry -/
  ready_pub : ∀ i m, lookup i s.msgs = some (.ready m) → ∃ w, pubs i s.heap = [⟨w, i, .pub⟩]
  /-- (b2) there is no `.pub` heap entry for an id without stored message -/
  pub_ready : ∀ e ∈ s.heap, e.kind = .pub → ∃ m, lookup e.id s.msgs = some (.ready m)
  /-- (c) a waiters entry is non-empty and the heap holds the entry that will remove it, at exactly its `exp` -/
  waiters_ask : ∀ i exp conns, lookup i s.msgs = some (.waiters exp conns) →
      conns ≠ [] ∧ (⟨exp, i, .ask⟩ : Expire) ∈ s.heap

/-- Invariant after an operation performed at time `now` (also valid for every earlier `now`):
    the structural part, and nothing in the heap is due before `now`. -/
def Inv (now : Nat) (s : State) : Prop := WF s ∧ ∀ e ∈ s.heap, now ≤ e.when_

theorem WF_init : WF {} := ⟨by simp, by simp, by simp, by simp⟩
theorem Inv_init (now : Nat) : Inv now {} := ⟨WF_init, by simp⟩

theorem Inv.mono {now now' : Nat} {s : State} (h : Inv now s) (hle : now' ≤ now) : Inv now' s :=
  ⟨h.1, fun e he => Nat.le_trans hle (h.2 e he)⟩

theorem mem_pubs {i : Id} {heap : List Expire} {e : Expire} :
    e ∈ pubs i heap ↔ e ∈ heap ∧ e.id = i ∧ e.kind = .pub := by
  simp [pubs]

theorem pubs_append (i : Id) (h₁ h₂ : List Expire) : pubs i (h₁ ++ h₂) = pubs i h₁ ++ pubs i h₂ := by
  simp [pubs]

theorem pubs_filter (i : Id) (p : Expire → Bool) (h : List Expire) : pubs i (h.filter p) = (pubs i h).filter p := by
  simp only [pubs, List.filter_filter]; apply List.filter_congr; intro x _; exact Bool.and_comm _ _

theorem WF.pubs_eq {s : State} (h : WF s) {i : Id} {m : Bytes} (hl : lookup i s.msgs = some (.ready m)) :
    pubs i s.heap = [⟨pubExp i s.heap, i, .pub⟩] := by
  obtain ⟨w, hw⟩ := h.ready_pub i m hl
  simp [pubExp, hw]

theorem WF.pubExp_mem {s : State} (h : WF s) {i : Id} {m : Bytes} (hl : lookup i s.msgs = some (.ready m)) :
    (⟨pubExp i s.heap, i, .pub⟩ : Expire) ∈ s.heap := by
  have := h.pubs_eq hl
  have hm : (⟨pubExp i s.heap, i, .pub⟩ : Expire) ∈ pubs i s.heap := by rw [this]; simp
  exact (mem_pubs.1 hm).1

theorem WF.pubs_nil {s : State} (h : WF s) {i : Id} (hl : ∀ m, lookup i s.msgs ≠ some (.ready m)) :
    pubs i s.heap = [] := by
  apply List.eq_nil_iff_forall_not_mem.2
  intro e he
  obtain ⟨h1, h2, h3⟩ := mem_pubs.1 he
  obtain ⟨m, hm⟩ := h.pub_ready e h1 h3
  exact hl m (h2 ▸ hm)

/-! ### `cleanup` on a well-formed state: an entry survives iff its own lifetime has not ended -/

theorem lookup_cleanup_ready {s : State} (h : WF s) (now : Nat) (i : Id) (m : Bytes) :
    lookup i (cleanup now s).msgs = some (.ready m) ↔
      lookup i s.msgs = some (.ready m) ∧ now < pubExp i s.heap := by
  simp only [cleanup, lookup_foldl_cleanupOne, Drops]
  constructor
  · rintro ⟨h1, h2⟩
    refine ⟨h1, ?_⟩
    apply Nat.lt_of_not_le; intro hle
    exact h2 ⟨pubExp i s.heap, i, .pub⟩ (by simp [h.pubExp_mem h1, hle]) rfl rfl
  · rintro ⟨h1, h2⟩
    refine ⟨h1, fun e he hi hk => ?_⟩
    simp only [List.mem_filter, decide_eq_true_eq] at he
    have : e ∈ pubs i s.heap := mem_pubs.2 ⟨he.1, hi, hk⟩
    rw [h.pubs_eq h1] at this
    simp at this; subst this; simp at he; omega

theorem lookup_cleanup_waiters {s : State} (h : WF s) (now : Nat) (i : Id) (exp : Nat) (conns : List Nat) :
    lookup i (cleanup now s).msgs = some (.waiters exp conns) ↔
      lookup i s.msgs = some (.waiters exp conns) ∧ now < exp := by
  simp only [cleanup, lookup_foldl_cleanupOne, Drops]
  constructor
  · rintro ⟨h1, h2⟩
    refine ⟨h1, ?_⟩
    apply Nat.lt_of_not_le; intro hle
    exact h2 ⟨exp, i, .ask⟩ (by simp [(h.waiters_ask _ _ _ h1).2, hle]) rfl ⟨rfl, hle⟩
  · rintro ⟨h1, h2⟩
    exact ⟨h1, fun e _ _ hk => by omega⟩

theorem lookup_cleanup_none {s : State} (now : Nat) (i : Id) (hl : lookup i s.msgs = none) :
    lookup i (cleanup now s).msgs = none := by
  cases h : lookup i (cleanup now s).msgs with
  | none => rfl
  | some v =>
    simp only [cleanup, lookup_foldl_cleanupOne] at h
    rw [hl] at h; simp at h

theorem mem_cleanup_heap {now : Nat} {s : State} {e : Expire} :
    e ∈ (cleanup now s).heap ↔ e ∈ s.heap ∧ now < e.when_ := by
  simp [cleanup]

theorem nodup_foldl_cleanupOne (now : Nat) (l : List Expire) (msgs : List (Id × Entry))
    (h : (msgs.map Prod.fst).Nodup) : ((l.foldl (cleanupOne now) msgs).map Prod.fst).Nodup := by
  induction l generalizing msgs with
  | nil => exact h
  | cons e l ih =>
    rw [List.foldl_cons]; apply ih
    rw [cleanupOne_eq]; split
    · split
      · exact nodup_erase h
      · exact h
    · exact h

theorem WF_cleanup {s : State} (h : WF s) (now : Nat) : WF (cleanup now s) := by
  refine ⟨nodup_foldl_cleanupOne _ _ _ h.nodup, ?_, ?_, ?_⟩
  · intro i m hl
    obtain ⟨h1, h2⟩ := (lookup_cleanup_ready h now i m).1 hl
    refine ⟨pubExp i s.heap, ?_⟩
    show pubs i (s.heap.filter _) = _
    rw [pubs_filter, h.pubs_eq h1]; simp; omega
  · intro e he hk
    obtain ⟨he1, he2⟩ := mem_cleanup_heap.1 he
    obtain ⟨m, hm⟩ := h.pub_ready e he1 hk
    refine ⟨m, (lookup_cleanup_ready h now e.id m).2 ⟨hm, ?_⟩⟩
    have : e ∈ pubs e.id s.heap := mem_pubs.2 ⟨he1, rfl, hk⟩
    rw [h.pubs_eq hm] at this
    simp at this
    rw [this] at he2; exact he2
  · intro i exp conns hl
    obtain ⟨h1, h2⟩ := (lookup_cleanup_waiters h now i exp conns).1 hl
    obtain ⟨hc, hm⟩ := h.waiters_ask _ _ _ h1
    exact ⟨hc, mem_cleanup_heap.2 ⟨hm, h2⟩⟩

theorem pubExp_cleanup {s : State} (h : WF s) {now : Nat} {i : Id} {m : Bytes}
    (hl : lookup i (cleanup now s).msgs = some (.ready m)) : pubExp i (cleanup now s).heap = pubExp i s.heap := by
  obtain ⟨h1, h2⟩ := (lookup_cleanup_ready h now i m).1 hl
  have : pubs i (cleanup now s).heap = [⟨pubExp i s.heap, i, .pub⟩] := by
    show pubs i (s.heap.filter _) = _
    rw [pubs_filter, h.pubs_eq h1]; simp; omega
  simp [pubExp, this]


/-! ### storing an entry and pushing its heap entry -/

theorem pubExp_push_self {heap : List Expire} {i : Id} (w : Nat) (h : pubs i heap = []) :
    pubExp i (heap ++ [⟨w, i, .pub⟩]) = w := by
  have : pubs i (heap ++ [⟨w, i, .pub⟩]) = [⟨w, i, .pub⟩] := by
    rw [pubs_append, h]; simp [pubs]
  simp [pubExp, this]

theorem pubs_push_other {heap : List Expire} {i j : Id} (w : Nat) (k : Kind) (h : j ≠ i ∨ k = .ask) :
    pubs i (heap ++ [⟨w, j, k⟩]) = pubs i heap := by
  rw [pubs_append]
  have : pubs i [⟨w, j, k⟩] = [] := by
    rcases h with h | h <;> simp [pubs, h]
  simp [this]

theorem pubExp_push_other {heap : List Expire} {i j : Id} (w : Nat) (k : Kind) (h : j ≠ i ∨ k = .ask) :
    pubExp i (heap ++ [⟨w, j, k⟩]) = pubExp i heap := by
  simp [pubExp, pubs_push_other w k h]

theorem WF_put_ready {s : State} (h : WF s) (id : Id) (f : Bytes) (w : Nat)
    (hnr : ∀ m, lookup id s.msgs ≠ some (.ready m)) :
    WF { msgs := insert id (.ready f) s.msgs, heap := s.heap ++ [⟨w, id, .pub⟩] } := by
  refine ⟨nodup_insert h.nodup, ?_, ?_, ?_⟩
  · intro i m hl
    simp only [lookup_insert] at hl
    by_cases hi : id = i
    · subst hi
      exact ⟨w, by rw [pubs_append, h.pubs_nil hnr]; simp [pubs]⟩
    · simp only [hi, if_false] at hl
      obtain ⟨w', hw'⟩ := h.ready_pub i m hl
      exact ⟨w', by simp only [pubs_push_other w .pub (Or.inl hi), hw']⟩
  · intro e he hk
    simp only [List.mem_append, List.mem_singleton] at he
    rcases he with he | rfl
    · obtain ⟨m, hm⟩ := h.pub_ready e he hk
      have : id ≠ e.id := by rintro rfl; exact hnr m hm
      exact ⟨m, by simp [lookup_insert, this, hm]⟩
    · exact ⟨f, by simp [lookup_insert]⟩
  · intro i exp conns hl
    simp only [lookup_insert] at hl
    by_cases hi : id = i
    · simp [hi] at hl
    · simp only [hi, if_false] at hl
      obtain ⟨h1, h2⟩ := h.waiters_ask _ _ _ hl
      exact ⟨h1, by simp [h2]⟩

theorem WF_put_waiters {s : State} (h : WF s) (id : Id) (exp w : Nat) (conns : List Nat) (hc : conns ≠ [])
    (hnr : ∀ m, lookup id s.msgs ≠ some (.ready m))
    (hw : w = exp ∨ (⟨exp, id, .ask⟩ : Expire) ∈ s.heap) :
    WF { msgs := insert id (.waiters exp conns) s.msgs, heap := s.heap ++ [⟨w, id, .ask⟩] } := by
  refine ⟨nodup_insert h.nodup, ?_, ?_, ?_⟩
  · intro i m hl
    simp only [lookup_insert] at hl
    by_cases hi : id = i
    · simp [hi] at hl
    · simp only [hi, if_false] at hl
      obtain ⟨w', hw'⟩ := h.ready_pub i m hl
      exact ⟨w', by simp only [pubs_push_other w .ask (Or.inr rfl), hw']⟩
  · intro e he hk
    simp only [List.mem_append, List.mem_singleton] at he
    rcases he with he | rfl
    · obtain ⟨m, hm⟩ := h.pub_ready e he hk
      have : id ≠ e.id := by rintro rfl; exact hnr m hm
      exact ⟨m, by simp [lookup_insert, this, hm]⟩
    · simp at hk
  · intro i exp' conns' hl
    simp only [lookup_insert] at hl
    by_cases hi : id = i
    · subst hi
      simp at hl; obtain ⟨rfl, rfl⟩ := hl
      refine ⟨hc, ?_⟩
      rcases hw with rfl | hw <;> simp [*]
    · simp only [hi, if_false] at hl
      obtain ⟨h1, h2⟩ := h.waiters_ask _ _ _ hl
      exact ⟨h1, by simp [h2]⟩

/-! ### `send` / `recv` in closed form (the entry under `id` after `cleanup` decides) -/

theorem send_ready {s : State} {id : Id} {ttl : Nat} {frame : Bytes} {now : Nat} {m : Bytes}
    (h : lookup id (cleanup now s).msgs = some (.ready m)) :
    send s id ttl frame now = (cleanup now s, []) := by
  simp only [send, h]

theorem send_waiters {s : State} {id : Id} {ttl : Nat} {frame : Bytes} {now : Nat} {exp : Nat} {conns : List Nat}
    (h : lookup id (cleanup now s).msgs = some (.waiters exp conns)) :
    send s id ttl frame now =
      ({ msgs := insert id (.ready frame) (cleanup now s).msgs
         heap := (cleanup now s).heap ++ [⟨now + ttl, id, .pub⟩] }, conns.map fun c => (c, frame)) := by
  simp only [send, h]

theorem send_none {s : State} {id : Id} {ttl : Nat} {frame : Bytes} {now : Nat}
    (h : lookup id (cleanup now s).msgs = none) :
    send s id ttl frame now =
      ({ msgs := insert id (.ready frame) (cleanup now s).msgs
         heap := (cleanup now s).heap ++ [⟨now + ttl, id, .pub⟩] }, []) := by
  simp only [send, h]

theorem recv_ready {s : State} {conn : Nat} {id : Id} {ttl : Nat} {now : Nat} {m : Bytes}
    (h : lookup id (cleanup now s).msgs = some (.ready m)) :
    recv s conn id ttl now = (cleanup now s, [(conn, m)]) := by
  simp only [recv, h]

theorem recv_waiters {s : State} {conn : Nat} {id : Id} {ttl : Nat} {now : Nat} {exp : Nat} {conns : List Nat}
    (h : lookup id (cleanup now s).msgs = some (.waiters exp conns)) :
    recv s conn id ttl now =
      ({ msgs := insert id (.waiters (max (now + ttl) exp) (conns ++ [conn])) (cleanup now s).msgs
         heap := (cleanup now s).heap ++ [⟨now + ttl, id, .ask⟩] }, []) := by
  simp only [recv, h]

theorem recv_none {s : State} {conn : Nat} {id : Id} {ttl : Nat} {now : Nat}
    (h : lookup id (cleanup now s).msgs = none) :
    recv s conn id ttl now =
      ({ msgs := insert id (.waiters (now + ttl) [conn]) (cleanup now s).msgs
         heap := (cleanup now s).heap ++ [⟨now + ttl, id, .ask⟩] }, []) := by
  simp only [recv, h]

/-- the three cases of the entry found under an id -/
theorem entry_cases (o : Option Entry) :
    (∃ m, o = some (.ready m)) ∨ (∃ exp conns, o = some (.waiters exp conns)) ∨ o = none := by
  rcases o with _ | ⟨m⟩ | ⟨e, c⟩ <;> simp

theorem WF_send {s : State} (h : WF s) (id : Id) (ttl : Nat) (frame : Bytes) (now : Nat) :
    WF (send s id ttl frame now).1 := by
  have hc := WF_cleanup h now
  rcases entry_cases (lookup id (cleanup now s).msgs) with ⟨m, hl⟩ | ⟨exp, conns, hl⟩ | hl
  · rw [send_ready hl]; exact hc
  · rw [send_waiters hl]; exact WF_put_ready hc _ _ _ (by simp [hl])
  · rw [send_none hl]; exact WF_put_ready hc _ _ _ (by simp [hl])

theorem WF_recv {s : State} (h : WF s) (conn : Nat) (id : Id) (ttl : Nat) (now : Nat) :
    WF (recv s conn id ttl now).1 := by
  have hc := WF_cleanup h now
  rcases entry_cases (lookup id (cleanup now s).msgs) with ⟨m, hl⟩ | ⟨exp, conns, hl⟩ | hl
  · rw [recv_ready hl]; exact hc
  · rw [recv_waiters hl]
    refine WF_put_waiters hc _ _ _ _ (by simp) (by simp [hl]) ?_
    by_cases hm : exp ≤ now + ttl
    · left; omega
    · right; rw [Nat.max_eq_right (by omega)]; exact (hc.waiters_ask _ _ _ hl).2
  · rw [recv_none hl]; exact WF_put_waiters hc _ _ _ _ (by simp) (by simp [hl]) (Or.inl rfl)

/-- heap after `send`: what `cleanup` left (all strictly later than `now`), plus at most the one entry pushed now -/
theorem send_heap (s : State) (id : Id) (ttl : Nat) (frame : Bytes) (now : Nat) :
    (send s id ttl frame now).1.heap = (cleanup now s).heap ∨
    (send s id ttl frame now).1.heap = (cleanup now s).heap ++ [⟨now + ttl, id, .pub⟩] := by
  rcases entry_cases (lookup id (cleanup now s).msgs) with ⟨m, hl⟩ | ⟨exp, conns, hl⟩ | hl
  · rw [send_ready hl]; simp
  · rw [send_waiters hl]; simp
  · rw [send_none hl]; simp

theorem recv_heap (s : State) (conn : Nat) (id : Id) (ttl : Nat) (now : Nat) :
    (recv s conn id ttl now).1.heap = (cleanup now s).heap ∨
    (recv s conn id ttl now).1.heap = (cleanup now s).heap ++ [⟨now + ttl, id, .ask⟩] := by
  rcases entry_cases (lookup id (cleanup now s).msgs) with ⟨m, hl⟩ | ⟨exp, conns, hl⟩ | hl
  · rw [recv_ready hl]; simp
  · rw [recv_waiters hl]; simp
  · rw [recv_none hl]; simp

/-- `Inv` is re-established by `send` at *any* time `now` (in particular for `now ≥` the time of the previous op) -/
theorem Inv_send {s : State} (h : WF s) (id : Id) (ttl : Nat) (frame : Bytes) (now : Nat) :
    Inv now (send s id ttl frame now).1 := by
  refine ⟨WF_send h .., fun e he => ?_⟩
  rcases send_heap s id ttl frame now with hh | hh <;> rw [hh] at he
  · exact Nat.le_of_lt (mem_cleanup_heap.1 he).2
  · rcases List.mem_append.1 he with he | he
    · exact Nat.le_of_lt (mem_cleanup_heap.1 he).2
    · simp at he; subst he; simp

theorem Inv_recv {s : State} (h : WF s) (conn : Nat) (id : Id) (ttl : Nat) (now : Nat) :
    Inv now (recv s conn id ttl now).1 := by
  refine ⟨WF_recv h .., fun e he => ?_⟩
  rcases recv_heap s conn id ttl now with hh | hh <;> rw [hh] at he
  · exact Nat.le_of_lt (mem_cleanup_heap.1 he).2
  · rcases List.mem_append.1 he with he | he
    · exact Nat.le_of_lt (mem_cleanup_heap.1 he).2
    · simp at he; subst he; simp

/-- time-monotone use: from the invariant of the previous operation (time `now`) to that of the next (`now' ≥ now`).
    (`now ≤ now'` is not even needed: `cleanup now'` re-establishes the time bound from the structural part alone.) -/
theorem Inv.send {now now' : Nat} {s : State} (h : Inv now s) (_hle : now ≤ now') (id : Id) (ttl : Nat) (frame : Bytes) :
    Inv now' (send s id ttl frame now').1 := Inv_send h.1 ..

theorem Inv.recv {now now' : Nat} {s : State} (h : Inv now s) (_hle : now ≤ now') (conn : Nat) (id : Id) (ttl : Nat) :
    Inv now' (recv s conn id ttl now').1 := Inv_recv h.1 ..

/-- consequences of `Inv now`: no map entry whose lifetime ended before `now` -/
theorem Inv.ready_exp {now : Nat} {s : State} (h : Inv now s) {i : Id} {m : Bytes}
    (hl : lookup i s.msgs = some (.ready m)) : now ≤ pubExp i s.heap :=
  h.2 _ (h.1.pubExp_mem hl)

theorem Inv.waiters_exp {now : Nat} {s : State} (h : Inv now s) {i : Id} {exp : Nat} {conns : List Nat}
    (hl : lookup i s.msgs = some (.waiters exp conns)) : now ≤ exp :=
  h.2 _ (h.1.waiters_ask _ _ _ hl).2

open SlVerif.RelaySpec (SEntry Spec)

/-! ### the loop as a filter (list level; needs distinct keys) -/

theorem cleanupOne_eq_filter (now : Nat) (msgs : List (Id × Entry)) (e : Expire)
    (hnd : (msgs.map Prod.fst).Nodup) :
    cleanupOne now msgs e = msgs.filter (fun p => !decide (e.id = p.1 ∧ Drops now p.2 e.kind)) := by
  rw [cleanupOne_eq]
  cases hl : lookup e.id msgs with
  | none =>
    simp only
    symm; apply List.filter_eq_self.2
    intro p hp
    have : e.id ≠ p.1 := by
      intro h; rw [lookup_eq_none_iff] at hl; exact hl (h ▸ List.mem_map.2 ⟨p, hp, rfl⟩)
    simp [this]
  | some v =>
    simp only
    have key : ∀ p ∈ msgs, e.id = p.1 → p.2 = v := by
      intro p hp h
      have := lookup_of_mem hnd (show (p.1, p.2) ∈ msgs from hp)
      rw [← h, hl] at this; exact (Option.some.inj this).symm
    by_cases hd : Drops now v e.kind
    · simp only [hd, if_true, erase_eq_filter]
      apply List.filter_congr
      intro p hp
      by_cases h : e.id = p.1
      · have := key p hp h
        simp [h, this, hd]
      · have h' : ¬ p.1 = e.id := fun x => h x.symm
        simp [h, h']
    · simp only [hd, if_false]
      symm; apply List.filter_eq_self.2
      intro p hp
      by_cases h : e.id = p.1
      · have := key p hp h
        simp [this, hd]
      · simp [h]

theorem foldl_cleanupOne_eq_filter (now : Nat) (l : List Expire) (msgs : List (Id × Entry))
    (hnd : (msgs.map Prod.fst).Nodup) :
    l.foldl (cleanupOne now) msgs =
      msgs.filter (fun p => decide (∀ e ∈ l, e.id = p.1 → ¬ Drops now p.2 e.kind)) := by
  induction l generalizing msgs with
  | nil => exact (List.filter_eq_self.2 (by simp)).symm
  | cons e l ih =>
    rw [List.foldl_cons, cleanupOne_eq_filter now msgs e hnd,
      ih _ (List.Nodup.sublist (List.Sublist.map _ List.filter_sublist) hnd), List.filter_filter]
    apply List.filter_congr
    intro p _
    by_cases h1 : e.id = p.1 <;> by_cases h2 : Drops now p.2 e.kind <;> simp [h1, h2]

/-! ### abstraction to the heap-free specification `RelaySpec` -/

/-- a stored message's expiry is read from its `.pub` heap entry; a waiters entry carries its own -/
def absEntry (heap : List Expire) (i : Id) : Entry → SEntry
  | .ready m => .ready m (pubExp i heap)
  | .waiters exp conns => .waiting exp conns

def abs (s : State) : Spec := s.msgs.map fun p => (p.1, absEntry s.heap p.1 p.2)

theorem slookup_map (heap : List Expire) (i : Id) (msgs : List (Id × Entry)) :
    RelaySpec.lookup i (msgs.map fun p => (p.1, absEntry heap p.1 p.2)) = (lookup i msgs).map (absEntry heap i) := by
  induction msgs with
  | nil => rfl
  | cons p m ih =>
    obtain ⟨k, v⟩ := p
    by_cases hk : k = i
    · subst hk; simp [RelaySpec.lookup, lookup_cons]
    · simp [RelaySpec.lookup, lookup_cons, hk, ih]

/-- the specification state has exactly the concrete entries, with the heap-derived expiry for stored messages -/
theorem lookup_abs (s : State) (i : Id) :
    RelaySpec.lookup i (abs s) = (lookup i s.msgs).map (absEntry s.heap i) := slookup_map _ _ _

theorem abs_cleanup {s : State} (h : WF s) (now : Nat) : abs (cleanup now s) = RelaySpec.sweep now (abs s) := by
  have hc := WF_cleanup h now
  unfold abs RelaySpec.sweep
  rw [List.filter_map]
  have hm : (cleanup now s).msgs = _ := foldl_cleanupOne_eq_filter now _ s.msgs h.nodup
  -- survivors: same abstract entry; survival ⇔ lifetime not ended
  have key : ∀ p ∈ s.msgs, (lookup p.1 (cleanup now s).msgs = some p.2 ↔
      now < (absEntry s.heap p.1 p.2).exp) ∧
      (lookup p.1 (cleanup now s).msgs = some p.2 → absEntry (cleanup now s).heap p.1 p.2 = absEntry s.heap p.1 p.2) := by
    rintro ⟨i, v⟩ hp
    have hl := lookup_of_mem h.nodup hp
    cases v with
    | ready m =>
      refine ⟨?_, ?_⟩
      · rw [lookup_cleanup_ready h]; simp [absEntry, SEntry.exp, hl]
      · intro hlk; simp only [absEntry]; rw [pubExp_cleanup h hlk]
    | waiters exp conns =>
      refine ⟨?_, fun _ => rfl⟩
      rw [lookup_cleanup_waiters h]; simp [absEntry, SEntry.exp, hl]
  have hfil : (cleanup now s).msgs =
      s.msgs.filter ((fun kv : Id × SEntry => decide (now < kv.2.exp)) ∘ fun p => (p.1, absEntry s.heap p.1 p.2)) := by
    rw [hm]; apply List.filter_congr
    intro p hp
    have := (key p hp).1
    have h2 := lookup_foldl_cleanupOne now (s.heap.filter fun e => decide (e.when_ ≤ now)) s.msgs p.1 p.2
    simp only [lookup_of_mem h.nodup (show (p.1, p.2) ∈ s.msgs from hp), true_and] at h2
    simp only [Function.comp]
    rw [Bool.eq_iff_iff]; simp only [decide_eq_true_eq]
    rw [← h2, ← this]; rfl
  rw [hfil]
  apply List.map_congr_left
  intro p hp
  obtain ⟨hp1, hp2⟩ := List.mem_filter.1 hp
  simp only [Function.comp, decide_eq_true_eq] at hp2
  rw [(key p hp1).2 ((key p hp1).1.2 hp2)]

theorem abs_put (msgs : List (Id × Entry)) (heap : List Expire) (id : Id) (v : Entry) (x : Expire)
    (hx : ∀ i, i ≠ id → pubExp i (heap ++ [x]) = pubExp i heap) :
    abs { msgs := insert id v msgs, heap := heap ++ [x] } =
      RelaySpec.put id (absEntry (heap ++ [x]) id v) (abs { msgs := msgs, heap := heap }) := by
  simp only [abs, insert, RelaySpec.put, List.map_cons, erase_eq_filter, List.filter_map]
  congr 1
  apply List.map_congr_left
  intro p hp
  have : p.1 ≠ id := by simpa using (List.mem_filter.1 hp).2
  cases hv : p.2 <;> simp [absEntry, hx p.1 this]

/-- `Inner::send` refines `RelaySpec.publish` (same deliveries, commuting with `abs`) -/
theorem refines_send {s : State} (h : WF s) (id : Id) (ttl : Nat) (frame : Bytes) (now : Nat) :
    RelaySpec.publish (abs s) id ttl frame now = (abs (send s id ttl frame now).1, (send s id ttl frame now).2) := by
  have hc := WF_cleanup h now
  have hx : ∀ i, i ≠ id → pubExp i ((cleanup now s).heap ++ [⟨now + ttl, id, .pub⟩]) = pubExp i (cleanup now s).heap :=
    fun i hi => pubExp_push_other _ _ (Or.inl (Ne.symm hi))
  unfold RelaySpec.publish
  simp only [← abs_cleanup h, lookup_abs]
  rcases entry_cases (lookup id (cleanup now s).msgs) with ⟨m, hl⟩ | ⟨exp, conns, hl⟩ | hl
  · rw [send_ready hl, hl]; rfl
  · rw [send_waiters hl, hl]
    simp only [Option.map_some, absEntry]
    rw [abs_put _ _ _ _ _ hx]
    simp only [absEntry, pubExp_push_self _ (hc.pubs_nil (i := id) (by simp [hl]))]
  · rw [send_none hl, hl]
    simp only [Option.map_none]
    rw [abs_put _ _ _ _ _ hx]
    simp only [absEntry, pubExp_push_self _ (hc.pubs_nil (i := id) (by simp [hl]))]

/-- `Inner::recv` refines `RelaySpec.ask` -/
theorem refines_recv {s : State} (h : WF s) (conn : Nat) (id : Id) (ttl : Nat) (now : Nat) :
    RelaySpec.ask (abs s) conn id ttl now = (abs (recv s conn id ttl now).1, (recv s conn id ttl now).2) := by
  have hx : ∀ i, i ≠ id → pubExp i ((cleanup now s).heap ++ [⟨now + ttl, id, .ask⟩]) = pubExp i (cleanup now s).heap :=
    fun i _ => pubExp_push_other _ _ (Or.inr rfl)
  unfold RelaySpec.ask
  simp only [← abs_cleanup h, lookup_abs]
  rcases entry_cases (lookup id (cleanup now s).msgs) with ⟨m, hl⟩ | ⟨exp, conns, hl⟩ | hl
  · rw [recv_ready hl, hl]; rfl
  · rw [recv_waiters hl, hl]
    simp only [Option.map_some, absEntry]
    rw [abs_put _ _ _ _ _ hx]
    simp only [absEntry]
  · rw [recv_none hl, hl]
    simp only [Option.map_none]
    rw [abs_put _ _ _ _ _ hx]
    simp only [absEntry]

/-! ### histories -/

/-- fold `RelaySpec.step` over a history, collecting the deliveries of every step -/
def specRun (sp : Spec) (now : Nat) : List Op → (Spec × Nat) × List (List Delivery)
  | [] => ((sp, now), [])
  | op :: ops =>
      let (sp', now', d) := RelaySpec.step sp now op
      let (r, ds) := specRun sp' now' ops
      (r, d :: ds)

/-- the same as a left fold with an accumulator (the shape a driver loop has) -/
def specFold (ops : List Op) : (Spec × Nat) × List (List Delivery) :=
  ops.foldl (fun acc op =>
    let r := RelaySpec.step acc.1.1 acc.1.2 op
    ((r.1, r.2.1), acc.2 ++ [r.2.2])) (([], 0), [])

theorem specFold_eq (ops : List Op) : specFold ops = specRun [] 0 ops := by
  have gen : ∀ (ops : List Op) (sp : Spec) (now : Nat) (acc : List (List Delivery)),
      ops.foldl (fun (acc : (Spec × Nat) × List (List Delivery)) op =>
        let r := RelaySpec.step acc.1.1 acc.1.2 op
        ((r.1, r.2.1), acc.2 ++ [r.2.2])) ((sp, now), acc) =
      ((specRun sp now ops).1, acc ++ (specRun sp now ops).2) := by
    intro ops
    induction ops with
    | nil => intro sp now acc; simp [specRun]
    | cons op l ih =>
      intro sp now acc
      simp only [List.foldl_cons, ih, specRun, List.append_assoc, List.singleton_append]
  have := gen ops [] 0 []
  simp only [List.nil_append] at this
  exact this

theorem WF_step {y : Sys} (h : WF y.st) (op : Op) : WF (step y op).1.st := by
  cases op with
  | tick k => exact h
  | frame c b =>
    simp only [step, startSend]
    cases decodeHdr? b with
    | none => exact h
    | some hd =>
      simp only
      split
      · exact WF_recv h ..
      · exact WF_send h ..
  | service b =>
    simp only [step, serviceSend]
    cases decodeHdr? b with
    | none => exact h
    | some hd =>
      simp only
      split
      · exact h
      · exact WF_send h ..

theorem refines_step {y : Sys} (h : WF y.st) (op : Op) :
    RelaySpec.step (abs y.st) y.now op = (abs (step y op).1.st, (step y op).1.now, (step y op).2.1) := by
  cases op with
  | tick k => rfl
  | frame c b =>
    simp only [step, startSend, RelaySpec.step]
    cases decodeHdr? b with
    | none => rfl
    | some hd =>
      simp only
      split
      · rw [refines_recv h]
      · rw [refines_send h]
  | service b =>
    simp only [step, serviceSend, RelaySpec.step]
    cases decodeHdr? b with
    | none => rfl
    | some hd =>
      simp only
      split
      · rfl
      · rw [refines_send h]

theorem refines_run {y : Sys} (h : WF y.st) (ops : List Op) :
    specRun (abs y.st) y.now ops = ((abs (run y ops).1.st, (run y ops).1.now), (run y ops).2) ∧
      WF (run y ops).1.st := by
  induction ops generalizing y with
  | nil => exact ⟨rfl, h⟩
  | cons op ops ih =>
    have := ih (WF_step h op)
    refine ⟨?_, this.2⟩
    simp only [specRun, run, refines_step h op, this.1]


/-! ### frames and operations -/

theorem hdr_size : MESSAGE_HEADER_SIZE = 36 := rfl

theorem decodeHdr?_eq_none {f : Bytes} (h : f.length < 36) : decodeHdr? f = none := by
  simp [decodeHdr?, hdr_size, h]

theorem decodeHdr?_eq_some {f : Bytes} (h : 36 ≤ f.length) :
    decodeHdr? f = some ⟨f.take 32, leToNat ((f.drop 32).take 2), leToNat ((f.drop 34).take 2)⟩ := by
  have : ¬ f.length < 36 := by omega
  simp [decodeHdr?, hdr_size, MESSAGE_ID_SIZE, this]

theorem decodeHdr?_length {f : Bytes} {h : Hdr} (hd : decodeHdr? f = some h) : 36 ≤ f.length := by
  apply Nat.le_of_not_lt; intro hlt; rw [decodeHdr?_eq_none hlt] at hd; cases hd

/-- the message id in the header of a frame (none if the frame is shorter than a header) -/
def hdrId (f : Bytes) : Option Id := (decodeHdr? f).map (·.id)

/-- the time-to-live in the header of a frame (0 if there is none) -/
def hdrTtl (f : Bytes) : Nat := ((decodeHdr? f).map (·.ttl)).getD 0

theorem hdrId_of_decode {f : Bytes} {h : Hdr} (hd : decodeHdr? f = some h) : hdrId f = some h.id := by
  simp [hdrId, hd]

theorem hdrTtl_of_decode {f : Bytes} {h : Hdr} (hd : decodeHdr? f = some h) : hdrTtl f = h.ttl := by
  simp [hdrTtl, hd]

/-- seconds by which an operation advances the clock -/
def Op.secs : Op → Nat
  | .tick k => k
  | _ => 0

/-- `op` is an ask (header-only frame) by connection `c` for id `i` -/
def Op.asks (c : Nat) (i : Id) : Op → Bool
  | .frame c' a => decide (c' = c ∧ a.length = 36 ∧ hdrId a = some i)
  | _ => false

/-- `op` is an ask by any connection for id `i` -/
def Op.asksId (i : Id) : Op → Bool
  | .frame _ a => decide (a.length = 36 ∧ hdrId a = some i)
  | _ => false

/-- `op` publishes a frame (longer than a header) under id `i` -/
def Op.publishes (i : Id) : Op → Bool
  | .frame _ f => decide (36 < f.length ∧ hdrId f = some i)
  | .service f => decide (36 < f.length ∧ hdrId f = some i)
  | .tick _ => false

/-- `op` publishes exactly the frame `f` -/
def Op.publishesFrame (f : Bytes) : Op → Bool
  | .frame _ g => decide (36 < g.length ∧ g = f)
  | .service g => decide (36 < g.length ∧ g = f)
  | .tick _ => false

/-- `op` reaches `Inner::recv` / `Inner::send` (it is not a clock tick and not a rejected / ignored frame) -/
def Op.isRelay : Op → Bool
  | .frame _ b => decide (36 ≤ b.length)
  | .service b => decide (36 < b.length)
  | .tick _ => false

/-- the heap entry an operation executed at time `t` pushes *if* it pushes one -/
def pushOf (t : Nat) : Op → Option Expire
  | .frame _ b =>
      match decodeHdr? b with
      | none => none
      | some h => some ⟨t + h.ttl, h.id, if b.length = 36 then .ask else .pub⟩
  | .service b =>
      match decodeHdr? b with
      | none => none
      | some h => if b.length ≤ 36 then none else some ⟨t + h.ttl, h.id, .pub⟩
  | .tick _ => none

theorem step_now (y : Sys) (op : Op) : (step y op).1.now = y.now + op.secs := by
  cases op <;> simp [step, Op.secs]

/-- Every operation is an ask (→ `recv`), a publication (→ `send`), or leaves the relay state alone. -/
theorem step_cases (y : Sys) (op : Op) :
    (∃ c a h, op = .frame c a ∧ a.length = 36 ∧ decodeHdr? a = some h ∧
        (step y op).1 = { y with st := (recv y.st c h.id h.ttl y.now).1 } ∧
        (step y op).2.1 = (recv y.st c h.id h.ttl y.now).2) ∨
    (∃ f h, (op = .service f ∨ ∃ c, op = .frame c f) ∧ 36 < f.length ∧ decodeHdr? f = some h ∧
        (step y op).1 = { y with st := (send y.st h.id h.ttl f y.now).1 } ∧
        (step y op).2.1 = (send y.st h.id h.ttl f y.now).2) ∨
    ((step y op).1.st = y.st ∧ (step y op).2.1 = [] ∧ op.isRelay = false) := by
  cases op with
  | tick k => right; right; simp [step, Op.isRelay]
  | frame c b =>
    cases hd : decodeHdr? b with
    | none =>
      right; right
      have : b.length < 36 := by
        apply Nat.lt_of_not_le; intro h; rw [decodeHdr?_eq_some h] at hd; cases hd
      simp [step, startSend, hd, Op.isRelay, this]
    | some h =>
      have hl := decodeHdr?_length hd
      by_cases h36 : b.length = 36
      · left; exact ⟨c, b, h, rfl, h36, hd, by simp [step, startSend, hd, hdr_size, h36]⟩
      · right; left
        exact ⟨b, h, Or.inr ⟨c, rfl⟩, by omega, hd, by simp [step, startSend, hd, hdr_size, h36]⟩
  | service b =>
    cases hd : decodeHdr? b with
    | none => right; right
              have : b.length < 36 := by
                apply Nat.lt_of_not_le; intro h; rw [decodeHdr?_eq_some h] at hd; cases hd
              simp [step, serviceSend, hd, Op.isRelay]; omega
    | some h =>
      by_cases h36 : b.length ≤ 36
      · right; right; simp [step, serviceSend, hd, hdr_size, h36, Op.isRelay]
      · right; left
        exact ⟨b, h, Or.inl rfl, by omega, hd, by simp [step, serviceSend, hd, hdr_size, h36]⟩

/-! ### histories: splitting, indexing -/

theorem run_cons (y : Sys) (op : Op) (ops : List Op) :
    run y (op :: ops) = ((run (step y op).1 ops).1, (step y op).2.1 :: (run (step y op).1 ops).2) := rfl

theorem run_append (y : Sys) (l₁ l₂ : List Op) :
    run y (l₁ ++ l₂) = ((run (run y l₁).1 l₂).1, (run y l₁).2 ++ (run (run y l₁).1 l₂).2) := by
  induction l₁ generalizing y with
  | nil => rfl
  | cons op l ih => simp only [List.cons_append, run_cons, ih]

theorem run_outputs_length (y : Sys) (ops : List Op) : (run y ops).2.length = ops.length := by
  induction ops generalizing y with
  | nil => rfl
  | cons op l ih => simp [run_cons, ih]

/-- the deliveries of the `k`-th operation are those of `step` on the state reached by the first `k` operations -/
theorem run_outputs_getElem? (y : Sys) (ops : List Op) (k : Nat) :
    (run y ops).2[k]? = (ops[k]?).map fun op => (step (run y (ops.take k)).1 op).2.1 := by
  induction ops generalizing y k with
  | nil => simp [run]
  | cons op l ih =>
    cases k with
    | zero => simp [run]
    | succ k => simp [run_cons, ih]

theorem run_now (y : Sys) (ops : List Op) : (run y ops).1.now = y.now + (ops.map Op.secs).sum := by
  induction ops generalizing y with
  | nil => simp [run]
  | cons op l ih => simp [run_cons, ih, step_now]; omega

theorem run_now_le (y : Sys) (ops : List Op) : y.now ≤ (run y ops).1.now := by
  rw [run_now]; omega

theorem run_take_now_le (y : Sys) (ops : List Op) (j : Nat) : (run y (ops.take j)).1.now ≤ (run y ops).1.now := by
  conv => rhs; rw [← List.take_append_drop j ops, run_append]
  exact run_now_le _ _

theorem WF_run {y : Sys} (h : WF y.st) (ops : List Op) : WF (run y ops).1.st := (refines_run h ops).2

theorem WF_reach (ops : List Op) : WF (run {} ops).1.st := WF_run (y := {}) WF_init ops

/-- induction over histories with an invariant that may mention the operations executed so far -/
theorem run_induction {P : List Op → Sys → Prop} {H : List Op} {y : Sys} (h0 : P H y) (hwf : WF y.st)
    (hstep : ∀ H y op, P H y → WF y.st → P (H ++ [op]) (step y op).1) (ops : List Op) :
    P (H ++ ops) (run y ops).1 := by
  induction ops generalizing H y with
  | nil => simpa [run] using h0
  | cons op l ih =>
    have := ih (hstep H y op h0 hwf) (WF_step hwf op)
    simpa [run_cons] using this

theorem mem_take_succ {ops : List Op} {k : Nat} {op : Op} (h : op ∈ ops.take (k + 1)) :
    ∃ j, j ≤ k ∧ ops[j]? = some op := by
  obtain ⟨j, hj⟩ := List.mem_iff_getElem?.1 h
  rw [List.getElem?_take] at hj
  by_cases hjk : j < k + 1
  · exact ⟨j, by omega, by simpa [hjk] using hj⟩
  · simp [hjk] at hj


/-! ### the map after `send` / `recv`, per id -/

theorem lookup_cleanup_some {now : Nat} {s : State} {i : Id} {v : Entry}
    (h : lookup i (cleanup now s).msgs = some v) : lookup i s.msgs = some v :=
  ((lookup_foldl_cleanupOne ..).1 h).1

theorem lookup_send (s : State) (id : Id) (ttl : Nat) (frame : Bytes) (now : Nat) (i : Id) :
    lookup i (send s id ttl frame now).1.msgs =
      if id = i then
        (match lookup id (cleanup now s).msgs with
          | some (.ready m) => some (.ready m)
          | _ => some (.ready frame))
      else lookup i (cleanup now s).msgs := by
  rcases entry_cases (lookup id (cleanup now s).msgs) with ⟨m, hl⟩ | ⟨exp, conns, hl⟩ | hl
  · rw [send_ready hl]
    by_cases h : id = i
    · subst h; simp [hl]
    · simp [h]
  · rw [send_waiters hl]
    by_cases h : id = i
    · subst h; simp [hl, lookup_insert]
    · simp [h, lookup_insert]
  · rw [send_none hl]
    by_cases h : id = i
    · subst h; simp [hl, lookup_insert]
    · simp [h, lookup_insert]

theorem lookup_recv (s : State) (conn : Nat) (id : Id) (ttl : Nat) (now : Nat) (i : Id) :
    lookup i (recv s conn id ttl now).1.msgs =
      if id = i then
        (match lookup id (cleanup now s).msgs with
          | some (.ready m) => some (.ready m)
          | some (.waiters e cs) => some (.waiters (max (now + ttl) e) (cs ++ [conn]))
          | none => some (.waiters (now + ttl) [conn]))
      else lookup i (cleanup now s).msgs := by
  rcases entry_cases (lookup id (cleanup now s).msgs) with ⟨m, hl⟩ | ⟨exp, conns, hl⟩ | hl
  · rw [recv_ready hl]
    by_cases h : id = i
    · subst h; simp [hl]
    · simp [h]
  · rw [recv_waiters hl]
    by_cases h : id = i
    · subst h; simp [hl, lookup_insert]
    · simp [h, lookup_insert]
  · rw [recv_none hl]
    by_cases h : id = i
    · subst h; simp [hl, lookup_insert]
    · simp [h, lookup_insert]

theorem send_deliveries (s : State) (id : Id) (ttl : Nat) (frame : Bytes) (now : Nat) :
    (send s id ttl frame now).2 =
      match lookup id (cleanup now s).msgs with
      | some (.waiters _ conns) => conns.map fun c => (c, frame)
      | _ => [] := by
  rcases entry_cases (lookup id (cleanup now s).msgs) with ⟨m, hl⟩ | ⟨exp, conns, hl⟩ | hl
  · rw [send_ready hl, hl]
  · rw [send_waiters hl, hl]
  · rw [send_none hl, hl]

theorem recv_deliveries (s : State) (conn : Nat) (id : Id) (ttl : Nat) (now : Nat) :
    (recv s conn id ttl now).2 =
      match lookup id (cleanup now s).msgs with
      | some (.ready m) => [(conn, m)]
      | _ => [] := by
  rcases entry_cases (lookup id (cleanup now s).msgs) with ⟨m, hl⟩ | ⟨exp, conns, hl⟩ | hl
  · rw [recv_ready hl, hl]
  · rw [recv_waiters hl, hl]
  · rw [recv_none hl, hl]

theorem pubExp_recv (s : State) (conn : Nat) (id : Id) (ttl : Nat) (now : Nat) (i : Id) :
    pubExp i (recv s conn id ttl now).1.heap = pubExp i (cleanup now s).heap := by
  rcases recv_heap s conn id ttl now with h | h <;> rw [h]
  exact pubExp_push_other _ _ (Or.inr rfl)

theorem pubExp_send_other (s : State) (id : Id) (ttl : Nat) (frame : Bytes) (now : Nat) {i : Id} (hi : id ≠ i) :
    pubExp i (send s id ttl frame now).1.heap = pubExp i (cleanup now s).heap := by
  rcases send_heap s id ttl frame now with h | h <;> rw [h]
  exact pubExp_push_other _ _ (Or.inl hi)

/-! ### stored frames are filed under their own header id -/

def Keyed (s : State) : Prop := ∀ i m, lookup i s.msgs = some (.ready m) → 36 < m.length ∧ hdrId m = some i

theorem Keyed_init : Keyed {} := by intro i m h; simp at h

theorem Keyed_step {y : Sys} (hk : Keyed y.st) (op : Op) : Keyed (step y op).1.st := by
  rcases step_cases y op with ⟨c, a, h, rfl, ha, hd, hs, _⟩ | ⟨f, h, _, hf, hd, hs, _⟩ | ⟨hs, _, _⟩
  · rw [hs]; intro i m hl
    simp only [lookup_recv] at hl
    by_cases hi : h.id = i
    · simp only [hi, if_true] at hl
      rcases entry_cases (lookup i (cleanup y.now y.st).msgs) with ⟨m', hl'⟩ | ⟨exp, conns, hl'⟩ | hl'
      · rw [hl'] at hl; simp at hl; subst hl; exact hk i m' (lookup_cleanup_some hl')
      · rw [hl'] at hl; simp at hl
      · rw [hl'] at hl; simp at hl
    · simp only [hi, if_false] at hl; exact hk i m (lookup_cleanup_some hl)
  · rw [hs]; intro i m hl
    simp only [lookup_send] at hl
    by_cases hi : h.id = i
    · simp only [hi, if_true] at hl
      rcases entry_cases (lookup i (cleanup y.now y.st).msgs) with ⟨m', hl'⟩ | ⟨exp, conns, hl'⟩ | hl'
      · rw [hl'] at hl; simp at hl; subst hl; exact hk i m' (lookup_cleanup_some hl')
      · rw [hl'] at hl; simp at hl; subst hl; exact ⟨hf, hi ▸ hdrId_of_decode hd⟩
      · rw [hl'] at hl; simp at hl; subst hl; exact ⟨hf, hi ▸ hdrId_of_decode hd⟩
    · simp only [hi, if_false] at hl; exact hk i m (lookup_cleanup_some hl)
  · rw [hs]; exact hk

/-- where a delivery comes from: an immediate answer to this very ask, or this very publication reaching a waiter -/
theorem step_delivery {y : Sys} (hk : Keyed y.st) {op : Op} {c : Nat} {f : Bytes}
    (hd : (c, f) ∈ (step y op).2.1) :
    ∃ i, hdrId f = some i ∧ 36 < f.length ∧
      ((op.asks c i = true ∧ lookup i (cleanup y.now y.st).msgs = some (.ready f)) ∨
       (op.publishesFrame f = true ∧ ∃ exp conns,
          lookup i (cleanup y.now y.st).msgs = some (.waiters exp conns) ∧ c ∈ conns)) := by
  rcases step_cases y op with ⟨c', a, h, rfl, ha, hdec, _, hs⟩ | ⟨g, h, hop, hg, hdec, _, hs⟩ | ⟨_, hs, _⟩
  · rw [hs, recv_deliveries] at hd
    rcases entry_cases (lookup h.id (cleanup y.now y.st).msgs) with ⟨m, hl⟩ | ⟨exp, conns, hl⟩ | hl
    · rw [hl] at hd; simp at hd; obtain ⟨rfl, rfl⟩ := hd
      obtain ⟨h1, h2⟩ := hk _ _ (lookup_cleanup_some hl)
      exact ⟨h.id, h2, h1, Or.inl ⟨by simp [Op.asks, ha, hdrId_of_decode hdec], hl⟩⟩
    · rw [hl] at hd; simp at hd
    · rw [hl] at hd; simp at hd
  · rw [hs, send_deliveries] at hd
    rcases entry_cases (lookup h.id (cleanup y.now y.st).msgs) with ⟨m, hl⟩ | ⟨exp, conns, hl⟩ | hl
    · rw [hl] at hd; simp at hd
    · rw [hl] at hd; simp at hd; obtain ⟨c2, hc, rfl, rfl⟩ := hd
      refine ⟨h.id, hdrId_of_decode hdec, hg, Or.inr ⟨?_, exp, conns, hl, hc⟩⟩
      rcases hop with rfl | ⟨c', rfl⟩ <;> simp [Op.publishesFrame, hg]
    · rw [hl] at hd; simp at hd
  · rw [hs] at hd; simp at hd

/-! ### what is stored was published, who waits has asked (relative to the history so far) -/

def HistInv (H : List Op) (s : State) : Prop :=
  (∀ i m, lookup i s.msgs = some (.ready m) → ∃ op ∈ H, op.publishesFrame m = true) ∧
  (∀ i exp conns, lookup i s.msgs = some (.waiters exp conns) → ∀ c ∈ conns, ∃ op ∈ H, op.asks c i = true)

theorem HistInv_init : HistInv [] {} := ⟨by intro i m h; simp at h, by intro i e c h; simp at h⟩

theorem HistInv_step {H : List Op} {y : Sys} (hi : HistInv H y.st) (op : Op) :
    HistInv (H ++ [op]) (step y op).1.st := by
  have weak1 : ∀ i m, lookup i (cleanup y.now y.st).msgs = some (.ready m) →
      ∃ o ∈ H ++ [op], o.publishesFrame m = true := by
    intro i m hl
    obtain ⟨o, ho, h⟩ := hi.1 i m (lookup_cleanup_some hl)
    exact ⟨o, by simp [ho], h⟩
  have weak2 : ∀ i exp conns, lookup i (cleanup y.now y.st).msgs = some (.waiters exp conns) →
      ∀ c ∈ conns, ∃ o ∈ H ++ [op], o.asks c i = true := by
    intro i exp conns hl c hc
    obtain ⟨o, ho, h⟩ := hi.2 i exp conns (lookup_cleanup_some hl) c hc
    exact ⟨o, by simp [ho], h⟩
  rcases step_cases y op with ⟨c, a, h, rfl, ha, hd, hs, _⟩ | ⟨f, h, hop, hf, hd, hs, _⟩ | ⟨hs, _, _⟩
  · rw [hs]; constructor
    · intro i m hl
      simp only [lookup_recv] at hl
      by_cases hid : h.id = i
      · simp only [hid, if_true] at hl
        rcases entry_cases (lookup i (cleanup y.now y.st).msgs) with ⟨m', hl'⟩ | ⟨exp, conns, hl'⟩ | hl'
        · rw [hl'] at hl; simp at hl; subst hl; exact weak1 i m' hl'
        · rw [hl'] at hl; simp at hl
        · rw [hl'] at hl; simp at hl
      · simp only [hid, if_false] at hl; exact weak1 i m hl
    · intro i exp conns hl c' hc'
      simp only [lookup_recv] at hl
      by_cases hid : h.id = i
      · simp only [hid, if_true] at hl
        have hme : ∃ o ∈ H ++ [Op.frame c a], o.asks c i = true :=
          ⟨.frame c a, by simp, by simp [Op.asks, ha, hdrId_of_decode hd, hid]⟩
        rcases entry_cases (lookup i (cleanup y.now y.st).msgs) with ⟨m', hl'⟩ | ⟨exp', conns', hl'⟩ | hl'
        · rw [hl'] at hl; simp at hl
        · rw [hl'] at hl; simp at hl; obtain ⟨rfl, rfl⟩ := hl
          rcases List.mem_append.1 hc' with hc' | hc'
          · exact weak2 i exp' conns' hl' c' hc'
          · simp at hc'; subst hc'; exact hme
        · rw [hl'] at hl; simp at hl; obtain ⟨rfl, rfl⟩ := hl
          simp at hc'; subst hc'; exact hme
      · simp only [hid, if_false] at hl; exact weak2 i exp conns hl c' hc'
  · rw [hs]; constructor
    · intro i m hl
      simp only [lookup_send] at hl
      have hme : ∃ o ∈ H ++ [op], o.publishesFrame f = true :=
        ⟨op, by simp, by rcases hop with rfl | ⟨c', rfl⟩ <;> simp [Op.publishesFrame, hf]⟩
      by_cases hid : h.id = i
      · simp only [hid, if_true] at hl
        rcases entry_cases (lookup i (cleanup y.now y.st).msgs) with ⟨m', hl'⟩ | ⟨exp, conns, hl'⟩ | hl'
        · rw [hl'] at hl; simp at hl; subst hl; exact weak1 i m' hl'
        · rw [hl'] at hl; simp at hl; subst hl; exact hme
        · rw [hl'] at hl; simp at hl; subst hl; exact hme
      · simp only [hid, if_false] at hl; exact weak1 i m hl
    · intro i exp conns hl c' hc'
      simp only [lookup_send] at hl
      by_cases hid : h.id = i
      · simp only [hid, if_true] at hl
        rcases entry_cases (lookup i (cleanup y.now y.st).msgs) with ⟨m', hl'⟩ | ⟨exp', conns', hl'⟩ | hl'
        · rw [hl'] at hl; simp at hl
        · rw [hl'] at hl; simp at hl
        · rw [hl'] at hl; simp at hl
      · simp only [hid, if_false] at hl; exact weak2 i exp conns hl c' hc'
  · rw [hs]
    exact ⟨fun i m hl => let ⟨o, ho, h⟩ := hi.1 i m hl; ⟨o, by simp [ho], h⟩,
           fun i e cs hl c hc => let ⟨o, ho, h⟩ := hi.2 i e cs hl c hc; ⟨o, by simp [ho], h⟩⟩

/-- everything that holds of every reachable state, relative to its history -/
theorem reachable (ops : List Op) :
    WF (run {} ops).1.st ∧ Keyed (run {} ops).1.st ∧ HistInv ops (run {} ops).1.st := by
  have := run_induction (P := fun H y => Keyed y.st ∧ HistInv H y.st) (H := []) (y := {})
    ⟨Keyed_init, HistInv_init⟩ WF_init (fun H y op h _ => ⟨Keyed_step h.1 op, HistInv_step h.2 op⟩) ops
  exact ⟨WF_run WF_init ops, by simpa using this⟩


/-! ### counting deliveries against asks -/

/-- number of times connection `c` is registered as waiting for id `i` -/
def pending (s : State) (c : Nat) (i : Id) : Nat :=
  match lookup i s.msgs with
  | some (.waiters _ conns) => conns.count c
  | _ => 0

/-- number of deliveries to connection `c` of frames whose header carries id `i` -/
def deliveredTo (c : Nat) (i : Id) (ds : List Delivery) : Nat :=
  ds.countP fun d => decide (d.1 = c ∧ hdrId d.2 = some i)

theorem pending_cleanup_le (now : Nat) (s : State) (c : Nat) (i : Id) :
    pending (cleanup now s) c i ≤ pending s c i := by
  unfold pending
  rcases entry_cases (lookup i (cleanup now s).msgs) with ⟨m, hl⟩ | ⟨exp, conns, hl⟩ | hl
  · simp [hl]
  · simp [hl, lookup_cleanup_some hl]
  · simp [hl]

theorem deliveredTo_map (c : Nat) (i : Id) (conns : List Nat) (f : Bytes) :
    deliveredTo c i (conns.map fun c' => (c', f)) = if hdrId f = some i then conns.count c else 0 := by
  unfold deliveredTo
  induction conns with
  | nil => simp
  | cons a l ih =>
    simp only [List.map_cons, List.countP_cons, ih, List.count_cons]
    by_cases h : hdrId f = some i <;> by_cases h2 : a = c <;> simp [h, h2]

/-- one step: new deliveries to `c` under `i` are paid for by registrations of `c` for `i`, or by this very ask -/
theorem step_count {y : Sys} (hk : Keyed y.st) (op : Op) (c : Nat) (i : Id) :
    deliveredTo c i (step y op).2.1 + pending (step y op).1.st c i ≤
      pending y.st c i + (if op.asks c i then 1 else 0) := by
  have hcl := pending_cleanup_le y.now y.st c i
  rcases step_cases y op with ⟨c', a, h, rfl, ha, hd, hs, hs'⟩ | ⟨f, h, hop, hf, hd, hs, hs'⟩ | ⟨hs, hs', _⟩
  · rw [hs, hs', recv_deliveries]
    have hasks : (Op.frame c' a).asks c i = decide (c' = c ∧ h.id = i) := by
      simp [Op.asks, ha, hdrId_of_decode hd]
    rw [hasks]
    simp only [pending, lookup_recv] at hcl ⊢
    by_cases hid : h.id = i
    · subst hid
      rcases entry_cases (lookup h.id (cleanup y.now y.st).msgs) with ⟨m, hl⟩ | ⟨exp, conns, hl⟩ | hl
      · have := (hk _ _ (lookup_cleanup_some hl)).2
        simp only [hl, deliveredTo, if_true] at hcl ⊢
        by_cases hc : c' = c <;> simp [hc, this] <;> omega
      · simp only [hl, deliveredTo, if_true] at hcl ⊢
        by_cases hc : c' = c <;> simp [hc, List.count_append] <;> omega
      · simp only [hl, deliveredTo, if_true] at hcl ⊢
        by_cases hc : c' = c <;> simp [hc]
    · simp only [hid, if_false, and_false, decide_false] at hcl ⊢
      have : deliveredTo c i (match lookup h.id (cleanup y.now y.st).msgs with
          | some (.ready m) => [(c', m)] | _ => []) = 0 := by
        rcases entry_cases (lookup h.id (cleanup y.now y.st).msgs) with ⟨m, hl⟩ | ⟨exp, conns, hl⟩ | hl
        · have := (hk _ _ (lookup_cleanup_some hl)).2
          simp [hl, deliveredTo, this, hid]
        · simp [hl, deliveredTo]
        · simp [hl, deliveredTo]
      rw [this]; simp; exact hcl
  · rw [hs, hs', send_deliveries]
    have hasks : op.asks c i = false := by
      rcases hop with rfl | ⟨c', rfl⟩
      · rfl
      · simp [Op.asks]; intro _ h36; omega
    rw [hasks]
    simp only [pending, lookup_send] at hcl ⊢
    have hfi := hdrId_of_decode hd
    by_cases hid : h.id = i
    · subst hid
      rcases entry_cases (lookup h.id (cleanup y.now y.st).msgs) with ⟨m, hl⟩ | ⟨exp, conns, hl⟩ | hl
      · simp only [hl, if_true] at hcl ⊢; simp [deliveredTo]
      · simp only [hl, if_true, deliveredTo_map, hfi] at hcl ⊢; simpa using hcl
      · simp only [hl, if_true] at hcl ⊢; simp [deliveredTo]
    · simp only [hid, if_false] at hcl ⊢
      have : deliveredTo c i (match lookup h.id (cleanup y.now y.st).msgs with
          | some (.waiters _ conns) => conns.map fun c => (c, f) | _ => []) = 0 := by
        have hne : ¬ hdrId f = some i := by rw [hfi]; simpa using hid
        rcases entry_cases (lookup h.id (cleanup y.now y.st).msgs) with ⟨m, hl⟩ | ⟨exp, conns, hl⟩ | hl
        · simp [hl, deliveredTo]
        · simp [hl, deliveredTo_map, hne]
        · simp [hl, deliveredTo]
      rw [this]; simpa using hcl
  · rw [hs, hs']; simp [deliveredTo]

theorem run_count {y : Sys} (hk : Keyed y.st) (ops : List Op) (c : Nat) (i : Id) :
    deliveredTo c i (run y ops).2.flatten + pending (run y ops).1.st c i ≤
      pending y.st c i + ops.countP (Op.asks c i) := by
  induction ops generalizing y with
  | nil => simp [run, deliveredTo]
  | cons op l ih =>
    have h1 := step_count hk op c i
    have h2 := ih (Keyed_step hk op)
    simp only [run_cons, List.flatten_cons, List.countP_cons]
    have : deliveredTo c i ((step y op).2.1 ++ (run (step y op).1 l).2.flatten) =
        deliveredTo c i (step y op).2.1 + deliveredTo c i (run (step y op).1 l).2.flatten := by
      simp [deliveredTo, List.countP_append]
    rw [this]
    by_cases ha : op.asks c i = true <;> simp [ha] at h1 ⊢ <;> omega

/-! ### a stored message during its lifetime, and at its end -/

theorem ready_step {y : Sys} (hwf : WF y.st) {i : Id} {m : Bytes} (hl : lookup i y.st.msgs = some (.ready m))
    (hlt : y.now < pubExp i y.st.heap) (op : Op) :
    lookup i (step y op).1.st.msgs = some (.ready m) ∧ pubExp i (step y op).1.st.heap = pubExp i y.st.heap := by
  have hc : lookup i (cleanup y.now y.st).msgs = some (.ready m) := (lookup_cleanup_ready hwf _ _ _).2 ⟨hl, hlt⟩
  have hp := pubExp_cleanup hwf hc
  rcases step_cases y op with ⟨c, a, h, rfl, ha, hd, hs, _⟩ | ⟨f, h, _, hf, hd, hs, _⟩ | ⟨hs, _, _⟩
  · rw [hs]; refine ⟨?_, by rw [← hp]; exact pubExp_recv ..⟩
    simp only [lookup_recv]
    by_cases hid : h.id = i
    · subst hid; simp [hc]
    · simp [hid, hc]
  · rw [hs]
    by_cases hid : h.id = i
    · subst hid; simp only [send_ready hc]; exact ⟨hc, hp⟩
    · refine ⟨?_, by rw [← hp]; exact pubExp_send_other _ _ _ _ _ hid⟩
      simp [lookup_send, hid, hc]
  · rw [hs]; exact ⟨hl, rfl⟩

/-- **kept**: while the clock stays below the publication's own expiry, nothing removes or replaces it -/
theorem ready_run {y : Sys} (hwf : WF y.st) {i : Id} {m : Bytes} (hl : lookup i y.st.msgs = some (.ready m))
    (cont : List Op) (hlt : (run y cont).1.now < pubExp i y.st.heap) :
    lookup i (run y cont).1.st.msgs = some (.ready m) ∧
      pubExp i (run y cont).1.st.heap = pubExp i y.st.heap := by
  induction cont generalizing y with
  | nil => exact ⟨hl, rfl⟩
  | cons op l ih =>
    rw [run_cons] at hlt ⊢
    simp only at hlt ⊢
    have hnow : y.now < pubExp i y.st.heap := by
      have := run_now_le (step y op).1 l; rw [step_now] at this; omega
    obtain ⟨h1, h2⟩ := ready_step hwf hl hnow op
    have := ih (WF_step hwf op) h1 (by rw [h2]; exact hlt)
    exact ⟨this.1, by rw [this.2, h2]⟩

/-- **dropped**: the first relay operation at or after the expiry removes it (before acting) -/
theorem ready_expired {s : State} (hwf : WF s) {i : Id} {m : Bytes} (hl : lookup i s.msgs = some (.ready m))
    {now : Nat} (hge : pubExp i s.heap ≤ now) : lookup i (cleanup now s).msgs = none := by
  rcases entry_cases (lookup i (cleanup now s).msgs) with ⟨m', h⟩ | ⟨exp, conns, h⟩ | h
  · have := ((lookup_cleanup_ready hwf _ _ _).1 h).2; omega
  · have := lookup_cleanup_some h; rw [hl] at this; cases this
  · exact h

/-! ### a waiters entry: grows by asks, stays until its (growing) deadline -/

/-- the connection that joins the waiters of `i` by this operation, if any -/
def Op.asker (i : Id) : Op → List Nat
  | .frame c a => if a.length = 36 ∧ hdrId a = some i then [c] else []
  | _ => []

/-- the deadline `now + ttl` this operation, executed at `now`, contributes to the waiters of `i`, if any -/
def Op.deadline (i : Id) (now : Nat) : Op → List Nat
  | .frame _ a => if a.length = 36 ∧ hdrId a = some i then [now + hdrTtl a] else []
  | _ => []

/-- connections of the asks for `i` in a history, in order -/
def askers (i : Id) (ops : List Op) : List Nat := ops.flatMap (Op.asker i)

/-- deadlines `t_k + d_k` of the asks for `i` in a history started at time `now`, in order -/
def askDeadlines (i : Id) (now : Nat) : List Op → List Nat
  | [] => []
  | op :: ops => op.deadline i now ++ askDeadlines i (now + op.secs) ops

theorem foldl_max_ge (l : List Nat) (a : Nat) : a ≤ l.foldl max a := by
  induction l generalizing a with
  | nil => simp
  | cons x l ih => exact Nat.le_trans (Nat.le_max_left a x) (ih _)

theorem foldl_max_mem_le (l : List Nat) (a : Nat) {x : Nat} (hx : x ∈ l) : x ≤ l.foldl max a := by
  induction l generalizing a with
  | nil => simp at hx
  | cons z l ih =>
    rcases List.mem_cons.1 hx with rfl | hx
    · exact Nat.le_trans (Nat.le_max_right a x) (foldl_max_ge l _)
    · exact ih _ hx

theorem foldl_max_eq (l : List Nat) (a : Nat) : l.foldl max a = a ∨ l.foldl max a ∈ l := by
  induction l generalizing a with
  | nil => simp
  | cons z l ih =>
    rcases ih (max a z) with h | h
    · rw [List.foldl_cons, h]
      rcases Nat.le_total a z with hz | hz
      · right; rw [Nat.max_eq_right hz]; simp
      · left; exact Nat.max_eq_left hz
    · right; exact List.mem_cons_of_mem _ h

theorem foldl_max_mono (l : List Nat) {a b : Nat} (h : a ≤ b) : l.foldl max a ≤ l.foldl max b := by
  induction l generalizing a b with
  | nil => exact h
  | cons z l ih => exact ih (by omega)

theorem not_relay_asker {op : Op} (h : op.isRelay = false) (i : Id) (now : Nat) :
    op.asker i = [] ∧ op.deadline i now = [] := by
  cases op with
  | tick k => exact ⟨rfl, rfl⟩
  | service b => exact ⟨rfl, rfl⟩
  | frame c b =>
    simp [Op.isRelay] at h
    have : ¬ b.length = 36 := by omega
    simp [Op.asker, Op.deadline, this]

theorem waiters_step {y : Sys} (hwf : WF y.st) {i : Id} {exp : Nat} {conns : List Nat}
    (hl : lookup i y.st.msgs = some (.waiters exp conns)) (op : Op) (hnp : op.publishes i = false)
    (hlt : op.isRelay = true → y.now < exp) :
    lookup i (step y op).1.st.msgs =
      some (.waiters ((op.deadline i y.now).foldl max exp) (conns ++ op.asker i)) := by
  rcases step_cases y op with ⟨c, a, h, rfl, ha, hd, hs, _⟩ | ⟨f, h, hop, hf, hd, hs, _⟩ | ⟨hs, _, hnr⟩
  · have hc : lookup i (cleanup y.now y.st).msgs = some (.waiters exp conns) :=
      (lookup_cleanup_waiters hwf _ _ _ _).2 ⟨hl, hlt (by simp [Op.isRelay, ha])⟩
    rw [hs]; simp only [lookup_recv]
    by_cases hid : h.id = i
    · subst hid
      simp [hc, Op.asker, Op.deadline, ha, hdrId_of_decode hd, hdrTtl_of_decode hd, Nat.max_comm]
    · have : ¬ hdrId a = some i := by rw [hdrId_of_decode hd]; simpa using hid
      simp [hid, hc, Op.asker, Op.deadline, this]
  · have hc : lookup i (cleanup y.now y.st).msgs = some (.waiters exp conns) :=
      (lookup_cleanup_waiters hwf _ _ _ _).2 ⟨hl, hlt (by
        rcases hop with rfl | ⟨c', rfl⟩ <;> simp [Op.isRelay] <;> omega)⟩
    have hid : h.id ≠ i := by
      rintro rfl
      rcases hop with rfl | ⟨c', rfl⟩ <;> simp [Op.publishes, hf, hdrId_of_decode hd] at hnp
    have h36 : ¬ f.length = 36 := by omega
    rw [hs]; simp only [lookup_send, hid, if_false, hc]
    rcases hop with rfl | ⟨c', rfl⟩ <;> simp [Op.asker, Op.deadline, h36]
  · rw [hs, (not_relay_asker hnr i y.now).1, (not_relay_asker hnr i y.now).2]; simpa using hl

/-- **waiters**: as long as every relay operation happens before the *current* deadline of the entry (the maximum
    of the deadlines of the asks that joined so far) and nobody publishes `i`, the entry stays; its connection list
    is the old one extended by every asker, in order, and its stored deadline is the maximum. -/
theorem waiters_run {y : Sys} (hwf : WF y.st) {i : Id} {exp : Nat} {conns : List Nat}
    (hl : lookup i y.st.msgs = some (.waiters exp conns)) (cont : List Op)
    (hnp : ∀ op ∈ cont, op.publishes i = false)
    (halive : ∀ j op, cont[j]? = some op → op.isRelay = true →
        (run y (cont.take j)).1.now < (askDeadlines i y.now (cont.take j)).foldl max exp) :
    lookup i (run y cont).1.st.msgs =
      some (.waiters ((askDeadlines i y.now cont).foldl max exp) (conns ++ askers i cont)) := by
  induction cont generalizing y exp conns with
  | nil => simpa [run, askDeadlines, askers] using hl
  | cons op l ih =>
    have h0 : op.isRelay = true → y.now < exp := fun hr => by simpa [run, askDeadlines] using halive 0 op rfl hr
    have hstep := waiters_step hwf hl op (hnp op (by simp)) h0
    have := ih (WF_step hwf op) hstep (fun o ho => hnp o (by simp [ho])) (fun j o hj hr => by
      have := halive (j + 1) o (by simpa using hj) hr
      simpa [run_cons, askDeadlines, step_now, List.foldl_append] using this)
    rw [run_cons]; simp only
    rw [this]
    simp [askDeadlines, askers, step_now, List.foldl_append, List.append_assoc]

/-- the simple sufficient condition: the whole continuation ends before the deadline stored at its start -/
theorem alive_of_final_lt {y : Sys} {i : Id} {exp : Nat} (cont : List Op) (h : (run y cont).1.now < exp) :
    ∀ j op, cont[j]? = some op → op.isRelay = true →
        (run y (cont.take j)).1.now < (askDeadlines i y.now (cont.take j)).foldl max exp := by
  intro j op _ _
  have h1 := run_take_now_le y cont j
  have h2 := foldl_max_ge (askDeadlines i y.now (cont.take j)) exp
  omega

/-! ### memory: map entries are covered by heap entries, heap entries by live pushes of the history -/

theorem length_le_of_nodup_subset {α : Type} [DecidableEq α] {l l' : List α} (hnd : l.Nodup) (hs : ∀ x ∈ l, x ∈ l') :
    l.length ≤ l'.length := by
  induction l generalizing l' with
  | nil => simp
  | cons a l ih =>
    have ha : a ∈ l' := hs a (by simp)
    have hnd' := List.nodup_cons.1 hnd
    have := ih (l' := l'.erase a) hnd'.2 (fun x hx => by
      have hne : x ≠ a := by rintro rfl; exact hnd'.1 hx
      exact (List.mem_erase_of_ne hne).2 (hs x (by simp [hx])))
    rw [List.length_erase_of_mem ha] at this
    have : 0 < l'.length := List.length_pos_of_mem ha
    simp; omega

/-- the heap entry that accounts for a map entry -/
def guard (heap : List Expire) (p : Id × Entry) : Expire :=
  match p.2 with
  | .ready _ => ⟨pubExp p.1 heap, p.1, .pub⟩
  | .waiters exp _ => ⟨exp, p.1, .ask⟩

theorem WF.msgs_length_le {s : State} (h : WF s) : s.msgs.length ≤ s.heap.length := by
  have hinj : (s.msgs.map (guard s.heap)).Nodup := by
    have : (s.msgs.map (guard s.heap)).map Expire.id = s.msgs.map Prod.fst := by
      rw [List.map_map]; apply List.map_congr_left; intro p _
      obtain ⟨i, v⟩ := p; cases v <;> rfl
    have hnd := h.nodup; rw [← this] at hnd
    exact List.Pairwise.of_map Expire.id (fun a b hab heq => hab (congrArg Expire.id heq)) hnd
  have := length_le_of_nodup_subset hinj (l' := s.heap) (by
    intro x hx
    obtain ⟨⟨i, v⟩, hp, rfl⟩ := List.mem_map.1 hx
    have hl := lookup_of_mem h.nodup hp
    cases v with
    | ready m => exact h.pubExp_mem hl
    | waiters exp conns => exact (h.waiters_ask _ _ _ hl).2)
  simpa using this

/-- the heap entries pushed by a history started at time `now` (one per ask / publication, at most) -/
def pushes (now : Nat) : List Op → List Expire
  | [] => []
  | op :: ops => (pushOf now op).toList ++ pushes (now + op.secs) ops

theorem pushes_append (now : Nat) (l₁ l₂ : List Op) :
    pushes now (l₁ ++ l₂) = pushes now l₁ ++ pushes (now + (l₁.map Op.secs).sum) l₂ := by
  induction l₁ generalizing now with
  | nil => simp [pushes]
  | cons op l ih => simp [pushes, ih, Nat.add_assoc]

/-- the heap after a step: the not-yet-due part of the old heap, plus at most the push of this operation -/
theorem step_heap (y : Sys) (op : Op) :
    (op.isRelay = false ∧ (step y op).1.st = y.st) ∨
    (op.isRelay = true ∧ ((step y op).1.st.heap = (cleanup y.now y.st).heap ∨
      ∃ e, pushOf y.now op = some e ∧ (step y op).1.st.heap = (cleanup y.now y.st).heap ++ [e])) := by
  rcases step_cases y op with ⟨c, a, h, rfl, ha, hd, hs, _⟩ | ⟨f, h, hop, hf, hd, hs, _⟩ | ⟨hs, _, hnr⟩
  · right; refine ⟨by simp [Op.isRelay, ha], ?_⟩
    rw [hs]
    rcases recv_heap y.st c h.id h.ttl y.now with hh | hh
    · exact Or.inl hh
    · exact Or.inr ⟨_, by simp [pushOf, hd, ha], hh⟩
  · right
    have h36 : ¬ f.length = 36 := by omega
    have h36' : ¬ f.length ≤ 36 := by omega
    refine ⟨by rcases hop with rfl | ⟨c', rfl⟩ <;> simp [Op.isRelay] <;> omega, ?_⟩
    rw [hs]
    rcases send_heap y.st h.id h.ttl f y.now with hh | hh
    · exact Or.inl hh
    · exact Or.inr ⟨_, by rcases hop with rfl | ⟨c', rfl⟩ <;> simp [pushOf, hd, h36, h36'], hh⟩
  · exact Or.inl ⟨hnr, hs⟩

theorem heap_sublist_pushes (ops : List Op) : ((run {} ops).1.st.heap).Sublist (pushes 0 ops) := by
  have := run_induction (P := fun H y => y.now = (H.map Op.secs).sum ∧ (y.st.heap).Sublist (pushes 0 H))
    (H := []) (y := {}) ⟨rfl, by simp [pushes]⟩ WF_init (fun H y op ⟨hn, hs⟩ _ => by
      refine ⟨by simp [step_now, hn], ?_⟩
      rw [pushes_append]; simp only [pushes, Nat.zero_add, List.append_nil, ← hn]
      rcases step_heap y op with ⟨_, h⟩ | ⟨_, h | ⟨e, he, h⟩⟩
      · rw [h]; exact List.Sublist.trans hs (List.sublist_append_left _ _)
      · rw [h]
        exact List.Sublist.trans (List.Sublist.trans List.filter_sublist hs) (List.sublist_append_left _ _)
      · rw [h, he]
        exact List.Sublist.append (List.Sublist.trans List.filter_sublist hs) (List.Sublist.refl _)) ops
  simpa using this.2


theorem pushOf_isRelay {t : Nat} {op : Op} {e : Expire} (h : pushOf t op = some e) : op.isRelay = true := by
  cases op with
  | tick k => simp [pushOf] at h
  | frame c b =>
    cases hd : decodeHdr? b with
    | none => simp [pushOf, hd] at h
    | some hh => simpa [Op.isRelay] using decodeHdr?_length hd
  | service b =>
    cases hd : decodeHdr? b with
    | none => simp [pushOf, hd] at h
    | some hh =>
      by_cases h36 : b.length ≤ 36
      · simp [pushOf, hd, h36] at h
      · simp [Op.isRelay]; omega

/-- each operation pushes at most one heap entry, and only asks / publications push -/
theorem pushes_length_le (now : Nat) (ops : List Op) : (pushes now ops).length ≤ ops.countP Op.isRelay := by
  induction ops generalizing now with
  | nil => simp [pushes]
  | cons op l ih =>
    have := ih (now + op.secs)
    simp only [pushes, List.length_append, List.countP_cons]
    cases hp : pushOf now op with
    | none => simp; omega
    | some e => simp [pushOf_isRelay hp]; omega

/-- if nothing is stored under `i` when an operation starts acting, a stored frame afterwards is the one it published -/
theorem ready_after_none {y : Sys} {i : Id} (hn : lookup i (cleanup y.now y.st).msgs = none) {op : Op} {g : Bytes}
    (hl : lookup i (step y op).1.st.msgs = some (.ready g)) (hr : op.isRelay = true) :
    op.publishesFrame g = true ∧ hdrId g = some i := by
  rcases step_cases y op with ⟨c, a, h, rfl, ha, hd, hs, _⟩ | ⟨f, h, hop, hf, hd, hs, _⟩ | ⟨_, _, hnr⟩
  · rw [hs] at hl; simp only [lookup_recv] at hl
    by_cases hid : h.id = i
    · subst hid; simp [hn] at hl
    · simp [hid, hn] at hl
  · rw [hs] at hl; simp only [lookup_send] at hl
    by_cases hid : h.id = i
    · subst hid; simp [hn] at hl; subst hl
      exact ⟨by rcases hop with rfl | ⟨c', rfl⟩ <;> simp [Op.publishesFrame, hf], hdrId_of_decode hd⟩
    · simp [hid, hn] at hl
  · rw [hnr] at hr; cases hr

/-- a publication that finds no stored message under its id stores its frame with expiry `now + ttl` -/
theorem send_stores {s : State} (hwf : WF s) {id : Id} {ttl : Nat} {frame : Bytes} {now : Nat}
    (hnr : ∀ m, lookup id (cleanup now s).msgs ≠ some (.ready m)) :
    lookup id (send s id ttl frame now).1.msgs = some (.ready frame) ∧
      pubExp id (send s id ttl frame now).1.heap = now + ttl := by
  have hc := WF_cleanup hwf now
  have hp := hc.pubs_nil (i := id) hnr
  rcases entry_cases (lookup id (cleanup now s).msgs) with ⟨m, hl⟩ | ⟨exp, conns, hl⟩ | hl
  · exact absurd hl (hnr m)
  · rw [send_waiters hl]; exact ⟨by simp [lookup_insert], pubExp_push_self _ hp⟩
  · rw [send_none hl]; exact ⟨by simp [lookup_insert], pubExp_push_self _ hp⟩

end SlVerif.Relay
