import SlVerif.Model.Matrix
import SlVerif.Proofs.FieldInst
import Mathlib.LinearAlgebra.Matrix.Adjugate
import Mathlib.Tactic.FieldSimp
import Mathlib.Tactic.Ring
import Mathlib.Tactic.FinCases
/-
  Helper lemmas for C20: the executable model `SlVerif.Mat` (Model/Matrix.lean) read as Mathlib matrices.
-/
namespace SlVerif
namespace Mat
open Matrix

variable {F : Type}

/-- the model's nested vector as a Mathlib matrix -/
def toMatrix {n : ℕ} (A : M F n) : Matrix (Fin n) (Fin n) F := Matrix.of fun i j => get A i j

@[simp] theorem toMatrix_apply {n : ℕ} (A : M F n) (i j : Fin n) : toMatrix A i j = get A i j := rfl

@[simp] theorem get_ofFn {n : ℕ} (f : Fin n → Fin n → F) (i j : Fin n) : get (ofFn f) i j = f i j := by
  simp [get, ofFn]

theorem toMatrix_ofFn {n : ℕ} (f : Fin n → Fin n → F) : toMatrix (ofFn f) = Matrix.of f := by
  ext i j; simp

theorem get_swapRows {n : ℕ} (A : M F (n+1)) (m i j : Fin (n+1)) :
    get (swapRows A m) i j = get A (Equiv.swap 0 m i) j := by
  unfold get swapRows
  simp only [Fin.getElem_fin, Vector.getElem_ofFn, Fin.eta]
  by_cases h0 : i = 0
  · subst h0; simp
  · by_cases hm : i = m
    · subst hm; simp [h0]
    · simp [h0, hm, Equiv.swap_apply_of_ne_of_ne h0 hm]

theorem toMatrix_swapRows {n : ℕ} (A : M F (n+1)) (m : Fin (n+1)) :
    toMatrix (swapRows A m) = (toMatrix A).submatrix (Equiv.swap 0 m) id := by
  ext i j; simp [get_swapRows]

theorem skip_eq_succAbove {n : ℕ} (r : Fin (n+1)) : skip r = Fin.succAbove r := by
  funext i
  unfold skip Fin.succAbove
  simp [Fin.lt_def]

theorem toMatrix_minor {n : ℕ} (A : M F (n+1)) (r c : Fin (n+1)) :
    toMatrix (minor A r c) = (toMatrix A).submatrix r.succAbove c.succAbove := by
  ext i j; simp [minor, skip_eq_succAbove]

theorem toMatrix_transpose {n : ℕ} (A : M F n) : toMatrix (transpose A) = (toMatrix A)ᵀ := by
  ext i j; simp [transpose]

variable [Field F]

theorem det_swapRows {n : ℕ} (A : M F (n+1)) (m : Fin n) :
    (toMatrix (swapRows A m.succ)).det = - (toMatrix A).det := by
  rw [toMatrix_swapRows, Matrix.det_permute, Equiv.Perm.sign_swap (Fin.succ_ne_zero m).symm]
  simp

/-! ### the Bareiss step -/

/-- one Bareiss step on an (n+2)x(n+2) matrix with non-zero pivot A 0 0 -/
def bStep {n : ℕ} (A : Matrix (Fin (n+2)) (Fin (n+2)) F) (prev : F) : Matrix (Fin (n+1)) (Fin (n+1)) F :=
  fun j k => (A j.succ k.succ * A 0 0 - A j.succ 0 * A 0 k.succ) / prev

/-- det A = p * det (Schur complement) -/
theorem det_schur {n : ℕ} (A : Matrix (Fin (n+2)) (Fin (n+2)) F) (hp : A 0 0 ≠ 0) :
    A.det = A 0 0 * (Matrix.of fun (j k : Fin (n+1)) => A j.succ k.succ - A j.succ 0 / A 0 0 * A 0 k.succ).det := by
  -- eliminate column 0 below the pivot
  let c : Fin (n+2) → F := fun i => Fin.cases 0 (fun j => - (A j.succ 0 / A 0 0)) i
  let B : Matrix (Fin (n+2)) (Fin (n+2)) F := fun i j => A i j + c i * A 0 j
  have hB : B.det = A.det :=
    det_eq_of_forall_row_eq_smul_add_const c 0 (by simp [c]) (fun i j => rfl)
  rw [← hB, det_succ_column_zero, Fin.sum_univ_succ]
  have hcol : ∀ i : Fin (n+1), B i.succ 0 = 0 := by
    intro i; simp only [B, c, Fin.cases_succ]; field_simp; ring
  simp only [hcol, mul_zero, zero_mul, Finset.sum_const_zero, add_zero, Fin.val_zero, pow_zero, one_mul]
  have h00 : B 0 0 = A 0 0 := by simp [B, c]
  rw [h00]; congr 1
  congr 1; ext j k
  show A j.succ k.succ + (Fin.cases 0 (fun j => - (A j.succ 0 / A 0 0)) j.succ : F) * A 0 k.succ = _
  simp only [Fin.cases_succ, of_apply]
  ring

theorem det_bStep {n : ℕ} (A : Matrix (Fin (n+2)) (Fin (n+2)) F) (prev : F) (hp : A 0 0 ≠ 0) (hprev : prev ≠ 0) :
    (bStep A prev).det = (A 0 0 / prev) ^ (n+1) * (A.det / A 0 0) := by
  have : bStep A prev = (A 0 0 / prev) • (Matrix.of fun (j k : Fin (n+1)) => A j.succ k.succ - A j.succ 0 / A 0 0 * A 0 k.succ) := by
    ext j k; simp only [bStep, Matrix.smul_apply, of_apply, smul_eq_mul]; field_simp
  rw [this, det_smul, det_schur A hp, Fintype.card_fin]; field_simp

variable [DecidableEq F]

theorem toMatrix_step {n : ℕ} (A : M F (n+2)) (prev : Option F) :
    toMatrix (step A prev) = bStep (toMatrix A) (prev.getD 1) := by
  ext j k
  cases prev <;> simp [step, bStep, div_eq_mul_inv]

/-! ### pivot search -/

theorem findPivot_some {n : ℕ} (A : M F (n+1)) (m : Fin n) (h : findPivot A = some m) : get A m.succ 0 ≠ 0 := by
  have := List.find?_some h
  simpa using this

theorem findPivot_none {n : ℕ} (A : M F (n+1)) (h : findPivot A = none) (m : Fin n) : get A m.succ 0 = 0 := by
  have := (List.find?_eq_none.mp h) m (List.mem_finRange m)
  simpa using this

/-- the pivot search / row swap at the head of a `bareissAux` iteration -/
def pivoted {n : ℕ} (A : M F (n+1)) (sign : F) : M F (n+1) × F :=
  if FieldOps.isZero (get A 0 0) then
    match findPivot A with
    | some m => (swapRows A m.succ, FieldOps.neg sign)
    | none => (A, sign)
  else (A, sign)

theorem bareissAux_succ {n : ℕ} (A : M F (n+2)) (prev : Option F) (sign : F) :
    bareissAux (n+1) A prev sign =
      if FieldOps.isZero (get (pivoted A sign).1 0 0) then .ok FieldOps.zero
      else
        match prev with
        | some p => if FieldOps.isZero p then .err "Modular inverse does not exist while computing determinant"
                    else bareissAux n (step (pivoted A sign).1 prev) (some (get (pivoted A sign).1 0 0)) (pivoted A sign).2
        | none => bareissAux n (step (pivoted A sign).1 prev) (some (get (pivoted A sign).1 0 0)) (pivoted A sign).2 := by
  rw [bareissAux]
  unfold pivoted
  by_cases h0 : FieldOps.isZero (get A 0 0) = true
  · simp only [h0, if_true]
    cases findPivot A <;> rfl
  · simp only [h0]
    rfl

theorem pivoted_det {n : ℕ} (A : M F (n+1)) (sign : F) :
    (pivoted A sign).2 * (toMatrix (pivoted A sign).1).det = sign * (toMatrix A).det := by
  unfold pivoted
  split
  · split
    · simp [det_swapRows]
    · rfl
  · rfl

theorem pivoted_zero {n : ℕ} (A : M F (n+1)) (sign : F) (h : get (pivoted A sign).1 0 0 = 0) :
    (toMatrix A).det = 0 := by
  unfold pivoted at h
  split at h
  · rename_i h0
    split at h
    · rename_i m hm
      have := findPivot_some A m hm
      simp [get_swapRows] at h
      exact absurd h this
    · rename_i hm
      apply Matrix.det_eq_zero_of_column_eq_zero 0
      intro i
      refine Fin.cases ?_ (fun m => ?_) i
      · simpa using h
      · simpa using findPivot_none A hm m
  · rename_i h0
    simp [h] at h0

theorem bareissAux_correct : ∀ (n : ℕ) (A : M F (n+1)) (prev : Option F) (sign : F), prev.getD 1 ≠ 0 →
    bareissAux n A prev sign = .ok (sign * (toMatrix A).det / (prev.getD 1) ^ n) := by
  intro n
  induction n with
  | zero =>
    intro A prev sign _
    rw [bareissAux]
    simp [mul_comm]
  | succ n ih =>
    intro A prev sign hprev
    rw [bareissAux_succ]
    by_cases hz : get (pivoted A sign).1 0 0 = 0
    · have hd := pivoted_zero A sign hz
      simp [hz, hd]
    · have hstep : bareissAux n (step (pivoted A sign).1 prev) (some (get (pivoted A sign).1 0 0)) (pivoted A sign).2
          = .ok (sign * (toMatrix A).det / (prev.getD 1) ^ (n+1)) := by
        rw [ih _ _ _ (by simpa using hz), toMatrix_step, det_bStep _ _ (by simpa using hz) hprev]
        congr 1
        have hpd := pivoted_det A sign
        simp only [Option.getD_some, toMatrix_apply]
        rw [← hpd, div_pow]
        field_simp
        ring
      cases prev with
      | none => simpa [hz] using hstep
      | some p =>
        have hp : p ≠ 0 := by simpa using hprev
        simpa [hz, hp] using hstep

theorem determinant_eq {n : ℕ} (A : M F n) : determinant n A = .ok (toMatrix A).det := by
  cases n with
  | zero => simp [determinant]
  | succ n =>
    rw [determinant, bareissAux_correct n A none _ (by simp)]
    simp

/-! ### `mapM?` -/

theorem mapM?_ok {n : ℕ} (f : Fin n → Fin n → Outcome F) (g : Fin n → Fin n → F)
    (h : ∀ i j, f i j = .ok (g i j)) : mapM? f = .ok (ofFn g) := by
  unfold mapM?
  have hall : ∀ x ∈ ((List.finRange n).map fun i => (List.finRange n).map fun j => f i j).flatten,
      ∃ v, x = .ok v := by
    intro x hx
    simp only [List.mem_flatten, List.mem_map] at hx
    obtain ⟨l, ⟨i, _, rfl⟩, hx⟩ := hx
    simp only [List.mem_map] at hx
    obtain ⟨j, _, rfl⟩ := hx
    exact ⟨_, h i j⟩
  dsimp only
  split
  · rename_i e heq
    obtain ⟨v, hv⟩ := hall _ (List.mem_of_find?_eq_some heq)
    cases hv
  · rename_i e heq
    obtain ⟨v, hv⟩ := hall _ (List.mem_of_find?_eq_some heq)
    cases hv
  · simp only [h]

/-! ### `inverse` -/

theorem inverse_singular_eq {n : ℕ} (A : M F (n+1)) (hd : (toMatrix A).det = 0) :
    inverse (n+1) A = .panic "invert().unwrap() of a zero determinant" := by
  rw [inverse, determinant_eq]
  simp [hd]

theorem inverse_two_eq (A : M F 2) (hd : (toMatrix A).det ≠ 0) :
    inverse 2 A = .ok (ofFn fun i j =>
      if i = 0 ∧ j = 0 then get A 1 1 * (toMatrix A).det⁻¹
      else if i = 0 ∧ j = 1 then (0 - 1) * get A 0 1 * (toMatrix A).det⁻¹
      else if i = 1 ∧ j = 0 then (0 - 1) * get A 1 0 * (toMatrix A).det⁻¹
      else get A 0 0 * (toMatrix A).det⁻¹) := by
  rw [inverse, determinant_eq]
  simp [hd]

theorem inverse_ne_two_eq {n : ℕ} (hn : n + 1 ≠ 2) (A : M F (n+1)) (hd : (toMatrix A).det ≠ 0) :
    inverse (n+1) A = .ok (ofFn fun i j =>
      ((0 - 1) ^ ((j : ℕ) + (i : ℕ)) * ((toMatrix A).submatrix j.succAbove i.succAbove).det)
        * (toMatrix A).det⁻¹) := by
  rw [inverse, determinant_eq]
  simp only [determinant_eq, toMatrix_minor]
  rw [mapM?_ok _ (fun r c : Fin (n+1) =>
    (0 - 1 : F) ^ ((r : ℕ) + (c : ℕ)) * ((toMatrix A).submatrix r.succAbove c.succAbove).det) (fun _ _ => by simp)]
  simp [hd, hn, transpose]

/-- whenever the determinant is non-zero the code returns `det⁻¹ • adjugate` -/
theorem inverse_eq_adjugate {n : ℕ} (A : M F (n+1)) (hd : (toMatrix A).det ≠ 0) :
    ∃ B, inverse (n+1) A = .ok B ∧ toMatrix B = (toMatrix A).det⁻¹ • (toMatrix A).adjugate := by
  by_cases hn : n + 1 = 2
  · obtain rfl : n = 1 := by omega
    refine ⟨_, inverse_two_eq A hd, ?_⟩
    rw [toMatrix_ofFn]
    ext i j
    rw [Matrix.adjugate_fin_two]
    fin_cases i <;> fin_cases j <;> simp [mul_comm]
  · refine ⟨_, inverse_ne_two_eq hn A hd, ?_⟩
    rw [toMatrix_ofFn]
    ext i j
    simp only [Matrix.of_apply, Matrix.smul_apply, smul_eq_mul,
      Matrix.adjugate_fin_succ_eq_det_submatrix, zero_sub]
    ring

/-! ### the Laplace reference oracle -/

theorem laplace_eq {n : ℕ} (A : M F n) : laplace n A = (toMatrix A).det := by
  induction n with
  | zero => simp [laplace]
  | succ n ih =>
    rw [laplace, Matrix.det_succ_row_zero, Fin.sum_univ_def]
    simp only [FieldOps.ofField_sum, FieldOps.ofField_mul, FieldOps.ofField_pow, FieldOps.ofField_sub,
      FieldOps.ofField_zero, FieldOps.ofField_one, zero_sub, ih, toMatrix_minor, toMatrix_apply, Fin.succAbove_zero]

end Mat
end SlVerif
