import SlVerif.Proofs.Math
import SlVerif.Proofs.Matrix
import Mathlib.LinearAlgebra.Matrix.NonsingularInverse

namespace SlVerif
namespace Math
open Finset Matrix

variable {F : Type} [Field F] [DecidableEq F]

theorem multiplier_eq (x : F) (r k : ℕ) :
    multiplier x r k = if k < r then 0 else ((k.descFactorial r : ℕ) : F) * x ^ (k - r) := by
  unfold multiplier
  split
  · rfl
  · rename_i h
    rw [FieldOps.ofField_mul, FieldOps.ofField_pow, factorialRange_eq _ _ (Nat.sub_le _ _),
      Nat.sub_sub_self (Nat.le_of_not_lt h)]

theorem get_birkhoffMatrix (params : List (F × ℕ)) (i j : Fin params.length) :
    Mat.get (birkhoffMatrix params) i j = multiplier (params[i]).1 (params[i]).2 j := by
  unfold Mat.get birkhoffMatrix
  simp [coeffMultipliers]

theorem sum_range_shift {M : Type} [AddCommMonoid M] (g : ℕ → M) (r len : ℕ) (h0 : ∀ k, k < r → g k = 0) :
    ∑ k ∈ range len, g k = ∑ j ∈ range (len - r), g (j + r) := by
  by_cases h : r ≤ len
  · obtain ⟨m, rfl⟩ := Nat.exists_eq_add_of_le h
    rw [Finset.sum_range_add, Nat.add_sub_cancel_left, Finset.sum_eq_zero (fun k hk => h0 k (mem_range.mp hk)),
      zero_add]
    simp only [Nat.add_comm]
  · rw [Nat.sub_eq_zero_of_le (by omega), Finset.sum_range_zero]
    exact Finset.sum_eq_zero fun k hk => h0 k (by have := mem_range.mp hk; omega)

section Gen
variable {G : Type} [AddCommGroup G] [Module F G]

omit [DecidableEq F] in
/-- `Σ_{k<N} multiplier(x,r,k) • c_k` is the r-th derivative at x of `Σ c_k X^k` (c vanishing from `len ≤ N` on) -/
theorem sum_multiplier (x : F) (r len N : ℕ) (hN : len ≤ N) (c : ℕ → G) (hc : ∀ k, len ≤ k → c k = 0) :
    ∑ k ∈ range N, (if k < r then (0:F) else ((k.descFactorial r : ℕ) : F) * x ^ (k - r)) • c k
      = ∑ j ∈ range (len - r), ((((j + r).descFactorial r : ℕ) : F) * x ^ j) • c (j + r) := by
  have h1 : ∑ k ∈ range N, (if k < r then (0:F) else ((k.descFactorial r : ℕ) : F) * x ^ (k - r)) • c k
      = ∑ k ∈ range len, (if k < r then (0:F) else ((k.descFactorial r : ℕ) : F) * x ^ (k - r)) • c k := by
    symm
    apply Finset.sum_subset (fun k hk => mem_range.mpr (lt_of_lt_of_le (mem_range.mp hk) hN))
    intro k _ hk
    rw [hc k (by simpa using hk), smul_zero]
  rw [h1, sum_range_shift _ r len (fun k hk => by simp [hk])]
  apply Finset.sum_congr rfl
  intro j _
  simp
end Gen

theorem derivativeAt_eq_sum_multiplier (l : List F) (N : ℕ) (hN : l.length ≤ N) (r : ℕ) (x : F) :
    derivativeAt l r x = ∑ k ∈ range N, multiplier x r k * l.getD k 0 := by
  simp only [multiplier_eq]
  have := sum_multiplier (G := F) x r l.length N hN (fun k => l.getD k 0)
    (fun k hk => by simp [List.getElem?_eq_none hk])
  simp only [smul_eq_mul] at this
  rw [this, derivativeAt_sum]
  apply Finset.sum_congr rfl
  intro j _
  ring

section Group
variable {G : Type} [AddCommGroup G] [Module F G] [DecidableEq G]

theorem derivativeCoeffsCore_length (gc : List G) (n : ℕ) :
    (derivativeCoeffsCore (F := F) gc n).length = gc.length - n := by
  simp [derivativeCoeffsCore]

theorem derivativeCoeffsCore_getD (gc : List G) (n k : ℕ) :
    (derivativeCoeffsCore (F := F) gc n).getD k 0 = (((k + n).descFactorial n : ℕ) : F) • gc.getD (k + n) 0 := by
  rw [derivativeCoeffsCore_eq, List.getD_eq_getElem?_getD, getElem?_map_zipIdx, List.getD_eq_getElem?_getD,
    List.getElem?_drop, Nat.add_comm n k]
  cases gc[k + n]? <;> simp

theorem gDerivative_eq_sum_multiplier (gc : List G) (N : ℕ) (hN : gc.length ≤ N) (r : ℕ) (x : F) :
    gEvaluateAt (derivativeCoeffsCore (F := F) gc r) x = ∑ k ∈ range N, multiplier x r k • gc.getD k 0 := by
  simp only [multiplier_eq]
  rw [sum_multiplier (G := G) x r gc.length N hN (fun k => gc.getD k 0)
    (fun k hk => by simp [List.getElem?_eq_none hk]), gEvaluateAt_sum, derivativeCoeffsCore_length]
  apply Finset.sum_congr rfl
  intro j _
  rw [derivativeCoeffsCore_getD, smul_smul, mul_comm]

end Group

omit [DecidableEq F] in
/-- the linear algebra behind Birkhoff interpolation, in any module -/
theorem row_inverse_apply {n : ℕ} {G : Type} [AddCommGroup G] [Module F G]
    (A B : Matrix (Fin n) (Fin n) F) (hBA : B * A = 1) (c : Fin n → G) (i0 : Fin n) :
    ∑ i, B i0 i • ∑ j, A i j • c j = c i0 := by
  simp only [Finset.smul_sum, smul_smul]
  rw [Finset.sum_comm]
  simp only [← Finset.sum_smul]
  have : ∀ j, ∑ i, B i0 i * A i j = (1 : Matrix (Fin n) (Fin n) F) i0 j := by
    intro j
    rw [← hBA, Matrix.mul_apply]
  simp only [this, Matrix.one_apply, ite_smul, one_smul, zero_smul, Finset.sum_ite_eq, Finset.mem_univ, if_true]


/-! ### `birkhoffCoeffs` -/

theorem sum_zipWith_eq {α β M : Type} [AddCommMonoid M] (f : α → β → M) (l1 : List α) (l2 : List β)
    (h : l1.length = l2.length) :
    (List.zipWith f l1 l2).sum = ∑ i : Fin l2.length, f (l1[i.val]'(by rw [h]; exact i.isLt)) l2[i] := by
  have : List.zipWith f l1 l2 = List.ofFn fun i : Fin l2.length => f (l1[i.val]'(by rw [h]; exact i.isLt)) l2[i] := by
    apply List.ext_getElem
    · simp [h]
    · intro i h1 h2
      simp
  rw [this, List.sum_ofFn]

/-- what a successful `birkhoffCoeffs` returned: row 0 of the matrix returned by `Mat.inverse` -/
theorem birkhoffCoeffs_ok (params : List (F × ℕ)) (b : List F) (hb : birkhoffCoeffs params = .ok b) :
    ∃ (h0 : 0 < params.length) (B : Mat.M F params.length),
      Mat.inverse params.length (birkhoffMatrix params) = .ok B ∧ b = (B[0]'h0).toList := by
  unfold birkhoffCoeffs at hb
  split at hb
  · rename_i B hB
    split at hb
    · rename_i h0
      exact ⟨h0, B, hB, by injection hb with hb; exact hb.symm⟩
    · cases hb
  · cases hb
  · cases hb

theorem birkhoffCoeffs_of_inverse (params : List (F × ℕ)) (h0 : 0 < params.length) (B : Mat.M F params.length)
    (hB : Mat.inverse params.length (birkhoffMatrix params) = .ok B) :
    birkhoffCoeffs params = .ok (B[0]'h0).toList := by
  unfold birkhoffCoeffs
  rw [hB]
  simp [h0]

section Group
variable {G : Type} [AddCommGroup G] [Module F G] [DecidableEq G]

/-- Birkhoff identity, Fin-indexed, from `B * A = 1` -/
theorem birkhoff_fin (params : List (F × ℕ)) (gc : List G) (hlen : gc.length ≤ params.length)
    (B : Mat.M F params.length) (hBA : Mat.toMatrix B * Mat.toMatrix (birkhoffMatrix params) = 1)
    (i0 : Fin params.length) :
    ∑ i : Fin params.length,
        Mat.get B i0 i • gEvaluateAt (derivativeCoeffsCore (F := F) gc (params[i]).2) (params[i]).1
      = gc.getD i0 0 := by
  have h := row_inverse_apply (Mat.toMatrix (birkhoffMatrix params)) (Mat.toMatrix B) hBA
    (fun j : Fin params.length => gc.getD j 0) i0
  rw [← h]
  apply Finset.sum_congr rfl
  intro i _
  rw [gDerivative_eq_sum_multiplier gc params.length hlen, Finset.sum_range]
  simp only [Mat.toMatrix_apply, get_birkhoffMatrix]

/-- list form of the identity for the list returned by `birkhoffCoeffs` -/
theorem birkhoff_list (params : List (F × ℕ)) (gc : List G) (hlen : gc.length ≤ params.length)
    (h0 : 0 < params.length) (B : Mat.M F params.length)
    (hBA : Mat.toMatrix B * Mat.toMatrix (birkhoffMatrix params) = 1) :
    (List.zipWith (fun (bi : F) (p : F × ℕ) => bi • gEvaluateAt (derivativeCoeffsCore (F := F) gc p.2) p.1)
        (B[0]'h0).toList params).sum = gc.getD 0 0 := by
  rw [sum_zipWith_eq _ _ _ (by simp)]
  have := birkhoff_fin params gc hlen B hBA ⟨0, h0⟩
  simp only [Mat.get] at this
  simpa using this

end Group

/-- scalar form, Fin-indexed -/
theorem birkhoff_fin_scalar (params : List (F × ℕ)) (l : List F) (hlen : l.length ≤ params.length)
    (B : Mat.M F params.length) (hBA : Mat.toMatrix B * Mat.toMatrix (birkhoffMatrix params) = 1)
    (i0 : Fin params.length) :
    ∑ i : Fin params.length, Mat.get B i0 i * derivativeAt l (params[i]).2 (params[i]).1 = l.getD i0 0 := by
  have h := row_inverse_apply (Mat.toMatrix (birkhoffMatrix params)) (Mat.toMatrix B) hBA
    (fun j : Fin params.length => l.getD j 0) i0
  simp only [smul_eq_mul] at h
  rw [← h]
  apply Finset.sum_congr rfl
  intro i _
  rw [derivativeAt_eq_sum_multiplier l params.length hlen, Finset.sum_range]
  simp only [Mat.toMatrix_apply, get_birkhoffMatrix]

/-- scalar form -/
theorem birkhoff_list_scalar (params : List (F × ℕ)) (l : List F) (hlen : l.length ≤ params.length)
    (h0 : 0 < params.length) (B : Mat.M F params.length)
    (hBA : Mat.toMatrix B * Mat.toMatrix (birkhoffMatrix params) = 1) :
    (List.zipWith (fun (bi : F) (p : F × ℕ) => bi * derivativeAt l p.2 p.1) (B[0]'h0).toList params).sum
      = l.getD 0 0 := by
  rw [sum_zipWith_eq _ _ _ (by simp)]
  have := birkhoff_fin_scalar params l hlen B hBA ⟨0, h0⟩
  simp only [Mat.get] at this
  simpa using this

end Math
end SlVerif
