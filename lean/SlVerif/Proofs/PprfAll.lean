import SlVerif.Proofs.PprfTree
/-
  C06 helper lemmas, part 4: all trees (build_pprf / eval_pprf), facts that hold for every message (punctured index,
  dependence on the correction words), tampering.
-/
namespace SlVerif.Pprf
open SlVerif

variable (h : Query → Bytes) (sid : Bytes)

theorem buildPprf_id (keys : List (Bytes × Bytes)) (init : List Bytes) :
    buildPprf (m := Id) h sid keys init =
      (((List.range NT).map fun j => buildTree (m := Id) h sid (treeKeys keys j) (init.getD j (zeros (2*KB)))).map (·.1),
       ((List.range NT).map fun j => buildTree (m := Id) h sid (treeKeys keys j) (init.getD j (zeros (2*KB)))).map (·.2)) := by
  simp only [buildPprf, mapSeq_id]
  rfl

theorem evalTrees_nil (bits : Bytes) (dks : List Bytes) : evalTrees (m := Id) h sid bits dks [] = .ok [] := rfl

theorem evalTrees_cons (bits : Bytes) (dks : List Bytes) (j : Nat) (msg : TreeMsg) (rest : List (Nat × TreeMsg)) :
    evalTrees (m := Id) h sid bits dks ((j, msg) :: rest) =
      match evalTree (m := Id) h sid (treeBit bits j) (treeDk dks j) msg with
      | none => .error "Invalid proof"
      | some r =>
          match evalTrees (m := Id) h sid bits dks rest with
          | .ok rs => .ok (r :: rs)
          | .error e => .error e := by
  rw [evalTrees]
  rfl

/-- if every tree is accepted, so is the whole message, with the per-tree results in order -/
theorem evalTrees_ok (bits : Bytes) (dks : List Bytes) (R : Nat × TreeMsg → Nat × List Bytes) :
    ∀ (l : List (Nat × TreeMsg)),
      (∀ p ∈ l, evalTree (m := Id) h sid (treeBit bits p.1) (treeDk dks p.1) p.2 = some (R p)) →
      evalTrees (m := Id) h sid bits dks l = .ok (l.map R) := by
  intro l
  induction l with
  | nil => intro _; rfl
  | cons p rest ih =>
    intro hp
    obtain ⟨j, msg⟩ := p
    rw [evalTrees_cons, hp (j, msg) (by simp), ih (fun q hq => hp q (by simp [hq]))]
    rfl

/-- a rejected tree rejects the whole message -/
theorem evalTrees_err (bits : Bytes) (dks : List Bytes) :
    ∀ (l : List (Nat × TreeMsg)),
      (∃ p ∈ l, evalTree (m := Id) h sid (treeBit bits p.1) (treeDk dks p.1) p.2 = none) →
      evalTrees (m := Id) h sid bits dks l = .error "Invalid proof" := by
  intro l
  induction l with
  | nil => intro ⟨p, hp, _⟩; simp at hp
  | cons p rest ih =>
    intro ⟨q, hq, hnone⟩
    obtain ⟨j, msg⟩ := p
    rw [evalTrees_cons]
    cases hev : evalTree (m := Id) h sid (treeBit bits j) (treeDk dks j) msg with
    | none => rfl
    | some r =>
      have hq' : q ∈ rest := by
        rcases List.mem_cons.mp hq with rfl | hq'
        · rw [hev] at hnone; cases hnone
        · exact hq'
      simp only
      rw [ih ⟨q, hq', hnone⟩]

/-! ### facts about every message -/

theorem stepR_length (c : Nat) (w : Bytes × Bytes) (dkv : Bytes) (ystar : Nat) (s : List Bytes) :
    (stepR h sid c w dkv ystar s).length = 2 * s.length := by
  simp [stepR, interleave_length, maskAt_length]

/-- the punctured index is a function of the choice bits alone, and it stays inside the level -/
theorem evalLevels_fst (bit : Nat → Nat) (dk : Nat → Bytes) :
    ∀ (is : List Nat) (ws : List (Bytes × Bytes)) (ystar : Nat) (s : List Bytes),
      (evalLevels (m := Id) h sid bit dk is ws ystar s).1 = is.foldl (fun acc i => 2 * acc + (1 ^^^ bit i)) ystar := by
  intro is
  induction is with
  | nil => intros; rfl
  | cons i is ih => intro ws ystar s; rw [evalLevels_cons, ih]; rfl

theorem evalLevels_length (bit : Nat → Nat) (dk : Nat → Bytes) :
    ∀ (is : List Nat) (ws : List (Bytes × Bytes)) (ystar : Nat) (s : List Bytes),
      (evalLevels (m := Id) h sid bit dk is ws ystar s).2.length = 2 ^ is.length * s.length := by
  intro is
  induction is with
  | nil => intros; simp [evalLevels_nil]
  | cons i is ih =>
    intro ws ystar s
    rw [evalLevels_cons, ih, stepR_length, List.length_cons, Nat.pow_succ, Nat.mul_assoc]

theorem ystarOf_lt (bit : Nat → Nat) (hb : ∀ i < K, bit i ≤ 1) : ystarOf bit < Q := by
  have h0 := xor_one_le _ (hb 0 (by decide))
  have h1 := xor_one_le _ (hb 1 (by decide))
  have h2 := xor_one_le _ (hb 2 (by decide))
  have h3 := xor_one_le _ (hb 3 (by decide))
  simp only [ystarOf, show K = 4 from rfl, show Q = 16 from rfl, List.range_succ, List.range_zero, List.nil_append,
    List.cons_append, List.foldl_cons, List.foldl_nil]
  omega

/-- whatever the message: an accepted tree reports exactly `ystarOf bit` -/
theorem evalTree_ystar (bit : Nat → Nat) (dk : Nat → Bytes) (msg : TreeMsg) (y : Nat) (s : List Bytes)
    (hev : evalTree (m := Id) h sid bit dk msg = some (y, s)) : y = ystarOf bit ∧ s.length = Q := by
  rw [evalTree_id] at hev
  split at hev
  · cases hev
  · have hev := Option.some.inj hev
    have h1 := evalLevels_fst h sid bit dk levels msg.t (evalInit (bit 0) (dk 0)).1 (evalInit (bit 0) (dk 0)).2
    have h2 := evalLevels_length h sid bit dk levels msg.t (evalInit (bit 0) (dk 0)).1 (evalInit (bit 0) (dk 0)).2
    rw [hev] at h1 h2
    constructor
    · rw [ystarOf_eq]; exact h1
    · rw [h2, levels_eq]
      unfold evalInit
      split <;> rfl

/-- `evalLevels` reads only the side `bit i` of the correction word of level `i` -/
theorem evalLevels_congr (bit : Nat → Nat) (dk : Nat → Bytes) :
    ∀ (is : List Nat) (ws ws' : List (Bytes × Bytes)) (ystar : Nat) (s : List Bytes),
      (∀ k < is.length, sel (bit (is.getD k 0)) (ws.getD k ([], [])) = sel (bit (is.getD k 0)) (ws'.getD k ([], []))) →
      evalLevels (m := Id) h sid bit dk is ws ystar s = evalLevels (m := Id) h sid bit dk is ws' ystar s := by
  intro is
  induction is with
  | nil => intros; rfl
  | cons i is ih =>
    intro ws ws' ystar s hyp
    rw [evalLevels_cons, evalLevels_cons]
    have h0 := hyp 0 (by simp)
    have hhd : ∀ l : List (Bytes × Bytes), l.headD ([], []) = l.getD 0 ([], []) := by intro l; cases l <;> rfl
    have htl : ∀ (l : List (Bytes × Bytes)) k, l.tail.getD k ([], []) = l.getD (k+1) ([], []) := by
      intro l k; cases l <;> simp
    simp only [List.getD_cons_zero] at h0
    have hstep : stepR h sid (bit i) (ws.headD ([], [])) (dk i) ystar s = stepR h sid (bit i) (ws'.headD ([], [])) (dk i) ystar s := by
      unfold stepR
      rw [hhd, hhd, h0]
    rw [hstep]
    apply ih
    intro k hk
    have := hyp (k+1) (by simp; omega)
    simp only [List.getD_cons_succ] at this
    rw [htl, htl]
    exact this

theorem extractBit_le (bits : Bytes) (i : Nat) : extractBit bits i ≤ 1 := by
  unfold extractBit; omega

/-- results of accepted trees, for ANY message -/
theorem evalTrees_ok_inv (bits : Bytes) (dks : List Bytes) :
    ∀ (l : List (Nat × TreeMsg)) (r : List (Nat × List Bytes)),
      evalTrees (m := Id) h sid bits dks l = .ok r →
      r.length = l.length ∧ ∀ (k : Nat) (p : Nat × TreeMsg), l[k]? = some p →
        ∃ x, r[k]? = some x ∧ evalTree (m := Id) h sid (treeBit bits p.1) (treeDk dks p.1) p.2 = some x := by
  intro l
  induction l with
  | nil => intro r hr; rw [evalTrees_nil] at hr; cases hr; exact ⟨rfl, by simp⟩
  | cons p rest ih =>
    intro r hr
    obtain ⟨j, msg⟩ := p
    rw [evalTrees_cons] at hr
    cases hev : evalTree (m := Id) h sid (treeBit bits j) (treeDk dks j) msg with
    | none => rw [hev] at hr; cases hr
    | some x =>
      rw [hev] at hr
      simp only at hr
      cases hrest : evalTrees (m := Id) h sid bits dks rest with
      | error e => rw [hrest] at hr; cases hr
      | ok rs =>
        rw [hrest] at hr
        cases hr
        obtain ⟨hl, hall⟩ := ih rs hrest
        refine ⟨by simp [hl], ?_⟩
        intro k p hp
        cases k with
        | zero => simp at hp; subst hp; exact ⟨x, by simp, hev⟩
        | succ k => simp at hp; simpa using hall k p hp

end SlVerif.Pprf
