import Mathlib.Algebra.Polynomial.Basic
import Mathlib.Algebra.Polynomial.Coeff
import Mathlib.Algebra.Polynomial.Div
import Mathlib.Algebra.Polynomial.Monic
import Mathlib.Data.ZMod.Basic
import Mathlib.Algebra.CharP.Two
import Mathlib.Data.Nat.Bitwise
import Mathlib.Data.Nat.Size
import Mathlib.Tactic.Ring
import SlVerif.Model.Basic
import SlVerif.Model.Gf128
/-
  C19 helper lemmas, part 1: the bit ↔ polynomial dictionary `toPoly`, the modulus `P`,
  congruence modulo `P` (as equality of `%ₘ P`), and
  "the right-to-left comb is the plain carry-less product".
  Nothing here is a property statement; the property theorems are in `SlVerif/Props/C19.lean`.
-/
open Polynomial

namespace SlVerif.C19
open SlVerif SlVerif.Gf SlVerif.Generated

/-! ### the dictionary  ℕ (bit i) ↦ (ZMod 2)[X] (coefficient of X^i) -/

/-- GF(2)[X] polynomial of a natural number's bits: bit `i` of `n` is the coefficient of `X^i`. -/
noncomputable def toPoly (n : ℕ) : (ZMod 2)[X] :=
  ∑ i ∈ Finset.range (n.size), if n.testBit i then X ^ i else 0

/-- the field polynomial `f(x) = x^128 + x^7 + x^2 + x + 1` of the Rust doc comment -/
noncomputable def P : (ZMod 2)[X] := X ^ 128 + X ^ 7 + X ^ 2 + X + 1

theorem testBit_false_of_lt_of_le {n k i : ℕ} (h : n < 2 ^ k) (hi : k ≤ i) : n.testBit i = false :=
  Nat.testBit_lt_two_pow (lt_of_lt_of_le h (Nat.pow_le_pow_right (by norm_num) hi))

theorem coeff_bitSum (n k i : ℕ) :
    (∑ j ∈ Finset.range k, if n.testBit j then (X : (ZMod 2)[X]) ^ j else 0).coeff i
      = if i < k ∧ n.testBit i then 1 else 0 := by
  rw [finsetSum_coeff]
  simp only [apply_ite (fun p : (ZMod 2)[X] => p.coeff i), coeff_X_pow, coeff_zero]
  by_cases h : i < k
  · rw [Finset.sum_eq_single i]
    · simp [h]
    · intro b _ hb; simp [Ne.symm hb]
    · intro hi; exact absurd (Finset.mem_range.mpr h) hi
  · rw [if_neg (fun hh => h hh.1)]
    apply Finset.sum_eq_zero
    intro b hb
    have : i ≠ b := by have := Finset.mem_range.mp hb; omega
    simp [this]

theorem coeff_toPoly (n i : ℕ) : (toPoly n).coeff i = if n.testBit i then 1 else 0 := by
  unfold toPoly
  rw [coeff_bitSum]
  by_cases h : i < n.size
  · simp [h]
  · have : n.testBit i = false := testBit_false_of_lt_of_le (Nat.lt_size_self n) (not_lt.mp h)
    simp [this]

/-- for `n < 2^k` the sum may be taken over `range k` -/
theorem toPoly_eq_sum_range (n k : ℕ) (h : n < 2 ^ k) :
    toPoly n = ∑ i ∈ Finset.range k, if n.testBit i then X ^ i else 0 := by
  ext i
  rw [coeff_toPoly, coeff_bitSum]
  by_cases hi : i < k
  · simp [hi]
  · have : n.testBit i = false := testBit_false_of_lt_of_le h (not_lt.mp hi)
    simp [this]

theorem toPoly_xor (a b : ℕ) : toPoly (a ^^^ b) = toPoly a + toPoly b := by
  ext i
  simp only [coeff_toPoly, coeff_add, Nat.testBit_xor]
  cases a.testBit i <;> cases b.testBit i <;> simp
  decide

theorem toPoly_shiftLeft (a k : ℕ) : toPoly (a <<< k) = X ^ k * toPoly a := by
  ext i
  simp only [coeff_toPoly, coeff_X_pow_mul', Nat.testBit_shiftLeft]
  by_cases h : k ≤ i <;> simp [h]

theorem toPoly_zero : toPoly 0 = 0 := by
  ext i; simp [coeff_toPoly]

theorem toPoly_two_pow (k : ℕ) : toPoly (2 ^ k) = X ^ k := by
  ext i
  rw [coeff_toPoly, Nat.testBit_two_pow, coeff_X_pow]
  by_cases h : k = i
  · simp [h]
  · simp [h, Ne.symm h]

theorem toPoly_one : toPoly 1 = 1 := by
  have := toPoly_two_pow 0
  simpa using this

/-- `2^s * a + b` with `b < 2^s` is the concatenation of the bits of `b` (low) and `a` (high) -/
theorem toPoly_two_pow_mul_add (a : ℕ) {b s : ℕ} (hb : b < 2 ^ s) :
    toPoly (2 ^ s * a + b) = toPoly b + X ^ s * toPoly a := by
  ext i
  rw [coeff_add, coeff_toPoly, coeff_toPoly, coeff_X_pow_mul', coeff_toPoly,
    Nat.testBit_two_pow_mul_add a hb i]
  by_cases h : i < s
  · have h' : ¬ s ≤ i := not_le.mpr h
    simp [h, h']
  · have h' : s ≤ i := not_lt.mp h
    have : b.testBit i = false := testBit_false_of_lt_of_le hb h'
    simp [h, h', this]

theorem toPoly_injective : Function.Injective toPoly := by
  intro a b h
  apply Nat.eq_of_testBit_eq
  intro i
  have := congrArg (fun p => p.coeff i) h
  simp only [coeff_toPoly] at this
  cases ha : a.testBit i <;> cases hb : b.testBit i <;> simp [ha, hb] at this ⊢

theorem degree_toPoly_lt {n k : ℕ} (h : n < 2 ^ k) : (toPoly n).degree < k := by
  rw [degree_lt_iff_coeff_zero]
  intro m hm
  rw [coeff_toPoly, testBit_false_of_lt_of_le h hm]
  simp

theorem degree_toPoly_le {n k : ℕ} (h : n < 2 ^ (k + 1)) : (toPoly n).degree ≤ k := by
  rw [degree_le_iff_coeff_zero]
  intro m hm
  have hm' : k + 1 ≤ m := by exact_mod_cast hm
  rw [coeff_toPoly, testBit_false_of_lt_of_le h hm']
  simp

theorem lt_two_pow_of_degree_lt {n k : ℕ} (h : (toPoly n).degree < k) : n < 2 ^ k := by
  apply Nat.lt_pow_two_of_testBit
  intro i hi
  have := (degree_lt_iff_coeff_zero _ _).mp h i hi
  rw [coeff_toPoly] at this
  cases hb : n.testBit i
  · rfl
  · simp [hb] at this

/-! ### the modulus -/

/-- the low part of `P` as a polynomial: what `x^128` is congruent to -/
noncomputable def Q : (ZMod 2)[X] := 1 + X + X ^ 2 + X ^ 7

theorem toPoly_0x87 : toPoly 0x87 = Q := by
  have h : (0x87 : ℕ) = 1 ^^^ (1 <<< 1) ^^^ (1 <<< 2) ^^^ (1 <<< 7) := by decide
  rw [h]
  simp only [toPoly_xor, toPoly_shiftLeft, toPoly_one, Q]
  ring

theorem P_eq : P = X ^ 128 + Q := by
  unfold P Q; ring

theorem degree_Q_lt : Q.degree < (128 : ℕ) := by
  rw [← toPoly_0x87]
  exact lt_of_lt_of_le (degree_toPoly_lt (k := 8) (by norm_num)) (by norm_num)

theorem P_monic : P.Monic := by
  rw [P_eq]; exact monic_X_pow_add degree_Q_lt

theorem P_degree : P.degree = (128 : ℕ) := by
  rw [P_eq, degree_add_eq_left_of_degree_lt]
  · simp
  · rw [degree_X_pow]; exact degree_Q_lt

/-- in characteristic 2, `Q - X^128 = P` -/
theorem Q_sub : Q - X ^ 128 = P := by
  rw [CharTwo.sub_eq_add, P_eq, add_comm]

theorem modP_self_of_lt {n : ℕ} (h : n < 2 ^ 128) : toPoly n %ₘ P = toPoly n := by
  rw [modByMonic_eq_self_iff P_monic, P_degree]
  exact degree_toPoly_lt h

theorem modP_add_congr {a a' b b' : (ZMod 2)[X]} (h1 : a %ₘ P = a' %ₘ P) (h2 : b %ₘ P = b' %ₘ P) :
    (a + b) %ₘ P = (a' + b') %ₘ P := by
  rw [add_modByMonic, add_modByMonic, h1, h2]

theorem modP_mul_congr {a a' b b' : (ZMod 2)[X]} (h1 : a %ₘ P = a' %ₘ P) (h2 : b %ₘ P = b' %ₘ P) :
    (a * b) %ₘ P = (a' * b') %ₘ P := by
  rw [mul_modByMonic, h1, h2, ← mul_modByMonic]

theorem modP_modP (a : (ZMod 2)[X]) : (a %ₘ P) %ₘ P = a %ₘ P := by
  rw [modByMonic_eq_self_iff P_monic]
  exact degree_modByMonic_lt _ P_monic

/-- the reduction rule: `r·Q ≡ r·X^128 (mod P)` -/
theorem modP_Q_mul (r a : (ZMod 2)[X]) : (a + r * Q) %ₘ P = (a + r * X ^ 128) %ₘ P := by
  apply modByMonic_eq_of_dvd_sub P_monic
  have : a + r * Q - (a + r * X ^ 128) = r * (Q - X ^ 128) := by
    generalize (X : (ZMod 2)[X]) ^ 128 = Y
    ring
  rw [this, Q_sub]
  generalize P = p
  exact dvd_mul_left p r

/-! ### comb accumulation = plain product -/

theorem toPoly_foldl_range (F : ℕ → ℕ → ℕ) (S : ℕ → (ZMod 2)[X])
    (hF : ∀ c k, toPoly (F c k) = toPoly c + S k) (n c : ℕ) :
    toPoly ((List.range n).foldl F c) = toPoly c + ∑ k ∈ Finset.range n, S k := by
  induction n with
  | zero => simp
  | succ n ih =>
    rw [List.range_succ, List.foldl_append, List.foldl_cons, List.foldl_nil, hF, ih,
      Finset.sum_range_succ, add_assoc]

/-- the double loop XORs `b <<< (W*j+k)` over exactly the set bits `W*j+k` of `a` -/
theorem toPoly_clmulComb (W T a b : ℕ) :
    toPoly (clmulComb W T a b)
      = ∑ k ∈ Finset.range W, ∑ j ∈ Finset.range T,
          if a.testBit (W * j + k) then X ^ (W * j + k) * toPoly b else 0 := by
  unfold clmulComb
  rw [toPoly_foldl_range _
    (fun k => ∑ j ∈ Finset.range T,
      if a.testBit (W * j + k) then X ^ (W * j + k) * toPoly b else 0) ?_ W 0,
    toPoly_zero, zero_add]
  intro c k
  refine toPoly_foldl_range _ _ ?_ T c
  intro c j
  by_cases h : a.testBit (W * j + k)
  · simp only [h, if_true, toPoly_xor, toPoly_shiftLeft]
    rw [pow_add, mul_assoc]
  · simp [h]

theorem sum_range_mul_add {M : Type*} [AddCommMonoid M] (h : ℕ → M) (w n : ℕ) :
    ∑ j ∈ Finset.range n, ∑ k ∈ Finset.range w, h (w * j + k) = ∑ i ∈ Finset.range (w * n), h i := by
  induction n with
  | zero => simp
  | succ n ih => rw [Finset.sum_range_succ, ih, Nat.mul_succ, Finset.sum_range_add]

theorem toPoly_clmulComb_eq_mul (W T a b : ℕ) (ha : a < 2 ^ (W * T)) :
    toPoly (clmulComb W T a b) = toPoly a * toPoly b := by
  rw [toPoly_clmulComb, Finset.sum_comm,
    sum_range_mul_add (fun i => if a.testBit i then X ^ i * toPoly b else 0) W T,
    toPoly_eq_sum_range a (W * T) ha, Finset.sum_mul]
  apply Finset.sum_congr rfl
  intro i _
  by_cases h : a.testBit i <;> simp [h]

theorem degree_mul_toPoly_lt {a b : ℕ} (ha : a < 2 ^ 128) (hb : b < 2 ^ 128) :
    (toPoly a * toPoly b).degree < (256 : ℕ) := by
  have h1 : (toPoly a).degree ≤ (127 : ℕ) := degree_toPoly_le ha
  have h2 : (toPoly b).degree ≤ (127 : ℕ) := degree_toPoly_le hb
  refine lt_of_le_of_lt (degree_mul_le_of_le h1 h2) ?_
  exact_mod_cast (by norm_num : (127 + 127 : ℕ) < 256)

end SlVerif.C19
