import SlVerif.Proofs.Primes
import SlVerif.Proofs.FieldInst
import Mathlib.Data.ZMod.Basic
import Mathlib.FieldTheory.Finite.Basic
/-
  The executable scalar type `Fq` (Model/Field.lean, what the driver runs) IS the field `ZMod secpQ`:
  `Fq.toZ : Fq → ZMod secpQ` commutes with every operation of `FieldOps Fq`, the right-hand side being the
  corresponding field operation of `ZMod secpQ` (instance `FieldOps.ofField`), it is injective on canonical
  representatives, and every operation returns a canonical representative.
  `FieldOpsHom φ` packages the commutation equations; `Fq.toZ_hom : FieldOpsHom Fq.toZ`.
-/
namespace SlVerif

instance secpQ_fact : Fact (Nat.Prime secpQ) := ⟨secpQ_prime⟩

/-- a map between two `FieldOps` structures that commutes with every primitive operation of the interface
    (the derived `FieldOps.pow` / `FieldOps.sum` follow: `FieldOpsHom.pow`, `FieldOpsHom.sum`) -/
structure FieldOpsHom {F K : Type} [FieldOps F] [FieldOps K] (φ : F → K) : Prop where
  zero : φ FieldOps.zero = FieldOps.zero
  one : φ FieldOps.one = FieldOps.one
  add : ∀ a b, φ (FieldOps.add a b) = FieldOps.add (φ a) (φ b)
  neg : ∀ a, φ (FieldOps.neg a) = FieldOps.neg (φ a)
  sub : ∀ a b, φ (FieldOps.sub a b) = FieldOps.sub (φ a) (φ b)
  mul : ∀ a b, φ (FieldOps.mul a b) = FieldOps.mul (φ a) (φ b)
  inv : ∀ a, φ (FieldOps.inv a) = FieldOps.inv (φ a)
  ofNat : ∀ n, φ (FieldOps.ofNat n) = FieldOps.ofNat n
  /-- `φ` preserves and reflects the zero test -/
  isZero : ∀ a, FieldOps.isZero (φ a) = FieldOps.isZero a

namespace FieldOpsHom
variable {F K : Type} [FieldOps F] [FieldOps K] {φ : F → K}

theorem pow (h : FieldOpsHom φ) (x : F) (n : ℕ) : φ (FieldOps.pow x n) = FieldOps.pow (φ x) n := by
  induction n with
  | zero => exact h.one
  | succ n ih => simp only [FieldOps.pow, h.mul, ih]

theorem foldl_add (h : FieldOpsHom φ) (l : List F) (acc : F) :
    φ (l.foldl FieldOps.add acc) = (l.map φ).foldl FieldOps.add (φ acc) := by
  induction l generalizing acc with
  | nil => rfl
  | cons x l ih => simp only [List.foldl_cons, List.map_cons, ih, h.add]

theorem sum (h : FieldOpsHom φ) (l : List F) : φ (FieldOps.sum l) = FieldOps.sum (l.map φ) := by
  unfold FieldOps.sum
  rw [h.foldl_add, h.zero]

end FieldOpsHom

namespace Fq
open FieldOps

/-- the class of a representative in the field `Z_q` -/
def toZ : Fq → ZMod secpQ := fun a => (a.val : ZMod secpQ)

/-- canonical representative (`0 ≤ val < q`) -/
def Canon (a : Fq) : Prop := a.val < secpQ

theorem secpQ_pos : 0 < secpQ := secpQ_prime.pos

@[simp] theorem toZ_mk' (n : ℕ) : toZ (mk' n) = (n : ZMod secpQ) := ZMod.natCast_mod n secpQ

theorem canon_mk' (n : ℕ) : Canon (mk' n) := Nat.mod_lt _ secpQ_pos

/-! ### `toZ` commutes with every operation -/

theorem toZ_zero : toZ (FieldOps.zero : Fq) = 0 := by
  change ((0 : ℕ) : ZMod secpQ) = 0; simp

theorem toZ_one : toZ (FieldOps.one : Fq) = 1 := by
  change ((1 : ℕ) : ZMod secpQ) = 1; simp

theorem toZ_add (a b : Fq) : toZ (FieldOps.add a b) = toZ a + toZ b := by
  change toZ (mk' (a.val + b.val)) = _
  rw [toZ_mk', Nat.cast_add]; rfl

theorem toZ_neg (a : Fq) : toZ (FieldOps.neg a) = - toZ a := by
  change toZ (mk' (secpQ - a.val % secpQ)) = _
  rw [toZ_mk', Nat.cast_sub (Nat.mod_lt _ secpQ_pos).le]
  simp [toZ]

theorem toZ_sub (a b : Fq) : toZ (FieldOps.sub a b) = toZ a - toZ b := by
  change toZ (mk' (a.val + (secpQ - b.val % secpQ))) = _
  rw [toZ_mk', Nat.cast_add, Nat.cast_sub (Nat.mod_lt _ secpQ_pos).le]
  simp [toZ, sub_eq_add_neg]

theorem toZ_mul (a b : Fq) : toZ (FieldOps.mul a b) = toZ a * toZ b := by
  change toZ (mk' (a.val * b.val)) = _
  rw [toZ_mk', Nat.cast_mul]; rfl

theorem toZ_ofNat (n : ℕ) : toZ (FieldOps.ofNat n : Fq) = (n : ZMod secpQ) := toZ_mk' n

theorem two_le_secpQ : 2 ≤ secpQ := secpQ_prime.two_le

/-- Fermat inversion `a^(q-2)` is the field inverse of `Z_q` (both sides are `0` at `0`) -/
theorem toZ_inv (a : Fq) : toZ (FieldOps.inv a) = (toZ a)⁻¹ := by
  change toZ (mk' (powMod secpQ 256 (a.val % secpQ) (secpQ - 2))) = _
  rw [toZ_mk', Primes.powMod_eq secpQ 256 _ _ (lt_of_le_of_lt (Nat.sub_le _ _) (by decide)),
    ZMod.natCast_mod, Nat.cast_pow, ZMod.natCast_mod]
  change toZ a ^ (secpQ - 2) = _
  by_cases h0 : toZ a = 0
  · rw [h0, inv_zero, zero_pow]
    have := two_le_secpQ
    decide
  · apply eq_inv_of_mul_eq_one_left
    rw [← pow_succ]
    have h2 : secpQ - 2 + 1 = secpQ - 1 := by have := two_le_secpQ; omega
    rw [h2]
    exact ZMod.pow_card_sub_one_eq_one h0

theorem isZero_iff (a : Fq) : FieldOps.isZero a = true ↔ toZ a = 0 := by
  change (a.val % secpQ == 0) = true ↔ _
  rw [beq_iff_eq, toZ, ZMod.natCast_eq_zero_iff, Nat.dvd_iff_mod_eq_zero]

theorem toZ_isZero (a : Fq) : FieldOps.isZero (toZ a) = FieldOps.isZero a := by
  rw [Bool.eq_iff_iff, isZero_iff, ofField_isZero_eq_true]

theorem toZ_pow (a : Fq) (n : ℕ) : toZ (FieldOps.pow a n) = toZ a ^ n := by
  induction n with
  | zero => exact toZ_one
  | succ n ih => rw [FieldOps.pow, toZ_mul, ih, pow_succ]

/-- the packaged statement: `toZ` is a homomorphism of `FieldOps` structures from the executable `Fq` to the field
    `ZMod secpQ` with its Mathlib operations (`FieldOps.ofField`) -/
theorem toZ_hom : FieldOpsHom Fq.toZ where
  zero := toZ_zero
  one := toZ_one
  add := toZ_add
  neg := toZ_neg
  sub := toZ_sub
  mul := toZ_mul
  inv := toZ_inv
  ofNat := toZ_ofNat
  isZero := toZ_isZero

theorem toZ_sum (l : List Fq) : toZ (FieldOps.sum l) = (l.map toZ).sum := by
  rw [toZ_hom.sum, ofField_sum]

/-! ### canonical representatives -/

/-- `toZ` is injective on canonical representatives -/
theorem toZ_inj {a b : Fq} (ha : a.val < secpQ) (hb : b.val < secpQ) (h : toZ a = toZ b) : a = b := by
  have := (ZMod.natCast_eq_natCast_iff' a.val b.val secpQ).1 h
  rw [Nat.mod_eq_of_lt ha, Nat.mod_eq_of_lt hb] at this
  cases a; cases b; simpa using this

/-- the canonical representative of a class, and `toZ` is onto -/
def ofZ (z : ZMod secpQ) : Fq := ⟨z.val⟩
theorem canon_ofZ (z : ZMod secpQ) : Canon (ofZ z) := ZMod.val_lt z
theorem toZ_ofZ (z : ZMod secpQ) : toZ (ofZ z) = z := ZMod.natCast_zmod_val z
theorem ofZ_toZ {a : Fq} (ha : Canon a) : ofZ (toZ a) = a :=
  toZ_inj (canon_ofZ _) ha (toZ_ofZ _)

/-- every operation returns a canonical representative (whatever its arguments) -/
theorem canon_zero : Canon (FieldOps.zero : Fq) := secpQ_pos
theorem canon_one : Canon (FieldOps.one : Fq) := two_le_secpQ
theorem canon_add (a b : Fq) : Canon (FieldOps.add a b) := canon_mk' _
theorem canon_neg (a : Fq) : Canon (FieldOps.neg a) := canon_mk' _
theorem canon_sub (a b : Fq) : Canon (FieldOps.sub a b) := canon_mk' _
theorem canon_mul (a b : Fq) : Canon (FieldOps.mul a b) := canon_mk' _
theorem canon_inv (a : Fq) : Canon (FieldOps.inv a) := canon_mk' _
theorem canon_ofNat (n : ℕ) : Canon (FieldOps.ofNat n : Fq) := canon_mk' _
theorem canon_pow (a : Fq) (n : ℕ) : Canon (FieldOps.pow a n) := by
  cases n with
  | zero => exact canon_one
  | succ n => exact canon_mul _ _
theorem canon_sum (l : List Fq) : Canon (FieldOps.sum l) := by
  unfold FieldOps.sum
  have : ∀ (l : List Fq) (acc : Fq), Canon acc → Canon (l.foldl FieldOps.add acc) := by
    intro l
    induction l with
    | nil => intro acc h; exact h
    | cons x l ih => intro acc _; exact ih _ (canon_add _ _)
  exact this l _ canon_zero

/-- on canonical values the executable operations are determined by the field operations -/
theorem add_eq (a b : Fq) : FieldOps.add a b = ofZ (toZ a + toZ b) := by
  rw [← toZ_add, ofZ_toZ (canon_add a b)]
theorem mul_eq (a b : Fq) : FieldOps.mul a b = ofZ (toZ a * toZ b) := by
  rw [← toZ_mul, ofZ_toZ (canon_mul a b)]
theorem inv_eq (a : Fq) : FieldOps.inv a = ofZ (toZ a)⁻¹ := by
  rw [← toZ_inv, ofZ_toZ (canon_inv a)]

end Fq
end SlVerif
