import SlVerif.Model.Basic
import SlVerif.Model.Paillier
namespace SlVerif.Drv.Paillier
open SlVerif SlVerif.Paillier

/-- `P` decimal bits of `Uint<P>`, `p`, `q` big-endian hex -/
def key? (P p q : String) : Option (Nat × SK) := do
  let P ← P.toNat?
  let p ← parseHexNat? p
  let q ← parseHexNat? q
  some (P, fromPQ P p q)

/--
  All numbers are big-endian hex without `0x`; byte strings are hex, `-` for empty.  (`pai` is stripped by the dispatcher.)
  `enc P p q m r` → c;  `dec P p q c` → m;  `decfast P p q c` → m;  `add P p q c1 c2` → c;  `mul P p q c k` → c;
  `mulvt P p q c k` → c;  `nroot P p q z` → r;  `message P p q <bytes>` → `some:<m>`|`none`;
  `key P p q` → `n,nn,phi,inv_phi,hp,hq,pinv_q`;  `specenc P p q m r`, `specadd P p q c1 c2`, `specmul P p q c k` → spec values.
-/
def handle : List String → Option String
  | ["enc", P, p, q, m, r] => do
      let (P, sk) ← key? P p q
      let m ← parseHexNat? m
      let r ← parseHexNat? r
      some (natHex (encryptWithR P sk m r))
  | ["dec", P, p, q, c] => do
      let (P, sk) ← key? P p q
      let c ← parseHexNat? c
      some (natHex (decrypt P sk c))
  | ["decfast", P, p, q, c] => do
      let (P, sk) ← key? P p q
      let c ← parseHexNat? c
      some (natHex (decryptFast P sk c))
  | ["add", P, p, q, c1, c2] => do
      let (_, sk) ← key? P p q
      let c1 ← parseHexNat? c1
      let c2 ← parseHexNat? c2
      some (natHex (add sk c1 c2))
  | ["mul", P, p, q, c, k] => do
      let (P, sk) ← key? P p q
      let c ← parseHexNat? c
      let k ← parseHexNat? k
      some (natHex (mul P sk c k))
  | ["mulvt", P, p, q, c, k] => do
      let (P, sk) ← key? P p q
      let c ← parseHexNat? c
      let k ← parseHexNat? k
      some (natHex (mulVartime P sk c k))
  | ["nroot", P, p, q, z] => do
      let (P, sk) ← key? P p q
      let z ← parseHexNat? z
      some (natHex (extractNRoot P sk z (extractNRootInitParams P sk)))
  | ["message", P, p, q, bytes] => do
      let (P, sk) ← key? P p q
      let bytes ← hexToBytes? bytes
      some (match message P sk bytes with
        | some m => "some:" ++ natHex m
        | none => "none")
  | ["key", P, p, q] => do
      let (_, sk) ← key? P p q
      some (String.intercalate "," ([sk.n, sk.nn, sk.phi, sk.inv_phi, sk.hp, sk.hq, sk.pinv_q].map natHex))
  | ["specenc", P, p, q, m, r] => do
      let (_, sk) ← key? P p q
      let m ← parseHexNat? m
      let r ← parseHexNat? r
      some (natHex (specEnc sk.n m r))
  | ["specadd", P, p, q, c1, c2] => do
      let (_, sk) ← key? P p q
      let c1 ← parseHexNat? c1
      let c2 ← parseHexNat? c2
      some (natHex (specAdd sk.n c1 c2))
  | ["specmul", P, p, q, c, k] => do
      let (_, sk) ← key? P p q
      let c ← parseHexNat? c
      let k ← parseHexNat? k
      some (natHex (specMul sk.n c k))
  | _ => none

end SlVerif.Drv.Paillier
