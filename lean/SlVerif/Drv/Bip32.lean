import SlVerif.Model.Bip32
import SlVerif.Drv.Common
namespace SlVerif.Drv.Bip32
open SlVerif SlVerif.Bip32

def parsePrefix? (s : String) : Option Nat :=
  match s with
  | "xpub" => some xpubVersion
  | "ypub" => some ypubVersion
  | "zpub" => some zpubVersion
  | "tpub" => some tpubVersion
  | _ => if s.length = 8 then parseHexNat? s else none

def parseU32? (s : String) : Option Nat := do
  let n ← s.toNat?
  if n < 2^32 then some n else none

def hex32 (n : Nat) : String := bytesToHex (natToBe 32 n)

def outStr {α} (f : α → String) : Bip32.Outcome α → String
  | .ok v => "ok:" ++ f v
  | .err e => "err:" ++ e.name
  | .panic _ => "panic"

/-- `bip32 derive <root33> <chaincode> <prefix: xpub|ypub|zpub|tpub|8 hex digits> <path: decimal u32,… | ->`
      → `ok:<version 8 hex>:<depth>:<parent fp>:<child number>:<chain code>:<key33>:<hex ser>:<base58>:<Σ offsets, 32-byte hex>:<offsets,…|->`
        | `err:<BIP32Error variant>` | `panic`
    `bip32 child <parent33> <chaincode> <index>` → `ok:<offset 32-byte hex>:<child33>:<child chain code>` | `err:…`
    `bip32 fp <key33>` → `ok:<4 bytes>` | `panic`
    `bip32 b58enc <bytes>` → Base58 string;  `bip32 b58dec <string>` → `ok:<bytes>` | `none` -/
def handle (O : Query → IO Bytes) : List String → IO (Option String)
  | ["derive", root, cc, pfx, path] => do
      match hexToBytes? root, hexToBytes? cc, parsePrefix? pfx, parseList? parseU32? path with
      | some root, some cc, some ver, some path =>
          match ← deriveXpubOffsets O ver root cc path with
          | .err e => pure (some ("err:" ++ e.name))
          | .panic _ => pure (some "panic")
          | .ok (x, offs) =>
              let hexS ← Bip32.toString O x false
              let b58S ← Bip32.toString O x true
              match hexS, b58S with
              | .ok h, .ok b =>
                  let sum := offs.foldl (fun a o => (a + o) % secpQ) 0
                  pure (some (s!"ok:{bytesToHex (natToBe 4 x.version)}:{x.depth}:{bytesToHexW x.parentFp}:{x.childNumber}:" ++
                    s!"{bytesToHexW x.chainCode}:{bytesToHexW x.key}:{h}:{b}:{hex32 sum}:{joinList (offs.map hex32)}"))
              | _, _ => pure (some "panic")
      | _, _, _, _ => pure none
  | ["child", parent, cc, idx] => do
      match hexToBytes? parent, hexToBytes? cc, parseU32? idx with
      | some parent, some cc, some idx =>
          let r ← deriveChild O parent cc idx
          pure (some (outStr (fun c => s!"{hex32 c.offset}:{bytesToHexW c.key}:{bytesToHexW c.chainCode}") r))
      | _, _, _ => pure none
  | ["fp", key] => do
      match hexToBytes? key with
      | some key => pure (some (outStr bytesToHexW (← fingerprint O key)))
      | none => pure none
  | ["b58enc", bs] =>
      match hexToBytes? bs with
      | some bs => pure (some (String.ofList (base58Encode bs)))
      | none => pure none
  | ["b58dec", s] =>
      match base58Decode (if s = "-" then [] else s.toList) with
      | some bs => pure (some ("ok:" ++ bytesToHexW bs))
      | none => pure (some "none")
  | _ => pure none

end SlVerif.Drv.Bip32
