import SlVerif.Model.Wrappers
/-
  Line-protocol handler of Model/Wrappers.lean (first token `wrap`).  Connection numbers, party numbers, ttls, clock
  steps and counters are decimal; tag arguments are big-endian hex numbers; byte strings are hex (`-` = empty).

    wrap tag <t>                                   → 8 bytes
    wrap tag1 <t> <p>                              → 8 bytes
    wrap tag2 <t> <p1> <p2>                        → 8 bytes
    wrap msgid <instance> <sender> <receiver|none> <tag bytes>    → 32 bytes   (asks the sha256 oracle)
    wrap bcast <instance> <sender> <tag bytes>     → 32 bytes   (asks the sha256 oracle)
    wrap tryfrom <bytes>                           → ok:<32 bytes> | err
    wrap askmsg <id> <ttl>                         → <frame>|<id>:<ttl>:<flags> or none|ask or pub or short
    wrap raw <conns> <ops>                         → one record per op, `;`-separated
    wrap stats <conns> <ops>                       → records (`<out>/<sc>.<ss>.<rc>.<rs>` of the acting connection) `|`
                                                     final stats per connection `,`-separated `<sc>.<ss>.<rc>.<rs>.<wait ids +>`
    wrap statsmock <evs> <mock ops>                → records | final stats | frames sunk (+) | events left
    wrap evil <conns> <drops> <injects> <ops>      → records; a poll record is `<out>/<conditions evaluated>/<seen ids sorted +>`
                                                     (the seen set as it was when the conditions were evaluated; `?` if none was)
  ops:      s<c>:<frame>  a<c>:<id>:<ttl>  k<c>  p<c>  t<secs>          (comma separated, `-` = none)
  mock ops: p  s:<frame>;   evs: m:<frame>  p  c
  drops:    <id>@<party or *>;   injects: <msg>~<cond>,  cond: A | N | S<id> | U<id> | P<k> | B<id>/<k> | C<n>
  out:      ok | senderr | panic | r:<frame> | closed | pending | t
-/
namespace SlVerif.Drv.Wrappers
open SlVerif SlVerif.Wrappers
open SlVerif.Relay (SendResult decodeHdr? MESSAGE_HEADER_SIZE)

def sortStrs (l : List String) : List String := (l.toArray.qsort (· < ·)).toList
def plus (l : List String) : String := if l.isEmpty then "-" else String.intercalate "+" l
def commaList? {α} (f : String → Option α) (s : String) : Option (List α) :=
  if s = "-" then some [] else (s.splitOn ",").mapM f

def parseOp? (s : String) : Option Op :=
  match s.toList with
  | 't' :: rest => (String.ofList rest).toNat?.map Op.tick
  | 'k' :: rest => (String.ofList rest).toNat?.map Op.skip
  | 'p' :: rest => (String.ofList rest).toNat?.map Op.poll
  | 's' :: rest =>
      match (String.ofList rest).splitOn ":" with
      | [c, h] => do pure (Op.send (← c.toNat?) (← hexToBytes? h))
      | _ => none
  | 'a' :: rest =>
      match (String.ofList rest).splitOn ":" with
      | [c, id, ttl] => do pure (Op.ask (← c.toNat?) (← hexToBytes? id) (← ttl.toNat?))
      | _ => none
  | _ => none

def parseMockOp? (s : String) : Option MockOp :=
  match s.toList with
  | ['p'] => some .poll
  | 's' :: ':' :: rest => (hexToBytes? (String.ofList rest)).map MockOp.send
  | _ => none

def parseEv? (s : String) : Option Ev :=
  match s.toList with
  | ['p'] => some .pending
  | ['c'] => some .closed
  | 'm' :: ':' :: rest => (hexToBytes? (String.ofList rest)).map Ev.msg
  | _ => none

def parseCond? (s : String) : Option Cond :=
  match s.toList with
  | ['A'] => some .always
  | ['N'] => some .never
  | 'S' :: rest => (hexToBytes? (String.ofList rest)).map Cond.seen
  | 'U' :: rest => (hexToBytes? (String.ofList rest)).map Cond.unseen
  | 'P' :: rest => (String.ofList rest).toNat?.map Cond.party
  | 'C' :: rest => (String.ofList rest).toNat?.map Cond.seenCount
  | 'B' :: rest =>
      match (String.ofList rest).splitOn "/" with
      | [id, k] => do pure (Cond.seenParty (← hexToBytes? id) (← k.toNat?))
      | _ => none
  | _ => none

def parseDrop? (s : String) : Option (Relay.Id × Option Nat) :=
  match s.splitOn "@" with
  | [id, "*"] => do pure (← hexToBytes? id, none)
  | [id, k] => do pure (← hexToBytes? id, some (← k.toNat?))
  | _ => none

def parseInject? (s : String) : Option Inject :=
  match s.splitOn "~" with
  | [m, c] => do pure ⟨← hexToBytes? m, (← parseCond? c).eval⟩
  | _ => none

def resStr : SendResult → String
  | .ok => "ok" | .sendError => "senderr" | .panic => "panic"

def pollStr : Poll → String
  | .ready b => "r:" ++ bytesToHexW b
  | .closed => "closed"
  | .pending => "pending"

def outStr : Out → String
  | .sent r => resStr r
  | .polled p => pollStr p
  | .ticked => "t"

def opConn? : Op → Option Nat
  | .send c _ => some c | .ask c _ _ => some c | .skip c => some c | .poll c => some c | .tick _ => none

def countersStr (st : Stats) : String := s!"{st.sendCount}.{st.sendSize}.{st.recvCount}.{st.recvSize}"
def statsStr (st : Stats) : String := countersStr st ++ "." ++ plus (st.waitIds.map bytesToHexW)

def joinRecs (l : List String) : String := if l.isEmpty then "-" else String.intercalate ";" l

def runRaw (n : Nat) (ops : List Op) : String :=
  joinRecs ((runWith rawStep (Net.new n) ops).2.map outStr)

def runStats (n : Nat) (ops : List Op) : String :=
  let rec go (y : StatsSys) : List Op → List String × StatsSys
    | [] => ([], y)
    | op :: rest =>
        let (y', o) := statsStep y op
        let r := match opConn? op with
          | some c => outStr o ++ "/" ++ countersStr (y'.statsOf c)
          | none => outStr o
        let (rs, yf) := go y' rest
        (r :: rs, yf)
  let (recs, yf) := go (StatsSys.new n) ops
  joinRecs recs ++ "|" ++ String.intercalate "," (yf.stats.map statsStr)

/-- the mock sink of the harness refuses exactly the frames without a header (like `MessageRelay`) -/
def mockAccept (f : Bytes) : SendResult := if f.length < MESSAGE_HEADER_SIZE then .sendError else .ok

def runMock (evs : List Ev) (ops : List MockOp) : String :=
  let (y, outs) := mockRun mockAccept { script := evs } ops
  joinRecs (outs.map outStr) ++ "|" ++ statsStr y.stats ++ "|" ++ plus (y.sunk.map bytesToHexW) ++ "|" ++ toString y.script.length

def runEvil (n : Nat) (play : EvilPlay) (ops : List Op) : String :=
  let rec go (y : EvilSys) : List Op → List String
    | [] => []
    | op :: rest =>
        let (y', o) := evilStep y op
        let r := match op with
          | .poll c =>
              let k := y.play.evalCount c
              outStr o ++ "/" ++ toString k ++ "/" ++ (if k = 0 then "?" else plus (sortStrs (y.play.seen.map bytesToHexW)))
          | _ => outStr o
        r :: go y' rest
  joinRecs (go (EvilSys.new n play) ops)

def handle (O : Query → IO Bytes) : List String → IO (Option String)
  | ["tag", t] => pure do some (bytesToHexW (tag (← parseHexNat? t)))
  | ["tag1", t, p] => pure do some (bytesToHexW (tag1 (← parseHexNat? t) (← parseHexNat? p)))
  | ["tag2", t, p1, p2] => pure do some (bytesToHexW (tag2 (← parseHexNat? t) (← parseHexNat? p1) (← parseHexNat? p2)))
  | ["msgid", inst, sender, receiver, tg] => do
      let recv? : Option (Option Bytes) := if receiver = "none" then some none else (hexToBytes? receiver).map some
      match hexToBytes? inst, hexToBytes? sender, recv?, hexToBytes? tg with
      | some inst, some sender, some receiver, some tg =>
          pure (some (bytesToHexW (← msgIdNew O inst sender receiver tg)))
      | _, _, _, _ => pure none
  | ["bcast", inst, sender, tg] => do
      match hexToBytes? inst, hexToBytes? sender, hexToBytes? tg with
      | some inst, some sender, some tg => pure (some (bytesToHexW (← msgIdBroadcast O inst sender tg)))
      | _, _, _ => pure none
  | ["tryfrom", b] => pure do
      match msgIdTryFrom (← hexToBytes? b) with
      | some id => some ("ok:" ++ bytesToHexW id)
      | none => some "err"
  | ["askmsg", id, ttl] => pure do
      let f := askAllocate (← hexToBytes? id) (← ttl.toNat?)
      let dec := match decodeHdr? f with
        | some h => s!"{bytesToHexW h.id}:{h.ttl}:{h.flags}"
        | none => "none"
      let cls := if f.length < MESSAGE_HEADER_SIZE then "short" else if f.length = MESSAGE_HEADER_SIZE then "ask" else "pub"
      some (bytesToHexW f ++ "|" ++ dec ++ "|" ++ cls)
  | ["raw", n, ops] => pure do some (runRaw (← n.toNat?) (← commaList? parseOp? ops))
  | ["stats", n, ops] => pure do some (runStats (← n.toNat?) (← commaList? parseOp? ops))
  | ["statsmock", evs, ops] => pure do some (runMock (← commaList? parseEv? evs) (← commaList? parseMockOp? ops))
  | ["evil", n, drops, injects, ops] => pure do
      let play : EvilPlay := { drops := ← commaList? parseDrop? drops, injects := ← commaList? parseInject? injects }
      some (runEvil (← n.toNat?) play (← commaList? parseOp? ops))
  | _ => pure none

end SlVerif.Drv.Wrappers
