import SlVerif.Model.SoftSpoken
namespace SlVerif.Drv.SoftSpoken
open SlVerif SlVerif.SoftSpoken SlVerif.Generated

/-- split a byte string into `n` chunks of `w` bytes -/
def chunks (w : Nat) : Nat → Bytes → List Bytes
  | 0, _ => []
  | n+1, bs => bs.take w :: chunks w n (bs.drop w)

/-- `[[[u8; LAMBDA_C_BYTES]; Q]; LAMBDA_C/K]` -/
def parseKeys? (s : String) : Option (List (List Bytes)) := do
  let bs ← hexToBytes? s
  if bs.length ≠ LAMBDA_C_DIV_SOFT_SPOKEN_K * SOFT_SPOKEN_Q * LAMBDA_C_BYTES then none else
  some ((chunks (SOFT_SPOKEN_Q * LAMBDA_C_BYTES) LAMBDA_C_DIV_SOFT_SPOKEN_K bs).map
    (chunks LAMBDA_C_BYTES SOFT_SPOKEN_Q))

def parseR1? (s : String) : Option Round1Output := do
  let bs ← hexToBytes? s
  if bs.length ≠ R1_BYTES then none else some (Round1Output.parse bs)

def parseFixed? (n : Nat) (s : String) : Option Bytes := do
  let bs ← hexToBytes? s
  if bs.length ≠ n then none else some bs

/-- `[[[u8; KAPPA_BYTES]; OT_WIDTH]; L]` -/
def outHex (v : List (List Bytes)) : String := bytesToHex (v.flatMap fun ks => ks.flatMap id)

/-- deviations `i:e:g,i:e:g,…` (i, g hex numbers; e = L_PRIME_BYTES bytes hex), `-` = none -/
def parseDevs? (s : String) : Option (List (Nat × Nat) × List (Nat × Nat)) :=
  if s = "-" then some ([], []) else do
    let items ← (s.splitOn ",").mapM fun it =>
      match it.splitOn ":" with
      | [i, e, g] => do
          let i ← parseHexNat? i
          let e ← parseFixed? L_PRIME_BYTES e
          let g ← parseHexNat? g
          some (i, leToNat e, g)
      | _ => none
    some (items.map fun (i, e, _) => (i, e), items.map fun (i, _, g) => (i, g))

/-- bit positions: comma-separated items `p` or `a-b` (a ≤ p < b), hex numbers -/
def parsePositions? (s : String) : Option (List Nat) := do
  let items ← (s.splitOn ",").mapM fun it =>
    match it.splitOn "-" with
    | [p] => do let p ← parseHexNat? p; some [p]
    | [a, b] => do let a ← parseHexNat? a; let b ← parseHexNat? b; some (List.range' a (b - a))
    | _ => none
  some (items.flatMap id)

/-- verdicts of the sender on many messages; messages whose `u` equals that of `base` reuse the row check values
    of `base` (`checkAllQ`), the others go through `senderVerdict` -/
def verdictsMemo (O : Query → IO Bytes) (sid : Bytes) (rc : List Nat) (rs : List (List Nat)) (base : Round1Output)
    (msgs : List Round1Output) : IO (List Bool) := do
  let chi ← chiAll O sid base.u
  let q := (sendWRows rs rc base.u).map (checkRow chi)
  let nabla := packedNabla rc
  msgs.mapM fun msg =>
    if msg.u = base.u then pure (checkAllQ q nabla msg) else senderVerdict O sid rc rs msg

/-- `ss recv <sid> <encKeys> <choices> <tape>`            → `<round1 bytes>:<v_x bytes>:<tape bytes used>`
    `ss send <sid> <randomChoices> <decKeys> <round1>`     → `ok:<v_0 bytes><v_1 bytes>` | `ban`
    `ss adv <sid> <encKeys> <choices> <tape> <devs>[;<devs>…]` → `<round1 bytes>[,<round1 bytes>…]`
    `ss verdicts <sid> <randomChoices> <decKeys> <round1>[,<round1>…]` → one char per message (`1` accepted, `0` ban)
    `ss flips <sid> <randomChoices> <decKeys> <round1> <positions>` → one char per listed bit position
                                                              (items `p` or `a-b` = a ≤ p < b, hex, comma-separated):
                                                              verdict of the sender on the message with that bit flipped
                                                              (`1` accepted, `0` ban)
    `ss tamper flip <round1> <pos>` | `swapu <round1> <i> <j>` | `swapt <round1> <i> <j>` → `<round1 bytes>` -/
def handle (O : Query → IO Bytes) : List String → IO (Option String)
  | ["recv", sid, keys, choices, tape] => do
      match hexToBytes? sid, parseKeys? keys, parseFixed? L_BYTES choices, hexToBytes? tape with
      | some sid, some keys, some choices, some tape =>
          let (r1, ext, rest) ← receiverProcess O sid keys choices tape
          pure (some s!"{bytesToHex r1.serialize}:{outHex ext.v_x}:{tape.length - rest.length}")
      | _, _, _, _ => pure none
  | ["send", sid, rc, keys, r1] => do
      match hexToBytes? sid, parseFixed? LAMBDA_C_DIV_SOFT_SPOKEN_K rc, parseKeys? keys, parseR1? r1 with
      | some sid, some rc, some keys, some r1 =>
          match ← senderProcess O sid rc keys r1 with
          | .ok so => pure (some s!"ok:{outHex so.v_0}{outHex so.v_1}")
          | .error _ => pure (some "ban")
      | _, _, _, _ => pure none
  | ["adv", sid, keys, choices, tape, devs] => do
      match hexToBytes? sid, parseKeys? keys, parseFixed? L_BYTES choices, hexToBytes? tape,
            (devs.splitOn ";").mapM parseDevs? with
      | some sid, some keys, some choices, some tape, some [(es, gs)] =>
          let r1 ← advReceiver O sid keys choices tape (lookupD es) (lookupD gs)
          pure (some (bytesToHex r1.serialize))
      | some sid, some keys, some choices, some tape, some sets =>
          -- several deviation sets `devs;devs;…` against the same honest inputs: the seed expansion is shared
          let rs ← recvExpand O sid keys
          let c := (extChoices choices tape).1
          let ms ← sets.mapM fun (es, gs) => advAfterExpand O sid rs c (lookupD es) (lookupD gs)
          pure (some (String.intercalate "," (ms.map fun r1 => bytesToHex r1.serialize)))
      | _, _, _, _, _ => pure none
  | ["verdicts", sid, rc, keys, msgs] => do
      match hexToBytes? sid, parseFixed? LAMBDA_C_DIV_SOFT_SPOKEN_K rc, parseKeys? keys,
            (msgs.splitOn ",").mapM parseR1? with
      | some sid, some rc, some keys, some ms =>
          let rs ← sendExpand O sid rc keys
          let vs ← verdictsMemo O sid rc rs (ms.headD { u := [], x := 0, t := [] }) ms
          pure (some (String.ofList (vs.map fun v => if v then '1' else '0')))
      | _, _, _, _ => pure none
  | ["flips", sid, rc, keys, r1, items] => do
      match hexToBytes? sid, parseFixed? LAMBDA_C_DIV_SOFT_SPOKEN_K rc, parseKeys? keys, parseR1? r1,
            parsePositions? items with
      | some sid, some rc, some keys, some r1, some ps =>
          let rs ← sendExpand O sid rc keys
          let vs ← verdictsMemo O sid rc rs r1 (ps.map (tamperBitFast r1))
          pure (some (String.ofList (vs.map fun v => if v then '1' else '0')))
      | _, _, _, _, _ => pure none
  | ["tamper", "flip", r1, pos] =>
      match parseR1? r1, parseHexNat? pos with
      | some r1, some pos => pure (some (bytesToHex (tamperBit r1 pos).serialize))
      | _, _ => pure none
  | ["tamper", "swapu", r1, i, j] =>
      match parseR1? r1, parseHexNat? i, parseHexNat? j with
      | some r1, some i, some j => pure (some (bytesToHex (tamperSwapU r1 i j).serialize))
      | _, _, _ => pure none
  | ["tamper", "swapt", r1, i, j] =>
      match parseR1? r1, parseHexNat? i, parseHexNat? j with
      | some r1, some i, some j => pure (some (bytesToHex (tamperSwapT r1 i j).serialize))
      | _, _, _ => pure none
  | _ => pure none

end SlVerif.Drv.SoftSpoken
