import SlVerif.Model.Basic
import SlVerif.Model.Field
import SlVerif.Model.Matrix
namespace SlVerif.Drv
open SlVerif

/-- scalar on the wire: big-endian hex of the canonical value (any length, leading zeros allowed) -/
def parseFq? (s : String) : Option Fq := (parseHexNat? s).map Fq.mk'
def fqHex (x : Fq) : String := bytesToHex (natToBe 32 x.val)

def parseList? {α} (f : String → Option α) (s : String) : Option (List α) :=
  if s = "-" then some [] else (s.splitOn ",").mapM f

def joinList (l : List String) : String := if l.isEmpty then "-" else String.intercalate "," l

def outcomeStr {α} (f : α → String) : Outcome α → String
  | .ok v => "ok:" ++ f v
  | .err _ => "err"
  | .panic _ => "panic"

def listToVector? {α} (l : List α) (n : Nat) : Option (Vector α n) :=
  if h : l.length = n then some ⟨l.toArray, by simpa using h⟩ else none

def toMat? (n : Nat) (l : List Fq) : Option (Mat.M Fq n) :=
  if l.length ≠ n * n then none else
  listToVector? ((List.range n).filterMap fun i => listToVector? ((l.drop (i*n)).take n) n) n

def matStr {n : Nat} (A : Mat.M Fq n) : String :=
  joinList (A.toList.flatMap fun r => r.toList.map fqHex)

end SlVerif.Drv
