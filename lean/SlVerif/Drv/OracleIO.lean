import SlVerif.Model.Oracle
/- the IO instance of the oracle: print `?<query>`, read one hex line -/
namespace SlVerif.Drv
open SlVerif

def ioOracle (hin hout : IO.FS.Stream) (q : Query) : IO Bytes := do
  hout.putStrLn ("?" ++ q.toLine)
  hout.flush
  let line ← hin.getLine
  match hexToBytes? line.trimAscii.toString with
  | some b => pure b
  | none => throw (IO.userError s!"oracle: bad answer {line}")

end SlVerif.Drv
